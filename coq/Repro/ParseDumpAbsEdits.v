(** parse_dump_abs applied to the edit operations of C05: what a FRESH PARSE of the dump shows
    after an edit.

    Part 1: an accepted set keeps the item structure parser-shaped ([doc_canon]); the fresh parse
            of the new dump is the edited document (paragraph classes aside), so the read-back
            statements of DocProofs.v hold for the re-parsed paragraph.
    Part 2: any history, including deletes that empty a paragraph: the fresh parse is the
            document with emptied paragraphs dropped and the blank lines around them merged
            ([squash]). *)
From Coq Require Import Lia ZifyBool.
From Verif Require Import Repro.DocSpec.
From Verif Require Import Lib.Base Lib.PyStr Gen.PyChars Repro.Doc Repro.DocInv Repro.DocDup
  Repro.DocProofs Repro.Abs Repro.ParseDumpAbs.

(** * Part 1 : one accepted set *)

Lemma plain_doc_app a b : plain_doc (a ++ b) = plain_doc a ++ plain_doc b.
Proof. apply map_app. Qed.

Lemma adj_canon_para p p' nx : adj_canon (Para p) nx = adj_canon (Para p') nx.
Proof. reflexivity. Qed.

Lemma adj_canon_para_r it p p' : adj_canon it (Para p) = adj_canon it (Para p').
Proof. destruct it as [q|[] t]; reflexivity. Qed.

Lemma doc_canon_replace a p b p' :
  doc_canon (a ++ Para p :: b) = true -> para_fields p' <> [] ->
  doc_canon (a ++ Para p' :: b) = true.
Proof.
  intros H Hne. induction a as [|x a IH].
  - cbn [app doc_canon] in *. apply andb_true_iff in H. destruct H as [H H3].
    apply andb_true_iff in H. destruct H as [_ H2]. rewrite H3, andb_true_r.
    apply andb_true_iff. split.
    + cbn [item_canon]. now destruct (para_fields p').
    + destruct b; [reflexivity|exact H2].
  - cbn [app doc_canon] in *. apply andb_true_iff in H. destruct H as [H H3].
    apply andb_true_iff in H. destruct H as [H1 H2]. rewrite H1, (IH H3), andb_true_r. cbn [andb].
    destruct a as [|y a]; cbn [app] in *; [|exact H2]. now rewrite (adj_canon_para_r x p' p).
Qed.

Lemma new_for_nonempty p k p' v orig : new_for p k p' v orig -> para_fields p' <> [].
Proof.
  destruct orig as [f|]; cbn [new_for].
  - intros [l1 [l2 [_ [_ [_ [E _]]]]]]. rewrite E. destruct l1; discriminate.
  - intros [_ [E _]]. rewrite E. destruct (map_last add_nl (para_fields p)); discriminate.
Qed.

Lemma para_inv_plain p : para_inv p = true -> para_inv (PN (para_fields p)) = true.
Proof. intros H. cbn [para_inv]. now apply para_inv_fields. Qed.

(** reading the re-parsed paragraph (no-duplicates class, same fields) = reading the live one *)
Lemma getitem_plain p k :
  para_inv p = true -> plain_key k = true -> getitem (PN (para_fields p)) k = getitem p k.
Proof.
  intros Hinv Hk. rewrite (getitem_fields p k Hinv Hk).
  now rewrite (getitem_fields (PN (para_fields p)) k (para_inv_plain p Hinv) Hk).
Qed.

Lemma doc_wf_parts d :
  doc_wf d = true -> doc_inv d = true /\ DocInv.lines_ok d = true /\ forallb para_wf (paras d) = true.
Proof.
  unfold doc_wf, doc_ok. intros H. apply andb_true_iff in H. destruct H as [H H3].
  apply andb_true_iff in H. destruct H as [H1 H2]. now repeat split.
Qed.

(** the fresh parse after ANY accepted set-like operation (p[k] = v, set_field_to_simple_value,
    set_field_from_raw_string): the edited paragraph with exactly the fields of the live object,
    every other item as before *)
Theorem setter_reparse d o d' :
  doc_wf d = true -> doc_canon d = true ->
  match o with ODel _ _ => false | _ => true end = true ->
  run_op d o = Ok d' ->
  exists a p b p' v orig,
    split_doc d (op_para o) = Some (a, p, b) /\ d' = a ++ Para p' :: b /\
    new_for p (op_key o) p' v orig /\ para_edit o p p' /\ para_inv p = true /\ para_inv p' = true /\
    doc_wf d' = true /\ doc_canon d' = true /\
    py_reparse (dump d') = Ok (plain_doc a ++ Para (PN (para_fields p')) :: plain_doc b) /\
    py_reparse_strict (dump d') = Ok (plain_doc a ++ Para (PN (para_fields p')) :: plain_doc b).
Proof.
  intros Hwf Hc Hset H.
  pose proof (run_op_wf _ _ _ Hwf H) as Hwf'.
  destruct (doc_wf_parts _ Hwf) as [Hinv _].
  destruct (run_op_local _ _ _ Hinv H) as [Hinv' [a [p [b [p' [Hs [-> [Hp He]]]]]]]].
  assert (He' : exists v orig, own_lines v = true /\ new_for p (op_key o) p' v orig).
  { destruct o; [|discriminate| |]; destruct He as [w [orig [H1 [H2 _]]]]; now exists w, orig. }
  destruct He' as [v [orig [_ Hnew]]].
  assert (Hp' : para_inv p' = true).
  { rewrite doc_inv_split in Hinv'. apply andb_true_iff in Hinv'. destruct Hinv' as [_ Hinv'].
    apply andb_true_iff in Hinv'. now destruct Hinv'. }
  assert (Hc' : doc_canon (a ++ Para p' :: b) = true).
  { rewrite (split_doc_eq _ _ _ _ _ Hs) in Hc. apply (doc_canon_replace a p b p' Hc).
    now apply (new_for_nonempty p (op_key o) p' v orig). }
  destruct (py_parse_dump_abs_wf _ Hwf' Hc') as [R1 R2].
  rewrite plain_doc_app in R1, R2. cbn [plain_doc map plain_item] in R1, R2.
  exists a, p, b, p', v, orig. repeat split; assumption.
Qed.

(** C05 set_readback, full: after a successful [p[k] = value] a fresh parse of the dump shows
    the new value under every case spelling of the name (with or without index 0), the name in
    its original spelling (a new name spelled as given, at the end), every other field of the
    paragraph and every other item of the document as before *)
Theorem set_readback_full d j k value d' :
  doc_wf d = true -> doc_canon d = true ->
  run_op d (OSet j k value) = Ok d' ->
  exists a p b p' v orig,
    split_doc d j = Some (a, p, b) /\ d' = a ++ Para p' :: b /\
    py_reparse (dump d') = Ok (plain_doc a ++ Para (PN (para_fields p')) :: plain_doc b) /\
    new_for p k p' v orig /\
    (forall k', name_eqb (key_name k') (key_name k) = true -> plain_key k' = true ->
                getitem (PN (para_fields p')) k' = Ok (value_str v)) /\
    (valid_value value = true ->
       f_rest v = COLON :: setitem_raw value /\ value_str v = expected_read value) /\
    (forall k', plain_key k' = true -> name_eqb (key_name k') (key_name k) = false ->
                getitem (PN (para_fields p')) k' = getitem p k') /\
    map f_name (para_fields p') =
      match orig with
      | Some _ => map f_name (para_fields p)
      | None => map f_name (para_fields p) ++ [key_name k]
      end.
Proof.
  intros Hwf Hc H.
  destruct (setter_reparse d (OSet j k value) d' Hwf Hc eq_refl H)
    as [a [p [b [p' [v0 [orig0 [Hs [-> [_ [He [Hp [Hp' [_ [_ [R _]]]]]]]]]]]]]]].
  cbn [op_para op_key] in Hs.
  destruct (run_op_ok _ _ _ H) as [a0 [p0 [b0 [p0' [Hs0 [Hop E]]]]]].
  cbn [op_para] in Hs0. rewrite Hs in Hs0. injection Hs0 as <- <- <-.
  apply app_inv_head in E. injection E as <-. cbn [op_on_para] in Hop.
  destruct (setitem_readback _ _ _ _ Hp Hop) as [_ [v [orig [Hown [Hnew [Hcm Hval]]]]]].
  exists a, p, b, p', v, orig. repeat split; try assumption.
  - intros k' Hk Hplain. rewrite (getitem_plain p' k' Hp' Hplain).
    exact (getitem_new p k p' v orig k' Hp' Hnew Hk Hplain).
  - now apply Hval.
  - now apply Hval.
  - intros k' Hplain Hk. rewrite (getitem_plain p' k' Hp' Hplain).
    exact (others_unchanged (OSet j k value) p p' k' Hp Hp' He Hplain Hk).
  - now apply (names_after_set p k p' v orig).
Qed.

(** the same for any setter, without the value *)
Theorem setter_readback_full d o d' k' :
  doc_wf d = true -> doc_canon d = true ->
  match o with ODel _ _ => false | _ => true end = true ->
  run_op d o = Ok d' -> plain_key k' = true ->
  exists a p b p' v orig,
    split_doc d (op_para o) = Some (a, p, b) /\ d' = a ++ Para p' :: b /\
    py_reparse (dump d') = Ok (plain_doc a ++ Para (PN (para_fields p')) :: plain_doc b) /\
    new_for p (op_key o) p' v orig /\
    (name_eqb (key_name k') (key_name (op_key o)) = true ->
       getitem (PN (para_fields p')) k' = Ok (value_str v)) /\
    (name_eqb (key_name k') (key_name (op_key o)) = false ->
       getitem (PN (para_fields p')) k' = getitem p k').
Proof.
  intros Hwf Hc Hset H Hplain.
  destruct (setter_reparse d o d' Hwf Hc Hset H)
    as [a [p [b [p' [v [orig [Hs [-> [Hnew [He [Hp [Hp' [_ [_ [R _]]]]]]]]]]]]]]].
  exists a, p, b, p', v, orig. repeat split; try assumption.
  - intros Hk. rewrite (getitem_plain p' k' Hp' Hplain).
    exact (getitem_new p (op_key o) p' v orig k' Hp' Hnew Hk Hplain).
  - intros Hk. rewrite (getitem_plain p' k' Hp' Hplain).
    exact (others_unchanged o p p' k' Hp Hp' He Hplain Hk).
Qed.

(** * Part 2 : any history — emptied paragraphs *)

Lemma squash_cons_para p d :
  squash (Para p :: d) = if Doc.is_nil (para_fields p) then squash d else Para p :: squash d.
Proof. reflexivity. Qed.

Lemma dump_squash d : dump (squash d) = dump d.
Proof.
  induction d as [|it d IH]; [reflexivity|]. rewrite dump_cons. cbn [squash].
  destruct it as [p|[] t].
  - destruct (para_fields p) eqn:E; cbn [Doc.is_nil].
    + rewrite IH. unfold item_text, para_text. now rewrite E.
    + now rewrite dump_cons, IH.
  - rewrite <- IH. destruct (squash d) as [|[q|[] t2] r'].
    + reflexivity.
    + now rewrite dump_cons.
    + destruct (ends_nl t2); rewrite !dump_cons; cbn [item_text]; [now rewrite app_assoc|reflexivity].
    + now rewrite dump_cons.
    + now rewrite dump_cons.
  - now rewrite dump_cons, IH.
  - now rewrite dump_cons, IH.
Qed.

Lemma paras_squash_in d q : In q (paras (squash d)) -> In q (paras d).
Proof.
  induction d as [|it d IH]; [trivial|]. cbn [squash]. destruct it as [p|[] t].
  - destruct (Doc.is_nil (para_fields p)); cbn [paras flat_map app In] in *; [now right; apply IH|].
    intros [H|H]; [now left|right; now apply IH].
  - cbn [paras flat_map app] in *. intros H. apply IH.
    destruct (squash d) as [|[q'|[] t2] r']; try exact H.
    destruct (ends_nl t2); exact H.
  - exact IH.
  - exact IH.
Qed.

Lemma forallb_paras_squash (P : para -> bool) d :
  forallb P (paras d) = true -> forallb P (paras (squash d)) = true.
Proof.
  intros H. rewrite forallb_forall in *. intros q Hq. now apply H, paras_squash_in.
Qed.

Lemma lines_ok_cons it d :
  DocInv.lines_ok (it :: d) = true ->
  (d <> [] -> item_closed it = true) /\ item_inner it = true /\ DocInv.lines_ok d = true.
Proof.
  cbn [DocInv.lines_ok]. intros H. apply andb_true_iff in H. destruct H as [H H3].
  apply andb_true_iff in H. destruct H as [H1 H2]. repeat split; try assumption.
  intros Hne. destruct d; [exfalso; now apply Hne|exact H1].
Qed.

Lemma lines_ok_intro it d :
  (d <> [] -> item_closed it = true) -> item_inner it = true -> DocInv.lines_ok d = true ->
  DocInv.lines_ok (it :: d) = true.
Proof.
  intros H1 H2 H3. cbn [DocInv.lines_ok]. rewrite H2, H3, !andb_true_r.
  destruct d; [reflexivity|]. cbn [Doc.is_nil orb]. apply H1. discriminate.
Qed.

Lemma squash_nonnil_inv d : squash d <> [] -> d <> [].
Proof. destruct d; [cbn; intros H; exact H|discriminate]. Qed.

Lemma lines_ok_squash d : DocInv.lines_ok d = true -> DocInv.lines_ok (squash d) = true.
Proof.
  induction d as [|it d IH]; intros H; [reflexivity|].
  apply lines_ok_cons in H. destruct H as [H1 [H2 H3]]. specialize (IH H3).
  assert (Hplain : DocInv.lines_ok (it :: squash d) = true).
  { apply lines_ok_intro; try assumption. intros Hne. now apply H1, squash_nonnil_inv. }
  cbn [squash]. destruct it as [p|[] t]; try exact Hplain.
  - destruct (Doc.is_nil (para_fields p)); [exact IH|exact Hplain].
  - destruct (squash d) as [|[q|[] t2] r'] eqn:E; try exact Hplain.
    destruct (ends_nl t2) eqn:Et; [|exact Hplain].
    apply lines_ok_cons in IH. destruct IH as [_ [_ IH3]].
    apply lines_ok_intro; [|reflexivity|exact IH3]. intros _. cbn [item_closed].
    apply closed_app; [|now apply ends_nl_closed].
    apply (H1 ltac:(apply squash_nonnil_inv; rewrite E; discriminate)).
Qed.

Lemma doc_wf_squash d : doc_wf d = true -> doc_wf (squash d) = true.
Proof.
  intros H. destruct (doc_wf_parts _ H) as [H1 [H2 H3]]. unfold doc_wf, doc_ok, doc_inv in *.
  now rewrite (forallb_paras_squash _ _ H1), (lines_ok_squash _ H2), (forallb_paras_squash _ _ H3).
Qed.

(** ** the squashed document is parser-shaped *)
Lemma doc_shape_cons it d :
  doc_shape (it :: d) = true ->
  item_shape it = true /\ match d with nx :: _ => adj_shape it nx | [] => true end = true
  /\ doc_shape d = true.
Proof.
  cbn [doc_shape]. intros H. apply andb_true_iff in H. destruct H as [H H3].
  apply andb_true_iff in H. destruct H as [H1 H2]. now repeat split.
Qed.

Lemma doc_canon_intro it d :
  item_canon it = true -> match d with nx :: _ => adj_canon it nx | [] => true end = true ->
  doc_canon d = true -> doc_canon (it :: d) = true.
Proof. intros H1 H2 H3. cbn [doc_canon]. now rewrite H1, H2, H3. Qed.

Lemma squash_hd_other k t d : exists t' r, squash (Other k t :: d) = Other k t' :: r.
Proof.
  cbn [squash]. destruct k; try (eexists _, _; reflexivity).
  destruct (squash d) as [|[q|[] t2] r']; try (eexists _, _; reflexivity).
  destruct (ends_nl t2); eexists _, _; reflexivity.
Qed.

Lemma ws_text_ok_app t t2 :
  closed t = true -> ws_text_ok t = true -> ws_text_ok t2 = true -> ends_nl t2 = true ->
  ws_text_ok (t ++ t2) = true.
Proof.
  unfold ws_text_ok. intros Hcl H H2 He.
  apply andb_true_iff in H. destruct H as [H _]. apply andb_true_iff in H. destruct H as [Hn Hl].
  apply andb_true_iff in H2. destruct H2 as [H2 _]. apply andb_true_iff in H2. destruct H2 as [_ Hl2].
  rewrite lf_lines_app_closed by exact Hcl. rewrite forallb_app, Hl, Hl2.
  rewrite (ends_nl_app_r t t2 He). cbn [andb orb]. rewrite andb_true_r.
  destruct t; [discriminate|reflexivity].
Qed.

Lemma adj_canon_ws_l t t' nx : adj_canon (Other OWs t) nx = adj_canon (Other OWs t') nx.
Proof. reflexivity. Qed.

Theorem squash_canon d :
  doc_shape d = true -> DocInv.lines_ok d = true -> doc_canon (squash d) = true.
Proof.
  induction d as [|it d IH]; intros Hs Hl; [reflexivity|].
  apply doc_shape_cons in Hs. destruct Hs as [Hs1 [Hs2 Hs3]].
  apply lines_ok_cons in Hl. destruct Hl as [Hl1 [_ Hl3]]. specialize (IH Hs3 Hl3).
  destruct it as [p|[] t]; cbn [item_shape item_canon] in Hs1; try discriminate.
  - (* a paragraph *)
    rewrite squash_cons_para. destruct (Doc.is_nil (para_fields p)) eqn:Ep; [exact IH|].
    apply doc_canon_intro; [cbn [item_canon]; now rewrite Ep| |exact IH].
    destruct d as [|nx d']; [reflexivity|]. destruct nx as [q|k2 t2]; [discriminate Hs2|].
    destruct (squash_hd_other k2 t2 d') as [t' [r ->]]. reflexivity.
  - (* blank lines *)
    cbn [squash]. destruct (squash d) as [|[q|[] t2] r'] eqn:E.
    + apply doc_canon_intro; [exact Hs1|reflexivity|reflexivity].
    + apply doc_canon_intro; [exact Hs1|reflexivity|exact IH].
    + destruct (ends_nl t2) eqn:Et.
      * apply doc_canon_cons in IH. destruct IH as [I1 [I2 I3]].
        apply doc_canon_intro; [|exact I2|exact I3]. cbn [item_canon] in *.
        apply ws_text_ok_app; try assumption.
        apply (Hl1 ltac:(apply squash_nonnil_inv; rewrite E; discriminate)).
      * apply doc_canon_intro; [exact Hs1|cbn [adj_canon]; now rewrite Et|exact IH].
    + apply doc_canon_intro; [exact Hs1|reflexivity|exact IH].
    + apply doc_canon_cons in IH. destruct IH as [I1 _]. discriminate I1.
  - (* a free comment: blank lines or the end follow *)
    cbn [squash]. apply doc_canon_intro; [exact Hs1| |exact IH].
    destruct d as [|nx d']; [reflexivity|].
    destruct nx as [q|[] t2]; cbn [adj_canon] in Hs2; try discriminate.
    destruct (squash_hd_other OWs t2 d') as [t' [r ->]]. reflexivity.
Qed.

Lemma doc_canon_shape d : doc_canon d = true -> doc_shape d = true.
Proof.
  induction d as [|it d IH]; [trivial|]. intros H. apply doc_canon_cons in H.
  destruct H as [H1 [H2 H3]]. cbn [doc_shape]. rewrite (IH H3), andb_true_r.
  apply andb_true_iff. split; [now destruct it|].
  destruct d as [|nx d']; [reflexivity|]. unfold adj_shape. now destruct it as [p|[] t].
Qed.

Lemma doc_shape_replace a p b p' :
  doc_shape (a ++ Para p :: b) = true -> doc_shape (a ++ Para p' :: b) = true.
Proof.
  intros H. induction a as [|x a IH].
  - exact H.
  - cbn [app doc_shape] in *. apply andb_true_iff in H. destruct H as [H H3].
    apply andb_true_iff in H. destruct H as [H1 H2]. rewrite H1, (IH H3), andb_true_r. cbn [andb].
    destruct a as [|y a]; cbn [app] in *; [|exact H2]. unfold adj_shape in *.
    destruct x as [q|[] t]; try exact H2; reflexivity.
Qed.

Lemma run_op_shape d o d' : doc_shape d = true -> run_op d o = Ok d' -> doc_shape d' = true.
Proof.
  intros Hs H. destruct (run_op_ok _ _ _ H) as [a [p [b [p' [Hsp [_ ->]]]]]].
  rewrite (split_doc_eq _ _ _ _ _ Hsp) in Hs. now apply (doc_shape_replace a p b p').
Qed.

Lemma run_shape ops : forall d, doc_shape d = true -> doc_shape (run d ops) = true.
Proof.
  induction ops as [|o ops IH]; intros d H; [exact H|].
  unfold run. cbn [fold_left]. apply IH. unfold step.
  destruct (run_op d o) as [d'|e] eqn:E; [|exact H]. now apply (run_op_shape d o).
Qed.

(** the fresh parse of any document reachable by field edits *)
Theorem reparse_squash d :
  doc_wf d = true -> doc_shape d = true ->
  py_reparse (dump d) = Ok (plain_doc (squash d))
  /\ py_reparse_strict (dump d) = Ok (plain_doc (squash d)).
Proof.
  intros Hwf Hs. destruct (doc_wf_parts _ Hwf) as [_ [Hl _]].
  rewrite <- (dump_squash d).
  apply py_parse_dump_abs_wf; [now apply doc_wf_squash|now apply squash_canon].
Qed.

Theorem reparse_history d ops :
  doc_wf d = true -> doc_canon d = true ->
  doc_wf (run d ops) = true /\ doc_shape (run d ops) = true
  /\ py_reparse (dump (run d ops)) = Ok (plain_doc (squash (run d ops))).
Proof.
  intros Hwf Hc. pose proof (run_wf ops d Hwf) as Hwf'.
  pose proof (run_shape ops d (doc_canon_shape d Hc)) as Hs'.
  split; [exact Hwf'|]. split; [exact Hs'|]. now apply reparse_squash.
Qed.

(** ** where nothing was emptied, nothing is squashed *)
Lemma squash_canon_id d : doc_canon d = true -> squash d = d.
Proof.
  induction d as [|it d IH]; [trivial|]. intros H. apply doc_canon_cons in H.
  destruct H as [H1 [H2 H3]]. cbn [squash]. rewrite (IH H3).
  destruct it as [p|[] t]; try reflexivity.
  - cbn [item_canon] in H1. apply negb_true_iff in H1. now rewrite H1.
  - destruct d as [|[q|[] t2] d']; try reflexivity. cbn [adj_canon] in H2.
    apply negb_true_iff in H2. now rewrite H2.
Qed.

Lemma squash_app_para a p b :
  para_fields p <> [] -> squash (a ++ Para p :: b) = squash a ++ Para p :: squash b.
Proof.
  intros Hne. assert (Ep : Doc.is_nil (para_fields p) = false) by (destruct (para_fields p); [congruence|reflexivity]).
  induction a as [|x a IH].
  - cbn [app]. rewrite squash_cons_para. now rewrite Ep.
  - cbn [app squash]. rewrite IH. destruct x as [q|[] t]; try reflexivity.
    + now destruct (Doc.is_nil (para_fields q)).
    + destruct (squash a) as [|[q|[] t2] r']; try reflexivity.
      cbn [app]. now destruct (ends_nl t2).
Qed.

Lemma squash_app_empty a p b :
  para_fields p = [] -> squash (a ++ Para p :: b) = squash (a ++ b).
Proof.
  intros He. induction a as [|x a IH].
  - cbn [app]. rewrite squash_cons_para. now rewrite He.
  - cbn [app squash]. now rewrite IH.
Qed.

(** C05 delete read-back, full: after a successful [del p[k]] a fresh parse of the dump shows —
    if the paragraph still has a field — the same items with the paragraph lacking exactly that
    field: the name is gone under every spelling, every other field reads as before; if it was the
    paragraph's last field, the paragraph is gone and the fresh parse is that of the items
    before and after it (blank lines on both sides become one run) *)
Theorem delete_readback_full d j k d' :
  doc_wf d = true -> doc_canon d = true -> run_op d (ODel j k) = Ok d' ->
  exists a p b p',
    split_doc d j = Some (a, p, b) /\ d' = a ++ Para p' :: b /\
    py_reparse (dump d') = Ok (plain_doc (squash d')) /\
    (para_fields p' <> [] ->
       squash d' = d' /\
       py_reparse (dump d') = Ok (plain_doc a ++ Para (PN (para_fields p')) :: plain_doc b)) /\
    (para_fields p' = [] -> squash d' = squash (a ++ b) /\ dump d' = dump (a ++ b)) /\
    (forall k', plain_key k' = true -> name_eqb (key_name k') (key_name k) = true ->
                getitem (PN (para_fields p')) k' = Err KeyError) /\
    (forall k', plain_key k' = true -> name_eqb (key_name k') (key_name k) = false ->
                getitem (PN (para_fields p')) k' = getitem p k').
Proof.
  intros Hwf Hc H.
  pose proof (run_op_wf _ _ _ Hwf H) as Hwf'.
  destruct (doc_wf_parts _ Hwf) as [Hinv _].
  destruct (run_op_local _ _ _ Hinv H) as [Hinv' [a [p [b [p' [Hs [-> [Hp He]]]]]]]].
  cbn [op_para] in Hs.
  assert (Hp' : para_inv p' = true).
  { rewrite doc_inv_split in Hinv'. apply andb_true_iff in Hinv'. destruct Hinv' as [_ Hinv'].
    apply andb_true_iff in Hinv'. now destruct Hinv'. }
  pose proof Hc as Hc0. rewrite (split_doc_eq _ _ _ _ _ Hs) in Hc0.
  assert (Hsh : doc_shape (a ++ Para p' :: b) = true).
  { apply (doc_shape_replace a p b p'). now apply doc_canon_shape. }
  destruct (reparse_squash _ Hwf' Hsh) as [R _].
  exists a, p, b, p'. split; [exact Hs|]. split; [reflexivity|]. split; [exact R|].
  split; [|split; [|split]].
  - intros Hne. pose proof (doc_canon_replace a p b p' Hc0 Hne) as Hc'.
    rewrite (squash_canon_id _ Hc') in *. split; [reflexivity|].
    rewrite R, plain_doc_app. reflexivity.
  - intros He0. split; [now apply squash_app_empty|].
    rewrite !dump_app, dump_cons. cbn [item_text]. unfold para_text. now rewrite He0.
  - intros k' Hplain Hk. rewrite (getitem_plain p' k' Hp' Hplain).
    cbn [para_edit] in He. destruct He as [l1 [f [l2 [Hpf [Hf [_ Hpf']]]]]].
    exact (getitem_deleted p p' (key_name k) l1 f l2 k' Hp Hp' Hpf Hf Hpf' Hplain Hk).
  - intros k' Hplain Hk. rewrite (getitem_plain p' k' Hp' Hplain).
    exact (others_unchanged (ODel j k) p p' k' Hp Hp' He Hplain Hk).
Qed.

(** the paragraphs a fresh parse shows: the non-empty paragraphs of the document, in order, each
    with exactly its fields (comments, names as spelled, value texts) *)
Definition nonempty_para (p : para) : bool := negb (Doc.is_nil (para_fields p)).

Lemma paras_plain_squash d :
  paras (plain_doc (squash d))
  = map (fun p => PN (para_fields p)) (filter nonempty_para (paras d)).
Proof.
  induction d as [|it d IH]; [reflexivity|]. cbn [squash]. destruct it as [p|[] t].
  - change (paras (Para p :: d)) with (p :: paras d). cbn [filter]. unfold nonempty_para at 1.
    destruct (Doc.is_nil (para_fields p)); cbn [negb]; [exact IH|].
    change (paras (plain_doc (Para p :: squash d)))
      with (PN (para_fields p) :: paras (plain_doc (squash d))).
    cbn [map]. f_equal. exact IH.
  - change (paras (Other OWs t :: d)) with (paras d). rewrite <- IH.
    destruct (squash d) as [|[q|[] t2] r']; try reflexivity.
    now destruct (ends_nl t2).
  - exact IH.
  - exact IH.
Qed.

(** every history from a parsed document: the fresh parse of the dump, paragraph by paragraph *)
Theorem reread_history d ops :
  doc_wf d = true -> doc_canon d = true ->
  doc_wf (run d ops) = true
  /\ py_reparse (dump (run d ops)) = Ok (plain_doc (squash (run d ops)))
  /\ py_reparse_strict (dump (run d ops)) = Ok (plain_doc (squash (run d ops)))
  /\ paras (plain_doc (squash (run d ops)))
     = map (fun p => PN (para_fields p)) (filter nonempty_para (paras (run d ops)))
  /\ (doc_canon (run d ops) = true -> squash (run d ops) = run d ops).
Proof.
  intros Hwf Hc. pose proof (run_wf ops d Hwf) as Hwf'.
  pose proof (run_shape ops d (doc_canon_shape d Hc)) as Hs'.
  destruct (reparse_squash _ Hwf' Hs') as [R1 R2].
  split; [exact Hwf'|]. split; [exact R1|]. split; [exact R2|].
  split; [apply paras_plain_squash|apply squash_canon_id].
Qed.
