(** parse_dump_abs, part 1 of 3: the tokenizer, line by line.

    For each class of line that occurs in the dump of a well-formed document (comment line,
    field line, continuation line, run of blank lines) the exact tokens [tokenize_loop]
    produces, as an equation on the loop — not only their concatenated text
    (TokenProofs.loop_lossless).  Parametric in the whitespace class (which must contain LF,
    SP, TAB and not '#') and in the two field-name classes, like TokenProofs.v. *)
From Coq Require Import Lia.
From Verif Require Import Lib.Base Lib.PyStr Repro.Token Repro.LosslessSpec Repro.TokenProofs.

Definition nl_toks (b : bool) : list token := if b then [newline_token] else [].
Definition nl_text (b : bool) : str := if b then [LF] else [].

(** the tokens between separator / continuation token and the end of the line *)
Definition plain_tok (t : token) : bool :=
  match tk t with KValue | KWhitespace => true | _ => false end
  && lf_free (ttext t) && negb (is_nil (ttext t)).

Definition opt_tok (k : tkind) (s : str) : list token := if is_nil s then [] else [mkTok k s].

Lemma opt_token_lf k s : lf_free s = true -> opt_token k s = Ok (opt_tok k s).
Proof.
  intros H. unfold opt_token, opt_tok. destruct s as [|c s]; [reflexivity|]. cbn [is_nil].
  rewrite mk_token_ok; [reflexivity|discriminate|now apply verify_no_lf].
Qed.

Lemma opt_tok_text k s : concat (map ttext (opt_tok k s)) = s.
Proof. unfold opt_tok. destruct s; [reflexivity|]. cbn. now rewrite app_nil_r. Qed.

Lemma opt_tok_plain k s :
  match k with KValue | KWhitespace => true | _ => false end = true -> lf_free s = true ->
  forallb plain_tok (opt_tok k s) = true.
Proof.
  intros Hk Hs. unfold opt_tok. destruct s as [|c s]; [reflexivity|]. cbn [is_nil forallb].
  unfold plain_tok. cbn [tk ttext]. now rewrite Hk, Hs.
Qed.

Lemma nl_toks_text b : concat (map ttext (nl_toks b)) = nl_text b.
Proof. now destruct b. Qed.

Lemma plain_toks_lf_free l : forallb plain_tok l = true -> lf_free (concat (map ttext l)) = true.
Proof.
  induction l as [|t l IH]; [reflexivity|]. cbn [forallb map concat]. intros H.
  apply andb_true_iff in H. destruct H as [Ht H]. rewrite lf_free_app, (IH H), andb_true_r.
  unfold plain_tok in Ht. apply andb_true_iff in Ht. destruct Ht as [Ht _].
  apply andb_true_iff in Ht. apply Ht.
Qed.

(** the newline flag of a line is whether the line is terminated *)
Lemma nl_flag pre plain nl line :
  lf_free pre = true -> forallb plain_tok plain = true ->
  pre ++ concat (map ttext (plain ++ nl_toks nl)) = line -> ends_lf line = nl.
Proof.
  intros Hpre Hpl <-. rewrite map_app, concat_app, nl_toks_text. destruct nl; cbn [nl_text].
  - rewrite !app_assoc. apply ends_lf_app_lf.
  - rewrite app_nil_r. apply lf_free_not_ends. now rewrite lf_free_app, Hpre, plain_toks_lf_free.
Qed.

Lemma form1_head_closed l rest : form1 (l :: rest) = true -> ends_lf l = false -> rest = [].
Proof.
  intros H He. destruct rest as [|x rest]; [reflexivity|].
  apply form1_cons in H. destruct H as [_ [H _]]. rewrite H in He; [discriminate|discriminate].
Qed.

Lemma verify_value_lf_free v : verify_token_text KValue v = true -> lf_free v = true.
Proof.
  unfold verify_token_text. rewrite lf_free_has_lf. destruct (has_lf v); [|reflexivity].
  cbn. discriminate.
Qed.

Section Tok.
Variable is_space : N -> bool.
Variables name_first name_rest : N -> bool.
Hypothesis space_lf : is_space LF = true.
Hypothesis space_sp : is_space SP = true.
Hypothesis space_tab : is_space TAB = true.
Hypothesis space_hash : is_space HASH = false.

Notation is_ws_line := (Token.is_ws_line is_space).
Notation match_field_line := (Token.match_field_line is_space name_first name_rest).
Notation loop := (Token.tokenize_loop is_space name_first name_rest false).

(** ** the per-line checks at the head of the loop pass on form-1 input *)
Lemma check_ok l rest :
  form1 (l :: rest) = true ->
  (if ends_lf l then Ok tt
   else if negb (is_nil rest) then Err ValueError
   else if is_nil l then Err ValueError else Ok tt) = Ok tt.
Proof.
  intros H. destruct (ends_lf l) eqn:E; [reflexivity|].
  rewrite (form1_head_closed _ _ H E). cbn.
  apply form1_cons in H. destruct H as [H _]. apply line1_ok_nonnil in H.
  destruct l; [congruence|reflexivity].
Qed.

(** ** a comment line *)
Lemma loop_comment b rest cur :
  form1 ((HASH :: b) :: rest) = true ->
  loop cur ((HASH :: b) :: rest)
  = do ts <- loop cur rest; Ok (mkTok KComment (HASH :: b) :: ts).
Proof.
  intros H. cbn [Token.tokenize_loop bind]. rewrite (check_ok _ _ H). cbn [bind].
  unfold Token.is_ws_line. cbn [is_nil negb forallb andb]. rewrite space_hash. cbn [andb].
  rewrite N.eqb_refl. rewrite mk_token_ok; [reflexivity|discriminate|].
  apply verify_line; [reflexivity|]. now apply form1_cons in H.
Qed.

(** ** a continuation line (inside a field) *)
Lemma loop_cont c0 body rest fn :
  (c0 = SP \/ c0 = TAB) -> is_ws_line (c0 :: body) = false ->
  form1 ((c0 :: body) :: rest) = true ->
  exists v nl,
    loop (Some fn) ((c0 :: body) :: rest)
    = (do ts <- loop (Some fn) rest;
       Ok (mkTok KValueContinuation [c0] :: mkTok KValue v :: nl_toks nl ++ ts))
    /\ lf_free v = true /\ v <> []
    /\ c0 :: v ++ nl_text nl = c0 :: body
    /\ ends_lf (c0 :: body) = nl.
Proof.
  intros Hc Hws H. pose proof (form1_cons _ _ H) as [Hl _].
  destruct (continuation_line_ok is_space space_lf space_sp space_tab c0 body Hc Hl Hws)
    as [t1 [t2 [nl [T1 [T2 [Enl Ht]]]]]].
  destruct (if ends_lf (c0 :: body) then (removelast body, true) else (body, false))
    as [v nl'] eqn:Ev. cbn [fst snd] in T2, Enl. subst nl'.
  exists v, nl.
  pose proof (mk_token_inv _ _ _ T1) as [-> _].
  pose proof (mk_token_inv _ _ _ T2) as [-> [Hv Hvv]].
  assert (Hnot_hash : (c0 =? HASH)%N = false) by (destruct Hc as [->| ->]; reflexivity).
  assert (Hsp : (c0 =? SP)%N || (c0 =? TAB)%N = true) by (destruct Hc as [->| ->]; reflexivity).
  split; [|split; [|split; [|split]]].
  - cbn [Token.tokenize_loop bind]. rewrite (check_ok _ _ H). cbn [bind].
    rewrite Hws, Hnot_hash, Hsp, Ev, T1, T2. cbn [bind].
    destruct (loop (Some fn) rest); [|reflexivity]. cbn [bind]. now destruct nl.
  - now apply verify_value_lf_free.
  - exact Hv.
  - destruct nl; cbn [map concat ttext newline_token app nl_text] in *;
      rewrite ?app_nil_r in Ht; rewrite ?app_nil_r; cbn [app] in Ht; exact Ht.
  - destruct (ends_lf (c0 :: body)); now injection Ev as _ <-.
Qed.

(** ** the tail of a field line *)
Lemma space_after_shape sa :
  sa = [] \/ line1_ok sa = true ->
  exists sa' nl, split_newline sa = (sa', nl) /\ lf_free sa' = true /\ sa' ++ nl_text nl = sa.
Proof.
  unfold split_newline. intros [->|H].
  - exists [], false. now repeat split.
  - pose proof (line1_ok_nonnil _ H) as Hn.
    destruct (line1_ok_cases _ H) as [[H1 H2]|[b [-> Hb]]].
    + rewrite H2, andb_false_r. exists sa, false. repeat split; [assumption|apply app_nil_r].
    + rewrite ends_lf_app_lf, andb_true_r.
      replace (negb (is_nil (b ++ [LF]))) with true by (destruct b; reflexivity).
      rewrite removelast_last. exists b, true. now repeat split.
Qed.

Ltac norm_app := repeat (cbn [app]; rewrite <- app_assoc); cbn [app].
Ltac norm_app_in H := repeat (cbn [app] in H; rewrite <- app_assoc in H); cbn [app] in H.

(** ** a field line: name, separator, plain tokens, newline token *)
Lemma field_line_shape line m :
  line1_ok line = true ->
  match_field_line line = Some m ->
  exists plain nl,
    field_line_tokens m
    = Ok (mkTok KFieldName (fm_name m) :: mkTok KFieldSeparator [COLON] :: plain ++ nl_toks nl)
    /\ forallb plain_tok plain = true
    /\ fm_name m ++ COLON :: concat (map ttext (plain ++ nl_toks nl)) = line
    /\ lf_free (fm_name m) = true.
Proof.
  intros Hl Hm. unfold Token.match_field_line in Hm.
  destruct line as [|c r]; [discriminate|].
  destruct (name_first c); [|discriminate].
  destruct (span name_rest r) as [nm r1] eqn:E1.
  pose proof (span_app name_rest r) as A1. rewrite E1 in A1. cbn [fst snd] in A1.
  destruct r1 as [|d r2]; [discriminate|].
  destruct (N.eqb_spec d COLON) as [->|]; [|discriminate].
  destruct (span is_space r2) as [sb r3] eqn:E2.
  pose proof (span_app is_space r2) as A2. rewrite E2 in A2. cbn [fst snd] in A2.
  subst r r2.
  assert (Hname : lf_free (c :: nm) = true).
  { apply (line1_ok_prefix (c :: nm) (COLON :: sb ++ r3)); [discriminate|].
    norm_app. exact Hl. }
  assert (Tname : mk_token KFieldName (c :: nm) = Ok (mkTok KFieldName (c :: nm))).
  { apply mk_token_ok; [discriminate|now apply verify_no_lf]. }
  assert (Tsep : mk_token KFieldSeparator [COLON] = Ok (mkTok KFieldSeparator [COLON])) by reflexivity.
  destruct r3 as [|v0 r4].
  - (* no value on this line *)
    injection Hm as <-. unfold field_line_tokens. cbn [fm_value fm_space_before fm_name].
    rewrite app_nil_r in *.
    assert (Hsb : sb = [] \/ line1_ok sb = true).
    { destruct sb as [|x sb]; [now left|right].
      apply (line1_ok_suffix (c :: nm ++ [COLON])); [discriminate|].
      norm_app. exact Hl. }
    destruct (space_after_shape sb Hsb) as [sa' [nl [E [Hsa' Esa]]]].
    rewrite E, Tname, Tsep. cbn [bind opt_token is_nil].
    rewrite (opt_token_lf KWhitespace sa' Hsa'). cbn [bind app].
    exists (opt_tok KWhitespace sa'), nl. repeat split.
    + now apply opt_tok_plain.
    + rewrite map_app, concat_app, opt_tok_text, nl_toks_text, Esa. reflexivity.
    + exact Hname.
  - (* a value *)
    destruct (span (fun x => negb (x =? LF)%N) r4) as [run after] eqn:E3.
    pose proof (span_app (fun x => negb (x =? LF)%N) r4) as A3. rewrite E3 in A3. cbn [fst snd] in A3.
    pose proof (span_all (fun x => negb (x =? LF)%N) r4) as R3. rewrite E3 in R3. cbn [fst] in R3.
    destruct (rspan is_space run) as [body trail] eqn:E4.
    destruct (rspan_spec _ _ _ _ E4) as [A4 R4].
    destruct (span is_space (trail ++ after)) as [sa rest] eqn:E5.
    injection Hm as <-. subst r4 run.
    assert (Hv0 : is_space v0 = false).
    { eapply span_snd_head. rewrite E2. reflexivity. }
    assert (Hv0lf : (v0 =? LF)%N = false).
    { destruct (N.eqb_spec v0 LF) as [->|]; [congruence|reflexivity]. }
    norm_app_in Hl.
    assert (Hrest : sa = trail ++ after /\ rest = []).
    { destruct after as [|a0 after'].
      - rewrite app_nil_r in E5. rewrite span_forall_nil in E5 by assumption.
        injection E5 as <- <-. now rewrite app_nil_r.
      - assert (a0 = LF) as ->.
        { assert (H : negb (a0 =? LF)%N = false).
          { eapply (span_snd_head (fun x => negb (x =? LF)%N)). rewrite E3. reflexivity. }
          apply negb_false_iff, N.eqb_eq in H. exact H. }
        assert (after' = []) as ->.
        { apply (line1_ok_lf_inside (c :: nm ++ COLON :: sb ++ v0 :: body ++ trail)).
          norm_app. exact Hl. }
        rewrite span_forall_nil in E5.
        + now injection E5 as <- <-.
        + rewrite forallb_app, R4. cbn. now rewrite space_lf. }
    destruct Hrest as [-> ->].
    unfold field_line_tokens. cbn [fm_value fm_space_before fm_name is_nil].
    assert (Hsa : trail ++ after = [] \/ line1_ok (trail ++ after) = true).
    { destruct (trail ++ after) eqn:E; [now left|right]. rewrite <- E in *.
      apply (line1_ok_suffix (c :: nm ++ COLON :: sb ++ v0 :: body)); [rewrite E; discriminate|].
      norm_app. exact Hl. }
    assert (Hsb : lf_free sb = true).
    { assert (H : lf_free ((c :: nm) ++ [COLON] ++ sb) = true).
      { apply (line1_ok_prefix _ (v0 :: body ++ trail ++ after)); [discriminate|].
        norm_app. exact Hl. }
      rewrite !lf_free_app in H. apply andb_true_iff in H. destruct H as [_ H].
      apply andb_true_iff in H. apply H. }
    assert (Hv : lf_free (v0 :: body) = true).
    { rewrite lf_free_cons, Hv0lf. cbn [negb andb].
      apply notlf_all_lf_free in R3. rewrite !lf_free_app in R3.
      apply andb_true_iff in R3. destruct R3 as [R3 _]. exact R3. }
    destruct (space_after_shape _ Hsa) as [sa' [nl [E [Hsa' Esa]]]].
    rewrite E, Tname, Tsep. cbn [bind].
    rewrite (opt_token_lf KWhitespace sb Hsb), (opt_token_lf KValue (v0 :: body) Hv),
      (opt_token_lf KWhitespace sa' Hsa'). cbn [bind].
    exists (opt_tok KWhitespace sb ++ opt_tok KValue (v0 :: body) ++ opt_tok KWhitespace sa'), nl.
    repeat split.
    + now rewrite <- !app_assoc.
    + rewrite !forallb_app, !opt_tok_plain by (assumption || reflexivity). reflexivity.
    + rewrite !map_app, !concat_app, !opt_tok_text, nl_toks_text. norm_app. rewrite <- Esa.
      norm_app. reflexivity.
    + exact Hname.
Qed.

Lemma loop_field c0 body rest m :
  is_ws_line (c0 :: body) = false -> (c0 =? HASH)%N = false ->
  (c0 =? SP)%N || (c0 =? TAB)%N = false ->
  match_field_line (c0 :: body) = Some m ->
  form1 ((c0 :: body) :: rest) = true ->
  exists plain nl,
    (forall cur,
       loop cur ((c0 :: body) :: rest)
       = (do ts <- loop (Some (fm_name m)) rest;
          Ok (mkTok KFieldName (fm_name m) :: mkTok KFieldSeparator [COLON]
                :: plain ++ nl_toks nl ++ ts)))
    /\ forallb plain_tok plain = true
    /\ fm_name m ++ COLON :: concat (map ttext (plain ++ nl_toks nl)) = c0 :: body
    /\ ends_lf (c0 :: body) = nl.
Proof.
  intros Hws Hh Hsp Hm H. pose proof (form1_cons _ _ H) as [Hl _].
  destruct (field_line_shape _ _ Hl Hm) as [plain [nl [F1 [F2 [F3 F4]]]]].
  exists plain, nl. split; [|split; [|split]]; try assumption.
  - intros cur. cbn [Token.tokenize_loop bind]. rewrite (check_ok _ _ H). cbn [bind].
    rewrite Hws, Hh, Hsp, Hm, F1. cbn [bind].
    destruct (loop (Some (fm_name m)) rest); [|reflexivity]. cbn [bind app].
    now rewrite <- app_assoc.
  - apply (nl_flag (fm_name m ++ [COLON]) plain nl).
    + rewrite lf_free_app, F4. reflexivity.
    + exact F2.
    + rewrite <- app_assoc. exact F3.
Qed.

(** ** blank lines: a run of terminated whitespace-only lines becomes one token *)
Definition ws_term (x : str) : bool := is_ws_line x && ends_lf x.

Lemma merge_ws_run ws : forall acc rest,
  forallb ws_term ws = true -> acc <> [] -> ends_lf acc = true ->
  match rest with x :: _ => ws_term x = false | [] => True end ->
  merge_ws (loop None) ws_term (fun x => x) acc (ws ++ rest)
  = do ts <- loop None rest; Ok (mkTok KWhitespace (acc ++ concat ws) :: ts).
Proof.
  induction ws as [|w ws IH]; intros acc rest Hws Hne Hacc Hrest.
  - cbn [app concat]. rewrite app_nil_r.
    assert (T : mk_token KWhitespace acc = Ok (mkTok KWhitespace acc)).
    { apply mk_token_ok; [exact Hne|now apply verify_ws_ends]. }
    destruct rest as [|x rest]; cbn [merge_ws].
    + rewrite T. reflexivity.
    + rewrite Hrest, T. reflexivity.
  - cbn [forallb] in Hws. apply andb_true_iff in Hws. destruct Hws as [Hw Hws].
    cbn [app merge_ws]. rewrite Hw. rewrite IH; try assumption.
    + cbn [concat]. now rewrite app_assoc.
    + destruct acc; [congruence|discriminate].
    + unfold ws_term in Hw. apply andb_true_iff in Hw. destruct Hw as [_ Hw].
      rewrite ends_lf_app; [exact Hw|now apply ends_lf_nonnil].
Qed.

Lemma loop_ws_closed w ws rest cur :
  forallb ws_term (w :: ws) = true ->
  match rest with x :: _ => ws_term x = false | [] => True end ->
  form1 ((w :: ws) ++ rest) = true ->
  loop cur ((w :: ws) ++ rest)
  = do ts <- loop None rest; Ok (mkTok KWhitespace (concat (w :: ws)) :: ts).
Proof.
  intros Hws Hrest H. cbn [forallb] in Hws. apply andb_true_iff in Hws. destruct Hws as [Hw Hws].
  unfold ws_term in Hw. apply andb_true_iff in Hw. destruct Hw as [Hw1 Hw2].
  cbn [app] in H |- *. cbn [Token.tokenize_loop bind]. rewrite (check_ok _ _ H). cbn [bind].
  rewrite Hw1, Hw2.
  change (fun x : str => is_ws_line x && ends_lf x) with ws_term.
  rewrite merge_ws_run; [reflexivity|assumption|now apply ends_lf_nonnil|assumption|assumption].
Qed.

(** ... and an unterminated whitespace-only line (necessarily the last) is a token of its own *)
Lemma loop_ws_open w cur :
  is_ws_line w = true -> ends_lf w = false -> line1_ok w = true ->
  loop cur [w] = Ok [mkTok KWhitespace w].
Proof.
  intros Hw He Hl. cbn [Token.tokenize_loop bind]. rewrite He. cbn [is_nil negb].
  pose proof (line1_ok_nonnil _ Hl) as Hn.
  replace (is_nil w) with false by (destruct w; [congruence|reflexivity]). cbn [bind].
  rewrite Hw. rewrite mk_token_ok; [reflexivity|exact Hn|].
  apply verify_no_lf. now apply line1_ok_not_ends.
Qed.

End Tok.
