(** Tie by regeneration for C11 — proofs, stage 2: the methods of [Deb822ParsedTokenList] and [ValueReference].

    Gen/TrListView.v holds the bodies of the list-view methods (lib/debian/_deb822_repro/parsing.py) as the working tree
    has them now, regenerated on every run (METHOD + HEAP MODE).  The model (Repro/ListView.v: a [view] is a list of
    numbered items, a changed flag and the cached continuation character) is at list level; the code works on a
    debian/_util.py LinkedList of heap nodes whose values are token / element objects.  The tie is a REFINEMENT:

      [v_inv hp its ll R]  the linked structure (C09's [ll_rep], up to the stale [_size] that [_remove_node] leaves
                           behind) holds the references of the rows [R] in order, and the store maps each reference
                           to the row's item;
      [v_rep st vw]        some rows with the items of [vw] are represented, and the two attributes agree.

    For every state that represents a view, each regenerated method ends in a state that represents the result of the
    model operation that [agree] runs through [run_session] / [step] (same exception kind; after an exception the state
    the model says: unchanged, or with the newline that append_comment leaves behind).  C09's regenerated LinkedList
    functions are reused through C10's adapters, not translated again. *)
From Coq Require Import Lia ZArith List.
From Verif Require Import Lib.Base Lib.PyStr Lib.Tr Dict.Common Dict.Heap Dict.TrPrims Dict.ProofsLL Dict.Tie
  Gen.TrLinkedList Repro.StructTrPrims.
From Verif Require Import Repro.ListLemmas Repro.ListView Repro.ListTrPrims Repro.ListViewTrPrims Gen.TrListView.
Import ListNotations.
Local Open Scope Z_scope.

(** * The store *)
Lemma te_get_ref s n : te_get s (te_ref n) = nth_error s n.
Proof. unfold te_get, te_ref. now rewrite Nat2N.id. Qed.

Lemma te_get_valid s r c : te_get s r = Some c -> exists n, r = te_ref n /\ (n < length s)%nat.
Proof.
  unfold te_get. destruct r as [|n [|m r]]; try discriminate. intros H. exists (N.to_nat n). split.
  - unfold te_ref. now rewrite N2Nat.id.
  - apply nth_error_Some. congruence.
Qed.

Lemma te_get_app s x r c : te_get s r = Some c -> te_get (s ++ x) r = Some c.
Proof.
  intros H. destruct (te_get_valid _ _ _ H) as (n & -> & Hn). rewrite te_get_ref in *. now rewrite nth_error_app1.
Qed.
Lemma te_get_new s c : te_get (s ++ [c]) (te_ref (length s)) = Some c.
Proof. rewrite te_get_ref, nth_error_app2 by lia. now rewrite Nat.sub_diag. Qed.

(** * Representation *)
Record vrow := mkVRow { vr_id : id; vr_ref : teref; vr_item : item }.
Definition vrL (r : vrow) : id * str := (vr_id r, vr_ref r).

(** the list object with the size it should have ([_remove_node] relinks nodes without updating [_size]) *)
Definition ll_fit (ll : llobj) (n : nat) : llist := mkLL (ll_head ll) (ll_tail ll) n.

Definition stored (its : testore) (r : vrow) : Prop := te_get its (vr_ref r) = Some (vr_item r).

Record v_inv (hp : heap) (its : testore) (ll : llobj) (R : list vrow) : Prop := mkVInv {
  vi_ll : ll_rep hp (ll_fit ll (length R)) (map vrL R);
  vi_store : Forall (stored its) R;
}.

Definition vst := (heap * testore * llobj * bool * option str)%type.
Definition v_rep (st : vst) (vw : view) : Prop :=
  let '(hp, its, ll, ch, co) := st in
  exists R, v_inv hp its ll R /\ map vr_item R = v_items vw /\ ch = v_changed vw /\ co = v_cont vw.

Lemma map_snd_vrL R : map snd (map vrL R) = map vr_ref R.
Proof. rewrite map_map. reflexivity. Qed.
Lemma ids_vrL R : ids (map vrL R) = map vr_id R.
Proof. unfold ids. rewrite map_map. reflexivity. Qed.

Lemma stored_app its x R : Forall (stored its) R -> Forall (stored (its ++ x)) R.
Proof. intros F. eapply Forall_impl; [|exact F]. intros r H. now apply te_get_app. Qed.

Lemma v_inv_store_app hp its ll R x : v_inv hp its ll R -> v_inv hp (its ++ x) ll R.
Proof. intros [A B]. constructor; [exact A|now apply stored_app]. Qed.

(** * Reading the list *)
Lemma v_ll_iter hp its ll R : v_inv hp its ll R -> trp_ll_iter hp ll = Ok (map vr_ref R).
Proof.
  intros [A _]. unfold trp_ll_iter, ll_read.
  pose proof (tr_ll_iter_rep hp _ _ (Z.of_nat (ll_size ll)) A) as H. cbn [ll_fit ll_head ll_tail] in H.
  now rewrite H, map_snd_vrL.
Qed.

Lemma v_ll_iter_nodes hp its ll R : v_inv hp its ll R -> trp_ll_iter_nodes hp ll = Ok (map vr_id R).
Proof.
  intros [A _]. unfold trp_ll_iter_nodes, ll_read.
  pose proof (tr_ll_iter_nodes_rep hp _ _ (Z.of_nat (ll_size ll)) A) as H. cbn [ll_fit ll_head ll_tail] in H.
  now rewrite H, ids_vrL.
Qed.

Lemma v_ll_reversed hp its ll R : v_inv hp its ll R -> trp_ll_reversed hp ll = Ok (rev (map vr_ref R)).
Proof. intros I. unfold trp_ll_reversed. now rewrite (v_ll_iter _ _ _ _ I). Qed.

Lemma v_ll_bool hp its ll R : v_inv hp its ll R -> trp_ll_bool ll = match R with [] => false | _ => true end.
Proof.
  intros [A _]. unfold trp_ll_bool. pose proof (lr_head _ _ _ A) as H. cbn [ll_fit ll_head] in H. rewrite H.
  destruct R as [|r R]; reflexivity.
Qed.

Lemma last_id_map_snoc (R : list vrow) r p : last_id (map vrL (R ++ [r])) p = Some (vr_id r).
Proof. rewrite map_app. cbn [map]. unfold vrL at 2. apply last_id_snoc. Qed.

Lemma v_get_value hp its ll R r : v_inv hp its ll R -> In r R -> trp_get_value hp (vr_id r) = Ok (vr_ref r).
Proof.
  intros [A _] Hin. rewrite trp_get_value_eq.
  destruct (seg_get _ _ _ _ (vr_id r) (vr_ref r) (lr_seg _ _ _ A)) as (n & Hn & Hv).
  { apply in_map_iff. exists r. split; [reflexivity|exact Hin]. }
  now rewrite Hn, Hv.
Qed.

Lemma v_ll_tail_value hp its ll R :
  v_inv hp its ll R -> trp_ll_tail_value hp ll = Ok (option_map vr_ref (last_opt R)).
Proof.
  intros I. pose proof I as [A _]. unfold trp_ll_tail_value, ll_read. rewrite tr_ll_tail_eq.
  pose proof (lr_tail _ _ _ A) as H. cbn [ll_fit ll_tail] in H. rewrite H.
  destruct R as [|r0 R0 _] using rev_ind; [reflexivity|].
  rewrite last_id_map_snoc, last_opt_snoc. cbn [option_map].
  pose proof (v_get_value _ _ _ _ r0 I) as G. rewrite trp_get_value_eq in G.
  rewrite load_eq. destruct (hget hp (vr_id r0)) as [n|]; cbn [fst].
  - specialize (G ltac:(apply in_or_app; right; now left)). now injection G as ->.
  - specialize (G ltac:(apply in_or_app; right; now left)). discriminate.
Qed.

(** the class tests on a stored reference *)
Definition cls_test (k : lkind) (c : trp_cls) (it : item) : bool :=
  match c with
  | CVtype => is_value it
  | CStype => is_stype k it
  | CCont => is_cont_item it
  | CToken => negb (is_value it)
  end.
Lemma isinstance_stored k its r c : stored its r -> trp_isinstance k its (vr_ref r) c = cls_test k c (vr_item r).
Proof. intros H. unfold trp_isinstance. rewrite H. destruct c; reflexivity. Qed.
Lemma render_stored its r : stored its r -> trp_render its (vr_ref r) = Ok (render (vr_item r)).
Proof. intros H. unfold trp_render, te_look. now rewrite H. Qed.
Lemma text_stored its r : stored its r -> trp_te_text its (vr_ref r) = Ok (item_text (vr_item r)).
Proof. intros H. unfold trp_te_text, te_look. now rewrite H. Qed.

Lemma filter_stored k its c R : Forall (stored its) R ->
  tr_filter (fun v => trp_isinstance k its v c) (map vr_ref R)
  = map vr_ref (filter (fun r => cls_test k c (vr_item r)) R).
Proof.
  unfold tr_filter. induction 1 as [|r R Hr _ IH]; [reflexivity|]. cbn [map filter].
  rewrite (isinstance_stored k its r c Hr). destruct (cls_test k c (vr_item r)); cbn [map]; now rewrite IH.
Qed.

Lemma mapM_render its R : Forall (stored its) R ->
  tr_mapM (fun v => do t <- trp_render its v; Ok t) (map vr_ref R) = Ok (map (fun r => render (vr_item r)) R).
Proof.
  induction 1 as [|r R Hr _ IH]; [reflexivity|]. cbn [map tr_mapM].
  rewrite (render_stored its r Hr). cbn [bind]. now rewrite IH.
Qed.

Lemma filter_map_item (p : item -> bool) R :
  filter p (map vr_item R) = map vr_item (filter (fun r => p (vr_item r)) R).
Proof. induction R as [|r R IH]; [reflexivity|]. cbn [map filter]. destruct (p (vr_item r)); cbn [map]; now rewrite IH. Qed.

Section K.
Variable k : lkind.

(** ** value_parts, __iter__ *)
Lemma tr_v_value_parts_inv hp its ll ch co R : v_inv hp its ll R ->
  tr_v_value_parts k hp its ll ch co = Ok (map vr_ref (filter (fun r => is_value (vr_item r)) R)).
Proof.
  intros I. unfold tr_v_value_parts. rewrite (v_ll_iter _ _ _ _ I). cbn [bind app].
  unfold trp_VTYPE. rewrite (filter_stored k its CVtype R (vi_store _ _ _ _ I)). now rewrite map_id.
Qed.

Lemma Forall_filter {A} (P : A -> Prop) (p : A -> bool) l : Forall P l -> Forall P (filter p l).
Proof. induction 1; cbn [filter]; [constructor|]. destruct (p x); [constructor|]; assumption. Qed.

Theorem tr_v_iter_rep hp its ll ch co vw :
  v_rep (hp, its, ll, ch, co) vw -> tr_v_iter k hp its ll ch co = Ok (view_values vw).
Proof.
  intros (R & I & E & _). unfold tr_v_iter. rewrite (tr_v_value_parts_inv _ _ _ _ _ _ I). cbn [bind].
  rewrite (mapM_render its _ (Forall_filter _ _ _ (vi_store _ _ _ _ I))). cbn [bind app].
  unfold view_values, values_of. rewrite <- E, filter_map_item, map_map. reflexivity.
Qed.

(** ** the tail *)
Lemma tail_text hp its ll R : v_inv hp its ll R ->
  (do tail <- trp_ll_tail_value hp ll;
   if tr_is_some tail then do x <- tr_unwrap tail; do t <- trp_te_text its x; Ok (trp_endswith_lf t tt) else Ok false)
  = Ok (match last_opt (map vr_item R) with Some it => item_ends_lf it | None => false end).
Proof.
  intros I. rewrite (v_ll_tail_value _ _ _ _ I). cbn [bind].
  destruct R as [|r0 R0 _] using rev_ind; [reflexivity|].
  rewrite map_app. cbn [map]. rewrite !last_opt_snoc. cbn [option_map tr_is_some tr_unwrap bind].
  pose proof (vi_store _ _ _ _ I) as F. apply Forall_app in F. destruct F as [_ F]. inversion F as [|? ? Hr _]; subst.
  rewrite (text_stored its r0 Hr). reflexivity.
Qed.

Lemma tail_ends_lf_items vw : tail_ends_lf vw = match last_opt (v_items vw) with Some it => item_ends_lf it | None => false end.
Proof. reflexivity. Qed.

Theorem tr_v_previous_is_newline_rep hp its ll ch co vw :
  v_rep (hp, its, ll, ch, co) vw -> tr_v_previous_is_newline k hp its ll ch co = Ok (tail_ends_lf vw).
Proof.
  intros (R & I & E & _). unfold tr_v_previous_is_newline.
  pose proof (tail_text _ _ _ _ I) as T. rewrite E in T.
  destruct (trp_ll_tail_value hp ll) as [tail|e]; cbn [bind] in *; [|discriminate].
  destruct (if tr_is_some tail then _ else _) as [b|e]; cbn [bind] in *; [|discriminate]. exact T.
Qed.
End K.

(** * Appending a node *)
Lemma ll_append_resize v h hd tl sz sz' i h' l' :
  ll_append v (h, mkLL hd tl sz') = (Ok i, (h', l')) ->
  ll_append v (h, mkLL hd tl sz) = (Ok i, (h', mkLL (ll_head l') (ll_tail l') (S sz))).
Proof.
  unfold ll_append, mbind, on_heap, zoom, get_ll, new_node, set_head, set_tail, set_size, ret, raise.
  cbn [fst snd ll_head ll_tail ll_size].
  destruct hd as [hd0|]; [destruct tl as [t|]|]; cbn [fst snd ll_head ll_tail ll_size].
  - destruct (node_insert_after t (nxt h) (halloc v h)) as [[u|e] h1]; cbn [fst snd ll_head ll_tail ll_size];
      intros H; inversion H; subst; reflexivity.
  - discriminate.
  - intros H; inversion H; subst; reflexivity.
Qed.

Lemma ll_pack_st s : ll_pack (ll_st s) = s.
Proof. destruct s as [h [hd tl sz]]. unfold ll_st, ll_pack. cbn. now rewrite Nat2Z.id. Qed.

Lemma v_push hp its ll R x it :
  v_inv hp its ll R -> te_get its x = Some it ->
  exists hp' ll', trp_ll_append hp ll x = MOk (nxt hp) (hp', ll')
                  /\ v_inv hp' its ll' (R ++ [mkVRow (nxt hp) x it]).
Proof.
  intros [A F] Hx. destruct ll as [hd tl sz]. unfold ll_fit in A. cbn [ll_head ll_tail] in A.
  destruct (ll_append_spec hp _ _ x A) as (hp' & l' & E & R' & _ & _).
  unfold trp_ll_append, ll_run. cbn [ll_head ll_tail ll_size].
  rewrite tr_ll_append_eq, (ll_append_resize _ _ _ _ sz _ _ _ _ E). cbn [lift_ll]. rewrite ll_pack_st.
  exists hp', (mkLL (ll_head l') (ll_tail l') (S sz)). split; [reflexivity|]. constructor.
  - rewrite map_app. cbn [map vrL vr_id vr_ref ll_fit ll_head ll_tail].
    pose proof (lr_size _ _ _ R') as Hz. rewrite app_length, map_length in Hz. rewrite app_length. cbn [length] in *.
    destruct l' as [a b c]. cbn [ll_head ll_tail ll_size] in *. now rewrite <- Hz.
  - apply Forall_app. split; [exact F|]. constructor; [exact Hx|constructor].
Qed.

Lemma v_items_push vw it : v_items (push vw it) = v_items vw ++ [it].
Proof. unfold v_items, push. cbn [v_nodes]. now rewrite map_app. Qed.

(** a new object is made and appended *)
Lemma rep_push hp its ll ch co vw it :
  v_rep (hp, its, ll, ch, co) vw ->
  exists hp' ll', trp_ll_append hp ll (te_ref (length its)) = MOk (nxt hp) (hp', ll')
                  /\ v_rep (hp', its ++ [it], ll', ch, co) (push vw it).
Proof.
  intros (R & I & E & Hc & Ho).
  destruct (v_push hp (its ++ [it]) ll R (te_ref (length its)) it (v_inv_store_app _ _ _ _ _ I) (te_get_new _ _))
    as (hp' & ll' & Ea & I').
  exists hp', ll'. split; [exact Ea|]. eexists. split; [exact I'|].
  rewrite map_app, v_items_push, E. cbn [map vr_item]. split; [reflexivity|]. split; [exact Hc|exact Ho].
Qed.

(** an existing object is appended *)
Lemma rep_push_old hp its ll ch co vw x it :
  v_rep (hp, its, ll, ch, co) vw -> te_get its x = Some it ->
  exists hp' ll', trp_ll_append hp ll x = MOk (nxt hp) (hp', ll')
                  /\ v_rep (hp', its, ll', ch, co) (push vw it).
Proof.
  intros (R & I & E & Hc & Ho) Hx.
  destruct (v_push hp its ll R x it I Hx) as (hp' & ll' & Ea & I').
  exists hp', ll'. split; [exact Ea|]. eexists. split; [exact I'|].
  rewrite map_app, v_items_push, E. cbn [map vr_item]. split; [reflexivity|]. split; [exact Hc|exact Ho].
Qed.

Lemma rep_set_changed hp its ll ch co vw :
  v_rep (hp, its, ll, ch, co) vw -> v_rep (hp, its, ll, true, co) (set_changed vw).
Proof. intros (R & I & E & Hc & Ho). exists R. split; [exact I|]. split; [exact E|]. split; [reflexivity|exact Ho]. Qed.

Lemma rep_store_app hp its ll ch co vw x :
  v_rep (hp, its, ll, ch, co) vw -> v_rep (hp, its ++ x, ll, ch, co) vw.
Proof.
  intros (R & I & E & Hc & Ho). exists R. split; [now apply v_inv_store_app|]. split; [exact E|]. split; [exact Hc|exact Ho].
Qed.

Section K2.
Variable k : lkind.

(** what a method that cannot fail does: it ends in a state that represents [vw']; the store only grows *)
Definition v_does (its : testore) (r : mres unit vst) (vw' : view) : Prop :=
  exists hp' y ll' ch' co',
    r = MOk tt (hp', its ++ y, ll', ch', co') /\ v_rep (hp', its ++ y, ll', ch', co') vw'.
(** a method that fails leaves the state as it was *)
Definition v_refines (r : mres unit vst) (st : vst) (m : result view) : Prop :=
  match m with Ok vw' => v_does (snd (fst (fst (fst st)))) r vw' | Err e => r = MErr e st end.

Lemma v_does_intro its hp' its' ll' ch' co' y vw' :
  its' = its ++ y -> v_rep (hp', its', ll', ch', co') vw' -> v_does its (MOk tt (hp', its', ll', ch', co')) vw'.
Proof. intros -> H. exists hp', y, ll', ch', co'. split; [reflexivity|exact H]. Qed.

(** ** append_newline *)
Theorem tr_v_append_newline_refines hp its ll ch co vw :
  v_rep (hp, its, ll, ch, co) vw ->
  v_refines (tr_v_append_newline k hp its ll ch co) (hp, its, ll, ch, co) (append_newline vw).
Proof.
  intros Rp. unfold tr_v_append_newline, append_newline.
  rewrite (tr_v_previous_is_newline_rep k _ _ _ _ _ _ Rp).
  destruct (tail_ends_lf vw); [reflexivity|]. cbn [v_refines fst snd].
  unfold trp_new_newline_tok, te_new. cbv beta iota zeta.
  destruct (rep_push _ _ _ _ _ _ (IT (Tok KNl [LF])) Rp) as (hp' & ll' & Ea & Rp').
  rewrite Ea. cbv beta iota zeta. eapply v_does_intro; [reflexivity|exact Rp'].
Qed.

(** ** _continuation_line_char *)
Lemma cont_loop its R : Forall (stored its) R ->
  forall KX hp ll ch co c0,
  tr_v_continuation_line_char_loop1 (map vr_ref R) KX k hp its ll ch co (Some c0)
  = KX k hp its ll ch co (Some (match List.find is_cont_item (map vr_item R) with
                                | Some it => item_text it | None => c0 end)).
Proof.
  induction 1 as [|r R Hr _ IH]; intros; [reflexivity|].
  cbn [map tr_v_continuation_line_char_loop1 List.find].
  unfold trp_CONT. rewrite (isinstance_stored k its r CCont Hr). cbn [cls_test].
  destruct (is_cont_item (vr_item r)).
  - now rewrite (text_stored its r Hr).
  - apply IH.
Qed.

Lemma tr_cont_char_rep hp its ll ch co vw :
  v_rep (hp, its, ll, ch, co) vw ->
  tr_v_continuation_line_char k hp its ll ch co
    = MOk (Some (fst (cont_char vw))) (hp, its, ll, ch, Some (fst (cont_char vw)))
  /\ v_rep (hp, its, ll, ch, Some (fst (cont_char vw))) (snd (cont_char vw)).
Proof.
  intros (R & I & E & Hc & Ho). unfold tr_v_continuation_line_char, cont_char. cbv zeta.
  rewrite <- Ho. destruct co as [c|]; cbn [fst snd].
  - split; [reflexivity|]. exists R. split; [exact I|]. split; [exact E|]. split; [exact Hc|exact Ho].
  - rewrite (v_ll_iter _ _ _ _ I), (cont_loop its R (vi_store _ _ _ _ I)). rewrite E.
    split; [reflexivity|]. exists R. split; [exact I|]. split; [exact E|]. split; [exact Hc|reflexivity].
Qed.

(** ** _append_continuation_line_token_if_necessary *)
Theorem tr_v_append_cont_does hp its ll ch co vw :
  v_rep (hp, its, ll, ch, co) vw ->
  v_does its (tr_v_append_cont_if_necessary k hp its ll ch co) (append_cont_if_necessary vw).
Proof.
  intros Rp. pose proof Rp as (R & I & E & Hc & Ho).
  unfold tr_v_append_cont_if_necessary, append_cont_if_necessary. cbv zeta.
  pose proof (tail_text _ _ _ _ I) as T. rewrite E, <- tail_ends_lf_items in T.
  destruct (trp_ll_tail_value hp ll) as [tail|e]; cbn [bind] in T; [|discriminate].
  rewrite T. destruct (tail_ends_lf vw).
  - destruct (tr_cont_char_rep _ _ _ _ _ _ Rp) as [Ec Rc]. rewrite Ec. cbv beta iota zeta.
    destruct (cont_char vw) as [c vw1]. cbn [fst snd] in *.
    unfold trp_new_cont_tok, te_new. cbv beta iota zeta.
    destruct (rep_push _ _ _ _ _ _ (IT (Tok KCont c)) Rc) as (hp' & ll' & Ea & Rp').
    rewrite Ea. cbv beta iota zeta. eapply v_does_intro; [reflexivity|exact Rp'].
  - eapply (v_does_intro its _ _ _ _ _ []); [now rewrite app_nil_r|exact Rp].
Qed.

(** ** append_separator *)
Lemma te_is_ws_new its t : trp_te_is_whitespace (its ++ [IT t]) (te_ref (length its)) = Ok (is_whitespace_tok t).
Proof. unfold trp_te_is_whitespace, te_look. now rewrite te_get_new. Qed.
Lemma te_is_ws_app its y x t : te_get its x = Some (IT t) -> trp_te_is_whitespace (its ++ y) x = Ok (is_whitespace_tok t).
Proof. intros H. unfold trp_te_is_whitespace, te_look. now rewrite (te_get_app _ y _ _ H). Qed.

Theorem tr_v_append_separator_does hp its ll ch co vw b :
  v_rep (hp, its, ll, ch, co) vw ->
  v_does its (tr_v_append_separator k hp its ll ch co b) (append_separator k b vw).
Proof.
  intros Rp. unfold tr_v_append_separator, append_separator, trp_new_separator, te_new. cbv beta iota zeta.
  rewrite te_is_ws_new.
  set (x := te_ref (length its)). set (its1 := its ++ [IT (sep_tok k)]).
  assert (Hx : te_get its1 x = Some (IT (sep_tok k))) by apply te_get_new.
  pose proof (rep_set_changed _ _ _ _ _ _ (rep_store_app _ _ _ _ _ _ [IT (sep_tok k)] Rp)) as Rp1. fold its1 in Rp1.
  destruct (tr_v_append_cont_does _ _ _ _ _ _ Rp1) as (hp2 & y & ll2 & ch2 & co2 & E2 & Rp2).
  assert (Hx2 : te_get (its1 ++ y) x = Some (IT (sep_tok k))) by now apply te_get_app.
  destruct (rep_push_old _ _ _ _ _ _ x _ Rp2 Hx2) as (hp3 & ll3 & E3 & Rp3).
  assert (Hw : trp_te_is_whitespace (its1 ++ y) x = Ok (is_whitespace_tok (sep_tok k))) by now apply te_is_ws_app.
  destruct k; cbn [sep_tok is_whitespace_tok tk] in *.
  - (* whitespace list: the separator is whitespace *)
    cbv beta iota zeta. rewrite E2. cbv beta iota zeta. rewrite E3. cbv beta iota zeta.
    eapply (v_does_intro its _ _ _ _ _ ([IT (Tok KSep [SP])] ++ y)); [unfold its1; now rewrite app_assoc|exact Rp3].
  - cbv beta iota zeta. rewrite E2. cbv beta iota zeta. rewrite E3. cbv beta iota zeta.
    destruct b.
    + rewrite Hw. cbn [bind negb]. cbv beta iota zeta. unfold trp_new_tok, te_new. cbv beta iota zeta.
      destruct (rep_push _ _ _ _ _ _ (IT (Tok KWs [SP])) Rp3) as (hp4 & ll4 & E4 & Rp4).
      rewrite E4. cbv beta iota zeta.
      eapply (v_does_intro its _ _ _ _ _ (([IT (Tok KComma [COMMA])] ++ y) ++ [IT (Tok KWs [SP])]));
        [unfold its1; now rewrite !app_assoc|exact Rp4].
    + cbv beta iota zeta.
      eapply (v_does_intro its _ _ _ _ _ ([IT (Tok KComma [COMMA])] ++ y)); [unfold its1; now rewrite app_assoc|exact Rp3].
Qed.

(** ** append_value, append *)
Lemma av_loop its X : Forall (stored its) X -> forall KX vt hp ll ch co ns,
  tr_v_append_value_loop1 (map vr_ref X) KX k vt hp its ll ch co ns trp_STYPE trp_VTYPE
  = KX k vt hp its ll ch co (needs_separator k (map vr_item X) || ns) trp_STYPE trp_VTYPE.
Proof.
  induction 1 as [|r X Hr _ IH]; intros; [reflexivity|].
  cbn [map tr_v_append_value_loop1 needs_separator].
  unfold trp_VTYPE at 1. rewrite (isinstance_stored k its r CVtype Hr). cbn [cls_test].
  destruct (is_value (vr_item r)); [reflexivity|].
  unfold trp_STYPE at 1. rewrite (isinstance_stored k its r CStype Hr). cbn [cls_test].
  destruct (is_stype k (vr_item r)); [reflexivity|]. apply IH.
Qed.

Lemma Forall_rev' {A} (P : A -> Prop) l : Forall P l -> Forall P (rev l).
Proof. rewrite !Forall_forall. intros H x Hx. apply H. now apply in_rev. Qed.

Theorem tr_v_append_value_does hp its ll ch co vw vt it :
  v_rep (hp, its, ll, ch, co) vw -> te_get its vt = Some it ->
  v_does its (tr_v_append_value k hp its ll ch co vt) (append_value k it vw).
Proof.
  intros Rp Hvt. pose proof Rp as (R & I & E & Hc & Ho).
  unfold tr_v_append_value, append_value. cbv beta zeta.
  rewrite (v_ll_bool _ _ _ _ I).
  destruct R as [|r0 R0].
  - (* the empty list: a blank first *)
    destruct (v_nodes vw) as [|n0 ns0] eqn:EN; [|unfold v_items in E; rewrite EN in E; discriminate].
    unfold trp_new_tok, te_new. cbv beta iota zeta.
    destruct (rep_push _ _ _ _ _ _ (IT (Tok KWs [32%N])) Rp) as (hp1 & ll1 & E1 & Rp1).
    rewrite E1. cbv beta iota zeta.
    destruct (tr_v_append_cont_does _ _ _ _ _ _ Rp1) as (hp2 & y2 & ll2 & ch2 & co2 & E2 & Rp2).
    rewrite E2. cbv beta iota zeta.
    destruct (rep_push_old _ _ _ _ _ _ vt it (rep_set_changed _ _ _ _ _ _ Rp2)
                (te_get_app _ y2 _ _ (te_get_app _ [IT (Tok KWs [32%N])] _ _ Hvt))) as (hp3 & ll3 & E3 & Rp3).
    rewrite E3. cbv beta iota zeta.
    eapply (v_does_intro its _ _ _ _ _ ([IT (Tok KWs [32%N])] ++ y2)); [now rewrite app_assoc|exact Rp3].
  - destruct (v_nodes vw) as [|n0 ns0] eqn:EN; [unfold v_items in E; rewrite EN in E; discriminate|].
    rewrite (v_ll_reversed _ _ _ _ I), <- map_rev.
    rewrite (av_loop its _ (Forall_rev' _ _ (vi_store _ _ _ _ I))). rewrite orb_false_r, map_rev, E.
    destruct (needs_separator k (rev (v_items vw))).
    + destruct (tr_v_append_separator_does _ _ _ _ _ _ true Rp) as (hp1 & y1 & ll1 & ch1 & co1 & E1 & Rp1).
      rewrite E1. cbv beta iota zeta.
      destruct (tr_v_append_cont_does _ _ _ _ _ _ Rp1) as (hp2 & y2 & ll2 & ch2 & co2 & E2 & Rp2).
      rewrite E2. cbv beta iota zeta.
      destruct (rep_push_old _ _ _ _ _ _ vt it (rep_set_changed _ _ _ _ _ _ Rp2)
                  (te_get_app _ y2 _ _ (te_get_app _ y1 _ _ Hvt))) as (hp3 & ll3 & E3 & Rp3).
      rewrite E3. cbv beta iota zeta.
      eapply (v_does_intro its _ _ _ _ _ (y1 ++ y2)); [now rewrite app_assoc|exact Rp3].
    + cbv beta iota zeta.
      destruct (tr_v_append_cont_does _ _ _ _ _ _ Rp) as (hp2 & y2 & ll2 & ch2 & co2 & E2 & Rp2).
      rewrite E2. cbv beta iota zeta.
      destruct (rep_push_old _ _ _ _ _ _ vt it (rep_set_changed _ _ _ _ _ _ Rp2) (te_get_app _ y2 _ _ Hvt))
        as (hp3 & ll3 & E3 & Rp3).
      rewrite E3. cbv beta iota zeta.
      eapply (v_does_intro its _ _ _ _ _ y2); [reflexivity|exact Rp3].
Qed.

Theorem tr_v_append_refines hp its ll ch co vw x :
  v_rep (hp, its, ll, ch, co) vw ->
  v_refines (tr_v_append k hp its ll ch co x) (hp, its, ll, ch, co) (append k x vw).
Proof.
  intros Rp. unfold tr_v_append, append, trp_value_factory.
  destruct (value_factory k x) as [it|e]; cbn [bind v_refines fst snd]; [|reflexivity].
  unfold te_new. cbv beta iota zeta.
  destruct (tr_v_append_value_does _ _ _ _ _ _ (te_ref (length its)) it
              (rep_store_app _ _ _ _ _ _ [it] Rp) (te_get_new _ _)) as (hp1 & y1 & ll1 & ch1 & co1 & E1 & Rp1).
  rewrite E1. cbv beta iota zeta.
  eapply (v_does_intro its _ _ _ _ _ ([it] ++ y1)); [now rewrite app_assoc|exact Rp1].
Qed.

(** ** append_comment: the newline is appended before the comment text is checked *)
Theorem tr_v_append_comment_refines hp its ll ch co vw c :
  v_rep (hp, its, ll, ch, co) vw ->
  match append_comment c vw with
  | (Ok vw', _) => v_does its (tr_v_append_comment k hp its ll ch co c) vw'
  | (Err e, vw1) => exists hp' y ll' ch' co',
      tr_v_append_comment k hp its ll ch co c = MErr e (hp', its ++ y, ll', ch', co')
      /\ v_rep (hp', its ++ y, ll', ch', co') vw1
  end.
Proof.
  intros Rp. pose proof Rp as (R & I & E & Hc & Ho).
  unfold tr_v_append_comment, append_comment. cbv beta zeta.
  pose proof (tail_text _ _ _ _ I) as T. rewrite E, <- tail_ends_lf_items in T.
  assert (T' : (do tail <- trp_ll_tail_value hp ll;
                if tr_is_none tail then Ok true
                else do x <- tr_unwrap tail; do t <- trp_te_text its x; Ok (negb (trp_endswith_lf t tt)))
               = Ok (negb (tail_ends_lf vw))).
  { destruct (trp_ll_tail_value hp ll) as [[x|]|e]; cbn [bind tr_is_some tr_is_none tr_unwrap] in *; try discriminate.
    - destruct (trp_te_text its x); cbn [bind] in *; [|discriminate]. now injection T as <-.
    - now injection T as <-. }
  destruct (trp_ll_tail_value hp ll) as [tail|e]; cbn [bind] in T'; [|discriminate].
  rewrite T'.
  destruct (tail_ends_lf vw) eqn:TE; cbn [negb]; cbv beta iota zeta.
  - (* no newline needed *)
    destruct (format_comment c) as [text|e].
    + unfold trp_new_tok, te_new. cbv beta iota zeta.
      destruct (rep_push _ _ _ _ _ _ (IT (Tok KCom text)) Rp) as (hp1 & ll1 & E1 & Rp1).
      rewrite E1. cbv beta iota zeta. eapply v_does_intro; [reflexivity|exact Rp1].
    + exists hp, [], ll, ch, co. rewrite app_nil_r. split; [reflexivity|exact Rp].
  - pose proof (tr_v_append_newline_refines _ _ _ _ _ _ Rp) as N. unfold append_newline in *. rewrite TE in *.
    cbn [v_refines fst snd] in N. destruct N as (hp1 & y1 & ll1 & ch1 & co1 & E1 & Rp1).
    rewrite E1. cbv beta iota zeta.
    destruct (format_comment c) as [text|e].
    + unfold trp_new_tok, te_new. cbv beta iota zeta.
      destruct (rep_push _ _ _ _ _ _ (IT (Tok KCom text)) Rp1) as (hp2 & ll2 & E2 & Rp2).
      rewrite E2. cbv beta iota zeta.
      eapply (v_does_intro its _ _ _ _ _ (y1 ++ [IT (Tok KCom text)])); [now rewrite app_assoc|exact Rp2].
    + exists hp1, y1, ll1, ch1, co1. split; [reflexivity|exact Rp1].
Qed.

(** ** replace *)
Lemma set_at_app {A} (f : A -> A) (l1 : list A) a l2 : set_at (length l1) f (l1 ++ a :: l2) = l1 ++ f a :: l2.
Proof. induction l1 as [|b l1 IH]; cbn [length app set_at]; [reflexivity|]. now rewrite IH. Qed.

Lemma map_set_at {A B} (g : A -> B) (f : A -> A) (f' : B -> B) l :
  (forall a, g (f a) = f' (g a)) -> forall i, map g (set_at i f l) = set_at i f' (map g l).
Proof.
  intros H. induction l as [|a l IH]; intros [|i]; cbn [set_at map]; try reflexivity.
  - now rewrite H.
  - now rewrite IH.
Qed.

Lemma ll_rep_set_value h ll L1 i v L2 v' n :
  ll_rep h ll (L1 ++ (i, v) :: L2) -> hget h i = Some n ->
  ll_rep (hput i (mkNode (n_prev n) (n_next n) v') h) ll (L1 ++ (i, v') :: L2).
Proof.
  intros [Hs Hnd Hh Ht Hz Hb] Hn.
  assert (Hids : ids (L1 ++ (i, v') :: L2) = ids (L1 ++ (i, v) :: L2)) by now rewrite !ids_app, !ids_cons.
  pose proof (seg_mid _ _ _ _ _ _ _ Hs) as Hm. rewrite Hn in Hm. injection Hm as ->. cbn [n_prev n_next].
  pose proof (nodup_mid _ _ _ _ Hnd) as (Hn1 & Hn2 & _).
  constructor.
  - apply seg_app in Hs. destruct Hs as [S1 S2]. cbn [seg first_id] in S1, S2. destruct S2 as [_ S2].
    apply seg_app. split.
    + cbn [first_id]. eapply seg_frame; [|exact S1]. intros j Hj. apply hget_hput_neq. intros Ej; subst j; contradiction.
    + cbn [seg]. split; [apply hget_hput_eq|].
      eapply seg_frame; [|exact S2]. intros j Hj. apply hget_hput_neq. intros Ej; subst j; contradiction.
  - now rewrite Hids.
  - rewrite Hh, !first_id_app. reflexivity.
  - rewrite Ht, !last_id_app. reflexivity.
  - rewrite Hz, !app_length. reflexivity.
  - intros j Hj. rewrite nxt_hput. apply Hb. now rewrite <- Hids.
Qed.

Definition new_row (its : testore) (vt : item) (r : vrow) : vrow := mkVRow (vr_id r) (te_ref (length its)) vt.

(** the value of the node of a row is replaced by a new object *)
Lemma v_set_value hp its ll R1 r R2 vt :
  v_inv hp its ll (R1 ++ r :: R2) ->
  exists hp', trp_set_value hp (vr_id r) (te_ref (length its)) = Ok hp'
              /\ v_inv hp' (its ++ [vt]) ll (R1 ++ new_row its vt r :: R2).
Proof.
  intros [A F]. rewrite map_app in A. cbn [map] in A. unfold vrL at 2 in A.
  pose proof (seg_mid _ _ _ _ _ _ _ (lr_seg _ _ _ A)) as Hm.
  rewrite trp_set_value_eq, Hm. eexists. split; [reflexivity|]. constructor.
  - rewrite map_app. cbn [map]. unfold vrL at 2. cbn [new_row vr_id vr_ref].
    rewrite app_length in *. cbn [length] in *.
    exact (ll_rep_set_value _ _ _ _ _ _ (te_ref (length its)) _ A Hm).
  - apply Forall_app in F. destruct F as [F1 F2]. inversion F2 as [|? ? _ F3]; subst.
    apply Forall_app. split; [now apply stored_app|]. constructor; [apply te_get_new|now apply stored_app].
Qed.

Lemma replace_loop hp its ll ch co x y : forall R2 R1,
  v_inv hp its ll (R1 ++ R2) ->
  match find_value x (map vr_item R2) (length R1) with
  | None => tr_v_replace_loop1 (map vr_id R2) k x y hp its ll ch co trp_VTYPE = MErr ValueError (hp, its, ll, ch, co)
  | Some i =>
      match value_factory k y with
      | Err e => tr_v_replace_loop1 (map vr_id R2) k x y hp its ll ch co trp_VTYPE = MErr e (hp, its, ll, ch, co)
      | Ok vt => exists hp',
          tr_v_replace_loop1 (map vr_id R2) k x y hp its ll ch co trp_VTYPE = MOk tt (hp', its ++ [vt], ll, true, co)
          /\ v_inv hp' (its ++ [vt]) ll (set_at i (new_row its vt) (R1 ++ R2))
      end
  end.
Proof.
  induction R2 as [|r R2 IH]; intros R1 I; cbn [map find_value tr_v_replace_loop1]; [reflexivity|].
  assert (Hin : In r (R1 ++ r :: R2)) by (apply in_or_app; right; now left).
  rewrite (v_get_value _ _ _ _ r I Hin). cbn [bind].
  assert (Hst : stored its r).
  { pose proof (vi_store _ _ _ _ I) as F. rewrite Forall_forall in F. now apply F. }
  unfold trp_VTYPE. rewrite (isinstance_stored k its r CVtype Hst). cbn [cls_test].
  destruct (is_value (vr_item r)); cbn [andb].
  - rewrite (render_stored its r Hst). cbn [bind].
    destruct (str_eqb (render (vr_item r)) x).
    + unfold trp_value_factory. destruct (value_factory k y) as [vt|e]; [|reflexivity].
      unfold te_new. cbv beta iota zeta.
      destruct (v_set_value _ _ _ _ _ _ vt I) as (hp' & Es & I').
      rewrite Es. exists hp'. split; [reflexivity|]. now rewrite set_at_app.
    + specialize (IH (R1 ++ [r])). rewrite <- app_assoc, app_length in IH. cbn [app length] in IH.
      rewrite Nat.add_1_r in IH. apply IH. exact I.
  - specialize (IH (R1 ++ [r])). rewrite <- app_assoc, app_length in IH. cbn [app length] in IH.
    rewrite Nat.add_1_r in IH. apply IH. exact I.
Qed.

Theorem tr_v_replace_refines hp its ll ch co vw x y :
  v_rep (hp, its, ll, ch, co) vw ->
  v_refines (tr_v_replace k hp its ll ch co x y) (hp, its, ll, ch, co) (replace k x y vw).
Proof.
  intros (R & I & E & Hc & Ho). unfold tr_v_replace, replace. cbv zeta.
  rewrite (v_ll_iter_nodes _ _ _ _ I).
  pose proof (replace_loop hp its ll ch co x y R [] I) as L. cbn [length app] in L. rewrite E in L.
  destruct (find_value x (v_items vw) 0) as [i|]; [|exact L].
  destruct (value_factory k y) as [vt|e]; cbn [bind v_refines fst snd]; [|exact L].
  destruct L as (hp' & EL & I'). rewrite EL.
  eapply (v_does_intro its _ _ _ _ _ [vt]); [reflexivity|].
  eexists. split; [exact I'|]. split; [|split; [reflexivity|exact Ho]].
  unfold set_value_at, v_items. cbn [v_nodes set_changed set_nodes].
  rewrite (map_set_at vr_item (new_row its vt) (fun _ => vt)) by reflexivity.
  rewrite (map_set_at snd (fun n : node => (fst n, vt)) (fun _ => vt)) by reflexivity.
  now rewrite E.
Qed.

(** ** _remove_node: the two scans *)
Lemma rep_fuel hp ll L : ll_rep hp ll L -> (length L < walk_fuel hp)%nat.
Proof.
  intros [_ Hnd _ _ _ Hb]. pose proof (pigeon (ids L) (nxt hp) Hnd Hb) as Hp.
  unfold ids in Hp. rewrite map_length in Hp. exact Hp.
Qed.

(** the nodes after a node of the list *)
Lemma v_iter_next_skip hp its ll R1 r R2 :
  v_inv hp its ll (R1 ++ r :: R2) -> trp_iter_next_skip hp (vr_id r) = Ok (map vr_id R2).
Proof.
  intros [A _]. rewrite map_app in A. cbn [map] in A. unfold vrL at 2 in A.
  pose proof (seg_mid _ _ _ _ _ _ _ (lr_seg _ _ _ A)) as Hm.
  unfold trp_iter_next_skip. rewrite trp_get_next_eq, Hm. cbn [n_next].
  pose proof (lr_seg _ _ _ A) as S0. apply seg_app in S0. destruct S0 as [_ S2]. cbn [seg] in S2. destruct S2 as [_ S2].
  destruct R2 as [|w D]; [reflexivity|]. cbn [map first_id]. unfold vrL at 1. cbn [first_id].
  unfold tr_node_iter_next. cbn [bind].
  change (Some (vr_id w)) with (first_id (map vrL (w :: D)) None).
  rewrite (iter_next_loop_seg hp (vr_id w) false (map vrL (w :: D)) _ (walk_fuel hp) [] S2).
  - cbn [app]. now rewrite ids_vrL.
  - pose proof (rep_fuel _ _ _ A) as Hf. rewrite app_length in Hf. cbn [length] in *. rewrite !map_length in *. lia.
Qed.

Lemma walk_prev_seg h : forall L q f,
  seg h None L q -> (length L <= f)%nat -> walk_prev h f (last_id L None) = Ok (rev (ids L)).
Proof.
  induction L as [|[i v] L IH] using rev_ind; intros q f Hs Hf; [destruct f; reflexivity|].
  rewrite last_id_snoc. rewrite app_length in Hf. cbn [length] in Hf.
  destruct f as [|f]; [lia|]. cbn [walk_prev].
  pose proof (seg_mid _ _ _ _ _ _ _ Hs) as Hm. rewrite Hm. cbn [n_prev].
  apply seg_app in Hs. destruct Hs as [S1 _].
  rewrite (IH _ f S1) by lia. rewrite ids_app, rev_app_distr. reflexivity.
Qed.

(** the nodes before a node of the list, nearest first *)
Lemma v_iter_previous_skip hp its ll R1 r R2 :
  v_inv hp its ll (R1 ++ r :: R2) -> trp_iter_previous_skip hp (vr_id r) = Ok (map vr_id (rev R1)).
Proof.
  intros [A _]. rewrite map_app in A. cbn [map] in A. unfold vrL at 2 in A.
  pose proof (seg_mid _ _ _ _ _ _ _ (lr_seg _ _ _ A)) as Hm.
  unfold trp_iter_previous_skip. rewrite tr_node_get_prev_eq, Hm. cbn [n_prev].
  pose proof (lr_seg _ _ _ A) as S0. apply seg_app in S0. destruct S0 as [S1 _].
  rewrite (walk_prev_seg hp _ _ (walk_fuel hp) S1).
  - now rewrite ids_vrL, map_rev.
  - pose proof (rep_fuel _ _ _ A) as Hf. rewrite app_length in Hf. cbn [length] in *. rewrite !map_length in *. lia.
Qed.

(** the scan of one side, on rows: the comment flag and the split at the first value *)
Definition cons_split (r : vrow) (o : option (list vrow * vrow * list vrow)) :=
  match o with Some (C, w, D) => Some (r :: C, w, D) | None => None end.
Fixpoint scan_rows (X : list vrow) (seen : bool) : bool * option (list vrow * vrow * list vrow) :=
  match X with
  | [] => (seen, None)
  | r :: X' =>
      if is_comment_item (vr_item r) then (fst (scan_rows X' true), cons_split r (snd (scan_rows X' true)))
      else if is_value (vr_item r) then (seen, Some ([], r, X'))
      else (fst (scan_rows X' seen), cons_split r (snd (scan_rows X' seen)))
  end.
Definition split_dist (d0 : nat) (o : option (list vrow * vrow * list vrow)) : option nat :=
  match o with Some (C, _, _) => Some (d0 + length C)%nat | None => None end.
Definition split_id (o : option (list vrow * vrow * list vrow)) : option id :=
  match o with Some (_, w, _) => Some (vr_id w) | None => None end.

Lemma scan_rows_side : forall X seen d0,
  scan_side (map vr_item X) seen d0 = (fst (scan_rows X seen), split_dist d0 (snd (scan_rows X seen))).
Proof.
  induction X as [|r X IH]; intros seen d0; cbn [map scan_side scan_rows]; [reflexivity|].
  destruct (is_comment_item (vr_item r)).
  - rewrite IH. cbn [fst snd]. f_equal. destruct (snd (scan_rows X true)) as [[[C w] D]|]; cbn; [f_equal; lia|reflexivity].
  - destruct (is_value (vr_item r)).
    + cbn. now rewrite Nat.add_0_r.
    + rewrite IH. cbn [fst snd]. f_equal. destruct (snd (scan_rows X seen)) as [[[C w] D]|]; cbn; [f_equal; lia|reflexivity].
Qed.

Lemma scan_rows_split : forall X seen C w D, snd (scan_rows X seen) = Some (C, w, D) -> X = C ++ w :: D.
Proof.
  induction X as [|r X IH]; intros seen C w D; cbn [scan_rows]; [discriminate|].
  destruct (is_comment_item (vr_item r)); [|destruct (is_value (vr_item r))]; cbn [snd].
  - destruct (snd (scan_rows X true)) as [[[C' w'] D']|] eqn:E; cbn; [|discriminate].
    intros H; inversion H; subst. cbn. f_equal. now apply (IH true).
  - intros H; inversion H; subst. reflexivity.
  - destruct (snd (scan_rows X seen)) as [[[C' w'] D']|] eqn:E; cbn; [|discriminate].
    intros H; inversion H; subst. cbn. f_equal. now apply (IH seen).
Qed.

Definition readable (hp : heap) (its : testore) (r : vrow) : Prop :=
  trp_get_value hp (vr_id r) = Ok (vr_ref r) /\ stored its r.

Lemma comment_test its r : stored its r ->
  (if trp_isinstance k its (vr_ref r) trp_TOKEN then do t <- trp_te_is_comment its (vr_ref r); Ok t else Ok false)
  = Ok (is_comment_item (vr_item r)).
Proof.
  intros H. unfold trp_TOKEN. rewrite (isinstance_stored k its r CToken H). cbn [cls_test].
  unfold trp_te_is_comment, te_look. rewrite H. destruct (vr_item r); reflexivity.
Qed.

Lemma rn_loop2 hp its ll ch co node lhs cp : forall X, Forall (readable hp its) X -> forall cn,
  tr_v_remove_node_loop2 (map vr_id X) k node hp its ll ch co trp_VTYPE lhs None cp cn
  = tr_v_remove_node_loop2 [] k node hp its ll ch co trp_VTYPE lhs (split_id (snd (scan_rows X cn))) cp (fst (scan_rows X cn)).
Proof.
  induction 1 as [|r X [Hg Hs] _ IH]; intros cn; [reflexivity|].
  cbn [map]. cbn [tr_v_remove_node_loop2]. rewrite Hg, (comment_test its r Hs).
  cbn [scan_rows]. destruct (is_comment_item (vr_item r)).
  - rewrite IH. cbn [fst snd]. destruct (snd (scan_rows X true)) as [[[C w] D]|]; reflexivity.
  - unfold trp_VTYPE at 1. rewrite (isinstance_stored k its r CVtype Hs). cbn [cls_test].
    destruct (is_value (vr_item r)); [reflexivity|].
    rewrite IH. cbn [fst snd]. destruct (snd (scan_rows X cn)) as [[[C w] D]|]; reflexivity.
Qed.

Lemma rn_loop1 hp its ll ch co node : forall X, Forall (readable hp its) X -> forall cp,
  tr_v_remove_node_loop1 (map vr_id X) k node hp its ll ch co trp_VTYPE None None cp false
  = tr_v_remove_node_loop1 [] k node hp its ll ch co trp_VTYPE (split_id (snd (scan_rows X cp))) None (fst (scan_rows X cp)) false.
Proof.
  induction 1 as [|r X [Hg Hs] _ IH]; intros cp; [reflexivity|].
  cbn [map]. cbn [tr_v_remove_node_loop1]. rewrite Hg, (comment_test its r Hs).
  cbn [scan_rows]. destruct (is_comment_item (vr_item r)).
  - rewrite IH. cbn [fst snd]. destruct (snd (scan_rows X true)) as [[[C w] D]|]; reflexivity.
  - unfold trp_VTYPE at 1. rewrite (isinstance_stored k its r CVtype Hs). cbn [cls_test].
    destruct (is_value (vr_item r)); [reflexivity|].
    rewrite IH. cbn [fst snd]. destruct (snd (scan_rows X cp)) as [[[C w] D]|]; reflexivity.
Qed.

(** ** _remove_node: the pointer surgery *)
Lemma NoDup_app_remove_mid {A} (a m b : list A) : NoDup (a ++ m ++ b) -> NoDup (a ++ b).
Proof.
  induction m as [|x m IH]; [trivial|]. cbn [app]. intros H. apply IH. eapply NoDup_remove_1. exact H.
Qed.

Lemma last_id_cons_some : forall l i (v : str) p, exists a, last_id ((i, v) :: l) p = Some a.
Proof.
  induction l as [|[j w] l IH]; intros i v p; cbn [last_id]; [now exists i|]. apply (IH j w (Some i)).
Qed.

(** rows [M] in the middle are unlinked: what [head_node] / [tail_node] bookkeeping and [link_nodes] do *)
Lemma v_unlink hp its ll P M Q :
  v_inv hp its ll (P ++ M ++ Q) ->
  let lhs := last_id (map vrL P) None in
  let rhs := first_id (map vrL Q) None in
  let ll1 := match lhs with None => trp_ll_set_head ll rhs | Some _ => ll end in
  let ll2 := match rhs with None => trp_ll_set_tail ll1 lhs | Some _ => ll1 end in
  exists hp', tr_link_nodes hp lhs rhs = MOk tt hp' /\ v_inv hp' its ll2 (P ++ Q).
Proof.
  intros [A F]. cbv zeta. rewrite !map_app in A.
  pose proof (lr_seg _ _ _ A) as S0. apply seg_app in S0. destruct S0 as [S1 S23].
  apply seg_app in S23. destruct S23 as [_ S3].
  assert (Hnd : NoDup (ids (map vrL P ++ map vrL Q))).
  { pose proof (lr_nodup _ _ _ A) as H. rewrite !ids_app in H. rewrite ids_app. now apply NoDup_app_remove_mid in H. }
  destruct (link_nodes_spec hp _ _ _ _ S1 S3 Hnd) as (hp' & E & S' & N' & _).
  rewrite tr_link_nodes_eq, E. cbn [lift_h]. exists hp'. split; [reflexivity|]. constructor.
  - rewrite map_app. constructor.
    + exact S'.
    + exact Hnd.
    + (* head *)
      destruct P as [|p0 P0].
      * cbn [map last_id app]. destruct (first_id (map vrL Q) None); reflexivity.
      * destruct (last_id_cons_some (map vrL P0) (vr_id p0) (vr_ref p0) None) as [a Ha].
        change (vr_id p0, vr_ref p0) with (vrL p0) in Ha. cbn [map]. rewrite Ha.
        pose proof (lr_head _ _ _ A) as Hh. cbn [ll_fit ll_head map app] in Hh.
        destruct (first_id (map vrL Q) None); cbn [ll_fit ll_head trp_ll_set_tail]; exact Hh.
    + (* tail *)
      destruct Q as [|q0 Q0].
      * cbn [map first_id]. rewrite !app_nil_r.
        destruct (last_id (map vrL P) None); reflexivity.
      * change (first_id (map vrL (q0 :: Q0)) None) with (Some (vr_id q0)). cbv iota.
        pose proof (lr_tail _ _ _ A) as Ht. cbn [ll_fit ll_tail] in Ht.
        rewrite !last_id_app in Ht. rewrite last_id_app.
        destruct (last_id (map vrL P) None); cbn [ll_fit ll_tail trp_ll_set_head]; exact Ht.
    + cbn [ll_fit ll_size]. now rewrite <- map_app, map_length.
    + intros i Hi. rewrite N'. apply (lr_bound _ _ _ A). rewrite !ids_app in *.
      apply in_app_or in Hi. apply in_or_app. destruct Hi as [Hi|Hi]; [now left|right; apply in_or_app; now right].
  - apply Forall_app in F. destruct F as [F1 F2]. apply Forall_app in F2. destruct F2 as [_ F3].
    apply Forall_app. split; assumption.
Qed.

Lemma firstn_len_app {A} (a b : list A) : firstn (length a) (a ++ b) = a.
Proof. rewrite firstn_app, Nat.sub_diag, firstn_all. cbn. apply app_nil_r. Qed.
Lemma skipn_len_app {A} (a b : list A) : skipn (length a) (a ++ b) = b.
Proof. rewrite skipn_app, Nat.sub_diag, skipn_all. reflexivity. Qed.

Lemma delete_range_mid {A} (P M Q : list A) a b :
  a = length P -> b = (length P + length M)%nat -> delete_range a b (P ++ M ++ Q) = P ++ Q.
Proof.
  intros -> ->. unfold delete_range. rewrite firstn_len_app. f_equal.
  rewrite app_assoc, <- app_length. apply skipn_len_app.
Qed.

Lemma map_delete_range {A B} (f : A -> B) a b l : map f (delete_range a b l) = delete_range a b (map f l).
Proof. unfold delete_range. now rewrite map_app, firstn_map, skipn_map. Qed.

Lemma readable_all hp its ll R : v_inv hp its ll R -> Forall (readable hp its) R.
Proof.
  intros I. rewrite Forall_forall. intros r Hr. split; [now apply (v_get_value _ _ _ _ r I)|].
  pose proof (vi_store _ _ _ _ I) as F. rewrite Forall_forall in F. now apply F.
Qed.

Lemma firstn_map_len_app {A B} (f : A -> B) a (b : list B) : firstn (length a) (map f a ++ b) = map f a.
Proof. rewrite <- (map_length f a). apply firstn_len_app. Qed.
Lemma skipn_S_map_len_app {A B} (f : A -> B) a x (b : list B) : skipn (S (length a)) (map f a ++ x :: b) = b.
Proof.
  rewrite <- (map_length f a). change (x :: b) with ([x] ++ b). rewrite app_assoc.
  replace (S (length (map f a))) with (length (map f a ++ [x])) by (rewrite app_length; cbn; lia).
  apply skipn_len_app.
Qed.

Lemma remove_range_rows R1 r R2 :
  remove_range (map vr_item (R1 ++ r :: R2)) (length R1)
  = let SL := scan_rows (rev R1) false in
    let SR := scan_rows R2 false in
    let i := length R1 in
    match split_dist 0 (snd SL), split_dist 0 (snd SR) with
    | None, None => None
    | Some dl, None => Some (i - dl, S i)%nat
    | None, Some dr => Some (i, S i + dr)%nat
    | Some dl, Some dr =>
        if (if negb (fst SL) then true else if negb (fst SR) then false else true)
        then Some (i - dl, S i)%nat else Some (i, S i + dr)%nat
    end.
Proof.
  unfold remove_range. rewrite map_app. cbn [map].
  rewrite firstn_map_len_app, skipn_S_map_len_app.
  rewrite <- map_rev, !scan_rows_side. reflexivity.
Qed.

Theorem tr_v_remove_node_does hp its ll ch co vw R1 r R2 :
  v_inv hp its ll (R1 ++ r :: R2) -> map vr_item (R1 ++ r :: R2) = v_items vw -> co = v_cont vw ->
  v_does its (tr_v_remove_node k hp its ll ch co (vr_id r)) (remove_at (length R1) vw).
Proof.
  intros I E Ho.
  pose proof (readable_all _ _ _ _ I) as RA. apply Forall_app in RA. destruct RA as [RA1 RA2].
  pose proof (Forall_inv_tail RA2) as RA3.
  unfold tr_v_remove_node. cbv zeta.
  rewrite (v_iter_previous_skip _ _ _ _ _ _ I).
  rewrite (rn_loop1 hp its ll true co (vr_id r) (rev R1) (Forall_rev' _ _ RA1)).
  cbn [tr_v_remove_node_loop1].
  rewrite (v_iter_next_skip _ _ _ _ _ _ I).
  rewrite (rn_loop2 hp its ll true co (vr_id r) _ _ R2 RA3).
  cbn [tr_v_remove_node_loop2].
  unfold remove_at. change (v_items (set_changed vw)) with (v_items vw). rewrite <- E, remove_range_rows. cbv zeta.
  (* the node's own cell *)
  pose proof I as [A F]. rewrite map_app in A. cbn [map] in A.
  pose proof (seg_mid _ _ _ _ _ _ _ (lr_seg _ _ _ A)) as Hm.
  assert (Hnext : trp_get_next hp (vr_id r) = Ok (first_id (map vrL R2) None)) by now rewrite trp_get_next_eq, Hm.
  assert (Hprev : tr_node_get_prev hp (vr_id r) = Ok (last_id (map vrL R1) None)) by now rewrite tr_node_get_prev_eq, Hm.
  clear A F Hm.
  destruct (scan_rows (rev R1) false) as [cp oL] eqn:EL. destruct (scan_rows R2 false) as [cn oR] eqn:ER.
  cbn [fst snd].
  assert (SPL : forall B v A0, oL = Some (B, v, A0) -> R1 = (rev A0 ++ [v]) ++ rev B).
  { intros B v A0 ->. pose proof (scan_rows_split (rev R1) false B v A0) as H. rewrite EL in H.
    specialize (H eq_refl). apply (f_equal (@rev vrow)) in H. rewrite rev_involutive in H.
    rewrite H, rev_app_distr. cbn [rev]. now rewrite <- app_assoc. }
  assert (SPR : forall C w D, oR = Some (C, w, D) -> R2 = C ++ w :: D).
  { intros C w D ->. pose proof (scan_rows_split R2 false C w D) as H. rewrite ER in H. now apply H. }
  (* what the two ways of unlinking do *)
  assert (LEFT : forall B v A0, oL = Some (B, v, A0) ->
    v_does its
      (match trp_get_next hp (vr_id r) with
       | Ok t =>
           match t with
           | None =>
               match (match tr_link_nodes hp (Some (vr_id v)) t with
                      | MOk a h => let '(hp) := h in MOk a (hp, its, trp_ll_set_tail ll (Some (vr_id v)), true, co)
                      | MErr e h => let '(hp) := h in MErr e (hp, its, trp_ll_set_tail ll (Some (vr_id v)), true, co) end) with
               | MOk _ st => let '(hp, its, s_ll, s_changed, s_cont) := st in MOk tt (hp, its, s_ll, s_changed, s_cont)
               | MErr e st => MErr e st end
           | Some _ =>
               match (match tr_link_nodes hp (Some (vr_id v)) t with
                      | MOk a h => let '(hp) := h in MOk a (hp, its, ll, true, co)
                      | MErr e h => let '(hp) := h in MErr e (hp, its, ll, true, co) end) with
               | MOk _ st => let '(hp, its, s_ll, s_changed, s_cont) := st in MOk tt (hp, its, s_ll, s_changed, s_cont)
               | MErr e st => MErr e st end
           end
       | Err e => MErr e (hp, its, ll, true, co)
       end)
      (set_nodes (set_changed vw) (delete_range (length R1 - (0 + length B)) (S (length R1)) (v_nodes (set_changed vw))))).
  { intros B v A0 HL. pose proof (SPL _ _ _ HL) as E1.
    assert (I2 : v_inv hp its ll ((rev A0 ++ [v]) ++ (rev B ++ [r]) ++ R2)).
    { replace ((rev A0 ++ [v]) ++ (rev B ++ [r]) ++ R2) with (R1 ++ r :: R2); [exact I|].
      rewrite E1, <- !app_assoc. reflexivity. }
    destruct (v_unlink _ _ _ _ _ _ I2) as (hp' & EU & I'). cbv zeta in I'.
    rewrite last_id_map_snoc in EU, I'. rewrite Hnext.
    assert (EV : map vr_item ((rev A0 ++ [v]) ++ R2)
                 = v_items (set_nodes (set_changed vw) (delete_range (length R1 - (0 + length B)) (S (length R1)) (v_nodes (set_changed vw))))).
    { unfold v_items. cbn [v_nodes set_nodes set_changed]. rewrite map_delete_range. change (map snd (v_nodes vw)) with (v_items vw). rewrite <- E.
      rewrite <- map_delete_range. f_equal.
      replace (R1 ++ r :: R2) with ((rev A0 ++ [v]) ++ (rev B ++ [r]) ++ R2) by (rewrite E1, <- !app_assoc; reflexivity).
      symmetry. apply delete_range_mid; rewrite E1, !app_length, !rev_length; cbn [length]; lia. }
    destruct (first_id (map vrL R2) None) as [q|]; rewrite EU; cbv beta iota zeta;
      (eapply (v_does_intro its _ _ _ _ _ []); [now rewrite app_nil_r|]);
      eexists; (split; [exact I'|]); (split; [exact EV|]); (split; [reflexivity|exact Ho]). }
  assert (RIGHT : forall C w D, oR = Some (C, w, D) ->
    v_does its
      (match tr_node_get_prev hp (vr_id r) with
       | Ok t =>
           match t with
           | None =>
               match (match tr_link_nodes hp t (Some (vr_id w)) with
                      | MOk a h => let '(hp) := h in MOk a (hp, its, trp_ll_set_head ll (Some (vr_id w)), true, co)
                      | MErr e h => let '(hp) := h in MErr e (hp, its, trp_ll_set_head ll (Some (vr_id w)), true, co) end) with
               | MOk _ st => let '(hp, its, s_ll, s_changed, s_cont) := st in MOk tt (hp, its, s_ll, s_changed, s_cont)
               | MErr e st => MErr e st end
           | Some _ =>
               match (match tr_link_nodes hp t (Some (vr_id w)) with
                      | MOk a h => let '(hp) := h in MOk a (hp, its, ll, true, co)
                      | MErr e h => let '(hp) := h in MErr e (hp, its, ll, true, co) end) with
               | MOk _ st => let '(hp, its, s_ll, s_changed, s_cont) := st in MOk tt (hp, its, s_ll, s_changed, s_cont)
               | MErr e st => MErr e st end
           end
       | Err e => MErr e (hp, its, ll, true, co)
       end)
      (set_nodes (set_changed vw) (delete_range (length R1) (S (length R1) + (0 + length C)) (v_nodes (set_changed vw))))).
  { intros C w D HR. pose proof (SPR _ _ _ HR) as E2.
    assert (I2 : v_inv hp its ll (R1 ++ (r :: C) ++ (w :: D))).
    { replace (R1 ++ (r :: C) ++ w :: D) with (R1 ++ r :: R2); [exact I|]. rewrite E2. reflexivity. }
    destruct (v_unlink _ _ _ _ _ _ I2) as (hp' & EU & I'). cbv zeta in I'.
    change (first_id (map vrL (w :: D)) None) with (Some (vr_id w)) in EU, I'. cbv iota in I'. rewrite Hprev.
    assert (EV : map vr_item (R1 ++ w :: D)
                 = v_items (set_nodes (set_changed vw) (delete_range (length R1) (S (length R1) + (0 + length C)) (v_nodes (set_changed vw))))).
    { unfold v_items. cbn [v_nodes set_nodes set_changed]. rewrite map_delete_range. change (map snd (v_nodes vw)) with (v_items vw). rewrite <- E.
      rewrite <- map_delete_range. f_equal.
      replace (R1 ++ r :: R2) with (R1 ++ (r :: C) ++ (w :: D)) by (rewrite E2; reflexivity).
      symmetry. apply delete_range_mid; cbn [length]; lia. }
    destruct (last_id (map vrL R1) None) as [q|]; rewrite EU; cbv beta iota zeta;
      (eapply (v_does_intro its _ _ _ _ _ []); [now rewrite app_nil_r|]);
      eexists; (split; [exact I'|]); (split; [exact EV|]); (split; [reflexivity|exact Ho]). }
  destruct oL as [[[B v] A0]|]; destruct oR as [[[C w] D]|]; cbn [split_id split_dist tr_is_none tr_is_some andb negb].
  - (* values on both sides *)
    destruct cp, cn; cbn [negb andb]; cbv beta iota zeta.
    + exact (LEFT _ _ _ eq_refl).
    + exact (RIGHT _ _ _ eq_refl).
    + exact (LEFT _ _ _ eq_refl).
    + exact (LEFT _ _ _ eq_refl).
  - destruct cp; cbn [negb andb]; cbv beta iota zeta; exact (LEFT _ _ _ eq_refl).
  - destruct cn; cbn [negb andb]; cbv beta iota zeta; exact (RIGHT _ _ _ eq_refl).
  - (* the only value: clear() *)
    unfold trp_ll_clear, ll_run. rewrite tr_ll_clear_eq. cbn [lift_ll]. rewrite ll_pack_st. cbv beta iota zeta.
    eapply (v_does_intro its _ _ _ _ _ []); [now rewrite app_nil_r|].
    exists []. split; [|split; [reflexivity|split; [reflexivity|exact Ho]]].
    constructor; [apply ll_rep_empty|constructor].
Qed.

(** ** remove *)
Lemma remove_loop hp its ll ch co vw x : forall R2 R1,
  v_inv hp its ll (R1 ++ R2) -> map vr_item (R1 ++ R2) = v_items vw -> co = v_cont vw ->
  match find_value x (map vr_item R2) (length R1) with
  | None => tr_v_remove_loop1 (map vr_id R2) k x hp its ll ch co trp_VTYPE = MErr ValueError (hp, its, ll, ch, co)
  | Some i => v_does its (tr_v_remove_loop1 (map vr_id R2) k x hp its ll ch co trp_VTYPE) (remove_at i vw)
  end.
Proof.
  induction R2 as [|r R2 IH]; intros R1 I E Ho; cbn [map find_value tr_v_remove_loop1]; [reflexivity|].
  assert (Hin : In r (R1 ++ r :: R2)) by (apply in_or_app; right; now left).
  rewrite (v_get_value _ _ _ _ r I Hin). cbn [bind].
  assert (Hst : stored its r).
  { pose proof (vi_store _ _ _ _ I) as F. rewrite Forall_forall in F. now apply F. }
  unfold trp_VTYPE. rewrite (isinstance_stored k its r CVtype Hst). cbn [cls_test].
  assert (NEXT : match find_value x (map vr_item R2) (S (length R1)) with
                 | None => tr_v_remove_loop1 (map vr_id R2) k x hp its ll ch co CVtype = MErr ValueError (hp, its, ll, ch, co)
                 | Some i => v_does its (tr_v_remove_loop1 (map vr_id R2) k x hp its ll ch co CVtype) (remove_at i vw)
                 end).
  { specialize (IH (R1 ++ [r])). rewrite <- app_assoc, app_length in IH. cbn [app length] in IH.
    rewrite Nat.add_1_r in IH. now apply IH. }
  destruct (is_value (vr_item r)); cbn [andb]; [|exact NEXT].
  rewrite (render_stored its r Hst). cbn [bind].
  destruct (str_eqb (render (vr_item r)) x); [|exact NEXT].
  destruct (tr_v_remove_node_does hp its ll ch co vw R1 r R2 I E Ho) as (hp' & y & ll' & ch' & co' & En & Rp').
  rewrite En. cbv beta iota zeta. eapply v_does_intro; [reflexivity|exact Rp'].
Qed.

Theorem tr_v_remove_refines hp its ll ch co vw x :
  v_rep (hp, its, ll, ch, co) vw ->
  v_refines (tr_v_remove k hp its ll ch co x) (hp, its, ll, ch, co) (remove x vw).
Proof.
  intros (R & I & E & Hc & Ho). unfold tr_v_remove, remove. cbv zeta.
  rewrite (v_ll_iter_nodes _ _ _ _ I).
  pose proof (remove_loop hp its ll ch co vw x R [] I E Ho) as L. cbn [length app] in L. rewrite E in L.
  destruct (find_value x (v_items vw) 0) as [i|]; exact L.
Qed.

(** ** iter_value_references *)
Lemma filterM_rows hp its : forall X, Forall (readable hp its) X ->
  tr_filterM (fun n => do v <- trp_get_value hp n; if trp_isinstance k its v CVtype then Ok true else Ok false)
             (map vr_id X)
  = Ok (map vr_id (filter (fun r => is_value (vr_item r)) X)).
Proof.
  induction 1 as [|r X [Hg Hs] _ IH]; [reflexivity|]. cbn [map tr_filterM filter].
  rewrite Hg. cbn [bind]. rewrite (isinstance_stored k its r CVtype Hs). cbn [cls_test].
  rewrite IH. destruct (is_value (vr_item r)); reflexivity.
Qed.

Theorem tr_v_iter_value_references_inv hp its ll ch co R :
  v_inv hp its ll R ->
  tr_v_iter_value_references k hp its ll ch co
  = Ok (map (fun r => Some (vr_id r)) (filter (fun r => is_value (vr_item r)) R)).
Proof.
  intros I. unfold tr_v_iter_value_references, trp_VTYPE. rewrite (v_ll_iter_nodes _ _ _ _ I). cbn [bind].
  rewrite (filterM_rows hp its R (readable_all _ _ _ _ I)). cbn [bind app]. now rewrite map_map.
Qed.

(** ** ValueReference *)
Definition rst := (heap * testore * llobj * bool * option str * option wref)%type.

Lemma deref_live hp its ll R1 r R2 :
  v_inv hp its ll (R1 ++ r :: R2) -> trp_vref_deref hp ll (Some (vr_id r)) = Some (vr_id r).
Proof.
  intros I. unfold trp_vref_deref. rewrite (v_ll_iter_nodes _ _ _ _ I).
  replace (existsb (Pos.eqb (vr_id r)) (map vr_id (R1 ++ r :: R2))) with true; [reflexivity|].
  symmetry. apply existsb_exists. exists (vr_id r). split; [|apply Pos.eqb_refl].
  apply in_map. apply in_or_app. right. now left.
Qed.

Lemma deref_dead hp its ll R w :
  v_inv hp its ll R -> ~ In w (map vr_id R) -> trp_vref_deref hp ll (Some w) = None.
Proof.
  intros I Hn. unfold trp_vref_deref. rewrite (v_ll_iter_nodes _ _ _ _ I).
  destruct (existsb (Pos.eqb w) (map vr_id R)) eqn:X; [|reflexivity].
  apply existsb_exists in X. destruct X as (j & Hj & Ej). apply Pos.eqb_eq in Ej. subst j. contradiction.
Qed.

(** a reference whose node is linked resolves to it; one that was removed, or whose node was unlinked, raises
    RuntimeError (kind OtherError) *)
Theorem tr_r_resolve_live hp its ll ch co R1 r R2 :
  v_inv hp its ll (R1 ++ r :: R2) -> tr_r_resolve_node k hp its ll ch co (Some (vr_id r)) = Ok (vr_id r).
Proof. intros I. unfold tr_r_resolve_node. cbn [tr_is_none]. cbv zeta. now rewrite (deref_live _ _ _ _ _ _ I). Qed.

Theorem tr_r_resolve_dead hp its ll ch co R o :
  v_inv hp its ll R -> match o with Some w => ~ In w (map vr_id R) | None => True end ->
  tr_r_resolve_node k hp its ll ch co o = Err OtherError.
Proof.
  intros I H. unfold tr_r_resolve_node. destruct o as [w|]; [|reflexivity]. cbn [tr_is_none]. cbv zeta.
  now rewrite (deref_dead _ _ _ _ _ I H).
Qed.

Theorem tr_r_value_get_live hp its ll ch co R1 r R2 :
  v_inv hp its ll (R1 ++ r :: R2) ->
  tr_r_value_get k hp its ll ch co (Some (vr_id r)) = Ok (render (vr_item r)).
Proof.
  intros I. unfold tr_r_value_get. rewrite (tr_r_resolve_live _ _ _ _ _ _ _ _ I). cbn [bind].
  assert (Hin : In r (R1 ++ r :: R2)) by (apply in_or_app; right; now left).
  rewrite (v_get_value _ _ _ _ r I Hin). cbn [bind].
  pose proof (vi_store _ _ _ _ I) as F. rewrite Forall_forall in F.
  now rewrite (render_stored its r (F r Hin)).
Qed.

Theorem tr_r_value_get_dead hp its ll ch co R o :
  v_inv hp its ll R -> match o with Some w => ~ In w (map vr_id R) | None => True end ->
  tr_r_value_get k hp its ll ch co o = Err OtherError.
Proof. intros I H. unfold tr_r_value_get. now rewrite (tr_r_resolve_dead _ _ _ _ _ _ _ I H). Qed.

(** [ref.value = x]: the factory runs first; then the node's value is replaced and the view marked changed *)
Theorem tr_r_value_set_live hp its ll ch co vw R1 r R2 x :
  v_inv hp its ll (R1 ++ r :: R2) -> map vr_item (R1 ++ r :: R2) = v_items vw -> co = v_cont vw ->
  match value_factory k x with
  | Err e => tr_r_value_set k hp its ll ch co (Some (vr_id r)) x = MErr e (hp, its, ll, ch, co, Some (vr_id r))
  | Ok vt => exists hp',
      tr_r_value_set k hp its ll ch co (Some (vr_id r)) x = MOk tt (hp', its ++ [vt], ll, true, co, Some (vr_id r))
      /\ v_rep (hp', its ++ [vt], ll, true, co) (set_value_at (length R1) vt vw)
  end.
Proof.
  intros I E Ho. unfold tr_r_value_set, trp_value_factory.
  destruct (value_factory k x) as [vt|e]; [|reflexivity].
  unfold te_new. cbv beta iota zeta.
  rewrite (tr_r_resolve_live _ _ _ _ _ _ _ _ (v_inv_store_app _ _ _ _ [vt] I)).
  destruct (v_set_value _ _ _ _ _ _ vt I) as (hp' & Es & I'). rewrite Es.
  unfold trp_notifier, tr_v_mark_changed. cbn [tr_is_some]. cbv beta iota zeta.
  exists hp'. split; [reflexivity|].
  eexists. split; [exact I'|]. split; [|split; [reflexivity|exact Ho]].
  unfold set_value_at, v_items. cbn [v_nodes set_changed set_nodes].
  rewrite <- (set_at_app (new_row its vt)).
  rewrite (map_set_at vr_item (new_row its vt) (fun _ => vt)) by reflexivity.
  rewrite (map_set_at snd (fun n : node => (fst n, vt)) (fun _ => vt)) by reflexivity.
  change (map snd (v_nodes vw)) with (v_items vw). now rewrite E.
Qed.

Theorem tr_r_value_set_dead hp its ll ch co R o x :
  v_inv hp its ll R -> match o with Some w => ~ In w (map vr_id R) | None => True end ->
  match value_factory k x with
  | Err e => tr_r_value_set k hp its ll ch co o x = MErr e (hp, its, ll, ch, co, o)
  | Ok vt => tr_r_value_set k hp its ll ch co o x = MErr OtherError (hp, its ++ [vt], ll, ch, co, o)
  end.
Proof.
  intros I H. unfold tr_r_value_set, trp_value_factory.
  destruct (value_factory k x) as [vt|e]; [|reflexivity].
  unfold te_new. cbv beta iota zeta.
  now rewrite (tr_r_resolve_dead _ _ _ _ _ _ _ (v_inv_store_app _ _ _ _ [vt] I) H).
Qed.

(** [ref.remove()] *)
Theorem tr_r_remove_live hp its ll ch co vw R1 r R2 :
  v_inv hp its ll (R1 ++ r :: R2) -> map vr_item (R1 ++ r :: R2) = v_items vw -> co = v_cont vw ->
  exists hp' y ll' ch' co',
    tr_r_remove k hp its ll ch co (Some (vr_id r)) = MOk tt (hp', its ++ y, ll', ch', co', None)
    /\ v_rep (hp', its ++ y, ll', ch', co') (remove_at (length R1) vw).
Proof.
  intros I E Ho. unfold tr_r_remove. rewrite (tr_r_resolve_live _ _ _ _ _ _ _ _ I).
  destruct (tr_v_remove_node_does hp its ll ch co vw R1 r R2 I E Ho) as (hp' & y & ll' & ch' & co' & En & Rp').
  rewrite En. cbv beta iota zeta. exists hp', y, ll', ch', co'. split; [reflexivity|exact Rp'].
Qed.

Theorem tr_r_remove_dead hp its ll ch co R o :
  v_inv hp its ll R -> match o with Some w => ~ In w (map vr_id R) | None => True end ->
  tr_r_remove k hp its ll ch co o = MErr OtherError (hp, its, ll, ch, co, o).
Proof. intros I H. unfold tr_r_remove. now rewrite (tr_r_resolve_dead _ _ _ _ _ _ _ I H). Qed.
End K2.

(** the empty list object represents the view without nodes (the hypotheses of the theorems are satisfiable; every
    other represented state is reached from here by the regenerated methods themselves) *)
Lemma v_rep_empty hp : v_rep (hp, [], ll_empty, false, None) (View [] 0 None false []).
Proof.
  exists []. split; [|split; [reflexivity|split; reflexivity]].
  constructor; [apply ll_rep_empty|constructor].
Qed.
