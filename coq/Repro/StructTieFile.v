(** C10 — tie by regeneration for Deb822FileElement.append / insert / _set_parent (Gen/TrStructFile.v, regenerated from
    lib/debian/_deb822_repro/parsing.py on every run).

    The model (Repro/Struct.v: f_append, f_insert with ins_walk; a document = the list of top-level items) is at list
    level; the code works on a LinkedList of heap nodes whose values are token / element objects.  [f_rep hp its ll d]:
    C09's [ll_rep] for the linked structure over references to distinct objects, and the store maps each of them to
    the model's item (with a parent pointer, which the model does not have).  For a paragraph object that has no
    parent and is not in the list, the regenerated append / insert end in a state that represents f_append d p /
    f_insert d idx p (they never raise; a paragraph with a parent is refused with ValueError and nothing changed). *)
From Coq Require Import Lia ZArith List Permutation ZifyBool.
From Verif Require Import Lib.Base Lib.PyStr Lib.Tr Dict.Common Dict.Heap Dict.TrPrims Dict.ProofsLL Dict.ProofsOS
  Dict.Tie Gen.TrLinkedList.
From Verif Require Import Repro.Doc Repro.StructSort Repro.Struct Repro.StructSpec Repro.StructLemmas
  Repro.StructTrPrims Gen.TrStruct Gen.TrStructDup Gen.TrStructFile Repro.StructTie Repro.StructTieDup.
Import ListNotations.
Local Open Scope Z_scope.

(** * The store of tokens and elements *)
Lemma it_get_ref s n : it_get s (it_ref n) = nth_error s n.
Proof. unfold it_get, it_ref. now rewrite Nat2N.id. Qed.

Lemma it_get_valid s r c : it_get s r = Some c -> exists n, r = it_ref n /\ (n < length s)%nat.
Proof.
  unfold it_get. destruct r as [|n [|m r]]; try discriminate. intros H. exists (N.to_nat n). split.
  - unfold it_ref. now rewrite N2Nat.id.
  - apply nth_error_Some. congruence.
Qed.

Lemma it_get_app s x r c : it_get s r = Some c -> it_get (s ++ x) r = Some c.
Proof.
  intros H. destruct (it_get_valid _ _ _ H) as (n & -> & Hn). rewrite it_get_ref in *. now rewrite nth_error_app1.
Qed.
Lemma it_get_new s c : it_get (s ++ [c]) (it_ref (length s)) = Some c.
Proof. rewrite it_get_ref, nth_error_app2 by lia. now rewrite Nat.sub_diag. Qed.

Lemma it_set_nth_same s : forall n c, (n < length s)%nat -> nth_error (it_set_nth s n c) n = Some c.
Proof. induction s as [|a s IH]; intros [|n] c H; cbn in *; try lia; [reflexivity|]. apply IH. lia. Qed.
Lemma it_set_nth_other s : forall n m c, n <> m -> nth_error (it_set_nth s n c) m = nth_error s m.
Proof. induction s as [|a s IH]; intros [|n] [|m] c H; cbn; try reflexivity; try congruence. apply IH. congruence. Qed.
Lemma it_set_nth_length s : forall n c, length (it_set_nth s n c) = length s.
Proof. induction s as [|a s IH]; intros [|n] c; cbn; try reflexivity. now rewrite IH. Qed.

Lemma it_get_set_same s r c c0 : it_get s r = Some c0 -> it_get (it_set s r c) r = Some c.
Proof.
  intros H. destruct (it_get_valid _ _ _ H) as (n & -> & Hn). rewrite it_get_ref. unfold it_set, it_ref.
  rewrite Nat2N.id. now apply it_set_nth_same.
Qed.
Lemma it_get_set_other s r r' c c0 : it_get s r = Some c0 -> r <> r' -> it_get (it_set s r c) r' = it_get s r'.
Proof.
  intros H Hne. destruct (it_get_valid _ _ _ H) as (n & -> & Hn). unfold it_set, it_ref at 1. rewrite Nat2N.id.
  unfold it_get. destruct r' as [|m [|m2 r']]; try reflexivity. apply it_set_nth_other.
  intros E. apply Hne. unfold it_ref. rewrite E. now rewrite N2Nat.id.
Qed.
Lemma it_set_length s r c : length (it_set s r c) = length s.
Proof. unfold it_set. destruct r as [|n [|m r]]; try reflexivity. apply it_set_nth_length. Qed.

(** * Representation: the file's list of tokens and elements represents a model document *)
Record frow := mkFRow { fr_id : id; fr_ref : itref; fr_item : item }.
Definition frL (r : frow) : id * str := (fr_id r, fr_ref r).

Record f_inv (hp : heap) (its : itstore) (ll : llobj) (R : list frow) : Prop := mkFInv {
  fi_ll : ll_rep hp ll (map frL R);
  fi_refs : NoDup (map fr_ref R);
  fi_store : Forall (fun r => exists par, it_get its (fr_ref r) = Some (mkIt (fr_item r) par)) R;
}.
Definition f_rep (hp : heap) (its : itstore) (ll : llobj) (d : doc) : Prop :=
  exists R, f_inv hp its ll R /\ map fr_item R = d.

Definition fst3 := (heap * itstore * llobj)%type.
Definition f_rep_st (st : fst3) (d : doc) : Prop := let '(hp, its, ll) := st in f_rep hp its ll d.

Lemma ends_nl_endswith s : trp_endswith s [LF] = ends_nl s.
Proof.
  unfold trp_endswith, endswith, ends_nl. cbn [rev app].
  destruct (list_snoc_cases s) as [->|(a & x & ->)]; [reflexivity|].
  rewrite rev_app_distr, last_opt_snoc. cbn [rev app startswith]. rewrite N.eqb_sym. destruct (x =? LF)%N; reflexivity.
Qed.

(** items are kept (parent pointers may change, new objects may appear) *)
Definition it_same (its its' : itstore) : Prop :=
  forall r c, it_get its r = Some c -> exists par, it_get its' r = Some (mkIt (it_item c) par).
Lemma it_same_refl s : it_same s s.
Proof. intros r [it par] H. now exists par. Qed.
Lemma it_same_trans a b c : it_same a b -> it_same b c -> it_same a c.
Proof. intros H1 H2 r x Hx. destruct (H1 r x Hx) as (p1 & E1). destruct (H2 r _ E1) as (p2 & E2). now exists p2. Qed.
Lemma it_same_app s x : it_same s (s ++ x).
Proof. intros r [it par] H. exists par. now apply it_get_app. Qed.
Lemma it_same_set_parent s r c p : it_get s r = Some c -> it_same s (it_set s r (mkIt (it_item c) p)).
Proof.
  intros Hr r' c' H'. destruct (list_eq_dec N.eq_dec r r') as [<-|Hne].
  - exists p. rewrite (it_get_set_same _ _ _ _ Hr). congruence.
  - exists (it_parent c'). rewrite (it_get_set_other _ _ _ _ _ Hr Hne), H'. now destruct c'.
Qed.

Lemma store_same its its' (R : list frow) :
  it_same its its' ->
  Forall (fun r => exists par, it_get its (fr_ref r) = Some (mkIt (fr_item r) par)) R ->
  Forall (fun r => exists par, it_get its' (fr_ref r) = Some (mkIt (fr_item r) par)) R.
Proof.
  intros Hs F. rewrite Forall_forall in *. intros r Hr. destruct (F r Hr) as (par & E).
  destruct (Hs _ _ E) as (par' & E'). now exists par'.
Qed.

Lemma tr_f_set_parent_eq hp its ll x c :
  it_get its x = Some c ->
  tr_f_set_parent hp its ll x = MOk x (hp, it_set its x (mkIt (it_item c) (Some trp_self)), ll).
Proof. intros H. unfold tr_f_set_parent, trp_item_set_parent, it_upd. now rewrite H. Qed.

Lemma trp_ll_tail_value_rep hp (ll : llist) L :
  ll_rep hp ll L -> trp_ll_tail_value hp ll = Ok (option_map snd (last_opt L)).
Proof.
  intros R. unfold trp_ll_tail_value, ll_read. rewrite tr_ll_tail_eq, (lr_tail _ _ _ R).
  destruct (list_snoc_cases L) as [->|(L0 & [i v] & ->)]; [reflexivity|].
  rewrite last_id_snoc, last_opt_snoc. cbn [option_map snd].
  destruct (seg_get _ _ _ _ i v (lr_seg _ _ _ R)) as (n & Hn & Hv); [apply in_or_app; right; now left|].
  rewrite load_eq, Hn. cbn [fst]. now rewrite Hv.
Qed.

Lemma trp_ll_insert_before_eq hp (ll : llist) v ex :
  trp_ll_insert_before hp ll v ex = lift_l (ll_insert_before v ex (hp, ll)).
Proof. apply ll_run_lift. intros. apply tr_ll_insert_before_eq. Qed.

(** an object is appended to the list: [_set_parent(x)], then [append] *)
Lemma f_push hp its (ll : llist) R x it par :
  f_inv hp its ll R -> it_get its x = Some (mkIt it par) -> ~ In x (map fr_ref R) ->
  exists hp' ll',
    trp_ll_append hp ll x = MOk (nxt hp) (hp', ll')
    /\ f_inv hp' (it_set its x (mkIt it (Some trp_self))) ll' (R ++ [mkFRow (nxt hp) x it]).
Proof.
  intros [A B C] Hx Hn. destruct (ll_append_spec hp ll _ x A) as (hp' & ll' & E & R' & _).
  exists hp', ll'. rewrite trp_ll_append_eq, E. split; [reflexivity|]. constructor.
  - rewrite map_app. exact R'.
  - rewrite map_app. cbn [map fr_ref]. now apply NoDup_snoc.
  - apply Forall_app. split.
    + eapply store_same; [|exact C]. exact (it_same_set_parent its x (mkIt it par) (Some trp_self) Hx).
    + constructor; [|constructor]. cbn [fr_ref fr_item]. exists (Some trp_self). eapply it_get_set_same. exact Hx.
Qed.

(** every reference of a row is a valid one: a new object is none of them *)
Lemma fresh_ref its (R : list frow) :
  Forall (fun r => exists par, it_get its (fr_ref r) = Some (mkIt (fr_item r) par)) R ->
  ~ In (it_ref (length its)) (map fr_ref R).
Proof.
  intros F Hin. apply in_map_iff in Hin as (r & E & Hr). rewrite Forall_forall in F. destruct (F r Hr) as (par & G).
  rewrite E, it_get_ref in G. assert (H : (length its < length its)%nat) by (apply nth_error_Some; congruence). lia.
Qed.

(** [Deb822WhitespaceToken('\n')], [_set_parent], [append] *)
Lemma f_push_ws hp its (ll : llist) R :
  f_inv hp its ll R ->
  let x := it_ref (length its) in
  let its0 := its ++ [mkIt WSNL None] in
  exists hp' ll',
    trp_ll_append hp ll x = MOk (nxt hp) (hp', ll')
    /\ it_get its0 x = Some (mkIt WSNL None)
    /\ f_inv hp' (it_set its0 x (mkIt WSNL (Some trp_self))) ll' (R ++ [mkFRow (nxt hp) x WSNL])
    /\ it_same its (it_set its0 x (mkIt WSNL (Some trp_self))).
Proof.
  intros I. cbv zeta. pose proof I as [A B C].
  assert (I0 : f_inv hp (its ++ [mkIt WSNL None]) ll R).
  { constructor; [exact A|exact B|]. eapply store_same; [apply it_same_app|exact C]. }
  destruct (f_push hp _ ll R (it_ref (length its)) WSNL None I0 (it_get_new _ _) (fresh_ref _ _ C)) as (hp' & ll' & E & I').
  exists hp', ll'. split; [exact E|]. split; [apply it_get_new|]. split; [exact I'|].
  eapply it_same_trans; [apply it_same_app|]. apply (it_same_set_parent _ _ (mkIt WSNL None) (Some trp_self)). apply it_get_new.
Qed.

Definition f_refines (r : mres unit fst3) (d : doc) : Prop :=
  exists st', r = MOk tt st' /\ f_rep_st st' d.

(** the last step of append: [_set_parent(paragraph)], [append], [paragraph.parent_element = self] *)
Lemma f_append_tail hp its (ll : llist) R x p par :
  f_inv hp its ll R -> it_get its x = Some (mkIt (Para p) par) -> ~ In x (map fr_ref R) ->
  f_refines
    (match tr_f_set_parent hp its ll x with
     | MOk tmp5_ (hp0, its0, s_ll) =>
         match (match trp_ll_append hp0 s_ll tmp5_ with
                | MOk a (hp1, s_ll1) => MOk a (hp1, its0, s_ll1)
                | MErr e (hp1, s_ll1) => MErr e (hp1, its0, s_ll1)
                end) with
         | MOk _ (hp1, its1, s_ll1) =>
             match (match trp_item_set_parent its1 x (Some trp_self) with
                    | MOk a its2 => MOk a (hp1, its2, s_ll1)
                    | MErr e its2 => MErr e (hp1, its2, s_ll1)
                    end) with
             | MOk _ (hp2, its2, s_ll2) => MOk tt (hp2, its2, s_ll2)
             | MErr e st => MErr e st
             end
         | MErr e st => MErr e st
         end
     | MErr e st => MErr e st
     end)
    (map fr_item R ++ [Para p]).
Proof.
  intros I Hx Hn. rewrite (tr_f_set_parent_eq _ _ _ _ _ Hx). cbn [it_item].
  assert (I1 : f_inv hp (it_set its x (mkIt (Para p) (Some trp_self))) ll R).
  { destruct I as [A B C]. constructor; [exact A|exact B|]. eapply store_same; [|exact C].
    exact (it_same_set_parent its x _ (Some trp_self) Hx). }
  assert (Hx1 : it_get (it_set its x (mkIt (Para p) (Some trp_self))) x = Some (mkIt (Para p) (Some trp_self))).
  { eapply it_get_set_same. exact Hx. }
  destruct (f_push _ _ ll R x (Para p) _ I1 Hx1 Hn) as (hp' & ll' & E & I').
  rewrite E. unfold trp_item_set_parent, it_upd.
  set (its1 := it_set its x (mkIt (Para p) (Some trp_self))) in *.
  assert (Hx2 : it_get its1 x = Some (mkIt (Para p) (Some trp_self))) by exact Hx1.
  rewrite Hx2. cbn [it_item].
  eexists (hp', _, ll'). split; [reflexivity|]. exists (R ++ [mkFRow (nxt hp) x (Para p)]). split.
  - exact I'.
  - rewrite map_app. reflexivity.
Qed.

(** ** append (of a paragraph object that has no parent yet and is not in the file) *)
Definition tail_code (hp : heap) (its : itstore) (ll : llobj) (x : itref) : mres unit fst3 :=
  match tr_f_set_parent hp its ll x with
  | MOk tmp5_ (hp0, its0, s_ll) =>
      match (match trp_ll_append hp0 s_ll tmp5_ with
             | MOk a (hp5, s_ll5) => MOk a (hp5, its0, s_ll5)
             | MErr e (hp5, s_ll5) => MErr e (hp5, its0, s_ll5)
             end) with
      | MOk _ (hp5, its5, s_ll5) =>
          match (match trp_item_set_parent its5 x (Some trp_self) with
                 | MOk a its6 => MOk a (hp5, its6, s_ll5)
                 | MErr e its6 => MErr e (hp5, its6, s_ll5)
                 end) with
          | MOk _ (hp6, its6, s_ll6) => MOk tt (hp6, its6, s_ll6)
          | MErr e st => MErr e st
          end
      | MErr e st => MErr e st
      end
  | MErr e st => MErr e st
  end.

Lemma tail_code_refines hp its (ll : llist) R x p par :
  f_inv hp its ll R -> it_get its x = Some (mkIt (Para p) par) -> ~ In x (map fr_ref R) ->
  f_refines (tail_code hp its ll x) (map fr_item R ++ [Para p]).
Proof. apply f_append_tail. Qed.

(** [Deb822WhitespaceToken('\n')], [_set_parent], [append], then what follows *)
Definition ws_then (hp : heap) (its : itstore) (ll : llobj) (K : heap -> itstore -> llobj -> mres unit fst3) : mres unit fst3 :=
  match (match trp_new_ws_token its [10]%N with
         | MOk a its2 => MOk a (hp, its2, ll)
         | MErr e its2 => MErr e (hp, its2, ll)
         end) with
  | MOk tmp21_ (hp2, its2, s_ll2) =>
      match tr_f_set_parent hp2 its2 s_ll2 tmp21_ with
      | MOk tmp25_ (hp3, its3, s_ll3) =>
          match (match trp_ll_append hp3 s_ll3 tmp25_ with
                 | MOk a (hp4, s_ll4) => MOk a (hp4, its3, s_ll4)
                 | MErr e (hp4, s_ll4) => MErr e (hp4, its3, s_ll4)
                 end) with
          | MOk _ (hp4, its4, s_ll4) => K hp4 its4 s_ll4
          | MErr e st => MErr e st
          end
      | MErr e st => MErr e st
      end
  | MErr e st => MErr e st
  end.

Lemma ws_then_eq hp its (ll : llist) R K :
  f_inv hp its ll R ->
  exists hp' its' ll',
    ws_then hp its ll K = K hp' its' ll'
    /\ f_inv hp' its' ll' (R ++ [mkFRow (nxt hp) (it_ref (length its)) WSNL])
    /\ it_same its its'.
Proof.
  intros I. destruct (f_push_ws hp its ll R I) as (hp2 & ll2 & Ea & Hnew & I2 & Same2). cbv zeta in *.
  unfold ws_then, trp_new_ws_token. rewrite (tr_f_set_parent_eq _ _ _ _ _ Hnew). cbn [it_item]. rewrite Ea.
  eexists hp2, _, ll2. split; [reflexivity|]. split; [exact I2|exact Same2].
Qed.

Lemma not_fresh its x c (R : list frow) :
  it_get its x = Some c -> ~ In x (map fr_ref R) ->
  ~ In x (map fr_ref (R ++ [mkFRow 1%positive (it_ref (length its)) WSNL])).
Proof.
  intros Hx Hn. rewrite map_app, in_app_iff. cbn [map fr_ref In]. intros [H|[H|[]]]; [contradiction|].
  rewrite <- H, it_get_ref in Hx. assert (Hl : (length its < length its)%nat) by (apply nth_error_Some; congruence). lia.
Qed.

(** after the tail element has its newline: the separator unless the tail element is whitespace, then the paragraph *)
Definition sep_code (hp : heap) (its : itstore) (ll : llobj) (te x : itref) : mres unit fst3 :=
  match trp_item_is_ws its te with
  | Ok tmp20_ => if negb tmp20_ then ws_then hp its ll (fun h i l => tail_code h i l x) else tail_code hp its ll x
  | Err e => MErr e (hp, its, ll)
  end.

Lemma sep_code_refines hp its (ll : llist) R x p par te (ws : bool) :
  f_inv hp its ll R -> it_get its x = Some (mkIt (Para p) par) -> ~ In x (map fr_ref R) ->
  trp_item_is_ws its te = Ok ws ->
  f_refines (sep_code hp its ll te x) ((if ws then map fr_item R else map fr_item R ++ [WSNL]) ++ [Para p]).
Proof.
  intros I Hx Hn Ews. unfold sep_code. rewrite Ews. destruct ws; cbn [negb].
  - now apply (tail_code_refines hp its ll R x p par).
  - destruct (ws_then_eq hp its ll R (fun h i l => tail_code h i l x) I) as (hp' & its' & ll' & E & I' & Same).
    rewrite E. destruct (Same x _ Hx) as (par' & Hx').
    replace (map fr_item R ++ [WSNL]) with (map fr_item (R ++ [mkFRow (nxt hp) (it_ref (length its)) WSNL])) by (now rewrite map_app).
    apply (tail_code_refines hp' its' ll' _ x p par' I' Hx').
    rewrite map_app, in_app_iff. cbn [map fr_ref In]. intros [H|[H|[]]]; [contradiction|].
    rewrite <- H, it_get_ref in Hx. assert (Hl : (length its < length its)%nat) by (apply nth_error_Some; congruence). lia.
Qed.

Theorem tr_f_append_refines hp its ll d x p :
  f_rep hp its ll d -> it_get its x = Some (mkIt (Para p) None) ->
  (forall R, f_inv hp its ll R -> ~ In x (map fr_ref R)) ->
  f_refines (tr_f_append hp its ll x) (f_append d p).
Proof.
  intros (R & I & <-) Hx Hnot. pose proof (Hnot R I) as Hn. pose proof I as [A B C].
  unfold tr_f_append, f_append.
  rewrite (trp_ll_tail_value_rep _ _ _ A). unfold trp_item_parent, it_look. rewrite Hx. cbn [it_parent tr_is_some].
  destruct (list_snoc_cases R) as [->|(R0 & rt & ->)].
  - cbn [map last_opt option_map]. apply (tail_code_refines hp its ll [] x p None I Hx Hn).
  - rewrite !map_app. cbn [map]. rewrite !last_opt_snoc. cbn [option_map frL snd].
    apply Forall_app in C as [C0 Ct]. inversion Ct as [|? ? (part & Ht) _]; subst.
    unfold trp_item_text, it_look. rewrite Ht. cbn [it_item]. rewrite ends_nl_endswith.
    assert (Hxt : x <> fr_ref rt).
    { intros E. apply Hn. rewrite map_app, in_app_iff. right. left. now symmetry. }
    destruct (ends_nl (item_text (fr_item rt))) eqn:Ee; cbn [negb].
    + (* the file ends in a newline *)
      change (map fr_item R0 ++ [fr_item rt]) with (map fr_item R0 ++ map fr_item [rt]). rewrite <- map_app.
      apply (sep_code_refines hp its ll (R0 ++ [rt]) x p None (fr_ref rt) (item_is_ws (fr_item rt)) I Hx Hn).
      unfold trp_item_is_ws, it_look. now rewrite Ht.
    + unfold trp_item_is_para, it_look. rewrite Ht. cbn [it_item].
      destruct (fr_item rt) as [pt|kt tt0] eqn:Eit.
      * (* a paragraph without its final newline: _ensure_final_newline *)
        unfold trp_item_ensure_nl, it_upd. rewrite Ht. cbn [it_item it_parent].
        set (its1 := it_set its (fr_ref rt) (mkIt (ensure_item (Para pt)) part)).
        assert (I1 : f_inv hp its1 ll (R0 ++ [mkFRow (fr_id rt) (fr_ref rt) (ensure_item (Para pt))])).
        { constructor.
          - rewrite map_app in *. exact A.
          - rewrite map_app in *. exact B.
          - apply Forall_app. split.
            + rewrite Forall_forall in *. intros r Hr. destruct (C0 r Hr) as (par0 & E0). exists par0.
              unfold its1. rewrite (it_get_set_other _ _ _ _ _ Ht); [exact E0|].
              intros E. rewrite map_app in B. cbn [map] in B. apply NoDup_remove_2 in B. apply B. rewrite app_nil_r, E. now apply in_map.
            + constructor; [|constructor]. cbn [fr_ref fr_item]. exists part. unfold its1. eapply it_get_set_same. exact Ht. }
        assert (Hx1 : it_get its1 x = Some (mkIt (Para p) None)).
        { unfold its1. rewrite (it_get_set_other _ _ _ _ _ Ht); [exact Hx|congruence]. }
        assert (Hn1 : ~ In x (map fr_ref (R0 ++ [mkFRow (fr_id rt) (fr_ref rt) (ensure_item (Para pt))]))).
        { rewrite map_app in *. exact Hn. }
        assert (Em : map_last ensure_item (map fr_item R0 ++ [Para pt])
                     = map fr_item (R0 ++ [mkFRow (fr_id rt) (fr_ref rt) (ensure_item (Para pt))])).
        { rewrite map_last_snoc, map_app. reflexivity. }
        rewrite Em.
        apply (sep_code_refines hp its1 ll _ x p None (fr_ref rt) false I1 Hx1 Hn1).
        unfold trp_item_is_ws, it_look, its1. rewrite (it_get_set_same _ _ _ _ Ht). reflexivity.
      * (* a token without a final newline: one more newline token *)
        assert (Erow : map fr_item R0 ++ [Other kt tt0] = map fr_item (R0 ++ [rt])) by (rewrite map_app; cbn [map]; now rewrite Eit).
        rewrite Erow.
        destruct (f_push_ws hp its ll (R0 ++ [rt]) I) as (hp' & ll' & Ea & Hnew & I' & Same). cbv zeta in *.
        set (its' := it_set (its ++ [mkIt WSNL None]) (it_ref (length its)) (mkIt WSNL (Some trp_self))) in *.
        unfold trp_new_ws_token. rewrite (tr_f_set_parent_eq _ _ _ _ _ Hnew). cbn [it_item]. fold its'. rewrite Ea.
        destruct (Same x _ Hx) as (par' & Hx'). destruct (Same _ _ Ht) as (part' & Ht').
        replace (map fr_item (R0 ++ [rt]) ++ [WSNL]) with (map fr_item ((R0 ++ [rt]) ++ [mkFRow (nxt hp) (it_ref (length its)) WSNL])) by (now rewrite map_app).
        apply (sep_code_refines hp' its' ll' _ x p par' (fr_ref rt) (item_is_ws (Other kt tt0)) I' Hx').
        -- rewrite map_app, in_app_iff. cbn [map fr_ref In]. intros [H|[H|[]]]; [contradiction|].
           rewrite <- H, it_get_ref in Hx. assert (Hl : (length its < length its)%nat) by (apply nth_error_Some; congruence). lia.
        -- unfold trp_item_is_ws, it_look. rewrite Ht'. reflexivity.
Qed.

(** ** insert *)
(** the continuation [k1_] of the regenerated insert: what happens once the anchor node is known *)
Definition ins_k1 (para : itref) (hp : heap) (its : itstore) (s_ll : llobj) (anchor_node : option id) (needs_newline : bool)
  : mres unit fst3 :=
  (let k2_ := (fun (hp : heap) (its : itstore) (s_ll : llobj) (anchor_node : (option id)) => MOk tt (hp, its, s_ll)) in match anchor_node with None => (match tr_f_append hp its s_ll para with MOk tmp1_ tmp2_ => let '(hp, its, s_ll) := tmp2_ in k2_ hp its s_ll anchor_node | MErr tmp3_ tmp2_ => MErr tmp3_ tmp2_ end) | Some anchor_node => (let k3_ := (fun (hp : heap) (its : itstore) (s_ll : llobj) (anchor_node : (option id)) => (match tr_f_set_parent hp its s_ll para with MOk tmp4_ tmp12_ => let '(hp, its, s_ll) := tmp12_ in (match trp_assume_some anchor_node with Ok tmp5_ => (match (match trp_ll_insert_before hp s_ll tmp4_ tmp5_ with MOk tmp7_ tmp8_ => let '(hp, s_ll) := tmp8_ in MOk tmp7_ (hp, its, s_ll) | MErr tmp9_ tmp8_ => let '(hp, s_ll) := tmp8_ in MErr tmp9_ (hp, its, s_ll) end) with MOk tmp6_ tmp10_ => let '(hp, its, s_ll) := tmp10_ in k2_ hp its s_ll anchor_node | MErr tmp11_ tmp10_ => MErr tmp11_ tmp10_ end) | Err e__ => MErr e__ (hp, its, s_ll) end) | MErr tmp13_ tmp12_ => MErr tmp13_ tmp12_ end)) in if needs_newline then (match (match trp_new_ws_token its [10]%N with MOk tmp15_ tmp16_ => let '(its) := tmp16_ in MOk tmp15_ (hp, its, s_ll) | MErr tmp17_ tmp16_ => let '(its) := tmp16_ in MErr tmp17_ (hp, its, s_ll) end) with MOk tmp14_ tmp27_ => let '(hp, its, s_ll) := tmp27_ in (match tr_f_set_parent hp its s_ll tmp14_ with MOk tmp18_ tmp25_ => let '(hp, its, s_ll) := tmp25_ in (let nl_token := tmp18_ in (match (match trp_ll_insert_before hp s_ll nl_token anchor_node with MOk tmp20_ tmp21_ => let '(hp, s_ll) := tmp21_ in MOk tmp20_ (hp, its, s_ll) | MErr tmp22_ tmp21_ => let '(hp, s_ll) := tmp21_ in MErr tmp22_ (hp, its, s_ll) end) with MOk tmp19_ tmp23_ => let '(hp, its, s_ll) := tmp23_ in (let anchor_node := (Some tmp19_) in k3_ hp its s_ll anchor_node) | MErr tmp24_ tmp23_ => MErr tmp24_ tmp23_ end)) | MErr tmp26_ tmp25_ => MErr tmp26_ tmp25_ end) | MErr tmp28_ tmp27_ => MErr tmp28_ tmp27_ end) else k3_ hp its s_ll (Some anchor_node)) end).

Lemma tr_f_insert_unfold hp its ll idx para :
  tr_f_insert hp its ll idx para
  = if (idx =? 0)
    then (if negb (trp_ll_bool ll)
          then match tr_f_append hp its ll para with
               | MOk _ (hp0, its0, s_ll0) => MOk tt (hp0, its0, s_ll0)
               | MErr e st => MErr e st
               end
          else ins_k1 para hp its ll (trp_ll_head ll) (trp_ll_bool ll))
    else match trp_ll_iter_nodes hp ll with
         | Ok l => tr_f_insert_loop1 l (fun _ _ hp0 its0 s_ll0 anchor nn _ => ins_k1 para hp0 its0 s_ll0 anchor nn)
                     idx para hp its ll None true 0
         | Err e => MErr e (hp, its, ll)
         end.
Proof. reflexivity. Qed.

Lemma NoDup_insert_mid {A} (a b : list A) x : NoDup (a ++ b) -> ~ In x (a ++ b) -> NoDup (a ++ x :: b).
Proof.
  intros Hnd Hn. apply NoDup_Add with (a := x) (l := a ++ b); [apply Add_app|]. split; assumption.
Qed.

(** the paragraph (and the separating newline token after it) go in front of the node of row [r] *)
Lemma ins_at hp its (ll : llist) Rpre r Rpost x p par :
  f_inv hp its ll (Rpre ++ r :: Rpost) -> it_get its x = Some (mkIt (Para p) par) ->
  ~ In x (map fr_ref (Rpre ++ r :: Rpost)) ->
  f_refines (ins_k1 x hp its ll (Some (fr_id r)) true)
            (map fr_item Rpre ++ Para p :: WSNL :: fr_item r :: map fr_item Rpost).
Proof.
  intros I Hx Hn. pose proof I as [A B C]. unfold ins_k1, trp_new_ws_token.
  set (nl := it_ref (length its)). set (its0 := its ++ [mkIt WSNL None]).
  assert (Hnl0 : it_get its0 nl = Some (mkIt WSNL None)) by apply it_get_new.
  rewrite (tr_f_set_parent_eq _ _ _ _ _ Hnl0). cbn [it_item].
  set (its1 := it_set its0 nl (mkIt WSNL (Some trp_self))).
  rewrite map_app in A. cbn [map] in A. change (frL r) with (fr_id r, fr_ref r) in A.
  destruct (ll_insert_before_spec hp ll _ _ _ _ nl A) as (h1 & ll1 & E1 & R1 & Nx1 & _).
  rewrite trp_ll_insert_before_eq, E1. cbn [lift_l].
  assert (Same1 : it_same its its1).
  { eapply it_same_trans; [apply it_same_app|]. apply (it_same_set_parent its0 nl (mkIt WSNL None) (Some trp_self) Hnl0). }
  destruct (Same1 x _ Hx) as (par1 & Hx1).
  rewrite (tr_f_set_parent_eq _ _ _ _ _ Hx1). cbn [it_item trp_assume_some].
  set (its2 := it_set its1 x (mkIt (Para p) (Some trp_self))).
  destruct (ll_insert_before_spec h1 ll1 (map frL Rpre) (nxt hp) nl ((fr_id r, fr_ref r) :: map frL Rpost) x R1)
    as (h2 & ll2 & E2 & R2 & _).
  rewrite trp_ll_insert_before_eq, E2. cbn [lift_l].
  exists (h2, its2, ll2). split; [reflexivity|].
  exists (Rpre ++ mkFRow (nxt h1) x (Para p) :: mkFRow (nxt hp) nl WSNL :: r :: Rpost). split.
  - assert (Hnlfresh : ~ In nl (map fr_ref (Rpre ++ r :: Rpost))) by (apply fresh_ref; exact C).
    assert (Hxnl : x <> nl).
    { intros E. rewrite E in Hx. unfold nl in Hx. rewrite it_get_ref in Hx.
      assert (Hl : (length its < length its)%nat) by (apply nth_error_Some; congruence). lia. }
    constructor.
    + rewrite map_app. cbn [map frL fr_id fr_ref]. exact R2.
    + rewrite map_app in *. cbn [map fr_ref] in *.
      apply NoDup_insert_mid.
      * change (map fr_ref Rpre ++ nl :: fr_ref r :: map fr_ref Rpost) with (map fr_ref Rpre ++ nl :: (fr_ref r :: map fr_ref Rpost)).
        apply NoDup_insert_mid; [exact B|exact Hnlfresh].
      * rewrite in_app_iff in *. cbn [In] in *. intros [H|[H|[H|H]]]; [tauto|congruence|tauto|tauto].
    + assert (Same2 : it_same its its2).
      { eapply it_same_trans; [exact Same1|]. exact (it_same_set_parent its1 x _ (Some trp_self) Hx1). }
      apply Forall_app in C as [Cpre Cr]. inversion Cr as [|? ? Hr Cpost]; subst.
      apply Forall_app. split; [eapply store_same; eauto|].
      constructor.
      { cbn [fr_ref fr_item]. exists (Some trp_self). unfold its2. eapply it_get_set_same. exact Hx1. }
      constructor.
      { cbn [fr_ref fr_item]. exists (Some trp_self). unfold its2. rewrite (it_get_set_other _ _ _ _ _ Hx1 Hxnl).
        unfold its1. eapply it_get_set_same. exact Hnl0. }
      constructor; [|eapply store_same; eauto].
      destruct Hr as (parr & Hr). destruct (Same2 _ _ Hr) as (parr' & Hr'). now exists parr'.
  - rewrite map_app. reflexivity.
Qed.

Lemma frow_value hp its (ll : llist) R r :
  f_inv hp its ll R -> In r R -> trp_get_value hp (fr_id r) = Ok (fr_ref r).
Proof.
  intros [A _ _] Hin. destruct (seg_get _ _ _ _ (fr_id r) (fr_ref r) (lr_seg _ _ _ A)) as (n & Hn & Hv).
  { change (fr_id r, fr_ref r) with (frL r). now apply in_map. }
  rewrite trp_get_value_eq, Hn. now rewrite Hv.
Qed.

Lemma insert_loop hp its (ll : llist) x p idx Rs : forall Rpre i,
  f_inv hp its ll (Rpre ++ Rs) -> it_get its x = Some (mkIt (Para p) None) ->
  (forall R, f_inv hp its ll R -> ~ In x (map fr_ref R)) ->
  f_refines
    (tr_f_insert_loop1 (map fr_id Rs) (fun _ _ hp0 its0 s_ll0 anchor nn _ => ins_k1 x hp0 its0 s_ll0 anchor nn)
       idx x hp its ll None true i)
    (match ins_walk (map fr_item Rs) idx i p with
     | Some r => map fr_item Rpre ++ r
     | None => f_append (map fr_item (Rpre ++ Rs)) p
     end).
Proof.
  induction Rs as [|r Rs IH]; intros Rpre i I Hx Hnot.
  - cbn [map tr_f_insert_loop1 ins_walk]. unfold ins_k1.
    destruct (tr_f_append_refines hp its ll _ x p (ex_intro _ _ (conj I eq_refl)) Hx Hnot) as (st' & E & Rep).
    rewrite E. destruct st' as [[h' i'] l']. exists (h', i', l'). split; [reflexivity|exact Rep].
  - cbn [map tr_f_insert_loop1 ins_walk].
    rewrite (frow_value hp its ll _ r I) by (apply in_elt).
    pose proof (fi_store _ _ _ _ I) as C. apply Forall_app in C as [_ Cr]. inversion Cr as [|? ? (parr & Hr) _]; subst.
    unfold trp_item_is_para, it_look. rewrite Hr. cbn [it_item].
    assert (Ei : (if match fr_item r with Para _ => true | Other _ _ => false end then i + 1 else i)
                 = match fr_item r with Para _ => i + 1 | Other _ _ => i end) by (destruct (fr_item r); reflexivity).
    set (i' := match fr_item r with Para _ => i + 1 | Other _ _ => i end) in *.
    assert (Goal' : f_refines
      (if idx =? i' - 1
       then ins_k1 x hp its ll (Some (fr_id r)) true
       else tr_f_insert_loop1 (map fr_id Rs) (fun _ _ hp0 its0 s_ll0 anchor nn _ => ins_k1 x hp0 its0 s_ll0 anchor nn)
              idx x hp its ll None true i')
      (match (if idx =? i' - 1 then Some (Para p :: WSNL :: fr_item r :: map fr_item Rs)
              else match ins_walk (map fr_item Rs) idx i' p with Some r0 => Some (fr_item r :: r0) | None => None end) with
       | Some r0 => map fr_item Rpre ++ r0
       | None => f_append (map fr_item (Rpre ++ r :: Rs)) p
       end)).
    { destruct (idx =? i' - 1).
      - apply (ins_at hp its ll Rpre r Rs x p None I Hx (Hnot _ I)).
      - assert (I' : f_inv hp its ll ((Rpre ++ [r]) ++ Rs)) by (rewrite <- app_assoc; exact I).
        specialize (IH (Rpre ++ [r]) i' I' Hx Hnot).
        destruct (ins_walk (map fr_item Rs) idx i' p) as [r0|].
        + rewrite map_app, <- app_assoc in IH. exact IH.
        + rewrite <- app_assoc in IH. exact IH. }
    destruct (fr_item r) eqn:Eit; exact Goal'.
Qed.

Theorem tr_f_insert_refines hp its ll d idx x p :
  f_rep hp its ll d -> it_get its x = Some (mkIt (Para p) None) ->
  (forall R, f_inv hp its ll R -> ~ In x (map fr_ref R)) ->
  f_refines (tr_f_insert hp its ll idx x) (f_insert d idx p).
Proof.
  intros (R & I & <-) Hx Hnot. rewrite tr_f_insert_unfold. unfold f_insert.
  pose proof I as [A B C]. unfold trp_ll_bool, trp_ll_head. rewrite (lr_head _ _ _ A).
  destruct (idx =? 0).
  - destruct R as [|r R'].
    + cbn [map first_id tr_is_some negb].
      destruct (tr_f_append_refines hp its ll _ x p (ex_intro _ _ (conj I eq_refl)) Hx Hnot) as (st' & E & Rep).
      rewrite E. destruct st' as [[h' i'] l']. exists (h', i', l'). split; [reflexivity|exact Rep].
    + cbn [map first_id frL tr_is_some negb].
      apply (ins_at hp its ll [] r R' x p None I Hx (Hnot _ I)).
  - rewrite (trp_ll_iter_nodes_rep _ _ _ A), map_map.
    change (map (fun x0 : frow => fst (frL x0)) R) with (map fr_id R).
    apply (insert_loop hp its ll x p idx R [] 0 I Hx Hnot).
Qed.

(** * Statements for Props/C10Tie.v *)
(** the items a state represents, read off it: the values of the list, then the store *)
Definition f_doc (hp : heap) (its : itstore) (ll : llobj) : result doc :=
  match trp_ll_iter hp ll with
  | Ok l => tr_mapM (fun r => match it_get its r with Some c => Ok (it_item c) | None => Err OtherError end) l
  | Err e => Err e
  end.

Lemma f_inv_iter hp its (ll : llist) R : f_inv hp its ll R -> trp_ll_iter hp ll = Ok (map fr_ref R).
Proof. intros [A _ _]. rewrite (trp_ll_iter_rep _ _ _ A), map_map. reflexivity. Qed.

Theorem f_rep_doc hp its ll d : f_rep hp its ll d -> f_doc hp its ll = Ok d.
Proof.
  intros (R & I & <-). unfold f_doc. rewrite (f_inv_iter _ _ _ _ I). apply tr_mapM_map.
  intros r Hr. pose proof (fi_store _ _ _ _ I) as C. rewrite Forall_forall in C. destruct (C r Hr) as (par & E). now rewrite E.
Qed.

Theorem f_rep_empty hp its : f_rep hp its ll_empty [].
Proof. exists []. split; [|reflexivity]. constructor; cbn [map]; [apply ll_rep_empty|constructor|constructor]. Qed.

Definition not_in_file (hp : heap) (ll : llobj) (x : itref) : Prop :=
  forall refs, trp_ll_iter hp ll = Ok refs -> ~ In x refs.

Lemma not_in_file_rows hp its (ll : llist) x : not_in_file hp ll x -> forall R, f_inv hp its ll R -> ~ In x (map fr_ref R).
Proof. intros H R I. apply H. now apply (f_inv_iter hp its). Qed.

Theorem f_append_refines hp its ll d x p :
  f_rep hp its ll d -> it_get its x = Some (mkIt (Para p) None) -> not_in_file hp ll x ->
  f_refines (tr_f_append hp its ll x) (f_append d p).
Proof. intros R Hx Hn. apply tr_f_append_refines; [exact R|exact Hx|]. now apply not_in_file_rows. Qed.

Theorem f_insert_refines hp its ll d idx x p :
  f_rep hp its ll d -> it_get its x = Some (mkIt (Para p) None) -> not_in_file hp ll x ->
  f_refines (tr_f_insert hp its ll idx x) (f_insert d idx p).
Proof. intros R Hx Hn. apply tr_f_insert_refines; [exact R|exact Hx|]. now apply not_in_file_rows. Qed.

(** a paragraph that already has a parent is refused; nothing has changed *)
Theorem f_append_has_parent hp its ll d x it par :
  f_rep hp its ll d -> it_get its x = Some (mkIt it (Some par)) ->
  tr_f_append hp its ll x = MErr ValueError (hp, its, ll).
Proof.
  intros (R & [A B C] & _) Hx. unfold tr_f_append. rewrite (trp_ll_tail_value_rep _ _ _ A).
  unfold trp_item_parent, it_look. rewrite Hx. cbn [it_parent tr_is_some]. now destruct (trp_ofile_eqb _ _).
Qed.
