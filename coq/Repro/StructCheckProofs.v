(** C10: on the cases of the check (Repro/StructCheck.v), [agree] implies [holds].

    [agree_implies_holds : judged c = true -> agree c = true -> holds c = true]   (section F)

    Route.  The reference state that [holds] carries is, under [agree], the list view [abs d] of
    the model document: initially ([abs_dec_items]) and after every judged step ([steps_hold]).
    One judged step: [step_refines] (C10_step_refines_list) puts the model's outcome among the
    outcomes [s_cands] permits; [agree] makes the recorded exception flag, dump and
    (name, i) -> position answers those of the model, and [position_is_ith]
    (C10_name_index_is_ith_occurrence) turns the latter into [positions_ok] ([matches_of]); two
    permitted outcomes with the same flag, dump and fresh parse are the same outcome
    ([sp_cands_inj] via [run_plan_nl_inj] for a paragraph operation, [unamb_append] for append), so
    [first_match] picks the model's state ([first_match_pick]).

    [sep_ok] is kept by the structural operations ([structural_sep]: the model reorders / removes
    fields of the paragraph after _ensure_final_newline, section D'').

    The theorem is FALSE without a side condition: [holds] consults the fresh parse of every dump
    ([s_reparse]), which [agree] never looks at, and it demands [sep_ok] of the initial state,
    which [agree] does not determine either.  [judged] is explained in section F. *)
From Coq Require Import String Lia ZifyBool Permutation.
From Verif Require Import Lib.Base Lib.Dec Lib.PyStr Gen.PyChars
  Repro.Doc Repro.StructSort Repro.Struct Repro.StructSpec Repro.StructLemmas
  Repro.StructSortProofs Repro.StructProofsPN Repro.StructProofsPD1 Repro.StructProofsPD4 Repro.StructProofs
  Repro.StructCheck.

(** * A. Boolean equalities *)

Definition sfield_eqb (a b : field) : bool :=
  str_eqb (f_comment a) (f_comment b) && str_eqb (f_name a) (f_name b) && str_eqb (f_rest a) (f_rest b).

Definition sitem_eqb (a b : sitem) : bool :=
  match a, b with
  | SP x, SP y => list_eqb sfield_eqb x y
  | SO x, SO y => str_eqb x y
  | _, _ => false
  end.

Definition sdoc_eqb : sdoc -> sdoc -> bool := list_eqb sitem_eqb.

Lemma sfield_eqb_eq a b : sfield_eqb a b = true <-> a = b.
Proof.
  unfold sfield_eqb. destruct a as [a1 a2 a3], b as [b1 b2 b3]. cbn [f_comment f_name f_rest].
  rewrite !andb_true_iff, !str_eqb_eq. split; [intros [[-> ->] ->]; reflexivity|].
  intros E. injection E as -> -> ->. now repeat split.
Qed.

Lemma sitem_eqb_eq a b : sitem_eqb a b = true <-> a = b.
Proof.
  destruct a as [x|x], b as [y|y]; cbn [sitem_eqb]; try (split; discriminate).
  - rewrite (list_eqb_eq sfield_eqb sfield_eqb_eq). split; [now intros ->|now intros [= ->]].
  - rewrite str_eqb_eq. split; [now intros ->|now intros [= ->]].
Qed.

Lemma sdoc_eqb_eq a b : sdoc_eqb a b = true <-> a = b.
Proof. apply list_eqb_eq. apply sitem_eqb_eq. Qed.

Lemma result_eqb_eq {A} (eqb : A -> A -> bool) (H : forall a b, eqb a b = true <-> a = b) x y :
  result_eqb eqb x y = true <-> x = y.
Proof.
  destruct x as [a|e], y as [b|f]; cbn [result_eqb]; try (split; discriminate).
  - rewrite H. split; [now intros ->|now intros [= ->]].
  - rewrite err_eqb_eq. split; [now intros ->|now intros [= ->]].
Qed.

Lemma option_eqb_err_eq a b : option_eqb err_eqb a b = true <-> a = b.
Proof.
  destruct a as [a|], b as [b|]; cbn [option_eqb]; try (split; discriminate); [|tauto].
  rewrite err_eqb_eq. split; [now intros ->|now intros [= ->]].
Qed.

Lemma read_eqb_eq a b : read_eqb a b = true <-> a = b.
Proof.
  unfold read_eqb. apply list_eqb_eq. apply list_eqb_eq. intros [a1 a2] [b1 b2].
  unfold pair_eqb. cbn [fst snd]. rewrite andb_true_iff, !str_eqb_eq.
  split; [now intros [-> ->]|now intros [= -> ->]].
Qed.

(** * B. The initial state *)

Lemma abs_dec_item it : abs_item (dec_item it) = spec_item it.
Proof.
  destruct it as [dup fs|k t]; cbn [dec_item abs_item spec_item]; [|reflexivity].
  destruct dup; cbn [para_fields]; [|reflexivity]. now rewrite (proj2 (init_dup_wf _)).
Qed.

Lemma abs_dec_items items : abs (map dec_item items) = map spec_item items.
Proof. unfold abs. rewrite map_map. apply map_ext. apply abs_dec_item. Qed.

Lemma class_ok_wf items : forallb class_ok items = true -> Wf_doc (map dec_item items).
Proof.
  rewrite forallb_forall. intros H p Hp. apply in_map_iff in Hp as (it & E & Hin).
  specialize (H it Hin). destruct it as [dup fs|k t]; [|discriminate E].
  cbn [dec_item] in E. injection E as <-. cbn [class_ok] in H. unfold from_kvpairs in H.
  change (nodupb (map (fun f : field => lower (f_name f)) (map dec_field fs)))
    with (names_nodup (map dec_field fs)) in H.
  destruct dup.
  - cbn [Wf_para]. apply init_dup_wf.
  - cbn [Wf_para]. destruct (names_nodup (map dec_field fs)); [reflexivity|discriminate].
Qed.

(** * C. What [agree] says about one observed state *)

Lemma sparas_abs d : sparas (abs d) = map para_fields (paras d).
Proof.
  unfold sparas, paras, abs. induction d as [|[p|k t] d IH]; [reflexivity| |exact IH].
  cbn [map abs_item flat_map app]. now rewrite IH.
Qed.

Lemma positions_of ps (qs : list plit) :
  (forall p, In p ps -> Wf_para p) ->
  forallb (pos_agree ps) qs = true ->
  forallb (positions_ok (map para_fields ps))
          (map (fun jq => match jq with
                          | PQ j qs =>
                              (j, map (fun q => match q with
                                                | Q n i ans =>
                                                    (dec n, i, match ans with Ok x => Some x | Err _ => None end)
                                                end) qs)
                          end) qs) = true.
Proof.
  intros Hwf. rewrite !forallb_forall. intros H x Hx. apply in_map_iff in Hx as ([j l] & <- & Hin).
  specialize (H _ Hin). cbn [pos_agree] in H. unfold positions_ok. cbn [fst snd].
  rewrite nth_error_map. destruct (nth_error ps j) as [p|] eqn:Ep; [|discriminate]. cbn [option_map].
  apply nth_error_In in Ep. specialize (Hwf p Ep).
  rewrite forallb_forall in H |- *. intros y Hy. apply in_map_iff in Hy as ([n i ans] & <- & Hq).
  specialize (H _ Hq). cbn beta iota in H.
  apply (result_eqb_eq Nat.eqb Nat.eqb_eq) in H. rewrite <- H.
  exact (position_is_ith p (dec n) i Hwf).
Qed.

Lemma Wf_doc_paras d : Wf_doc d -> forall p, In p (paras d) -> Wf_para p.
Proof.
  intros H p Hp. apply H. unfold paras in Hp. apply in_flat_map in Hp as (it & Hit & Hp).
  destruct it as [q|k t]; [|destruct Hp]. destruct Hp as [->|[]]. exact Hit.
Qed.

Definition reparse_is (s : sdoc) (st : steplit) : bool :=
  match o_reparse (dec_obs st) with Some r => read_eqb r (sread s) | None => false end.

Lemma matches_of d' st :
  Wf_doc d' -> sep_ok (abs d') = true ->
  str_eqb (dump d') (dec_text (s_dump st)) = true ->
  forallb (pos_agree (paras d')) (s_pos st) = true ->
  reparse_is (abs d') st = true ->
  matches (abs d') (dec_obs st) = true.
Proof.
  intros Hwf Hsep Hd Hp Hr. unfold matches. apply str_eqb_eq in Hd.
  unfold reparse_is in Hr. unfold dec_obs in *. cbn [o_dump o_reparse o_pos] in *.
  rewrite <- Hd, <- dump_abs, str_eqb_refl, Hsep, Hr. cbn [andb].
  rewrite sparas_abs. apply positions_of; [now apply Wf_doc_paras|exact Hp].
Qed.

(** * D. [first_match] picks the model's state *)

Definition explains (ob : sobs) (c : bool * sdoc) : bool :=
  Bool.eqb (fst c) (o_failed ob) && matches (snd c) ob.

(** no permitted outcome other than [s'] explains the observation *)
Definition unambiguous (s' : sdoc) (ob : sobs) (cands : list (bool * sdoc)) : bool :=
  forallb (fun c => negb (explains ob c) || sdoc_eqb (snd c) s') cands.

Definition member (flg : bool) (s' : sdoc) (cands : list (bool * sdoc)) : bool :=
  existsb (fun c => Bool.eqb (fst c) flg && sdoc_eqb (snd c) s') cands.

Lemma member_In flg s' cands : member flg s' cands = true <-> In (flg, s') cands.
Proof.
  unfold member. rewrite existsb_exists. split.
  - intros ([f x] & Hin & H). cbn [fst snd] in H. apply andb_true_iff in H as [H1 H2].
    apply eqb_prop in H1. apply sdoc_eqb_eq in H2. now subst.
  - intros H. exists (flg, s'). split; [exact H|]. cbn [fst snd].
    rewrite eqb_reflx. now apply sdoc_eqb_eq.
Qed.

Lemma first_match_pick cands ob flg x :
  In (flg, x) cands -> flg = o_failed ob -> matches x ob = true ->
  unambiguous x ob cands = true ->
  first_match cands ob = Some x.
Proof.
  intros Hin Hf Hm Hu. unfold first_match.
  destruct (List.find (fun c => Bool.eqb (fst c) (o_failed ob) && matches (snd c) ob) cands) as [c|] eqn:E.
  - apply find_some in E as [Hc Hp]. unfold unambiguous in Hu. rewrite forallb_forall in Hu.
    specialize (Hu c Hc). unfold explains in Hu. rewrite Hp in Hu. cbn [negb orb] in Hu.
    apply sdoc_eqb_eq in Hu. now rewrite Hu.
  - apply (find_none _ _ E) in Hin. cbn [fst snd] in Hin. rewrite Hf, eqb_reflx, Hm in Hin. discriminate.
Qed.

(** * D'. Two permitted outcomes with the same text are the same outcome *)

Definition ftext (fs : list field) : str := concat (map field_text fs).

Lemma ftext_app a b : ftext (a ++ b) = ftext a ++ ftext b.
Proof. unfold ftext. now rewrite map_app, concat_app. Qed.

Lemma ftext_perm_len l l' : Permutation l l' -> length (ftext l) = length (ftext l').
Proof.
  induction 1; unfold ftext in *; cbn [map concat]; rewrite ?app_length; lia.
Qed.

Lemma nl_cases fs :
  nl fs = fs \/ exists a f, fs = a ++ [f] /\ nl fs = a ++ [add_nl f]
                           /\ field_text (add_nl f) = field_text f ++ [LF].
Proof.
  destruct (list_snoc_cases fs) as [->|(a & f & ->)]; [now left|].
  unfold nl. rewrite map_last_snoc. unfold add_nl. destruct (ends_nl (f_rest f)) eqn:E; [now left|].
  right. exists a, f. rewrite E. repeat split. unfold field_text. cbn [f_comment f_name f_rest].
  now rewrite <- !app_assoc.
Qed.

Lemma snoc_text_neq u (f g : field) :
  field_text g = field_text f ++ [LF] -> ftext (u ++ [g]) = ftext (u ++ [f]) -> False.
Proof.
  intros Hg H. rewrite !ftext_app in H. apply app_inv_head in H. unfold ftext in H.
  cbn [map concat] in H. rewrite !app_nil_r, Hg in H. apply (f_equal (@length N)) in H.
  rewrite app_length in H. cbn [length] in H. lia.
Qed.

Lemma ftext_nl_eq fs : ftext (nl fs) = ftext fs -> nl fs = fs.
Proof.
  destruct (nl_cases fs) as [E|(a & f & E1 & E2 & Hf)]; [auto|]. rewrite E2, E1. intros H.
  destruct (snoc_text_neq a f (add_nl f) Hf H).
Qed.

Lemma mask_nth_length n fs : forall i, length (mask_nth n i fs) = length fs.
Proof.
  induction fs as [|f fs IH]; intros i; cbn [mask_nth]; [reflexivity|].
  destruct (has_name n f); [destruct i|]; cbn [length]; rewrite ?map_length, ?IH; reflexivity.
Qed.

Lemma select_length w n idx fs m neg : select w n idx fs = Some (m, neg) -> length m = length fs.
Proof.
  unfold select. destruct idx as [i|].
  - destruct (_ || _); [discriminate|]. intros [= <- _]. apply mask_nth_length.
  - destruct (occ_count n fs); [discriminate|]. intros [= <- _].
    destruct w; [apply map_length|apply mask_nth_length..].
Qed.

Lemma sp_plan_shape o fs pl neg :
  sp_plan o fs = Some (pl, neg) ->
  match pl with PlRel _ m r => length m = length fs /\ length r = length fs | _ => True end.
Proof.
  destruct o as [k|k|k r|k r|sk|k v|k]; cbn [sp_plan]; unfold select_key.
  - destruct (select _ _ _ fs) as [[m ng]|]; [|discriminate]. now intros [= <- _].
  - destruct (select _ _ _ fs) as [[m ng]|]; [|discriminate]. now intros [= <- _].
  - destruct (select WAll _ _ fs) as [[m ng]|] eqn:Em; [|discriminate].
    destruct (select WFirst _ _ fs) as [[rm ng']|] eqn:Er; [|discriminate].
    destruct (overlap m rm); [discriminate|]. intros [= <- _].
    apply select_length in Er, Em. now split.
  - destruct (select WAll _ _ fs) as [[m ng]|] eqn:Em; [|discriminate].
    destruct (select WLast _ _ fs) as [[rm ng']|] eqn:Er; [|discriminate].
    destruct (overlap m rm); [discriminate|]. intros [= <- _].
    apply select_length in Er, Em. now split.
  - now intros [= <- _].
  - destruct (key_parts k) as [n idx]. destruct (negb (has_name n v)); [discriminate|].
    destruct (occ_count n fs).
    + destruct idx as [i|]; [destruct (i =? 0)%Z; [|discriminate]|]; now intros [= <- _].
    + destruct (select WAll n idx fs) as [[m ng]|]; [|discriminate]. now intros [= <- _].
  - destruct (select _ _ _ fs) as [[m ng]|]; [|discriminate]. now intros [= <- _].
Qed.

Lemma unpick_snoc_cases {A} (x y : A) : forall a m,
  unpick m (a ++ [x]) = unpick m (a ++ [y])
  \/ exists u, unpick m (a ++ [x]) = u ++ [x] /\ unpick m (a ++ [y]) = u ++ [y].
Proof.
  induction a as [|z a IH]; intros [|b m]; cbn [app unpick].
  - right. exists []. split; reflexivity.
  - destruct b.
    + left. now destruct m.
    + right. exists []. destruct m; split; reflexivity.
  - right. exists (z :: a). split; reflexivity.
  - destruct b.
    + apply IH.
    + destruct (IH m) as [E|(u & E1 & E2)]; [left; now rewrite E|].
      right. exists (z :: u). rewrite E1, E2. split; reflexivity.
Qed.

Lemma set_mask_snoc_cases v (x y : field) : forall a m,
  set_mask m v (a ++ [x]) = set_mask m v (a ++ [y])
  \/ exists u, set_mask m v (a ++ [x]) = u ++ [x] /\ set_mask m v (a ++ [y]) = u ++ [y].
Proof.
  induction a as [|z a IH]; intros [|b m]; cbn [app set_mask].
  - right. exists []. split; reflexivity.
  - destruct b.
    + left. now destruct m.
    + right. exists []. destruct m; split; reflexivity.
  - right. exists (z :: a). split; reflexivity.
  - destruct b.
    + destruct (unpick_snoc_cases x y a m) as [E|(u & E1 & E2)]; [left; now rewrite E|].
      right. exists (v :: u). rewrite E1, E2. split; reflexivity.
    + destruct (IH m) as [E|(u & E1 & E2)]; [left; now rewrite E|].
      right. exists (z :: u). rewrite E1, E2. split; reflexivity.
Qed.

Lemma run_plan_nl_inj o fs pl neg :
  sp_plan o fs = Some (pl, neg) ->
  ftext (run_plan pl (nl fs)) = ftext (run_plan pl fs) -> run_plan pl (nl fs) = run_plan pl fs.
Proof.
  intros Hp Ht. pose proof (sp_plan_shape o fs pl neg Hp) as Hsh.
  destruct (nl_cases fs) as [E|(a & f & E1 & E2 & Hf)]; [now rewrite E|].
  assert (Hlen : length (ftext (nl fs)) = S (length (ftext fs))).
  { rewrite E2, E1, !ftext_app. unfold ftext. cbn [map concat]. rewrite !app_nil_r, Hf, !app_length.
    cbn [length]. lia. }
  assert (Hmove : forall X Y : list field, Permutation X (nl fs) -> Permutation Y fs -> ftext X = ftext Y -> False).
  { intros X Y HX HY HXY. apply ftext_perm_len in HX, HY. rewrite HXY in HX. lia. }
  destruct pl as [m|m|after m r|sk|v|m v|m]; cbn [run_plan] in *.
  - destruct (Hmove _ _ (pick_unpick_perm m (nl fs)) (pick_unpick_perm m fs) Ht).
  - exfalso. apply (Hmove (mv_last m (nl fs)) (mv_last m fs)); [| |exact Ht]; unfold mv_last;
      (etransitivity; [apply Permutation_app_comm|apply pick_unpick_perm]).
  - exfalso. apply (Hmove (mv_rel after m r (nl fs)) (mv_rel after m r fs)); [| |exact Ht].
    + apply (moves_permute m r after KDefault); rewrite nl_length; tauto.
    + apply (moves_permute m r after KDefault); tauto.
  - destruct (Hmove _ _ (sort_fields_by_perm sk (nl fs)) (sort_fields_by_perm sk fs) Ht).
  - exfalso. rewrite !ftext_app in Ht. apply app_inv_tail in Ht. rewrite Ht in Hlen. lia.
  - rewrite E2, E1 in *. destruct (set_mask_snoc_cases v (add_nl f) f a m) as [E|(u & Eu1 & Eu2)]; [exact E|].
    rewrite Eu1, Eu2 in Ht. destruct (snoc_text_neq u f (add_nl f) Hf Ht).
  - rewrite E2, E1 in *. destruct (unpick_snoc_cases (add_nl f) f a m) as [E|(u & Eu1 & Eu2)]; [exact E|].
    rewrite Eu1, Eu2 in Ht. destruct (snoc_text_neq u f (add_nl f) Hf Ht).
Qed.

Lemma sp_cands_accepted po fs y :
  In (false, y) (sp_cands po fs) ->
  exists pl neg, sp_plan po fs = Some (pl, neg) /\ (y = run_plan pl (nl fs) \/ y = run_plan pl fs).
Proof.
  rewrite sp_cands_unfold. unfold refused. destruct (sp_plan po fs) as [[pl neg]|].
  - cbn [app]. intros [[= <-]|[[= <-]|H]]; [eauto..|].
    destruct neg; cbn in H; [|destruct H]. destruct H as [H|[H|[]]]; discriminate H.
  - cbn. intros [H|[H|[]]]; discriminate H.
Qed.

Lemma sp_cands_inj po fs flg y y' :
  In (flg, y) (sp_cands po fs) -> In (flg, y') (sp_cands po fs) -> ftext y = ftext y' -> y = y'.
Proof.
  intros H1 H2 Ht. destruct flg.
  - apply sp_cands_refused in H1, H2.
    destruct H1 as [-> | ->], H2 as [-> | ->]; try reflexivity.
    + symmetry. now apply ftext_nl_eq.
    + now apply ftext_nl_eq.
  - apply sp_cands_accepted in H1 as (pl & neg & Hp & H1), H2 as (pl' & neg' & Hp' & H2).
    rewrite Hp in Hp'. injection Hp' as <- <-.
    destruct H1 as [-> | ->], H2 as [-> | ->]; try reflexivity.
    + now apply (run_plan_nl_inj po fs pl neg).
    + symmetry. now apply (run_plan_nl_inj po fs pl neg).
Qed.

Lemma sdump_app a b : sdump (a ++ b) = sdump a ++ sdump b.
Proof. unfold sdump. now rewrite map_app, concat_app. Qed.

Lemma sdump_cons_para fs b : sdump (SP fs :: b) = ftext fs ++ sdump b.
Proof. reflexivity. Qed.

Lemma sread_app a b : sread (a ++ b) = sread a ++ sread b.
Proof. unfold sread. apply flat_map_app. Qed.

Lemma matches_dump s ob : matches s ob = true -> sdump s = o_dump ob.
Proof.
  unfold matches. rewrite !andb_true_iff. intros [[[H _] _] _]. now apply str_eqb_eq.
Qed.

Lemma matches_read s ob : matches s ob = true -> o_reparse ob = Some (sread s).
Proof.
  unfold matches. rewrite !andb_true_iff. intros [[_ H] _].
  destruct (o_reparse ob) as [r|]; [|discriminate]. apply read_eqb_eq in H. now rewrite H.
Qed.

(** the observation picks at most one of the candidates, when two candidates that agree on
    flag, dump and fresh parse are equal *)
Lemma unambiguous_by cands ob flg x :
  flg = o_failed ob -> matches x ob = true ->
  (forall y, In (flg, y) cands -> sdump y = sdump x -> sread y = sread x -> y = x) ->
  unambiguous x ob cands = true.
Proof.
  intros Hf Hm Hinj. unfold unambiguous. apply forallb_forall. intros [f1 y] Hc. cbn [snd].
  destruct (explains ob (f1, y)) eqn:Ex; [|reflexivity]. cbn [negb orb].
  unfold explains in Ex. cbn [fst snd] in Ex. apply andb_true_iff in Ex as [Ef Em].
  apply eqb_prop in Ef. apply sdoc_eqb_eq. apply Hinj.
  - now rewrite Hf, <- Ef.
  - now rewrite (matches_dump _ _ Em), (matches_dump _ _ Hm).
  - pose proof (matches_read _ _ Em) as R1. rewrite (matches_read _ _ Hm) in R1. now injection R1.
Qed.

Lemma unamb_para s j po cands flg x ob :
  s_cands s (DPara j po) = Some cands -> In (flg, x) cands ->
  flg = o_failed ob -> matches x ob = true ->
  unambiguous x ob cands = true.
Proof.
  cbn [s_cands]. destruct (split_para s j) as [[[a fs] b]|]; [|discriminate].
  intros [= <-] Hin Hf Hm. apply in_map_iff in Hin as ([f0 y] & E & Hy). cbn [fst snd] in E.
  injection E as -> <-. apply (unambiguous_by _ ob flg); [exact Hf|exact Hm|].
  intros z Hz Hd _. apply in_map_iff in Hz as ([f1 y'] & E & Hy'). cbn [fst snd] in E.
  injection E as -> <-. rewrite !sdump_app, !sdump_cons_para in Hd.
  apply app_inv_head in Hd. apply app_inv_tail in Hd.
  now rewrite (sp_cands_inj po fs flg y' y Hy' Hy Hd).
Qed.

Lemma unamb_reappend s j cands flg x ob :
  s_cands s (DReappend j) = Some cands -> In (flg, x) cands ->
  flg = o_failed ob -> matches x ob = true ->
  unambiguous x ob cands = true.
Proof.
  cbn [s_cands]. destruct (split_para s j); [|discriminate]. intros [= <-] [[= <- <-]|[]] Hf Hm.
  apply (unambiguous_by _ ob true); [exact Hf|exact Hm|]. now intros y [[= <-]|[]] _ _.
Qed.

(** append: the six candidates *)
Definition nls (k : nat) : sdoc := repeat NLTOK k.

Lemma append_cands_shape s p flg x :
  In (flg, x) (append_cands s p) ->
  flg = false /\ exists B k, (B = nl_end s \/ B = s) /\ x = B ++ nls k ++ [SP p].
Proof.
  unfold append_cands. cbn [flat_map]. rewrite app_nil_r. cbn [app In].
  intros H. repeat (destruct H as [[= <- <-]|H]);
    try (split; [reflexivity|]); [exists (nl_end s), 0|exists (nl_end s), 1|exists (nl_end s), 2
                                   |exists s, 0|exists s, 1|exists s, 2|destruct H]; auto.
Qed.

Lemma sdump_nls k : sdump (nls k) = repeat LF k.
Proof.
  induction k as [|k IH]; [reflexivity|]. change (nls (S k)) with (NLTOK :: nls k).
  change (sdump (NLTOK :: nls k)) with ([LF] ++ sdump (nls k)). now rewrite IH.
Qed.

Lemma sread_nls k : sread (nls k) = [].
Proof. induction k as [|k IH]; [reflexivity|]. exact IH. Qed.

Lemma nl_end_cases s :
  nl_end s = s \/ exists s0 fs, s = s0 ++ [SP fs] /\ nl_end s = s0 ++ [SP (nl fs)] /\ nl fs <> fs.
Proof.
  destruct (list_snoc_cases s) as [->|(s0 & it & ->)]; [now left|].
  unfold nl_end. rewrite map_last_snoc. destruct it as [fs|t]; cbn [nl_item]; [|now left].
  destruct (list_eqb sfield_eqb (nl fs) fs) eqn:E.
  - apply (list_eqb_eq sfield_eqb sfield_eqb_eq) in E. rewrite E. now left.
  - right. exists s0, fs. repeat split. intros E'. rewrite E' in E.
    assert (list_eqb sfield_eqb fs fs = true) by now apply (list_eqb_eq sfield_eqb sfield_eqb_eq).
    congruence.
Qed.

Lemma sread_nl_neq s0 fs X Y :
  nl fs <> fs -> sread ((s0 ++ [SP (nl fs)]) ++ X) = sread ((s0 ++ [SP fs]) ++ Y) -> False.
Proof.
  intros Hne H. rewrite <- !app_assoc, !sread_app in H. apply app_inv_head in H.
  set (row := fun f0 : field => (f_name f0, field_text f0)) in *.
  assert (Hrow : forall l : list field, l <> [] -> sread [SP l] = [map row l]).
  { intros [|x l] Hl; [congruence|reflexivity]. }
  assert (Hfs : fs <> []) by (intros ->; now apply Hne).
  assert (Hl : nl fs <> []).
  { intros E. apply (f_equal (@length field)) in E. rewrite nl_length in E. destruct fs; [congruence|discriminate E]. }
  rewrite (Hrow _ Hl), (Hrow _ Hfs) in H. cbn [app] in H.
  assert (H' : map row (nl fs) = map row fs) by congruence.
  apply Hne. apply ftext_nl_eq. unfold ftext.
  apply (f_equal (map snd)) in H'. rewrite !map_map in H'. f_equal. exact H'.
Qed.

Lemma append_same B k k' p : sdump (B ++ nls k ++ [SP p]) = sdump (B ++ nls k' ++ [SP p]) -> k = k'.
Proof.
  rewrite !sdump_app, !sdump_nls. intros H. apply app_inv_head in H. apply (f_equal (@length N)) in H.
  rewrite !app_length, !repeat_length in H. lia.
Qed.

Lemma unamb_append s p cands flg x ob :
  s_cands s (DAppend p) = Some cands -> In (flg, x) cands ->
  flg = o_failed ob -> matches x ob = true ->
  unambiguous x ob cands = true.
Proof.
  cbn [s_cands]. intros [= <-] Hin Hf Hm.
  apply (unambiguous_by _ ob flg); [exact Hf|exact Hm|]. intros y Hy Hd Hr.
  apply append_cands_shape in Hin as (_ & B & k & HB & ->), Hy as (_ & B' & k' & HB' & ->).
  destruct (nl_end_cases s) as [E|(s0 & fs & E1 & E2 & Hne)].
  - rewrite E in HB, HB'. assert (B = s) by tauto. assert (B' = s) by tauto. subst B B'.
    now rewrite (append_same s k' k p Hd).
  - destruct HB as [-> | ->], HB' as [-> | ->].
    + now rewrite (append_same _ k' k p Hd).
    + exfalso. rewrite E2, E1 in Hr. symmetry in Hr. exact (sread_nl_neq s0 fs _ _ Hne Hr).
    + exfalso. rewrite E2, E1 in Hr. exact (sread_nl_neq s0 fs _ _ Hne Hr).
    + now rewrite (append_same _ k' k p Hd).
Qed.

(** * D''. Fields stay at line starts: the structural operations preserve [sep_ok] *)

(** the line state after a field that started at the beginning of a line *)
Definition fb (f : field) : bool := match field_text f with [] => true | t => ends_nl t end.

Lemma fields_bol_cons f fs : fields_bol true (f :: fs) = fields_bol (fb f) fs.
Proof. reflexivity. Qed.

Lemma fields_bol_false fs b : fields_bol false fs = Some b -> fs = [] /\ b = false.
Proof. destruct fs; cbn; [now intros [= <-]|discriminate]. Qed.

Lemma fields_bol_closed fs : forallb fb fs = true -> fields_bol true fs = Some true.
Proof.
  induction fs as [|f fs IH]; [reflexivity|]. cbn [forallb]. intros H. apply andb_true_iff in H as [H1 H2].
  rewrite fields_bol_cons, H1. now apply IH.
Qed.

Lemma last_opt_app_ne {A} (a b : list A) : b <> [] -> last_opt (a ++ b) = last_opt b.
Proof.
  intros Hb. induction a as [|x a IH]; [reflexivity|]. cbn [app]. rewrite last_opt_cons; [exact IH|].
  destruct a; [exact Hb|discriminate].
Qed.

Lemma ends_nl_app_r a b : ends_nl b = true -> ends_nl (a ++ b) = true.
Proof.
  unfold ends_nl. intros H. rewrite last_opt_app_ne; [exact H|]. intros ->. discriminate H.
Qed.

Lemma fb_add_nl f : fb (add_nl f) = true.
Proof.
  unfold fb. destruct (field_text (add_nl f)) as [|c t] eqn:Et; [reflexivity|]. rewrite <- Et. clear Et.
  unfold add_nl. destruct (ends_nl (f_rest f)) eqn:E; unfold field_text; cbn [f_comment f_name f_rest].
  - rewrite app_assoc. now apply ends_nl_app_r.
  - rewrite !app_assoc. apply ends_nl_app_r. reflexivity.
Qed.

Lemma nl_cons2 f g rest : nl (f :: g :: rest) = f :: nl (g :: rest).
Proof. reflexivity. Qed.

Lemma nl_all_closed : forall fs b, fields_bol true fs = Some b -> forallb fb (nl fs) = true.
Proof.
  induction fs as [|f fs IH]; intros b H; [reflexivity|].
  destruct fs as [|g rest].
  - cbn. now rewrite fb_add_nl.
  - rewrite nl_cons2. cbn [forallb]. rewrite fields_bol_cons in H.
    destruct (fb f) eqn:Ef; [|discriminate H]. now rewrite (IH b H).
Qed.

Lemma unpick_nil {A} (m : list bool) : unpick m (@nil A) = [].
Proof. now destruct m. Qed.

Lemma fields_bol_unpick : forall fs m b, fields_bol true fs = Some b ->
  exists b', fields_bol true (unpick m fs) = Some b' /\ (b = true -> b' = true).
Proof.
  induction fs as [|f fs IH]; intros m b H.
  - rewrite unpick_nil. exists true. now split.
  - destruct m as [|[|] m]; cbn [unpick].
    + eauto.
    + rewrite fields_bol_cons in H. destruct (fb f).
      * exact (IH m b H).
      * apply fields_bol_false in H as [-> ->]. rewrite unpick_nil. exists true. split; [reflexivity|discriminate].
    + rewrite fields_bol_cons in *. destruct (fb f).
      * exact (IH m b H).
      * apply fields_bol_false in H as [-> ->]. rewrite unpick_nil. exists false. split; [reflexivity|discriminate].
Qed.

(** replacing the fields [fs] of a paragraph by [fs'] keeps every later field at a line start *)
Definition fb_pres (fs fs' : list field) : Prop :=
  forall ba bf, fields_bol ba fs = Some bf ->
                exists bf', fields_bol ba fs' = Some bf' /\ (bf = true -> bf' = true).

Lemma fb_pres_refl fs : fb_pres fs fs.
Proof. intros ba bf H. eauto. Qed.

Lemma fb_pres_incl fs fs' : (forall x, In x fs' -> In x (nl fs)) -> fb_pres fs fs'.
Proof.
  intros Hin ba bf H. destruct fs as [|f fs].
  - destruct fs' as [|x fs']; [eauto|]. destruct (Hin x (or_introl eq_refl)).
  - destruct ba; [|discriminate H]. exists true. split; [|reflexivity].
    apply fields_bol_closed. pose proof (nl_all_closed _ _ H) as Hc.
    rewrite forallb_forall in Hc |- *. intros x Hx. apply Hc. now apply Hin.
Qed.

Lemma fb_pres_nl fs : fb_pres fs (nl fs).
Proof. apply fb_pres_incl. auto. Qed.

Lemma unpick_in {A} (m : list bool) : forall (l : list A) x, In x (unpick m l) -> In x l.
Proof.
  induction m as [|b m IH]; intros [|a l] x H; cbn [unpick] in H; try exact H.
  destruct b; [right; now apply IH|]. destruct H as [->|H]; [now left|right; now apply IH].
Qed.

Lemma fb_pres_unpick m fs : fb_pres fs (unpick m fs).
Proof.
  intros ba bf H. destruct ba.
  - now apply fields_bol_unpick.
  - apply fields_bol_false in H as [-> ->]. rewrite unpick_nil. exists false. split; [reflexivity|discriminate].
Qed.

Lemma fb_pres_unpick_nl m fs : fb_pres fs (unpick m (nl fs)).
Proof. apply fb_pres_incl. intros x. apply unpick_in. Qed.

(** documents *)
Fixpoint sep_state (bol : bool) (s : sdoc) : option bool :=
  match s with
  | [] => Some bol
  | SP fs :: s' => match fields_bol bol fs with Some b => sep_state b s' | None => None end
  | SO t :: s' => sep_state (match t with [] => bol | _ => ends_nl t end) s'
  end.

Lemma sep_from_app : forall a b0 rest,
  sep_ok_from b0 (a ++ rest) = match sep_state b0 a with Some b => sep_ok_from b rest | None => false end.
Proof.
  induction a as [|[fs|t] a IH]; intros b0 rest; cbn [app sep_ok_from sep_state]; [reflexivity| |apply IH].
  destruct (fields_bol b0 fs); [apply IH|reflexivity].
Qed.

Lemma sep_from_mono : forall s, sep_ok_from false s = true -> sep_ok_from true s = true.
Proof.
  induction s as [|[fs|t] s IH]; cbn [sep_ok_from]; [auto| |].
  - destruct fs as [|f fs]; cbn [fields_bol]; [exact IH|discriminate].
  - destruct t; [exact IH|auto].
Qed.

Lemma sep_replace a fs fs' b :
  fb_pres fs fs' -> sep_ok (a ++ SP fs :: b) = true -> sep_ok (a ++ SP fs' :: b) = true.
Proof.
  intros Hp. unfold sep_ok. rewrite !sep_from_app. destruct (sep_state true a) as [ba|]; [|auto].
  cbn [sep_ok_from]. destruct (fields_bol ba fs) as [bf|] eqn:E; [|discriminate].
  destruct (Hp ba bf E) as (bf' & E' & Hb). rewrite E'. destruct bf.
  - now rewrite (Hb eq_refl).
  - destruct bf'; [apply sep_from_mono|auto].
Qed.

(** ** what the reordering operations of the model leave in a paragraph: the fields as they
       were, or fields of the paragraph after _ensure_final_newline *)
Definition elems_ok (fs fs' : list field) : Prop := fs' = fs \/ forall x, In x fs' -> In x (nl fs).

Lemma elems_ok_pres fs fs' : elems_ok fs fs' -> fb_pres fs fs'.
Proof. intros [->|H]; [apply fb_pres_refl|now apply fb_pres_incl]. Qed.

Lemma remove_first_in {A} (p : A -> bool) l x : In x (remove_first p l) -> In x l.
Proof.
  induction l as [|a l IH]; cbn [remove_first]; [auto|]. destruct (p a); [now right|].
  intros [->|H]; [now left|right; now apply IH].
Qed.

Lemma insert_before_in p y l x : In x (insert_before p y l) -> x = y \/ In x l.
Proof.
  induction l as [|a l IH]; cbn [insert_before].
  - intros [->|[]]. now left.
  - destruct (p a).
    + intros [->|H]; [now left|now right].
    + intros [->|H]; [right; now left|]. destruct (IH H); [now left|right; now right].
Qed.

Lemma insert_after_in p y l x : In x (insert_after p y l) -> x = y \/ In x l.
Proof.
  induction l as [|a l IH]; cbn [insert_after].
  - intros [->|[]]. now left.
  - destruct (p a).
    + intros [->|[->|H]]; [right; now left|now left|right; now right].
    + intros [->|H]; [right; now left|]. destruct (IH H); [now left|right; now right].
Qed.

Lemma nd_reorder_in fs n reinsert :
  (forall f l x, In x (reinsert f l) -> x = f \/ In x l) ->
  forall x, In x (snd (nd_reorder fs n reinsert)) -> In x fs.
Proof.
  intros H x. unfold nd_reorder. destruct (List.find (has_name n) fs) as [f|] eqn:E; cbn [fail ok snd]; [|auto].
  intros Hx. destruct (H _ _ _ Hx) as [->|Hx']; [exact (proj1 (find_some _ _ E))|now apply remove_first_in in Hx'].
Qed.

Lemma nd_first_elems fs k : elems_ok fs (snd (nd_order_first fs k)).
Proof.
  unfold nd_order_first. destruct (unpack_key k true) as [[n i]|e]; [|now left]. right.
  apply nd_reorder_in. intros f l x [->|Hx]; auto.
Qed.

Lemma nd_last_elems fs k : elems_ok fs (snd (nd_order_last fs k)).
Proof.
  unfold nd_order_last. destruct (unpack_key k true) as [[n i]|e]; [|now left]. right.
  apply nd_reorder_in. intros f l x Hx. apply in_app_or in Hx as [Hx|[->|[]]]; auto.
Qed.

Lemma nd_rel_elems after fs k r : elems_ok fs (snd (nd_order_rel after fs k r)).
Proof.
  unfold nd_order_rel. destruct (unpack_key k true) as [[n i]|e]; [|now left].
  destruct (unpack_key r true) as [[rn ri]|e]; [|now left]. cbv zeta.
  destruct (name_eqb n rn); [right; auto|].
  destruct (negb (existsb (has_name rn) (map_last add_nl fs))); [right; auto|]. right.
  apply nd_reorder_in. intros f l x Hx.
  destruct after; [now apply insert_after_in in Hx|now apply insert_before_in in Hx].
Qed.

Lemma sort_in sk fs x : In x (sort_fields_by sk fs) -> In x fs.
Proof. apply Permutation_in. apply sort_fields_by_perm. Qed.

(** the duplicate-fields class *)
Notation order := (list (N * field)) (only parsing).

Lemma take_node_in id (o : order) x o' : take_node id o = Some (x, o') -> In x o /\ incl o' o.
Proof.
  unfold take_node. destruct (List.find (is_node id) o) as [y|] eqn:E; [|discriminate]. intros [= <- <-].
  split; [exact (proj1 (find_some _ _ E))|]. intros z. unfold remove_node. apply remove_first_in.
Qed.

Lemma ins_before_in ref x : forall (o r : order), ins_before ref x o = Some r ->
  forall y, In y r -> y = x \/ In y o.
Proof.
  induction o as [|a o IH]; intros r H y Hy; cbn [ins_before] in H; [discriminate|].
  destruct (is_node ref a).
  - injection H as <-. destruct Hy as [->|Hy]; [now left|now right].
  - destruct (ins_before ref x o) as [r'|]; [|discriminate]. injection H as <-.
    destruct Hy as [->|Hy]; [right; now left|]. destruct (IH r' eq_refl y Hy); [now left|right; now right].
Qed.

Lemma ins_after_in ref x : forall (o r : order), ins_after ref x o = Some r ->
  forall y, In y r -> y = x \/ In y o.
Proof.
  induction o as [|a o IH]; intros r H y Hy; cbn [ins_after] in H; [discriminate|].
  destruct (is_node ref a).
  - injection H as <-. destruct Hy as [->|[->|Hy]]; [right; now left|now left|right; now right].
  - destruct (ins_after ref x o) as [r'|]; [|discriminate]. injection H as <-.
    destruct Hy as [->|Hy]; [right; now left|]. destruct (IH r' eq_refl y Hy); [now left|right; now right].
Qed.

Lemma step_last_incl (o : order) id o2 : step_last (Ok o) id = Ok o2 -> incl o2 o.
Proof.
  unfold step_last. cbn [bind]. destruct (tail_is o id); [intros [= <-]; apply incl_refl|].
  destruct (take_node id o) as [[x o']|] eqn:E; [|discriminate]. intros [= <-].
  destruct (take_node_in _ _ _ _ E) as [Hx Ho]. intros y Hy. apply in_app_or in Hy as [Hy|[->|[]]]; auto.
Qed.

Lemma step_first_incl (o : order) id o2 : step_first (Ok o) id = Ok o2 -> incl o2 o.
Proof.
  unfold step_first. cbn [bind]. destruct (head_is o id); [intros [= <-]; apply incl_refl|].
  destruct (take_node id o) as [[x o']|] eqn:E; [|discriminate]. intros [= <-].
  destruct (take_node_in _ _ _ _ E) as [Hx Ho]. intros y [->|Hy]; auto.
Qed.

Lemma step_rel_incl after ref (o : order) id o2 : step_rel after ref (Ok o) id = Ok o2 -> incl o2 o.
Proof.
  unfold step_rel. cbn [bind]. destruct (take_node id o) as [[x o']|] eqn:E; [|discriminate].
  destruct (take_node_in _ _ _ _ E) as [Hx Ho].
  destruct after.
  - destruct (ins_after ref x o') as [r|] eqn:Er; [|discriminate]. intros [= <-] y Hy.
    destruct (ins_after_in _ _ _ _ Er y Hy) as [->|H]; auto.
  - destruct (ins_before ref x o') as [r|] eqn:Er; [|discriminate]. intros [= <-] y Hy.
    destruct (ins_before_in _ _ _ _ Er y Hy) as [->|H]; auto.
Qed.

Lemma fold_incl (step : result order -> N -> result order) :
  (forall e id, step (Err e) id = Err e) ->
  (forall o id o2, step (Ok o) id = Ok o2 -> incl o2 o) ->
  forall l o o2, fold_left step l (Ok o) = Ok o2 -> incl o2 o.
Proof.
  intros Herr Hok. assert (Hfe : forall l e, fold_left step l (Err e) = Err e).
  { induction l as [|a l IH]; intros e; [reflexivity|]. cbn [fold_left]. now rewrite Herr. }
  induction l as [|a l IH]; intros o o2 H; cbn [fold_left] in H.
  - injection H as <-. apply incl_refl.
  - destruct (step (Ok o) a) as [o1|e] eqn:E.
    + apply (incl_tran (IH _ _ H)). exact (Hok _ _ _ E).
    + rewrite Hfe in H. discriminate.
Qed.

Lemma d_fields_ensure d : map snd (d_order (d_ensure d)) = nl (map snd (d_order d)).
Proof. unfold d_ensure, with_order. cbn [d_order]. apply map_snd_ensure_nl. Qed.

Lemma incl_fields (o2 o1 : order) x : incl o2 o1 -> In x (map snd o2) -> In x (map snd o1).
Proof. intros H Hx. apply in_map_iff in Hx as (nf & <- & Hnf). apply in_map. now apply H. Qed.

Lemma d_last_elems d k : elems_ok (map snd (d_order d)) (map snd (d_order (snd (d_order_last d k)))).
Proof.
  unfold d_order_last. destruct (relocated d k) as [[[key nodes] reloc]|e]; [|now left]. cbv zeta.
  destruct (fold_left step_last reloc (Ok (d_order (d_ensure d)))) as [o2|e] eqn:E; cbn [fail ok snd d_order].
  - right. intros x Hx. rewrite <- d_fields_ensure. revert Hx. apply incl_fields.
    exact (fold_incl step_last (fun e id => eq_refl) step_last_incl _ _ _ E).
  - right. intros x Hx. now rewrite <- d_fields_ensure.
Qed.

Lemma d_first_elems d k : elems_ok (map snd (d_order d)) (map snd (d_order (snd (d_order_first d k)))).
Proof.
  unfold d_order_first. destruct (relocated d k) as [[[key nodes] reloc]|e]; [|now left]. cbv zeta.
  destruct (fold_left step_first (rev reloc) (Ok (d_order (d_ensure d)))) as [o2|e] eqn:E; cbn [fail ok snd d_order].
  - right. intros x Hx. rewrite <- d_fields_ensure. revert Hx. apply incl_fields.
    exact (fold_incl step_first (fun e id => eq_refl) step_first_incl _ _ _ E).
  - right. intros x Hx. now rewrite <- d_fields_ensure.
Qed.

Lemma d_rel_elems after d k r :
  elems_ok (map snd (d_order d)) (map snd (d_order (snd (d_order_rel after d k r)))).
Proof.
  unfold d_order_rel. destruct (relocated d k) as [[[key nodes] reloc]|e]; [|now left]. cbv zeta.
  assert (R : forall e, elems_ok (map snd (d_order d)) (map snd (d_order (snd (fail e (d_ensure d)))))).
  { intros e. right. intros x Hx. cbn [fail snd] in Hx. now rewrite <- d_fields_ensure. }
  destruct (relocated (d_ensure d) r) as [[[key' nodes'] refs]|e]; [|apply R].
  destruct (py_index refs (if after then (-1)%Z else 0%Z)) as [ref|]; [|apply R].
  destruct (existsb (N.eqb ref) reloc); [apply R|].
  destruct (fold_left (step_rel after ref) (if after then rev reloc else reloc) (Ok (d_order (d_ensure d))))
    as [o2|e] eqn:E; [|apply R].
  cbn [ok snd d_order]. right. intros x Hx. rewrite <- d_fields_ensure. revert Hx. apply incl_fields.
  exact (fold_incl (step_rel after ref) (fun e id => eq_refl) (step_rel_incl after ref) _ _ _ E).
Qed.

Lemma d_sort_elems sk d : elems_ok (map snd (d_order d)) (map snd (d_order (d_sort sk d))).
Proof.
  right. unfold d_sort.
  destruct (init_kvpairs_wf (sort_fields_by sk (map snd (d_ensure_nl (d_order d)))) (mkD [] [] (d_next d))
              (WfD_empty _)) as [_ E].
  rewrite E. cbn [d_order map app]. intros x Hx. apply sort_in in Hx. now rewrite <- map_snd_ensure_nl.
Qed.

(** either class *)
Lemma p_first_elems p k : elems_ok (para_fields p) (para_fields (snd (p_order_first p k))).
Proof. destruct p as [fs|d]; cbn [p_order_first lift_pn lift_pd snd para_fields]; [apply nd_first_elems|apply d_first_elems]. Qed.

Lemma p_last_elems p k : elems_ok (para_fields p) (para_fields (snd (p_order_last p k))).
Proof. destruct p as [fs|d]; cbn [p_order_last lift_pn lift_pd snd para_fields]; [apply nd_last_elems|apply d_last_elems]. Qed.

Lemma p_rel_elems after p k r : elems_ok (para_fields p) (para_fields (snd (p_order_rel after p k r))).
Proof. destruct p as [fs|d]; cbn [p_order_rel lift_pn lift_pd snd para_fields]; [apply nd_rel_elems|apply d_rel_elems]. Qed.

Lemma p_sort_elems sk p : elems_ok (para_fields p) (para_fields (snd (p_sort sk p))).
Proof.
  destruct p as [fs|d]; cbn [p_sort ok snd para_fields]; [|apply d_sort_elems].
  right. intros x. unfold nd_sort. apply sort_in.
Qed.

(** one paragraph operation, lifted to the document *)
Lemma update_sep d j (f : para -> sres para) :
  Wf_doc d -> sep_ok (abs d) = true ->
  (forall p, Wf_para p -> fb_pres (para_fields p) (para_fields (snd (f p)))) ->
  sep_ok (abs (snd (update_para_s d j f))) = true.
Proof.
  intros Hwf Hs Hf. pose proof (split_doc_spec d j) as S. destruct (split_doc d j) as [[[a p] b]|].
  - destruct S as (E & _ & Hu & _). rewrite (Hu f). cbn [snd]. rewrite E in Hs, Hwf.
    rewrite abs_app in *. change (abs (Para p :: b)) with (SP (para_fields p) :: abs b) in Hs.
    change (abs (Para (snd (f p)) :: b)) with (SP (para_fields (snd (f p))) :: abs b).
    apply (sep_replace _ (para_fields p)); [|exact Hs]. apply Hf. now apply Wf_doc_mid in Hwf.
  - destruct S as (_ & Hu & _). rewrite (Hu f). exact Hs.
Qed.

Lemma del_pres p k :
  Wf_para p -> fb_pres (para_fields p) (para_fields (snd (lift_res (fun p => p_remove p k) p))).
Proof.
  intros Hwf. unfold lift_res. pose proof (p_remove_refines p k Hwf) as R.
  destruct (p_remove p k) as [p'|e]; cbn [ok fail snd]; [|apply fb_pres_refl].
  destruct R as [Hin _]. apply sp_cands_accepted in Hin as (pl & neg & Hp & Hy).
  cbn [sp_plan] in Hp. destruct (select_key WAll k (para_fields p)) as [[m ng]|]; [|discriminate].
  injection Hp as <- _. cbn [run_plan] in Hy.
  destruct Hy as [-> | ->]; [apply fb_pres_unpick_nl|apply fb_pres_unpick].
Qed.

(** the seven structural operations keep every field at the beginning of a line *)
Theorem structural_sep d o :
  Wf_doc d -> sep_ok (abs d) = true -> structural o = true -> sep_ok (abs (snd (s_step d o))) = true.
Proof.
  intros Hwf Hs Hst. destruct o as [j k|j k|j k r|j k r|j sk|j k v|j k|kvs|i kvs|j];
    cbn [structural] in Hst; try discriminate Hst; cbn [s_step].
  - apply update_sep; auto. intros p _. apply elems_ok_pres, p_first_elems.
  - apply update_sep; auto. intros p _. apply elems_ok_pres, p_last_elems.
  - apply update_sep; auto. intros p _. apply elems_ok_pres, p_rel_elems.
  - apply update_sep; auto. intros p _. apply elems_ok_pres, p_rel_elems.
  - apply update_sep; auto. intros p _. apply elems_ok_pres, p_sort_elems.
  - apply update_sep; auto. intros p Hp. now apply del_pres.
  - destruct (nth_error (paras d) j); exact Hs.
Qed.

(** * E. The operation in the reference's terms *)

Lemma spec_op_structural s o so so' :
  structural o = true -> spec_op s o = Some so -> op_rel o so' -> so' = so.
Proof.
  intros Hs H R. destruct R; cbn [structural] in Hs; try discriminate Hs; cbn [spec_op] in H;
    now injection H as <-.
Qed.

Lemma split_para_range d j :
  split_para (abs d) j <> None -> (j <? length (paras d))%nat = true.
Proof.
  intros H. pose proof (split_doc_spec d j) as S. destruct (split_doc d j) as [[[a p] b]|].
  - destruct S as (_ & _ & _ & Hn). apply Nat.ltb_lt. apply nth_error_Some. congruence.
  - destruct S as (Hs & _). contradiction.
Qed.

Lemma spec_op_in_range d o so cs :
  spec_op (abs d) o = Some so -> s_cands (abs d) so = Some cs -> op_in_range d o = true.
Proof.
  intros H C.
  destruct o as [j k|j k|j k r|j k r|j sk|j k v|j k|kvs|i kvs|j]; cbn [spec_op op_in_range] in *;
    try (injection H as <-; cbn [s_cands] in C; apply split_para_range;
         destruct (split_para (abs d) j); [discriminate|discriminate C]).
  - destruct (split_para (abs d) j) as [[[a fs] b]|] eqn:Es; [|discriminate H].
    apply split_para_range. rewrite Es. discriminate.
  - reflexivity.
  - destruct (build_fields kvs []) as [fs|]; [|discriminate H]. cbn [option_map] in H. injection H as <-.
    cbn [s_cands] in C. destruct (i <? 0)%Z eqn:E; [discriminate C|]. lia.
Qed.

(** * F. The side condition

    [judged c]: the initial items satisfy [sep_ok] (every field starts at the beginning of a
    line; [holds] demands it, [agree] does not determine it), and per judged step (an ASCII
    operation inside the reference's domain; [e], [d'] = what the model does):
    - [reparse_is], for every operation: the recorded fresh parse of the dump shows the fields of
      the model's state.  [holds] consults this observation, [agree] does not look at it.
    - for p[k] = v / append / insert only (the operations that turn a VALUE into a field, C05's
      subject, where the refinement theorem leaves the built field open): the model's outcome
      satisfies [sep_ok] and is one of the outcomes the reference permits for the field(s) the
      reference builds ([simple_field]).
    - for insert only, [unambiguous]: no OTHER permitted outcome explains the same observation
      ([first_match] commits to the first one that does; two positions between the same
      paragraphs can give the same text).
    For the seven structural operations (order_first / order_last / order_before / order_after /
    sort_fields / del / re-append) nothing but [reparse_is] is assumed: membership is
    [step_refines], [sep_ok] is [structural_sep], unambiguity is [unamb_para] / [unamb_reappend]. *)
Definition step_judged (o : sop) (so : dop) (cands : list (bool * sdoc)) (e : option err) (d' : doc)
           (st : steplit) : bool :=
  reparse_is (abs d') st
  && (structural o || (sep_ok (abs d') && member (flag e) (abs d') cands))
  && match so with DInsert _ _ => unambiguous (abs d') (dec_obs st) cands | _ => true end.

Fixpoint judged_steps (d : doc) (ops : list sop) (steps : list steplit) : bool :=
  match ops, steps with
  | o :: ops', st :: steps' =>
      if negb (op_ascii o) then true else
      match spec_op (abs d) o with
      | None => true
      | Some so =>
          match s_cands (abs d) so with
          | None => true
          | Some cands =>
              let (e, d') := s_step d o in
              step_judged o so cands e d' st && judged_steps d' ops' steps'
          end
      end
  | _, _ => true
  end.

Definition judged (c : case) : bool :=
  match c with
  | Run text items ops steps =>
      let d := map dec_item items in
      sep_ok (abs d) && judged_steps d (map dec_op ops) steps
  end.

Lemma o_failed_obs st : o_failed (dec_obs st) = flag (s_err st).
Proof. unfold dec_obs. cbn [o_failed]. now destruct (s_err st). Qed.

Lemma steps_hold : forall ops steps d,
  Wf_doc d -> sep_ok (abs d) = true ->
  agree_steps d ops steps = true -> judged_steps d ops steps = true ->
  holds_steps (abs d) ops steps = true.
Proof.
  induction ops as [|o ops IH]; intros [|st steps] d Hwf Hsep0 Ha Hj; try discriminate Ha; [reflexivity|].
  cbn [agree_steps judged_steps holds_steps] in *.
  destruct (negb (op_ascii o)); [reflexivity|].
  destruct (spec_op (abs d) o) as [so|] eqn:Eso; [|reflexivity].
  destruct (s_cands (abs d) so) as [cands|] eqn:Ec; [|reflexivity].
  pose proof (spec_op_in_range d o so cands Eso Ec) as Hr.
  pose proof (step_refines d o Hwf Hr) as [Hwf' Hstep].
  destruct (s_step d o) as [e d'] eqn:Est. cbn [fst snd] in Hwf', Hstep.
  rewrite !andb_true_iff in Ha. destruct Ha as [[[Herr Hdump] Hpos] Hrest].
  apply andb_true_iff in Hj. destruct Hj as [Hsj Hj].
  unfold step_judged in Hsj. rewrite !andb_true_iff in Hsj. destruct Hsj as [[Hrp Hmem] Hun].
  apply option_eqb_err_eq in Herr.
  assert (Hsep : sep_ok (abs d') = true).
  { destruct (structural o) eqn:Hs.
    - pose proof (structural_sep d o Hwf Hsep0 Hs) as H. now rewrite Est in H.
    - cbn [orb] in Hmem. apply andb_true_iff in Hmem. tauto. }
  assert (Hin : In (flag e, abs d') cands).
  { destruct (structural o) eqn:Hs.
    - destruct e as [err|]; [|]; destruct Hstep as (so' & cs' & Hrel & Hcs' & Hin);
        rewrite (spec_op_structural _ _ _ _ Hs Eso Hrel) in Hcs'; rewrite Ec in Hcs';
        injection Hcs' as <-; exact Hin.
    - cbn [orb] in Hmem. apply andb_true_iff in Hmem as [_ Hmem]. now apply member_In. }
  assert (Hm : matches (abs d') (dec_obs st) = true) by now apply matches_of.
  assert (Hfl : flag e = o_failed (dec_obs st)) by now rewrite o_failed_obs, Herr.
  rewrite (first_match_pick cands (dec_obs st) (flag e) (abs d') Hin Hfl Hm).
  - now apply IH.
  - destruct so as [j po|p|i p|j].
    + exact (unamb_para _ j po cands _ _ _ Ec Hin Hfl Hm).
    + exact (unamb_append _ p cands _ _ _ Ec Hin Hfl Hm).
    + exact Hun.
    + exact (unamb_reappend _ j cands _ _ _ Ec Hin Hfl Hm).
Qed.

Theorem agree_implies_holds c : judged c = true -> agree c = true -> holds c = true.
Proof.
  destruct c as [text items ops steps]. intros Hj Ha.
  cbn [agree holds judged] in *. cbv zeta in Ha, Hj.
  rewrite !andb_true_iff in Ha. destruct Ha as [[Hc Hd] Hs].
  apply andb_true_iff in Hj. destruct Hj as [Hsep Hj].
  apply str_eqb_eq in Hd. rewrite <- abs_dec_items, <- dump_abs, Hd, str_eqb_refl, Hsep. cbn [andb].
  apply steps_hold; [now apply class_ok_wf|exact Hsep|exact Hs|exact Hj].
Qed.
