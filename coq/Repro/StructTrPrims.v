(** C10 — primitives of the regenerated ORDERING methods of the two paragraph classes of
    debian/_deb822_repro/parsing.py (Gen/TrStruct.v, Gen/TrStructDup.v; METHOD + HEAP MODE of harness/py2coq.py).

    The paragraph classes are built on debian/_util.py's OrderedSet / LinkedList / LinkedListNode, which C09 already
    regenerates at the pointer level (Gen/TrLinkedList.v).  Nothing of that is translated again: the OrderedSet held
    in [self._kvpair_order] is the record of its attributes (the model's own [oset], Dict/Heap.v) and each of its
    methods is C09's REGENERATED function run on (heap, that record) — [os_run] below only packs and unpacks the
    record; likewise for the LinkedList of the duplicates class ([ll_run]).

    A Deb822KeyValuePairElement is an object with identity that the methods here never look into, except for
    [field_name] and [value_element.add_final_newline_if_missing()]: a reference [kvelem] into a store of fields
    ([kvstore], the model's [field] = comment / name / rest-of-text), threaded as hidden state.  The reference type is
    [str] so that a reference can be the [value] of one of C09's LinkedListNodes, whose values are [str] (the list
    code never inspects a value).  The two observations are DEFINED from the model's functions ([f_name], [add_nl]).
    A read through a dangling reference is [Err OtherError] (no Python exception; excluded by the representation
    invariant of Repro/StructTie.v).

    Definitions only. *)
From Coq Require Import ZArith.
From Verif Require Import Lib.Base Lib.PyStr Lib.Tr Dict.Common Dict.Heap Dict.TrPrims Gen.TrLinkedList.
From Verif Require Repro.Doc Repro.StructSort Repro.Struct.

Local Open Scope Z_scope.

(** * Types of the spec (aliases: the generated text must not depend on which of two homonymous constants an
      [Import] happens to leave visible) *)
Definition trp_key := Doc.key.                  (* ParagraphKey: str | (str, int); name tokens as keys are not modelled *)
Definition trp_sortkey := StructSort.sortkey.   (* the key functions sort_fields is exercised with *)
Notation trp_field := Doc.field (only parsing).
Definition trp_KDefault : trp_sortkey := StructSort.KDefault.

(** the discarded components of [x, _, _ = _unpack_key(..)] *)
Definition trp_any := unit.
Definition trp_drop {A} (_ : A) : trp_any := tt.

(** a Deb822FieldNameToken used as a key: not modelled (no value of that type exists) *)
Definition nametoken := Empty_set.

(** * Key-value pair elements: references into a store of fields *)
Definition kvelem := str.
Definition velem := kvelem.                     (* the Deb822ValueElement of a pair: identified with the pair *)
Definition kvstore := tbl trp_field.

(** [kv.field_name] (a property: [self._field_token.text], a _strI) *)
Definition trp_kv_field_name (kvs : kvstore) (kv : kvelem) : result stri :=
  match t_get kv kvs with Some f => Ok (Doc.f_name f) | None => Err OtherError end.

(** [kv.value_element] (a property) *)
Definition trp_kv_value_element (kv : kvelem) : result velem := Ok kv.

(** [ve.add_final_newline_if_missing()]: the model's [add_nl] on the stored field *)
Definition trp_ve_add_final_newline (kvs : kvstore) (ve : velem) : mres unit kvstore :=
  match t_get ve kvs with
  | Some f => MOk tt (t_set ve (Doc.add_nl f) kvs)
  | None => MErr OtherError kvs
  end.

(** * _unpack_key: the model's own function (name tokens as keys do not exist in the model) *)
Definition trp_unpack_key (k : trp_key) (raise_if_indexed : bool) : result (stri * option Z * option nametoken) :=
  match Doc.unpack_key k raise_if_indexed with
  | Ok (n, i) => Ok (n, i, None)
  | Err e => Err e
  end.

(** [isinstance(item, (str, tuple, Deb822FieldNameToken))] for a value of the model's key type *)
Definition trp_is_paragraph_key (k : trp_key) : bool := true.

(** * The OrderedSet object held in [self._kvpair_order] *)
Definition osobj := oset.
Definition os_state := (heap * ostable * option id * option id * Z)%type.

Definition os_pack (st : os_state) : heap * osobj :=
  let '(h, tb, hd, tl, z) := st in (h, mkOS tb (mkLL hd tl (Z.to_nat z))).

(** a regenerated OrderedSet method (Gen/TrLinkedList.v) that changes the set, run on the object *)
Definition os_run {A} (f : heap -> ostable -> option id -> option id -> Z -> mres A os_state)
           (hp : heap) (os : osobj) : mres A (heap * osobj) :=
  match f hp (os_table os) (ll_head (os_order os)) (ll_tail (os_order os)) (Z.of_nat (ll_size (os_order os))) with
  | MOk a st => MOk a (os_pack st)
  | MErr e st => MErr e (os_pack st)
  end.

(** ... that only reads it *)
Definition os_read {A} (f : heap -> ostable -> option id -> option id -> Z -> result A)
           (hp : heap) (os : osobj) : result A :=
  f hp (os_table os) (ll_head (os_order os)) (ll_tail (os_order os)) (Z.of_nat (ll_size (os_order os))).

Definition trp_os_order_last (lower : str -> str) (hp : heap) (os : osobj) (item : stri) :=
  os_run (fun h tb hd tl z => tr_os_order_last lower h tb hd tl z item) hp os.
Definition trp_os_order_first (lower : str -> str) (hp : heap) (os : osobj) (item : stri) :=
  os_run (fun h tb hd tl z => tr_os_order_first lower h tb hd tl z item) hp os.
Definition trp_os_order_before (lower : str -> str) (hp : heap) (os : osobj) (item ref : stri) :=
  os_run (fun h tb hd tl z => tr_os_order_before lower h tb hd tl z item ref) hp os.
Definition trp_os_order_after (lower : str -> str) (hp : heap) (os : osobj) (item ref : stri) :=
  os_run (fun h tb hd tl z => tr_os_order_after lower h tb hd tl z item ref) hp os.
Definition trp_os_remove (lower : str -> str) (hp : heap) (os : osobj) (item : stri) :=
  os_run (fun h tb hd tl z => tr_os_remove lower h tb hd tl z item) hp os.

(** [for x in os] / [list(os)]: OrderedSet.__iter__ *)
Definition trp_os_iter (lower : str -> str) (hp : heap) (os : osobj) : result (list stri) :=
  os_read (tr_os_iter lower) hp os.

(** [reversed(os)]: OrderedSet.__reversed__ (over LinkedList.__reversed__ / iter_previous, which C09 does not
    regenerate): the items of __iter__ in the opposite order.  Hand-modelled. *)
Definition trp_os_reversed (lower : str -> str) (hp : heap) (os : osobj) : result (list stri) :=
  match trp_os_iter lower hp os with Ok l => Ok (rev l) | Err e => Err e end.

(** [OrderedSet(iterable)]: __init__ makes an empty table and an empty list and then runs the loop of [extend]
    ([for item in iterable: self.add(item)]): the regenerated [extend] on the empty set.  The new object is lost when an
    exception escapes; the nodes it allocated stay in the heap. *)
Definition trp_os_new (lower : str -> str) (hp : heap) (items : list stri) : mres osobj heap :=
  match os_run (fun h tb hd tl z => tr_os_extend lower h tb hd tl z items) hp os_empty with
  | MOk _ (h, os) => MOk os h
  | MErr e (h, _) => MErr e h
  end.

(** [sorted(os, key=k)]: the items in iteration order, stably sorted by the key function (Repro/StructSort.v) *)
Definition trp_sorted_names (k : trp_sortkey) (l : list stri) : list stri :=
  StructSort.sort_by (StructSort.k_leb (StructSort.keyfn_of k)) (StructSort.k_of (StructSort.keyfn_of k)) l.
Definition trp_sorted_os (lower : str -> str) (hp : heap) (os : osobj) (k : trp_sortkey) : result (list stri) :=
  match trp_os_iter lower hp os with Ok l => Ok (trp_sorted_names k l) | Err e => Err e end.

(** [str(k)] on a _strI *)
Definition trp_str (s : stri) : str := s.

(** * [self._kvpair_elements] of the no-duplicates class: dict _strI -> pair (keyed by the lowered name) *)
Definition kvdict := tbl kvelem.
Definition trp_kvd_get (lower : str -> str) (d : kvdict) (k : stri) : result kvelem :=
  match t_get (lower k) d with Some v => Ok v | None => Err KeyError end.
Definition trp_kvd_mem (lower : str -> str) (d : kvdict) (k : stri) : bool := t_mem (lower k) d.
Definition trp_kvd_del (lower : str -> str) (d : kvdict) (k : stri) : result (unit * kvdict) :=
  if t_mem (lower k) d then Ok (tt, t_del (lower k) d) else Err KeyError.
Definition trp_kvd_len (d : kvdict) : Z := Z.of_nat (length d).

(** * Deb822DuplicateFieldsParagraphElement.

    [self._kvpair_order] is a LinkedList whose node values are the pair elements: the record of its attributes (the
    model's [llist]); its methods are C09's REGENERATED LinkedList functions run on (heap, record). *)
Definition llobj := llist.
Definition ll_state := (heap * option id * option id * Z)%type.

Definition ll_pack (st : ll_state) : heap * llobj :=
  let '(h, hd, tl, z) := st in (h, mkLL hd tl (Z.to_nat z)).

Definition ll_run {A} (f : heap -> option id -> option id -> Z -> mres A ll_state)
           (hp : heap) (ll : llobj) : mres A (heap * llobj) :=
  match f hp (ll_head ll) (ll_tail ll) (Z.of_nat (ll_size ll)) with
  | MOk a st => MOk a (ll_pack st)
  | MErr e st => MErr e (ll_pack st)
  end.

Definition ll_read {A} (f : heap -> option id -> option id -> Z -> result A) (hp : heap) (ll : llobj) : result A :=
  f hp (ll_head ll) (ll_tail ll) (Z.of_nat (ll_size ll)).

Definition trp_ll_remove_node (hp : heap) (ll : llobj) (node : id) :=
  ll_run (fun h hd tl z => tr_ll_remove_node h hd tl z node) hp ll.
Definition trp_ll_insert_node_after (hp : heap) (ll : llobj) (new_node existing : id) :=
  ll_run (fun h hd tl z => tr_ll_insert_node_after h hd tl z new_node existing) hp ll.
Definition trp_ll_insert_node_before (hp : heap) (ll : llobj) (new_node existing : id) :=
  ll_run (fun h hd tl z => tr_ll_insert_node_before h hd tl z new_node existing) hp ll.
Definition trp_ll_append (hp : heap) (ll : llobj) (v : kvelem) :=
  ll_run (fun h hd tl z => tr_ll_append h hd tl z v) hp ll.
Definition trp_ll_iter (hp : heap) (ll : llobj) : result (list kvelem) := ll_read tr_ll_iter hp ll.
Definition trp_ll_iter_nodes (hp : heap) (ll : llobj) : result (list id) := ll_read tr_ll_iter_nodes hp ll.
(** [reversed(ll)] (LinkedList.__reversed__ over iter_previous: not regenerated by C09): __iter__ in the opposite order *)
Definition trp_ll_reversed (hp : heap) (ll : llobj) : result (list kvelem) :=
  match trp_ll_iter hp ll with Ok l => Ok (rev l) | Err e => Err e end.
(** [len(ll)], [bool(ll)], [ll.head_node], [ll.tail_node], [LinkedList()] (no nodes are made) *)
Definition trp_ll_len (ll : llobj) : Z := Z.of_nat (ll_size ll).
Definition trp_ll_bool (ll : llobj) : bool := tr_is_some (ll_head ll).
Definition trp_ll_head (ll : llobj) : option id := ll_head ll.
Definition trp_ll_tail (ll : llobj) : option id := ll_tail ll.
Definition trp_ll_new : llobj := ll_empty.

(** The Python lists of nodes ([nodes], [nodes_being_relocated], the values of [self._kvpair_elements]) are objects that
    are changed in place under several names (the list stored in the dict is handed out by _nodes_being_relocated and
    changed by its callers): references into a store of lists, threaded as hidden state.  A new list gets the next
    reference; nothing is ever freed. *)
Definition nlref := N.
Definition nlstore := list (list id).
Definition nl_get (s : nlstore) (r : nlref) : option (list id) := nth_error s (N.to_nat r).
Fixpoint nl_set_nth (s : nlstore) (n : nat) (l : list id) : nlstore :=
  match s, n with
  | [], _ => []
  | _ :: s', O => l :: s'
  | a :: s', S n' => a :: nl_set_nth s' n' l
  end.
Definition nl_set (s : nlstore) (r : nlref) (l : list id) : nlstore := nl_set_nth s (N.to_nat r) l.
Definition nl_upd (s : nlstore) (r : nlref) (f : list id -> result (list id)) : mres unit nlstore :=
  match nl_get s r with
  | None => MErr OtherError s
  | Some l => match f l with Ok l' => MOk tt (nl_set s r l') | Err e => MErr e s end
  end.
Definition nl_look {A} (s : nlstore) (r : nlref) (f : list id -> result A) : result A :=
  match nl_get s r with None => Err OtherError | Some l => f l end.

(** [[]] / [[node]] *)
Definition trp_nl_new (s : nlstore) (l : list id) : mres nlref nlstore := MOk (N.of_nat (length s)) (s ++ [l]).
(** [l.append(x)], [l.remove(x)] (ValueError; nodes are compared by identity), [l.insert(0, x)] *)
Definition trp_nl_append (s : nlstore) (r : nlref) (x : id) : mres unit nlstore := nl_upd s r (fun l => Ok (l ++ [x])).
Fixpoint nl_remove_first (x : id) (l : list id) : option (list id) :=
  match l with
  | [] => None
  | a :: l' => if Pos.eqb a x then Some l'
               else match nl_remove_first x l' with Some r => Some (a :: r) | None => None end
  end.
Definition trp_nl_remove (s : nlstore) (r : nlref) (x : id) : mres unit nlstore :=
  nl_upd s r (fun l => match nl_remove_first x l with Some l' => Ok l' | None => Err ValueError end).
Definition trp_nl_insert0 (s : nlstore) (r : nlref) (x : id) : mres unit nlstore := nl_upd s r (fun l => Ok (x :: l)).
(** [len(l)], [l[i]] (IndexError), [for x in l], [reversed(l)], [x in l] *)
Definition trp_nl_len (s : nlstore) (r : nlref) : result Z := nl_look s r (fun l => Ok (tr_len l)).
Definition trp_nl_getitem (s : nlstore) (r : nlref) (i : Z) : result id := nl_look s r (fun l => tr_index l i).
Definition trp_nl_iter (s : nlstore) (r : nlref) : result (list id) := nl_look s r (fun l => Ok l).
Definition trp_nl_reversed (s : nlstore) (r : nlref) : result (list id) := nl_look s r (fun l => Ok (rev l)).
Definition trp_nl_mem (s : nlstore) (r : nlref) (x : id) : result bool :=
  nl_look s r (fun l => Ok (existsb (Pos.eqb x) l)).

(** [self._kvpair_elements] of the duplicates class: dict _strI -> list object (keyed by the lowered name) *)
Definition kvdd := tbl nlref.
Definition trp_kvdd_get (lower : str -> str) (d : kvdd) (k : stri) : result nlref :=
  match t_get (lower k) d with Some v => Ok v | None => Err KeyError end.
Definition trp_kvdd_mem (lower : str -> str) (d : kvdd) (k : stri) : bool := t_mem (lower k) d.
Definition trp_kvdd_set (lower : str -> str) (d : kvdd) (k : stri) (v : nlref) : unit * kvdd := (tt, t_set (lower k) v d).
Definition trp_kvdd_bool (d : kvdd) : bool := negb (tr_is_nil d).
Definition trp_kvdd_empty : kvdd := [].

(** _resolve_to_single_node(nodes, key, index, name_token) with use_get=False and without a name token: the model's
    [Doc.resolve_single] (AmbiguousDeb822FieldKeyError is a KeyError), on the list object *)
Definition trp_resolve_to_single_node (s : nlstore) (nodes : nlref) (key : stri) (index : option Z)
           (tok : option nametoken) : result (option id) :=
  nl_look s nodes (fun l =>
    let idx' := match index with
                | Some i => Some i
                | None => match l with [_] => Some 0 | _ => None end
                end in
    match idx' with
    | None => Err KeyError
    | Some i => match Doc.py_index l i with Some n => Ok (Some n) | None => Err KeyError end
    end).

(** [sorted(ll, key=_actual_key)] with [_actual_key(kvpair) = key_impl(kvpair.field_name)]: every key is computed
    first (left to right), then the elements are sorted stably by them *)
Definition trp_sorted_ll (hp : heap) (kvs : kvstore) (ll : llobj) (k : trp_sortkey) : result (list kvelem) :=
  match trp_ll_iter hp ll with
  | Err e => Err e
  | Ok kvl =>
      match tr_mapM (trp_kv_field_name kvs) kvl with
      | Err e => Err e
      | Ok names =>
          Ok (map snd (StructSort.sort_by (StructSort.k_leb (StructSort.keyfn_of k))
                         (fun p : stri * kvelem => StructSort.k_of (StructSort.keyfn_of k) (fst p))
                         (combine names kvl)))
      end
  end.

(** * Deb822FileElement.append / insert.

    [self._token_and_elements] is a LinkedList of the top-level tokens and elements: the record of its attributes, its
    methods C09's regenerated functions (as above).  A token / element is an object with identity (a paragraph is changed
    in place by _ensure_final_newline; parent_element is assigned): a reference [itref] into a store of the model's
    [item]s (Repro/Doc.v: Para p | Other kind text) together with the parent pointer, which the model does not have.
    New objects (Deb822WhitespaceToken('\n')) get the next reference.  There is one file object. *)
Definition itref := str.
Definition fileref := unit.
Definition trp_self : fileref := tt.
Definition trp_file_eqb (a b : fileref) : bool := true.
Definition trp_ofile_eqb (a b : option fileref) : bool :=
  match a, b with Some _, Some _ | None, None => true | _, _ => false end.

Record itcell := mkIt { it_item : Doc.item; it_parent : option fileref }.
Definition itstore := list itcell.
Definition it_ref (n : nat) : itref := [N.of_nat n].
Definition it_get (s : itstore) (r : itref) : option itcell :=
  match r with [n] => nth_error s (N.to_nat n) | _ => None end.
Fixpoint it_set_nth (s : itstore) (n : nat) (c : itcell) : itstore :=
  match s, n with
  | [], _ => []
  | _ :: s', O => c :: s'
  | a :: s', S n' => a :: it_set_nth s' n' c
  end.
Definition it_set (s : itstore) (r : itref) (c : itcell) : itstore :=
  match r with [n] => it_set_nth s (N.to_nat n) c | _ => s end.
Definition it_upd (s : itstore) (r : itref) (f : itcell -> itcell) : mres unit itstore :=
  match it_get s r with Some c => MOk tt (it_set s r (f c)) | None => MErr OtherError s end.
Definition it_look {A} (s : itstore) (r : itref) (f : itcell -> A) : result A :=
  match it_get s r with Some c => Ok (f c) | None => Err OtherError end.

(** [x.parent_element] / [x.parent_element = p] *)
Definition trp_item_parent (s : itstore) (r : itref) : result (option fileref) := it_look s r it_parent.
Definition trp_item_set_parent (s : itstore) (r : itref) (p : option fileref) : mres unit itstore :=
  it_upd s r (fun c => mkIt (it_item c) p).
(** [x.convert_to_text()], [isinstance(x, Deb822ParagraphElement)], [isinstance(x, Deb822WhitespaceToken)] *)
Definition trp_item_text (s : itstore) (r : itref) : result str := it_look s r (fun c => Doc.item_text (it_item c)).
Definition trp_item_is_para (s : itstore) (r : itref) : result bool :=
  it_look s r (fun c => match it_item c with Doc.Para _ => true | _ => false end).
Definition trp_item_is_ws (s : itstore) (r : itref) : result bool := it_look s r (fun c => Struct.item_is_ws (it_item c)).
(** [paragraph._ensure_final_newline()]: the model's [ensure_item] *)
Definition trp_item_ensure_nl (s : itstore) (r : itref) : mres unit itstore :=
  it_upd s r (fun c => mkIt (Struct.ensure_item (it_item c)) (it_parent c)).
(** [Deb822WhitespaceToken(text)]: a new whitespace token without a parent *)
Definition trp_new_ws_token (s : itstore) (text : str) : mres itref itstore :=
  MOk (it_ref (length s)) (s ++ [mkIt (Doc.Other Doc.OWs text) None]).
(** [s.endswith(suffix)] *)
Definition trp_endswith (s suffix : str) : bool := endswith suffix s.

Definition trp_ll_insert_before (hp : heap) (ll : llobj) (v : itref) (existing : id) :=
  ll_run (fun h hd tl z => tr_ll_insert_before h hd tl z v existing) hp ll.
(** [ll.tail] (a property: the value of the tail node) *)
Definition trp_ll_tail_value (hp : heap) (ll : llobj) : result (option itref) := ll_read tr_ll_tail hp ll.

(** for the regenerated _resolve_to_single_node: [len(nodes)] as a total function (in an exception message and a test;
    0 on a dangling reference), [msg.format(..)] (the text of an exception message is never observed), and
    _find_node_via_name_token (no name token exists in the model) *)
Definition trp_nl_len_total (s : nlstore) (r : nlref) : Z :=
  match nl_get s r with Some l => tr_len l | None => 0 end.
Definition trp_fmt3 (msg : str) (key : stri) (a b : Z) : str := msg.
Definition trp_fmt2 (msg : str) (key : stri) (a : Z) : str := msg.
Definition trp_find_node_via_name_token (t : nametoken) (nodes : nlref) : option id := match t with end.
