(** parse_dump_abs applied to Deb822FileElement.append / insert (C10 insert_append_no_merge):
    a FRESH PARSE of the dump after appending or inserting a paragraph shows one more paragraph,
    equal to the new one, at the right place; the others are as they were (the last one with its
    missing final newline supplied when something is appended after it).

    The separators [f_append] / [f_insert] choose are newline tokens; next to existing blank lines
    they are one run of blank lines for the parser ([squash]).  Repeated field names are allowed
    here (accepting mode; the class of every paragraph is the parser's own choice [from_kvpairs]). *)
From Coq Require Import Lia ZifyBool.
From Verif Require Import Repro.DocSpec.
From Verif Require Import Lib.Base Lib.PyStr Gen.PyChars Repro.Doc Repro.DocInv Repro.DocDup
  Repro.DocProofs Repro.Abs Repro.ParseDumpAbs Repro.ParseDumpAbsEdits.
From Verif Require Import Repro.StructSort Repro.Struct Repro.StructSpec Repro.StructLemmas Repro.StructProofs.

(** * The fresh parse of a shaped document, any names *)

Record good (d : doc) : Prop := mkGood {
  g_wf : forallb para_wf (paras d) = true;
  g_lines : DocInv.lines_ok d = true;
  g_shape : doc_shape d = true
}.

Theorem good_reparse d : good d -> py_reparse (dump d) = Ok (norm_doc (squash d)).
Proof.
  intros [Hwf Hl Hs]. rewrite <- (dump_squash d). apply py_parse_dump_abs.
  - now apply forallb_paras_squash.
  - now apply lines_ok_squash.
  - now apply squash_canon.
Qed.

Lemma paras_norm_squash d :
  paras (norm_doc (squash d))
  = map (fun q => Doc.from_kvpairs (para_fields q)) (filter nonempty_para (paras d)).
Proof.
  induction d as [|it d IH]; [reflexivity|]. cbn [squash]. destruct it as [p|[] t].
  - change (paras (Para p :: d)) with (p :: paras d). cbn [filter]. unfold nonempty_para at 1.
    destruct (Doc.is_nil (para_fields p)); cbn [negb]; [exact IH|].
    change (paras (norm_doc (Para p :: squash d)))
      with (Doc.from_kvpairs (para_fields p) :: paras (norm_doc (squash d))).
    cbn [map]. f_equal. exact IH.
  - change (paras (Other OWs t :: d)) with (paras d). rewrite <- IH.
    destruct (squash d) as [|[q|[] t2] r']; try reflexivity.
    now destruct (ends_nl t2).
  - exact IH.
  - exact IH.
Qed.

Lemma fields_norm_squash d :
  forallb nonempty_para (paras d) = true ->
  map para_fields (paras (norm_doc (squash d))) = map para_fields (paras d).
Proof.
  intros H. rewrite paras_norm_squash.
  assert (E : filter nonempty_para (paras d) = paras d).
  { induction (paras d) as [|q l IH]; [reflexivity|]. cbn [forallb filter] in *.
    apply andb_true_iff in H. destruct H as [Hq H]. now rewrite Hq, IH. }
  rewrite E, map_map. apply map_ext. intros q. apply from_kvpairs_wf.
Qed.

(** * Building shaped documents *)

Definition all_closed (d : doc) : bool := forallb (fun x => item_closed x && item_inner x) d.

Lemma lines_ok_snoc a it :
  DocInv.lines_ok (a ++ [it]) = all_closed a && item_inner it.
Proof. rewrite lines_ok_app. cbn [Doc.is_nil orb DocInv.lines_ok andb]. now rewrite andb_true_r. Qed.

Lemma all_closed_lines_ok d : all_closed d = true -> DocInv.lines_ok d = true.
Proof.
  induction d as [|it d IH]; [trivial|]. unfold all_closed. cbn [forallb]. intros H.
  apply andb_true_iff in H. destruct H as [H1 H2]. apply andb_true_iff in H1. destruct H1 as [H1 H1'].
  cbn [DocInv.lines_ok]. rewrite H1, H1', (IH H2). now rewrite orb_true_r.
Qed.

Lemma all_closed_app a b : all_closed (a ++ b) = all_closed a && all_closed b.
Proof. apply forallb_app. Qed.

Lemma doc_shape_app a b :
  doc_shape a = true -> doc_shape b = true ->
  match last_opt a, b with Some x, y :: _ => adj_shape x y | _, _ => true end = true ->
  doc_shape (a ++ b) = true.
Proof.
  induction a as [|x a IH]; intros Ha Hb Hadj; [exact Hb|].
  apply doc_shape_cons in Ha. destruct Ha as [H1 [H2 H3]].
  cbn [app doc_shape]. rewrite H1. cbn [andb].
  destruct a as [|y a].
  - cbn [app last_opt] in *. rewrite Hb, andb_true_r. destruct b; [reflexivity|exact Hadj].
  - cbn [app]. rewrite H2. cbn [andb]. apply IH; [exact H3|exact Hb|exact Hadj].
Qed.

Lemma doc_shape_app_l a b : doc_shape (a ++ b) = true -> doc_shape a = true.
Proof.
  induction a as [|x a IH]; [reflexivity|]. cbn [app]. intros H.
  apply doc_shape_cons in H. destruct H as [H1 [H2 H3]]. cbn [doc_shape].
  rewrite H1, (IH H3), andb_true_r. cbn [andb]. destruct a; [reflexivity|exact H2].
Qed.

Lemma doc_shape_app_r a b : doc_shape (a ++ b) = true -> doc_shape b = true.
Proof.
  induction a as [|x a IH]; [trivial|]. cbn [app]. intros H.
  apply doc_shape_cons in H. now apply IH.
Qed.

Lemma doc_shape_adj a x y b : doc_shape (a ++ x :: y :: b) = true -> adj_shape x y = true.
Proof. intros H. apply doc_shape_app_r in H. apply doc_shape_cons in H. now destruct H as [_ [H _]]. Qed.

Definition p_ok (p : para) : Prop :=
  para_wf p = true /\ fields_closed (para_fields p) = true /\ para_fields p <> [].

Lemma forallb_paras_app (P : para -> bool) a b :
  forallb P (paras (a ++ b)) = forallb P (paras a) && forallb P (paras b).
Proof. now rewrite paras_app, forallb_app. Qed.

Lemma WSNL_shape : item_shape WSNL = true.
Proof. reflexivity. Qed.

(** [a ++ sep ++ [Para p]] at the end of a document whose items are all terminated *)
Lemma good_snoc a (sep : bool) p :
  good a -> all_closed a = true -> p_ok p ->
  (sep = false -> match last_opt a with Some (Other OWs _) | None => True | _ => False end) ->
  good (a ++ (if sep then [WSNL] else []) ++ [Para p]).
Proof.
  intros [Hwf Hl Hs] Hc [Hp1 [Hp2 Hp3]] Hsep.
  assert (Hinner : item_inner (Para p) = true).
  { cbn [item_inner]. unfold fields_closed in *. now apply forallb_removelast. }
  split.
  - rewrite forallb_paras_app, Hwf.
    assert (E : paras ((if sep then [WSNL] else []) ++ [Para p]) = [p]) by now destruct sep.
    rewrite E. cbn [forallb]. now rewrite Hp1.
  - rewrite app_assoc, lines_ok_snoc, Hinner, andb_true_r, all_closed_app, Hc.
    now destruct sep.
  - apply doc_shape_app; [exact Hs| |].
    + destruct sep; reflexivity.
    + destruct (last_opt a) as [x|] eqn:El; [|reflexivity]. destruct sep; cbn [app].
      * now destruct x as [q|[] t].
      * specialize (Hsep eq_refl). destruct x as [q|[] t]; try contradiction. reflexivity.
Qed.

(** [a ++ Para p :: WSNL :: b]: the new paragraph with its newline token in front of [b] *)
Lemma good_insert a p b :
  good (a ++ b) -> p_ok p ->
  match b with Para _ :: _ => True | [] => False | _ => a = [] end ->
  good (a ++ Para p :: WSNL :: b).
Proof.
  intros [Hwf Hl Hs] [Hp1 [Hp2 Hp3]] Hb.
  assert (Hb' : b <> []) by (destruct b; [contradiction|discriminate]).
  split.
  - rewrite forallb_paras_app in *. apply andb_true_iff in Hwf. destruct Hwf as [Ha Hbw].
    rewrite Ha. cbn [paras flat_map app forallb]. rewrite Hp1. exact Hbw.
  - destruct b as [|y b]; [congruence|]. rewrite lines_ok_app in *.
    apply andb_true_iff in Hl. destruct Hl as [Hla Hlb]. rewrite Hla. cbn [andb Doc.is_nil orb].
    cbn [item_closed item_inner]. rewrite Hp2. unfold fields_closed in *.
    rewrite (forallb_removelast _ _ Hp2). cbn [andb]. cbn [DocInv.lines_ok Doc.is_nil orb item_closed item_inner closed ends_nl last_opt].
    change ((LF =? LF)%N) with true. cbn [orb andb]. exact Hlb.
  - apply doc_shape_app.
    + now apply doc_shape_app_l in Hs.
    + cbn [doc_shape]. rewrite (doc_shape_app_r _ _ Hs). destruct b; [congruence|]. reflexivity.
    + destruct (last_opt a) as [x|] eqn:El; [|reflexivity].
      apply last_opt_in in El. destruct El as [a0 ->].
      destruct b as [|[q|k t] b]; [contradiction| |destruct a0; discriminate Hb].
      rewrite <- app_assoc in Hs. cbn [app] in Hs. apply doc_shape_adj in Hs.
      unfold adj_shape in *. now destruct x as [?|[] ?].
Qed.

(** ** the tail of a document *)
Definition tail_ok (d : doc) : bool :=
  match last_opt d with Some (Other _ t) => ends_nl t | _ => true end.

Lemma fields_closed_text_inv fs :
  forallb rest_colon fs = true -> fields_closed (removelast fs) = true ->
  (fs = [] \/ ends_nl (ftext fs) = true) -> fields_closed fs = true.
Proof.
  intros Hrc Hin Hend. destruct (list_snoc_cases fs) as [->|[l [f ->]]]; [reflexivity|].
  rewrite removelast_last in Hin. unfold fields_closed in *. rewrite forallb_app, Hin.
  cbn [forallb andb]. rewrite andb_true_r. destruct Hend as [E|E]; [destruct l; discriminate|].
  rewrite forallb_app in Hrc. apply andb_true_iff in Hrc. destruct Hrc as [_ Hf].
  cbn [forallb] in Hf. rewrite andb_true_r in Hf.
  rewrite ftext_app, ftext_one in E.
  rewrite ends_nl_app in E by now apply field_text_nonempty.
  unfold fclosed. now rewrite <- ends_nl_field_text by now apply rest_colon_nonempty.
Qed.

Lemma good_all_closed_butlast a t : good (a ++ [t]) -> all_closed a = true.
Proof. intros [_ Hl _]. rewrite lines_ok_snoc in Hl. apply andb_true_iff in Hl. apply Hl. Qed.

Lemma good_tail_closed a t :
  good (a ++ [t]) -> ends_nl (item_text t) = true -> all_closed (a ++ [t]) = true.
Proof.
  intros Hg He. pose proof (good_all_closed_butlast a t Hg) as Ha.
  destruct Hg as [Hwf Hl Hs]. rewrite lines_ok_snoc in Hl. apply andb_true_iff in Hl.
  destruct Hl as [_ Hin]. rewrite all_closed_app, Ha. cbn [all_closed forallb andb].
  rewrite Hin, !andb_true_r. destruct t as [q|k t]; cbn [item_closed item_text] in *.
  - rewrite para_text_ftext in He. apply fields_closed_text_inv; [|exact Hin|now right].
    rewrite forallb_paras_app in Hwf. apply andb_true_iff in Hwf. destruct Hwf as [_ Hq].
    cbn [paras flat_map app forallb] in Hq. rewrite andb_true_r in Hq. now apply para_wf_rest_colon.
  - now apply ends_nl_closed.
Qed.

Lemma removelast_map_last {A} (g : A -> A) l : removelast (map_last g l) = removelast l.
Proof.
  destruct (list_snoc_cases l) as [->|[a [x ->]]]; [reflexivity|].
  now rewrite StructLemmas.map_last_snoc, !removelast_last.
Qed.

Lemma good_ensure a q :
  good (a ++ [Para q]) ->
  good (a ++ [Para (p_ensure_nl q)]) /\ all_closed (a ++ [Para (p_ensure_nl q)]) = true.
Proof.
  intros Hg. pose proof (good_all_closed_butlast a _ Hg) as Ha. destruct Hg as [Hwf Hl Hs].
  rewrite lines_ok_snoc in Hl. apply andb_true_iff in Hl. destruct Hl as [_ Hin].
  cbn [item_inner] in Hin.
  rewrite forallb_paras_app in Hwf. apply andb_true_iff in Hwf. destruct Hwf as [Hwa Hq].
  cbn [paras flat_map app forallb] in Hq. rewrite andb_true_r in Hq.
  assert (Hcl : fields_closed (para_fields (p_ensure_nl q)) = true).
  { rewrite para_fields_ensure. now apply fields_closed_map_last. }
  assert (Hin' : item_inner (Para (p_ensure_nl q)) = true).
  { cbn [item_inner]. unfold fields_closed in *. now apply forallb_removelast. }
  split; [split|].
  - rewrite forallb_paras_app, Hwa. cbn [paras flat_map app forallb]. rewrite andb_true_r.
    unfold para_wf. rewrite para_fields_ensure. now apply forallb_field_wf_map_last.
  - now rewrite lines_ok_snoc, Ha, Hin'.
  - now apply (doc_shape_replace a q [] (p_ensure_nl q)).
  - rewrite all_closed_app, Ha. cbn [all_closed forallb item_closed]. now rewrite Hcl, Hin'.
Qed.

(** * append *)

Lemma last_opt_snoc' {A} (a : list A) x : last_opt (a ++ [x]) = Some x.
Proof. apply DocProofs.last_opt_app. Qed.

Lemma f_append_good d p :
  good d -> tail_ok d = true -> p_ok p ->
  good (f_append d p)
  /\ map para_fields (paras (f_append d p))
     = map para_fields (paras (map_last ensure_item d)) ++ [para_fields p].
Proof.
  intros Hg Ht Hp. unfold f_append.
  destruct (list_snoc_cases d) as [->|[a [t ->]]].
  - cbn [last_opt app map_last paras flat_map map]. split; [|reflexivity].
    apply (good_snoc [] false p); [exact Hg|reflexivity|exact Hp|]. intros _. exact I.
  - rewrite last_opt_snoc'. rewrite StructLemmas.map_last_snoc.
    unfold tail_ok in Ht. rewrite last_opt_snoc' in Ht.
    destruct (ends_nl (item_text t)) eqn:Et.
    + pose proof (good_tail_closed a t Hg Et) as Hc.
      assert (Hens : map para_fields (paras (a ++ [ensure_item t])) = map para_fields (paras (a ++ [t]))).
      { rewrite !paras_app, !map_app. f_equal. destruct t as [q|k s]; [|reflexivity].
        cbn [ensure_item paras flat_map app map]. f_equal. rewrite para_fields_ensure.
        apply map_last_closed. rewrite all_closed_app in Hc. apply andb_true_iff in Hc.
        destruct Hc as [_ Hc]. cbn [all_closed forallb item_closed] in Hc.
        rewrite andb_true_r in Hc. apply andb_true_iff in Hc. apply Hc. }
      rewrite Hens. destruct (item_is_ws t) eqn:Ews.
      * split.
        -- apply (good_snoc (a ++ [t]) false p); try assumption. intros _.
           rewrite last_opt_snoc'. destruct t as [q|[] s]; try discriminate. exact I.
        -- rewrite paras_app, map_app. reflexivity.
      * split.
        -- rewrite <- app_assoc. apply (good_snoc (a ++ [t]) true p); try assumption. discriminate.
        -- rewrite !paras_app, !map_app. cbn [paras flat_map app map]. now rewrite app_nil_r.
    + destruct t as [q|k s]; [|cbn [item_text] in Et; congruence].
      cbn [item_is_ws ensure_item]. destruct (good_ensure a q Hg) as [Hg' Hc'].
      split.
      * rewrite <- app_assoc. apply (good_snoc (a ++ [Para (p_ensure_nl q)]) true p); try assumption.
        discriminate.
      * rewrite !paras_app, !map_app. cbn [paras flat_map app map]. now rewrite app_nil_r.
Qed.

(** * insert *)

Lemma ins_walk_para d : forall idx i p r, (i <= idx)%Z ->
  ins_walk d idx i p = Some r ->
  exists a q b, d = a ++ Para q :: b /\ r = a ++ Para p :: WSNL :: Para q :: b
                /\ Z.of_nat (length (paras a)) = (idx - i)%Z.
Proof.
  induction d as [|it d IH]; intros idx i p r Hle H; [discriminate|].
  cbn [ins_walk] in H. destruct it as [q|k t].
  - destruct (idx =? i + 1 - 1)%Z eqn:E.
    + injection H as <-. apply Z.eqb_eq in E. exists [], q, d. repeat split. cbn. lia.
    + apply Z.eqb_neq in E.
      destruct (ins_walk d idx (i + 1) p) as [r'|] eqn:Er; [|discriminate]. injection H as <-.
      destruct (IH idx (i + 1)%Z p r' ltac:(lia) Er) as [a [q' [b [-> [-> Hn]]]]].
      exists (Para q :: a), q', b. repeat split.
      change (paras (Para q :: a)) with (q :: paras a). cbn [length]. lia.
  - destruct (idx =? i - 1)%Z eqn:E; [apply Z.eqb_eq in E; lia|].
    destruct (ins_walk d idx i p) as [r'|] eqn:Er; [|discriminate]. injection H as <-.
    destruct (IH idx i p r' Hle Er) as [a [q' [b [-> [-> Hn]]]]].
    exists (Other k t :: a), q', b. repeat split. exact Hn.
Qed.

Lemma ins_walk_none d : forall idx i p, (i <= idx)%Z ->
  ins_walk d idx i p = None -> (Z.of_nat (length (paras d)) <= idx - i)%Z.
Proof.
  intros idx i p Hle H. pose proof (ins_walk_spec d idx i p Hle) as S. rewrite H in S.
  now rewrite count_paras_abs in S.
Qed.

Lemma firstn_paras_app a q b :
  firstn (length (paras a)) (map para_fields (paras (a ++ Para q :: b))) = map para_fields (paras a)
  /\ skipn (length (paras a)) (map para_fields (paras (a ++ Para q :: b)))
     = map para_fields (paras (Para q :: b)).
Proof.
  rewrite paras_app, map_app.
  assert (E : length (paras a) = length (map para_fields (paras a))) by now rewrite map_length.
  rewrite E. split.
  - rewrite firstn_app, Nat.sub_diag, firstn_all. cbn [firstn]. apply app_nil_r.
  - rewrite skipn_app, Nat.sub_diag, skipn_all. reflexivity.
Qed.

Lemma f_insert_good d i p :
  good d -> tail_ok d = true -> p_ok p -> (0 <= i)%Z ->
  good (f_insert d i p)
  /\ map para_fields (paras (f_insert d i p))
     = let L := map para_fields (paras d) in
       let n := Z.to_nat i in
       if (i =? 0)%Z || (n <? length L)%nat
       then firstn n L ++ para_fields p :: skipn n L
       else map para_fields (paras (map_last ensure_item d)) ++ [para_fields p].
Proof.
  intros Hg Ht Hp Hi. unfold f_insert. cbv zeta. destruct (i =? 0)%Z eqn:E0.
  - apply Z.eqb_eq in E0. subst i. cbn [orb Z.to_nat firstn skipn app].
    destruct d as [|it d].
    + destruct (f_append_good [] p Hg Ht Hp) as [G E]. split; [exact G|]. rewrite E. reflexivity.
    + split.
      * apply (good_insert [] p (it :: d)); [exact Hg|exact Hp|]. now destruct it.
      * reflexivity.
  - apply Z.eqb_neq in E0. cbn [orb]. rewrite map_length.
    destruct (ins_walk d i 0 p) as [r|] eqn:Ew.
    + destruct (ins_walk_para d i 0 p r ltac:(lia) Ew) as [a [q [b [-> [-> Hn]]]]].
      rewrite Z.sub_0_r in Hn.
      assert (En : Z.to_nat i = length (paras a)) by lia.
      assert (Elt : (Z.to_nat i <? length (paras (a ++ Para q :: b)))%nat = true).
      { apply Nat.ltb_lt. rewrite paras_app, app_length. cbn [paras flat_map app length]. lia. }
      rewrite Elt. split.
      * apply good_insert; [exact Hg|exact Hp|exact I].
      * rewrite En. destruct (firstn_paras_app a q b) as [-> ->].
        rewrite !paras_app, !map_app. reflexivity.
    + pose proof (ins_walk_none d i 0 p ltac:(lia) Ew) as Hn. rewrite Z.sub_0_r in Hn.
      assert (Elt : (Z.to_nat i <? length (paras d))%nat = false) by (apply Nat.ltb_ge; lia).
      rewrite Elt. now apply f_append_good.
Qed.

(** * C10 insert_append_no_merge *)

Lemma good_of_canon d :
  forallb para_wf (paras d) = true -> DocInv.lines_ok d = true -> doc_canon d = true -> good d.
Proof. intros H1 H2 H3. split; [exact H1|exact H2|now apply doc_canon_shape]. Qed.

Lemma canon_paras_nonempty d : doc_canon d = true -> forallb nonempty_para (paras d) = true.
Proof.
  induction d as [|it d IH]; [trivial|]. intros H. apply doc_canon_cons in H.
  destruct H as [H1 [_ H3]]. destruct it as [p|k t].
  - change (paras (Para p :: d)) with (p :: paras d). cbn [forallb]. rewrite (IH H3), andb_true_r.
    exact H1.
  - exact (IH H3).
Qed.

Lemma nonempty_ensure_last d :
  forallb nonempty_para (paras d) = true ->
  forallb nonempty_para (paras (map_last ensure_item d)) = true.
Proof.
  intros H. destruct (list_snoc_cases d) as [->|[a [t ->]]]; [reflexivity|].
  rewrite StructLemmas.map_last_snoc. rewrite forallb_paras_app in *.
  apply andb_true_iff in H. destruct H as [Ha Ht]. rewrite Ha. destruct t as [q|k s]; [|reflexivity].
  cbn [ensure_item paras flat_map app forallb] in *. rewrite andb_true_r in *.
  unfold nonempty_para in *. rewrite para_fields_ensure. unfold nl.
  destruct (para_fields q) as [|f [|g fs]]; [discriminate|reflexivity|reflexivity].
Qed.

(** the paragraphs of a document, as field lists, all non-empty *)
Definition fields_of (d : doc) : list (list field) := map para_fields (paras d).

Lemma nonempty_paras_fields d :
  forallb nonempty_para (paras d) = forallb (fun fs => negb (Doc.is_nil fs)) (fields_of d).
Proof. unfold fields_of. now rewrite forallb_map. Qed.

Theorem append_no_merge d p :
  forallb para_wf (paras d) = true -> DocInv.lines_ok d = true -> doc_canon d = true ->
  tail_ok d = true ->
  para_wf p = true -> fields_closed (para_fields p) = true -> para_fields p <> [] ->
  exists dd,
    py_reparse (dump (f_append d p)) = Ok dd
    /\ dd = norm_doc (squash (f_append d p))
    /\ fields_of dd = fields_of (map_last ensure_item d) ++ [para_fields p].
Proof.
  intros H1 H2 H3 Ht Hp1 Hp2 Hp3.
  pose proof (good_of_canon d H1 H2 H3) as Hg.
  destruct (f_append_good d p Hg Ht (conj Hp1 (conj Hp2 Hp3))) as [G E].
  exists (norm_doc (squash (f_append d p))). split; [now apply good_reparse|]. split; [reflexivity|].
  unfold fields_of. rewrite fields_norm_squash; [exact E|].
  rewrite nonempty_paras_fields. unfold fields_of. rewrite E, forallb_app.
  pose proof (nonempty_ensure_last d (canon_paras_nonempty d H3)) as Hn.
  rewrite nonempty_paras_fields in Hn. unfold fields_of in Hn. rewrite Hn. cbn [forallb].
  destruct (para_fields p); [congruence|reflexivity].
Qed.

Lemma forallb_firstn {A} (P : A -> bool) n l : forallb P l = true -> forallb P (firstn n l) = true.
Proof.
  intros H. rewrite forallb_forall in *. intros x Hx. apply H.
  rewrite <- (firstn_skipn n l). apply in_or_app. now left.
Qed.

Lemma forallb_skipn {A} (P : A -> bool) n l : forallb P l = true -> forallb P (skipn n l) = true.
Proof.
  intros H. rewrite forallb_forall in *. intros x Hx. apply H.
  rewrite <- (firstn_skipn n l). apply in_or_app. now right.
Qed.

Theorem insert_no_merge d i p :
  forallb para_wf (paras d) = true -> DocInv.lines_ok d = true -> doc_canon d = true ->
  tail_ok d = true -> (0 <=? i)%Z = true ->
  para_wf p = true -> fields_closed (para_fields p) = true -> para_fields p <> [] ->
  exists dd,
    py_reparse (dump (f_insert d i p)) = Ok dd
    /\ dd = norm_doc (squash (f_insert d i p))
    /\ fields_of dd =
       let L := fields_of d in
       let n := Z.to_nat i in
       if (i =? 0)%Z || (n <? length L)%nat
       then firstn n L ++ para_fields p :: skipn n L
       else fields_of (map_last ensure_item d) ++ [para_fields p].
Proof.
  intros H1 H2 H3 Ht Hi Hp1 Hp2 Hp3. apply Z.leb_le in Hi.
  pose proof (good_of_canon d H1 H2 H3) as Hg.
  destruct (f_insert_good d i p Hg Ht (conj Hp1 (conj Hp2 Hp3)) Hi) as [G E].
  exists (norm_doc (squash (f_insert d i p))). split; [now apply good_reparse|]. split; [reflexivity|].
  unfold fields_of. rewrite fields_norm_squash; [exact E|].
  rewrite nonempty_paras_fields. unfold fields_of. rewrite E. cbv zeta.
  pose proof (canon_paras_nonempty d H3) as Hne. pose proof Hne as Hne'.
  rewrite nonempty_paras_fields in Hne'. unfold fields_of in Hne'.
  assert (Hpn : negb (Doc.is_nil (para_fields p)) = true) by (destruct (para_fields p); [congruence|reflexivity]).
  destruct ((i =? 0)%Z || (Z.to_nat i <? length (map para_fields (paras d)))%nat).
  - rewrite forallb_app. cbn [forallb]. now rewrite forallb_firstn, Hpn, forallb_skipn.
  - rewrite forallb_app.
    pose proof (nonempty_ensure_last d Hne) as Hn.
    rewrite nonempty_paras_fields in Hn. unfold fields_of in Hn. rewrite Hn. cbn [forallb].
    now rewrite Hpn.
Qed.

(** the paragraphs the drivers insert (new_empty_paragraph() followed by p[k] = v for each pair)
    satisfy the hypotheses on the new paragraph *)
Lemma build_para_ok kvs : forall p p',
  para_inv p = true -> para_wf p = true -> fields_closed (para_fields p) = true ->
  build_para kvs p = Ok p' ->
  para_inv p' = true /\ para_wf p' = true /\ fields_closed (para_fields p') = true
  /\ (para_fields p <> [] \/ kvs <> [] -> para_fields p' <> []).
Proof.
  induction kvs as [|[k v] kvs IH]; intros p p' Hinv Hwf Hcl H; cbn [build_para] in H.
  - injection H as <-. repeat split; try assumption. intros [Hn|Hn]; [exact Hn|congruence].
  - apply bind_ok in H. destruct H as [p1 [H1 H2]].
    destruct (op_on_para_spec (OSet 0 (KStr k) v) p p1 Hinv H1) as [Hinv1 He].
    pose proof (setitem_wf p (KStr k) v p1 Hinv Hwf H1) as Hwf1.
    assert (Hin : fields_closed (removelast (para_fields p)) = true).
    { unfold fields_closed in *. now apply forallb_removelast. }
    destruct (para_edit_lines _ _ _ He Hin) as [_ Hcl1]. specialize (Hcl1 Hcl).
    destruct (IH p1 p' Hinv1 Hwf1 Hcl1 H2) as [A [B [C D]]]. repeat split; try assumption.
    intros _. apply D. left. cbn [para_edit] in He. destruct He as [w [orig [_ [Hnew _]]]].
    now apply (new_for_nonempty p (op_key (OSet 0 (KStr k) v)) p1 w orig).
Qed.

Theorem built_para_ok kvs p :
  build_para kvs (PN []) = Ok p -> kvs <> [] ->
  para_wf p = true /\ fields_closed (para_fields p) = true /\ para_fields p <> [].
Proof.
  intros H Hne. destruct (build_para_ok kvs (PN []) p eq_refl eq_refl eq_refl H) as [_ [A [B C]]].
  repeat split; try assumption. apply C. now right.
Qed.
