(** C10 — tie by regeneration for the ORDERING methods of the paragraph classes of debian/_deb822_repro/parsing.py.

    Gen/TrStruct.v is REGENERATED from the working tree on every run (harness/py2coq.py, METHOD + HEAP MODE): the bodies of
    Deb822NoDuplicateFieldsParagraphElement.order_last / order_first / order_before / order_after / sort_fields / iter_keys /
    kvpair_count / contains_kvpair_element / remove_kvpair_element / iter_parts and of
    Deb822ParagraphElement._ensure_final_newline, calling C09's regenerated OrderedSet methods (Gen/TrLinkedList.v).

    The model (Repro/Struct.v: nd_order_last, nd_order_first, nd_order_rel, nd_sort; Repro/Doc.v: nd_remove, nd_get) is at
    LIST level — the fields of a paragraph as a list — while the code works on an OrderedSet of names (a doubly linked
    list of heap nodes plus a lookup table), a dict from names to key-value pair objects, and those objects.  The tie
    is therefore a REFINEMENT through an abstraction relation: [nd_rep hp kvs kvd os fs] = "the state represents the
    list [fs]" (C09's [os_rep] for the linked structure over the names of [fs] in order; the dict maps each lowered
    name to its element; the store maps each element to its field; elements are distinct objects).  For every state
    and list with [nd_rep], each regenerated method ends — normally or by raising — in a state that represents the
    result of the model function on [fs], raising exactly when the model does, with the same kind ([nd_refines]).
    [nd_rep] is a function of the state ([nd_rep_fields]) and every list of fields with pairwise different lowered
    names is represented ([nd_rep_exists]).  The proofs go through C09's tie (Dict/Tie.v: regenerated = pointer-level
    model on all heaps) and C09's list-level characterisations of the pointer-level model (Dict/ProofsOS.v). *)
From Coq Require Import Lia ZArith List Permutation.
From Verif Require Import Lib.Base Lib.PyStr Lib.Tr Dict.Common Dict.Heap Dict.TrPrims Dict.ProofsLL Dict.ProofsOS
  Dict.Tie Gen.TrLinkedList.
From Verif Require Import Repro.Doc Repro.StructSort Repro.Struct Repro.StructSpec Repro.StructLemmas
  Repro.StructSortProofs Repro.StructTrPrims Gen.TrStruct.
Import ListNotations.
Local Open Scope Z_scope.

(** * The OrderedSet object: C09's regenerated methods run on (heap, record) are the model's pointer-level operations *)
Definition lift2 {A} (r : result A * sst) : mres A (heap * osobj) :=
  match r with (Ok a, s) => MOk a s | (Err e, s) => MErr e s end.

Lemma os_pack_st s : os_pack (os_st s) = s.
Proof. destruct s as [h [tb [hd tl sz]]]. unfold os_st, os_pack. cbn. now rewrite Nat2Z.id. Qed.

Lemma os_run_lift {A} f (m : M sst A) hp (os : oset) :
  (forall h tb hd tl sz, f h tb hd tl (Z.of_nat sz) = lift_os (m (h, mkOS tb (mkLL hd tl sz)))) ->
  os_run f hp os = lift2 (m (hp, os)).
Proof.
  intros H. unfold os_run. destruct os as [tb [hd tl sz]]. cbn [os_table os_order ll_head ll_tail ll_size].
  rewrite H. destruct (m _) as [[a|e] s]; cbn [lift_os lift2]; now rewrite os_pack_st.
Qed.

Section L.
Variable lw : str -> str.

Lemma trp_os_order_last_eq hp (os : oset) item :
  trp_os_order_last lw hp os item = lift2 (os_order_last lw item (hp, os)).
Proof. apply os_run_lift. intros. apply tr_os_order_last_eq. Qed.
Lemma trp_os_order_first_eq hp (os : oset) item :
  trp_os_order_first lw hp os item = lift2 (os_order_first lw item (hp, os)).
Proof. apply os_run_lift. intros. apply tr_os_order_first_eq. Qed.
Lemma trp_os_order_before_eq hp (os : oset) item ref :
  trp_os_order_before lw hp os item ref = lift2 (os_order_before lw item ref (hp, os)).
Proof. apply os_run_lift. intros. apply tr_os_order_before_eq. Qed.
Lemma trp_os_order_after_eq hp (os : oset) item ref :
  trp_os_order_after lw hp os item ref = lift2 (os_order_after lw item ref (hp, os)).
Proof. apply os_run_lift. intros. apply tr_os_order_after_eq. Qed.
Lemma trp_os_remove_eq hp (os : oset) item :
  trp_os_remove lw hp os item = lift2 (os_remove lw item (hp, os)).
Proof. apply os_run_lift. intros. apply tr_os_remove_eq. Qed.

Lemma trp_os_iter_rep hp os L : os_rep lw hp os L -> trp_os_iter lw hp os = Ok (map snd L).
Proof.
  intros R. unfold trp_os_iter, os_read. destruct os as [tb [hd tl sz]]. cbn [os_table os_order ll_head ll_tail ll_size].
  pose proof (os_values_spec lw _ _ _ R) as E.
  rewrite (tr_os_iter_eq lw hp tb hd tl sz); rewrite E; reflexivity.
Qed.

Lemma trp_os_new_eq hp items :
  trp_os_new lw hp items = match os_extend lw items (hp, os_empty) with
                           | (Ok _, (h, os)) => MOk os h
                           | (Err e, (h, _)) => MErr e h
                           end.
Proof.
  unfold trp_os_new. rewrite (os_run_lift _ (os_extend lw items)) by (intros; apply tr_os_extend_eq).
  cbv beta. destruct (os_extend lw items _) as [[[]|e] [h os]]; reflexivity.
Qed.
End L.

(** * Representation: a state of a Deb822NoDuplicateFieldsParagraphElement represents a list of fields *)
Record row := mkRow { r_id : id; r_kv : kvelem; r_f : field }.
Definition rowL (r : row) : id * str := (r_id r, f_name (r_f r)).
Definition rowP (r : row) : kvelem * field := (r_kv r, r_f r).
Definition pk (p : kvelem * field) : str := lower (f_name (snd p)).
Definition rk (r : row) : str := lower (f_name (r_f r)).

(** the dict maps each lowered name to its element, the store maps each element to its field; elements are
    distinct objects *)
Record kv_inv (kvs : kvstore) (kvd : kvdict) (P : list (kvelem * field)) : Prop := mkKvInv {
  ki_keys : NoDup (map pk P);
  ki_get : forall kl, t_get kl kvd = option_map fst (afind pk kl P);
  ki_dnd : NoDup (map fst kvd);
  ki_refs : NoDup (map fst P);
  ki_store : Forall (fun p : kvelem * field => t_get (fst p) kvs = Some (snd p)) P;
}.

Definition nd_inv (hp : heap) (kvs : kvstore) (kvd : kvdict) (os : osobj) (R : list row) : Prop :=
  os_rep lower hp os (map rowL R) /\ kv_inv kvs kvd (map rowP R).

Definition nd_rep (hp : heap) (kvs : kvstore) (kvd : kvdict) (os : osobj) (fs : list field) : Prop :=
  exists R, nd_inv hp kvs kvd os R /\ map r_f R = fs.

Lemma map_pk_rowP R : map pk (map rowP R) = map rk R.
Proof. rewrite map_map. reflexivity. Qed.
Lemma map_keyL_rowL R : map (keyL lower) (map rowL R) = map rk R.
Proof. rewrite map_map. reflexivity. Qed.
Lemma map_snd_rowL R : map snd (map rowL R) = map f_name (map r_f R).
Proof. rewrite !map_map. reflexivity. Qed.
Lemma map_snd_rowP R : map snd (map rowP R) = map r_f R.
Proof. rewrite map_map. reflexivity. Qed.
Lemma map_fst_rowP R : map fst (map rowP R) = map r_kv R.
Proof. rewrite map_map. reflexivity. Qed.

Lemma kv_inv_perm kvs kvd P P' : Permutation P P' -> kv_inv kvs kvd P -> kv_inv kvs kvd P'.
Proof.
  intros Hp [K G D Rf S]. constructor.
  - eapply Permutation_NoDup; [|exact K]. now apply Permutation_map.
  - intros kl. rewrite G. f_equal. now apply afind_perm.
  - exact D.
  - eapply Permutation_NoDup; [|exact Rf]. now apply Permutation_map.
  - eapply Permutation_Forall; eauto.
Qed.

(** * The model's list operations on the fields of the rows *)
Lemma map_split_mid {X Y} (g : X -> Y) R a y b :
  map g R = a ++ y :: b -> exists A r B, R = A ++ r :: B /\ map g A = a /\ g r = y /\ map g B = b.
Proof.
  intros E. apply map_eq_app in E. destruct E as (A & R' & -> & <- & E).
  destruct R' as [|r B]; [discriminate|]. cbn in E. inversion E; subst. eauto 8.
Qed.

Lemma forallb_negb_has_name_map n A :
  forallb (fun y => negb (has_name n y)) (map r_f A) = true -> ~ In (lower n) (map rk A).
Proof.
  induction A as [|r A IH]; cbn; [tauto|]. intros H. apply andb_true_iff in H as [H1 H2].
  intros [E|E]; [|now apply IH]. unfold rk in E. rewrite has_name_lower, E, str_eqb_refl in H1. discriminate.
Qed.

Lemma rows_find n R :
  (List.find (has_name n) (map r_f R) = None /\ ~ In (lower n) (map rk R))
  \/ exists A r B, R = A ++ r :: B /\ rk r = lower n
       /\ ~ In (lower n) (map rk A)
       /\ List.find (has_name n) (map r_f R) = Some (r_f r)
       /\ remove_first (has_name n) (map r_f R) = map r_f (A ++ B).
Proof.
  destruct (List.find (has_name n) (map r_f R)) as [f|] eqn:E.
  - right. destruct (find_split _ _ _ E) as (a & b & Es & Hp & Ha).
    destruct (map_split_mid _ _ _ _ _ Es) as (A & r & B & -> & <- & <- & <-).
    exists A, r, B. split; [reflexivity|]. split.
    { rewrite has_name_lower in Hp. now apply str_eqb_eq in Hp. }
    split; [now apply forallb_negb_has_name_map|]. split; [reflexivity|].
    rewrite map_app. cbn [map]. rewrite remove_first_app by assumption. now rewrite map_app.
  - left. split; [reflexivity|]. apply forallb_negb_has_name_map. now apply find_none_forall.
Qed.

Lemma existsb_find_rows n R :
  existsb (has_name n) (map r_f R) = match List.find (has_name n) (map r_f R) with Some _ => true | None => false end.
Proof. apply find_existsb. Qed.

(** the fields with a missing final newline supplied on the last one, on rows *)
Definition row_nl (r : row) : row := mkRow (r_id r) (r_kv r) (add_nl (r_f r)).
Lemma rows_nl_fields R : map r_f (map_last row_nl R) = map_last add_nl (map r_f R).
Proof.
  destruct (list_snoc_cases R) as [->|(a & x & ->)]; [reflexivity|].
  rewrite map_last_snoc, !map_app. cbn [map]. now rewrite map_last_snoc.
Qed.
Lemma rows_nl_L R : map rowL (map_last row_nl R) = map rowL R.
Proof. apply map_last_map. intros r. unfold rowL, row_nl. cbn. now rewrite f_name_add_nl. Qed.
Lemma rows_nl_rk R : map rk (map_last row_nl R) = map rk R.
Proof. apply map_last_map. intros r. unfold rk, row_nl. cbn. now rewrite f_name_add_nl. Qed.

(** * iter_parts, _ensure_final_newline *)
Lemma tr_mapM_map {X A B} (f : A -> result B) (a : X -> A) (b : X -> B) l :
  (forall x, In x l -> f (a x) = Ok (b x)) -> tr_mapM f (map a l) = Ok (map b l).
Proof.
  induction l as [|x l IH]; intros H; cbn [map tr_mapM]; [reflexivity|].
  rewrite (H x (or_introl eq_refl)). cbn [bind]. rewrite IH; [reflexivity|]. intros y Hy. apply H. now right.
Qed.

Lemma kv_get_row kvs kvd R r :
  kv_inv kvs kvd (map rowP R) -> In r R -> trp_kvd_get lower kvd (f_name (r_f r)) = Ok (r_kv r).
Proof.
  intros [K G _ _ _] Hin. unfold trp_kvd_get. rewrite G.
  assert (E : afind pk (lower (f_name (r_f r))) (map rowP R) = Some (rowP r)).
  { apply afind_iff; [exact K|]. split; [now apply in_map|reflexivity]. }
  rewrite E. reflexivity.
Qed.

Lemma tr_nd_iter_parts_rep hp kvs kvd os R :
  nd_inv hp kvs kvd os R -> tr_nd_iter_parts lower hp kvs kvd os = Ok (map r_kv R).
Proof.
  intros [Ro Ki]. unfold tr_nd_iter_parts. rewrite (trp_os_iter_rep _ _ _ _ Ro). cbn [bind].
  rewrite !map_map.
  rewrite (tr_mapM_map _ (fun r => snd (rowL r)) r_kv).
  - reflexivity.
  - intros r Hr. cbn [rowL snd]. now rewrite (kv_get_row _ _ _ _ Ki Hr).
Qed.

Lemma fold_last_opt {A} (it : list A) lk :
  fold_left (fun _ x => Some x) it lk = match last_opt it with Some x => Some x | None => lk end.
Proof.
  revert lk. induction it as [|x it IH]; intros; [reflexivity|]. cbn [fold_left]. rewrite IH.
  destruct it as [|y it]; [reflexivity|]. rewrite (last_opt_cons x (y :: it)) by discriminate.
  destruct (last_opt (y :: it)) eqn:E; [reflexivity|]. apply last_opt_none in E. discriminate.
Qed.

Lemma ensure_loop_last it : forall hp kvs kvd os lk,
  tr_nd_ensure_final_newline_loop1 it lower hp kvs kvd os lk
  = tr_nd_ensure_final_newline_loop1 [] lower hp kvs kvd os (match last_opt it with Some x => Some x | None => lk end).
Proof.
  intros. rewrite <- fold_last_opt. revert lk.
  induction it as [|x it IH]; intros; [reflexivity|]. cbn [fold_left]. rewrite <- IH. reflexivity.
Qed.

Lemma kv_inv_nl kvs kvd A r :
  kv_inv kvs kvd (map rowP (A ++ [r])) ->
  t_get (r_kv r) kvs = Some (r_f r)
  /\ kv_inv (t_set (r_kv r) (add_nl (r_f r)) kvs) kvd (map rowP (A ++ [row_nl r])).
Proof.
  intros [K G D Rf S]. rewrite map_app in *. cbn [map] in *.
  apply Forall_app in S as [SA Sr]. inversion Sr as [|? ? Hr _]; subst. cbn [rowP fst snd] in Hr.
  split; [exact Hr|]. constructor.
  - rewrite map_app in *. cbn [map] in *. unfold pk, rowP, row_nl in *. cbn [snd r_f] in *. now rewrite f_name_add_nl.
  - intros kl. rewrite G, !afind_app. destruct (afind pk kl (map rowP A)); [reflexivity|].
    cbn [afind]. unfold pk, rowP, row_nl. cbn [snd fst r_f r_kv]. rewrite f_name_add_nl.
    destruct (str_eqb kl (lower (f_name (r_f r)))); reflexivity.
  - exact D.
  - rewrite map_app in *. exact Rf.
  - apply Forall_app. split.
    + rewrite map_app in Rf. cbn [map rowP fst] in Rf.
      rewrite Forall_forall in *. intros p Hp. rewrite t_get_set.
      destruct (str_eqb _ _) eqn:E; [|now apply SA].
      apply str_eqb_eq in E. exfalso.
      apply NoDup_remove_2 in Rf. apply Rf. rewrite app_nil_r. rewrite <- E. now apply in_map.
    + constructor; [|constructor]. cbn [rowP row_nl fst snd r_kv r_f]. now rewrite t_get_set, str_eqb_refl.
Qed.

Lemma tr_nd_ensure_rep hp kvs kvd os R :
  nd_inv hp kvs kvd os R ->
  exists kvs', tr_nd_ensure_final_newline lower hp kvs kvd os = MOk tt (hp, kvs', kvd, os)
               /\ nd_inv hp kvs' kvd os (map_last row_nl R).
Proof.
  intros I. pose proof I as [Ro Ki]. unfold tr_nd_ensure_final_newline.
  rewrite (tr_nd_iter_parts_rep _ _ _ _ _ I), ensure_loop_last.
  destruct (list_snoc_cases R) as [->|(A & r & ->)].
  - exists kvs. split; [reflexivity|exact I].
  - rewrite map_app. cbn [map]. rewrite last_opt_snoc. cbn [tr_nd_ensure_final_newline_loop1].
    destruct (kv_inv_nl _ _ _ _ Ki) as [Hg Ki'].
    unfold trp_kv_value_element, trp_ve_add_final_newline. rewrite Hg.
    eexists. split; [reflexivity|]. rewrite map_last_snoc. split; [|exact Ki'].
    rewrite <- (map_last_snoc row_nl), rows_nl_L. exact Ro.
Qed.

(** * OrderedSet operations on a represented set, all cases (list level, from Dict/ProofsOS.v) *)
Section OSCases.
Variable lw : str -> str.
Notation kL := (keyL lw).

Lemma os_lookup_missing' h os L item :
  os_rep lw h os L -> ~ In (lw item) (map kL L) -> os_lookup lw item (h, os) = (Err KeyError, (h, os)).
Proof. intros R Hn. apply (os_lookup_missing lw h os L item R). now apply afind_none. Qed.

Lemma os_lookup_in h os L item j sr :
  os_rep lw h os L -> In (j, sr) L -> lw sr = lw item -> os_lookup lw item (h, os) = (Ok j, (h, os)).
Proof.
  intros R Hin Hk. apply in_split in Hin. destruct Hin as (l1 & l2 & ->).
  now apply (os_lookup_found lw h os l1 j sr l2 item).
Qed.

Lemma os_reorder_missing h os L item reins :
  os_rep lw h os L -> ~ In (lw item) (map kL L) -> os_reorder lw item reins (h, os) = (Err KeyError, (h, os)).
Proof.
  intros R Hn. unfold os_reorder. now rewrite (mbind_err _ _ _ _ _ (os_lookup_missing' _ _ _ _ R Hn)).
Qed.

Lemma os_order_last_found h os l1 i s l2 item :
  os_rep lw h os (l1 ++ (i, s) :: l2) -> lw s = lw item ->
  exists h' os', os_order_last lw item (h, os) = (Ok tt, (h', os'))
                 /\ os_rep lw h' os' ((l1 ++ l2) ++ [(nxt h, s)]).
Proof.
  intros R Hk.
  destruct (os_reorder_spec lw h os l1 i s l2 item ll_append (l1 ++ l2) [] R Hk (app_nil_r _) (reins_append _))
    as (h' & os' & E & R' & _). eauto.
Qed.

Lemma os_order_first_found h os l1 i s l2 item :
  os_rep lw h os (l1 ++ (i, s) :: l2) -> lw s = lw item ->
  exists h' os', os_order_first lw item (h, os) = (Ok tt, (h', os'))
                 /\ os_rep lw h' os' ((nxt h, s) :: l1 ++ l2).
Proof.
  intros R Hk.
  destruct (os_reorder_spec lw h os l1 i s l2 item ll_insert_at_head [] (l1 ++ l2) R Hk eq_refl (reins_head _))
    as (h' & os' & E & R' & _). eauto.
Qed.

Lemma in_mid_without {X} (x y : X) l1 l2 c d : l1 ++ l2 = c ++ y :: d -> In y (l1 ++ x :: l2).
Proof.
  intros E. assert (H : In y (l1 ++ l2)) by (rewrite E; apply in_elt).
  apply in_app_iff in H. apply in_app_iff. cbn. tauto.
Qed.

Lemma os_order_before_found h os l1 i s l2 item ref c j sr d :
  os_rep lw h os (l1 ++ (i, s) :: l2) -> lw s = lw item -> lw item <> lw ref ->
  l1 ++ l2 = c ++ (j, sr) :: d -> lw sr = lw ref ->
  exists h' os', os_order_before lw item ref (h, os) = (Ok tt, (h', os'))
                 /\ os_rep lw h' os' (c ++ (nxt h, s) :: (j, sr) :: d).
Proof.
  intros R Hk Hne Hs Hr. unfold os_order_before. rewrite str_eqb_neq by exact Hne.
  rewrite (mbind_ok _ _ _ _ _ (os_lookup_in _ _ _ ref j sr R (in_mid_without _ _ _ _ _ _ Hs) Hr)).
  destruct (os_reorder_spec lw h os l1 i s l2 item (fun x => ll_insert_before x j) c ((j, sr) :: d) R Hk
              (eq_sym Hs) (reins_before _ _ _ _)) as (h' & os' & E & R' & _). eauto.
Qed.

Lemma os_order_after_found h os l1 i s l2 item ref c j sr d :
  os_rep lw h os (l1 ++ (i, s) :: l2) -> lw s = lw item -> lw item <> lw ref ->
  l1 ++ l2 = c ++ (j, sr) :: d -> lw sr = lw ref ->
  exists h' os', os_order_after lw item ref (h, os) = (Ok tt, (h', os'))
                 /\ os_rep lw h' os' (c ++ (j, sr) :: (nxt h, s) :: d).
Proof.
  intros R Hk Hne Hs Hr. unfold os_order_after. rewrite str_eqb_neq by exact Hne.
  rewrite (mbind_ok _ _ _ _ _ (os_lookup_in _ _ _ ref j sr R (in_mid_without _ _ _ _ _ _ Hs) Hr)).
  destruct (os_reorder_spec lw h os l1 i s l2 item (fun x => ll_insert_after x j) (c ++ [(j, sr)]) d R Hk) as (h' & os' & E & R' & _).
  { rewrite <- app_assoc. exact (eq_sym Hs). }
  { apply reins_after. }
  rewrite <- app_assoc in R'. eauto.
Qed.

Lemma os_lookup_cases h os item :
  (exists j, os_lookup lw item (h, os) = (Ok j, (h, os))) \/ os_lookup lw item (h, os) = (Err KeyError, (h, os)).
Proof.
  unfold os_lookup, mbind, get_table. cbn. destruct (t_get (lw item) (os_table os)) as [j|]; [left; exists j; reflexivity|right; reflexivity].
Qed.

(** order_before / order_after that are refused: the set is as it was *)
Lemma os_order_rel_refused (after : bool) h os L item ref :
  os_rep lw h os L ->
  (lw item = lw ref \/ ~ In (lw ref) (map kL L) \/ ~ In (lw item) (map kL L)) ->
  (if after then os_order_after lw item ref (h, os) else os_order_before lw item ref (h, os))
  = (Err (if str_eqb (lw item) (lw ref) then ValueError else KeyError), (h, os)).
Proof.
  intros R H. assert (G : forall reins,
    (if str_eqb (lw item) (lw ref) then raise ValueError
     else mdo r <- os_lookup lw ref; os_reorder lw item (reins r)) (h, os)
    = (Err (if str_eqb (lw item) (lw ref) then ValueError else KeyError), (h, os))).
  { intros reins. destruct (str_eqb (lw item) (lw ref)) eqn:E; [reflexivity|].
    destruct H as [H|[H|H]].
    - rewrite H, str_eqb_refl in E. discriminate.
    - now rewrite (mbind_err _ _ _ _ _ (os_lookup_missing' _ _ _ _ R H)).
    - destruct (os_lookup_cases h os ref) as [[j Ej]|Ee].
      + rewrite (mbind_ok _ _ _ _ _ Ej). now apply os_reorder_missing with (L := L).
      + now rewrite (mbind_err _ _ _ _ _ Ee). }
  destruct after; [apply (G (fun r x => ll_insert_after x r))|apply (G (fun r x => ll_insert_before x r))].
Qed.
End OSCases.

(** * Refinement: the regenerated method ends in a state that represents the model's result, with the model's
      exception kind *)
Definition ndst := (heap * kvstore * kvdict * osobj)%type.
Definition nd_rep_st (st : ndst) (fs : list field) : Prop :=
  let '(hp, kvs, kvd, os) := st in nd_rep hp kvs kvd os fs.
Definition mres_of {S} (o : option err) (st : S) : mres unit S :=
  match o with None => MOk tt st | Some e => MErr e st end.
Definition nd_refines (r : mres unit ndst) (m : sres (list field)) : Prop :=
  exists st', r = mres_of (fst m) st' /\ nd_rep_st st' (snd m).

Lemma nd_refines_ok hp kvs kvd os fs : nd_rep hp kvs kvd os fs -> nd_refines (MOk tt (hp, kvs, kvd, os)) (ok fs).
Proof. intros H. exists (hp, kvs, kvd, os). split; [reflexivity|exact H]. Qed.
Lemma nd_refines_fail e hp kvs kvd os fs : nd_rep hp kvs kvd os fs -> nd_refines (MErr e (hp, kvs, kvd, os)) (fail e fs).
Proof. intros H. exists (hp, kvs, kvd, os). split; [reflexivity|exact H]. Qed.

(** one row leaves its place and comes back, at a new node, between [Ra] and [Rb] *)
Lemma nd_move hp kvs kvd A r B Ra Rb h' os' :
  kv_inv kvs kvd (map rowP (A ++ r :: B)) -> Ra ++ Rb = A ++ B ->
  os_rep lower h' os' (map rowL Ra ++ (nxt hp, f_name (r_f r)) :: map rowL Rb) ->
  nd_rep h' kvs kvd os' (map r_f Ra ++ r_f r :: map r_f Rb).
Proof.
  intros Ki Hab Ro. exists (Ra ++ mkRow (nxt hp) (r_kv r) (r_f r) :: Rb). split; [|now rewrite map_app].
  split; [now rewrite map_app|].
  eapply kv_inv_perm; [|exact Ki].
  rewrite !map_app. cbn [map]. change (rowP (mkRow (nxt hp) (r_kv r) (r_f r))) with (rowP r).
  etransitivity; [symmetry; apply Permutation_middle|]. etransitivity; [|apply Permutation_middle].
  constructor. rewrite <- !map_app, Hab. reflexivity.
Qed.

Lemma rk_keyL R : map (keyL lower) (map rowL R) = map rk R.
Proof. apply map_keyL_rowL. Qed.

(** ** order_last / order_first *)
Theorem tr_nd_order_last_refines hp kvs kvd os fs k :
  nd_rep hp kvs kvd os fs -> nd_refines (tr_nd_order_last lower hp kvs kvd os k) (nd_order_last fs k).
Proof.
  intros (R & I & <-). unfold tr_nd_order_last, nd_order_last, trp_unpack_key.
  destruct (unpack_key k true) as [[n i]|e]; [|apply nd_refines_fail; now exists R].
  destruct (tr_nd_ensure_rep _ _ _ _ _ I) as (kvs' & E & [Ro Ki]). rewrite E.
  rewrite trp_os_order_last_eq, <- rows_nl_fields. set (R1 := map_last row_nl R) in *.
  unfold nd_reorder, os_order_last.
  destruct (rows_find n R1) as [[Ef Hn]|(A & r & B & ER & Hk & HnA & Ef & Erm)]; rewrite Ef.
  - rewrite (os_reorder_missing lower hp os _ n _ Ro) by (now rewrite rk_keyL).
    apply nd_refines_fail. exists R1. now split.
  - rewrite Erm. rewrite ER in Ro, Ki. rewrite map_app in Ro. cbn [map] in Ro.
    destruct (os_order_last_found lower hp os _ _ _ _ n Ro Hk) as (h' & os' & Eo & Ro').
    unfold os_order_last in Eo. rewrite Eo. cbn [lift2].
    exists (h', kvs', kvd, os'). split; [reflexivity|]. cbn [snd ok nd_rep_st].
    cbn beta. apply (nd_move hp kvs' kvd A r B (A ++ B) [] h' os' Ki (app_nil_r _)).
    rewrite map_app. exact Ro'.
Qed.

Theorem tr_nd_order_first_refines hp kvs kvd os fs k :
  nd_rep hp kvs kvd os fs -> nd_refines (tr_nd_order_first lower hp kvs kvd os k) (nd_order_first fs k).
Proof.
  intros (R & I & <-). unfold tr_nd_order_first, nd_order_first, trp_unpack_key.
  destruct (unpack_key k true) as [[n i]|e]; [|apply nd_refines_fail; now exists R].
  destruct (tr_nd_ensure_rep _ _ _ _ _ I) as (kvs' & E & [Ro Ki]). rewrite E.
  rewrite trp_os_order_first_eq, <- rows_nl_fields. set (R1 := map_last row_nl R) in *.
  unfold nd_reorder, os_order_first.
  destruct (rows_find n R1) as [[Ef Hn]|(A & r & B & ER & Hk & HnA & Ef & Erm)]; rewrite Ef.
  - rewrite (os_reorder_missing lower hp os _ n _ Ro) by (now rewrite rk_keyL).
    apply nd_refines_fail. exists R1. now split.
  - rewrite Erm. rewrite ER in Ro, Ki. rewrite map_app in Ro. cbn [map] in Ro.
    destruct (os_order_first_found lower hp os _ _ _ _ n Ro Hk) as (h' & os' & Eo & Ro').
    unfold os_order_first in Eo. rewrite Eo. cbn [lift2].
    exists (h', kvs', kvd, os'). split; [reflexivity|]. cbn [snd ok nd_rep_st].
    cbn beta. apply (nd_move hp kvs' kvd A r B [] (A ++ B) h' os' Ki eq_refl).
    rewrite map_app. exact Ro'.
Qed.

(** ** order_before / order_after *)
Lemma insert_before_split (p : field -> bool) x c q d :
  forallb (fun y => negb (p y)) c = true -> p q = true -> insert_before p x (c ++ q :: d) = c ++ x :: q :: d.
Proof.
  intros Hc Hq. induction c as [|y c IH]; cbn [app insert_before]; [now rewrite Hq|].
  cbn [forallb] in Hc. apply andb_true_iff in Hc as [Hy Hc]. apply negb_true_iff in Hy. rewrite Hy. now rewrite IH.
Qed.
Lemma insert_after_split (p : field -> bool) x c q d :
  forallb (fun y => negb (p y)) c = true -> p q = true -> insert_after p x (c ++ q :: d) = c ++ q :: x :: d.
Proof.
  intros Hc Hq. induction c as [|y c IH]; cbn [app insert_after]; [now rewrite Hq|].
  cbn [forallb] in Hc. apply andb_true_iff in Hc as [Hy Hc]. apply negb_true_iff in Hy. rewrite Hy. now rewrite IH.
Qed.

Lemma not_in_rk_forallb n A : ~ In (lower n) (map rk A) -> forallb (fun y => negb (has_name n y)) (map r_f A) = true.
Proof.
  induction A as [|r A IH]; cbn [map forallb In]; [reflexivity|]. intros H.
  rewrite IH by tauto. rewrite andb_true_r. apply negb_true_iff. rewrite has_name_lower.
  apply str_eqb_neq. unfold rk in H. tauto.
Qed.

Lemma existsb_has_name_rk n R : existsb (has_name n) (map r_f R) = true <-> In (lower n) (map rk R).
Proof.
  induction R as [|r R IH]; cbn [map existsb In]; [split; [discriminate|tauto]|].
  rewrite orb_true_iff, IH, has_name_lower. unfold rk at 1. rewrite str_eqb_eq. tauto.
Qed.

Definition nd_sub (kvs : kvstore) (kvd : kvdict) (r : mres unit (heap * osobj)) : mres unit ndst :=
  match r with MOk _ (h, o) => MOk tt (h, kvs, kvd, o) | MErr e (h, o) => MErr e (h, kvs, kvd, o) end.

Lemma nd_order_rel_core (after : bool) hp kvs kvd (os : oset) R n rn :
  nd_inv hp kvs kvd os R ->
  nd_refines
    (nd_sub kvs kvd (lift2 ((if after then os_order_after lower n rn else os_order_before lower n rn) (hp, os))))
    (let fs1 := map r_f R in
     if name_eqb n rn then fail ValueError fs1
     else if negb (existsb (has_name rn) fs1) then fail KeyError fs1
     else nd_reorder fs1 n (if after then insert_after (has_name rn) else insert_before (has_name rn))).
Proof.
  intros [Ro Ki]. cbn zeta. unfold name_eqb.
  assert (Refused : (lower n = lower rn \/ ~ In (lower rn) (map rk R) \/ ~ In (lower n) (map rk R)) ->
    nd_refines
      (nd_sub kvs kvd (lift2 ((if after then os_order_after lower n rn else os_order_before lower n rn) (hp, os))))
      (fail (if str_eqb (lower n) (lower rn) then ValueError else KeyError) (map r_f R))).
  { intros H. pose proof (os_order_rel_refused lower after hp os _ n rn Ro) as Er. rewrite rk_keyL in Er.
    specialize (Er H). destruct after; cbv iota in Er |- *; rewrite Er; cbn [lift2 nd_sub]; apply nd_refines_fail; exists R; now split. }
  destruct (str_eqb (lower n) (lower rn)) eqn:Esame.
  { apply str_eqb_eq in Esame. exact (Refused (or_introl Esame)). }
  assert (Hne : lower n <> lower rn) by (intros H; rewrite H, str_eqb_refl in Esame; discriminate).
  destruct (existsb (has_name rn) (map r_f R)) eqn:Eref; cbn [negb].
  2:{ apply Refused. right. left. intros H. apply existsb_has_name_rk in H. congruence. }
  apply existsb_has_name_rk in Eref. unfold nd_reorder.
  destruct (rows_find n R) as [[Ef Hn]|(A & r & B & ER & Hk & HnA & Ef & Erm)]; rewrite Ef.
  { apply Refused. tauto. }
  rewrite Erm.
  (* the reference is among the other rows *)
  assert (Href : In (lower rn) (map rk (A ++ B))).
  { rewrite ER, map_app in Eref. cbn [map] in Eref. rewrite map_app. rewrite in_app_iff in *. cbn [In] in Eref.
    destruct Eref as [H|[H|H]]; [tauto| |tauto]. congruence. }
  destruct (rows_find rn (A ++ B)) as [[_ Hn]|(C & q & D & EAB & Hkq & HnC & _ & _)]; [contradiction|].
  rewrite ER in Ro, Ki. rewrite map_app in Ro. cbn [map] in Ro.
  assert (Hs : map rowL A ++ map rowL B = map rowL C ++ rowL q :: map rowL D).
  { rewrite <- map_app, EAB, map_app. reflexivity. }
  pose proof (not_in_rk_forallb _ _ HnC) as HfC.
  assert (Hq : has_name rn (r_f q) = true) by (rewrite has_name_lower; apply str_eqb_eq; exact Hkq).
  destruct after.
  - destruct (os_order_after_found lower hp os _ _ _ _ n rn _ _ _ _ Ro Hk Hne Hs Hkq) as (h' & os' & Eo & Ro').
    rewrite Eo. cbn [lift2 nd_sub]. exists (h', kvs, kvd, os'). split; [reflexivity|]. cbn [snd ok nd_rep_st].
    rewrite EAB, map_app. cbn [map]. rewrite insert_after_split by assumption.
    change (map r_f C ++ r_f q :: r_f r :: map r_f D) with (map r_f C ++ [r_f q] ++ r_f r :: map r_f D).
    rewrite app_assoc. change (map r_f C ++ [r_f q]) with (map r_f C ++ map r_f [q]). rewrite <- map_app.
    apply (nd_move hp kvs kvd A r B (C ++ [q]) D h' os' Ki).
    + rewrite <- app_assoc. exact (eq_sym EAB).
    + rewrite map_app, <- app_assoc. exact Ro'.
  - destruct (os_order_before_found lower hp os _ _ _ _ n rn _ _ _ _ Ro Hk Hne Hs Hkq) as (h' & os' & Eo & Ro').
    rewrite Eo. cbn [lift2 nd_sub]. exists (h', kvs, kvd, os'). split; [reflexivity|]. cbn [snd ok nd_rep_st].
    rewrite EAB, map_app. cbn [map]. rewrite insert_before_split by assumption.
    change (r_f q :: map r_f D) with (map r_f (q :: D)).
    apply (nd_move hp kvs kvd A r B C (q :: D) h' os' Ki (eq_sym EAB)). exact Ro'.
Qed.

Lemma nd_sub_eta kvs kvd (r : mres unit (heap * osobj)) :
  match
    match r with
    | MOk a st => let '(hp, s_order) := st in MOk a (hp, kvs, kvd, s_order)
    | MErr e st => let '(hp, s_order) := st in MErr e (hp, kvs, kvd, s_order)
    end
  with
  | MOk _ st => let '(hp, kvs, s_kv, s_order) := st in MOk tt (hp, kvs, s_kv, s_order)
  | MErr e st => MErr e st
  end = nd_sub kvs kvd r.
Proof. destruct r as [[] [h o]|e [h o]]; reflexivity. Qed.

Theorem tr_nd_order_before_refines hp kvs kvd os fs k r :
  nd_rep hp kvs kvd os fs -> nd_refines (tr_nd_order_before lower hp kvs kvd os k r) (nd_order_rel false fs k r).
Proof.
  intros (R & I & <-). unfold tr_nd_order_before, nd_order_rel, trp_unpack_key.
  destruct (unpack_key k true) as [[n i]|e]; [|apply nd_refines_fail; now exists R].
  destruct (unpack_key r true) as [[rn ri]|e]; [|apply nd_refines_fail; now exists R].
  destruct (tr_nd_ensure_rep _ _ _ _ _ I) as (kvs' & E & I'). rewrite E.
  rewrite nd_sub_eta, trp_os_order_before_eq, <- rows_nl_fields.
  apply (nd_order_rel_core false _ _ _ _ _ n rn I').
Qed.

Theorem tr_nd_order_after_refines hp kvs kvd os fs k r :
  nd_rep hp kvs kvd os fs -> nd_refines (tr_nd_order_after lower hp kvs kvd os k r) (nd_order_rel true fs k r).
Proof.
  intros (R & I & <-). unfold tr_nd_order_after, nd_order_rel, trp_unpack_key.
  destruct (unpack_key k true) as [[n i]|e]; [|apply nd_refines_fail; now exists R].
  destruct (unpack_key r true) as [[rn ri]|e]; [|apply nd_refines_fail; now exists R].
  destruct (tr_nd_ensure_rep _ _ _ _ _ I) as (kvs' & E & I'). rewrite E.
  rewrite nd_sub_eta, trp_os_order_after_eq, <- rows_nl_fields.
  apply (nd_order_rel_core true _ _ _ _ _ n rn I').
Qed.

(** ** iter_keys, kvpair_count, contains_kvpair_element *)
Theorem tr_nd_iter_keys_rep hp kvs kvd os fs :
  nd_rep hp kvs kvd os fs -> tr_nd_iter_keys lower hp kvs kvd os = Ok (map f_name fs).
Proof.
  intros (R & [Ro Ki] & <-). unfold tr_nd_iter_keys. rewrite (trp_os_iter_rep _ _ _ _ Ro). cbn [bind app].
  unfold trp_str. rewrite map_id, map_snd_rowL. reflexivity.
Qed.

Lemma kv_inv_keys kvs kvd P k : kv_inv kvs kvd P -> (In k (map fst kvd) <-> In k (map pk P)).
Proof.
  intros [K G D Rf S]. split; intros H.
  - destruct (afind pk k P) eqn:E.
    + apply afind_some in E. destruct E as [Hin <-]. now apply in_map.
    + exfalso. pose proof (G k) as Gk. rewrite E in Gk. cbn in Gk. apply t_get_none in Gk. contradiction.
  - destruct (t_get k kvd) eqn:E.
    + destruct (In_dec (list_eq_dec N.eq_dec) k (map fst kvd)) as [Hi|Hi]; [exact Hi|].
      apply t_get_none in Hi. congruence.
    + exfalso. rewrite G in E. destruct (afind pk k P) eqn:E2; [discriminate|]. apply afind_none in E2. contradiction.
Qed.

Lemma kv_inv_len kvs kvd P : kv_inv kvs kvd P -> length kvd = length P.
Proof.
  intros Ki. pose proof Ki as [K G D Rf S].
  rewrite <- (map_length fst kvd), <- (map_length pk P). apply Permutation_length.
  apply NoDup_Permutation; [exact D|exact K|]. intros k. now apply (kv_inv_keys _ _ _ k Ki).
Qed.

Theorem tr_nd_kvpair_count_rep hp kvs kvd os fs :
  nd_rep hp kvs kvd os fs -> tr_nd_kvpair_count lower hp kvs kvd os = Ok (Z.of_nat (length fs)).
Proof.
  intros (R & [Ro Ki] & <-). unfold tr_nd_kvpair_count, trp_kvd_len.
  rewrite (kv_inv_len _ _ _ Ki), !map_length. reflexivity.
Qed.

Lemma kvd_mem_rows kvs kvd R n :
  kv_inv kvs kvd (map rowP R) -> trp_kvd_mem lower kvd n = existsb (has_name n) (map r_f R).
Proof.
  intros Ki. unfold trp_kvd_mem, t_mem.
  destruct (existsb (has_name n) (map r_f R)) eqn:E.
  - apply existsb_has_name_rk in E. rewrite <- map_pk_rowP in E. apply (kv_inv_keys _ _ _ _ Ki) in E.
    destruct (t_get (lower n) kvd) eqn:G; [reflexivity|]. apply t_get_none in G. contradiction.
  - destruct (t_get (lower n) kvd) eqn:G; [|reflexivity]. exfalso.
    assert (H : In (lower n) (map fst kvd)).
    { destruct (In_dec (list_eq_dec N.eq_dec) (lower n) (map fst kvd)) as [Hi|Hi]; [exact Hi|].
      apply t_get_none in Hi. congruence. }
    apply (kv_inv_keys _ _ _ _ Ki) in H. rewrite map_pk_rowP in H. apply existsb_has_name_rk in H. congruence.
Qed.

Definition is_some_res {A} (r : result (option A)) : result bool :=
  match r with Ok (Some _) => Ok true | Ok None => Ok false | Err e => Err e end.

Theorem tr_nd_contains_rep hp kvs kvd os fs k :
  nd_rep hp kvs kvd os fs ->
  tr_nd_contains_kvpair_element lower hp kvs kvd os k = is_some_res (nd_get fs k true).
Proof.
  intros (R & [Ro Ki] & <-). unfold tr_nd_contains_kvpair_element, trp_is_paragraph_key, nd_get, trp_unpack_key.
  cbn [negb]. destruct (unpack_key k true) as [[n i]|e]; cbn [bind fst]; [|reflexivity].
  rewrite (kvd_mem_rows _ _ _ n Ki), find_existsb. destruct (List.find (has_name n) (map r_f R)); reflexivity.
Qed.

(** ** remove_kvpair_element *)
Definition res_sres {A} (a : A) (r : result A) : sres A := match r with Ok a' => ok a' | Err e => fail e a end.

Lemma kv_inv_remove kvs kvd A r B :
  kv_inv kvs kvd (map rowP (A ++ r :: B)) -> kv_inv kvs (t_del (rk r) kvd) (map rowP (A ++ B)).
Proof.
  intros [K G D Rf S]. rewrite map_app in *. cbn [map] in *. constructor.
  - rewrite map_app in *. cbn [map] in K. now apply NoDup_remove_1 in K.
  - intros kl. rewrite t_get_del by exact D. rewrite G, (afind_mid pk) by exact K.
    change (pk (rowP r)) with (rk r). destruct (str_eqb kl (rk r)) eqn:E; [|reflexivity].
    apply str_eqb_eq in E. subst kl.
    assert (Hn : afind pk (rk r) (map rowP A ++ map rowP B) = None); [|now rewrite Hn].
    apply afind_none. rewrite map_app in *. cbn [map] in K. apply NoDup_remove_2 in K. exact K.
  - now apply t_del_nodup.
  - rewrite map_app in *. cbn [map] in Rf. now apply NoDup_remove_1 in Rf.
  - apply Forall_app in S as [SA SB]. inversion SB; subst. apply Forall_app. now split.
Qed.

Theorem tr_nd_remove_refines hp kvs kvd os fs k :
  nd_rep hp kvs kvd os fs ->
  nd_refines (tr_nd_remove_kvpair_element lower hp kvs kvd os k) (res_sres fs (nd_remove fs k)).
Proof.
  intros (R & [Ro Ki] & <-). unfold tr_nd_remove_kvpair_element, nd_remove, trp_unpack_key.
  destruct (unpack_key k true) as [[n i]|e]; cbn [bind fst]; [|apply nd_refines_fail; exists R; now split].
  unfold trp_kvd_del. fold (trp_kvd_mem lower kvd n). rewrite (kvd_mem_rows _ _ _ n Ki).
  destruct (rows_find n R) as [[Ef Hn]|(A & r & B & ER & Hk & HnA & Ef & Erm)]; rewrite find_existsb, Ef.
  - apply nd_refines_fail. exists R. now split.
  - rewrite nd_sub_eta, trp_os_remove_eq, Erm. rewrite ER in Ro, Ki. rewrite map_app in Ro. cbn [map] in Ro.
    destruct (os_remove_found lower hp os _ _ _ _ n Ro Hk) as (h' & os' & Eo & Ro' & _). rewrite Eo.
    cbn [lift2 nd_sub res_sres]. exists (h', kvs, t_del (lower n) kvd, os'). split; [reflexivity|].
    exists (A ++ B). split; [|reflexivity]. split; [now rewrite map_app|]. rewrite <- Hk. now apply kv_inv_remove.
Qed.

(** ** sort_fields *)
Lemma sort_insert_map {X Y K} (leb : K -> K -> bool) (key : Y -> K) (g : X -> Y) x l :
  sort_insert leb key (g x) (map g l) = map g (sort_insert leb (fun a => key (g a)) x l).
Proof.
  induction l as [|y l IH]; cbn [map sort_insert]; [reflexivity|].
  destruct (leb (key (g x)) (key (g y))); cbn [map]; [reflexivity|]. now rewrite IH.
Qed.
Lemma sort_by_map {X Y K} (leb : K -> K -> bool) (key : Y -> K) (g : X -> Y) l :
  sort_by leb key (map g l) = map g (sort_by leb (fun a => key (g a)) l).
Proof.
  induction l as [|x l IH]; [reflexivity|]. cbn [map]. unfold sort_by in *. cbn [fold_right].
  rewrite IH. apply sort_insert_map.
Qed.

Lemma sorted_names_fields k fs : trp_sorted_names k (map f_name fs) = map f_name (sort_fields_by k fs).
Proof. unfold trp_sorted_names, sort_fields_by, field_key. apply sort_by_map. Qed.

(** rows over the nodes [L2] for the pairs [P] *)
Definition mk_rows (L2 : list (id * str)) (P : list (kvelem * field)) : list row :=
  map (fun ip => mkRow (fst (fst ip)) (fst (snd ip)) (snd (snd ip))) (combine L2 P).

Lemma mk_rows_spec L2 : forall P,
  map snd L2 = map (fun p => f_name (snd p)) P ->
  map rowL (mk_rows L2 P) = L2 /\ map rowP (mk_rows L2 P) = P.
Proof.
  induction L2 as [|[i s] L2 IH]; intros [|[kv f] P] E; try discriminate; [split; reflexivity|].
  cbn [map snd] in E. inversion E as [[Es El]]. destruct (IH P El) as [H1 H2].
  unfold mk_rows in *. cbn [combine map fst snd]. rewrite H1, H2. unfold rowL, rowP. cbn. now subst.
Qed.

Definition the_key (key : option trp_sortkey) : sortkey := match key with Some k => k | None => KDefault end.

(** what follows the loop: the OrderedSet is replaced by a new one over the sorted names *)
Lemma nd_sort_tail hp kvs kvd (os : oset) R key :
  nd_inv hp kvs kvd os R ->
  nd_refines (tr_nd_sort_fields_loop1 [] lower key hp kvs kvd os) (ok (sort_fields_by (the_key key) (map r_f R))).
Proof.
  intros [Ro Ki]. cbn [tr_nd_sort_fields_loop1].
  set (k := the_key key).
  assert (Ek : forall F : trp_sortkey -> mres unit ndst,
             match key with None => let key0 := trp_KDefault in F key0 | Some key0 => F key0 end = F k).
  { intros F. destruct key; reflexivity. }
  rewrite Ek. clear Ek.
  unfold trp_sorted_os. rewrite (trp_os_iter_rep _ _ _ _ Ro), map_snd_rowL, sorted_names_fields.
  rewrite trp_os_new_eq.
  set (P := map rowP R). set (sP := sort_by (k_leb (keyfn_of k)) (fun p : kvelem * field => field_key k (snd p)) P).
  assert (EsP : map snd sP = sort_fields_by k (map r_f R)).
  { unfold sP, sort_fields_by. rewrite <- map_snd_rowP. fold P. symmetry. apply sort_by_map. }
  assert (Hperm : Permutation sP P) by apply sort_by_perm.
  destruct (os_extend_spec lower (map f_name (sort_fields_by k (map r_f R))) hp os_empty [] (os_rep_empty lower hp))
    as (h' & os' & L2 & Ee & Ro' & Es & _).
  { cbn [map app]. rewrite <- EsP, !map_map.
    change (fun x : kvelem * field => lower (f_name (snd x))) with pk.
    eapply Permutation_NoDup; [apply Permutation_map; symmetry; exact Hperm|]. exact (ki_keys _ _ _ Ki). }
  rewrite Ee. cbn [app] in Ro'.
  destruct (mk_rows_spec L2 sP) as [HL HP].
  { rewrite Es, <- EsP, map_map. reflexivity. }
  exists (h', kvs, kvd, os'). split; [reflexivity|]. cbn [snd ok nd_rep_st].
  exists (mk_rows L2 sP). split.
  - split; [now rewrite HL|]. rewrite HP. eapply kv_inv_perm; [symmetry; exact Hperm|exact Ki].
  - now rewrite <- map_snd_rowP, HP.
Qed.

Theorem tr_nd_sort_fields_refines hp kvs kvd os fs key :
  nd_rep hp kvs kvd os fs ->
  nd_refines (tr_nd_sort_fields lower hp kvs kvd os key) (ok (nd_sort (the_key key) fs)).
Proof.
  intros (R & I & <-). pose proof I as [Ro Ki]. unfold tr_nd_sort_fields, nd_sort, trp_os_reversed.
  rewrite (trp_os_iter_rep _ _ _ _ Ro), map_snd_rowL, <- rows_nl_fields.
  destruct (list_snoc_cases R) as [->|(A & r & ->)].
  - cbn [map rev]. now apply nd_sort_tail.
  - rewrite !map_app. cbn [map]. rewrite rev_app_distr. cbn [rev app].
    cbn [tr_nd_sort_fields_loop1].
    rewrite (kv_get_row _ _ _ r Ki) by (apply in_or_app; right; now left).
    destruct (kv_inv_nl _ _ _ _ Ki) as [Hg Ki'].
    unfold trp_kv_value_element, trp_ve_add_final_newline. rewrite Hg.
    rewrite map_last_snoc.
    apply (nd_sort_tail hp _ kvd os (A ++ [row_nl r]) key). split; [|exact Ki'].
    rewrite <- (map_last_snoc row_nl), rows_nl_L. exact Ro.
Qed.

(** * The abstraction is a function: the fields a state represents can be read off it *)
Definition nd_fields (hp : heap) (kvs : kvstore) (kvd : kvdict) (os : osobj) : result (list field) :=
  match tr_nd_iter_parts lower hp kvs kvd os with
  | Ok l => tr_mapM (fun kv => match t_get kv kvs with Some f => Ok f | None => Err OtherError end) l
  | Err e => Err e
  end.

Theorem nd_rep_fields hp kvs kvd os fs : nd_rep hp kvs kvd os fs -> nd_fields hp kvs kvd os = Ok fs.
Proof.
  intros (R & I & <-). unfold nd_fields. rewrite (tr_nd_iter_parts_rep _ _ _ _ _ I).
  apply tr_mapM_map. intros r Hr. destruct I as [_ Ki]. pose proof (ki_store _ _ _ Ki) as S.
  rewrite Forall_forall in S. specialize (S (rowP r) (in_map rowP _ _ Hr)). cbn [rowP fst snd] in S. now rewrite S.
Qed.

Corollary nd_rep_unique hp kvs kvd os fs fs' : nd_rep hp kvs kvd os fs -> nd_rep hp kvs kvd os fs' -> fs = fs'.
Proof. intros H H'. apply nd_rep_fields in H, H'. congruence. Qed.

(** * Every list of fields with pairwise different (lowered) names is represented by some state *)
Lemma t_get_in_nodup {V} (t : tbl V) k v : NoDup (map fst t) -> In (k, v) t -> t_get k t = Some v.
Proof.
  induction t as [|[k0 v0] t IH]; cbn [map fst In t_get]; [tauto|]. intros Hnd [E|Hin].
  - inversion E; subst. now rewrite str_eqb_refl.
  - inversion Hnd as [|? ? Hn Hnd']; subst. destruct (str_eqb k k0) eqn:E; [|now apply IH].
    apply str_eqb_eq in E. subst. exfalso. apply Hn. change k0 with (fst (k0, v)). now apply in_map.
Qed.

Lemma t_get_pairs (P : list (kvelem * field)) kl :
  t_get kl (map (fun p => (pk p, fst p)) P) = option_map fst (afind pk kl P).
Proof.
  induction P as [|p P IH]; [reflexivity|]. cbn [map t_get afind]. destruct (str_eqb kl (pk p)); [reflexivity|exact IH].
Qed.

Lemma combine_fst_snd {X Y} (a : list X) (b : list Y) :
  length a = length b -> map fst (combine a b) = a /\ map snd (combine a b) = b.
Proof.
  revert b. induction a as [|x a IH]; intros [|y b] E; try discriminate; [split; reflexivity|].
  cbn [combine map fst snd]. destruct (IH b) as [H1 H2]; [now inversion E|]. now rewrite H1, H2.
Qed.

Definition ref_of (j : nat) : kvelem := [N.of_nat j].

(** the state that the construction of a paragraph from the fields [fs] makes (new nodes in the empty heap) *)
Definition nd_build (fs : list field) : option ndst :=
  let P := combine (map ref_of (seq 0 (length fs))) fs in
  match os_extend lower (map f_name fs) (heap0, os_empty) with
  | (Ok _, (h, os)) => Some (h, P, map (fun p => (pk p, fst p)) P, os)
  | (Err _, _) => None
  end.

Theorem nd_build_rep fs :
  NoDup (map (fun f => lower (f_name f)) fs) -> exists st, nd_build fs = Some st /\ nd_rep_st st fs.
Proof.
  intros Hnd. unfold nd_build. set (refs := map ref_of (seq 0 (length fs))).
  assert (Hlen : length refs = length fs) by (unfold refs; now rewrite map_length, seq_length).
  destruct (combine_fst_snd refs fs Hlen) as [Hf Hs]. set (P := combine refs fs) in *.
  assert (Hrefs : NoDup refs).
  { unfold refs. apply FinFun.Injective_map_NoDup; [|apply seq_NoDup].
    intros a b E. unfold ref_of in E. inversion E. now apply Nat2N.inj. }
  assert (Hpk : map pk P = map (fun f => lower (f_name f)) fs).
  { rewrite <- Hs, map_map. reflexivity. }
  destruct (os_extend_spec lower (map f_name fs) heap0 os_empty [] (os_rep_empty lower heap0))
    as (h' & os' & L2 & Ee & Ro' & Es & _).
  { cbn [map app]. now rewrite map_map. }
  cbn [app] in Ro'. rewrite Ee.
  destruct (mk_rows_spec L2 P) as [HL HP].
  { rewrite Es, <- Hs, map_map. reflexivity. }
  eexists. split; [reflexivity|]. exists (mk_rows L2 P). split.
  - split; [now rewrite HL|]. rewrite HP. constructor.
    + now rewrite Hpk.
    + apply t_get_pairs.
    + rewrite map_map. change (NoDup (map pk P)). now rewrite Hpk.
    + now rewrite Hf.
    + apply Forall_forall. intros [kv f] Hin. cbn [fst snd]. apply t_get_in_nodup; [|exact Hin].
      rewrite <- Hf in Hrefs. exact Hrefs.
  - now rewrite <- map_snd_rowP, HP.
Qed.

Theorem nd_rep_exists fs :
  NoDup (map (fun f => lower (f_name f)) fs) -> exists hp kvs kvd os, nd_rep hp kvs kvd os fs.
Proof. intros H. destruct (nd_build_rep fs H) as ([[[hp kvs] kvd] os] & _ & R). eauto. Qed.

(** _ensure_final_newline as a refinement of [map_last add_nl] *)
Theorem tr_nd_ensure_refines hp kvs kvd os fs :
  nd_rep hp kvs kvd os fs ->
  nd_refines (tr_nd_ensure_final_newline lower hp kvs kvd os) (ok (map_last add_nl fs)).
Proof.
  intros (R & I & <-). destruct (tr_nd_ensure_rep _ _ _ _ _ I) as (kvs' & E & I'). rewrite E.
  exists (hp, kvs', kvd, os). split; [reflexivity|]. exists (map_last row_nl R). split; [exact I'|apply rows_nl_fields].
Qed.

(** the boolean form of "pairwise different lowered names" (the test of Deb822ParagraphElement.from_kvpairs) *)
Lemma nodupb_NoDup l : nodupb l = true -> NoDup l.
Proof.
  induction l as [|a l IH]; cbn [nodupb]; [constructor|]. intros H. apply andb_true_iff in H as [H1 H2].
  constructor; [|now apply IH]. intros Hin. apply negb_true_iff in H1.
  assert (existsb (str_eqb a) l = true); [|congruence]. apply existsb_exists. exists a. split; [exact Hin|apply str_eqb_refl].
Qed.

Theorem nd_build_rep_b fs :
  nodupb (map (fun f => lower (f_name f)) fs) = true -> exists st, nd_build fs = Some st /\ nd_rep_st st fs.
Proof. intros H. apply nd_build_rep. now apply nodupb_NoDup. Qed.
