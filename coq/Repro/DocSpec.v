(** Reference (Spec) for C05/C10: a document is a list of paragraphs, each a
    list of field texts, with free text between them.  Nothing here knows about
    paragraph classes, linked lists, name indexes or how the implementation
    builds the text of a new field.

    The property is judged on OBSERVED dumps: an edit is accepted when the new
    dump can be explained as "the old list with this one element replaced /
    appended / removed", where the bytes of a new field are whatever the
    implementation wrote between the unchanged prefix and suffix (the hole [X]),
    subject to the shape conditions of the property (own lines, name spelling,
    value as read back). *)
From Verif Require Import Lib.Base Lib.PyStr Gen.PyChars.

Record sfield := mkSF { sf_comment : str; sf_name : str; sf_body : str; sf_val : str }.
Definition sf_text (f : sfield) : str := sf_comment f ++ sf_name f ++ sf_body f.

Inductive sitem := SP (fs : list sfield) | SO (t : str).
Definition sdoc := list sitem.

Definition sitem_text (it : sitem) : str :=
  match it with SP fs => concat (map sf_text fs) | SO t => t end.
Definition sdump (s : sdoc) : str := concat (map sitem_text s).

(** what a fresh parse must show: the non-empty paragraphs, names and values in order *)
Definition sread (s : sdoc) : list (list (str * str)) :=
  flat_map (fun it => match it with
                      | SP (f :: fs) => [map (fun f => (sf_name f, sf_val f)) (f :: fs)]
                      | _ => []
                      end) s.

Fixpoint split_para (s : sdoc) (j : nat) : option (sdoc * list sfield * sdoc) :=
  match s with
  | [] => None
  | SP fs :: s' =>
      match j with
      | O => Some ([], fs, s')
      | S j' => match split_para s' j' with
                | Some (a, x, b) => Some (SP fs :: a, x, b)
                | None => None
                end
      end
  | it :: s' => match split_para s' j with
                | Some (a, x, b) => Some (it :: a, x, b)
                | None => None
                end
  end.

(** number of non-empty paragraphs before paragraph [j] = its index in a fresh parse *)
Definition reparse_index (s : sdoc) (j : nat) : nat :=
  match split_para s j with
  | Some (a, _, _) => length (sread a)
  | None => 0
  end.

(** case-insensitive comparison of (ASCII) names *)
Definition fold_case (c : N) : N := if (65 <=? c)%N && (c <=? 90)%N then (c + 32)%N else c.
Definition ci_eqb (a b : str) : bool := str_eqb (map fold_case a) (map fold_case b).

(** positions of the fields called [n] *)
Fixpoint occ_from (n : str) (fs : list sfield) (i : nat) : list nat :=
  match fs with
  | [] => []
  | f :: fs' => if ci_eqb (sf_name f) n then i :: occ_from n fs' (S i) else occ_from n fs' (S i)
  end.
Definition occ (n : str) (fs : list sfield) : list nat := occ_from n fs 0.

Fixpoint has_dup_names (fs : list sfield) : bool :=
  match fs with
  | [] => false
  | f :: fs' => existsb (fun g => ci_eqb (sf_name g) (sf_name f)) fs' || has_dup_names fs'
  end.

Definition s_ends_nl (s : str) : bool :=
  match last_opt s with Some c => (c =? 10)%N | None => false end.
Definition bol (s : str) : bool := match s with [] => true | _ => s_ends_nl s end.

(** * Values *)

Definition trim (s : str) : str := strip_by py_isspace s.
Definition only_lf (c : N) : bool := (c =? 10)%N.
Definition chomp (l : str) : str := if s_ends_nl l then removelast l else l.
Definition is_comment_line (l : str) : bool := match l with c :: _ => (c =? 35)%N | [] => false end.
Definition is_cont_line (l : str) : bool :=
  match l with
  | c :: _ => ((c =? 32)%N || (c =? 9)%N) && negb (forallb py_isspace l)
  | [] => false
  end.

(** a value that deb822 can carry: one line, or a first line followed by
    continuation lines (space/tab first, not blank) with comment lines allowed
    between them; no Python line boundary other than LF *)
Definition valid_value (v : str) : bool :=
  forallb (fun c => negb (py_islinebreak c) || (c =? 10)%N) v &&
  match split_on_first 10%N v with
  | (_, None) => true
  | (_, Some rest) =>
      let ls := splitlines only_lf true rest in
      forallb (fun l => is_comment_line l || is_cont_line l) ls &&
      match last_opt ls with Some l => negb (is_comment_line l) | None => true end
  end.

(** the raw form (set_field_from_raw_string) additionally ends in LF *)
Definition valid_raw (v : str) : bool := valid_value v && s_ends_nl v.

(** the value as the dict interface reads it back: first line trimmed, comment
    lines dropped, no final LF *)
Definition expected_read (v : str) : str :=
  match split_on_first 10%N v with
  | (_, None) => trim v
  | (first, Some rest) =>
      let ls := map chomp (splitlines only_lf true rest) in
      join [10%N] (trim first :: filter (fun l => negb (is_comment_line l)) ls)
  end.

(** names on which an edit must be accepted (a conservative subset of Policy 5.1) *)
Definition alnum (c : N) : bool :=
  ((48 <=? c)%N && (c <=? 57)%N) || ((65 <=? c)%N && (c <=? 90)%N) || ((97 <=? c)%N && (c <=? 122)%N).
Definition safe_name (n : str) : bool :=
  match n with
  | c :: r => alnum c && forallb (fun c => alnum c || (c =? 45)%N || (c =? 95)%N) r
  | [] => false
  end.

Definition is_nil_l' {A} (l : list A) : bool := match l with [] => true | _ => false end.

(** a comment line as the caller may pass it: no line boundary but a final LF *)
Definition valid_comment (c : str) : bool :=
  forallb (fun x => negb (py_islinebreak x)) (chomp c).

(** a comment argument from which a comment line can be made: empty (an empty comment line)
    or with something visible in it; a string of blanks is not a comment *)
Definition comment_usable (c : str) : bool := is_nil_l' c || negb (forallb py_isspace c).

(** * Observations of one step *)

Record sobs := mkO {
  o_failed : bool;                                   (* the call raised *)
  o_dump : str;                                      (* dump() afterwards *)
  o_reparse : option (list (list (str * str)));      (* fresh parse of the dump: names and values *)
  o_lookups : list (list (result str))               (* per re-parsed paragraph: the key read in other spellings *)
}.

Definition pairs_eqb : list (str * str) -> list (str * str) -> bool :=
  list_eqb (pair_eqb str_eqb str_eqb).
Definition read_eqb : list (list (str * str)) -> list (list (str * str)) -> bool :=
  list_eqb pairs_eqb.

(** the dump is the spec's and a fresh parse shows the spec's paragraphs *)
Definition matches (s : sdoc) (ob : sobs) : bool :=
  str_eqb (sdump s) (o_dump ob) &&
  match o_reparse ob with Some r => read_eqb r (sread s) | None => false end.

Definition unchanged (s : sdoc) (ob : sobs) : option sdoc :=
  if o_failed ob && matches s ob then Some s else None.

(** X = D[pre : len D - post] *)
Definition middle (pre post : nat) (D : str) : option str :=
  if (length D <? pre + post)%nat then None
  else Some (firstn (length D - pre - post) (skipn pre D)).

(** leading comment lines of a field text *)
Fixpoint leading_comments (ls : list str) : str * list str :=
  match ls with
  | l :: ls' => if is_comment_line l then let (c, r) := leading_comments ls' in (l ++ c, r) else ([], ls)
  | [] => ([], [])
  end.
Definition split_comment (X : str) : str * str :=
  let (c, r) := leading_comments (splitlines only_lf true X) in (c, concat r).

(** "name:" prefix with exactly this spelling *)
Definition strip_name (n X : str) : option str :=
  if startswith (n ++ [58%N]) X then Some (skipn (length n) X) else None.

Fixpoint set_nth {A} (l : list A) (p : nat) (v : A) : list A :=
  match l, p with
  | [], _ => []
  | _ :: l', O => v :: l'
  | a :: l', S p' => a :: set_nth l' p' v
  end.

Fixpoint del_nth {A} (l : list A) (p : nat) : list A :=
  match l, p with
  | [], _ => []
  | _ :: l', O => l'
  | a :: l', S p' => a :: del_nth l' p'
  end.

(** remove the positions [ps] (ascending) *)
Definition del_positions {A} (l : list A) (ps : list nat) : list A :=
  fold_right (fun p l => del_nth l p) l ps.

Fixpoint s_map_last (g : sfield -> sfield) (l : list sfield) : list sfield :=
  match l with
  | [] => []
  | [a] => [g a]
  | a :: l' => a :: s_map_last g l'
  end.
Definition sf_add_nl (f : sfield) : sfield :=
  mkSF (sf_comment f) (sf_name f) (sf_body f ++ [10%N]) (sf_val f).

(** value shown by the fresh parse for field [p] of re-parsed paragraph [j'] *)
Definition reparsed_value (ob : sobs) (j' p : nat) : option str :=
  match o_reparse ob with
  | Some r => match nth_error r j' with
              | Some ps => match nth_error ps p with Some nv => Some (snd nv) | None => None end
              | None => None
              end
  | None => None
  end.

(** every alternative spelling of the key reads [val] in re-parsed paragraph [j'] *)
Definition lookups_read (ob : sobs) (j' : nat) (val : str) : bool :=
  match nth_error (o_lookups ob) j' with
  | Some ls => forallb (fun r => result_eqb str_eqb r (Ok val)) ls
  | None => false
  end.

(** ... or none of them finds anything (after a deletion; an emptied paragraph
    is not in the fresh parse at all) *)
Definition lookups_absent (ob : sobs) (j' : nat) (para_gone : bool) : bool :=
  para_gone ||
  match nth_error (o_lookups ob) j' with
  | Some ls => forallb (fun r => match r with Err _ => true | Ok _ => false end) ls
  | None => false
  end.

(** * Which element a key denotes *)

Inductive target :=
| TAdd                                   (* no such field: the edit adds one *)
| TAt (p : nat) (others : list nat)      (* the field at position p; [others]: further occurrences an
                                            un-indexed key covers as well *)
| TReject.                               (* the key denotes nothing: the call must be rejected *)

(** acceptable readings of (name, index) over the positions [oc] of that name:
    (name, i), i >= 0, is the i-th occurrence in document order; a negative
    index may be rejected or count from the end; (name, 0) on an absent name may
    add or be rejected *)
Definition is_nil_l {A} (l : list A) : bool := match l with [] => true | _ => false end.

Definition resolve (oc : list nat) (idx : option Z) (for_set : bool) : list target :=
  match idx with
  | None =>
      match oc with
      | [] => if for_set then [TAdd] else [TReject]
      | p :: others => [TAt p others]
      end
  | Some i =>
      if (0 <=? i)%Z then
        match nth_error oc (Z.to_nat i) with
        | Some p => [TAt p []]
        | None => if for_set && is_nil_l oc && (i =? 0)%Z then [TAdd; TReject] else [TReject]
        end
      else
        let i' := (i + Z.of_nat (length oc))%Z in
        if (0 <=? i')%Z then
          match nth_error oc (Z.to_nat i') with
          | Some p => [TAt p []; TReject]
          | None => [TReject]
          end
        else [TReject]
  end.

(** * Judging one edit *)

Inductive cmode := CKeep | CReplace.      (* the field's comment is kept / is part of what is replaced *)

(** a set: paragraph [j], key (n, idx), value [v] ([raw]: given in raw form),
    [vvalid]: the value is one deb822 can carry in the form it was given.
    Returns the next reference state when the observation is acceptable. *)
Definition accept_set (s : sdoc) (j : nat) (n : str) (v : str) (vvalid : bool) (cm : cmode)
           (ob : sobs) (t : target) : option sdoc :=
  match split_para s j with
  | None => None
  | Some (a, fs, b) =>
      let D := o_dump ob in
      let j' := length (sread a) in
      let finish (fs' : list sfield) (pos : nat) (f : sfield) : option sdoc :=
          (* value: as specified for a valid value, otherwise whatever the fresh parse shows *)
          let val := if vvalid then Some (expected_read v) else reparsed_value ob j' pos in
          match val with
          | None => None
          | Some val =>
              let s' := a ++ SP (set_nth fs' pos (mkSF (sf_comment f) (sf_name f) (sf_body f) val)) :: b in
              if matches s' ob && lookups_read ob j' val then Some s' else None
          end in
      match t with
      | TReject => unchanged s ob
      | TAdd =>
          if o_failed ob then None else
          let pre0 := sdump a ++ concat (map sf_text fs) in
          let post := sdump b in
          (* the one permitted side effect: a missing LF at the very end of the document *)
          let supply := negb (bol pre0) in
          if supply && negb (is_nil_l post) then None else
          if supply && is_nil_l fs then None else
          let fs0 := if supply then s_map_last sf_add_nl fs else fs in
          let pre := if supply then pre0 ++ [10%N] else pre0 in
          match middle (length pre) (length post) D with
          | None => None
          | Some X =>
              let (cmt, X') := split_comment X in
              if negb (s_ends_nl X) then None else
              if match cm with CKeep => negb (is_nil_l cmt) | CReplace => false end then None else
              match strip_name n X' with
              | None => None
              | Some body => finish (fs0 ++ [mkSF cmt n body []]) (length fs0) (mkSF cmt n body [])
              end
          end
      | TAt p others =>
          if o_failed ob then None else
          match nth_error fs p with
          | None => None
          | Some f =>
              let before := sdump a ++ concat (map sf_text (firstn p fs)) in
              let pre := match cm with CKeep => before ++ sf_comment f | CReplace => before end in
              (* what follows the field once the other occurrences are gone *)
              let fs1 := set_nth fs p f in
              let rest := del_positions (skipn (S p) fs1) (map (fun q => q - S p) others) in
              let post := concat (map sf_text rest) ++ sdump b in
              match middle (length pre) (length post) D with
              | None => None
              | Some X =>
                  let (cmt, X') := match cm with
                                   | CKeep => (sf_comment f, X)
                                   | CReplace => split_comment X
                                   end in
                  if negb (s_ends_nl X) then None else
                  match strip_name (sf_name f) X' with      (* original spelling kept *)
                  | None => None
                  | Some body =>
                      let f' := mkSF cmt (sf_name f) body [] in
                      finish (firstn p fs ++ f' :: rest) p f'
                  end
              end
          end
      end
  end.

Definition first_some {A B} (f : A -> option B) (l : list A) : option B :=
  fold_right (fun a r => match f a with Some b => Some b | None => r end) None l.

(** [vvalid]: the value is one deb822 can carry in the form it was given (then the value read
    back is specified); [args_ok]: the other arguments of the call are usable as they stand.  The
    property itself only speaks about edits that were carried out: a call may always be rejected
    (leaving everything unchanged) unless value, key and arguments are all beyond doubt. *)
Definition check_set (s : sdoc) (j : nat) (n : str) (idx : option Z) (v : str) (vvalid args_ok : bool)
           (cm : cmode) (ob : sobs) : option sdoc :=
  match split_para s j with
  | None => None
  | Some (_, fs, _) =>
      let oc := occ n fs in
      let ts := resolve oc idx true in
      (* an edit that is certainly meaningful must be accepted *)
      let must := vvalid && args_ok && (negb (is_nil_l oc) || safe_name n) in
      let ts := if must then ts else ts ++ [TReject] in
      first_some (accept_set s j n v vvalid cm ob) ts
  end.

Definition accept_del (s : sdoc) (j : nat) (ob : sobs) (t : target) : option sdoc :=
  match split_para s j with
  | None => None
  | Some (a, fs, b) =>
      match t with
      | TReject | TAdd => unchanged s ob
      | TAt p others =>
          if o_failed ob then None else
          let fs' := del_positions fs (p :: others) in
          let s' := a ++ SP fs' :: b in
          if matches s' ob && lookups_absent ob (length (sread a)) (is_nil_l fs') then Some s' else None
      end
  end.

Definition check_del (s : sdoc) (j : nat) (n : str) (idx : option Z) (ob : sobs) : option sdoc :=
  match split_para s j with
  | None => None
  | Some (_, fs, _) => first_some (accept_del s j ob) (resolve (occ n fs) idx false)
  end.
