(** Case format evaluated by the correspondence check of C05.
    [agree]: the model (Repro/Doc.v), started from the implementation's own parse,
             reproduces what the implementation did after every operation: exception
             kind, dump text, per-paragraph key lists and the values read through the
             dict interface.
    [holds]: the property itself, judged on what the implementation did, against the
             list reference of Repro/DocSpec.v (never against the model). *)
From Coq Require Import String.
From Verif Require Import Lib.Base Lib.Dec Lib.PyStr Gen.PyChars Repro.Doc Repro.DocInv Repro.DocSpec.
From Verif Require Import Repro.Abs.

(** * Literals written by the harness *)

Inductive ilit :=
| IP (dup : bool) (fs : list (string * string * string))     (* paragraph: class, (comment, name, rest) *)
| IO (k : okind) (t : string).

Inductive klit := KS (n : string) | KI (n : string) (i : Z).

Inductive oplit :=
| LSet (j : nat) (k : klit) (v : string)
| LDel (j : nat) (k : klit)
| LSimple (j : nat) (k : klit) (v : string) (pres : option bool) (fc : option (list string))
| LRaw (j : nat) (k : klit) (v : string) (pres : option bool) (fc : option (list string)).

Definition rlit := list (list (string * result string)).

Record steplit := mkS {
  s_err : option err;
  s_dump : list string;                                   (* dump(), as its physical lines *)
  s_paras : rlit;                                         (* live object: keys and values *)
  s_reparse : option rlit;                                (* fresh parse of the dump: keys and values *)
  s_lookups : list (list (result string))                 (* per re-parsed paragraph: the key read in other spellings *)
}.

Inductive case :=
| Run (text : list string) (items : list ilit) (init : rlit) (ops : list oplit) (steps : list steplit)
| LeafField (line : string) (r : option (string * string))    (* _RE_FIELD_LINE: name, text from the colon on *)
| LeafWs (line : string) (r : bool)                           (* _RE_WHITESPACE_LINE *)
| LeafComment (c : string) (r : result string).               (* _format_comment *)

(** * Decoding *)

Definition dec_field (t : string * string * string) : field :=
  let '(c, n, r) := t in mkF (dec c) (dec n) (dec r).

Definition dec_item (i : ilit) : item :=
  match i with
  | IP dup fs => let fs' := map dec_field fs in Para (if dup then PD (init_dup fs') else PN fs')
  | IO k t => Other k (dec t)
  end.

Definition dec_key (k : klit) : key :=
  match k with KS n => KStr (dec n) | KI n i => KIdx (dec n) i end.

Definition dec_op (o : oplit) : op :=
  match o with
  | LSet j k v => OSet j (dec_key k) (dec v)
  | LDel j k => ODel j (dec_key k)
  | LSimple j k v p fc => OSimple j (dec_key k) (dec v) p (option_map (map dec) fc)
  | LRaw j k v p fc => ORaw j (dec_key k) (dec v) p (option_map (map dec) fc)
  end.

(** a text written as the list of its physical lines *)
Definition dec_text (ls : list string) : str := concat (map dec ls).

Definition dec_res (r : result string) : result str :=
  match r with Ok s => Ok (dec s) | Err e => Err e end.

Definition dec_read (r : rlit) : list (list (str * result str)) :=
  map (map (fun kv => (dec (fst kv), dec_res (snd kv)))) r.

Definition read_eqb' : list (list (str * result str)) -> list (list (str * result str)) -> bool :=
  list_eqb (list_eqb (pair_eqb str_eqb (result_eqb str_eqb))).

(** the class the code would choose for these fields is the class it did choose *)
Definition class_ok (i : ilit) : bool :=
  match i with
  | IP dup fs =>
      match from_kvpairs (map dec_field fs) with
      | PN _ => negb dup
      | PD _ => dup
      end
  | IO _ _ => true
  end.

(** * Correspondence *)

(** the hypothesis of the theorems of Props/C05.v: a document the implementation parsed, none of
    whose paragraphs repeats a field name, is [doc_ok] (and so is every later state, by theorem) *)
Definition no_dup_class (items : list ilit) : bool :=
  forallb (fun i => match i with IP dup _ => negb dup | IO _ _ => true end) items.

Definition hyp_ok (items : list ilit) (d : doc) : bool :=
  if no_dup_class items then doc_wf d else true.

(** the paragraph re-reader of the model ([scan_para], the subject of C05_reread theorems) makes
    of each paragraph's text what the implementation's parser made of it *)
Definition field_eqb (a b : field) : bool :=
  str_eqb (f_comment a) (f_comment b) && str_eqb (f_name a) (f_name b) && str_eqb (f_rest a) (f_rest b).

Definition reread_ok (d : doc) : bool :=
  forallb (fun p => result_eqb (list_eqb field_eqb) (scan_para (para_text p)) (Ok (para_fields p)))
          (paras d).

(** ... and for histories that start with repeated names: whenever a state has none left, it
    is [doc_ok] (the duplicate-fields class with its index consistent, colons, line structure) *)
Definition hyp_state (d : doc) : bool :=
  if forallb (fun p => nodup_names (para_fields p)) (paras d) then doc_wf d else true.

Definition model_read (d : doc) : list (list (str * result str)) := map read_para (paras d).

(** ... and what it reads in the edited paragraphs is what the implementation's FRESH parse of
    the dump shows: names and values of the non-empty paragraphs, in order *)
Definition reread_rows (d : doc) : option (list (list (str * result str))) :=
  fold_right (fun p acc =>
                match para_fields p, scan_para (para_text p), acc with
                | [], _, _ => acc                      (* an emptied paragraph is not in the dump *)
                | _, Ok fs, Some rows => Some (map (fun f => (f_name f, Ok (value_str f))) fs :: rows)
                | _, _, _ => None
                end) (Some []) (paras d).

Definition reparse_agree (d : doc) (st : steplit) : bool :=
  match s_reparse st with
  | Some r => match reread_rows d with
              | Some rows => read_eqb' rows (dec_read r)
              | None => false
              end
  | None => true
  end.

(** ... and the same through the C01 parser model: the lines of the model's dump, tokenized and
    grouped by Repro/Token.v + Repro/Parse.v (the call the driver makes: duplicates accepted, error
    tokens rejected) and abstracted by [Abs.abs_of_tree], read like the implementation's fresh
    parse.  This is the function the theorems C05_parse_dump_abs / C05_set_readback are about. *)
Definition reparse_model_agree (d : doc) (st : steplit) : bool :=
  match s_reparse st with
  | Some r =>
      match py_reparse_strict (dump d) with
      | Ok dd => read_eqb' (model_read dd) (dec_read r)
      | Err _ => false
      end
  | None => true
  end.

(** the initial document: [abs_of_tree] of the parser model's tree for the case's text is the
    document the harness read off the implementation's tree (items, paragraph classes, comment /
    name / rest texts), and its item structure satisfies the extra hypothesis [doc_canon] of the
    fresh-parse theorems *)
Definition parse_agree (text : str) (d : doc) : bool :=
  result_eqb doc_eqb (py_reparse_strict text) (Ok d) && doc_canon d.

Fixpoint agree_steps (d : doc) (ops : list op) (steps : list steplit) : bool :=
  match ops, steps with
  | [], [] => true
  | o :: ops', st :: steps' =>
      let (e, d') := step d o in
      option_eqb err_eqb e (s_err st)
      && str_eqb (dump d') (dec_text (s_dump st))
      && read_eqb' (model_read d') (dec_read (s_paras st))
      && hyp_state d'
      && reread_ok d'
      && reparse_agree d' st
      && reparse_model_agree d' st
      && agree_steps d' ops' steps'
  | _, _ => false
  end.

Definition opt_pair_eqb (a b : option (str * str)) : bool :=
  option_eqb (pair_eqb str_eqb str_eqb) a b.

Definition agree (c : case) : bool :=
  match c with
  | Run text items init ops steps =>
      let d := map dec_item items in
      forallb class_ok items
      && hyp_ok items d
      && reread_ok d
      && str_eqb (dump d) (dec_text text)
      && parse_agree (dec_text text) d
      && read_eqb' (model_read d) (dec_read init)
      && agree_steps d (map dec_op ops) steps
  | LeafField line r =>
      opt_pair_eqb (match_field_line (dec line))
                   (option_map (fun nr => (dec (fst nr), dec (snd nr))) r)
  | LeafWs line r => Bool.eqb (is_ws_line (dec line)) r
  | LeafComment c r => result_eqb str_eqb (format_comment (dec c)) (dec_res r)
  end.

(** * The property *)

Definition spec_field (t : string * string * string) (v : string * result string) : option sfield :=
  let '(c, n, r) := t in
  match snd v with
  | Ok val => Some (mkSF (dec c) (dec n) (dec r) (dec val))
  | Err _ => None
  end.

Fixpoint spec_fields (fs : list (string * string * string)) (vs : list (string * result string))
  : option (list sfield) :=
  match fs, vs with
  | [], [] => Some []
  | f :: fs', v :: vs' =>
      match spec_field f v, spec_fields fs' vs' with
      | Some a, Some b => Some (a :: b)
      | _, _ => None
      end
  | _, _ => None
  end.

(** the reference starts from the texts of the original document and the values
    the implementation read from it *)
Fixpoint spec_init (items : list ilit) (init : rlit) : option sdoc :=
  match items with
  | [] => match init with [] => Some [] | _ => None end
  | IO _ t :: items' =>
      match spec_init items' init with Some s => Some (SO (dec t) :: s) | None => None end
  | IP _ fs :: items' =>
      match init with
      | vs :: init' =>
          match spec_fields fs vs, spec_init items' init' with
          | Some p, Some s => Some (SP p :: s)
          | _, _ => None
          end
      | [] => None
      end
  end.

(** every value of the fresh parse was read without an exception *)
Fixpoint dec_pairs (l : list (string * result string)) : option (list (str * str)) :=
  match l with
  | [] => Some []
  | (n, Ok v) :: l' =>
      match dec_pairs l' with Some r => Some ((dec n, dec v) :: r) | None => None end
  | (_, Err _) :: _ => None
  end.

Fixpoint dec_reparse (r : rlit) : option (list (list (str * str))) :=
  match r with
  | [] => Some []
  | p :: r' =>
      match dec_pairs p, dec_reparse r' with
      | Some a, Some b => Some (a :: b)
      | _, _ => None
      end
  end.

Definition dec_obs (st : steplit) : sobs :=
  mkO (match s_err st with Some _ => true | None => false end)
      (dec_text (s_dump st))
      (match s_reparse st with Some r => dec_reparse r | None => None end)
      (map (map dec_res) (s_lookups st)).

Definition is_ascii_str (s : str) : bool := forallb (fun c => (c <? 128)%N) s.

Definition key_parts (k : key) : str * option Z :=
  match k with KStr n => (n, None) | KIdx n i => (n, Some i) end.

(** the verdict on one step: [None] = violated; [Some None] = the step is outside
    the property's quantifier (duplicated field names, non-ASCII key, comment
    arguments that are not comment lines): the rest of the history is not judged;
    [Some (Some s')] = accepted, continue from s' *)
Definition judge (s : sdoc) (o : op) (ob : sobs) : option (option sdoc) :=
  let para_of j := match split_para s j with Some (_, fs, _) => Some fs | None => None end in
  let in_domain j k (fc : option (list str)) :=
      match para_of j with
      | Some fs => negb (has_dup_names fs) && is_ascii_str (fst (key_parts k))
                   && match fc with Some l => forallb valid_comment l | None => true end
      | None => false
      end in
  let fc_usable (fc : option (list str)) :=
      match fc with Some l => forallb comment_usable l | None => true end in
  let lift (r : option sdoc) := match r with Some s' => Some (Some s') | None => None end in
  match o with
  | OSet j k v =>
      if negb (in_domain j k None) then Some None else
      let (n, idx) := key_parts k in
      lift (check_set s j n idx v (valid_value v) true CKeep ob)
  | ODel j k =>
      if negb (in_domain j k None) then Some None else
      let (n, idx) := key_parts k in
      lift (check_del s j n idx ob)
  | OSimple j k v pres fc =>
      if negb (in_domain j k fc) then Some None else
      let (n, idx) := key_parts k in
      match pres, fc with
      | Some _, Some _ => lift (unchanged s ob)                   (* contradictory arguments *)
      | _, _ =>
          let cm := match pres, fc with Some false, _ | _, Some _ => CReplace | _, _ => CKeep end in
          lift (check_set s j n idx v (valid_value v && negb (mem_char LF v)) (fc_usable fc) cm ob)
      end
  | ORaw j k v pres fc =>
      if negb (in_domain j k fc) then Some None else
      let (n, idx) := key_parts k in
      match pres, fc with
      | Some _, Some _ => lift (unchanged s ob)
      | _, _ =>
          let cm := match pres, fc with Some false, _ | _, Some _ => CReplace | _, _ => CKeep end in
          lift (check_set s j n idx v (valid_raw v) (fc_usable fc) cm ob)
      end
  end.

Fixpoint holds_steps (s : sdoc) (ops : list op) (steps : list steplit) : bool :=
  match ops, steps with
  | [], [] => true
  | o :: ops', st :: steps' =>
      match judge s o (dec_obs st) with
      | None => false
      | Some None => true
      | Some (Some s') => holds_steps s' ops' steps'
      end
  | _, _ => false
  end.

Definition holds (c : case) : bool :=
  match c with
  | Run text items init ops steps =>
      match spec_init items init with
      | None => false
      | Some s => str_eqb (sdump s) (dec_text text) && holds_steps s (map dec_op ops) steps
      end
  | _ => true
  end.

Definition bad_agree (cs : list case) : list N := bad agree cs.
Definition bad_holds (cs : list case) : list N := bad holds cs.
