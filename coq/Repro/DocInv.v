(** Validity of documents of the field-level model (Repro/Doc.v): the hypotheses of the C05
    theorems, as boolean predicates.  Definitions only (the correspondence check evaluates
    [doc_ok] on every document the implementation parsed; the proofs are in DocProofs.v). *)
From Verif Require Import Lib.Base Lib.PyStr Gen.PyChars Repro.Doc.

(** a text is "closed" when something can be put after it on a line of its own *)
Definition closed (s : str) : bool := is_nil s || ends_nl s.

(** fields as the parser builds them: the text after the name starts with the colon *)
Definition rest_colon (f : field) : bool :=
  match f_rest f with c :: _ => (c =? COLON)%N | [] => false end.

Definition lnames (fs : list field) : list str := map (fun f => lower (f_name f)) fs.
Definition nodup_names (fs : list field) : bool := nodupb (lnames fs).

(** ** the paragraph invariant: names unique (case-insensitively), every field has its
       colon; valid documents only contain the no-duplicates class *)
Definition fields_inv (fs : list field) : bool := nodup_names fs && forallb rest_colon fs.

Definition para_inv (p : para) : bool :=
  match p with
  | PN fs => fields_inv fs
  | PD _ => false
  end.

(** valid documents: every paragraph satisfies the paragraph invariant *)
Definition doc_inv (d : doc) : bool := forallb para_inv (paras d).

Definition fclosed (f : field) : bool := ends_nl (f_rest f).
Definition fields_closed (fs : list field) : bool := forallb fclosed fs.

Definition item_closed (it : item) : bool :=
  match it with
  | Para p => fields_closed (para_fields p)
  | Other _ t => closed t
  end.

Definition item_inner (it : item) : bool :=
  match it with
  | Para p => fields_closed (removelast (para_fields p))
  | Other _ _ => true
  end.

(** only the very last field (or free text) of the document may lack its final newline *)
Fixpoint lines_ok (d : doc) : bool :=
  match d with
  | [] => true
  | it :: d' => (is_nil d' || item_closed it) && item_inner it && lines_ok d'
  end.

(** validity including the line structure *)
Definition doc_ok (d : doc) : bool := doc_inv d && lines_ok d.
