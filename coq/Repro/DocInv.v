(** Validity of documents of the field-level model (Repro/Doc.v): the hypotheses of the C05
    theorems, as boolean predicates.  Definitions only (the correspondence check evaluates
    [doc_ok] on every document the implementation parsed; the proofs are in DocProofs.v). *)
From Verif Require Import Lib.Base Lib.PyStr Gen.PyChars Repro.Doc.

(** a text is "closed" when something can be put after it on a line of its own *)
Definition closed (s : str) : bool := is_nil s || ends_nl s.

(** fields as the parser builds them: the text after the name starts with the colon *)
Definition rest_colon (f : field) : bool :=
  match f_rest f with c :: _ => (c =? COLON)%N | [] => false end.

(** ** the line structure of one field: what the parser can have produced

    comment: complete lines, each starting with '#'; name: field-name characters; the rest: the
    remainder of the field line from the colon on, then continuation lines with comment lines
    only between them *)
Definition body_class (l : str) : bool :=
  match classify true l with LComment | LCont => true | _ => false end.
Definition cont_class (l : str) : bool :=
  match classify true l with LCont => true | _ => false end.
Definition body_ok (others : list str) : bool :=
  is_nil others
  || (forallb body_class others
      && match last_opt others with Some l => cont_class l | None => false end).

Definition name_ok (n : str) : bool :=
  match n with c :: _ => name_first c && forallb name_char n | [] => false end.

Definition colon_first (s : str) : bool :=
  match s with c :: _ => (c =? COLON)%N | [] => false end.

Definition comment_wf (c : str) : bool := closed c && forallb starts_hash (lf_lines c).

Definition rest_wf (r : str) : bool :=
  match lf_lines r with
  | r1 :: bl => colon_first r1 && body_ok bl
  | [] => false
  end.

Definition field_wf (f : field) : bool :=
  comment_wf (f_comment f) && name_ok (f_name f) && rest_wf (f_rest f).

(** the lines of a field's text *)
Definition flines (f : field) : list str :=
  lf_lines (f_comment f)
  ++ match lf_lines (f_rest f) with r1 :: bl => (f_name f ++ r1) :: bl | [] => [] end.

Definition lnames (fs : list field) : list str := map (fun f => lower (f_name f)) fs.
Definition nodup_names (fs : list field) : bool := nodupb (lnames fs).

(** ** the paragraph invariant: names unique (case-insensitively), every field has its colon *)
Definition fields_inv (fs : list field) : bool := nodup_names fs && forallb rest_colon fs.

(** ** the duplicate-fields class: the name index and the node list agree *)

(** identities of the nodes whose field name lower-cases to [k], in list order *)
Definition ids_with (k : str) (o : list (N * field)) : list N :=
  map fst (filter (fun nf => str_eqb (lower (f_name (snd nf))) k) o).

Fixpoint nodupN (l : list N) : bool :=
  match l with
  | [] => true
  | a :: l' => negb (existsb (N.eqb a) l') && nodupN l'
  end.

(** node identities distinct and below the allocation counter; index keys distinct; every
    index entry is the non-empty list of the nodes of that name, in order; every node is indexed *)
Definition d_wf (d : dpara) : bool :=
  nodupN (map fst (d_order d))
  && forallb (fun nf => (fst nf <? d_next d)%N) (d_order d)
  && nodupb (map fst (d_byname d))
  && forallb (fun kl => negb (is_nil (snd kl))
                        && list_eqb N.eqb (snd kl) (ids_with (fst kl) (d_order d))) (d_byname d)
  && forallb (fun nf => match assoc_get (lower (f_name (snd nf))) (d_byname d) with
                        | Some _ => true | None => false end) (d_order d).

(** the theorems cover both classes as long as no name is repeated: a paragraph of the
    duplicate-fields class reaches that state when its duplicates have been deleted *)
Definition para_inv (p : para) : bool :=
  match p with
  | PN fs => fields_inv fs
  | PD d => d_wf d && fields_inv (map snd (d_order d))
  end.

(** valid documents: every paragraph satisfies the paragraph invariant *)
Definition doc_inv (d : doc) : bool := forallb para_inv (paras d).

Definition fclosed (f : field) : bool := ends_nl (f_rest f).
Definition fields_closed (fs : list field) : bool := forallb fclosed fs.

Definition item_closed (it : item) : bool :=
  match it with
  | Para p => fields_closed (para_fields p)
  | Other _ t => closed t
  end.

Definition item_inner (it : item) : bool :=
  match it with
  | Para p => fields_closed (removelast (para_fields p))
  | Other _ _ => true
  end.

(** only the very last field (or free text) of the document may lack its final newline *)
Fixpoint lines_ok (d : doc) : bool :=
  match d with
  | [] => true
  | it :: d' => (is_nil d' || item_closed it) && item_inner it && lines_ok d'
  end.

(** validity including the line structure *)
Definition doc_ok (d : doc) : bool := doc_inv d && lines_ok d.

(** ... and with every field well-formed as above: the domain of the re-reading theorem *)
Definition para_wf (p : para) : bool := forallb field_wf (para_fields p).
Definition doc_wf (d : doc) : bool := doc_ok d && forallb para_wf (paras d).
