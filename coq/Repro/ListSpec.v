(** Independent reference for C11: what a list view of a field must read, and what a
    sequence of edits must leave behind.  Nothing here looks at the model. *)
From Verif Require Import Lib.Base Lib.PyStr Gen.PyChars.

Definition is_lf (c : N) : bool := (c =? 10)%N.

(** the lines of a value text, LF kept *)
Definition lines_lf (v : str) : list str := splitlines is_lf true v.

Definition is_comment_line (l : str) : bool :=
  match l with c :: _ => (c =? 35)%N | [] => false end.

(** Comment lines are continuation lines starting with '#': the first line of a value
    (the text right after the colon) is never one. *)
Definition drop_comment_lines (v : str) : str :=
  match lines_lf v with
  | [] => []
  | l1 :: ls => l1 ++ concat (filter (fun l => negb (is_comment_line l)) ls)
  end.

Definition nonempty_str (s : str) : bool := match s with [] => false | _ => true end.

(** [comma = false]: whitespace-separated; [comma = true]: comma-separated.
    The WHOLE text (comment lines dropped) is split on the separator, the pieces are
    trimmed, empty pieces are dropped. *)
Definition split_spec (comma : bool) (v : str) : list str :=
  let t := drop_comment_lines v in
  if comma then filter nonempty_str (map (strip_by py_isspace) (split_on 44%N t))
  else split_ws py_isspace t.

(** * The value texts the property speaks about *)

(** no line boundary of str.splitlines() other than LF: as in C08/C17, control-file text
    does not contain CR, VT, FF, FS, GS, RS, NEL, LS or PS *)
Definition lf_only (v : str) : bool :=
  forallb (fun c => negb (py_islinebreak c) || is_lf c) v.

Definition starts_cont (l : str) : bool :=
  match l with c :: _ => (c =? 32)%N || (c =? 9)%N || (c =? 35)%N | [] => false end.

Definition blank (l : str) : bool := forallb py_isspace l.

(** what the deb822 syntax guarantees for the value of a field: every line after the
    first starts with a space, a tab (continuation) or '#' (comment), and a
    continuation line is not blank; the value has content *)
Definition value_ok (v : str) : bool :=
  lf_only v
  && negb (blank v)
  && match lines_lf v with
     | [] => true
     | _ :: ls => forallb (fun l => starts_cont l && negb (blank l)) ls
     end.

Definition ends_lf (s : str) : bool :=
  match last_opt s with Some c => is_lf c | None => false end.

(** ... and, for editing, the value does not end inside a comment: its last line is not a
    comment line that lacks its newline (a field's value never ends with a comment line at
    all in a parsed document: such a line belongs to what follows) *)
Definition closed_value (v : str) : bool :=
  match lines_lf v with
  | [] => true
  | _ :: ls => match last_opt ls with
               | Some l => negb (is_comment_line l) || ends_lf l
               | None => true
               end
  end.

(** a value that can be stored in a list of that kind without changing its reading *)
Definition good_value (comma : bool) (x : str) : bool :=
  nonempty_str x
  && negb (existsb py_islinebreak x)
  && if comma then
       negb (mem_char 44%N x)
       && match x with c :: _ => negb (py_isspace c) | [] => false end
       && match last_opt x with Some c => negb (py_isspace c) | None => false end
     else negb (existsb py_isspace x).

(** * Lists with identities: what edits (direct, or through references) mean *)

Record astate := AS {
  a_list : list (N * str);      (* the values, each with an identity *)
  a_next : N;
  a_refs : list N;              (* the references handed out by the last snapshot *)
}.

Inductive aop :=
| AAppend (x : str)
| ARemove (x : str)             (* first occurrence *)
| AReplace (x y : str)          (* first occurrence *)
| ASnap
| ARefGet (j : nat)
| ARefSet (j : nat) (x : str)
| ARefRemove (j : nat)
| AOther.                       (* an operation that does not concern the values *)

Fixpoint number_vals (n : N) (vs : list str) : list (N * str) :=
  match vs with [] => [] | v :: r => (n, v) :: number_vals (N.succ n) r end.

Definition a_init (vs : list str) : astate :=
  AS (number_vals 0 vs) (N.of_nat (length vs)) [].

Definition a_values (st : astate) : list str := map snd (a_list st).

Fixpoint remove_first (x : str) (l : list (N * str)) : option (list (N * str)) :=
  match l with
  | [] => None
  | (i, v) :: r =>
      if str_eqb v x then Some r
      else match remove_first x r with Some r' => Some ((i, v) :: r') | None => None end
  end.

Fixpoint replace_first (x y : str) (l : list (N * str)) : option (list (N * str)) :=
  match l with
  | [] => None
  | (i, v) :: r =>
      if str_eqb v x then Some ((i, y) :: r)
      else match replace_first x y r with Some r' => Some ((i, v) :: r') | None => None end
  end.

Definition has_id (id : N) (l : list (N * str)) : bool := existsb (fun p => (fst p =? id)%N) l.

Definition lookup_id (id : N) (l : list (N * str)) : option str :=
  match List.find (fun p => (fst p =? id)%N) l with Some p => Some (snd p) | None => None end.

(** [None]: the operation is not applicable (value absent, reference stale or out of range).
    The second component is what a read returns. *)
Definition a_step (o : aop) (st : astate) : option (astate * option str) :=
  let upd l := Some (AS l (a_next st) (a_refs st), None) in
  match o with
  | AAppend x => Some (AS (a_list st ++ [(a_next st, x)]) (N.succ (a_next st)) (a_refs st), None)
  | ARemove x => match remove_first x (a_list st) with Some l => upd l | None => None end
  | AReplace x y => match replace_first x y (a_list st) with Some l => upd l | None => None end
  | ASnap => Some (AS (a_list st) (a_next st) (map fst (a_list st)), None)
  | ARefGet j =>
      match nth_error (a_refs st) j with
      | Some id => match lookup_id id (a_list st) with
                   | Some v => Some (st, Some v)
                   | None => None
                   end
      | None => None
      end
  | ARefSet j x =>
      match nth_error (a_refs st) j with
      | Some id =>
          if has_id id (a_list st)
          then upd (map (fun p => if (fst p =? id)%N then (fst p, x) else p) (a_list st))
          else None
      | None => None
      end
  | ARefRemove j =>
      match nth_error (a_refs st) j with
      | Some id =>
          if has_id id (a_list st)
          then upd (filter (fun p => negb (fst p =? id)%N) (a_list st))
          else None
      | None => None
      end
  | AOther => Some (st, None)
  end.

(** the values an operation brings into the list *)
Definition introduced (o : aop) : list str :=
  match o with
  | AAppend x | AReplace _ x | ARefSet _ x => [x]
  | _ => []
  end.

(** Python's plain list, for the direct edits (used to state the theorems) *)
Fixpoint list_remove (x : str) (l : list str) : option (list str) :=
  match l with
  | [] => None
  | v :: r => if str_eqb v x then Some r
              else match list_remove x r with Some r' => Some (v :: r') | None => None end
  end.

Fixpoint list_replace (x y : str) (l : list str) : option (list str) :=
  match l with
  | [] => None
  | v :: r => if str_eqb v x then Some (y :: r)
              else match list_replace x y r with Some r' => Some (v :: r') | None => None end
  end.
