(** Text-level lemmas used by the proofs of C11 (Repro/ListProofs.v):
    span / rdropwhile facts, str.split(), LF line splitting, split on one character. *)
From Verif Require Import Lib.Base Lib.PyStr Gen.PyChars Repro.ListSpec.
From Coq Require Import Lia.

(** * span, dropwhile, rdropwhile *)

Lemma span_eq {A} (p : A -> bool) s a b :
  span p s = (a, b) -> s = a ++ b /\ forallb p a = true /\ (match b with [] => True | c :: _ => p c = false end).
Proof.
  intros H. pose proof (span_app p s) as H1. pose proof (span_all p s) as H2.
  rewrite H in H1, H2. simpl in *. repeat split; auto.
  destruct b as [|c r]; [exact I|]. eapply span_snd_head. rewrite H. reflexivity.
Qed.

Lemma forallb_app_iff {A} (p : A -> bool) a b :
  forallb p (a ++ b) = true <-> forallb p a = true /\ forallb p b = true.
Proof. rewrite forallb_app, andb_true_iff. tauto. Qed.

Lemma rdropwhile_nil {A} (p : A -> bool) : rdropwhile p [] = [].
Proof. reflexivity. Qed.

Lemma rdropwhile_snoc {A} (p : A -> bool) l a :
  rdropwhile p (l ++ [a]) = if p a then rdropwhile p l else l ++ [a].
Proof.
  unfold rdropwhile. rewrite rev_app_distr. simpl. destruct (p a); [reflexivity|].
  simpl. now rewrite rev_involutive.
Qed.

(** rstrip splits a list into the kept part and a dropped tail *)
Lemma rdropwhile_split {A} (p : A -> bool) l :
  exists t, l = rdropwhile p l ++ t /\ forallb p t = true.
Proof.
  induction l as [|a l IH] using rev_ind.
  - exists []. split; reflexivity.
  - rewrite rdropwhile_snoc. destruct (p a) eqn:E.
    + destruct IH as [t [H1 H2]]. exists (t ++ [a]). split.
      * rewrite app_assoc. now rewrite <- H1.
      * apply forallb_app_iff. split; [assumption|]. simpl. now rewrite E.
    + exists []. split; [now rewrite app_nil_r|reflexivity].
Qed.

Lemma last_opt_snoc {A} (l : list A) a : last_opt (l ++ [a]) = Some a.
Proof.
  induction l as [|x l IH]; [reflexivity|].
  simpl. remember (l ++ [a]) as m eqn:E. destruct m; [now destruct l|]. exact IH.
Qed.

Lemma rdropwhile_last {A} (p : A -> bool) l :
  match last_opt (rdropwhile p l) with Some c => p c = false | None => True end.
Proof.
  induction l as [|a l IH] using rev_ind; [exact I|].
  rewrite rdropwhile_snoc. destruct (p a) eqn:E; [exact IH|].
  now rewrite last_opt_snoc.
Qed.

Lemma last_opt_none {A} (l : list A) : last_opt l = None -> l = [].
Proof.
  induction l as [|a l IH]; [reflexivity|]. simpl. destruct l; [discriminate|]. intros H. discriminate (IH H).
Qed.

Lemma last_opt_app {A} (l m : list A) : m <> [] -> last_opt (l ++ m) = last_opt m.
Proof.
  intros Hm. induction l as [|x l IH]; [reflexivity|].
  simpl. remember (l ++ m) as q eqn:E. destruct q; [destruct l; simpl in E; congruence|]. exact IH.
Qed.

Lemma last_opt_cons {A} (a : A) l : l <> [] -> last_opt (a :: l) = last_opt l.
Proof. destruct l; [congruence|reflexivity]. Qed.

Lemma rdropwhile_cons_keep {A} (p : A -> bool) a l :
  p a = false -> rdropwhile p (a :: l) = a :: rdropwhile p l.
Proof.
  intros Ha. induction l as [|b l IH] using rev_ind.
  - unfold rdropwhile. simpl. now rewrite Ha.
  - change (a :: l ++ [b]) with ((a :: l) ++ [b]). rewrite !rdropwhile_snoc.
    destruct (p b); [exact IH|reflexivity].
Qed.

Lemma rdropwhile_all {A} (p : A -> bool) l : forallb p l = true -> rdropwhile p l = [].
Proof.
  intros H. rewrite <- (app_nil_l l). rewrite rdropwhile_app_drop by assumption. reflexivity.
Qed.

Lemma rdropwhile_keep_last {A} (p : A -> bool) l c :
  last_opt l = Some c -> p c = false -> rdropwhile p l = l.
Proof.
  intros H Hc. destruct l as [|a l] using rev_ind; [discriminate|].
  rewrite last_opt_snoc in H. injection H as ->. rewrite rdropwhile_snoc. now rewrite Hc.
Qed.

Lemma dropwhile_all {A} (p : A -> bool) l : forallb p l = true -> dropwhile p l = [].
Proof.
  induction l as [|a l IH]; simpl; [reflexivity|]. intros H.
  apply andb_true_iff in H. destruct H as [-> H]. now apply IH.
Qed.

Lemma removelast_snoc {A} (l : list A) a : removelast (l ++ [a]) = l.
Proof. rewrite removelast_app by discriminate. simpl. now rewrite app_nil_r. Qed.

Lemma ends_snoc_inv {A} (l : list A) c :
  last_opt l = Some c -> l = removelast l ++ [c].
Proof.
  intros H. destruct l as [|a l] using rev_ind; [discriminate|].
  rewrite last_opt_snoc in H. injection H as ->. now rewrite removelast_snoc.
Qed.

(** * str.split() *)

Section SplitWs.
Variable p : N -> bool.

Lemma split_ws_aux_word w : forall rest cur,
  forallb (fun c => negb (p c)) w = true ->
  split_ws_aux p (w ++ rest) cur = split_ws_aux p rest (rev w ++ cur).
Proof.
  induction w as [|c w IH]; intros rest cur H; [reflexivity|].
  simpl in H. apply andb_true_iff in H. destruct H as [Hc H].
  apply negb_true_iff in Hc. simpl. rewrite Hc. rewrite IH by assumption.
  now rewrite <- app_assoc.
Qed.

Lemma split_ws_aux_spaces s : forall rest,
  forallb p s = true -> split_ws_aux p (s ++ rest) [] = split_ws_aux p rest [].
Proof.
  induction s as [|c s IH]; intros rest H; [reflexivity|].
  simpl in H. apply andb_true_iff in H. destruct H as [Hc H].
  simpl. rewrite Hc. now apply IH.
Qed.

Definition ws_head (s : str) : bool := match s with [] => true | c :: _ => p c end.

(** a word followed by whitespace or the end *)
Lemma split_ws_word w rest :
  w <> [] -> forallb (fun c => negb (p c)) w = true -> ws_head rest = true ->
  split_ws p (w ++ rest) = w :: split_ws p rest.
Proof.
  intros Hne Hw Hr. unfold split_ws. rewrite split_ws_aux_word by assumption.
  rewrite app_nil_r. destruct rest as [|c rest].
  - simpl. destruct (rev w) eqn:E.
    + apply (f_equal (@rev N)) in E. rewrite rev_involutive in E. simpl in E. congruence.
    + rewrite <- E. now rewrite rev_involutive.
  - simpl in Hr. simpl. rewrite Hr. destruct (rev w) eqn:E.
    + apply (f_equal (@rev N)) in E. rewrite rev_involutive in E. simpl in E. congruence.
    + rewrite <- E. now rewrite rev_involutive.
Qed.

Lemma split_ws_spaces s rest :
  forallb p s = true -> split_ws p (s ++ rest) = split_ws p rest.
Proof. apply split_ws_aux_spaces. Qed.

End SplitWs.

(** * LF line splitting *)

Lemma sl_lf_cons x s cur :
  splitlines_aux is_lf true (x :: s) cur =
  if is_lf x then (rev cur ++ [x]) :: splitlines_aux is_lf true s []
  else splitlines_aux is_lf true s (x :: cur).
Proof.
  cbn [splitlines_aux]. destruct (is_lf x) eqn:E; [|reflexivity].
  unfold is_lf in E. apply N.eqb_eq in E. subst x.
  destruct s as [|y s]; [reflexivity|]. reflexivity.
Qed.

(** the two line-boundary predicates agree on a text whose only boundaries are LF *)
Lemma splitlines_aux_ext (p q : N -> bool) keep : forall n s cur,
  length s <= n ->
  (forall c, In c s -> p c = q c) ->
  splitlines_aux p keep s cur = splitlines_aux q keep s cur.
Proof.
  induction n as [|n IH]; intros s cur Hlen H.
  - destruct s; [reflexivity|simpl in Hlen; lia].
  - destruct s as [|x s]; [reflexivity|]. simpl in Hlen.
    cbn [splitlines_aux]. rewrite <- (H x) by (left; reflexivity).
    destruct (p x).
    + destruct s as [|y s']; [reflexivity|].
      destruct ((x =? 13)%N && (y =? 10)%N).
      * f_equal. apply IH; [simpl in Hlen; lia|]. intros c Hc. apply H. right. right. exact Hc.
      * f_equal. apply IH; [lia|]. intros c Hc. apply H. right. exact Hc.
    + apply IH; [lia|]. intros c Hc. apply H. right. exact Hc.
Qed.

Definition no_lf (s : str) : bool := forallb (fun c => negb (is_lf c)) s.

(** a complete line, then the rest *)
Lemma sl_lf_line b : forall rest cur,
  no_lf b = true ->
  splitlines_aux is_lf true (b ++ LF :: rest) cur =
  (rev cur ++ b ++ [LF]) :: splitlines_aux is_lf true rest [].
Proof.
  induction b as [|c b IH]; intros rest cur H.
  - simpl app. rewrite sl_lf_cons. reflexivity.
  - simpl in H. apply andb_true_iff in H. destruct H as [Hc H].
    apply negb_true_iff in Hc. simpl app. rewrite sl_lf_cons, Hc. rewrite IH by assumption.
    simpl. now rewrite <- app_assoc.
Qed.

(** an unterminated last line *)
Lemma sl_lf_last b : forall cur,
  no_lf b = true ->
  splitlines_aux is_lf true b cur = match rev cur ++ b with [] => [] | l => [l] end.
Proof.
  induction b as [|c b IH]; intros cur H.
  - simpl. rewrite app_nil_r. destruct cur as [|x cur]; [reflexivity|].
    simpl. destruct (rev cur ++ [x]) eqn:E; [now destruct (rev cur)|reflexivity].
  - simpl in H. apply andb_true_iff in H. destruct H as [Hc H].
    apply negb_true_iff in Hc. rewrite sl_lf_cons, Hc. rewrite IH by assumption.
    simpl. now rewrite <- app_assoc.
Qed.

Lemma lines_lf_line b rest : no_lf b = true -> lines_lf (b ++ LF :: rest) = (b ++ [LF]) :: lines_lf rest.
Proof. intros H. unfold lines_lf, splitlines. now rewrite sl_lf_line. Qed.

Lemma lines_lf_last b : no_lf b = true -> b <> [] -> lines_lf b = [b].
Proof.
  intros H Hne. unfold lines_lf, splitlines. rewrite sl_lf_last by assumption.
  simpl. destruct b; [congruence|reflexivity].
Qed.

Lemma lines_lf_nil : lines_lf [] = [].
Proof. reflexivity. Qed.

(** every text is a sequence of LF-terminated lines and a possibly empty unterminated rest *)
Lemma lf_decompose (v : str) :
  exists b rest, no_lf b = true /\ (v = b /\ rest = None \/ exists r, rest = Some r /\ v = b ++ LF :: r).
Proof.
  induction v as [|c v IH].
  - exists [], None. split; [reflexivity|]. left. split; reflexivity.
  - destruct (is_lf c) eqn:E.
    + unfold is_lf in E. apply N.eqb_eq in E. subst c.
      exists [], (Some v). split; [reflexivity|]. right. exists v. split; reflexivity.
    + destruct IH as [b [rest [Hb [[-> ->]|[r [-> ->]]]]]].
      * exists (c :: b), None. split; [simpl; now rewrite E|]. left. split; reflexivity.
      * exists (c :: b), (Some r). split; [simpl; now rewrite E|]. right. exists r. split; reflexivity.
Qed.

(** induction principle: a text is [], an unterminated last line, or a line followed by a text *)
Lemma lines_ind (P : str -> Prop) :
  P [] ->
  (forall b, b <> [] -> no_lf b = true -> P b) ->
  (forall b r, no_lf b = true -> P r -> P (b ++ LF :: r)) ->
  forall v, P v.
Proof.
  intros H0 H1 H2 v.
  assert (G : forall n v, length v <= n -> P v).
  { induction n as [|n IH]; intros w Hlen.
    - destruct w; [exact H0|simpl in Hlen; lia].
    - destruct (lf_decompose w) as [b [rest [Hb [[-> ->]|[r [-> ->]]]]]].
      + destruct b; [exact H0|]. apply H1; [discriminate|assumption].
      + apply H2; [assumption|]. apply IH. rewrite app_length in Hlen. simpl in Hlen. lia. }
  eapply G. reflexivity.
Qed.

(** * split on one character *)

Lemma split_on_app_free c x : forall rest,
  negb (mem_char c x) = true ->
  split_on c (x ++ rest) =
  match split_on c rest with p :: ps => (x ++ p) :: ps | [] => [x] end.
Proof.
  induction x as [|a x IH]; intros rest H.
  - simpl. pose proof (split_on_nonempty c rest). destruct (split_on c rest); [congruence|reflexivity].
  - simpl in H. apply negb_true_iff, orb_false_iff in H. destruct H as [H1 H2].
    simpl. rewrite N.eqb_sym in H1. rewrite H1. rewrite IH by now apply negb_true_iff.
    pose proof (split_on_nonempty c rest). destruct (split_on c rest); [congruence|reflexivity].
Qed.
