(** C10 — tie by regeneration for the ORDERING methods of Deb822DuplicateFieldsParagraphElement
    (Gen/TrStructDup.v, regenerated from lib/debian/_deb822_repro/parsing.py on every run).

    The model (Repro/Struct.v: relocated, d_order_last, d_order_first, d_order_rel, regenerate, d_sort; Repro/Doc.v:
    dpara = the order as a list of (node identity, field) + the name index + the allocation counter) is at LIST
    level; the code works on a LinkedList of heap nodes whose values are key-value pair objects, a dict from names to
    Python list objects holding nodes, and those objects.  The tie is a REFINEMENT through an abstraction relation
    [d_inv io ka hp kvs nls kvd ll d]: [io] maps the model's node identities to heap nodes, [ka] to the pair elements
    they hold; C09's [ll_rep] says that the linked structure is the model's order (through io/ka); the store maps each
    element to its field; the dict has the model's entries, each list object holding the model's nodes (through io);
    list objects of different entries are different objects.  Under the model's own invariant [WfD] (Props/C10.v:
    C10_byname_consistent shows that it holds after every history) each regenerated method ends in a state that
    represents the model function's result, raising exactly when the model reports an exception, with the same kind. *)
From Coq Require Import Lia ZArith List Permutation ZifyBool.
From Verif Require Import Lib.Base Lib.PyStr Lib.Tr Dict.Common Dict.Heap Dict.TrPrims Dict.ProofsLL Dict.ProofsOS
  Dict.Tie Gen.TrLinkedList.
From Verif Require Import Repro.Doc Repro.StructSort Repro.Struct Repro.StructSpec Repro.StructLemmas
  Repro.StructSortProofs Repro.StructProofsPD1 Repro.StructProofsPD2 Repro.StructProofsPD3 Repro.StructProofsPD4 Repro.StructTrPrims Gen.TrStruct Gen.TrStructDup Repro.StructTie.
Import ListNotations.
Local Open Scope Z_scope.

(** * The LinkedList object: C09's regenerated methods run on (heap, record) are the model's pointer-level operations *)
Definition lift_l {A} (r : result A * lst) : mres A (heap * llobj) :=
  match r with (Ok a, s) => MOk a s | (Err e, s) => MErr e s end.

Lemma ll_pack_st s : ll_pack (ll_st s) = s.
Proof. destruct s as [h [hd tl sz]]. unfold ll_st, ll_pack. cbn. now rewrite Nat2Z.id. Qed.

Lemma ll_run_lift {A} f (m : M lst A) hp (ll : llist) :
  (forall h hd tl sz, f h hd tl (Z.of_nat sz) = lift_ll (m (h, mkLL hd tl sz))) ->
  ll_run f hp ll = lift_l (m (hp, ll)).
Proof.
  intros H. unfold ll_run. destruct ll as [hd tl sz]. cbn [ll_head ll_tail ll_size].
  rewrite H. destruct (m _) as [[a|e] s]; cbn [lift_ll lift_l]; now rewrite ll_pack_st.
Qed.

Lemma trp_ll_remove_node_eq hp (ll : llist) i :
  trp_ll_remove_node hp ll i = lift_l (ll_remove_node i (hp, ll)).
Proof. apply ll_run_lift. intros. apply tr_ll_remove_node_eq. Qed.
Lemma trp_ll_insert_node_after_eq hp (ll : llist) new ex :
  trp_ll_insert_node_after hp ll new ex = lift_l (ll_insert_node_after new ex (hp, ll)).
Proof. apply ll_run_lift. intros. apply tr_ll_insert_node_after_eq. Qed.
Lemma trp_ll_insert_node_before_eq hp (ll : llist) new ex :
  trp_ll_insert_node_before hp ll new ex = lift_l (ll_insert_node_before new ex (hp, ll)).
Proof. apply ll_run_lift. intros. apply tr_ll_insert_node_before_eq. Qed.
Lemma trp_ll_append_eq hp (ll : llist) v :
  trp_ll_append hp ll v = lift_l (ll_append v (hp, ll)).
Proof. apply ll_run_lift. intros. apply tr_ll_append_eq. Qed.

Lemma trp_ll_iter_rep hp (ll : llist) L : ll_rep hp ll L -> trp_ll_iter hp ll = Ok (map snd L).
Proof. intros R. unfold trp_ll_iter, ll_read. now apply tr_ll_iter_rep. Qed.
Lemma trp_ll_iter_nodes_rep hp (ll : llist) L : ll_rep hp ll L -> trp_ll_iter_nodes hp ll = Ok (map fst L).
Proof. intros R. unfold trp_ll_iter_nodes, ll_read. now apply tr_ll_iter_nodes_rep. Qed.

(** * Representation: a state of a Deb822DuplicateFieldsParagraphElement represents a model paragraph [dpara].
    [io n] is the heap node that stands for the model's node [n], [ka n] the key-value pair element it holds. *)
Section Rel.
Variables (io : N -> id) (ka : N -> kvelem).

Definition g (nf : N * field) : id * str := (io (fst nf), ka (fst nf)).

Record d_inv (hp : heap) (kvs : kvstore) (nls : nlstore) (kvd : kvdd) (ll : llobj) (d : dpara) : Prop := mkDInv {
  di_ll : ll_rep hp ll (map g (d_order d));
  di_kv : NoDup (map ka (map fst (d_order d)));
  di_store : Forall (fun nf : N * field => t_get (ka (fst nf)) kvs = Some (snd nf)) (d_order d);
  di_by : Forall2 (fun (e : str * list N) (c : str * nlref) =>
                     fst e = fst c /\ nl_get nls (snd c) = Some (map io (snd e))) (d_byname d) kvd;
  di_refs : NoDup (map snd kvd);
}.

Lemma map_fst_g o : map fst (map g o) = map io (map fst o).
Proof. rewrite !map_map. reflexivity. Qed.
Lemma map_snd_g o : map snd (map g o) = map ka (map fst o).
Proof. rewrite !map_map. reflexivity. Qed.

(** [io] is injective on the nodes of the list *)
Lemma NoDup_map_inj {X Y} (f : X -> Y) l a b : NoDup (map f l) -> In a l -> In b l -> f a = f b -> a = b.
Proof.
  induction l as [|x l IH]; cbn [map In]; [tauto|]. intros Hnd Ha Hb E. inversion Hnd as [|? ? Hn Hnd']; subst.
  destruct Ha as [->|Ha], Hb as [->|Hb]; [reflexivity| | |now apply IH].
  - exfalso. apply Hn. rewrite E. now apply in_map.
  - exfalso. apply Hn. rewrite <- E. now apply in_map.
Qed.

Lemma io_inj hp ll o a b :
  ll_rep hp ll (map g o) -> In a (map fst o) -> In b (map fst o) -> io a = io b -> a = b.
Proof.
  intros R. apply NoDup_map_inj. pose proof (lr_nodup _ _ _ R) as H. unfold ProofsLL.ids in H.
  now rewrite map_fst_g in H.
Qed.

(** the dict: same keys in the same order, each list object holds the nodes of the model's entry *)
Lemma by_lookup nls (bn : list (str * list N)) (kvd : kvdd) k :
  Forall2 (fun e c => fst e = fst c /\ nl_get nls (snd c) = Some (map io (snd e))) bn kvd ->
  match assoc_get k bn with
  | Some l => exists r, t_get k kvd = Some r /\ nl_get nls r = Some (map io l)
  | None => t_get k kvd = None
  end.
Proof.
  induction 1 as [|[k1 l1] [k2 r2] bn kvd [Hk Hl] _ IH]; cbn [assoc_get t_get]; [reflexivity|].
  cbn [fst snd] in *. subst k2. destruct (str_eqb k k1); [eauto|exact IH].
Qed.
End Rel.

(** * The store of list objects *)
Lemma nl_get_app s x r l : nl_get s r = Some l -> nl_get (s ++ x) r = Some l.
Proof.
  unfold nl_get. intros H. rewrite nth_error_app1; [exact H|]. apply nth_error_Some. congruence.
Qed.
Lemma nl_get_new s l : nl_get (s ++ [l]) (N.of_nat (length s)) = Some l.
Proof. unfold nl_get. rewrite Nat2N.id, nth_error_app2 by lia. now rewrite Nat.sub_diag. Qed.
Lemma nl_get_valid s r l : nl_get s r = Some l -> (N.to_nat r < length s)%nat.
Proof. unfold nl_get. intros H. apply nth_error_Some. congruence. Qed.

Lemma nl_set_nth_same s : forall n l, (n < length s)%nat -> nth_error (nl_set_nth s n l) n = Some l.
Proof. induction s as [|a s IH]; intros [|n] l H; cbn in *; try lia; [reflexivity|]. apply IH. lia. Qed.
Lemma nl_set_nth_other s : forall n m l, n <> m -> nth_error (nl_set_nth s n l) m = nth_error s m.
Proof.
  induction s as [|a s IH]; intros [|n] [|m] l H; cbn; try reflexivity; try congruence. apply IH. congruence.
Qed.
Lemma nl_set_nth_length s : forall n l, length (nl_set_nth s n l) = length s.
Proof. induction s as [|a s IH]; intros [|n] l; cbn; try reflexivity. now rewrite IH. Qed.

Lemma nl_get_set_same s r l l0 : nl_get s r = Some l0 -> nl_get (nl_set s r l) r = Some l.
Proof. intros H. unfold nl_get, nl_set. apply nl_set_nth_same. now apply nl_get_valid in H. Qed.
Lemma nl_get_set_other s r r' l : r <> r' -> nl_get (nl_set s r l) r' = nl_get s r'.
Proof. intros H. unfold nl_get, nl_set. apply nl_set_nth_other. intros E. apply H. now apply N2Nat.inj. Qed.
Lemma nl_set_length s r l : length (nl_set s r l) = length s.
Proof. apply nl_set_nth_length. Qed.

(** [nls'] keeps every list object of [nls] *)
Definition nl_ext (nls nls' : nlstore) : Prop := forall r l, nl_get nls r = Some l -> nl_get nls' r = Some l.

Lemma nl_ext_refl s : nl_ext s s.
Proof. intros r l H. exact H. Qed.
Lemma nl_ext_trans a b c : nl_ext a b -> nl_ext b c -> nl_ext a c.
Proof. intros H1 H2 r l H. apply H2, H1, H. Qed.
Lemma nl_ext_app s x : nl_ext s (s ++ x).
Proof. intros r l H. now apply nl_get_app. Qed.
Lemma nl_ext_new s l0 l1 : nl_ext s (nl_set (s ++ [l0]) (N.of_nat (length s)) l1).
Proof.
  intros r l H. rewrite nl_get_set_other; [now apply nl_get_app|].
  intros E. apply nl_get_valid in H. rewrite <- E, Nat2N.id in H. lia.
Qed.

Section Rel2.
Variables (io : N -> id) (ka : N -> kvelem).
Notation d_inv := (d_inv io ka).
Notation gg := (g io ka).

Lemma by_valid nls (bn : list (str * list N)) (kvd : kvdd) r :
  Forall2 (fun e c => fst e = fst c /\ nl_get nls (snd c) = Some (map io (snd e))) bn kvd ->
  In r (map snd kvd) -> (N.to_nat r < length nls)%nat.
Proof.
  induction 1 as [|e c bn kvd [_ Hl] _ IH]; cbn [map In]; [tauto|]. intros [<-|H]; [|now apply IH].
  now apply nl_get_valid in Hl.
Qed.

Lemma d_inv_nls hp kvs nls nls' kvd ll d :
  nl_ext nls nls' -> d_inv hp kvs nls kvd ll d -> d_inv hp kvs nls' kvd ll d.
Proof.
  intros Hk [A B C D E]. constructor; auto.
  clear -Hk D. induction D as [|e c bn kvd [Hf Hl] _ IH]; constructor; [|exact IH].
  split; [exact Hf|]. now apply Hk.
Qed.

(** ** the readers *)
Theorem tr_d_iter_parts_rep hp kvs nls kvd ll d :
  d_inv hp kvs nls kvd ll d -> tr_d_iter_parts lower hp kvs nls kvd ll = Ok (map ka (map fst (d_order d))).
Proof.
  intros I. unfold tr_d_iter_parts. rewrite (trp_ll_iter_rep _ _ _ (di_ll _ _ _ _ _ _ _ _ I)). cbn [bind app].
  now rewrite map_snd_g.
Qed.

Theorem tr_d_kvpair_count_rep hp kvs nls kvd ll d :
  d_inv hp kvs nls kvd ll d -> tr_d_kvpair_count lower hp kvs nls kvd ll = Ok (Z.of_nat (length (d_order d))).
Proof.
  intros I. unfold tr_d_kvpair_count, trp_ll_len. rewrite (lr_size _ _ _ (di_ll _ _ _ _ _ _ _ _ I)).
  now rewrite map_length.
Qed.

Lemma store_get kvs (o : list (N * field)) nf :
  Forall (fun nf : N * field => t_get (ka (fst nf)) kvs = Some (snd nf)) o -> In nf o ->
  t_get (ka (fst nf)) kvs = Some (snd nf).
Proof. intros F Hin. rewrite Forall_forall in F. now apply F. Qed.

Theorem tr_d_iter_keys_rep hp kvs nls kvd ll d :
  d_inv hp kvs nls kvd ll d -> tr_d_iter_keys lower hp kvs nls kvd ll = Ok (map f_name (map snd (d_order d))).
Proof.
  intros I. unfold tr_d_iter_keys. rewrite (trp_ll_iter_rep _ _ _ (di_ll _ _ _ _ _ _ _ _ I)). cbn [bind app].
  rewrite !map_map.
  rewrite (tr_mapM_map _ (fun nf : N * field => snd (gg nf)) (fun nf => f_name (snd nf))); [reflexivity|].
  intros nf Hin. unfold g; cbn [snd fst]. unfold trp_kv_field_name.
  now rewrite (store_get _ _ _ (di_store _ _ _ _ _ _ _ _ I) Hin).
Qed.

(** ** _ensure_final_newline *)
Lemma d_ensure_loop_last it : forall hp kvs nls kvd ll lk,
  tr_d_ensure_final_newline_loop1 it lower hp kvs nls kvd ll lk
  = tr_d_ensure_final_newline_loop1 [] lower hp kvs nls kvd ll (match last_opt it with Some x => Some x | None => lk end).
Proof.
  intros. rewrite <- fold_last_opt. revert lk.
  induction it as [|x it IH]; intros; [reflexivity|]. cbn [fold_left]. rewrite <- IH. reflexivity.
Qed.

Lemma d_ensure_nl_snoc (o : list (N * field)) nf :
  d_ensure_nl (o ++ [nf]) = o ++ [(fst nf, add_nl (snd nf))].
Proof. unfold d_ensure_nl. rewrite map_last_snoc. reflexivity. Qed.

Lemma map_fst_ensure_nl o : map fst (d_ensure_nl o) = map fst o.
Proof. unfold d_ensure_nl. apply map_last_map. reflexivity. Qed.
Lemma map_g_ensure_nl o : map gg (d_ensure_nl o) = map gg o.
Proof. unfold d_ensure_nl. apply map_last_map. reflexivity. Qed.

Theorem tr_d_ensure_rep hp kvs nls kvd ll d :
  d_inv hp kvs nls kvd ll d ->
  exists kvs', tr_d_ensure_final_newline lower hp kvs nls kvd ll = MOk tt (hp, kvs', nls, kvd, ll)
               /\ d_inv hp kvs' nls kvd ll (d_ensure d).
Proof.
  intros I. pose proof I as [A B C D E]. unfold tr_d_ensure_final_newline.
  rewrite (tr_d_iter_parts_rep _ _ _ _ _ _ I), d_ensure_loop_last.
  destruct (list_snoc_cases (d_order d)) as [Eo|(o & nf & Eo)].
  - rewrite Eo. exists kvs. split; [reflexivity|]. destruct d as [od bn nx]. cbn in Eo. subst od. exact I.
  - rewrite Eo, !map_app. cbn [map]. rewrite last_opt_snoc. cbn [tr_d_ensure_final_newline_loop1].
    rewrite Eo in C, B. apply Forall_app in C as [Co Cn]. inversion Cn as [|? ? Hn _]; subst.
    unfold trp_kv_value_element, trp_ve_add_final_newline. rewrite Hn.
    eexists. split; [reflexivity|]. unfold d_ensure, with_order. constructor; cbn [d_order d_byname].
    + rewrite map_g_ensure_nl. exact A.
    + rewrite map_fst_ensure_nl, Eo. exact B.
    + rewrite Eo, d_ensure_nl_snoc. apply Forall_app. split.
      * rewrite Forall_forall in *. intros x Hx. rewrite t_get_set.
        destruct (str_eqb _ _) eqn:Ek; [|now apply Co]. apply str_eqb_eq in Ek. exfalso.
        rewrite !map_app in B. cbn [map] in B. apply NoDup_remove_2 in B. apply B. rewrite app_nil_r.
        rewrite <- Ek. apply in_map. now apply in_map.
      * constructor; [|constructor]. cbn [fst snd]. now rewrite t_get_set, str_eqb_refl.
    + exact D.
    + exact E.
Qed.
End Rel2.

(** * Python list indexing *)
Lemma tr_index_py {A} (l : list A) i :
  tr_index l i = match py_index l i with Some x => Ok x | None => Err IndexError end.
Proof.
  unfold tr_index, py_index. cbv zeta. set (j := if (i <? 0) then i + Z.of_nat (length l) else i).
  destruct (j <? 0) eqn:E1; cbn [orb]; [reflexivity|].
  destruct (Z.of_nat (length l) <=? j) eqn:E2.
  - assert (H : nth_error l (Z.to_nat j) = None) by (apply nth_error_None; lia). now rewrite H.
  - reflexivity.
Qed.

Lemma py_index_0 {A} (l : list A) : py_index l 0 = hd_error l.
Proof. unfold py_index. cbv zeta. destruct l as [|a l]; [reflexivity|]. cbn [length]. 
  replace (0 <? 0) with false by reflexivity. cbn [orb]. 
  destruct (Z.of_nat (S (length l)) <=? 0) eqn:E; [lia|reflexivity]. Qed.

Lemma nth_error_last {A} (l : list A) : nth_error l (length l - 1) = last_opt l.
Proof.
  induction l as [|a l IH]; [reflexivity|]. destruct l as [|b l]; [reflexivity|].
  cbn [length last_opt] in *. replace (S (S (length l)) - 1)%nat with (S (S (length l) - 1)) by lia. exact IH.
Qed.

Lemma py_index_m1 {A} (l : list A) : py_index l (-1) = last_opt l.
Proof.
  unfold py_index. cbv zeta. destruct l as [|a l]; [reflexivity|].
  replace (-1 <? 0) with true by reflexivity.
  assert (E1 : (-1 + Z.of_nat (length (a :: l)) <? 0) = false) by (cbn [length]; lia).
  assert (E2 : (Z.of_nat (length (a :: l)) <=? -1 + Z.of_nat (length (a :: l))) = false) by lia.
  rewrite E1, E2. cbn [orb]. rewrite <- nth_error_last. f_equal. cbn [length]. lia.
Qed.


(** _resolve_to_single_node as regenerated = the direct function of StructTrPrims.v (on a live list object, without a name
    token): Ambiguous (KeyError) unless exactly one node or an index; the index out of range is KeyError *)
Lemma tr_d_resolve_eq nls r l key index :
  nl_get nls r = Some l ->
  tr_d_resolve_to_single_node nls r key index None = trp_resolve_to_single_node nls r key index None.
Proof.
  intros H. unfold tr_d_resolve_to_single_node, trp_resolve_to_single_node, nl_look, trp_nl_len_total, trp_nl_getitem, nl_look.
  rewrite H. cbv zeta.
  assert (G : forall i, (match (do tmp1_ <- tr_index l i; Ok tmp1_) with
                         | Ok tmp2_ => Ok (Some tmp2_)
                         | Err IndexError => Err KeyError
                         | Err tmp3_ => Err tmp3_
                         end) = match py_index l i with Some n => Ok (Some n) | None => Err KeyError end).
  { intros i. rewrite tr_index_py. destruct (py_index l i); reflexivity. }
  destruct index as [i|].
  - apply G.
  - destruct l as [|x [|y t]].
    + reflexivity.
    + unfold tr_len. cbn [length]. replace (Z.of_nat 1 =? 1) with true by reflexivity. cbn [negb]. apply G.
    + replace (tr_len (x :: y :: t) =? 1) with false by (unfold tr_len; cbn [length]; lia). reflexivity.
Qed.

Lemma t_get_some_in {V} (t : tbl V) k v : t_get k t = Some v -> In v (map snd t).
Proof.
  induction t as [|[k0 v0] t IH]; cbn [t_get map snd In]; [discriminate|].
  destruct (str_eqb k k0); [intros [= ->]; now left|intros H; right; now apply IH].
Qed.

Lemma py_index_map {X Y} (f : X -> Y) l i : py_index (map f l) i = option_map f (py_index l i).
Proof.
  unfold py_index. rewrite map_length. cbv zeta. destruct (_ || _); [reflexivity|]. apply nth_error_map.
Qed.

Section Rel3.
Variables (io : N -> id) (ka : N -> kvelem).
Notation d_inv := (d_inv io ka).
Notation gg := (g io ka).

(** ** _nodes_being_relocated: the model's [relocated]; the two lists it returns are list objects *)
Lemma tr_d_reloc_spec hp kvs nls kvd ll d k :
  d_inv hp kvs nls kvd ll d ->
  match relocated d k with
  | Err e => exists nls', tr_d_nodes_being_relocated lower hp kvs nls kvd ll k = MErr e (hp, kvs, nls', kvd, ll)
                          /\ nl_ext nls nls'
  | Ok (key, nodes, reloc) =>
      exists nls' r r',
        tr_d_nodes_being_relocated lower hp kvs nls kvd ll k = MOk (r, r') (hp, kvs, nls', kvd, ll)
        /\ nl_ext nls nls'
        /\ t_get key kvd = Some r
        /\ nl_get nls' r = Some (map io nodes)
        /\ nl_get nls' r' = Some (map io reloc)
        /\ (r' = r \/ ~ In r' (map snd kvd))
  end.
Proof.
  intros I. pose proof (di_by _ _ _ _ _ _ _ _ I) as By.
  unfold relocated, tr_d_nodes_being_relocated, trp_unpack_key.
  assert (Hnew : nl_ext nls (nls ++ [[]])) by apply nl_ext_app.
  destruct k as [n|n i]; cbn [unpack_key bind]; unfold trp_kvdd_get;
    pose proof (by_lookup io nls _ _ (lower n) By) as Hl;
    destruct (assoc_get (lower n) (d_byname d)) as [nodes|].
  - destruct Hl as (r & Hr & Hn). rewrite Hr. unfold trp_nl_new. cbn [tr_is_some orb].
    exists (nls ++ [[]]), r, r. split; [reflexivity|]. split; [exact Hnew|]. split; [first [exact Hr|reflexivity]|].
    split; [now apply nl_get_app|]. split; [now apply nl_get_app|]. now left.
  - rewrite Hl. exists nls. split; [reflexivity|apply nl_ext_refl].
  - destruct Hl as (r & Hr & Hn). rewrite Hr. unfold trp_nl_new. cbn [tr_is_some orb].
    rewrite (tr_d_resolve_eq _ _ _ _ _ (nl_get_app _ _ _ _ Hn)).
    unfold trp_resolve_to_single_node, nl_look, resolve_single. rewrite (nl_get_app _ _ _ _ Hn), py_index_map.
    destruct (py_index nodes i) as [x|]; cbn [option_map].
    + cbn [tr_is_some negb trp_assume_some]. unfold trp_nl_append, nl_upd. rewrite nl_get_new.
      exists (nl_set (nls ++ [[]]) (N.of_nat (length nls)) [io x]), r, (N.of_nat (length nls)).
      assert (Hfresh : ~ In (N.of_nat (length nls)) (map snd kvd)).
      { intros Hin. apply (by_valid io ka _ _ _ _ By) in Hin. rewrite Nat2N.id in Hin. lia. }
      assert (Hr_ne : N.of_nat (length nls) <> r).
      { intros E. apply Hfresh. rewrite E. apply t_get_some_in in Hr. exact Hr. }
      split; [reflexivity|]. split; [apply nl_ext_new|].
      split; [first [exact Hr|reflexivity]|]. split.
      { rewrite nl_get_set_other by exact Hr_ne. now apply nl_get_app. }
      split; [|now right]. cbn [map app]. eapply nl_get_set_same. apply nl_get_new.
    + exists (nls ++ [[]]). split; [reflexivity|exact Hnew].
  - rewrite Hl. exists nls. split; [reflexivity|apply nl_ext_refl].
Qed.
End Rel3.

(** * Moving a node inside the linked list (pointer level, from Dict/ProofsLL.v): remove_node, then insert_node_* *)
Lemma ll_take h ll l1 i k l2 :
  ll_rep h ll (l1 ++ (i, k) :: l2) ->
  exists h1 ll1, ll_remove_node i (h, ll) = (Ok tt, (h1, ll1)) /\ ll_rep h1 ll1 (l1 ++ l2)
                 /\ is_new h1 (l1 ++ l2) i k.
Proof.
  intros R. destruct (ll_remove_node_spec _ _ _ _ _ _ R) as (h1 & ll1 & E & R1 & Hi & Nx & _).
  exists h1, ll1. split; [exact E|]. split; [exact R1|]. split; [exact Hi|]. split.
  - pose proof (lr_nodup _ _ _ R) as Hnd. destruct (nodup_mid _ _ _ _ Hnd) as (H1 & H2 & _).
    rewrite in_ids_app. tauto.
  - rewrite Nx. apply (lr_bound _ _ _ R). rewrite in_ids_app, ids_cons. right. now left.
Qed.

Lemma ll_move_after h ll l1 i k l2 c e ke d :
  ll_rep h ll (l1 ++ (i, k) :: l2) -> l1 ++ l2 = c ++ (e, ke) :: d ->
  exists h1 ll1 h2 ll2,
    ll_remove_node i (h, ll) = (Ok tt, (h1, ll1)) /\ ll_rep h1 ll1 (l1 ++ l2)
    /\ ll_insert_node_after i e (h1, ll1) = (Ok i, (h2, ll2))
    /\ ll_rep h2 ll2 (c ++ (e, ke) :: (i, k) :: d).
Proof.
  intros R Es. destruct (ll_take _ _ _ _ _ _ R) as (h1 & ll1 & E1 & R1 & New).
  rewrite Es in New. pose proof R1 as R1'. rewrite Es in R1'.
  destruct (ll_insert_node_after_spec _ _ _ _ _ _ _ _ R1' New) as (h2 & ll2 & E2 & R2 & _).
  exists h1, ll1, h2, ll2. auto.
Qed.

Lemma ll_move_before h ll l1 i k l2 c e ke d :
  ll_rep h ll (l1 ++ (i, k) :: l2) -> l1 ++ l2 = c ++ (e, ke) :: d ->
  exists h1 ll1 h2 ll2,
    ll_remove_node i (h, ll) = (Ok tt, (h1, ll1)) /\ ll_rep h1 ll1 (l1 ++ l2)
    /\ ll_insert_node_before i e (h1, ll1) = (Ok i, (h2, ll2))
    /\ ll_rep h2 ll2 (c ++ (i, k) :: (e, ke) :: d).
Proof.
  intros R Es. destruct (ll_take _ _ _ _ _ _ R) as (h1 & ll1 & E1 & R1 & New).
  rewrite Es in New. pose proof R1 as R1'. rewrite Es in R1'.
  destruct (ll_insert_node_before_spec _ _ _ _ _ _ _ _ R1' New) as (h2 & ll2 & E2 & R2 & _).
  exists h1, ll1, h2, ll2. auto.
Qed.

Lemma last_id_snoc' l i k : last_id (l ++ [(i, k)]) None = Some i.
Proof. apply last_id_snoc. Qed.

(** * The model's list operations at a split of the order *)
Lemma order_split (o : order) n :
  In n (ids o) -> exists o1 f o2, o = o1 ++ (n, f) :: o2.
Proof.
  intros H. apply in_map_iff in H as ([n' f] & E & Hin). cbn in E. subst n'.
  apply in_split in Hin as (o1 & o2 & ->). eauto.
Qed.

Lemma nodup_split_notin (o1 : order) nf o2 :
  NoDup (ids (o1 ++ nf :: o2)) -> (forall y, In y o1 -> fst y <> fst nf) /\ (forall y, In y o2 -> fst y <> fst nf).
Proof.
  intros H. unfold ids in H. rewrite map_app in H. cbn [map] in H. pose proof (NoDup_remove_2 _ _ _ H) as Hn.
  split; intros y Hy E; apply Hn; rewrite in_app_iff; [left|right]; rewrite <- E; now apply in_map.
Qed.

Lemma rm_split (o1 : order) nf o2 :
  NoDup (ids (o1 ++ nf :: o2)) -> rm (fst nf) (o1 ++ nf :: o2) = o1 ++ o2.
Proof.
  intros H. destruct (nodup_split_notin _ _ _ H) as [H1 H2].
  rewrite rm_app. change (nf :: o2) with ([nf] ++ o2). rewrite rm_app.
  rewrite (rm_absent _ o1 H1), (rm_absent _ o2 H2). unfold rm. cbn [filter]. unfold is_node. rewrite N.eqb_refl. reflexivity.
Qed.

Section Rel4.
Variables (io : N -> id) (ka : N -> kvelem).
Notation d_inv := (d_inv io ka).
Notation gg := (g io ka).

Lemma gg_tail (o : order) e : last_id (map gg (o ++ [e])) None = Some (io (fst e)).
Proof. rewrite map_app. cbn [map]. apply last_id_snoc. Qed.

Lemma gg_tail2 (a : order) x b e : last_id (map gg (a ++ x :: b ++ [e])) None = Some (io (fst e)).
Proof. change (a ++ x :: b ++ [e]) with (a ++ (x :: b) ++ [e]). rewrite app_assoc. apply gg_tail. Qed.

Lemma in_ids_mid (o1 : order) nf o2 : In (fst nf) (ids (o1 ++ nf :: o2)).
Proof. unfold ids. rewrite map_app. cbn [map]. apply in_elt. Qed.

(** ** order_last: the loop *)
Lemma d_order_last_loop reloc : forall hp (ll : llist) (o : order),
  ll_rep hp ll (map gg o) -> NoDup (ids o) -> (forall n, In n reloc -> In n (ids o)) ->
  exists o' hp' ll',
    fold_left step_last reloc (Ok o) = Ok o' /\ Permutation o o' /\ ll_rep hp' ll' (map gg o')
    /\ forall lw field kvs nls kvd nodes nbr,
         tr_d_order_last_loop1 (map io reloc) lw field hp kvs nls kvd ll nodes nbr
         = tr_d_order_last_loop1 [] lw field hp' kvs nls kvd ll' nodes nbr.
Proof.
  induction reloc as [|n reloc IH]; intros hp ll o R Hnd Hin.
  - exists o, hp, ll. split; [reflexivity|]. split; [reflexivity|]. split; [exact R|]. reflexivity.
  - destruct (order_split o n (Hin n (or_introl eq_refl))) as (o1 & f & o2 & ->).
    cbn [fold_left]. pose proof (step_last_ok _ (n, f) Hnd (in_elt _ _ _)) as Es. cbn [fst] in Es.
    fold (rm n (o1 ++ (n, f) :: o2)) in Es. pose proof (rm_split o1 (n, f) o2 Hnd) as Er. cbn [fst] in Er.
    rewrite Er in Es. rewrite Es. clear Es Er.
    assert (Hperm : Permutation (o1 ++ (n, f) :: o2) ((o1 ++ o2) ++ [(n, f)])).
    { rewrite <- app_assoc. apply Permutation_app_head. apply Permutation_cons_append. }
    assert (Hnd' : NoDup (ids ((o1 ++ o2) ++ [(n, f)]))).
    { eapply Permutation_NoDup; [apply ids_perm; exact Hperm|exact Hnd]. }
    assert (Hin' : forall m, In m reloc -> In m (ids ((o1 ++ o2) ++ [(n, f)]))).
    { intros m Hm. eapply Permutation_in; [apply ids_perm; exact Hperm|]. apply Hin. now right. }
    destruct (list_snoc_cases o2) as [->|(o2' & e & ->)].
    + (* already last: continue *)
      rewrite app_nil_r in *.
      destruct (IH hp ll (o1 ++ [(n, f)]) R Hnd') as (o' & hp' & ll' & Ef & Hp & R' & Eq); [exact Hin'|].
      exists o', hp', ll'. split; [exact Ef|]. split; [exact Hp|]. split; [exact R'|].
      intros. cbn [map tr_d_order_last_loop1]. unfold trp_ll_tail. rewrite (lr_tail _ _ _ R), gg_tail. cbn [fst].
      rewrite oid_eqb_refl. apply Eq.
    + (* remove_node, insert_node_after(node, tail_node) *)
      assert (Hne : fst e <> n).
      { destruct (nodup_split_notin _ _ _ Hnd) as [_ H2]. apply (H2 e). apply in_or_app. right. now left. }
      assert (Hio : io (fst e) <> io n).
      { intros E. apply Hne. apply (io_inj io ka _ _ _ _ _ R); [| |exact E].
        - apply in_map. apply in_or_app. right. right. apply in_or_app. right. now left.
        - apply (in_ids_mid o1 (n, f)). }
      pose proof R as R0. rewrite map_app in R0. cbn [map] in R0. change (gg (n, f)) with (io n, ka n) in R0.
      destruct (ll_move_after hp ll _ _ _ _ (map gg (o1 ++ o2')) (io (fst e)) (ka (fst e)) [] R0)
        as (h1 & ll1 & h2 & ll2 & E1 & R1 & E2 & R2).
      { rewrite <- map_app, app_assoc, map_app. reflexivity. }
      assert (R2' : ll_rep h2 ll2 (map gg ((o1 ++ o2' ++ [e]) ++ [(n, f)]))).
      { rewrite app_assoc, !map_app. cbn [map]. rewrite <- !app_assoc. cbn [app]. rewrite map_app, <- app_assoc in R2. exact R2. }
      destruct (IH h2 ll2 _ R2' Hnd' Hin') as (o' & hp' & ll' & Ef & Hp & R' & Eq).
      exists o', hp', ll'. split; [exact Ef|]. split; [etransitivity; [exact Hperm|exact Hp]|]. split; [exact R'|].
      intros. cbn [map tr_d_order_last_loop1]. unfold trp_ll_tail at 1.
      rewrite (lr_tail _ _ _ R), gg_tail2. rewrite (oid_eqb_neq (Some (io (fst e))) (Some (io n))) by congruence.
      rewrite trp_ll_remove_node_eq, E1. cbn [lift_l]. unfold trp_ll_tail.
      rewrite (lr_tail _ _ _ R1), <- map_app, app_assoc, gg_tail. cbn [tr_is_some negb trp_assume_some].
      rewrite trp_ll_insert_node_after_eq, E2. cbn [lift_l]. apply Eq.
Qed.
End Rel4.

Section Rel5.
Variables (io : N -> id) (ka : N -> kvelem).
Notation d_inv := (d_inv io ka).
Notation gg := (g io ka).

Lemma nl_remove_first_map (l : list N) x :
  (forall a b, In a l -> In b l -> io a = io b -> a = b) -> In x l ->
  nl_remove_first (io x) (map io l) = Some (map io (remove_first (N.eqb x) l)).
Proof.
  induction l as [|a l IH]; intros Hinj Hin; [destruct Hin|]. cbn [map nl_remove_first remove_first].
  destruct (N.eqb x a) eqn:E.
  - apply N.eqb_eq in E. subst a. now rewrite Pos.eqb_refl.
  - assert (Hne : io a <> io x).
    { intros Ei. apply N.eqb_neq in E. apply E. symmetry. apply Hinj; [now left|exact Hin|exact Ei]. }
    apply Pos.eqb_neq in Hne. rewrite Hne. rewrite IH.
    + reflexivity.
    + intros p q Hp Hq. apply Hinj; now right.
    + destruct Hin as [->|Hin]; [|exact Hin]. rewrite N.eqb_refl in E. discriminate.
Qed.

Lemma by_set_other nls (bn : list (str * list N)) (kvd : kvdd) r l :
  Forall2 (fun e c => fst e = fst c /\ nl_get nls (snd c) = Some (map io (snd e))) bn kvd ->
  ~ In r (map snd kvd) ->
  Forall2 (fun e c => fst e = fst c /\ nl_get (nl_set nls r l) (snd c) = Some (map io (snd e))) bn kvd.
Proof.
  induction 1 as [|e c bn kvd [Hf Hg] F IH]; intros Hn; constructor.
  - split; [exact Hf|]. rewrite nl_get_set_other; [exact Hg|]. intros Er. apply Hn. rewrite Er. now left.
  - apply IH. intros Hi. apply Hn. now right.
Qed.

(** the list object of one dict entry is changed in place: the model's [assoc_set] of an existing key *)
Lemma by_update nls (bn : list (str * list N)) (kvd : kvdd) key r l l' l0 :
  Forall2 (fun e c => fst e = fst c /\ nl_get nls (snd c) = Some (map io (snd e))) bn kvd ->
  NoDup (map snd kvd) -> t_get key kvd = Some r -> assoc_get key bn = Some l -> nl_get nls r = Some l0 ->
  Forall2 (fun e c => fst e = fst c /\ nl_get (nl_set nls r (map io l')) (snd c) = Some (map io (snd e)))
          (assoc_set key l' bn) kvd.
Proof.
  intros F. revert r. induction F as [|[k1 l1] [k2 r2] bn kvd [Hk Hl] F IH]; intros r Hnd Hr Hb H0; [discriminate|].
  cbn [fst snd] in *. subst k2. cbn [t_get assoc_get assoc_set map snd] in *. inversion Hnd as [|? ? Hn Hnd']; subst.
  destruct (str_eqb key k1) eqn:E.
  - inversion Hr; inversion Hb; subst. constructor.
    + cbn [fst snd]. split; [reflexivity|]. eapply nl_get_set_same. exact H0.
    + now apply by_set_other.
  - constructor.
    + cbn [fst snd]. split; [reflexivity|]. rewrite nl_get_set_other; [exact Hl|]. intros Er. apply Hn. rewrite <- Er.
      now apply t_get_some_in in Hr.
    + now apply IH.
Qed.
End Rel5.

Lemma reloc_facts d k key nodes reloc :
  WfD d -> relocated d k = Ok (key, nodes, reloc) ->
  nodes <> [] /\ assoc_get key (d_byname d) = Some nodes
  /\ (forall n, In n nodes -> In n (ids (d_order d)))
  /\ (reloc = nodes \/ exists x, reloc = [x] /\ In x nodes).
Proof.
  intros Hwf Hr. pose proof (relocated_select d k Hwf) as H. cbn zeta in H. rewrite Hr in H.
  destruct H as (_ & Hnodes & Hne & Hget & Hshape & _).
  split; [exact Hne|]. split; [exact Hget|]. split.
  - intros n Hn. rewrite Hnodes in Hn. now apply ids_named_incl in Hn.
  - destruct (snd (key_parts k)); [right|now left]. destruct Hshape as (x & Hx & ->). exists x. split; [reflexivity|].
    now apply py_index_In in Hx.
Qed.

(** * Refinement for the duplicates class *)
Definition dst := (heap * kvstore * nlstore * kvdd * llobj)%type.
Definition d_rep_st (st : dst) (d : dpara) : Prop :=
  let '(hp, kvs, nls, kvd, ll) := st in exists io ka, d_inv io ka hp kvs nls kvd ll d.
Definition d_refines (r : mres unit dst) (m : sres dpara) : Prop :=
  exists st', r = mres_of (fst m) st' /\ d_rep_st st' (snd m).

Section Rel6.
Variables (io : N -> id) (ka : N -> kvelem).
Notation d_inv := (d_inv io ka).
Notation gg := (g io ka).

Lemma d_refines_fail e hp kvs nls kvd ll d :
  d_inv hp kvs nls kvd ll d -> d_refines (MErr e (hp, kvs, nls, kvd, ll)) (fail e d).
Proof. intros H. exists (hp, kvs, nls, kvd, ll). split; [reflexivity|]. now exists io, ka. Qed.

Lemma nl_len_get nls r l : nl_get nls r = Some l -> trp_nl_len nls r = Ok (Z.of_nat (length l)).
Proof. intros H. unfold trp_nl_len, nl_look. now rewrite H. Qed.
Lemma nl_getitem_get nls r l i :
  nl_get nls r = Some l -> trp_nl_getitem nls r i = match py_index l i with Some x => Ok x | None => Err IndexError end.
Proof. intros H. unfold trp_nl_getitem, nl_look. rewrite H. apply tr_index_py. Qed.
Lemma nl_iter_get nls r l : nl_get nls r = Some l -> trp_nl_iter nls r = Ok l.
Proof. intros H. unfold trp_nl_iter, nl_look. now rewrite H. Qed.
Lemma nl_reversed_get nls r l : nl_get nls r = Some l -> trp_nl_reversed nls r = Ok (rev l).
Proof. intros H. unfold trp_nl_reversed, nl_look. now rewrite H. Qed.

(** the assertion of the order_* methods holds *)
Lemma reloc_assert nls r r' (nodes reloc : list N) :
  nl_get nls r = Some (map io nodes) -> nl_get nls r' = Some (map io reloc) ->
  (reloc = nodes \/ exists x, reloc = [x] /\ In x nodes) ->
  (do tmp4_ <- trp_nl_len nls r';
   (if (tmp4_ =? 1) then Ok true
    else (do tmp5_ <- trp_nl_len nls r; (do tmp6_ <- trp_nl_len nls r'; Ok (tmp5_ =? tmp6_))))) = Ok true.
Proof.
  intros Hr Hr' Hs. rewrite !(nl_len_get _ _ _ Hr'), (nl_len_get _ _ _ Hr). cbn [bind]. rewrite !map_length.
  destruct Hs as [->|(x & -> & _)]; [|reflexivity].
  destruct (Z.of_nat (length nodes) =? 1); [reflexivity|]. now rewrite Z.eqb_refl.
Qed.

Theorem tr_d_order_last_refines hp kvs nls kvd ll d k :
  WfD d -> d_inv hp kvs nls kvd ll d ->
  d_refines (tr_d_order_last lower hp kvs nls kvd ll k) (d_order_last d k).
Proof.
  intros Hwf I. unfold tr_d_order_last, d_order_last.
  pose proof (tr_d_reloc_spec io ka _ _ _ _ _ _ k I) as Hs.
  destruct (relocated d k) as [[[key nodes] reloc]|e] eqn:Er.
  2:{ destruct Hs as (nls' & -> & Hk). apply d_refines_fail. eapply d_inv_nls; eauto. }
  destruct Hs as (nls1 & r & r' & -> & Hk & Hkey & Hr & Hr' & Hfresh).
  destruct (reloc_facts _ _ _ _ _ Hwf Er) as (Hne & Hget & Hsub & Hshape).
  rewrite (reloc_assert _ _ _ _ _ Hr Hr' Hshape). cbn [negb].
  pose proof (d_inv_nls io ka _ _ _ _ _ _ _ Hk I) as I1.
  destruct (tr_d_ensure_rep io ka _ _ _ _ _ _ I1) as (kvs' & -> & I2).
  rewrite (nl_iter_get _ _ _ Hr').
  pose proof (WfD_ensure d Hwf) as Hwf1.
  assert (Hids : ids (d_order (d_ensure d)) = ids (d_order d)).
  { apply ids_sig. unfold d_ensure, with_order. cbn [d_order]. apply sig_ensure_nl. }
  assert (Hrel_in : forall n, In n reloc -> In n (ids (d_order (d_ensure d)))).
  { intros n Hn. rewrite Hids. apply Hsub. destruct Hshape as [->|(x & -> & Hx)]; [exact Hn|].
    destruct Hn as [<-|[]]. exact Hx. }
  destruct (d_order_last_loop io ka reloc hp ll (d_order (d_ensure d)) (di_ll _ _ _ _ _ _ _ _ I2) (wf_ids _ Hwf1) Hrel_in)
    as (o2 & hp2 & ll2 & Ef & Hperm & R2 & Eloop).
  rewrite Eloop. cbv zeta. rewrite Ef.
  cbn [tr_d_order_last_loop1].
  (* what the permuted order keeps *)
  assert (Hkv2 : NoDup (map ka (map fst o2))).
  { eapply Permutation_NoDup; [apply Permutation_map; apply Permutation_map; exact Hperm|]. exact (di_kv _ _ _ _ _ _ _ _ I2). }
  assert (Hst2 : Forall (fun nf : N * field => t_get (ka (fst nf)) kvs' = Some (snd nf)) o2).
  { eapply Permutation_Forall; [exact Hperm|]. exact (di_store _ _ _ _ _ _ _ _ I2). }
  assert (Inj : forall a b, In a nodes -> In b nodes -> io a = io b -> a = b).
  { intros a b Ha Hb. apply (io_inj io ka _ _ _ _ _ (di_ll _ _ _ _ _ _ _ _ I)); fold (ids (d_order d)); now apply Hsub. }
  rewrite !(nl_len_get _ _ _ Hr'). cbn [bind]. rewrite map_length.
  destruct Hshape as [->|(x & -> & Hx)].
  - (* all nodes of the name: the name index is not touched *)
    assert (Fin : d_refines (MOk tt (hp2, kvs', nls1, kvd, ll2)) (ok (mkD o2 (d_byname d) (d_next d)))).
    { exists (hp2, kvs', nls1, kvd, ll2). split; [reflexivity|]. exists io, ka.
      apply (mkDInv io ka); cbn [d_order d_byname];
        [exact R2|exact Hkv2|exact Hst2|exact (di_by _ _ _ _ _ _ _ _ I2)|exact (di_refs _ _ _ _ _ _ _ _ I2)]. }
    destruct nodes as [|x [|y t]]; [congruence| |].
    + cbn [length map]. replace (Z.of_nat 1 =? 1) with true by reflexivity.
      rewrite (nl_getitem_get _ _ _ _ Hr'), (nl_getitem_get _ _ _ _ Hr). cbn. rewrite Pos.eqb_refl, N.eqb_refl. cbn. exact Fin.
    + replace (Z.of_nat (length (x :: y :: t)) =? 1) with false by (cbn [length]; lia). cbn [bind]. exact Fin.
  - (* one node: it becomes the last of its name *)
    cbn [length map]. replace (Z.of_nat 1 =? 1) with true by reflexivity.
    rewrite (nl_getitem_get _ _ _ _ Hr'), (nl_getitem_get _ _ _ _ Hr). cbn [map]. rewrite py_index_0. cbn [hd_error].
    rewrite py_index_m1, py_index_map, py_index_m1 || rewrite py_index_map, py_index_m1.
    destruct (last_opt nodes) as [z|] eqn:Elast.
    2:{ apply last_opt_none in Elast. congruence. }
    cbn [option_map bind option_eqb].
    assert (Hz : In z nodes).
    { destruct (last_opt_some_split _ _ Elast) as (a0 & ->). apply in_or_app. right. now left. }
    destruct (N.eqb z x) eqn:Ezx.
    + apply N.eqb_eq in Ezx. subst z. rewrite Pos.eqb_refl. cbn [negb].
      exists (hp2, kvs', nls1, kvd, ll2). split; [reflexivity|]. exists io, ka.
      apply (mkDInv io ka); cbn [d_order d_byname];
        [exact R2|exact Hkv2|exact Hst2|exact (di_by _ _ _ _ _ _ _ _ I2)|exact (di_refs _ _ _ _ _ _ _ _ I2)].
    + assert (Hne2 : io x <> io z).
      { intros Ei. apply N.eqb_neq in Ezx. apply Ezx. symmetry. now apply Inj. }
      apply Pos.eqb_neq in Hne2. rewrite Hne2. cbn [negb].
      unfold trp_nl_remove, trp_nl_append, nl_upd. rewrite Hr, (nl_remove_first_map io nodes x Inj Hx).
      rewrite (nl_get_set_same _ _ _ _ Hr).
      eexists (hp2, kvs', _, kvd, ll2). split; [reflexivity|]. exists io, ka.
      apply (mkDInv io ka); cbn [d_order d_byname];
        [exact R2|exact Hkv2|exact Hst2| |exact (di_refs _ _ _ _ _ _ _ _ I2)].
      assert (Eset : nl_set (nl_set nls1 r (map io (remove_first (N.eqb x) nodes))) r
                            (map io (remove_first (N.eqb x) nodes) ++ [io x])
                     = nl_set nls1 r (map io (remove_first (N.eqb x) nodes ++ [x]))).
      { rewrite map_app. cbn [map]. unfold nl_set. clear. generalize (N.to_nat r). intros n. revert n.
        induction nls1 as [|a s IHs]; intros [|n]; cbn; try reflexivity. now rewrite IHs. }
      rewrite Eset. exact (by_update io _ _ _ _ _ _ _ _ (di_by _ _ _ _ _ _ _ _ I2) (di_refs _ _ _ _ _ _ _ _ I2) Hkey Hget Hr).
Qed.
End Rel6.

Section Rel7.
Variables (io : N -> id) (ka : N -> kvelem).
Notation d_inv := (d_inv io ka).
Notation gg := (g io ka).

(** ** order_first: the loop (over the reversed list) *)
Lemma d_order_first_loop reloc : forall hp (ll : llist) (o : order),
  ll_rep hp ll (map gg o) -> NoDup (ids o) -> (forall n, In n reloc -> In n (ids o)) ->
  exists o' hp' ll',
    fold_left step_first reloc (Ok o) = Ok o' /\ Permutation o o' /\ ll_rep hp' ll' (map gg o')
    /\ forall lw field kvs nls kvd nodes nbr,
         tr_d_order_first_loop1 (map io reloc) lw field hp kvs nls kvd ll nodes nbr
         = tr_d_order_first_loop1 [] lw field hp' kvs nls kvd ll' nodes nbr.
Proof.
  induction reloc as [|n reloc IH]; intros hp ll o R Hnd Hin.
  - exists o, hp, ll. split; [reflexivity|]. split; [reflexivity|]. split; [exact R|]. reflexivity.
  - destruct (order_split o n (Hin n (or_introl eq_refl))) as (o1 & f & o2 & ->).
    cbn [fold_left]. pose proof (step_first_ok _ (n, f) Hnd (in_elt _ _ _)) as Es. cbn [fst] in Es.
    fold (rm n (o1 ++ (n, f) :: o2)) in Es. pose proof (rm_split o1 (n, f) o2 Hnd) as Er. cbn [fst] in Er.
    rewrite Er in Es. rewrite Es. clear Es Er.
    assert (Hperm : Permutation (o1 ++ (n, f) :: o2) ((n, f) :: o1 ++ o2)).
    { symmetry. apply Permutation_middle. }
    assert (Hnd' : NoDup (ids ((n, f) :: o1 ++ o2))).
    { eapply Permutation_NoDup; [apply ids_perm; exact Hperm|exact Hnd]. }
    assert (Hin' : forall m, In m reloc -> In m (ids ((n, f) :: o1 ++ o2))).
    { intros m Hm. eapply Permutation_in; [apply ids_perm; exact Hperm|]. apply Hin. now right. }
    destruct o1 as [|e o1'].
    + (* already first: continue *)
      cbn [app] in *.
      destruct (IH hp ll ((n, f) :: o2) R Hnd') as (o' & hp' & ll' & Ef & Hp & R' & Eq); [exact Hin'|].
      exists o', hp', ll'. split; [exact Ef|]. split; [exact Hp|]. split; [exact R'|].
      intros. cbn [map tr_d_order_first_loop1]. unfold trp_ll_head. rewrite (lr_head _ _ _ R). cbn [map first_id g fst].
      rewrite oid_eqb_refl. apply Eq.
    + (* remove_node, insert_node_before(node, head_node) *)
      assert (Hne : fst e <> n).
      { destruct (nodup_split_notin _ _ _ Hnd) as [H1 _]. apply (H1 e). now left. }
      assert (Hio : io (fst e) <> io n).
      { intros E. apply Hne. apply (io_inj io ka _ _ _ _ _ R); [| |exact E].
        - apply in_map. now left.
        - apply (in_ids_mid (e :: o1') (n, f)). }
      pose proof R as R0. rewrite map_app in R0. cbn [map] in R0. change (gg (n, f)) with (io n, ka n) in R0.
      destruct (ll_move_before hp ll _ _ _ _ [] (io (fst e)) (ka (fst e)) (map gg (o1' ++ o2)) R0)
        as (h1 & ll1 & h2 & ll2 & E1 & R1 & E2 & R2).
      { cbn [map app]. rewrite map_app. reflexivity. }
      assert (R2' : ll_rep h2 ll2 (map gg ((n, f) :: (e :: o1') ++ o2))).
      { cbn [map app] in R2 |- *. rewrite ?map_app in R2 |- *. exact R2. }
      destruct (IH h2 ll2 _ R2' Hnd' Hin') as (o' & hp' & ll' & Ef & Hp & R' & Eq).
      exists o', hp', ll'. split; [exact Ef|]. split; [etransitivity; [exact Hperm|exact Hp]|]. split; [exact R'|].
      intros. cbn [map tr_d_order_first_loop1]. unfold trp_ll_head at 1.
      rewrite (lr_head _ _ _ R). cbn [app map first_id g fst].
      rewrite (oid_eqb_neq (Some (io (fst e))) (Some (io n))) by congruence.
      rewrite trp_ll_remove_node_eq, E1. cbn [lift_l]. unfold trp_ll_head.
      rewrite (lr_head _ _ _ R1). cbn [app map first_id g fst]. cbn [tr_is_some negb trp_assume_some].
      rewrite trp_ll_insert_node_before_eq, E2. cbn [lift_l]. apply Eq.
Qed.

Theorem tr_d_order_first_refines hp kvs nls kvd ll d k :
  WfD d -> d_inv hp kvs nls kvd ll d ->
  d_refines (tr_d_order_first lower hp kvs nls kvd ll k) (d_order_first d k).
Proof.
  intros Hwf I. unfold tr_d_order_first, d_order_first.
  pose proof (tr_d_reloc_spec io ka _ _ _ _ _ _ k I) as Hs.
  destruct (relocated d k) as [[[key nodes] reloc]|e] eqn:Er.
  2:{ destruct Hs as (nls' & -> & Hk). apply (d_refines_fail io ka). eapply d_inv_nls; eauto. }
  destruct Hs as (nls1 & r & r' & -> & Hk & Hkey & Hr & Hr' & Hfresh).
  destruct (reloc_facts _ _ _ _ _ Hwf Er) as (Hne & Hget & Hsub & Hshape).
  rewrite (reloc_assert io _ _ _ _ _ Hr Hr' Hshape). cbn [negb].
  pose proof (d_inv_nls io ka _ _ _ _ _ _ _ Hk I) as I1.
  destruct (tr_d_ensure_rep io ka _ _ _ _ _ _ I1) as (kvs' & -> & I2).
  rewrite (nl_reversed_get _ _ _ Hr'), <- map_rev.
  pose proof (WfD_ensure d Hwf) as Hwf1.
  assert (Hids : ids (d_order (d_ensure d)) = ids (d_order d)).
  { apply ids_sig. unfold d_ensure, with_order. cbn [d_order]. apply sig_ensure_nl. }
  assert (Hrel_in : forall n, In n (rev reloc) -> In n (ids (d_order (d_ensure d)))).
  { intros n Hn. apply in_rev in Hn. rewrite Hids. apply Hsub. destruct Hshape as [->|(x & -> & Hx)]; [exact Hn|].
    destruct Hn as [<-|[]]. exact Hx. }
  destruct (d_order_first_loop (rev reloc) hp ll (d_order (d_ensure d)) (di_ll _ _ _ _ _ _ _ _ I2) (wf_ids _ Hwf1) Hrel_in)
    as (o2 & hp2 & ll2 & Ef & Hperm & R2 & Eloop).
  rewrite Eloop. cbv zeta. rewrite Ef.
  cbn [tr_d_order_first_loop1].
  assert (Hkv2 : NoDup (map ka (map fst o2))).
  { eapply Permutation_NoDup; [apply Permutation_map; apply Permutation_map; exact Hperm|]. exact (di_kv _ _ _ _ _ _ _ _ I2). }
  assert (Hst2 : Forall (fun nf : N * field => t_get (ka (fst nf)) kvs' = Some (snd nf)) o2).
  { eapply Permutation_Forall; [exact Hperm|]. exact (di_store _ _ _ _ _ _ _ _ I2). }
  assert (Inj : forall a b, In a nodes -> In b nodes -> io a = io b -> a = b).
  { intros a b Ha Hb. apply (io_inj io ka _ _ _ _ _ (di_ll _ _ _ _ _ _ _ _ I)); fold (ids (d_order d)); now apply Hsub. }
  rewrite !(nl_len_get _ _ _ Hr'). cbn [bind]. rewrite map_length.
  destruct Hshape as [->|(x & -> & Hx)].
  - assert (Fin : d_refines (MOk tt (hp2, kvs', nls1, kvd, ll2)) (ok (mkD o2 (d_byname d) (d_next d)))).
    { exists (hp2, kvs', nls1, kvd, ll2). split; [reflexivity|]. exists io, ka.
      apply (mkDInv io ka); cbn [d_order d_byname];
        [exact R2|exact Hkv2|exact Hst2|exact (di_by _ _ _ _ _ _ _ _ I2)|exact (di_refs _ _ _ _ _ _ _ _ I2)]. }
    destruct nodes as [|x [|y t]]; [congruence| |].
    + cbn [length map]. replace (Z.of_nat 1 =? 1) with true by reflexivity.
      rewrite (nl_getitem_get _ _ _ _ Hr'), (nl_getitem_get _ _ _ _ Hr). cbn. rewrite Pos.eqb_refl, N.eqb_refl. cbn. exact Fin.
    + replace (Z.of_nat (length (x :: y :: t)) =? 1) with false by (cbn [length]; lia). cbn [bind]. exact Fin.
  - cbn [length map]. replace (Z.of_nat 1 =? 1) with true by reflexivity.
    rewrite (nl_getitem_get _ _ _ _ Hr'), (nl_getitem_get _ _ _ _ Hr). cbn [map]. rewrite !py_index_0. cbn [hd_error].
    destruct nodes as [|z nodes']; [congruence|]. cbn [map hd_error bind option_eqb].
    destruct (N.eqb z x) eqn:Ezx.
    + apply N.eqb_eq in Ezx. subst z. rewrite Pos.eqb_refl. cbn [negb].
      exists (hp2, kvs', nls1, kvd, ll2). split; [reflexivity|]. exists io, ka.
      apply (mkDInv io ka); cbn [d_order d_byname];
        [exact R2|exact Hkv2|exact Hst2|exact (di_by _ _ _ _ _ _ _ _ I2)|exact (di_refs _ _ _ _ _ _ _ _ I2)].
    + assert (Hne2 : io x <> io z).
      { intros Ei. apply N.eqb_neq in Ezx. apply Ezx. symmetry. apply Inj; [exact Hx|now left|exact Ei]. }
      apply Pos.eqb_neq in Hne2. rewrite Hne2. cbn [negb].
      unfold trp_nl_remove, trp_nl_insert0, nl_upd. rewrite Hr.
      change (io z :: map io nodes') with (map io (z :: nodes')).
      rewrite (nl_remove_first_map io (z :: nodes') x Inj Hx).
      rewrite (nl_get_set_same _ _ _ _ Hr).
      eexists (hp2, kvs', _, kvd, ll2). split; [reflexivity|]. exists io, ka.
      apply (mkDInv io ka); cbn [d_order d_byname];
        [exact R2|exact Hkv2|exact Hst2| |exact (di_refs _ _ _ _ _ _ _ _ I2)].
      assert (Eset : nl_set (nl_set nls1 r (map io (remove_first (N.eqb x) (z :: nodes')))) r
                            (io x :: map io (remove_first (N.eqb x) (z :: nodes')))
                     = nl_set nls1 r (map io (x :: remove_first (N.eqb x) (z :: nodes')))).
      { cbn [map]. unfold nl_set. clear. generalize (N.to_nat r). intros n. revert n.
        induction nls1 as [|a s IHs]; intros [|n]; cbn; try reflexivity. now rewrite IHs. }
      rewrite Eset. exact (by_update io _ _ _ _ _ _ _ _ (di_by _ _ _ _ _ _ _ _ I2) (di_refs _ _ _ _ _ _ _ _ I2) Hkey Hget Hr).
Qed.
End Rel7.

Section Rel8.
Variables (io : N -> id) (ka : N -> kvelem).
Notation d_inv := (d_inv io ka).
Notation gg := (g io ka).

(** ** _regenerate_relative_kvapir_order *)
Lemma ll_rep_value hp ll (o : order) nf :
  ll_rep hp ll (map gg o) -> In nf o -> trp_get_value hp (io (fst nf)) = Ok (ka (fst nf)).
Proof.
  intros R Hin. destruct (seg_get _ _ _ _ (io (fst nf)) (ka (fst nf)) (lr_seg _ _ _ R)) as (n & Hn & Hv).
  { change (io (fst nf), ka (fst nf)) with (gg nf). now apply in_map. }
  rewrite trp_get_value_eq, Hn. now rewrite Hv.
Qed.

Lemma d_regen_loop hp kvs kvd ll fname ref (osuf : order) : forall nls acc,
  (forall nf, In nf osuf -> trp_get_value hp (io (fst nf)) = Ok (ka (fst nf)) /\ t_get (ka (fst nf)) kvs = Some (snd nf)) ->
  nl_get nls ref = Some (map io acc) ->
  exists nls',
    tr_d_regenerate_loop1 (map io (ids osuf)) lower fname hp kvs nls kvd ll ref
    = MOk tt (hp, kvs, nls', t_set (lower fname) ref kvd, ll)
    /\ nl_get nls' ref = Some (map io (acc ++ map fst (filter (fun nf => name_eqb (f_name (snd nf)) fname) osuf)))
    /\ (forall r, r <> ref -> nl_get nls' r = nl_get nls r).
Proof.
  induction osuf as [|nf osuf IH]; intros nls acc Hv Hr.
  - exists nls. cbn [ids map tr_d_regenerate_loop1 filter]. unfold trp_kvdd_set. rewrite app_nil_r. auto.
  - cbn [ids map tr_d_regenerate_loop1 filter]. destruct (Hv nf (or_introl eq_refl)) as [Hval Hst]. rewrite Hval.
    unfold trp_kv_field_name. rewrite Hst. unfold trp_stri_eqb. fold (name_eqb (f_name (snd nf)) fname).
    assert (Hv' : forall nf0, In nf0 osuf -> trp_get_value hp (io (fst nf0)) = Ok (ka (fst nf0)) /\ t_get (ka (fst nf0)) kvs = Some (snd nf0)).
    { intros nf0 H0. apply Hv. now right. }
    destruct (name_eqb (f_name (snd nf)) fname).
    + unfold trp_nl_append, nl_upd. rewrite Hr.
      destruct (IH (nl_set nls ref (map io acc ++ [io (fst nf)])) (acc ++ [fst nf]) Hv') as (nls' & E & Hg & Ho).
      { rewrite map_app. cbn [map]. eapply nl_get_set_same. exact Hr. }
      fold (ids osuf). rewrite E. exists nls'. split; [reflexivity|]. split.
      * cbn [map]. rewrite <- app_assoc in Hg. exact Hg.
      * intros r Hne. rewrite Ho by exact Hne. apply nl_get_set_other. congruence.
    + destruct (IH nls acc Hv' Hr) as (nls' & E & Hg & Ho). fold (ids osuf). rewrite E. exists nls'. auto.
Qed.

Lemma by_set nls nls' (bn : list (str * list N)) (kvd : kvdd) k ref l' :
  Forall2 (fun e c => fst e = fst c /\ nl_get nls (snd c) = Some (map io (snd e))) bn kvd ->
  (forall r, r <> ref -> nl_get nls' r = nl_get nls r) -> ~ In ref (map snd kvd) ->
  nl_get nls' ref = Some (map io l') ->
  Forall2 (fun e c => fst e = fst c /\ nl_get nls' (snd c) = Some (map io (snd e))) (assoc_set k l' bn) (t_set k ref kvd).
Proof.
  intros F Ho. induction F as [|[k1 l1] [k2 r2] bn kvd [Hk Hl] F IH]; intros Hn Hg; cbn [assoc_set t_set].
  - constructor; [|constructor]. cbn [fst snd]. auto.
  - cbn [fst snd map In] in *. subst k2. destruct (str_eqb k k1).
    + constructor; [cbn [fst snd]; auto|]. clear IH.
      induction F as [|e c bn kvd [Hf Hg2] F IH2]; constructor.
      * split; [exact Hf|]. rewrite Ho; [exact Hg2|]. intros E. apply Hn. right. left. now rewrite E.
      * apply IH2. intros [H|H]; apply Hn; [now left|right; now right].
    + constructor.
      * cbn [fst snd]. split; [reflexivity|]. rewrite Ho; [exact Hl|]. intros E. apply Hn. now left.
      * apply IH; [|exact Hg]. intros H. apply Hn. now right.
Qed.

Lemma in_t_set_refs (kvd : kvdd) k ref x :
  In x (map snd (t_set k ref kvd)) -> x = ref \/ In x (map snd kvd).
Proof.
  induction kvd as [|[k1 r1] kvd IH]; cbn [t_set map snd In].
  - intros [E|[]]. now left.
  - destruct (str_eqb k k1); cbn [map snd In]; intros [E|H]; auto. destruct (IH H); auto.
Qed.

Lemma t_set_refs_nodup (kvd : kvdd) k ref :
  NoDup (map snd kvd) -> ~ In ref (map snd kvd) -> NoDup (map snd (t_set k ref kvd)).
Proof.
  induction kvd as [|[k1 r1] kvd IH]; intros Hnd Hn; cbn [t_set map snd].
  - constructor; [intros []|constructor].
  - cbn [map snd In] in *. inversion Hnd as [|? ? H1 H2]; subst. destruct (str_eqb k k1); cbn [map snd].
    + constructor; [|exact H2]. intros H. apply Hn. now right.
    + constructor.
      * intros H. apply in_t_set_refs in H. destruct H as [E|H]; [apply Hn; now left|contradiction].
      * apply IH; [exact H2|]. intros H. apply Hn. now right.
Qed.

Theorem tr_d_regenerate_rep hp kvs nls kvd ll d fname :
  d_inv hp kvs nls kvd ll d ->
  exists nls' kvd',
    tr_d_regenerate lower hp kvs nls kvd ll fname = MOk tt (hp, kvs, nls', kvd', ll)
    /\ d_inv hp kvs nls' kvd' ll (mkD (d_order d) (regenerate fname (d_order d) (d_byname d)) (d_next d))
    /\ nl_ext nls nls'.
Proof.
  intros I. pose proof I as [A B C D E]. unfold tr_d_regenerate, trp_nl_new.
  rewrite (trp_ll_iter_nodes_rep _ _ _ A), map_fst_g.
  set (ref := N.of_nat (length nls)).
  assert (Hfresh : ~ In ref (map snd kvd)).
  { intros Hin. apply (by_valid io ka _ _ _ _ D) in Hin. unfold ref in Hin. rewrite Nat2N.id in Hin. lia. }
  destruct (d_regen_loop hp kvs kvd ll fname ref (d_order d) (nls ++ [[]]) []) as (nls' & El & Hg & Ho).
  { intros nf Hin. split; [now apply (ll_rep_value hp ll (d_order d))|now apply (store_get ka kvs (d_order d))]. }
  { apply nl_get_new. }
  fold (ids (d_order d)). rewrite El. exists nls', (t_set (lower fname) ref kvd). split; [reflexivity|].
  assert (Hext : nl_ext nls nls').
  { intros r l H. rewrite Ho; [now apply nl_get_app|]. intros Er. apply nl_get_valid in H. unfold ref in Er.
    rewrite Er, Nat2N.id in H. lia. }
  split; [|exact Hext].
  apply (mkDInv io ka); cbn [d_order d_byname]; [exact A|exact B|exact C| |now apply t_set_refs_nodup].
  unfold regenerate. apply (by_set (nls ++ [[]])); [|exact Ho|exact Hfresh|exact Hg].
  clear -D. induction D as [|e c bn kvd [Hf Hl] _ IH]; constructor; [|exact IH].
  split; [exact Hf|]. now apply nl_get_app.
Qed.
End Rel8.

Section Rel9.
Variables (io : N -> id) (ka : N -> kvelem).
Notation d_inv := (d_inv io ka).
Notation gg := (g io ka).

(** ** order_before / order_after: the loops *)
Lemma rel_step_split (o : order) n ref :
  NoDup (ids o) -> In n (ids o) -> In ref (ids o) -> ref <> n ->
  exists o1 f o2 c fr d,
    o = o1 ++ (n, f) :: o2 /\ o1 ++ o2 = c ++ (ref, fr) :: d
    /\ (forall y, In y c -> fst y <> ref)
    /\ take_node n o = Some ((n, f), o1 ++ o2).
Proof.
  intros Hnd Hn Hr Hne. destruct (order_split o n Hn) as (o1 & f & o2 & ->).
  assert (Hr' : In ref (ids (o1 ++ o2))).
  { unfold ids in *. rewrite map_app in *. cbn [map fst] in Hr. rewrite in_app_iff in *. cbn [In] in Hr.
    destruct Hr as [H|[H|H]]; [now left|congruence|now right]. }
  assert (Hnd' : NoDup (ids (o1 ++ o2))).
  { unfold ids in *. rewrite map_app in *. cbn [map] in Hnd. now apply NoDup_remove_1 in Hnd. }
  destruct (order_split _ ref Hr') as (c & fr & d & Es).
  exists o1, f, o2, c, fr, d. split; [reflexivity|]. split; [exact Es|]. split.
  - rewrite Es in Hnd'. now destruct (nodup_split_notin _ _ _ Hnd') as [H1 _].
  - pose proof (take_node_ok _ (n, f) Hnd (in_elt _ _ _)) as Et. cbn [fst] in Et.
    fold (rm n (o1 ++ (n, f) :: o2)) in Et. pose proof (rm_split o1 (n, f) o2 Hnd) as Er. cbn [fst] in Er.
    now rewrite Er in Et.
Qed.

Lemma d_order_before_loop ref l : forall hp (ll : llist) (o : order),
  ll_rep hp ll (map gg o) -> NoDup (ids o) -> In ref (ids o) ->
  (forall n, In n l -> In n (ids o) /\ ref <> n) ->
  exists o' hp' ll',
    fold_left (step_rel false ref) l (Ok o) = Ok o' /\ Permutation o o' /\ ll_rep hp' ll' (map gg o')
    /\ forall lw field rfield kvs nls kvd nodes nbr v rns,
         tr_d_order_before_loop1 (map io l) lw field rfield hp kvs nls kvd ll nodes nbr v rns (io ref)
         = tr_d_order_before_loop1 [] lw field rfield hp' kvs nls kvd ll' nodes nbr v rns (io ref).
Proof.
  induction l as [|n l IH]; intros hp ll o R Hnd Href Hin.
  - exists o, hp, ll. split; [reflexivity|]. split; [reflexivity|]. split; [exact R|]. reflexivity.
  - destruct (Hin n (or_introl eq_refl)) as [Hn Hne].
    destruct (rel_step_split o n ref Hnd Hn Href Hne) as (o1 & f & o2 & c & fr & d & -> & Es & Hc & Et).
    cbn [fold_left]. unfold step_rel at 2. cbn [bind]. rewrite Et, Es.
    rewrite (ins_before_ok ref (n, f) c (ref, fr) d eq_refl Hc).
    set (o'' := c ++ (n, f) :: (ref, fr) :: d).
    assert (Hperm : Permutation (o1 ++ (n, f) :: o2) o'').
    { unfold o''. etransitivity; [symmetry; apply Permutation_middle|]. rewrite Es. apply Permutation_middle. }
    assert (Hnd' : NoDup (ids o'')) by (eapply Permutation_NoDup; [apply ids_perm; exact Hperm|exact Hnd]).
    assert (Href' : In ref (ids o'')) by (eapply Permutation_in; [apply ids_perm; exact Hperm|exact Href]).
    assert (Hin' : forall m, In m l -> In m (ids o'') /\ ref <> m).
    { intros m Hm. destruct (Hin m (or_intror Hm)) as [H1 H2]. split; [|exact H2].
      eapply Permutation_in; [apply ids_perm; exact Hperm|exact H1]. }
    pose proof R as R0. rewrite map_app in R0. cbn [map] in R0. change (gg (n, f)) with (io n, ka n) in R0.
    destruct (ll_move_before hp ll _ _ _ _ (map gg c) (io ref) (ka ref) (map gg d) R0)
      as (h1 & ll1 & h2 & ll2 & E1 & R1 & E2 & R2).
    { rewrite <- map_app, Es, map_app. reflexivity. }
    assert (R2' : ll_rep h2 ll2 (map gg o'')).
    { unfold o''. rewrite map_app. exact R2. }
    destruct (IH h2 ll2 o'' R2' Hnd' Href' Hin') as (o' & hp' & ll' & Ef & Hp & R' & Eq).
    exists o', hp', ll'. split; [exact Ef|]. split; [etransitivity; [exact Hperm|exact Hp]|]. split; [exact R'|].
    intros. cbn [map tr_d_order_before_loop1].
    rewrite trp_ll_remove_node_eq, E1. cbn [lift_l].
    rewrite trp_ll_insert_node_before_eq, E2. cbn [lift_l]. apply Eq.
Qed.

Lemma d_order_after_loop ref l : forall hp (ll : llist) (o : order),
  ll_rep hp ll (map gg o) -> NoDup (ids o) -> In ref (ids o) ->
  (forall n, In n l -> In n (ids o) /\ ref <> n) ->
  exists o' hp' ll',
    fold_left (step_rel true ref) l (Ok o) = Ok o' /\ Permutation o o' /\ ll_rep hp' ll' (map gg o')
    /\ forall lw field rfield kvs nls kvd nodes nbr v rns,
         tr_d_order_after_loop1 (map io l) lw field rfield hp kvs nls kvd ll nodes nbr v rns (io ref)
         = tr_d_order_after_loop1 [] lw field rfield hp' kvs nls kvd ll' nodes nbr v rns (io ref).
Proof.
  induction l as [|n l IH]; intros hp ll o R Hnd Href Hin.
  - exists o, hp, ll. split; [reflexivity|]. split; [reflexivity|]. split; [exact R|]. reflexivity.
  - destruct (Hin n (or_introl eq_refl)) as [Hn Hne].
    destruct (rel_step_split o n ref Hnd Hn Href Hne) as (o1 & f & o2 & c & fr & d & -> & Es & Hc & Et).
    cbn [fold_left]. unfold step_rel at 2. cbn [bind]. rewrite Et, Es.
    rewrite (ins_after_ok ref (n, f) c (ref, fr) d eq_refl Hc).
    set (o'' := c ++ (ref, fr) :: (n, f) :: d).
    assert (Hperm : Permutation (o1 ++ (n, f) :: o2) o'').
    { unfold o''. etransitivity; [symmetry; apply Permutation_middle|]. rewrite Es.
      change (c ++ (ref, fr) :: (n, f) :: d) with (c ++ [(ref, fr)] ++ (n, f) :: d). rewrite app_assoc.
      etransitivity; [|apply Permutation_middle]. rewrite <- app_assoc. reflexivity. }
    assert (Hnd' : NoDup (ids o'')) by (eapply Permutation_NoDup; [apply ids_perm; exact Hperm|exact Hnd]).
    assert (Href' : In ref (ids o'')) by (eapply Permutation_in; [apply ids_perm; exact Hperm|exact Href]).
    assert (Hin' : forall m, In m l -> In m (ids o'') /\ ref <> m).
    { intros m Hm. destruct (Hin m (or_intror Hm)) as [H1 H2]. split; [|exact H2].
      eapply Permutation_in; [apply ids_perm; exact Hperm|exact H1]. }
    pose proof R as R0. rewrite map_app in R0. cbn [map] in R0. change (gg (n, f)) with (io n, ka n) in R0.
    destruct (ll_move_after hp ll _ _ _ _ (map gg c) (io ref) (ka ref) (map gg d) R0)
      as (h1 & ll1 & h2 & ll2 & E1 & R1 & E2 & R2).
    { rewrite <- map_app, Es, map_app. reflexivity. }
    assert (R2' : ll_rep h2 ll2 (map gg o'')).
    { unfold o''. rewrite map_app. exact R2. }
    destruct (IH h2 ll2 o'' R2' Hnd' Href' Hin') as (o' & hp' & ll' & Ef & Hp & R' & Eq).
    exists o', hp', ll'. split; [exact Ef|]. split; [etransitivity; [exact Hperm|exact Hp]|]. split; [exact R'|].
    intros. cbn [map tr_d_order_after_loop1].
    rewrite trp_ll_remove_node_eq, E1. cbn [lift_l].
    rewrite trp_ll_insert_node_after_eq, E2. cbn [lift_l]. apply Eq.
Qed.
End Rel9.

Section Rel10.
Variables (io : N -> id) (ka : N -> kvelem).
Notation d_inv := (d_inv io ka).
Notation gg := (g io ka).

Lemma existsb_io (l : list N) x :
  (forall a, In a l -> io a = io x -> a = x) ->
  existsb (Pos.eqb (io x)) (map io l) = existsb (N.eqb x) l.
Proof.
  induction l as [|a l IH]; intros Hinj; [reflexivity|]. cbn [map existsb]. rewrite IH by (intros b Hb; apply Hinj; now right).
  f_equal. destruct (N.eqb x a) eqn:E.
  - apply N.eqb_eq in E. subst. apply Pos.eqb_refl.
  - apply Pos.eqb_neq. intros Ei. apply N.eqb_neq in E. apply E. symmetry. apply Hinj; [now left|now symmetry].
Qed.

Lemma nl_mem_get nls r l x : nl_get nls r = Some l -> trp_nl_mem nls r x = Ok (existsb (Pos.eqb x) l).
Proof. intros H. unfold trp_nl_mem, nl_look. now rewrite H. Qed.

(** the end of order_before / order_after: with one node of a repeated name moved, the name's entry is regenerated *)
Lemma d_rel_finish hp kvs nls kvd ll (d : dpara) o2 r r' (nodes reloc : list N) :
  WfD d -> ll_rep hp ll (map gg o2) -> Permutation (d_ensure_nl (d_order d)) o2 ->
  NoDup (map ka (map fst o2)) -> Forall (fun nf : N * field => t_get (ka (fst nf)) kvs = Some (snd nf)) o2 ->
  Forall2 (fun (e : str * list N) (c : str * nlref) => fst e = fst c /\ nl_get nls (snd c) = Some (map io (snd e))) (d_byname d) kvd ->
  NoDup (map snd kvd) ->
  nl_get nls r = Some (map io nodes) -> nl_get nls r' = Some (map io reloc) ->
  (forall n, In n reloc -> In n (ids (d_order d))) ->
  forall (K : heap -> kvstore -> nlstore -> kvdd -> llobj -> mres unit dst),
  (forall a b c d0 e, K a b c d0 e = MOk tt (a, b, c, d0, e)) ->
  d_refines
    (match (do tmp28_ <- trp_nl_len nls r';
            (if (tmp28_ =? 1) then (do tmp29_ <- trp_nl_len nls r; Ok (tmp29_ >? 1)) else Ok false)) with
     | Ok tmp30_ =>
         if tmp30_
         then (match trp_nl_getitem nls r' 0 with
               | Ok tmp31_ =>
                   match trp_get_value hp tmp31_ with
                   | Ok tmp32_ =>
                       match trp_kv_field_name kvs tmp32_ with
                       | Ok tmp33_ =>
                           match tr_d_regenerate lower hp kvs nls kvd ll tmp33_ with
                           | MOk _ (hp0, kvs0, nls0, s_kv, s_ll) => K hp0 kvs0 nls0 s_kv s_ll
                           | MErr e st => MErr e st
                           end
                       | Err e => MErr e (hp, kvs, nls, kvd, ll)
                       end
                   | Err e => MErr e (hp, kvs, nls, kvd, ll)
                   end
               | Err e => MErr e (hp, kvs, nls, kvd, ll)
               end)
         else K hp kvs nls kvd ll
     | Err e => MErr e (hp, kvs, nls, kvd, ll)
     end)
    (ok (mkD o2 (match reloc, nodes with
                 | [x], _ :: _ :: _ =>
                     match node_val x o2 with
                     | Some f => regenerate (f_name f) o2 (d_byname d)
                     | None => d_byname d
                     end
                 | _, _ => d_byname d
                 end) (d_next d))).
Proof.
  intros Hwf R2 Hperm Hkv2 Hst2 By Refs Hr Hr' Hsub K HK.
  assert (I0 : d_inv hp kvs nls kvd ll (mkD o2 (d_byname d) (d_next d))).
  { apply (mkDInv io ka); cbn [d_order d_byname]; assumption. }
  assert (Fin : d_refines (MOk tt (hp, kvs, nls, kvd, ll)) (ok (mkD o2 (d_byname d) (d_next d)))).
  { exists (hp, kvs, nls, kvd, ll). split; [reflexivity|]. now exists io, ka. }
  rewrite (nl_len_get _ _ _ Hr'), (nl_len_get _ _ _ Hr). cbn [bind]. rewrite !map_length.
  destruct reloc as [|x [|y t]].
  - cbn. rewrite HK. exact Fin.
  - cbn [length]. replace (Z.of_nat 1 =? 1) with true by reflexivity.
    destruct nodes as [|z [|z2 t2]].
    + cbn. rewrite HK. exact Fin.
    + cbn. rewrite HK. exact Fin.
    + replace (Z.of_nat (length (z :: z2 :: t2)) >? 1) with true by (cbn [length]; lia).
      rewrite (nl_getitem_get _ _ _ _ Hr'). cbn [map]. rewrite py_index_0. cbn [hd_error].
      assert (Hx : In x (ids o2)).
      { eapply Permutation_in; [apply ids_perm; exact Hperm|]. unfold ids. rewrite map_fst_ensure_nl. apply Hsub. now left. }
      apply in_map_iff in Hx as ([x' f] & Ex & Hin). cbn in Ex. subst x'.
      assert (Hnd2 : NoDup (ids o2)).
      { eapply Permutation_NoDup; [apply ids_perm; exact Hperm|]. unfold ids. rewrite map_fst_ensure_nl. exact (wf_ids _ Hwf). }
      pose proof (node_val_in o2 (x, f) Hnd2 Hin) as Hnv. cbn [fst snd] in Hnv. rewrite Hnv.
      pose proof (ll_rep_value io ka hp ll o2 (x, f) R2 Hin) as Hval. cbn [fst] in Hval. rewrite Hval.
      unfold trp_kv_field_name. pose proof (store_get ka kvs o2 (x, f) Hst2 Hin) as Hs. cbn [fst snd] in Hs. rewrite Hs.
      destruct (tr_d_regenerate_rep io ka _ _ _ _ _ _ (f_name f) I0) as (nls' & kvd' & Eg & Ig & _).
      rewrite Eg, HK. exists (hp, kvs, nls', kvd', ll). split; [reflexivity|]. exists io, ka. exact Ig.
  - replace (Z.of_nat (length (x :: y :: t)) =? 1) with false by (cbn [length]; lia). cbn. rewrite HK. exact Fin.
Qed.
End Rel10.

Section Rel11.
Variables (io : N -> id) (ka : N -> kvelem).
Notation d_inv := (d_inv io ka).
Notation gg := (g io ka).

Theorem tr_d_order_before_refines hp kvs nls kvd ll d k rk :
  WfD d -> d_inv hp kvs nls kvd ll d ->
  d_refines (tr_d_order_before lower hp kvs nls kvd ll k rk) (d_order_rel false d k rk).
Proof.
  intros Hwf I. unfold tr_d_order_before, d_order_rel.
  pose proof (tr_d_reloc_spec io ka _ _ _ _ _ _ k I) as Hs.
  destruct (relocated d k) as [[[key nodes] reloc]|e] eqn:Er.
  2:{ destruct Hs as (nls' & -> & Hk). apply (d_refines_fail io ka). eapply d_inv_nls; eauto. }
  destruct Hs as (nls1 & r & r' & -> & Hk & Hkey & Hr & Hr' & Hfresh).
  destruct (reloc_facts _ _ _ _ _ Hwf Er) as (Hne & Hget & Hsub & Hshape).
  rewrite (reloc_assert io _ _ _ _ _ Hr Hr' Hshape). cbn [negb].
  pose proof (d_inv_nls io ka _ _ _ _ _ _ _ Hk I) as I1.
  destruct (tr_d_ensure_rep io ka _ _ _ _ _ _ I1) as (kvs' & -> & I2).
  pose proof (WfD_ensure d Hwf) as Hwf1. cbv zeta.
  pose proof (tr_d_reloc_spec io ka _ _ _ _ _ _ rk I2) as Hs2.
  destruct (relocated (d_ensure d) rk) as [[[key2 nodes2] refs]|e] eqn:Er2.
  2:{ destruct Hs2 as (nls' & -> & Hk2). apply (d_refines_fail io ka). eapply d_inv_nls; eauto. }
  destruct Hs2 as (nls2 & rr & rr' & -> & Hk2 & _ & _ & Hrr' & _).
  destruct (reloc_facts _ _ _ _ _ Hwf1 Er2) as (_ & _ & Hsub2 & Hshape2).
  pose proof (d_inv_nls io ka _ _ _ _ _ _ _ Hk2 I2) as I3.
  apply Hk2 in Hr, Hr'.
  assert (Hids : ids (d_order (d_ensure d)) = ids (d_order d)).
  { apply ids_sig. unfold d_ensure, with_order. cbn [d_order]. apply sig_ensure_nl. }
  assert (Hrel_sub : forall n, In n reloc -> In n (ids (d_order (d_ensure d)))).
  { intros n Hn. rewrite Hids. apply Hsub. destruct Hshape as [->|(x & -> & Hx)]; [exact Hn|].
    destruct Hn as [<-|[]]. exact Hx. }
  assert (Href_sub : forall n, In n refs -> In n (ids (d_order (d_ensure d)))).
  { intros n Hn. apply Hsub2. destruct Hshape2 as [->|(x & -> & Hx)]; [exact Hn|]. destruct Hn as [<-|[]]. exact Hx. }
  rewrite (nl_getitem_get _ _ _ _ Hrr'), py_index_map.
  destruct (py_index refs 0) as [ref|] eqn:Eref; cbn [option_map].
  2:{ apply (d_refines_fail io ka). exact I3. }
  assert (Href : In ref (ids (d_order (d_ensure d)))) by (apply Href_sub; now apply py_index_In in Eref).
  rewrite (nl_mem_get _ _ _ _ Hr').
  rewrite (existsb_io io reloc ref).
  2:{ intros a Ha. apply (io_inj io ka _ _ _ _ _ (di_ll _ _ _ _ _ _ _ _ I2)); [now apply Hrel_sub|exact Href]. }
  destruct (existsb (N.eqb ref) reloc) eqn:Eex.
  { apply (d_refines_fail io ka). exact I3. }
  rewrite (nl_iter_get _ _ _ Hr').
  assert (Hl : forall n, In n reloc -> In n (ids (d_order (d_ensure d))) /\ ref <> n).
  { intros n Hn. split; [now apply Hrel_sub|]. intros ->. 
    assert (existsb (N.eqb n) reloc = true); [|congruence]. apply existsb_exists. exists n. split; [exact Hn|apply N.eqb_refl]. }
  destruct (d_order_before_loop io ka ref reloc hp ll (d_order (d_ensure d)) (di_ll _ _ _ _ _ _ _ _ I3) (wf_ids _ Hwf1) Href Hl)
    as (o2 & hp2 & ll2 & Ef & Hperm & R2 & Eloop).
  rewrite Eloop, Ef. cbn [tr_d_order_before_loop1].
  apply (d_rel_finish io ka hp2 kvs' nls2 kvd ll2 d o2 r r' nodes reloc Hwf R2 Hperm).
  - eapply Permutation_NoDup; [apply Permutation_map; apply Permutation_map; exact Hperm|]. exact (di_kv _ _ _ _ _ _ _ _ I3).
  - eapply Permutation_Forall; [exact Hperm|]. exact (di_store _ _ _ _ _ _ _ _ I3).
  - exact (di_by _ _ _ _ _ _ _ _ I3).
  - exact (di_refs _ _ _ _ _ _ _ _ I3).
  - exact Hr.
  - exact Hr'.
  - intros n Hn. rewrite <- Hids. now apply Hrel_sub.
  - reflexivity.
Qed.

Theorem tr_d_order_after_refines hp kvs nls kvd ll d k rk :
  WfD d -> d_inv hp kvs nls kvd ll d ->
  d_refines (tr_d_order_after lower hp kvs nls kvd ll k rk) (d_order_rel true d k rk).
Proof.
  intros Hwf I. unfold tr_d_order_after, d_order_rel.
  pose proof (tr_d_reloc_spec io ka _ _ _ _ _ _ k I) as Hs.
  destruct (relocated d k) as [[[key nodes] reloc]|e] eqn:Er.
  2:{ destruct Hs as (nls' & -> & Hk). apply (d_refines_fail io ka). eapply d_inv_nls; eauto. }
  destruct Hs as (nls1 & r & r' & -> & Hk & Hkey & Hr & Hr' & Hfresh).
  destruct (reloc_facts _ _ _ _ _ Hwf Er) as (Hne & Hget & Hsub & Hshape).
  rewrite (reloc_assert io _ _ _ _ _ Hr Hr' Hshape). cbn [negb].
  pose proof (d_inv_nls io ka _ _ _ _ _ _ _ Hk I) as I1.
  destruct (tr_d_ensure_rep io ka _ _ _ _ _ _ I1) as (kvs' & -> & I2).
  pose proof (WfD_ensure d Hwf) as Hwf1. cbv zeta.
  pose proof (tr_d_reloc_spec io ka _ _ _ _ _ _ rk I2) as Hs2.
  destruct (relocated (d_ensure d) rk) as [[[key2 nodes2] refs]|e] eqn:Er2.
  2:{ destruct Hs2 as (nls' & -> & Hk2). apply (d_refines_fail io ka). eapply d_inv_nls; eauto. }
  destruct Hs2 as (nls2 & rr & rr' & -> & Hk2 & _ & _ & Hrr' & _).
  destruct (reloc_facts _ _ _ _ _ Hwf1 Er2) as (_ & _ & Hsub2 & Hshape2).
  pose proof (d_inv_nls io ka _ _ _ _ _ _ _ Hk2 I2) as I3.
  apply Hk2 in Hr, Hr'.
  assert (Hids : ids (d_order (d_ensure d)) = ids (d_order d)).
  { apply ids_sig. unfold d_ensure, with_order. cbn [d_order]. apply sig_ensure_nl. }
  assert (Hrel_sub : forall n, In n reloc -> In n (ids (d_order (d_ensure d)))).
  { intros n Hn. rewrite Hids. apply Hsub. destruct Hshape as [->|(x & -> & Hx)]; [exact Hn|].
    destruct Hn as [<-|[]]. exact Hx. }
  assert (Href_sub : forall n, In n refs -> In n (ids (d_order (d_ensure d)))).
  { intros n Hn. apply Hsub2. destruct Hshape2 as [->|(x & -> & Hx)]; [exact Hn|]. destruct Hn as [<-|[]]. exact Hx. }
  cbn [Z.opp]. rewrite (nl_getitem_get _ _ _ _ Hrr'), py_index_map.
  destruct (py_index refs (-1)) as [ref|] eqn:Eref; cbn [option_map].
  2:{ apply (d_refines_fail io ka). exact I3. }
  assert (Href : In ref (ids (d_order (d_ensure d)))) by (apply Href_sub; now apply py_index_In in Eref).
  rewrite (nl_mem_get _ _ _ _ Hr').
  rewrite (existsb_io io reloc ref).
  2:{ intros a Ha. apply (io_inj io ka _ _ _ _ _ (di_ll _ _ _ _ _ _ _ _ I2)); [now apply Hrel_sub|exact Href]. }
  destruct (existsb (N.eqb ref) reloc) eqn:Eex.
  { apply (d_refines_fail io ka). exact I3. }
  rewrite (nl_reversed_get _ _ _ Hr'), <- map_rev.
  assert (Hl : forall n, In n (rev reloc) -> In n (ids (d_order (d_ensure d))) /\ ref <> n).
  { intros n Hn. apply in_rev in Hn. split; [now apply Hrel_sub|]. intros ->. 
    assert (existsb (N.eqb n) reloc = true); [|congruence]. apply existsb_exists. exists n. split; [exact Hn|apply N.eqb_refl]. }
  destruct (d_order_after_loop io ka ref (rev reloc) hp ll (d_order (d_ensure d)) (di_ll _ _ _ _ _ _ _ _ I3) (wf_ids _ Hwf1) Href Hl)
    as (o2 & hp2 & ll2 & Ef & Hperm & R2 & Eloop).
  rewrite Eloop, Ef. cbn [tr_d_order_after_loop1].
  apply (d_rel_finish io ka hp2 kvs' nls2 kvd ll2 d o2 r r' nodes reloc Hwf R2 Hperm).
  - eapply Permutation_NoDup; [apply Permutation_map; apply Permutation_map; exact Hperm|]. exact (di_kv _ _ _ _ _ _ _ _ I3).
  - eapply Permutation_Forall; [exact Hperm|]. exact (di_store _ _ _ _ _ _ _ _ I3).
  - exact (di_by _ _ _ _ _ _ _ _ I3).
  - exact (di_refs _ _ _ _ _ _ _ _ I3).
  - exact Hr.
  - exact Hr'.
  - intros n Hn. rewrite <- Hids. now apply Hrel_sub.
  - reflexivity.
Qed.
End Rel11.

(** * _init_kvpair_fields: the model's [init_kvpairs]; every field gets a NEW node and the abstraction grows by it *)
Lemma wf_entry_ids d k l n :
  WfD d -> In (k, l) (d_byname d) -> In n l -> In n (ids (d_order d)).
Proof.
  intros Hwf Hin Hn.
  assert (E : assoc_get k (d_byname d) = Some l).
  { pose proof (wf_keys d Hwf) as Hk. clear -Hk Hin. induction (d_byname d) as [|[k' l'] bn IH]; [destruct Hin|].
    cbn in *. inversion Hk as [|? ? Hn Hd]; subst. destruct Hin as [[= -> ->]|Hin].
    - now rewrite str_eqb_refl.
    - destruct (str_eqb k k') eqn:E; [|now apply IH]. apply str_eqb_eq in E. subst. exfalso. apply Hn.
      now apply (in_map fst) in Hin. }
  rewrite (wf_by d Hwf) in E. destruct (nonempty_opt_some _ _ E) as [-> _]. now apply ids_named_incl in Hn.
Qed.

Lemma by_remap (io io' : N -> id) nls (bn : list (str * list N)) (kvd : kvdd) :
  Forall2 (fun e c => fst e = fst c /\ nl_get nls (snd c) = Some (map io (snd e))) bn kvd ->
  (forall k l n, In (k, l) bn -> In n l -> io' n = io n) ->
  Forall2 (fun e c => fst e = fst c /\ nl_get nls (snd c) = Some (map io' (snd e))) bn kvd.
Proof.
  induction 1 as [|[k l] c bn kvd [Hf Hl] F IH]; intros Hm; constructor.
  - split; [exact Hf|]. cbn [snd] in *. rewrite Hl. f_equal. apply map_ext_in. intros n Hn. symmetry. apply (Hm k l); [now left|exact Hn].
  - apply IH. intros k0 l0 n H1 H2. apply (Hm k0 l0); [now right|exact H2].
Qed.

Lemma d_init_loop (kvl : list kvelem) : forall kvl0 (fs : list field) io ka hp kvs nls kvd (ll : llist) d,
  Forall2 (fun kv f => t_get kv kvs = Some f) kvl fs -> NoDup kvl ->
  (forall kv, In kv kvl -> ~ In kv (map ka (ids (d_order d)))) ->
  WfD d -> d_inv io ka hp kvs nls kvd ll d ->
  exists io' ka' hp' nls' kvd' ll',
    tr_d_init_kvpair_fields_loop1 kvl lower kvl0 hp kvs nls kvd ll = MOk tt (hp', kvs, nls', kvd', ll')
    /\ d_inv io' ka' hp' kvs nls' kvd' ll' (init_kvpairs fs d).
Proof.
  induction kvl as [|kv kvl IH]; intros kvl0 fs io ka hp kvs nls kvd ll d F Hnd Hnew Hwf I.
  - inversion F; subst. exists io, ka, hp, nls, kvd, ll. split; [reflexivity|exact I].
  - inversion F as [|? f ? fs' Hkv F']; subst. inversion Hnd as [|? ? Hkvn Hnd']; subst.
    cbn [tr_d_init_kvpair_fields_loop1 init_kvpairs]. unfold trp_kv_field_name. rewrite Hkv.
    pose proof I as [A B C D E].
    destruct (ll_append_spec hp ll _ kv A) as (hp1 & ll1 & Ea & R1 & _ & _).
    rewrite trp_ll_append_eq, Ea. cbn [lift_l].
    set (id := d_next d). set (nd := nxt hp). set (k := lower (f_name f)).
    set (io' := fun n => if N.eqb n id then nd else io n).
    set (ka' := fun n => if N.eqb n id then kv else ka n).
    assert (Hold : forall n, In n (ids (d_order d)) -> io' n = io n /\ ka' n = ka n).
    { intros n Hn. apply in_ids_inv in Hn as (nf & Hnf & <-). pose proof (wf_next d Hwf nf Hnf) as Hlt.
      unfold io', ka'. assert (E0 : N.eqb (fst nf) id = false) by (apply N.eqb_neq; unfold id; lia). now rewrite E0. }
    assert (Hmapg : map (g io' ka') (d_order d) = map (g io ka) (d_order d)).
    { apply map_ext_in. intros nf Hnf. unfold g. destruct (Hold (fst nf) (in_ids _ _ Hnf)) as [-> ->]. reflexivity. }
    assert (Hnew_io : io' id = nd /\ ka' id = kv) by (unfold io', ka'; now rewrite N.eqb_refl).
    destruct Hnew_io as [Hio Hka].
    assert (Dre : Forall2 (fun (e : str * list N) (c : str * nlref) =>
                            fst e = fst c /\ nl_get nls (snd c) = Some (map io' (snd e))) (d_byname d) kvd).
    { apply (by_remap io io'); [exact D|]. intros k0 l0 n H1 H2. apply Hold. now apply (wf_entry_ids d k0 l0). }
    pose proof (by_lookup io nls _ _ k D) as Hl.
    pose proof (WfD_add d (d_order d) f Hwf eq_refl) as Hwf'. cbn zeta in Hwf'. unfold StructProofsPN.lname in Hwf'. fold k in Hwf'. fold id in Hwf'.
    assert (Common : forall nls' kvd' bn',
        Forall2 (fun (e : str * list N) (c : str * nlref) =>
                   fst e = fst c /\ nl_get nls' (snd c) = Some (map io' (snd e))) bn' kvd' ->
        NoDup (map snd kvd') ->
        d_inv io' ka' hp1 kvs nls' kvd' ll1 (mkD (d_order d ++ [(id, f)]) bn' (N.succ id))).
    { intros nls' kvd' bn' HF HN. apply (mkDInv io' ka'); cbn [d_order d_byname]; [| | |exact HF|exact HN].
      - rewrite map_app, Hmapg. cbn [map]. unfold g at 2. cbn [fst]. rewrite Hio, Hka. exact R1.
      - rewrite !map_app. cbn [map fst]. rewrite Hka.
        assert (Em : map ka' (map fst (d_order d)) = map ka (map fst (d_order d))).
        { apply map_ext_in. intros n Hn. now apply Hold. }
        rewrite Em. apply NoDup_snoc; [exact B|]. apply Hnew. now left.
      - apply Forall_app. split.
        + rewrite Forall_forall in *. intros nf Hnf. destruct (Hold (fst nf) (in_ids _ _ Hnf)) as [_ ->]. now apply C.
        + constructor; [|constructor]. cbn [fst snd]. now rewrite Hka. }
    assert (Hrest : forall kv0, In kv0 kvl -> ~ In kv0 (map ka' (ids (d_order d ++ [(id, f)])))).
    { intros kv0 Hkv0. unfold ids. rewrite !map_app. cbn [map fst]. rewrite in_app_iff. cbn [In]. rewrite Hka.
      intros [Hi|[Hi|[]]].
      * assert (Em : map ka' (map fst (d_order d)) = map ka (map fst (d_order d))).
        { apply map_ext_in. intros n Hn. now apply Hold. }
        rewrite Em in Hi. apply (Hnew kv0); [now right|exact Hi].
      * subst kv0. contradiction. }
    cbv zeta. fold id. fold k. unfold trp_kvdd_mem, t_mem, trp_kvdd_get. fold k.
    destruct (assoc_get k (d_byname d)) as [l|] eqn:Eg.
    + destruct Hl as (r & Hr & Hn). rewrite Hr. cbn [negb]. unfold trp_nl_append, nl_upd. rewrite Hn.
      apply (IH kvl0 fs' io' ka' hp1 kvs _ kvd ll1 (mkD (d_order d ++ [(id, f)]) (assoc_set k (l ++ [id]) (d_byname d)) (N.succ id)) F' Hnd' Hrest Hwf').
      apply Common; [|exact E].
      replace (map io l ++ [nd]) with (map io' (l ++ [id])).
      * exact (by_update io' _ _ _ _ _ _ _ _ Dre E Hr Eg Hn).
      * rewrite map_app. cbn [map]. rewrite Hio. f_equal. apply map_ext_in. intros n Hn1. apply Hold.
        apply (wf_entry_ids d k l); [exact Hwf| |exact Hn1]. now apply assoc_get_In.
    + rewrite Hl. cbn [negb]. unfold trp_nl_new, trp_kvdd_set. fold k.
      apply (IH kvl0 fs' io' ka' hp1 kvs _ _ ll1 (mkD (d_order d ++ [(id, f)]) (assoc_set k [id] (d_byname d)) (N.succ id)) F' Hnd' Hrest Hwf').
      assert (Hfresh : ~ In (N.of_nat (length nls)) (map snd kvd)).
      { intros Hin. apply (by_valid io ka _ _ _ _ D) in Hin. rewrite Nat2N.id in Hin. lia. }
      apply Common; [|now apply t_set_refs_nodup].
      apply (by_set io' nls); [exact Dre| |exact Hfresh|].
      * intros r Hne. unfold nl_get. destruct (Nat.lt_ge_cases (N.to_nat r) (length nls)) as [Hlt|Hge].
        -- now rewrite nth_error_app1.
        -- assert (N.to_nat r <> length nls) by (intros E0; apply Hne; rewrite <- E0; now rewrite N2Nat.id).
           rewrite (proj2 (nth_error_None nls _)) by lia. apply nth_error_None. rewrite app_length. cbn. lia.
      * rewrite nl_get_new. cbn [map]. now rewrite Hio.
Qed.

(** ** sort_fields *)
Lemma combine_map2 {X A B} (f : X -> A) (h : X -> B) (l : list X) :
  combine (map f l) (map h l) = map (fun x => (f x, h x)) l.
Proof. induction l as [|x l IH]; [reflexivity|]. cbn [map combine]. now rewrite IH. Qed.

Lemma forall2_store (ka : N -> kvelem) (kvs : kvstore) (l : list (N * field)) :
  Forall (fun nf : N * field => t_get (ka (fst nf)) kvs = Some (snd nf)) l ->
  Forall2 (fun kv f => t_get kv kvs = Some f) (map (fun x : N * field => ka (fst x)) l) (map snd l).
Proof. induction 1 as [|nf l Hnf F IH]; cbn [map]; constructor; auto. Qed.

Theorem tr_d_sort_fields_refines io ka hp kvs nls kvd ll d key :
  WfD d -> d_inv io ka hp kvs nls kvd ll d ->
  d_refines (tr_d_sort_fields lower hp kvs nls kvd ll key) (ok (d_sort (the_key key) d)).
Proof.
  intros Hwf I. unfold tr_d_sort_fields, d_sort.
  set (k := the_key key).
  assert (Ek : forall F : trp_sortkey -> mres unit dst,
             match key with None => let key0 := trp_KDefault in F key0 | Some key0 => F key0 end = F k).
  { intros F. destruct key; reflexivity. }
  rewrite Ek. clear Ek. cbv zeta.
  pose proof I as [A B C D E].
  unfold trp_ll_reversed. rewrite (trp_ll_iter_rep _ _ _ A), map_snd_g.
  (* the newline on the last field *)
  assert (Hnl : exists kvs',
    tr_d_sort_fields_loop1 (rev (map ka (map fst (d_order d)))) lower k hp kvs nls kvd ll k
    = tr_d_sort_fields_loop1 [] lower k hp kvs' nls kvd ll k
    /\ d_inv io ka hp kvs' nls kvd ll (d_ensure d)).
  { destruct (list_snoc_cases (d_order d)) as [Eo|(o & nf & Eo)].
    - rewrite Eo. exists kvs. split; [reflexivity|]. destruct d as [od bn nx]. cbn in Eo. subst od. exact I.
    - rewrite Eo, !map_app. cbn [map]. rewrite rev_app_distr. cbn [rev app].
      cbn [tr_d_sort_fields_loop1].
      rewrite Eo in C, B. apply Forall_app in C as [Co Cn]. inversion Cn as [|? ? Hn _]; subst.
      unfold trp_kv_value_element, trp_ve_add_final_newline. rewrite Hn.
      eexists. split; [reflexivity|]. unfold d_ensure, with_order. apply (mkDInv io ka); cbn [d_order d_byname].
      + rewrite map_g_ensure_nl. exact A.
      + rewrite map_fst_ensure_nl, Eo. exact B.
      + rewrite Eo, d_ensure_nl_snoc. apply Forall_app. split.
        * rewrite Forall_forall in *. intros x Hx. rewrite t_get_set.
          destruct (str_eqb _ _) eqn:Ekk; [|now apply Co]. apply str_eqb_eq in Ekk. exfalso.
          rewrite !map_app in B. cbn [map] in B. apply NoDup_remove_2 in B. apply B. rewrite app_nil_r.
          rewrite <- Ekk. apply in_map. now apply in_map.
        * constructor; [|constructor]. cbn [fst snd]. now rewrite t_get_set, str_eqb_refl.
      + exact D.
      + exact E. }
  destruct Hnl as (kvs' & -> & I1). clear A B C D E.
  pose proof I1 as [A B C D E]. cbn [tr_d_sort_fields_loop1].
  set (o1 := d_ensure_nl (d_order d)) in *. change (d_order (d_ensure d)) with o1 in A, B, C.
  (* sorted() *)
  unfold trp_sorted_ll. rewrite (trp_ll_iter_rep _ _ _ A), map_snd_g.
  assert (Enames : tr_mapM (trp_kv_field_name kvs') (map ka (map fst o1)) = Ok (map (fun nf : N * field => f_name (snd nf)) o1)).
  { rewrite map_map. apply (tr_mapM_map _ (fun nf : N * field => ka (fst nf))). intros nf Hnf. unfold trp_kv_field_name.
    now rewrite (store_get ka kvs' o1 nf C Hnf). }
  rewrite Enames. rewrite map_map, combine_map2.
  rewrite sort_by_map.
  cbn [fst]. rewrite map_map. cbn [snd].
  set (so1 := sort_by (k_leb (keyfn_of k)) (fun a : N * field => k_of (keyfn_of k) (f_name (snd a))) o1).
  assert (Hperm : Permutation so1 o1) by apply sort_by_perm.
  assert (Efs : sort_fields_by k (map snd o1) = map snd so1).
  { unfold sort_fields_by, field_key, so1.
    exact (sort_by_map (k_leb (keyfn_of k)) (fun f : field => k_of (keyfn_of k) (f_name f)) snd o1). }
  rewrite Efs.
  unfold trp_ll_new, tr_d_init_kvpair_fields, trp_ll_bool, trp_kvdd_bool, trp_kvdd_empty. cbn [ll_empty ll_head tr_is_some tr_is_nil negb].
  destruct (d_init_loop (map (fun x : N * field => ka (fst x)) so1) (map (fun x : N * field => ka (fst x)) so1)
              (map snd so1) io ka hp kvs' nls [] ll_empty (mkD [] [] (d_next d)))
    as (io' & ka' & hp' & nls' & kvd' & ll' & El & I').
  - apply forall2_store. eapply Permutation_Forall; [symmetry; exact Hperm|exact C].
  - rewrite <- (map_map fst ka). eapply Permutation_NoDup; [|exact B]. apply Permutation_map. apply Permutation_map.
    symmetry. exact Hperm.
  - cbn. tauto.
  - apply WfD_empty.
  - apply (mkDInv io ka); cbn [d_order d_byname map]; [apply ll_rep_empty|constructor|constructor|constructor|constructor].
  - rewrite El. exists (hp', kvs', nls', kvd', ll'). split; [reflexivity|]. exists io', ka'. exact I'.
Qed.

(** ** _init_kvpair_fields on an empty paragraph; every list of fields is represented *)
Theorem tr_d_init_refines hp kvs nls (kvl : list kvelem) (fs : list field) nx :
  Forall2 (fun kv f => t_get kv kvs = Some f) kvl fs -> NoDup kvl ->
  d_refines (tr_d_init_kvpair_fields lower hp kvs nls trp_kvdd_empty trp_ll_new kvl)
            (ok (init_kvpairs fs (mkD [] [] nx))).
Proof.
  intros F Hnd. unfold tr_d_init_kvpair_fields, trp_ll_new, trp_ll_bool, trp_kvdd_bool, trp_kvdd_empty.
  cbn [ll_empty ll_head tr_is_some tr_is_nil negb].
  destruct (d_init_loop kvl kvl fs (fun _ => 1%positive) (fun _ => []) hp kvs nls [] ll_empty (mkD [] [] nx) F Hnd)
    as (io' & ka' & hp' & nls' & kvd' & ll' & El & I').
  - cbn. tauto.
  - apply WfD_empty.
  - apply (mkDInv _ _); cbn [d_order d_byname map]; [apply ll_rep_empty|constructor|constructor|constructor|constructor].
  - rewrite El. exists (hp', kvs, nls', kvd', ll'). split; [reflexivity|]. exists io', ka'. exact I'.
Qed.

(** the state that building a paragraph from the fields [fs] makes: one pair element per field, then _init_kvpair_fields *)
Definition d_build (fs : list field) : mres unit dst :=
  let refs := map ref_of (seq 0 (length fs)) in
  tr_d_init_kvpair_fields lower heap0 (combine refs fs) [] trp_kvdd_empty trp_ll_new refs.

Lemma Forall2_impl_in {A B} (P Q : A -> B -> Prop) l l' :
  Forall2 P l l' -> (forall a b, In a l -> P a b -> Q a b) -> Forall2 Q l l'.
Proof.
  induction 1 as [|a b l l' H F IH]; intros Himp; constructor.
  - apply Himp; [now left|exact H].
  - apply IH. intros a0 b0 Hin. apply Himp. now right.
Qed.

Lemma combine_store (refs : list kvelem) : forall (fs : list field),
  length refs = length fs -> NoDup refs ->
  Forall2 (fun kv f => t_get kv (combine refs fs) = Some f) refs fs.
Proof.
  induction refs as [|r refs IH]; intros [|f fs] Hlen Hnd; try discriminate; [constructor|].
  inversion Hnd as [|? ? Hn Hnd']; subst. cbn [combine]. constructor.
  - cbn [t_get]. now rewrite str_eqb_refl.
  - apply (Forall2_impl_in (fun kv f0 => t_get kv (combine refs fs) = Some f0)).
    + apply IH; [now inversion Hlen|exact Hnd'].
    + intros kv f0 Hin H. cbn [t_get]. destruct (str_eqb kv r) eqn:E; [|exact H].
      apply str_eqb_eq in E. subst. contradiction.
Qed.

Theorem d_build_rep fs : d_refines (d_build fs) (ok (init_dup fs)).
Proof.
  unfold d_build, init_dup. set (refs := map ref_of (seq 0 (length fs))).
  assert (Hlen : length refs = length fs) by (unfold refs; now rewrite map_length, seq_length).
  assert (Hrefs : NoDup refs).
  { unfold refs. apply FinFun.Injective_map_NoDup; [|apply seq_NoDup].
    intros a b E. unfold ref_of in E. inversion E. now apply Nat2N.inj. }
  apply tr_d_init_refines; [|exact Hrefs]. now apply combine_store.
Qed.

(** the fields a state represents, read off it with the regenerated iter_parts *)
Definition d_fields (hp : heap) (kvs : kvstore) (nls : nlstore) (kvd : kvdd) (ll : llobj) : result (list field) :=
  match tr_d_iter_parts lower hp kvs nls kvd ll with
  | Ok l => tr_mapM (fun kv => match t_get kv kvs with Some f => Ok f | None => Err OtherError end) l
  | Err e => Err e
  end.

Theorem d_rep_fields hp kvs nls kvd ll d :
  d_rep_st (hp, kvs, nls, kvd, ll) d -> d_fields hp kvs nls kvd ll = Ok (map snd (d_order d)).
Proof.
  intros (io & ka & I). unfold d_fields. rewrite (tr_d_iter_parts_rep io ka _ _ _ _ _ _ I).
  rewrite map_map. apply (tr_mapM_map _ (fun nf : N * field => ka (fst nf))). intros nf Hnf.
  now rewrite (store_get ka kvs _ nf (di_store _ _ _ _ _ _ _ _ I) Hnf).
Qed.

(** * Statements with the abstraction quantified: [d_rep_st st d] = "some [io], [ka] make the state represent [d]" *)
Theorem d_order_last_refines hp kvs nls kvd ll d k :
  WfD d -> d_rep_st (hp, kvs, nls, kvd, ll) d ->
  d_refines (tr_d_order_last lower hp kvs nls kvd ll k) (d_order_last d k).
Proof. intros Hwf (io & ka & I). now apply (tr_d_order_last_refines io ka). Qed.
Theorem d_order_first_refines hp kvs nls kvd ll d k :
  WfD d -> d_rep_st (hp, kvs, nls, kvd, ll) d ->
  d_refines (tr_d_order_first lower hp kvs nls kvd ll k) (d_order_first d k).
Proof. intros Hwf (io & ka & I). now apply (tr_d_order_first_refines io ka). Qed.
Theorem d_order_before_refines hp kvs nls kvd ll d k r :
  WfD d -> d_rep_st (hp, kvs, nls, kvd, ll) d ->
  d_refines (tr_d_order_before lower hp kvs nls kvd ll k r) (d_order_rel false d k r).
Proof. intros Hwf (io & ka & I). now apply (tr_d_order_before_refines io ka). Qed.
Theorem d_order_after_refines hp kvs nls kvd ll d k r :
  WfD d -> d_rep_st (hp, kvs, nls, kvd, ll) d ->
  d_refines (tr_d_order_after lower hp kvs nls kvd ll k r) (d_order_rel true d k r).
Proof. intros Hwf (io & ka & I). now apply (tr_d_order_after_refines io ka). Qed.
Theorem d_sort_fields_refines hp kvs nls kvd ll d key :
  WfD d -> d_rep_st (hp, kvs, nls, kvd, ll) d ->
  d_refines (tr_d_sort_fields lower hp kvs nls kvd ll key) (ok (d_sort (the_key key) d)).
Proof. intros Hwf (io & ka & I). now apply (tr_d_sort_fields_refines io ka). Qed.
Theorem d_ensure_refines hp kvs nls kvd ll d :
  d_rep_st (hp, kvs, nls, kvd, ll) d ->
  d_refines (tr_d_ensure_final_newline lower hp kvs nls kvd ll) (ok (d_ensure d)).
Proof.
  intros (io & ka & I). destruct (tr_d_ensure_rep io ka _ _ _ _ _ _ I) as (kvs' & -> & I').
  exists (hp, kvs', nls, kvd, ll). split; [reflexivity|]. now exists io, ka.
Qed.
Theorem d_regenerate_refines hp kvs nls kvd ll d fname :
  d_rep_st (hp, kvs, nls, kvd, ll) d ->
  d_refines (tr_d_regenerate lower hp kvs nls kvd ll fname)
            (ok (mkD (d_order d) (regenerate fname (d_order d) (d_byname d)) (d_next d))).
Proof.
  intros (io & ka & I). destruct (tr_d_regenerate_rep io ka _ _ _ _ _ _ fname I) as (nls' & kvd' & -> & I' & _).
  exists (hp, kvs, nls', kvd', ll). split; [reflexivity|]. now exists io, ka.
Qed.
Theorem d_iter_keys_rep hp kvs nls kvd ll d :
  d_rep_st (hp, kvs, nls, kvd, ll) d -> tr_d_iter_keys lower hp kvs nls kvd ll = Ok (map f_name (map snd (d_order d))).
Proof. intros (io & ka & I). now apply (tr_d_iter_keys_rep io ka). Qed.
Theorem d_kvpair_count_rep hp kvs nls kvd ll d :
  d_rep_st (hp, kvs, nls, kvd, ll) d -> tr_d_kvpair_count lower hp kvs nls kvd ll = Ok (Z.of_nat (length (d_order d))).
Proof. intros (io & ka & I). now apply (tr_d_kvpair_count_rep io ka). Qed.

(** _nodes_being_relocated: the model's [relocated] — same exception kind, or two list objects holding the model's two
    lists of nodes (through the abstraction), the first of them the dict's entry for the key *)
Theorem d_nodes_being_relocated_rep io ka hp kvs nls kvd ll d k :
  d_inv io ka hp kvs nls kvd ll d ->
  match relocated d k with
  | Err e => exists nls', tr_d_nodes_being_relocated lower hp kvs nls kvd ll k = MErr e (hp, kvs, nls', kvd, ll)
                          /\ d_inv io ka hp kvs nls' kvd ll d
  | Ok (key, nodes, reloc) =>
      exists nls' r r',
        tr_d_nodes_being_relocated lower hp kvs nls kvd ll k = MOk (r, r') (hp, kvs, nls', kvd, ll)
        /\ d_inv io ka hp kvs nls' kvd ll d
        /\ t_get key kvd = Some r /\ nl_get nls' r = Some (map io nodes) /\ nl_get nls' r' = Some (map io reloc)
  end.
Proof.
  intros I. pose proof (tr_d_reloc_spec io ka _ _ _ _ _ _ k I) as H.
  destruct (relocated d k) as [[[key nodes] reloc]|e].
  - destruct H as (nls' & r & r' & E & Hk & H1 & H2 & H3 & _). exists nls', r, r'. split; [exact E|]. split; [exact (d_inv_nls io ka _ _ _ _ _ _ _ Hk I)|]. auto.
  - destruct H as (nls' & E & Hk). exists nls'. split; [exact E|]. exact (d_inv_nls io ka _ _ _ _ _ _ _ Hk I).
Qed.

(** * The same with the model's invariant as the boolean [wf_dparab] of Repro/StructProofs.v (Props/C10.v:
      C10_byname_consistent — it holds after every history) *)
From Verif Require Repro.StructProofs.

Theorem d_order_last_refines_b hp kvs nls kvd ll d k :
  StructProofs.wf_dparab d = true -> d_rep_st (hp, kvs, nls, kvd, ll) d ->
  d_refines (tr_d_order_last lower hp kvs nls kvd ll k) (d_order_last d k).
Proof. intros H. apply d_order_last_refines. now apply StructProofs.wf_dparab_WfD. Qed.
Theorem d_order_first_refines_b hp kvs nls kvd ll d k :
  StructProofs.wf_dparab d = true -> d_rep_st (hp, kvs, nls, kvd, ll) d ->
  d_refines (tr_d_order_first lower hp kvs nls kvd ll k) (d_order_first d k).
Proof. intros H. apply d_order_first_refines. now apply StructProofs.wf_dparab_WfD. Qed.
Theorem d_order_before_refines_b hp kvs nls kvd ll d k r :
  StructProofs.wf_dparab d = true -> d_rep_st (hp, kvs, nls, kvd, ll) d ->
  d_refines (tr_d_order_before lower hp kvs nls kvd ll k r) (d_order_rel false d k r).
Proof. intros H. apply d_order_before_refines. now apply StructProofs.wf_dparab_WfD. Qed.
Theorem d_order_after_refines_b hp kvs nls kvd ll d k r :
  StructProofs.wf_dparab d = true -> d_rep_st (hp, kvs, nls, kvd, ll) d ->
  d_refines (tr_d_order_after lower hp kvs nls kvd ll k r) (d_order_rel true d k r).
Proof. intros H. apply d_order_after_refines. now apply StructProofs.wf_dparab_WfD. Qed.
Theorem d_sort_fields_refines_b hp kvs nls kvd ll d key :
  StructProofs.wf_dparab d = true -> d_rep_st (hp, kvs, nls, kvd, ll) d ->
  d_refines (tr_d_sort_fields lower hp kvs nls kvd ll key) (ok (d_sort (the_key key) d)).
Proof. intros H. apply d_sort_fields_refines. now apply StructProofs.wf_dparab_WfD. Qed.

Theorem d_build_wf fs : StructProofs.wf_dparab (init_dup fs) = true.
Proof. apply StructProofs.wf_dparab_WfD. apply (proj1 (init_dup_wf fs)). Qed.

(** _resolve_to_single_node against the model's [resolve_single] (use_get=False, no name token): the list object holds
    the model's nodes through [io] *)
Theorem tr_d_resolve_model (io : N -> id) nls r (nodes : list N) key idx :
  nl_get nls r = Some (map io nodes) ->
  tr_d_resolve_to_single_node nls r key idx None
  = match resolve_single nodes idx false with
    | LOk (Some n) => Ok (Some (io n))
    | LOk None => Ok None
    | LAmb => Err KeyError
    | LErr e => Err e
    end.
Proof.
  intros H. rewrite (tr_d_resolve_eq _ _ _ _ _ H). unfold trp_resolve_to_single_node, nl_look, resolve_single. rewrite H.
  destruct idx as [i|].
  - rewrite py_index_map. destruct (py_index nodes i); reflexivity.
  - destruct nodes as [|x [|y t]]; reflexivity.
Qed.
