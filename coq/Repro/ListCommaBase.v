(** Proofs for C11, part 4a: comma-separated lists - tokens, line automaton, tokenizer, items.
    - [tok_ok_c]: text conditions by kind for the tokens of a comma-separated list
      (stronger than ListProofs.tok_ok_cm: no line boundary inside a token, comment tokens
      start with '#');
    - [crun]: the line structure of a comma token list as an automaton over kinds;
    - [tokenize_c_ok]: the tokens of a value text of the property's domain are accepted;
    - items of a comma list ([item_c]), the separator discipline between value items
      ([srun]: between two values there is at least one comma) and
      [cvals_flat]: the values of the flattened token list are the values of the items;
    - [Seg]: segments of an item list (shapes, texts, automaton and separator state before and
      after), their composition, and what a value item does to the two states ([Seg_value]);
    - [parse_stream_c]: _parse_comma_list_value produces such items. *)
From Verif Require Import Lib.Base Lib.PyStr Gen.PyChars Repro.ListView Repro.ListSpec
  Repro.ListLemmas Repro.ListProofs Repro.ListEditProofs.
From Coq Require Import Lia.

(** * Tokens *)

Definition tok_ok_c (t : tok) : bool :=
  match tk t with
  | KVal => word_ok (tx t) && no_lb (tx t)
  | KWs => nonempty (tx t) && forallb isws (tx t) && no_lb (tx t)
  | KComma => str_eqb (tx t) [COMMA]
  | KCont => str_eqb (tx t) [SP] || str_eqb (tx t) [TAB]
  | KNl => str_eqb (tx t) [LF]
  | KCom => starts_hash (tx t) && no_lb (removelast (tx t))
  | KSep => false
  end.

Lemma tok_ok_c_cm t : tok_ok_c t = true -> tok_ok_cm t = true.
Proof.
  unfold tok_ok_c, tok_ok_cm. destruct (tk t); intros H; try assumption; try reflexivity.
  - apply andb_true_iff in H. tauto.
  - apply andb_true_iff in H. tauto.
Qed.

Lemma Forall_tok_ok_c_cm ts : Forall (fun t => tok_ok_c t = true) ts -> Forall (fun t => tok_ok_cm t = true) ts.
Proof. apply Forall_impl. exact tok_ok_c_cm. Qed.

(** a token that is not whitespace: a value or a comma *)
Definition solid_tok (t : tok) : bool := match tk t with KVal | KComma => true | _ => false end.
Definition solid (ts : list tok) : bool := existsb solid_tok ts.

Lemma solid_app a b : solid (a ++ b) = solid a || solid b.
Proof. apply existsb_app. Qed.

(** * The line automaton
    c_lf : the previous token ended a line (KNl or a comment line);
    c_ok : the current line is the first line or already holds a value or a comma. *)
Record cst := CS { c_lf : bool; c_ok : bool }.

Definition cstep (s : cst) (k : kind) : option cst :=
  match k with
  | KVal | KComma => if c_lf s then None else Some (CS false true)
  | KWs => if c_lf s then None else Some (CS false (c_ok s))
  | KNl => if c_lf s || negb (c_ok s) then None else Some (CS true false)
  | KCom => if c_lf s then Some (CS true false) else None
  | KCont => if c_lf s then Some (CS false false) else None
  | KSep => None
  end.

Fixpoint crun (s : cst) (ts : list tok) : option cst :=
  match ts with
  | [] => Some s
  | t :: r => match cstep s (tk t) with Some s' => crun s' r | None => None end
  end.

Definition c0 : cst := CS false true.      (* start, and the state after a value or a comma *)
Definition cLF : cst := CS true false.

Lemma crun_app s a b :
  crun s (a ++ b) = match crun s a with Some s' => crun s' b | None => None end.
Proof.
  revert s. induction a as [|t a IH]; intros s; [reflexivity|].
  simpl. destruct (cstep s (tk t)); [apply IH|reflexivity].
Qed.

(** a run of in-line tokens never fails and only collects whether it holds something solid *)
Lemma inline_crun line : forall s, forallb inline_cm line = true -> c_lf s = false ->
  crun s line = Some (CS false (c_ok s || solid line)).
Proof.
  induction line as [|t line IH]; intros s Hin Hs.
  - simpl. rewrite orb_false_r. destruct s as [l o]. simpl in Hs. now subst l.
  - cbn [forallb] in Hin. apply andb_true_iff in Hin. destruct Hin as [Ht Hin].
    cbn [crun]. unfold solid. cbn [existsb]. fold (solid line). unfold inline_cm in Ht. unfold solid_tok.
    destruct (tk t); try discriminate; cbn [cstep]; rewrite Hs; rewrite IH by (try assumption; reflexivity);
      cbn [c_ok orb]; try reflexivity.
    + now rewrite orb_true_r.
    + now rewrite orb_true_r.
Qed.

Lemma no_lb_toks ts : no_lb (toks_text ts) = forallb (fun t => no_lb (tx t)) ts.
Proof.
  induction ts as [|t ts IH]; [reflexivity|]. rewrite toks_text_cons, no_lb_app, IH. reflexivity.
Qed.

Lemma word_ok_not_ws w : word_ok w = true -> forallb isws w = false.
Proof.
  intros H. destruct (word_ok_parts _ H) as [c [w' [-> [Hc _]]]]. cbn [forallb]. now rewrite Hc.
Qed.

(** text facts of a run of in-line tokens *)
Lemma inline_text line : forallb inline_cm line = true -> Forall (fun t => tok_ok_c t = true) line ->
  no_lb (toks_text line) = true
  /\ filter nc line = line
  /\ forallb isws (toks_text line) = negb (solid line).
Proof.
  induction line as [|t line IH]; intros Hin Hok; [splits; reflexivity|].
  cbn [forallb] in Hin. apply andb_true_iff in Hin. destruct Hin as [Ht Hin].
  inversion Hok as [|? ? Hokt Hok']; subst. destruct (IH Hin Hok') as [I1 [I2 I3]].
  rewrite toks_text_cons, no_lb_app, forallb_app, I1, I3. cbn [filter]. rewrite I2.
  unfold solid. cbn [existsb]. fold (solid line).
  unfold inline_cm in Ht. unfold tok_ok_c in Hokt. unfold nc, is_comment_tok, solid_tok.
  destruct (tk t) eqn:Ek; try discriminate; cbn [kind_eqb negb].
  - apply andb_true_iff in Hokt. destruct Hokt as [Hw Hlb]. rewrite Hlb, (word_ok_not_ws _ Hw). splits; reflexivity.
  - apply andb_true_iff in Hokt. destruct Hokt as [Hw Hlb]. apply andb_true_iff in Hw. destruct Hw as [_ Hw].
    rewrite Hlb, Hw. splits; reflexivity.
  - apply str_eqb_eq in Hokt. rewrite Hokt. splits; reflexivity.
Qed.

(** the tokens of a line body without line boundary *)
Lemma inline_tok_ok_c ts : forallb inline_cm ts = true -> Forall (fun t => tok_ok_cm t = true) ts ->
  no_lb (toks_text ts) = true -> Forall (fun t => tok_ok_c t = true) ts.
Proof.
  induction ts as [|t ts IH]; intros Hin Hok Hlb; [constructor|].
  cbn [forallb] in Hin. apply andb_true_iff in Hin. destruct Hin as [Ht Hin].
  inversion Hok as [|? ? Hokt Hok']; subst. rewrite toks_text_cons, no_lb_app in Hlb.
  apply andb_true_iff in Hlb. destruct Hlb as [Hl1 Hl2]. constructor; [|now apply IH].
  unfold inline_cm in Ht. unfold tok_ok_cm in Hokt. unfold tok_ok_c.
  destruct (tk t); try discriminate; try assumption; now rewrite Hokt, Hl1.
Qed.

Lemma comma_line_tokens_c body : no_lb body = true ->
  exists ts, comma_line_tokens body = Ok ts
    /\ toks_text ts = body
    /\ Forall (fun t => tok_ok_c t = true) ts
    /\ forallb inline_cm ts = true.
Proof.
  intros Hlb. destruct (comma_line_tokens_ok body) as [ts [H1 [H2 [H3 H4]]]].
  exists ts. splits; auto. apply inline_tok_ok_c; auto. now rewrite H2.
Qed.

Lemma inline_cm_com_lf ts : forallb inline_cm ts = true -> forallb com_lf ts = true.
Proof.
  induction ts as [|t ts IH]; [reflexivity|]. simpl. intros H.
  apply andb_true_iff in H. destruct H as [Ht H]. rewrite IH by assumption.
  unfold com_lf, is_comment_tok, inline_cm in *. destruct (tk t); try discriminate; reflexivity.
Qed.

(** * The tokens of a whole value text *)

(** one continuation line (terminated or not) that is not a comment *)
Lemma cont_line_c c b (term : bool) :
  (c =? SP)%N || (c =? TAB)%N = true -> no_lb b = true -> forallb isws b = false ->
  let l := c :: b ++ (if term then [LF] else []) in
  exists ts, line_tokens Comma false l = Ok ts
    /\ toks_text ts = l
    /\ Forall (fun t => tok_ok_c t = true) ts
    /\ filter nc ts = ts
    /\ forallb com_lf ts = true
    /\ crun cLF ts = Some (if term then cLF else CS false true).
Proof.
  intros Hc Hb Hnb l.
  assert (Hh : starts_hash l = false).
  { subst l. simpl. apply orb_true_iff in Hc. destruct Hc as [Hc|Hc]; apply N.eqb_eq in Hc; subst c; reflexivity. }
  unfold line_tokens. rewrite Hh. cbn [negb andb]. subst l. cbn [bind].
  destruct (comma_line_tokens_c b Hb) as [ts [Hts [Htx [Hok Hin]]]].
  destruct (inline_text ts Hin Hok) as [_ [Hf Hsol]]. rewrite Htx, Hnb in Hsol.
  symmetry in Hsol. apply negb_false_iff in Hsol.
  assert (Hkc : tok_ok_c (Tok KCont [c]) = true).
  { unfold tok_ok_c. cbn [tk tx]. apply orb_true_iff in Hc.
    destruct Hc as [Hc|Hc]; apply N.eqb_eq in Hc; subst c; reflexivity. }
  destruct term.
  - rewrite ends_with_lf_snoc, removelast_snoc. cbn [line_func]. rewrite Hts. cbn [bind].
    eexists. split; [reflexivity|]. splits.
    + cbn [app]. rewrite toks_text_cons, toks_text_app, Htx. reflexivity.
    + constructor; [exact Hkc|]. apply Forall_app. split; [assumption|]. constructor; [reflexivity|constructor].
    + cbn [app filter nc is_comment_tok tk kind_eqb negb]. rewrite filter_app, Hf. reflexivity.
    + cbn [app forallb]. rewrite forallb_app, inline_cm_com_lf by assumption. reflexivity.
    + cbn [app crun cstep tk cLF c_lf]. rewrite crun_app, inline_crun by (try assumption; reflexivity).
      cbn [c_ok orb]. rewrite Hsol. reflexivity.
  - rewrite app_nil_r. rewrite no_lb_not_ends_lf by assumption. cbn [line_func]. rewrite Hts. cbn [bind].
    eexists. split; [reflexivity|]. splits.
    + cbn [app]. rewrite app_nil_r, toks_text_cons, Htx. reflexivity.
    + rewrite app_nil_r. constructor; assumption.
    + rewrite app_nil_r. cbn [app filter nc is_comment_tok tk kind_eqb negb]. now rewrite Hf.
    + rewrite app_nil_r. cbn [app forallb]. now rewrite inline_cm_com_lf.
    + rewrite app_nil_r. cbn [app crun cstep tk cLF c_lf]. rewrite inline_crun by (try assumption; reflexivity).
      cbn [c_ok orb]. rewrite Hsol. reflexivity.
Qed.

(** all lines of [r] are continuation or comment lines *)
Lemma cont_lines_c : forall r,
  lf_only r = true -> forallb cont_line_ok (lines_lf r) = true ->
  exists ts, lines_tokens Comma false (lines_lf r) = Ok ts
    /\ toks_text ts = r
    /\ Forall (fun t => tok_ok_c t = true) ts
    /\ toks_text (filter nc ts) = concat (filter noncomment_line (lines_lf r))
    /\ (open_comment r = false -> forallb com_lf ts = true)
    /\ exists s', crun cLF ts = Some s' /\ c_ok s' || c_lf s' = true.
Proof.
  intros r. pattern r. apply lines_ind; clear r.
  - intros _ _. exists []. repeat split; try constructor. now exists cLF.
  - (* unterminated last line *)
    intros b Hne Hb Hlf Hok. rewrite lines_lf_last in * by assumption.
    simpl in Hok. rewrite andb_true_r in Hok. unfold cont_line_ok in Hok.
    apply andb_true_iff in Hok. destruct Hok as [Hsc Hnb]. apply negb_true_iff in Hnb.
    pose proof (lf_only_no_lb b Hlf Hb) as Hlb.
    destruct (starts_cont_cases b Hsc) as [c [b' [-> [Hc|[Hc Hh]]]]].
    + apply N.eqb_eq in Hc. subst c. cbn [lines_tokens line_tokens negb andb starts_hash].
      change (HASH =? HASH)%N with true. cbn [bind app].
      eexists. split; [reflexivity|]. splits.
      * unfold toks_text. simpl. now rewrite app_nil_r.
      * constructor; [|constructor]. unfold tok_ok_c. cbn [tk tx starts_hash].
        change (HASH =? HASH)%N with true. cbn [andb]. now apply no_lb_removelast.
      * reflexivity.
      * intros Ho. unfold open_comment in Ho. rewrite lines_lf_last in Ho by assumption.
        cbn [last_opt is_comment_line] in Ho. change (HASH =? 35)%N with true in Ho.
        cbn [andb] in Ho. apply negb_false_iff in Ho.
        rewrite no_lb_not_ends_lf in Ho by assumption. discriminate.
      * now exists cLF.
    + assert (Hb' : no_lb b' = true).
      { change (c :: b') with ([c] ++ b') in Hlb. rewrite no_lb_app in Hlb. apply andb_true_iff in Hlb. tauto. }
      assert (Hnb' : forallb isws b' = false).
      { unfold blank in Hnb. simpl in Hnb. apply andb_false_iff in Hnb. destruct Hnb as [Hx|Hx]; [|exact Hx].
        apply orb_true_iff in Hc. destruct Hc as [Hc|Hc]; apply N.eqb_eq in Hc; subst c; discriminate. }
      destruct (cont_line_c c b' false Hc Hb' Hnb') as [ts [Hts [Htx [Hk [Hf [Hcl Hrun]]]]]].
      rewrite app_nil_r in *. cbn [lines_tokens]. rewrite Hts. cbn [bind]. rewrite app_nil_r.
      exists ts. splits; try assumption; try (intros _; assumption); try reflexivity.
      * rewrite Hf, Htx. cbn [filter]. rewrite noncomment_line_cons, Hh. cbn [negb concat]. now rewrite app_nil_r.
      * eexists. split; [exact Hrun|reflexivity].
  - (* a terminated line, then the rest *)
    intros b r Hb IH Hlf Hok. rewrite lines_lf_line in * by assumption.
    destruct (lf_only_line b r Hlf Hb) as [Hlb Hlfr].
    cbn [forallb] in Hok. apply andb_true_iff in Hok. destruct Hok as [Hl Hok].
    destruct (IH Hlfr Hok) as [tr [Htr [Htxr [Hkr [Hfr [Hcr [s' [Hrunr Hfin]]]]]]]].
    unfold cont_line_ok in Hl. apply andb_true_iff in Hl. destruct Hl as [Hsc Hnb].
    apply negb_true_iff in Hnb.
    destruct (starts_cont_cases _ Hsc) as [c [b' [El [Hc|[Hc Hh]]]]].
    + apply N.eqb_eq in Hc. subst c. cbn [lines_tokens]. rewrite El.
      cbn [line_tokens negb andb starts_hash]. change (HASH =? HASH)%N with true. cbn [bind].
      rewrite Htr. cbn [bind app]. exists (Tok KCom (HASH :: b') :: tr). split; [reflexivity|]. splits.
      * rewrite toks_text_cons, Htxr. cbn [tx]. rewrite <- El. now rewrite <- app_assoc.
      * constructor; [|assumption]. unfold tok_ok_c. cbn [tk tx starts_hash].
        change (HASH =? HASH)%N with true. cbn [andb]. rewrite <- El, removelast_snoc. exact Hlb.
      * cbn [filter nc is_comment_tok tk kind_eqb negb noncomment_line is_comment_line].
        change (HASH =? 35)%N with true. cbn [negb]. exact Hfr.
      * intros Ho. rewrite open_comment_line in Ho by assumption.
        cbn [forallb com_lf is_comment_tok tk kind_eqb tx]. rewrite <- El, ends_with_lf_snoc.
        now apply Hcr.
      * cbn [crun cstep tk cLF c_lf]. eexists. split; [exact Hrunr|exact Hfin].
    + destruct b as [|c1 b1]; [simpl in El; injection El as <- <-; discriminate|].
      simpl in El. injection El as <- <-.
      assert (Hb' : no_lb b1 = true).
      { change (c1 :: b1) with ([c1] ++ b1) in Hlb. rewrite no_lb_app in Hlb. apply andb_true_iff in Hlb. tauto. }
      assert (Hnb' : forallb isws b1 = false).
      { unfold blank in Hnb. change ((c1 :: b1) ++ [LF]) with (c1 :: b1 ++ [LF]) in Hnb.
        cbn [forallb] in Hnb. rewrite forallb_app in Hnb. cbn [forallb] in Hnb.
        change (py_isspace LF) with true in Hnb. rewrite !andb_true_r in Hnb.
        apply andb_false_iff in Hnb. destruct Hnb as [Hx|Hx]; [|exact Hx].
        apply orb_true_iff in Hc. destruct Hc as [Hc|Hc]; apply N.eqb_eq in Hc; subst c1; discriminate. }
      destruct (cont_line_c c1 b1 true Hc Hb' Hnb') as [ts [Hts [Htx [Hk [Hf [Hcl Hrun]]]]]].
      cbn [lines_tokens]. change ((c1 :: b1) ++ [LF]) with (c1 :: b1 ++ [LF]).
      rewrite Hts. cbn [bind]. rewrite Htr. cbn [bind].
      eexists. split; [reflexivity|]. splits.
      * rewrite toks_text_app, Htx, Htxr. cbn [app]. now rewrite <- app_assoc.
      * apply Forall_app. split; assumption.
      * rewrite filter_app, toks_text_app, Hf, Htx, Hfr.
        cbn [filter]. rewrite noncomment_line_cons, Hh. cbn [negb concat]. reflexivity.
      * intros Ho. rewrite open_comment_line in Ho by assumption.
        rewrite forallb_app, Hcl. now apply Hcr.
      * rewrite crun_app, Hrun. eexists. split; [exact Hrunr|exact Hfin].
Qed.

(** tokenize on a value text of the property's domain *)
Lemma tokenize_c_ok v : value_ok v = true ->
  exists ts s', tokenize Comma v = Ok ts
    /\ toks_text ts = v
    /\ Forall (fun t => tok_ok_c t = true) ts
    /\ toks_text (filter nc ts) = drop_comment_lines v
    /\ (open_comment1 v = false -> forallb com_lf ts = true)
    /\ crun c0 ts = Some s' /\ c_ok s' || c_lf s' = true.
Proof.
  intros Hv. unfold value_ok in Hv. apply andb_true_iff in Hv. destruct Hv as [Hv Hls].
  apply andb_true_iff in Hv. destruct Hv as [Hlf Hnb]. apply negb_true_iff in Hnb.
  assert (Hne : v <> []) by (intros ->; discriminate).
  unfold tokenize. rewrite blank_all_ws, Hnb by assumption.
  rewrite splitlines_lf_only by assumption. unfold drop_comment_lines, open_comment1.
  destruct (lf_decompose v) as [b [rest [Hb [[-> ->]|[r [-> ->]]]]]].
  - (* a single unterminated line *)
    pose proof (lf_only_no_lb b Hlf Hb) as Hlb.
    rewrite lines_lf_last by assumption.
    cbn [lines_tokens line_tokens negb andb bind]. rewrite no_lb_not_ends_lf by assumption.
    cbn [line_func].
    destruct (comma_line_tokens_c b Hlb) as [ts [Hts [Htx [Hok Hin]]]].
    destruct (inline_text ts Hin Hok) as [_ [Hf _]].
    rewrite Hts. cbn [bind]. rewrite !app_nil_r.
    exists ts. eexists. split; [reflexivity|]. splits; try assumption.
    + rewrite Hf. exact Htx.
    + intros _. now apply inline_cm_com_lf.
    + apply inline_crun; [assumption|reflexivity].
    + reflexivity.
  - destruct (lf_only_line b r Hlf Hb) as [Hlb Hlfr].
    rewrite lines_lf_line in * by assumption.
    destruct (cont_lines_c r Hlfr Hls) as [tr [Htr [Htxr [Hkr [Hfr [Hcr [s' [Hrunr Hfin]]]]]]]].
    cbn [lines_tokens line_tokens negb andb bind]. rewrite ends_with_lf_snoc, removelast_snoc.
    cbn [line_func].
    destruct (comma_line_tokens_c b Hlb) as [ts [Hts [Htx [Hok Hin]]]].
    destruct (inline_text ts Hin Hok) as [_ [Hf _]].
    rewrite Hts. cbn [bind]. rewrite Htr. cbn [bind app].
    exists ((ts ++ [Tok KNl [LF]]) ++ tr), s'. split; [reflexivity|]. splits.
    + rewrite !toks_text_app, Htx, Htxr. cbn. now rewrite <- app_assoc.
    + repeat (apply Forall_app; split); try assumption. constructor; [reflexivity|constructor].
    + rewrite !filter_app, !toks_text_app, Hf, Htx, Hfr. reflexivity.
    + intros Ho. rewrite !forallb_app, inline_cm_com_lf by assumption. cbn [forallb com_lf is_comment_tok tk kind_eqb andb].
      apply Hcr. exact Ho.
    + unfold c0. rewrite !crun_app, inline_crun by (try assumption; reflexivity).
      cbn [crun cstep tk c_lf c_ok orb negb]. exact Hrunr.
    + exact Hfin.
Qed.

(** * Items of a comma-separated list *)

Definition last_is_val (ts : list tok) : bool :=
  match last_opt ts with Some l => is_val l | None => true end.

(** a token left as it is is not a value token; a value element starts and ends with a value
    token and holds no comma; an element made by the value factory is a single token *)
Definition item_c (it : item) : bool :=
  match it with
  | IT t => negb (is_val t)
  | IV (t :: ts) f => is_val t && last_is_val ts && forallb noncomma ts
                      && (if f then match ts with [] => true | _ => false end else true)
  | IV [] _ => false
  end.

Lemma item_c_cases it : item_c it = true ->
  (exists t, it = IT t /\ is_val t = false)
  \/ (exists t ts f, it = IV (t :: ts) f /\ is_val t = true /\ last_is_val ts = true
        /\ forallb noncomma ts = true /\ (f = true -> ts = [])).
Proof.
  destruct it as [t|[|t ts] f]; cbn [item_c]; intros H; try discriminate.
  - left. exists t. split; [reflexivity|]. now apply negb_true_iff.
  - right. apply andb_true_iff in H. destruct H as [H H4]. apply andb_true_iff in H. destruct H as [H H3].
    apply andb_true_iff in H. destruct H as [H1 H2]. exists t, ts, f. splits; auto.
    intros ->. destruct ts; [reflexivity|discriminate].
Qed.

Lemma last_is_val_rdrop ts : last_is_val ts = true -> rdropwhile nonval ts = ts.
Proof.
  unfold last_is_val. destruct (last_opt ts) as [l|] eqn:E.
  - intros H. apply rdropwhile_keep_last with l; [assumption|]. unfold nonval. now rewrite H.
  - intros _. apply last_opt_none in E. now subst.
Qed.

(** the separator discipline, on items: [pv] = a value was seen since the last comma *)
Definition sstep (pv : bool) (it : item) : option bool :=
  if is_value it then (if pv then None else Some true)
  else if is_stype Comma it then Some false else Some pv.

Fixpoint srun (pv : bool) (its : list item) : option bool :=
  match its with
  | [] => Some pv
  | it :: r => match sstep pv it with Some q => srun q r | None => None end
  end.

Lemma srun_app pv a b :
  srun pv (a ++ b) = match srun pv a with Some q => srun q b | None => None end.
Proof.
  revert pv. induction a as [|it a IH]; intros pv; [reflexivity|].
  simpl. destruct (sstep pv it); [apply IH|reflexivity].
Qed.

(** ** the values of the flattened token list are the values of the items *)

Lemma render_IV_false ts : render (IV ts false) = toks_text (filter nc ts).
Proof. reflexivity. Qed.

Lemma filter_nc_val t : is_val t = true -> nc t = true.
Proof. intros H. unfold nc. now rewrite is_val_nc. Qed.

Lemma render_item_c t ts f : is_val t = true -> (f = true -> ts = []) ->
  render (IV (t :: ts) f) = toks_text (filter nc (t :: ts)).
Proof.
  intros Hv Hf. destruct f; [|reflexivity]. rewrite (Hf eq_refl). cbn [render filter].
  now rewrite filter_nc_val.
Qed.

Lemma cvals_flat its : forallb item_c its = true ->
  (srun false its <> None -> cvals (flat its) = values_of its)
  /\ (srun true its <> None ->
      exists a b, flat its = a ++ b /\ forallb noncomma a = true /\ forallb nonval a = true
        /\ (b = [] \/ exists c b', b = c :: b' /\ is_comma_tok c = true)
        /\ cvals b = values_of its).
Proof.
  induction its as [|it its IH]; intros Hi.
  - split; [reflexivity|]. intros _. exists [], []. splits; auto.
  - cbn [forallb] in Hi. apply andb_true_iff in Hi. destruct Hi as [Hit Hi].
    destruct (IH Hi) as [IH1 IH2]. rewrite flat_cons.
    destruct (item_c_cases it Hit) as [[t [-> Hv]]|[t [ts [f [-> [Hv [Hl [Hnc Hf]]]]]]]].
    + cbn [item_toks app srun sstep is_value is_stype]. rewrite values_of_cons_IT.
      destruct (is_comma_tok t) eqn:Ec.
      * split.
        -- intros H. rewrite cvals_nonval_cons by assumption. now apply IH1.
        -- intros H. exists [], (t :: flat its). splits; auto.
           ++ right. now exists t, (flat its).
           ++ rewrite cvals_nonval_cons by assumption. now apply IH1.
      * split.
        -- intros H. rewrite cvals_nonval_cons by assumption. now apply IH1.
        -- intros H. destruct (IH2 H) as [a [b [E [A1 [A2 [A3 A4]]]]]].
           exists (t :: a), b. splits; auto.
           ++ now rewrite E.
           ++ cbn [forallb]. unfold noncomma at 1. now rewrite Ec, A1.
           ++ cbn [forallb]. unfold nonval at 1. now rewrite Hv, A2.
    + cbn [item_toks srun sstep is_value]. split; [|intros H; now contradiction H].
      intros H. destruct (IH2 H) as [a [b [E [A1 [A2 [A3 A4]]]]]].
      rewrite E. cbn [app]. rewrite app_assoc. rewrite cvals_val; auto.
      * rewrite values_of_cons. cbn [is_value app]. f_equal; [|exact A4].
        rewrite rdropwhile_app_drop by assumption. rewrite last_is_val_rdrop by assumption.
        symmetry. now apply render_item_c.
      * now rewrite forallb_app, Hnc, A1.
Qed.

(** * Segments of an item list: shapes, token texts, the line automaton from [s] to [s'] and
      the separator discipline from [q] to [q'] *)

Definition Seg (its : list item) (s s' : cst) (q q' : bool) : Prop :=
  forallb item_c its = true
  /\ Forall (fun t => tok_ok_c t = true) (flat its)
  /\ forallb com_lf (flat its) = true
  /\ crun s (flat its) = Some s'
  /\ srun q its = Some q'.

Lemma Seg_nil s q : Seg [] s s q q.
Proof. unfold Seg. splits; try reflexivity. constructor. Qed.

Lemma Seg_app a b s s' q q' :
  Seg (a ++ b) s s' q q' <-> exists s1 q1, Seg a s s1 q q1 /\ Seg b s1 s' q1 q'.
Proof.
  unfold Seg. rewrite flat_app, forallb_app, forallb_app, crun_app, srun_app. split.
  - intros [H1 [H2 [H3 [H4 H5]]]]. apply andb_true_iff in H1. apply andb_true_iff in H3.
    apply Forall_app in H2. destruct (crun s (flat a)) as [s1|]; [|discriminate].
    destruct (srun q a) as [q1|]; [|discriminate]. exists s1, q1. splits; tauto.
  - intros [s1 [q1 [[A1 [A2 [A3 [A4 A5]]]] [B1 [B2 [B3 [B4 B5]]]]]]].
    rewrite A1, A3, A4, A5, B1, B3. splits; auto. apply Forall_app. tauto.
Qed.

Lemma Seg_cons it r s s' q q' :
  Seg (it :: r) s s' q q' <-> exists s1 q1, Seg [it] s s1 q q1 /\ Seg r s1 s' q1 q'.
Proof. change (it :: r) with ([it] ++ r). apply Seg_app. Qed.

Lemma Seg_IT t s s1 q :
  is_val t = false -> tok_ok_c t = true -> com_lf t = true -> cstep s (tk t) = Some s1 ->
  Seg [IT t] s s1 q (if is_comma_tok t then false else q).
Proof.
  intros Hv Hok Hc Hs. unfold Seg. cbn [flat flat_map item_toks app forallb item_c crun srun sstep is_value is_stype].
  rewrite Hv, Hc, Hs. splits; auto. destruct (is_comma_tok t); reflexivity.
Qed.

Lemma Seg_IV_word x s : word_ok x = true -> no_lb x = true -> c_lf s = false ->
  Seg [IV [Tok KVal x] true] s c0 false true.
Proof.
  intros Hw Hlb Hs. unfold Seg. cbn [flat flat_map item_toks app forallb item_c crun srun sstep is_value cstep tk].
  rewrite Hs. splits; auto. constructor; [|constructor]. unfold tok_ok_c. cbn [tk tx]. now rewrite Hw, Hlb.
Qed.

Lemma cstep_val s s1 : cstep s KVal = Some s1 -> c_lf s = false /\ s1 = c0.
Proof. cbn [cstep]. destruct (c_lf s); [discriminate|]. intros [= <-]. split; reflexivity. Qed.

Lemma crun_last_val ts : forall s s', crun s ts = Some s' ->
  ts <> [] -> last_is_val ts = true -> s' = c0.
Proof.
  intros s s' Hr Hne Hl. destruct ts as [|l ts0] using rev_ind; [congruence|]. clear IHts0.
  unfold last_is_val in Hl. rewrite last_opt_snoc in Hl.
  rewrite crun_app in Hr. destruct (crun s ts0) as [s1|]; [|discriminate]. cbn [crun] in Hr.
  assert (Hk : tk l = KVal) by (unfold is_val in Hl; destruct (tk l); try discriminate; reflexivity).
  rewrite Hk in Hr. destruct (cstep s1 KVal) as [s2|] eqn:E; [|discriminate]. injection Hr as <-.
  now destruct (cstep_val _ _ E).
Qed.

(** a value item: it can start wherever no line has just ended, needs a comma since the
    previous value, and always ends in the same state *)
Lemma Seg_value it s s' q q' : is_value it = true -> Seg [it] s s' q q' ->
  c_lf s = false /\ s' = c0 /\ q = false /\ q' = true
  /\ forall sx, c_lf sx = false -> Seg [it] sx c0 false true.
Proof.
  intros Hv [H1 [H2 [H3 [H4 H5]]]]. cbn [forallb] in H1. rewrite andb_true_r in H1.
  destruct (item_c_cases it H1) as [[t [-> _]]|[t [ts [f [-> [Ht [Hl [Hnc Hf]]]]]]]]; [discriminate|].
  cbn [flat flat_map item_toks] in *. rewrite app_nil_r in *.
  assert (Hk : tk t = KVal) by (unfold is_val in Ht; destruct (tk t); try discriminate; reflexivity).
  cbn [crun] in H4. rewrite Hk in H4. destruct (cstep s KVal) as [s1|] eqn:Es; [|discriminate].
  destruct (cstep_val _ _ Es) as [Hs ->].
  assert (Hs' : s' = c0).
  { destruct ts as [|t2 ts2]; [cbn in H4; congruence|]. eapply crun_last_val; [exact H4|discriminate|exact Hl]. }
  cbn [srun sstep is_value] in H5. destruct q; [discriminate|]. injection H5 as <-.
  splits; auto. intros sx Hsx. unfold Seg. cbn [flat flat_map item_toks forallb]. rewrite app_nil_r, andb_true_r.
  splits; auto. cbn [crun]. rewrite Hk. cbn [cstep]. rewrite Hsx. change (CS false true) with c0. rewrite H4. now f_equal.
Qed.

(** * parse_stream on comma tokens *)

(** the tokens before the first comma hold a value token *)
Fixpoint fv (ts : list tok) : bool :=
  match ts with
  | [] => false
  | t :: r => if is_comma_tok t then false else is_val t || fv r
  end.

Lemma fv_app_nonval a b : forallb nonval a = true ->
  (b = [] \/ exists c b', b = c :: b' /\ is_comma_tok c = true) -> fv (a ++ b) = false.
Proof.
  intros Ha Hb. induction a as [|t a IH].
  - destruct Hb as [->|[c [b' [-> Hc]]]]; [reflexivity|]. cbn. now rewrite Hc.
  - cbn [forallb] in Ha. apply andb_true_iff in Ha. destruct Ha as [Ht Ha].
    unfold nonval in Ht. apply negb_true_iff in Ht. cbn [app fv]. rewrite Ht, IH by assumption.
    destruct (is_comma_tok t); reflexivity.
Qed.

Lemma parse_stream_c : forall n ts fuel pv,
  length ts <= n -> length ts < fuel -> pv && fv ts = false ->
  exists its, parse_stream Comma fuel ts = Ok its
    /\ flat its = ts /\ forallb item_c its = true /\ srun pv its <> None.
Proof.
  induction n as [|n IH]; intros ts fuel pv Hn Hf Hpv.
  - destruct ts; [|simpl in Hn; lia]. destruct fuel; [simpl in Hf; lia|].
    exists []. splits; try reflexivity. discriminate.
  - destruct ts as [|t rest].
    { destruct fuel; [simpl in Hf; lia|]. exists []. splits; try reflexivity. discriminate. }
    destruct fuel as [|f]; [lia|]. simpl in Hn, Hf. cbn [parse_stream].
    destruct (is_val t) eqn:Hv.
    + assert (Hpv' : pv = false).
      { cbn [fv] in Hpv. rewrite Hv, (is_val_noncomma t Hv) in Hpv. cbn [orb] in Hpv. now rewrite andb_true_r in Hpv. }
      subst pv.
      destruct (span noncomma rest) as [a b] eqn:Esp.
      destruct (span_noncomma_rest _ _ _ Esp) as [Er [Ha Hb]].
      assert (Hseg : match peek_find_comma rest 0 with
                     | Some off => firstn (off - 1) rest
                     | None => rest
                     end = a).
      { rewrite peek_find_comma_span, Esp. cbn [fst snd]. destruct b as [|c b'].
        - rewrite app_nil_r in Er. now subst.
        - cbn [plus]. rewrite Nat.sub_1_r. cbn [pred]. rewrite Er. apply firstn_length_app. }
      rewrite Hseg. unfold trim_to_value. fold nonval.
      assert (Hnt : nonval t = false) by (unfold nonval; now rewrite Hv).
      rewrite rdropwhile_cons_keep by assumption. rewrite length_cons_pred.
      destruct (rdropwhile_split nonval a) as [tail [Htl1 Htl2]].
      pose proof (rdropwhile_last nonval a) as Hlast.
      set (keep := rdropwhile nonval a) in *.
      assert (Hskip : skipn (length keep) rest = tail ++ b).
      { rewrite Er, Htl1, <- app_assoc. apply skipn_length_app. }
      rewrite Hskip.
      assert (Hlen : length (tail ++ b) <= length rest).
      { rewrite Er, Htl1. rewrite !app_length. lia. }
      assert (Hfv : true && fv (tail ++ b) = false) by (cbn [andb]; now apply fv_app_nonval).
      destruct (IH (tail ++ b) f true ltac:(lia) ltac:(lia) Hfv) as [its [Hits [Hflat [Hic Hsr]]]].
      rewrite Hits. cbn [bind]. eexists. split; [reflexivity|]. splits.
      * rewrite flat_cons, Hflat. cbn [item_toks app]. f_equal. rewrite Er.
        transitivity ((keep ++ tail) ++ b); [now rewrite <- app_assoc|now rewrite <- Htl1].
      * cbn [forallb item_c]. rewrite Hv, Hic. cbn [andb]. rewrite !andb_true_r.
        apply andb_true_iff. split.
        -- unfold last_is_val. destruct (last_opt keep) as [l|]; [|reflexivity].
           unfold nonval in Hlast. now apply negb_false_iff in Hlast.
        -- rewrite Htl1 in Ha. apply forallb_app_iff in Ha. tauto.
      * cbn [srun sstep is_value]. exact Hsr.
    + destruct (is_comma_tok t) eqn:Ec.
      * destruct (IH rest f false ltac:(lia) ltac:(lia) eq_refl) as [its [Hits [Hflat [Hic Hsr]]]].
        rewrite Hits. cbn [bind]. eexists. split; [reflexivity|]. splits.
        -- rewrite flat_cons, Hflat. reflexivity.
        -- cbn [forallb item_c]. now rewrite Hv, Hic.
        -- cbn [srun sstep is_value is_stype]. rewrite Ec. exact Hsr.
      * assert (Hpv' : pv && fv rest = false).
        { cbn [fv] in Hpv. rewrite Ec, Hv in Hpv. exact Hpv. }
        destruct (IH rest f pv ltac:(lia) ltac:(lia) Hpv') as [its [Hits [Hflat [Hic Hsr]]]].
        rewrite Hits. cbn [bind]. eexists. split; [reflexivity|]. splits.
        -- rewrite flat_cons, Hflat. reflexivity.
        -- cbn [forallb item_c]. now rewrite Hv, Hic.
        -- cbn [srun sstep is_value is_stype]. rewrite Ec. exact Hsr.
Qed.
