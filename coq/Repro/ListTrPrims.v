(** Primitives that the regenerated control flow of the list-view code (C11) calls:
    Gen/TrListTok.v  — tokens.py: whitespace_split_tokenizer, comma_split_tokenizer, _value_line_tokenizer.impl
    (regenerated from the working tree on every run by harness/py2coq.py, spec at the end of harness/props/c11.py).

    Everything here is hand-written; every primitive is DEFINED AS the model's own leaf (Repro/ListView.v) wherever
    the model has one, so that the tie (Repro/ListTie.v) is about the control flow and not about regexes.

    Token constructors.  The model's [tok] is a kind and a text; the classes' constructor
    ([Deb822Token.__init__] + [_verify_token_text]: "Tokens must have content", the newline rules) is the one the
    C01 model transcribes ([Token.mk_token], compared with the live constructors by the C01 correspondence):
    [trp_mk_tok] runs it for the class and then builds the model's token.  That no constructor ever raises on the
    texts the tokenizers produce is PROVED in the tie, not assumed. *)
From Verif Require Import Lib.Base Lib.PyStr Gen.PyChars Repro.ListView.
Require Verif.Repro.Token.

(** ** token constructors *)
Definition trp_tkind_of (k : kind) : Token.tkind :=
  match k with
  | KVal => Token.KValue
  | KSep => Token.KSpaceSeparator
  | KWs => Token.KWhitespace
  | KComma => Token.KComma
  | KCom => Token.KComment
  | KCont => Token.KValueContinuation
  | KNl => Token.KNewlineAfterValue
  end.

(** [Cls(text)] for the token class [k] *)
Definition trp_mk_tok (k : kind) (text : str) : result tok :=
  do _ <- Token.mk_token (trp_tkind_of k) text; Ok (Tok k text).
(** [Deb822CommaToken()] = [super().__init__(',')], [Deb822NewlineAfterValueToken()] = [super().__init__('\n')] *)
Definition trp_comma_tok : result tok := trp_mk_tok KComma [COMMA].
Definition trp_newline_tok : result tok := trp_mk_tok KNl [LF].

(** ** str operations *)
(** [s.strip()] *)
Definition trp_strip (s : str) : str := strip_by isws s.
(** [s.splitlines(keepends=True)] (the keyword is asserted as the literal [True]) *)
Definition trp_splitlines_keepends (s : str) (_ : unit) : list str := splitlines py_islinebreak true s.
(** [s.startswith("#")], [s.endswith("\n")] (the arguments are asserted as these literals) *)
Definition trp_startswith_hash (s : str) (_ : unit) : bool := starts_hash s.
Definition trp_endswith_lf (s : str) (_ : unit) : bool := ends_with_lf s.
(** [sys.intern(s)]: the same code points *)
Definition trp_intern (s : str) : str := s.

(** ** regex leaves = the model's leaves *)
(** [_RE_WHITESPACE_LINE.match(v)] as a truth value *)
Definition trp_ws_line_match (v : str) : bool := all_ws v.
(** [_RE_WHITESPACE_SEPARATED_WORD_LIST.finditer(v)]: the match objects, as their three groups (all three always
    take part in a match).  The model's search runs on fuel; the fuel is the one [ws_line_tokens] gives it. *)
Definition trp_wsmatch : Type := (str * str * str)%type.
Definition trp_ws_finditer (v : str) : result (list trp_wsmatch) := ws_finditer (S (length v)) v.
Definition trp_ws_groups (m : trp_wsmatch) : str * str * str := m.
(** [_RE_COMMA_SEPARATED_WORD_LIST.finditer(v)]: the match objects are the model's records of groups *)
Definition trp_comma_finditer (v : str) : result (list cgroups) := comma_groups v.
(** [m.groups()] = (space_before_comma, comma, space_before_word, word, space_after_word): the first two belong to
    the second alternative (None when [^] matched), the word group is optional (None when it took no part; when it
    does its text is non-empty) *)
Definition trp_comma_groups (g : cgroups) : option str * option str * str * option str * str :=
  (if g_comma g then Some (g_sbc g) else None,
   if g_comma g then Some [COMMA] else None,
   g_sbw g,
   match g_word g with [] => None | _ => Some (g_word g) end,
   g_saw g).
