(** Case format evaluated by the correspondence check of C10.
    [agree]: the model (Repro/Struct.v on Repro/Doc.v), started from the
             implementation's own parse, reproduces what the implementation did after
             every operation: exception kind, dump text, and for every paragraph which
             element get_kvpair_element((name, i)) returned (its position among
             iter_parts()) or which exception it raised.
    [holds]: the property itself, judged on what the implementation did, against the
             list reference of Repro/StructSpec.v (never against the model): after every
             operation the dump is the dump of one of the permitted list outcomes, a
             fresh parse of the dump shows exactly that outcome's non-empty paragraphs
             field by field (name and exact text), and (name, i) is the i-th field of
             that name in document order.  For sort_fields(key=...) the one permitted
             outcome is the STABLE sort of the list by that key ([sort_fields_by]: fields
             whose keys tie keep their relative order, so the occurrences of a repeated
             field stay interleaved with the fields of other names that tie with them);
             the driver passes the Python function the constructor stands for. *)
From Coq Require Import String.
From Verif Require Import Lib.Base Lib.Dec Lib.PyStr Gen.PyChars
  Repro.Doc Repro.StructSort Repro.Struct Repro.StructSpec.

(** * Literals written by the harness *)

Inductive flit := FL (c n r : string).                             (* comment, name, rest *)

Inductive ilit :=
| IP (dup : bool) (fs : list flit)                           (* paragraph: class, (comment, name, rest) *)
| IO (k : okind) (t : string).

Inductive klit := KS (n : string) | KI (n : string) (i : Z).

Inductive oplit :=
| LFirst (j : nat) (k : klit)
| LLast (j : nat) (k : klit)
| LBefore (j : nat) (k r : klit)
| LAfter (j : nat) (k r : klit)
| LSort (j : nat) (sk : sortkey)                             (* sort_fields(key=...), the family of Repro/StructSort.v *)
| LSet (j : nat) (k : klit) (v : string)
| LDel (j : nat) (k : klit)
| LAppend (kvs : list (string * string))
| LInsert (i : Z) (kvs : list (string * string))
| LReappend (j : nat).

(** flat constructors instead of nested pairs: the literals elaborate faster *)
Inductive qlit := Q (n : string) (i : Z) (a : result nat).        (* (name, i) -> position | exception *)
Inductive plit := PQ (j : nat) (qs : list qlit).                   (* paragraph j: its queries *)
Inductive ntlit := NT (n t : string).                              (* field name, field text *)
Record steplit := mkS {
  s_err : option err;                                      (* the call raised *)
  s_dump : list string;                                    (* dump(), as its physical lines *)
  s_reparse : option (list (list ntlit));                  (* fresh parse of the dump: (name, text) of every field *)
  s_pos : list plit                                        (* live object, for the listed paragraphs (the one operated on;
                                                              all of them after append/insert and at the end):
                                                              (name, i) -> position among iter_parts() *)
}.

Inductive case :=
| Run (text : list string) (items : list ilit) (ops : list oplit) (steps : list steplit).

(** * Decoding *)

Definition dec_field (t : flit) : field :=
  match t with FL c n r => mkF (dec c) (dec n) (dec r) end.

Definition dec_item (i : ilit) : item :=
  match i with
  | IP dup fs => let fs' := map dec_field fs in Para (if dup then PD (init_dup fs') else PN fs')
  | IO k t => Other k (dec t)
  end.

Definition dec_key (k : klit) : key :=
  match k with KS n => KStr (dec n) | KI n i => KIdx (dec n) i end.

Definition dec_kvs (kvs : list (string * string)) : list (str * str) :=
  map (fun kv => (dec (fst kv), dec (snd kv))) kvs.

Definition dec_op (o : oplit) : sop :=
  match o with
  | LFirst j k => SFirst j (dec_key k)
  | LLast j k => SLast j (dec_key k)
  | LBefore j k r => SBefore j (dec_key k) (dec_key r)
  | LAfter j k r => SAfter j (dec_key k) (dec_key r)
  | LSort j sk => SSort j sk
  | LSet j k v => SSet j (dec_key k) (dec v)
  | LDel j k => SDel j (dec_key k)
  | LAppend kvs => SAppend (dec_kvs kvs)
  | LInsert i kvs => SInsert i (dec_kvs kvs)
  | LReappend j => SReappend j
  end.

Definition dec_text (ls : list string) : str := concat (map dec ls).

(** the class the code would choose for these fields is the class it did choose *)
Definition class_ok (i : ilit) : bool :=
  match i with
  | IP dup fs =>
      match from_kvpairs (map dec_field fs) with
      | PN _ => negb dup
      | PD _ => dup
      end
  | IO _ _ => true
  end.

(** * Correspondence *)

Fixpoint forall2b {A B} (f : A -> B -> bool) (l1 : list A) (l2 : list B) : bool :=
  match l1, l2 with
  | [], [] => true
  | a :: l1', b :: l2' => f a b && forall2b f l1' l2'
  | _, _ => false
  end.

Definition pos_agree (ps : list para) (jq : plit) : bool :=
  match jq with
  | PQ j qs =>
      match nth_error ps j with
      | Some p => forallb (fun q => match q with
                                    | Q n i ans => result_eqb Nat.eqb (p_position p (dec n) i) ans
                                    end) qs
      | None => false
      end
  end.

Fixpoint agree_steps (d : doc) (ops : list sop) (steps : list steplit) : bool :=
  match ops, steps with
  | [], [] => true
  | o :: ops', st :: steps' =>
      let (e, d') := s_step d o in
      option_eqb err_eqb e (s_err st)
      && str_eqb (dump d') (dec_text (s_dump st))
      && forallb (pos_agree (paras d')) (s_pos st)
      && agree_steps d' ops' steps'
  | _, _ => false
  end.

Definition agree (c : case) : bool :=
  match c with
  | Run text items ops steps =>
      let d := map dec_item items in
      forallb class_ok items
      && str_eqb (dump d) (dec_text text)
      && agree_steps d (map dec_op ops) steps
  end.

(** * The property *)

Definition spec_item (i : ilit) : sitem :=
  match i with
  | IP _ fs => SP (map dec_field fs)
  | IO _ t => SO (dec t)
  end.

Record sobs := mkO {
  o_failed : bool;
  o_dump : str;
  o_reparse : option (list (list (str * str)));
  o_pos : list (nat * list (str * Z * option nat))
}.

Definition dec_obs (st : steplit) : sobs :=
  mkO (match s_err st with Some _ => true | None => false end)
      (dec_text (s_dump st))
      (option_map (map (map (fun nt => match nt with NT n t => (dec n, dec t) end))) (s_reparse st))
      (map (fun jq => match jq with
                      | PQ j qs =>
                          (j, map (fun q => match q with
                                            | Q n i ans =>
                                                (dec n, i, match ans with Ok x => Some x | Err _ => None end)
                                            end) qs)
                      end)
           (s_pos st)).

Definition read_eqb : list (list (str * str)) -> list (list (str * str)) -> bool :=
  list_eqb (list_eqb (pair_eqb str_eqb str_eqb)).

Definition positions_ok (ps : list (list field)) (jq : nat * list (str * Z * option nat)) : bool :=
  match nth_error ps (fst jq) with
  | Some fs => forallb (fun q => let '(n, i, ans) := q in position_ok fs n i ans) (snd jq)
  | None => false
  end.

(** the observation is explained by the list state [s] *)
Definition matches (s : sdoc) (ob : sobs) : bool :=
  str_eqb (sdump s) (o_dump ob)
  && sep_ok s
  && match o_reparse ob with Some r => read_eqb r (sread s) | None => false end
  && forallb (positions_ok (sparas s)) (o_pos ob).

Definition first_match (cands : list (bool * sdoc)) (ob : sobs) : option sdoc :=
  match List.find (fun c => Bool.eqb (fst c) (o_failed ob) && matches (snd c) ob) cands with
  | Some c => Some (snd c)
  | None => None
  end.

(** the operation in the reference's terms; [None]: outside the judged domain *)
Definition spec_op (s : sdoc) (o : sop) : option dop :=
  match o with
  | SFirst j k => Some (DPara j (PFirst k))
  | SLast j k => Some (DPara j (PLast k))
  | SBefore j k r => Some (DPara j (PBefore k r))
  | SAfter j k r => Some (DPara j (PAfter k r))
  | SSort j sk => Some (DPara j (PSort sk))
  | SSet j k v =>
      match split_para s j with
      | Some (_, fs, _) => option_map (DPara j) (set_pop k v fs)
      | None => None
      end
  | SDel j k => Some (DPara j (PDel k))
  | SAppend kvs => option_map DAppend (build_fields kvs [])
  | SInsert i kvs => option_map (DInsert i) (build_fields kvs [])
  | SReappend j => Some (DReappend j)
  end.

Definition is_ascii_key (k : key) : bool := is_ascii (key_name k).

Definition op_ascii (o : sop) : bool :=
  match o with
  | SFirst _ k | SLast _ k | SDel _ k | SSet _ k _ => is_ascii_key k
  | SBefore _ k r | SAfter _ k r => is_ascii_key k && is_ascii_key r
  | SAppend kvs | SInsert _ kvs => forallb (fun kv => is_ascii (fst kv)) kvs
  | SSort _ _ | SReappend _ => true
  end.

Fixpoint holds_steps (s : sdoc) (ops : list sop) (steps : list steplit) : bool :=
  match ops, steps with
  | [], [] => true
  | o :: ops', st :: steps' =>
      if negb (op_ascii o) then true else
      match spec_op s o with
      | None => true                                (* outside the quantifier: not judged further *)
      | Some so =>
          match s_cands s so with
          | None => true
          | Some cands =>
              match first_match cands (dec_obs st) with
              | Some s' => holds_steps s' ops' steps'
              | None => false
              end
          end
      end
  | _, _ => false
  end.

Definition holds (c : case) : bool :=
  match c with
  | Run text items ops steps =>
      let s := map spec_item items in
      str_eqb (sdump s) (dec_text text) && sep_ok s && holds_steps s (map dec_op ops) steps
  end.

Definition bad_agree (cs : list case) : list N := bad agree cs.
Definition bad_holds (cs : list case) : list N := bad holds cs.
