(** C10 proofs, part 5: _init_kvpair_fields, sort_fields, set_kvpair_element and
    remove_kvpair_element of the duplicate-fields class. *)
From Coq Require Import Permutation.
From Verif Require Import Lib.Base Lib.PyStr Gen.PyChars Repro.Doc Repro.StructSort
  Repro.Struct Repro.StructSpec Repro.StructLemmas Repro.StructProofsPN Repro.StructProofsPD1
  Repro.StructProofsPD2 Repro.StructProofsPD3 Repro.StructSortProofs.

(** * A new node at the end *)

Lemma WfD_empty n : WfD (mkD [] [] n).
Proof. constructor; cbn; try constructor; try tauto. Qed.

Lemma named_lname id f : named (lname f) (id, f) = true.
Proof. unfold named. cbn. apply str_eqb_refl. Qed.

Lemma WfD_add d (o1 : order) f :
  WfD d -> sig o1 = sig (d_order d) ->
  let id := d_next d in
  let k := lname f in
  WfD (mkD (o1 ++ [(id, f)])
           (match assoc_get k (d_byname d) with
            | None => assoc_set k [id] (d_byname d)
            | Some l => assoc_set k (l ++ [id]) (d_byname d)
            end) (N.succ id)).
Proof.
  intros Hwf Hs. cbn zeta.
  set (id := d_next d). set (k := lname f).
  assert (Hn1 : NoDup (ids o1)) by (rewrite (ids_sig _ _ Hs); apply (wf_ids d Hwf)).
  assert (Hlt : forall nf, In nf o1 -> (fst nf < id)%N).
  { intros nf Hnf. assert (Hi : In (fst nf) (ids (d_order d))).
    { rewrite <- (ids_sig _ _ Hs). now apply in_ids. }
    apply in_ids_inv in Hi as (nf' & Hin' & E). rewrite <- E. now apply (wf_next d Hwf). }
  assert (Hget1 : forall k', assoc_get k' (d_byname d) = nonempty_opt (ids_named k' o1)).
  { intros k'. rewrite (ids_named_sig k' _ _ Hs). apply (wf_by d Hwf). }
  assert (Ebn : (match assoc_get k (d_byname d) with
                 | None => assoc_set k [id] (d_byname d)
                 | Some l => assoc_set k (l ++ [id]) (d_byname d)
                 end) = assoc_set k (ids_named k o1 ++ [id]) (d_byname d)).
  { rewrite Hget1. destruct (ids_named k o1); reflexivity. }
  rewrite Ebn.
  constructor; cbn [d_order d_byname d_next].
  - unfold ids. rewrite map_app. cbn [map fst]. apply NoDup_snoc; [exact Hn1|].
    intros Hin. apply in_ids_inv in Hin as (nf & Hnf & E). specialize (Hlt nf Hnf). lia.
  - intros nf Hnf. apply in_app_or in Hnf as [Hnf|[<-|[]]].
    + specialize (Hlt nf Hnf). lia.
    + cbn. lia.
  - apply keys_nodup_set. apply (wf_keys d Hwf).
  - intros k'. rewrite ids_named_app, (ids_named_cons k' (id, f) []).
    change (ids_named k' []) with (@nil N).
    destruct (str_eqb k' k) eqn:Ek.
    + apply str_eqb_eq in Ek. subst k'. rewrite assoc_get_set_same. unfold k at 3.
      rewrite named_lname. cbn [fst]. now destruct (ids_named k o1).
    + rewrite (assoc_get_set_other k k' _ _ Ek), Hget1.
      assert (E : named k' (id, f) = false).
      { apply (str_eqb_neq_named k k' (id, f) Ek). apply named_lname. }
      now rewrite E, app_nil_r.
Qed.

Lemma init_kvpairs_wf fs : forall d,
  WfD d ->
  WfD (init_kvpairs fs d) /\ map snd (d_order (init_kvpairs fs d)) = map snd (d_order d) ++ fs.
Proof.
  induction fs as [|f fs IH]; intros d Hwf; cbn [init_kvpairs].
  - split; [exact Hwf|now rewrite app_nil_r].
  - pose proof (WfD_add d (d_order d) f Hwf eq_refl) as Hadd. cbn zeta in Hadd.
    fold (lname f).
    destruct (IH _ Hadd) as [H1 H2]. split; [exact H1|].
    rewrite H2. cbn [d_order]. rewrite map_app. cbn. now rewrite <- app_assoc.
Qed.

Lemma init_dup_wf fs : WfD (init_dup fs) /\ map snd (d_order (init_dup fs)) = fs.
Proof. unfold init_dup. apply (init_kvpairs_wf fs _ (WfD_empty 0)). Qed.

(** * sort_fields *)

Theorem pd_sort_refines sk d :
  WfD d ->
  In (false, map snd (d_order (d_sort sk d))) (sp_cands (PSort sk) (map snd (d_order d)))
  /\ WfD (d_sort sk d).
Proof.
  intros Hwf. unfold d_sort.
  destruct (init_kvpairs_wf (sort_fields_by sk (map snd (d_ensure_nl (d_order d))))
                            _ (WfD_empty (d_next d))) as [H1 H2].
  split; [|exact H1].
  rewrite H2. cbn [d_order map app]. rewrite map_snd_ensure_nl.
  eapply accept_in with (pl := PlSort sk) (neg := false); [reflexivity|]. left. reflexivity.
Qed.

(** * Removing nodes *)

Lemma nodup_ids_filter (p : N * field -> bool) (o : order) : NoDup (ids o) -> NoDup (ids (filter p o)).
Proof. apply NoDup_map_filter. Qed.

Lemma fold_remove (xs : list N) : forall (o : order),
  NoDup (ids o) -> fold_left (fun o n => remove_node n o) xs o = filter (notin xs) o.
Proof.
  induction xs as [|x xs IH]; intros o Hn; cbn [fold_left].
  - symmetry. apply filter_all. reflexivity.
  - rewrite (remove_node_filter o x Hn). fold (rm x o).
    rewrite (IH (rm x o)) by (now apply nodup_ids_filter).
    symmetry. apply filter_notin_cons.
Qed.

Lemma set_node_val_map x v (o : order) :
  set_node_val x v o = map (fun nf => if is_node x nf then (x, v) else nf) o.
Proof. reflexivity. Qed.

Lemma set_node_val_absent x v (o : order) : ~ In x (ids o) -> set_node_val x v o = o.
Proof.
  intros H. rewrite set_node_val_map. rewrite <- (map_id o) at 2. apply map_ext_in.
  intros nf Hnf. assert (E : is_node x nf = false).
  { unfold is_node. apply N.eqb_neq. intros E. apply H. rewrite <- E. now apply in_ids. }
  now rewrite E.
Qed.

Lemma set_node_val_split x v (A B : order) f :
  NoDup (ids (A ++ (x, f) :: B)) ->
  set_node_val x v (A ++ (x, f) :: B) = A ++ (x, v) :: B.
Proof.
  intros Hn. rewrite set_node_val_map, map_app. cbn [map]. unfold is_node at 2. cbn [fst].
  rewrite N.eqb_refl. rewrite <- !set_node_val_map.
  unfold ids in Hn. rewrite map_app in Hn. cbn [map fst] in Hn.
  pose proof (NoDup_remove_2 _ _ _ Hn) as Hx.
  rewrite (set_node_val_absent x v A) by (intros H; apply Hx; apply in_or_app; now left).
  rewrite (set_node_val_absent x v B) by (intros H; apply Hx; apply in_or_app; now right).
  reflexivity.
Qed.

Lemma filter_cons_split {A} (p : A -> bool) l x rest :
  filter p l = x :: rest ->
  exists a b, l = a ++ x :: b /\ filter p a = [] /\ filter p b = rest /\ p x = true.
Proof.
  induction l as [|y l IH]; cbn; [discriminate|].
  destruct (p y) eqn:E.
  - intros [= -> <-]. exists [], l. auto.
  - intros H. destruct (IH H) as (a & b & -> & Ha & Hb & Hx).
    exists (y :: a), b. cbn. rewrite E. auto.
Qed.

(** the reference's replacement through a mask *)
Lemma set_mask_first (p : N * field -> bool) v (A B : order) n0 :
  filter p A = [] -> p n0 = true ->
  set_mask (map p (A ++ n0 :: B)) v (map snd (A ++ n0 :: B))
  = map snd A ++ v :: map snd (filter (fun x => negb (p x)) B).
Proof.
  intros HA Hn0. induction A as [|y A IH]; cbn [app map set_mask].
  - rewrite Hn0. f_equal. apply unpick_map.
  - cbn [filter] in HA. destruct (p y) eqn:E; [discriminate|]. now rewrite (IH HA).
Qed.

Lemma set_mask_single x v (o : order) :
  NoDup (ids o) ->
  set_mask (map (isin [x]) o) v (map snd o) = map snd (set_node_val x v o).
Proof.
  intros Hn. induction o as [|nf o IH]; [reflexivity|].
  inversion Hn as [|? ? Hnf Hn']; subst.
  cbn [map set_mask]. rewrite set_node_val_map. cbn [map]. rewrite <- set_node_val_map.
  assert (Eq : isin [x] nf = is_node x nf) by (unfold isin, is_node; cbn; apply orb_false_r).
  rewrite Eq. destruct (is_node x nf) eqn:E.
  - cbn [snd]. f_equal. unfold is_node in E. apply N.eqb_eq in E. subst x.
    rewrite (set_node_val_absent (fst nf) v o Hnf).
    rewrite unpick_map. f_equal. apply filter_all. intros y Hy. apply negb_true_iff.
    unfold isin. cbn. rewrite orb_false_r. apply N.eqb_neq. intros Ey. apply Hnf. rewrite <- Ey.
    now apply in_ids.
  - f_equal. now apply IH.
Qed.

(** * set_kvpair_element *)

Lemma unpack_false k : unpack_key k false = Ok (key_parts k).
Proof. destruct k; reflexivity. Qed.

Lemma lower_of_name_eqb a b : name_eqb a b = true -> lower a = lower b.
Proof. apply name_eqb_eq. Qed.

Lemma select_index_none n i fs (nodes : list N) :
  occ_count n fs = length nodes -> py_index nodes i = None -> select WAll n (Some i) fs = None.
Proof.
  intros Hc Hp. rewrite py_index_spec in Hp. cbn zeta in Hp. unfold select. rewrite Hc.
  destruct (_ || _) eqn:E; [reflexivity|].
  apply nth_error_None in Hp. apply orb_false_iff in E as [E1 E2].
  apply Z.leb_gt in E2. destruct (i <? 0)%Z; apply Z.ltb_ge in E1; lia.
Qed.

Lemma select_index_some d n i x :
  WfD d -> py_index (ids_named (lower n) (d_order d)) i = Some x ->
  select WAll n (Some i) (map snd (d_order d)) = Some (idmask [x] (d_order d), (i <? 0)%Z).
Proof.
  intros Hwf Hp. rewrite py_index_spec in Hp. cbn zeta in Hp. unfold select.
  rewrite occ_count_ids.
  destruct (_ || _); [discriminate|].
  now rewrite (idmask_single n _ _ x (wf_ids d Hwf) Hp).
Qed.

Theorem pd_set_refines d k v :
  WfD d ->
  let fs := map snd (d_order d) in
  match d_set_kvpair d k v with
  | Ok d' => In (false, map snd (d_order d')) (sp_cands (PSetF k v) fs) /\ WfD d'
  | Err _ => In (true, fs) (sp_cands (PSetF k v) fs)
  end.
Proof.
  intros Hwf. cbn zeta. set (fs := map snd (d_order d)).
  unfold d_set_kvpair. rewrite unpack_false. cbn [bind].
  destruct (key_parts k) as [n idx] eqn:Ekp.
  assert (Hfst : fst (key_parts k) = n) by now rewrite Ekp.
  assert (Hsnd : snd (key_parts k) = idx) by now rewrite Ekp.
  assert (Hhn : has_name n v = name_eqb n (f_name v)) by (unfold has_name; apply name_eqb_sym).
  destruct (name_eqb n (f_name v)) eqn:Ename; cbn [negb].
  2:{ apply refuse_in; [|now left]. unfold may_refuse. rewrite pn_plan_set, Hfst, Hhn. reflexivity. }
  assert (Ekey : lower (f_name v) = lower n) by (symmetry; now apply lower_of_name_eqb).
  rewrite Ekey. rewrite (lookup_named d (lower n) Hwf).
  pose proof (occ_count_ids n (d_order d)) as Hcount. fold fs in Hcount.
  destruct (ids_named (lower n) (d_order d)) as [|node0 others] eqn:Enodes; cbn [nonempty_opt].
  - (* a new field *)
    cbn [length] in Hcount.
    destruct (match idx with Some i => negb (i =? 0)%Z | None => false end) eqn:Ebad.
    + apply refuse_in; [|now left]. unfold may_refuse.
      rewrite pn_plan_set, Hfst, Hsnd, Hhn, Hcount. cbn [negb].
      destruct idx as [i|]; [|discriminate]. apply negb_true_iff in Ebad. now rewrite Ebad.
    + pose proof (WfD_add d (d_ensure_nl (d_order d)) v Hwf (sig_ensure_nl _)) as Hadd.
      cbn zeta in Hadd. unfold lname in Hadd. rewrite Ekey in Hadd.
      rewrite (lookup_named d (lower n) Hwf), Enodes in Hadd. cbn [nonempty_opt] in Hadd.
      split; [|exact Hadd].
      cbn [d_order]. rewrite map_app, map_snd_ensure_nl. cbn [map snd]. fold fs.
      eapply accept_in with (pl := PlAdd v)
        (neg := match idx with Some _ => true | None => false end).
      * rewrite pn_plan_set, Hfst, Hsnd, Hhn, Hcount. cbn [negb].
        destruct idx as [i|]; [|reflexivity]. apply negb_false_iff in Ebad. now rewrite Ebad.
      * left. reflexivity.
  - cbn [length] in Hcount.
    assert (Hn : NoDup (ids (d_order d))) by apply (wf_ids d Hwf).
    destruct idx as [i|].
    + (* one occurrence *)
      destruct (py_index (node0 :: others) i) as [node|] eqn:Hp.
      2:{ apply refuse_in; [|now left]. unfold may_refuse.
          rewrite pn_plan_set, Hfst, Hhn. cbn [negb]. rewrite Hcount.
          unfold select_key. rewrite Hfst, Hsnd.
          now rewrite (select_index_none n i fs (node0 :: others) Hcount Hp). }
      rewrite <- Enodes in Hp.
      assert (Hnode : In node (ids_named (lower n) (d_order d))) by (now apply py_index_In in Hp).
      destruct (in_ids_named _ _ _ Hnode) as (nx & Hnx & Efx & Hnamed). subst node.
      split.
      * eapply accept_in with (pl := PlSet (idmask [fst nx] (d_order d)) v) (neg := (i <? 0)%Z).
        -- rewrite pn_plan_set, Hfst, Hhn. cbn [negb]. rewrite Hcount.
           unfold select_key. rewrite Hfst, Hsnd. unfold fs.
           now rewrite (select_index_some d n i (fst nx) Hwf Hp).
        -- right. cbn [run_plan d_order]. unfold fs. rewrite idmask_isin. symmetry. now apply set_mask_single.
      * apply WfD_sig; [exact Hwf|]. cbn [d_order].
        destruct (in_split _ _ Hnx) as (A & B & Eo). destruct nx as [x f]. cbn [fst] in *.
        rewrite Eo in Hn |- *. rewrite (set_node_val_split x v A B f Hn).
        unfold sig. rewrite !map_app. cbn [map fst snd]. f_equal. f_equal. f_equal.
        unfold named in Hnamed. cbn [snd] in Hnamed. apply str_eqb_eq in Hnamed.
        unfold lname in *. congruence.
    + (* all occurrences: the first takes the value, the others go *)
      unfold ids_named in Enodes. apply map_eq_cons in Enodes as (n0 & rest & Efilt & En0 & Erest).
      destruct (filter_cons_split _ _ _ _ Efilt) as (A & B & Eo & HA & HB & Hn0).
      destruct n0 as [x f]. cbn [fst] in En0. subst x.
      assert (Hothers : others = map fst (filter (named (lower n)) B)) by (now rewrite HB).
      rewrite Eo in Hn.
      assert (HnB : NoDup (ids B)).
      { unfold ids in *. rewrite map_app in Hn. apply NoDup_app_r in Hn. now inversion Hn. }
      set (o' := fold_left (fun o n1 => remove_node n1 o) others (set_node_val node0 v (d_order d))).
      assert (Eo' : o' = A ++ (node0, v) :: filter (fun y => negb (named (lower n) y)) B).
      { unfold o'. rewrite Eo, (set_node_val_split node0 v A B f Hn).
        assert (Hn' : NoDup (ids (A ++ (node0, v) :: B))).
        { unfold ids in *. rewrite map_app in *. exact Hn. }
        rewrite (fold_remove others _ Hn'), filter_app. cbn [filter].
        assert (EA : filter (notin others) A = A).
        { apply filter_all. intros y Hy. unfold notin, isin. apply negb_true_iff.
          destruct (existsb _ others) eqn:F; [|reflexivity].
          apply existsb_exists in F as (z & Hz & Ez). apply N.eqb_eq in Ez. subst z.
          rewrite Hothers in Hz. apply in_map_iff in Hz as (w & Ew & Hw). apply filter_In in Hw as [Hw _].
          exfalso. apply (nodup_ids_disjoint A ((node0, f) :: B) y w Hn Hy); [now right|congruence]. }
        assert (E0 : notin others (node0, v) = true).
        { unfold notin, isin. apply negb_true_iff. cbn [fst].
          destruct (existsb _ others) eqn:F; [|reflexivity].
          apply existsb_exists in F as (z & Hz & Ez). apply N.eqb_eq in Ez. subst z.
          rewrite Hothers in Hz. apply in_map_iff in Hz as (w & Ew & Hw). apply filter_In in Hw as [Hw _].
          exfalso. unfold ids in Hn. rewrite map_app in Hn. apply NoDup_app_r in Hn.
          cbn [map fst] in Hn. inversion Hn as [|? ? Hx _]. apply Hx. rewrite <- Ew. now apply (in_map fst). }
        rewrite EA, E0. f_equal. f_equal.
        apply filter_ext_in'. intros y Hy. unfold notin. rewrite Hothers.
        now rewrite (isin_map_filter (named (lower n)) B y HnB Hy). }
      assert (Hbn : (if is_nil others then d_byname d else assoc_set (lower n) [node0] (d_byname d))
                    = assoc_set (lower n) [node0] (d_byname d)).
      { destruct others; [|reflexivity]. cbn [is_nil]. symmetry. apply assoc_set_same.
        rewrite (lookup_named d (lower n) Hwf). unfold ids_named. rewrite Efilt. cbn. now rewrite <- Erest. }
      fold o'. rewrite Hbn.
      assert (Hnamed0 : named (lower n) (node0, v) = true).
      { unfold named, lname. cbn [snd]. rewrite Ekey. apply str_eqb_refl. }
      split.
      * eapply accept_in with (pl := PlSet (mask_all n fs) v) (neg := false).
        -- rewrite pn_plan_set, Hfst, Hhn. cbn [negb]. rewrite Hcount. cbn [length].
           unfold select_key. rewrite Hfst, Hsnd. unfold select. now rewrite Hcount.
        -- right. cbn [run_plan d_order]. rewrite Eo'. unfold fs, mask_all. rewrite map_map, Eo.
           assert (Em : map (fun x => has_name n (snd x)) (A ++ (node0, f) :: B)
                        = map (named (lower n)) (A ++ (node0, f) :: B)).
           { apply map_ext. intros [i0 f0]. reflexivity. }
           rewrite Em, (set_mask_first (named (lower n)) v A B (node0, f) HA Hn0).
           rewrite map_app. reflexivity.
      * set (B' := filter (fun y => negb (named (lower n) y)) B) in *.
        assert (Hn2 : NoDup (ids o')).
        { unfold o'. rewrite Eo, (set_node_val_split node0 v A B f Hn).
          assert (Hn' : NoDup (ids (A ++ (node0, v) :: B))).
          { unfold ids in *. rewrite map_app in *. exact Hn. }
          rewrite (fold_remove others _ Hn'). now apply nodup_ids_filter. }
        assert (HinB' : forall y, In y B' -> In y B) by (intros y Hy; now apply filter_In in Hy as [Hy _]).
        assert (Hf0 : named (lower n) (node0, f) = true) by exact Hn0.
        constructor; cbn [d_order d_byname d_next].
        -- exact Hn2.
        -- intros nf Hnf. rewrite Eo' in Hnf.
           assert (Hcase : fst nf = node0 \/ In nf (d_order d)).
           { apply in_app_or in Hnf as [Hnf|[<-|Hnf]].
             - right. rewrite Eo. apply in_or_app. now left.
             - now left.
             - right. rewrite Eo. apply in_or_app. right. right. now apply HinB'. }
           destruct Hcase as [E|Hin].
           ++ rewrite E. apply (wf_next d Hwf (node0, f)). rewrite Eo. apply in_or_app. right. now left.
           ++ now apply (wf_next d Hwf).
        -- apply keys_nodup_set. apply (wf_keys d Hwf).
        -- intros k'. rewrite Eo', ids_named_app, (ids_named_cons k' (node0, v)).
           assert (EB' : forall k2, str_eqb k2 (lower n) = false -> ids_named k2 B' = ids_named k2 B).
           { intros k2 Hne. unfold ids_named, B'. f_equal. apply filter_named_filter_neg.
             intros nf _ Hk2. destruct (named (lower n) nf) eqn:E; [|reflexivity].
             rewrite (str_eqb_neq_named (lower n) k2 nf Hne E) in Hk2. discriminate. }
           destruct (str_eqb k' (lower n)) eqn:Ek.
           ++ apply str_eqb_eq in Ek. subst k'. rewrite assoc_get_set_same, Hnamed0.
              assert (EA0 : ids_named (lower n) A = []) by (unfold ids_named; now rewrite HA).
              assert (EB0 : ids_named (lower n) B' = []).
              { unfold ids_named, B'. rewrite filter_filter, filter_none; [reflexivity|].
                intros y _. now destruct (named (lower n) y). }
              now rewrite EA0, EB0.
           ++ rewrite (assoc_get_set_other (lower n) k' _ _ Ek), (lookup_named d k' Hwf). f_equal.
              rewrite Eo, ids_named_app, (ids_named_cons k' (node0, f)).
              rewrite (str_eqb_neq_named (lower n) k' (node0, v) Ek Hnamed0).
              rewrite (str_eqb_neq_named (lower n) k' (node0, f) Ek Hf0).
              now rewrite (EB' k' Ek).
Qed.

(** * remove_kvpair_element *)

Lemma pd_select_absent d k :
  WfD d -> ids_named (lower (fst (key_parts k))) (d_order d) = [] ->
  select_key WAll k (map snd (d_order d)) = None.
Proof.
  intros Hwf He. pose proof (relocated_select d k Hwf) as H. cbn zeta in H.
  assert (Hr : relocated d k = Err KeyError).
  { unfold relocated. rewrite unpack_false. cbn [bind]. destruct (key_parts k) as [n idx]. cbn [fst] in He.
    now rewrite (lookup_named d (lower n) Hwf), He. }
  rewrite Hr in H. apply H.
Qed.

Lemma isin_single x (nf : N * field) : isin [x] nf = is_node x nf.
Proof. unfold isin, is_node. cbn. apply orb_false_r. Qed.

Lemma remove_first_length_ge2 (x : N) l : 2 <= length l -> remove_first (N.eqb x) l <> [].
Proof.
  destruct l as [|a [|b l]]; cbn [length]; try lia. intros _. cbn [remove_first].
  destruct (x =? a)%N; [discriminate|]. destruct (x =? b)%N; discriminate.
Qed.

Theorem pd_remove_refines d k :
  WfD d ->
  let fs := map snd (d_order d) in
  match d_remove d k with
  | Ok d' => In (false, map snd (d_order d')) (sp_cands (PDel k) fs) /\ WfD d'
  | Err _ => In (true, fs) (sp_cands (PDel k) fs)
  end.
Proof.
  intros Hwf. cbn zeta. set (fs := map snd (d_order d)).
  unfold d_remove. rewrite unpack_false. cbn [bind].
  destruct (key_parts k) as [n idx] eqn:Ekp.
  assert (Hfst : fst (key_parts k) = n) by now rewrite Ekp.
  assert (Hsnd : snd (key_parts k) = idx) by now rewrite Ekp.
  assert (Hn : NoDup (ids (d_order d))) by apply (wf_ids d Hwf).
  rewrite (lookup_named d (lower n) Hwf).
  destruct (ids_named (lower n) (d_order d)) as [|a fl'] eqn:Enodes; cbn [nonempty_opt].
  { apply refuse_in; [|now left]. unfold may_refuse. rewrite pn_plan_del. unfold fs.
    rewrite (pd_select_absent d k Hwf); [reflexivity|]. now rewrite Hfst. }
  set (fl := a :: fl') in *.
  assert (Hother : forall (P : N * field -> bool) k',
             (forall nf, In nf (d_order d) -> P nf = true -> named (lower n) nf = true) ->
             str_eqb k' (lower n) = false ->
             ids_named k' (filter (fun y => negb (P y)) (d_order d)) = ids_named k' (d_order d)).
  { intros P k' HP Hne. unfold ids_named. f_equal. apply filter_named_filter_neg.
    intros nf Hnf Hk'. destruct (P nf) eqn:EP; [|reflexivity].
    rewrite (str_eqb_neq_named (lower n) k' nf Hne (HP nf Hnf EP)) in Hk'. discriminate. }
  destruct idx as [i|].
  - (* one occurrence *)
    pose proof (occ_count_ids n (d_order d)) as Hcount. fold fs in Hcount. rewrite Enodes in Hcount.
    destruct (py_index fl i) as [node|] eqn:Hp.
    2:{ apply refuse_in; [|now left]. unfold may_refuse. rewrite pn_plan_del.
        unfold select_key. rewrite Hfst, Hsnd.
        now rewrite (select_index_none n i fs fl Hcount Hp). }
    assert (Hp' : py_index (ids_named (lower n) (d_order d)) i = Some node) by now rewrite Enodes.
    assert (Hnode : In node fl) by (now apply py_index_In in Hp).
    assert (Erm : remove_node node (d_order d) = filter (fun y => negb (is_node node y)) (d_order d))
      by now apply remove_node_filter.
    split.
    + eapply accept_in with (pl := PlDel (idmask [node] (d_order d))) (neg := (i <? 0)%Z).
      * rewrite pn_plan_del. unfold select_key. rewrite Hfst, Hsnd. unfold fs.
        now rewrite (select_index_some d n i node Hwf Hp').
      * right. cbn [run_plan d_order]. unfold fs. rewrite idmask_isin, unpick_map, Erm.
        f_equal. apply filter_ext. intros y. now rewrite isin_single.
    + assert (Ekeyids : ids_named (lower n) (remove_node node (d_order d)) = remove_first (N.eqb node) fl).
      { rewrite Erm. fold (rm node (d_order d)). rewrite (ids_named_rm (lower n) node _ Hn). now rewrite Enodes. }
      assert (Hnamed : forall nf, In nf (d_order d) -> is_node node nf = true -> named (lower n) nf = true).
      { intros nf Hnf Hi. unfold is_node in Hi. apply N.eqb_eq in Hi.
        assert (Hin2 : In node (ids_named (lower n) (d_order d))) by now rewrite Enodes.
        destruct (in_ids_named _ _ _ Hin2) as (nx & Hnx & Efx & Hnm).
        rewrite (nodup_ids_eq _ nf nx Hn Hnf Hnx); [exact Hnm|congruence]. }
      constructor; cbn [d_order d_byname d_next].
      * rewrite Erm. now apply nodup_ids_filter.
      * intros nf Hnf. rewrite Erm in Hnf. apply filter_In in Hnf as [Hnf _]. now apply (wf_next d Hwf).
      * destruct (length fl =? 1)%nat; [apply keys_nodup_del|apply keys_nodup_set]; apply (wf_keys d Hwf).
      * intros k'. destruct (str_eqb k' (lower n)) eqn:Ek.
        -- apply str_eqb_eq in Ek. subst k'. rewrite Ekeyids.
           destruct (length fl =? 1)%nat eqn:El.
           ++ apply Nat.eqb_eq in El. rewrite (assoc_get_del_same _ _ (wf_keys d Hwf)).
              unfold fl in *. destruct fl' as [|b fl']; [|discriminate].
              destruct Hnode as [->|[]]. cbn. now rewrite N.eqb_refl.
           ++ apply Nat.eqb_neq in El. rewrite assoc_get_set_same.
              assert (H2 : 2 <= length fl) by (unfold fl in *; cbn [length] in *; lia).
              pose proof (remove_first_length_ge2 node fl H2) as Hne.
              now destruct (remove_first (N.eqb node) fl).
        -- assert (Eget : assoc_get k' (if (length fl =? 1)%nat then assoc_del (lower n) (d_byname d)
                                       else assoc_set (lower n) (remove_first (N.eqb node) fl) (d_byname d))
                          = assoc_get k' (d_byname d)).
           { destruct (length fl =? 1)%nat; [now apply assoc_get_del_other|now apply assoc_get_set_other]. }
           rewrite Eget, (lookup_named d k' Hwf). f_equal. rewrite Erm. symmetry.
           now apply (Hother (is_node node) k' Hnamed Ek).
  - (* all occurrences *)
    pose proof (relocated_select d k Hwf) as Hsel. cbn zeta in Hsel.
    assert (Hr : relocated d k = Ok (lower n, fl, fl)).
    { unfold relocated. rewrite unpack_false, Ekp. cbn [bind].
      now rewrite (lookup_named d (lower n) Hwf), Enodes. }
    rewrite Hr in Hsel. destruct Hsel as (_ & _ & _ & _ & _ & neg & Hmask). fold fs in Hmask.
    assert (Efold : fold_left (fun o n0 => remove_node n0 o) fl (d_order d)
                    = filter (fun y => negb (named (lower n) y)) (d_order d)).
    { rewrite (fold_remove fl _ Hn). rewrite <- Enodes. unfold ids_named.
      now destruct (filter_isin_map_filter (named (lower n)) (d_order d) Hn) as [_ ->]. }
    rewrite Efold. split.
    + eapply accept_in with (pl := PlDel (idmask fl (d_order d))) (neg := neg).
      * rewrite pn_plan_del. fold fs. now rewrite Hmask.
      * right. cbn [run_plan d_order]. unfold fs. rewrite idmask_isin, unpick_map. f_equal.
        rewrite <- Enodes. unfold ids_named.
        destruct (filter_isin_map_filter (named (lower n)) (d_order d) Hn) as [_ E].
        unfold notin in E. now rewrite E.
    + constructor; cbn [d_order d_byname d_next].
      * now apply nodup_ids_filter.
      * intros nf Hnf. apply filter_In in Hnf as [Hnf _]. now apply (wf_next d Hwf).
      * apply keys_nodup_del. apply (wf_keys d Hwf).
      * intros k'. destruct (str_eqb k' (lower n)) eqn:Ek.
        -- apply str_eqb_eq in Ek. subst k'. rewrite (assoc_get_del_same _ _ (wf_keys d Hwf)).
           unfold ids_named. rewrite filter_filter, filter_none; [reflexivity|].
           intros y _. now destruct (named (lower n) y).
        -- rewrite (assoc_get_del_other _ _ _ Ek), (lookup_named d k' Hwf). f_equal. symmetry.
           apply (Hother (named (lower n)) k'); auto.
Qed.
