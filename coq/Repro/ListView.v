(** Model of the list views of debian._deb822_repro (C11):
    tokens.py   _value_line_tokenizer, whitespace_split_tokenizer, comma_split_tokenizer
                and the two finditer patterns;
    parsing.py  GenericContentBasedInterpretation._parse_str/_parse_stream,
                _parse_whitespace_list_value, _parse_comma_list_value,
                _parser_to_value_factory, Deb822ParsedTokenList (constructor, __iter__,
                append/append_value/append_separator/append_newline/append_comment,
                _append_continuation_line_token_if_necessary, replace, remove,
                _remove_node, iter_value_references + ValueReference, _update_field);
    _util.py    len_check_iterator, BufferingIterator (peek_find/peek_many/consume_many).

    The model works on ONE field: its name and the text of its value element
    (everything after the colon).  No proofs here. *)
From Verif Require Import Lib.Base Lib.PyStr Gen.PyChars.

Definition COMMA : N := 44.
Definition HASH : N := 35.
Definition COLON : N := 58.

Definition isws (c : N) : bool := py_isspace c.          (* \s of a str pattern, str.isspace, str.strip() *)
Definition notws (c : N) : bool := negb (py_isspace c).  (* \S *)
Definition not_comma (c : N) : bool := negb (c =? COMMA)%N.

Definition nonempty {A} (l : list A) : bool := match l with [] => false | _ => true end.

(** * Tokens *)

Inductive kind :=
| KVal      (* Deb822ValueToken *)
| KSep      (* Deb822SpaceSeparatorToken        (semantically significant whitespace) *)
| KWs       (* plain Deb822WhitespaceToken *)
| KComma    (* Deb822CommaToken *)
| KCom      (* Deb822CommentToken *)
| KCont     (* Deb822ValueContinuationToken     (semantically significant whitespace) *)
| KNl.      (* Deb822NewlineAfterValueToken     (semantically significant whitespace) *)

Definition kind_eqb (a b : kind) : bool :=
  match a, b with
  | KVal, KVal | KSep, KSep | KWs, KWs | KComma, KComma | KCom, KCom | KCont, KCont | KNl, KNl => true
  | _, _ => false
  end.

Record tok := Tok { tk : kind; tx : str }.

Definition tok_eqb (a b : tok) : bool := kind_eqb (tk a) (tk b) && str_eqb (tx a) (tx b).

Definition is_val (t : tok) : bool := kind_eqb (tk t) KVal.
Definition is_comma_tok (t : tok) : bool := kind_eqb (tk t) KComma.
Definition is_comment_tok (t : tok) : bool := kind_eqb (tk t) KCom.
(** Deb822Token.is_whitespace : the Deb822WhitespaceToken subclasses *)
Definition is_whitespace_tok (t : tok) : bool :=
  match tk t with KSep | KWs | KCont | KNl => true | _ => false end.

(** optional token: emitted only when the captured group is non-empty ("if space_before:") *)
Definition opt_tok (k : kind) (s : str) : list tok :=
  match s with [] => [] | _ => [Tok k s] end.

Definition toks_text (ts : list tok) : str := concat (map tx ts).

(** * The two finditer patterns *)

(** _RE_WHITESPACE_SEPARATED_WORD_LIST = (\s* )(\S+)(\s* ) under finditer.
    One attempt at the current position: \s* greedy, \S+ needs one character (giving back
    whitespace never helps), \s* greedy.  No match here => the search moves one character on. *)
Fixpoint ws_finditer (fuel : nat) (s : str) : result (list (str * str * str)) :=
  match fuel with
  | O => Err OutOfFuel
  | S f =>
      let (sb, r1) := span isws s in
      let (w, r2) := span notws r1 in
      match w with
      | [] => match s with
              | [] => Ok []
              | _ :: s' => ws_finditer f s'
              end
      | _ => let (sa, r3) := span isws r2 in
             do rest <- ws_finditer f r3; Ok ((sb, w, sa) :: rest)
      end
  end.

(** whitespace_split_tokenizer's body (one line, no LF) *)
Definition ws_line_tokens (v : str) : result (list tok) :=
  if nonempty v && forallb isws v then Ok [Tok KSep v]        (* if v and not v.strip() *)
  else
    do ms <- ws_finditer (S (length v)) v;
    Ok (flat_map (fun m => match m with (sb, w, sa) =>
                    opt_tok KSep sb ++ [Tok KVal w] ++ opt_tok KSep sa end) ms).

(** _RE_COMMA_SEPARATED_WORD_LIST =
      (?: ^ | (\s* )(,) ) (\s* ) ( [^,\s] (?: [^,]*[^,\s] )? )? (\s* )         under finditer. *)
Record cgroups := CG { g_sbc : str; g_comma : bool; g_sbw : str; g_word : str; g_saw : str }.

(** (\s* )(word)?(\s* ) : all three greedy; the word is the run up to the next comma with
    its trailing whitespace given back ([^,]* backtracks to the last [^,\s]). *)
Definition comma_tail (s : str) : (str * str * str) * str :=
  let (sbw, r1) := span isws s in
  match r1 with
  | c :: _ =>
      if not_comma c then
        let (run, r2) := span not_comma r1 in
        let word := rstrip_by isws run in
        ((sbw, word, skipn (length word) run), r2)
      else ((sbw, [], []), r1)
  | [] => ((sbw, [], []), r1)
  end.

(** One match attempt at the current position.  [at_start]: position 0 (where ^ matches);
    [must_adv]: the previous match was empty and ended here, an empty match is refused
    and the engine backtracks into the second alternative.
    Returns the groups, the rest and whether the match was empty. *)
Definition comma_try (at_start must_adv : bool) (s : str) : option (cgroups * str * bool) :=
  let alt2 :=
    let (sbc, r) := span isws s in
    match r with
    | c :: r' =>
        if (c =? COMMA)%N then
          match comma_tail r' with
          | ((sbw, w, saw), rest) => Some (CG sbc true sbw w saw, rest, false)
          end
        else None
    | [] => None
    end in
  if at_start then
    match comma_tail s with
    | ((sbw, w, saw), rest) =>
        let empty := negb (nonempty sbw || nonempty w || nonempty saw) in
        if must_adv && empty then alt2
        else Some (CG [] false sbw w saw, rest, empty)
    end
  else alt2.

Fixpoint comma_finditer (fuel : nat) (at_start must_adv : bool) (s : str) : result (list cgroups) :=
  match fuel with
  | O => Err OutOfFuel
  | S f =>
      match comma_try at_start must_adv s with
      | Some (g, rest, empty) =>
          do more <- comma_finditer f (at_start && empty) empty rest; Ok (g :: more)
      | None =>
          match s with
          | [] => Ok []
          | _ :: s' => comma_finditer f false false s'
          end
      end
  end.

Definition comma_groups (v : str) : result (list cgroups) :=
  comma_finditer (2 * length v + 2) true false v.

(** comma_split_tokenizer's body (one line, no LF) *)
Definition comma_line_tokens (v : str) : result (list tok) :=
  do ms <- comma_groups v;
  Ok (flat_map (fun g =>
        opt_tok KWs (g_sbc g) ++ (if g_comma g then [Tok KComma [COMMA]] else [])
        ++ opt_tok KWs (g_sbw g) ++ opt_tok KVal (g_word g) ++ opt_tok KWs (g_saw g)) ms).

(** * _value_line_tokenizer *)

Inductive lkind := Space | Comma.

Definition lkind_eqb (a b : lkind) : bool :=
  match a, b with Space, Space | Comma, Comma => true | _, _ => false end.

Definition line_func (k : lkind) : str -> result (list tok) :=
  match k with Space => ws_line_tokens | Comma => comma_line_tokens end.

Definition ends_with_lf (s : str) : bool :=
  match last_opt s with Some c => (c =? LF)%N | None => false end.

Definition starts_hash (s : str) : bool :=
  match s with c :: _ => (c =? HASH)%N | [] => false end.

(** one element of v.splitlines(keepends=True) *)
Definition line_tokens (k : lkind) (first : bool) (line : str) : result (list tok) :=
  if negb first && starts_hash line then Ok [Tok KCom line]
  else
    do mb <- (if first then Ok ([], line)
              else match line with
                   | c :: r => Ok ([Tok KCont [c]], r)
                   | [] => Err IndexError                   (* line[0]; splitlines yields no empty line *)
                   end);
    let (marker, body) := mb : list tok * str in
    let (body', nl) := if ends_with_lf body then (removelast body, [Tok KNl [LF]]) else (body, []) in
    do ts <- line_func k body';
    Ok (marker ++ ts ++ nl).

Fixpoint lines_tokens (k : lkind) (first : bool) (ls : list str) : result (list tok) :=
  match ls with
  | [] => Ok []
  | l :: ls' =>
      do a <- line_tokens k first l;
      do b <- lines_tokens k false ls';
      Ok (a ++ b)
  end.

(** _RE_WHITESPACE_LINE.match(v)  for  ^\s+$ *)
Definition all_ws (v : str) : bool := nonempty v && forallb isws v.

(** whitespace_split_tokenizer / comma_split_tokenizer applied to a whole value text.
    The assert sits inside the loop: it fires when there is at least one line. *)
Definition tokenize (k : lkind) (v : str) : result (list tok) :=
  if all_ws v then Err AssertionError
  else lines_tokens k true (splitlines py_islinebreak true v).

(** * Value parsers and _parse_str *)

Inductive item :=
| IT (t : tok)             (* a token left as it is *)
| IV (ts : list tok) (full : bool).
  (* Deb822ParsedValueElement.  [full] records what its text cache holds:
     convert_to_text() and convert_to_text_without_comments() share ONE cache slot
     (_text_no_comments_cached), whichever is called first fills it for both.
       false : filled by the comment-free rendering (elements of a parsed field: the
               session reads list(view) right after opening the view);
       true  : filled by convert_to_text() (elements made by the value factory, whose
               length assert calls convert_to_text() before anything renders them).
     For a single-token element both texts coincide. *)

Definition is_value (it : item) : bool := match it with IV _ _ => true | IT _ => false end.
Definition item_toks (it : item) : list tok := match it with IT t => [t] | IV ts _ => ts end.
Definition item_text (it : item) : str := toks_text (item_toks it).
Definition items_text (its : list item) : str := concat (map item_text its).

(** BufferingIterator.peek_find(_is_comma_token): 1-based offset *)
Fixpoint peek_find_comma (ts : list tok) (i : nat) : option nat :=
  match ts with
  | [] => None
  | t :: ts' => if is_comma_tok t then Some (S i) else peek_find_comma ts' (S i)
  end.

(** while value_parts and not isinstance(value_parts[-1], Deb822ValueToken): value_parts.pop() *)
Definition trim_to_value (ts : list tok) : list tok := rdropwhile (fun t => negb (is_val t)) ts.

Fixpoint parse_stream (k : lkind) (fuel : nat) (ts : list tok) : result (list item) :=
  match fuel with
  | O => Err OutOfFuel
  | S f =>
      match ts with
      | [] => Ok []
      | t :: rest =>
          if is_val t then
            match k with
            | Space => do r <- parse_stream k f rest; Ok (IV [t] false :: r)
            | Comma =>
                let seg := match peek_find_comma rest 0 with
                           | Some off => firstn (off - 1) rest          (* peek_many(comma_offset - 1) *)
                           | None => rest                               (* peek_buffer() *)
                           end in
                let parts := trim_to_value (t :: seg) in
                do r <- parse_stream k f (skipn (length parts - 1) rest); (* consume_many(len - 1) *)
                Ok (IV parts false :: r)
            end
          else do r <- parse_stream k f rest; Ok (IT t :: r)
      end
  end.

(** GenericContentBasedInterpretation._parse_str with both len_check_iterator guards *)
Definition parse_str (k : lkind) (v : str) : result (list item) :=
  do ts <- tokenize k v;
  if negb (length (toks_text ts) =? length v)%nat then Err ValueError        (* inner guard *)
  else
    do its <- parse_stream k (S (length ts)) ts;
    if negb (length (items_text its) =? length v)%nat then Err ValueError    (* outer guard *)
    else Ok its.

(** _parser_to_value_factory(...)._value_factory.  The generator is consumed lazily by two
    next() calls; every way it can end early raises the same kinds as the eager reading:
    the tokenizer's assert fires on the first pull, all other failures are ValueError. *)
Definition value_factory (k : lkind) (v : str) : result item :=
  match v with
  | [] => Err ValueError
  | _ =>
      do its <- parse_str k v;
      match its with
      | [] => Err AssertionError                               (* assert t1 is not None *)
      | [IV ts _] =>
          if (length (toks_text ts) =? length v)%nat then Ok (IV ts true)   (* the assert fills the cache *)
          else Err AssertionError
      | [IT _] => Err ValueError
      | _ :: _ :: _ => Err ValueError
      end
  end.

(** * Deb822ParsedTokenList *)

(** render = Deb822ParsedValueElement.convert_to_text_without_comments
    (the default discard_comments_on_read=True), which answers from the shared cache *)
Definition render (it : item) : str :=
  match it with
  | IV ts true => toks_text ts
  | _ => toks_text (filter (fun t => negb (is_comment_tok t)) (item_toks it))
  end.

(** isinstance(t, stype) *)
Definition is_stype (k : lkind) (it : item) : bool :=
  match it with
  | IT t => match k with
            | Space => match tk t with KSep | KCont | KNl => true | _ => false end
            | Comma => is_comma_tok t
            end
  | IV _ _ => false
  end.

Definition is_comment_item (it : item) : bool :=
  match it with IT t => is_comment_tok t | IV _ _ => false end.

Definition node := (N * item)%type.

Record view := View {
  v_nodes : list node;          (* the LinkedList, each node with an identity *)
  v_next : N;                   (* next fresh identity *)
  v_cont : option str;          (* __continuation_line_char cache *)
  v_changed : bool;
  v_refs : list N;              (* the harness's current list(iter_value_references()) *)
}.

Definition v_items (vw : view) : list item := map snd (v_nodes vw).

Fixpoint number_from (n : N) (its : list item) : list node :=
  match its with [] => [] | it :: r => (n, it) :: number_from (N.succ n) r end.

(** ListInterpretation._high_level_interpretation + Deb822ParsedTokenList.__init__ *)
Definition mk_view (its : list item) : result view :=
  match its with
  | [] => Err AssertionError                       (* assert self._token_list *)
  | _ =>
      let its' := match last_opt its with
                  | Some (IT t) => if kind_eqb (tk t) KNl then removelast its else its
                  | _ => its
                  end in
      Ok (View (number_from 0 its') (N.of_nat (length its')) None false [])
  end.

Definition interpret (k : lkind) (v : str) : result view :=
  do its <- parse_str k v; mk_view its.

(** list(view) *)
Definition values_of (its : list item) : list str := map render (filter is_value its).
Definition view_values (vw : view) : list str := values_of (v_items vw).

Definition item_ends_lf (it : item) : bool := ends_with_lf (item_text it).

(** _continuation_line_char (cached on first use) *)
Definition cont_char (vw : view) : str * view :=
  match v_cont vw with
  | Some c => (c, vw)
  | None =>
      let c := match List.find (fun it => match it with IT t => kind_eqb (tk t) KCont | IV _ _ => false end)
                          (v_items vw) with
               | Some it => item_text it
               | None => [SP]
               end in
      (c, View (v_nodes vw) (v_next vw) (Some c) (v_changed vw) (v_refs vw))
  end.

Definition push (vw : view) (it : item) : view :=
  View (v_nodes vw ++ [(v_next vw, it)]) (N.succ (v_next vw)) (v_cont vw) (v_changed vw) (v_refs vw).

Definition set_changed (vw : view) : view :=
  View (v_nodes vw) (v_next vw) (v_cont vw) true (v_refs vw).

Definition set_nodes (vw : view) (ns : list node) : view :=
  View ns (v_next vw) (v_cont vw) (v_changed vw) (v_refs vw).

Definition tail_ends_lf (vw : view) : bool :=
  match last_opt (v_items vw) with Some it => item_ends_lf it | None => false end.

(** _append_continuation_line_token_if_necessary *)
Definition append_cont_if_necessary (vw : view) : view :=
  if tail_ends_lf vw then
    let (c, vw') := cont_char vw in push vw' (IT (Tok KCont c))
  else vw.

(** append_separator(space_after_separator) *)
Definition append_separator (k : lkind) (space_after : bool) (vw : view) : view :=
  let vw := set_changed vw in
  let vw := append_cont_if_necessary vw in
  match k with
  | Space => push vw (IT (Tok KSep [SP]))
  | Comma =>
      let vw := push vw (IT (Tok KComma [COMMA])) in
      if space_after then push vw (IT (Tok KWs [SP])) else vw
  end.

(** for t in reversed(value_parts): value => True; stype => stop *)
Fixpoint needs_separator (k : lkind) (rev_items : list item) : bool :=
  match rev_items with
  | [] => false
  | it :: r => if is_value it then true else if is_stype k it then false else needs_separator k r
  end.

(** append_value *)
Definition append_value (k : lkind) (vt : item) (vw : view) : view :=
  let vw :=
    match v_nodes vw with
    | [] => push vw (IT (Tok KWs [SP]))
    | _ => if needs_separator k (rev (v_items vw)) then append_separator k true vw else vw
    end in
  let vw := append_cont_if_necessary vw in
  push (set_changed vw) vt.

Definition append (k : lkind) (x : str) (vw : view) : result view :=
  do vt <- value_factory k x; Ok (append_value k vt vw).

(** append_newline *)
Definition append_newline (vw : view) : result view :=
  if tail_ends_lf vw then Err ValueError else Ok (push vw (IT (Tok KNl [LF]))).

(** _format_comment *)
Definition format_comment (c : str) : result str :=
  match c with
  | [] => Ok [HASH; LF]
  | _ =>
      if mem_char LF (removelast c) then Err ValueError
      else
        let c1 := if ends_with_lf c then c else rstrip_by isws c ++ [LF] in
        Ok (if starts_hash c1 then c1 else [HASH; SP] ++ lstrip_by isws c1)
  end.

(** append_comment: the newline is appended before the comment text is checked, so a
    rejected comment text leaves the newline behind (second component) *)
Definition append_comment (c : str) (vw : view) : result view * view :=
  match (if tail_ends_lf vw then Ok vw else append_newline vw) with
  | Err e => (Err e, vw)
  | Ok vw1 =>
      match format_comment c with
      | Err e => (Err e, vw1)
      | Ok text => (Ok (push vw1 (IT (Tok KCom text))), vw1)
      end
  end.

(** position of the first value whose rendering is [x] *)
Fixpoint find_value (x : str) (its : list item) (i : nat) : option nat :=
  match its with
  | [] => None
  | it :: r => if is_value it && str_eqb (render it) x then Some i else find_value x r (S i)
  end.

Fixpoint find_id (id : N) (ns : list node) (i : nat) : option nat :=
  match ns with
  | [] => None
  | (j, _) :: r => if (j =? id)%N then Some i else find_id id r (S i)
  end.

Fixpoint set_at {A} (i : nat) (f : A -> A) (l : list A) : list A :=
  match l, i with
  | [], _ => []
  | a :: r, O => f a :: r
  | a :: r, S i' => a :: set_at i' f r
  end.

Definition delete_range {A} (a b : nat) (l : list A) : list A := firstn a l ++ skipn b l.

(** replace the value held by node [i] (node.value = ...) *)
Definition set_value_at (i : nat) (vt : item) (vw : view) : view :=
  set_changed (set_nodes vw (set_at i (fun n => (fst n, vt)) (v_nodes vw))).

(** replace(orig, new) *)
Definition replace (k : lkind) (x y : str) (vw : view) : result view :=
  match find_value x (v_items vw) 0 with
  | None => Err ValueError
  | Some i => do vt <- value_factory k y; Ok (set_value_at i vt vw)
  end.

(** The two scans of _remove_node: walk away from the node; comments seen before the
    first value set the flag; returns the distance to that value. *)
Fixpoint scan_side (its : list item) (seen_comment : bool) (d : nat) : bool * option nat :=
  match its with
  | [] => (seen_comment, None)
  | it :: r =>
      if is_comment_item it then scan_side r true (S d)
      else if is_value it then (seen_comment, Some d)
      else scan_side r seen_comment (S d)
  end.

Definition is_some {A} (o : option A) : bool := match o with Some _ => true | None => false end.

(** _remove_node on positions: [None] = clear(), [Some (a, b)] = unlink positions a..b-1.
      delete left  : keep the value at distance d on the left, drop up to and with the node;
      delete right : drop the node and everything up to the next value. *)
Definition remove_range (its : list item) (i : nat) : option (nat * nat) :=
  let (com_l, lhs) := scan_side (rev (firstn i its)) false 0 in
  let (com_r, rhs) := scan_side (skipn (S i) its) false 0 in
  match lhs, rhs with
  | None, None => None
  | Some dl, None => Some (i - dl, S i)%nat      (* every branch of the choice gives "left" *)
  | None, Some dr => Some (i, S i + dr)%nat      (* every branch of the choice gives "right" *)
  | Some dl, Some dr =>
      let delete_lhs :=
        if negb com_l then true
        else if negb com_r then false
        else true in
      if delete_lhs then Some (i - dl, S i)%nat else Some (i, S i + dr)%nat
  end.

Definition remove_at (i : nat) (vw : view) : view :=
  let vw := set_changed vw in
  match remove_range (v_items vw) i with
  | None => set_nodes vw []
  | Some (a, b) => set_nodes vw (delete_range a b (v_nodes vw))
  end.

(** remove(value) *)
Definition remove (x : str) (vw : view) : result view :=
  match find_value x (v_items vw) 0 with
  | None => Err ValueError
  | Some i => Ok (remove_at i vw)
  end.

(** * Value references.  A reference holds a weak reference to its node: it resolves
    while the node is linked in the list (CPython frees an unlinked node at once) and
    raises RuntimeError (kind OtherError) afterwards, as it does after its own remove(). *)

Definition snapshot (vw : view) : view :=
  View (v_nodes vw) (v_next vw) (v_cont vw) (v_changed vw)
       (map fst (filter (fun n => is_value (snd n)) (v_nodes vw))).

Definition resolve (j : nat) (vw : view) : result nat :=
  match nth_error (v_refs vw) j with
  | None => Err IndexError                       (* refs[j] in the harness *)
  | Some id =>
      match find_id id (v_nodes vw) 0 with
      | Some i => Ok i
      | None => Err OtherError                   (* RuntimeError *)
      end
  end.

(** ref.value *)
Definition ref_get (j : nat) (vw : view) : result str :=
  do i <- resolve j vw;
  match nth_error (v_items vw) i with
  | Some it => Ok (render it)
  | None => Err OtherError
  end.

(** ref.value = x : the right-hand side (the factory) is evaluated first *)
Definition ref_set (k : lkind) (j : nat) (x : str) (vw : view) : result view :=
  match nth_error (v_refs vw) j with
  | None => Err IndexError
  | Some _ =>
      do vt <- value_factory k x;
      do i <- resolve j vw;
      Ok (set_value_at i vt vw)
  end.

(** ref.remove() *)
Definition ref_remove (j : nat) (vw : view) : result view :=
  do i <- resolve j vw; Ok (remove_at i vw).

(** * _update_field *)

(** ** The re-parse of the regenerated field text, as far as parse_deb822_file can be
    reached from here: a recogniser for "name:content" that answers what
    parse_deb822_file(text.splitlines(keepends=True)) followed by
    next(iter(file)).get_kvpair_element(name).value_element.convert_to_text() gives. *)

(** first / following characters of a field name in _RE_FIELD_LINE *)
Definition fn_first (c : N) : bool :=
  (c =? 33)%N || (c =? 34)%N || ((36 <=? c)%N && (c <=? 44)%N)
  || ((47 <=? c)%N && (c <=? 57)%N) || ((59 <=? c)%N && (c <=? 127)%N).
Definition fn_rest (c : N) : bool :=
  ((33 <=? c)%N && (c <=? 57)%N) || ((59 <=? c)%N && (c <=? 127)%N).

(** _RE_FIELD_LINE.match(line): everything after the colon is optional, so the match
    succeeds iff the name run is followed by ':' *)
Definition field_name_of (l : str) : option str :=
  match l with
  | c :: r =>
      if fn_first c then
        let (n, r') := span fn_rest r in
        match r' with
        | d :: _ => if (d =? COLON)%N then Some (c :: n) else None
        | [] => None
        end
      else None
  | [] => None
  end.

Definition starts_sp_tab (l : str) : bool :=
  match l with c :: _ => (c =? SP)%N || (c =? TAB)%N | [] => false end.

(** tokenize_deb822_file's treatment of line endings (auto_correct_newlines, the
    "Invalid line iterator" and "inconsistent line endings" errors) *)
Definition normalize_lines (ls : list str) : result (list str) :=
  match ls with
  | [] => Ok []
  | l1 :: rest =>
      if ends_with_lf l1 then
        if forallb ends_with_lf (removelast ls) then Ok ls else Err ValueError
      else
        match rest with
        | [] => Ok ls
        | _ => if existsb ends_with_lf ls then Err ValueError
               else Ok (map (fun l => l ++ [LF]) ls)
        end
  end.

(** some line becomes a Deb822ErrorToken *)
Fixpoint has_error_line (cur_field : bool) (ls : list str) : bool :=
  match ls with
  | [] => false
  | l :: r =>
      if all_ws l then has_error_line false r
      else if starts_hash l then has_error_line cur_field r
      else if starts_sp_tab l then (if cur_field then has_error_line cur_field r else true)
      else match field_name_of l with
           | Some _ => has_error_line true r
           | None => true
           end
  end.

(** field names per paragraph (paragraphs end at whitespace-only lines) *)
Fixpoint para_names (cur : list str) (ls : list str) : list (list str) :=
  match ls with
  | [] => [rev cur]
  | l :: r =>
      if all_ws l then rev cur :: para_names [] r
      else if starts_hash l || starts_sp_tab l then para_names cur r
      else match field_name_of l with
           | Some n => para_names (ascii_lower n :: cur) r
           | None => para_names cur r
           end
  end.

Fixpoint has_dup (ns : list str) : bool :=
  match ns with
  | [] => false
  | n :: r => existsb (str_eqb n) r || has_dup r
  end.

(** the continuation (and attached comment) lines of the first field *)
Fixpoint take_value_lines (pending : list str) (ls : list str) : list str :=
  match ls with
  | [] => []
  | l :: r =>
      if all_ws l then []
      else if starts_hash l then take_value_lines (pending ++ [l]) r
      else if starts_sp_tab l then pending ++ l :: take_value_lines [] r
      else []
  end.

Definition reparse (name content : str) : result str :=
  let text := name ++ [COLON] ++ content in
  do ls <- normalize_lines (splitlines py_islinebreak true text);
  if has_error_line false ls then Err ValueError
  else if existsb has_dup (para_names [] ls) then Err ValueError
  else
    match ls with
    | l1 :: rest =>
        match field_name_of l1 with
        | Some n =>
            if str_eqb n name then Ok (skipn (S (length name)) l1 ++ concat (take_value_lines [] rest))
            else Err KeyError                      (* get_kvpair_element(field_name) *)
        | None => Err ValueError                   (* unreachable: an error line was excluded *)
        end
    | [] => Err StopIteration                      (* next(iter(deb822_file)) on an empty file *)
    end.

(** ** _update_field: content check, not-ending-on-comment, newline supply, re-parse.
    Returns the text of the new value element. *)
Definition has_content (its : list item) : bool :=
  existsb (fun t => negb (is_comment_tok t) && negb (is_whitespace_tok t)) (flat_map item_toks its).

Definition update_field (name : str) (vw : view) : result str :=
  let its := v_items vw in
  if negb (has_content its) then Err ValueError
  else
    match last_opt its with
    | None => Err AssertionError                                   (* assert tail is not None *)
    | Some tail =>
        if is_comment_item tail then Err ValueError
        else
          let its' := if item_ends_lf tail then its else its ++ [IT (Tok KNl [LF])] in
          reparse name (items_text its')
    end.

(** * A whole session on one field *)

Inductive op :=
| OAppend (x : str)
| ORemove (x : str)
| OReplace (x y : str)
| OSnap                          (* refs = list(view.iter_value_references()) *)
| ORefGet (j : nat)              (* refs[j].value *)
| ORefSet (j : nat) (x : str)    (* refs[j].value = x *)
| ORefRemove (j : nat)           (* refs[j].remove() *)
| OSep (space_after : bool)      (* append_separator(space_after) *)
| ONewline                       (* append_newline() *)
| OComment (c : str).            (* append_comment(c) *)

(** outcome of one operation: the values of the view afterwards (and the string read
    by ORefGet), or the exception kind *)
Inductive outcome :=
| Done (vals : list str) (got : option str)
| Failed (e : err).

(** new view (after a failure: the view as the failed call left it), error, value read *)
Definition step (k : lkind) (o : op) (vw : view) : view * option err * option str :=
  let plain (r : result view) :=
    match r with Ok vw' => (vw', None, None) | Err e => (vw, Some e, None) end in
  match o with
  | OAppend x => plain (append k x vw)
  | ORemove x => plain (remove x vw)
  | OReplace x y => plain (replace k x y vw)
  | OSnap => (snapshot vw, None, None)
  | ORefGet j => match ref_get j vw with Ok s => (vw, None, Some s) | Err e => (vw, Some e, None) end
  | ORefSet j x => plain (ref_set k j x vw)
  | ORefRemove j => plain (ref_remove j vw)
  | OSep b => (append_separator k b vw, None, None)
  | ONewline => plain (append_newline vw)
  | OComment c =>
      match append_comment c vw with
      | (Ok vw', _) => (vw', None, None)
      | (Err e, vw1) => (vw1, Some e, None)
      end
  end.

Fixpoint run_ops (k : lkind) (os : list op) (vw : view) : list outcome * view :=
  match os with
  | [] => ([], vw)
  | o :: os' =>
      match step k o vw with
      | (vw', None, got) =>
          let (outs, vf) := run_ops k os' vw' in (Done (view_values vw') got :: outs, vf)
      | (vw', Some e, _) =>
          let (outs, vf) := run_ops k os' vw' in (Failed e :: outs, vf)
      end
  end.

(** __exit__: rewrite the field only when something changed.
    Returns the exception of _update_field (if any) and the field's value text afterwards. *)
Definition close (name value : str) (vw : view) : option err * str :=
  if v_changed vw then
    match update_field name vw with
    | Ok v' => (None, v')
    | Err e => (Some e, value)
    end
  else (None, value).

Record session_result := SR {
  sr_read : result (list str);        (* list(view) right after interpret_as *)
  sr_ops : list outcome;
  sr_close : option err;
  sr_value : str;                     (* the field's value text afterwards *)
}.

Definition run_session (k : lkind) (name value : str) (os : list op) : session_result :=
  match interpret k value with
  | Err e => SR (Err e) [] None value
  | Ok vw =>
      let (outs, vf) := run_ops k os vw in
      let (ce, v') := close name value vf in
      SR (Ok (view_values vw)) outs ce v'
  end.

(** only the value element is replaced: the document is pre ++ name ++ ":" ++ value ++ post *)
Definition doc_of (pre name value post : str) : str := pre ++ name ++ [COLON] ++ value ++ post.
