(** Field-level model of the format-preserving deb822 document
    (debian._deb822_repro.parsing), as the code is in /repo now.

    A document is what the real parser produced, abstracted to texts:
      doc   = list item
      item  = Para para | Other kind text        (top-level tokens/elements of Deb822FileElement)
      para  = PN (list field)                    Deb822NoDuplicateFieldsParagraphElement
            | PD dpara                           Deb822DuplicateFieldsParagraphElement
      field = { comment ; name ; rest }          Deb822KeyValuePairElement:
                                                 comment element text, field name token text,
                                                 everything after the name (":" + value lines
                                                 with inline comments and the final LF if any)
    The initial document of a case is read off the implementation's own parse
    (iter_parts); where the code re-parses text (set_field_from_raw_string) the
    model has its own field-text recogniser [parse_new_field].

    Transcribed here: _unpack_key, _format_comment, AutoResolvingMixin.__getitem__ /
    __delitem__, Deb822ParagraphToStrWrapperMixin.__setitem__ / _convert_value_to_str,
    Deb822ParagraphElement.set_field_to_simple_value / set_field_from_raw_string /
    _ensure_final_newline / from_kvpairs, get_kvpair_element / set_kvpair_element /
    remove_kvpair_element of both paragraph classes, _resolve_to_single_node,
    _init_kvpair_fields, Deb822ValueElement.add_final_newline_if_missing.

    No proofs here: the model must still run when a proof breaks. *)
From Verif Require Import Lib.Base Lib.PyStr Gen.PyChars.

(** * Small helpers *)

Definition COLON : N := 58.
Definition HASH : N := 35.

Definition is_nil {A} (l : list A) : bool := match l with [] => true | _ => false end.

(** [s.endswith("\n")] *)
Definition ends_nl (s : str) : bool :=
  match last_opt s with Some c => (c =? LF)%N | None => false end.

Definition is_lf (c : N) : bool := (c =? LF)%N.

(** the physical lines of a text: split after every LF, LF kept *)
Definition lf_lines (s : str) : list str := splitlines is_lf true s.

Definition py_strip (s : str) : str := strip_by py_isspace s.
Definition py_lstrip (s : str) : str := lstrip_by py_isspace s.
Definition py_rstrip (s : str) : str := rstrip_by py_isspace s.

(** Python [l[i]] with negative indices; [None] = IndexError *)
Definition py_index {A} (l : list A) (i : Z) : option A :=
  let n := Z.of_nat (length l) in
  let j := if (i <? 0)%Z then (i + n)%Z else i in
  if (j <? 0)%Z || (n <=? j)%Z then None else nth_error l (Z.to_nat j).

Fixpoint map_last {A} (g : A -> A) (l : list A) : list A :=
  match l with
  | [] => []
  | [a] => [g a]
  | a :: l' => a :: map_last g l'
  end.

Fixpoint replace_first {A} (p : A -> bool) (v : A) (l : list A) : list A :=
  match l with
  | [] => []
  | a :: l' => if p a then v :: l' else a :: replace_first p v l'
  end.

Fixpoint remove_first {A} (p : A -> bool) (l : list A) : list A :=
  match l with
  | [] => []
  | a :: l' => if p a then l' else a :: remove_first p l'
  end.

Fixpoint map_result {A B} (f : A -> result B) (l : list A) : result (list B) :=
  match l with
  | [] => Ok []
  | a :: l' => do b <- f a; do bs <- map_result f l'; Ok (b :: bs)
  end.

(** association lists keyed by text (dict with lower-cased _strI keys) *)
Fixpoint assoc_get {B} (k : str) (l : list (str * B)) : option B :=
  match l with
  | [] => None
  | (k', v) :: l' => if str_eqb k k' then Some v else assoc_get k l'
  end.

Fixpoint assoc_set {B} (k : str) (v : B) (l : list (str * B)) : list (str * B) :=
  match l with
  | [] => [(k, v)]
  | (k', v') :: l' => if str_eqb k k' then (k', v) :: l' else (k', v') :: assoc_set k v l'
  end.

Fixpoint assoc_del {B} (k : str) (l : list (str * B)) : list (str * B) :=
  match l with
  | [] => []
  | (k', v') :: l' => if str_eqb k k' then l' else (k', v') :: assoc_del k l'
  end.

(** * Fields *)

Record field := mkF { f_comment : str; f_name : str; f_rest : str }.

Definition field_text (f : field) : str := f_comment f ++ f_name f ++ f_rest f.

(** _strI: compared and hashed through [str.lower()]; field names are ASCII
    (the field-name pattern admits nothing else), keys outside ASCII are outside
    the claimed domain of the model. *)
Definition lower (s : str) : str := ascii_lower s.
Definition name_eqb (a b : str) : bool := str_eqb (lower a) (lower b).
Definition has_name (n : str) (f : field) : bool := name_eqb (f_name f) n.

(** Deb822ValueElement.add_final_newline_if_missing: the newline token of the
    last value line is missing exactly when the text does not end in LF. *)
Definition add_nl (f : field) : field :=
  if ends_nl (f_rest f) then f else mkF (f_comment f) (f_name f) (f_rest f ++ [LF]).

(** * Keys *)

Inductive key := KStr (n : str) | KIdx (n : str) (i : Z).

Definition key_name (k : key) : str := match k with KStr n | KIdx n _ => n end.

(** _unpack_key (name tokens as keys are not modelled) *)
Definition unpack_key (k : key) (raise_if_indexed : bool) : result (str * option Z) :=
  match k with
  | KStr n => Ok (n, None)
  | KIdx n i =>
      if raise_if_indexed then
        if (i =? 0)%Z then Ok (n, None) else Err KeyError
      else Ok (n, Some i)
  end.

(** lookups can additionally fail with AmbiguousDeb822FieldKeyError (a KeyError
    subclass that set_field_from_raw_string catches by class) *)
Inductive lres (A : Type) := LOk (a : A) | LAmb | LErr (e : err).
Arguments LOk {A} a.
Arguments LAmb {A}.
Arguments LErr {A} e.

Definition lres_result {A} (r : lres A) : result A :=
  match r with LOk a => Ok a | LAmb => Err KeyError | LErr e => Err e end.

(** * Deb822NoDuplicateFieldsParagraphElement

    _kvpair_elements (dict keyed by _strI) and _kvpair_order (OrderedSet of the
    same keys) are kept in step by every method; they are modelled by one list
    of fields in _kvpair_order order.  (The key spelling stored in the order set
    and the field-name token spelling coincide in every state reachable through
    the modelled operations: set_field_from_raw_string re-uses the original
    field's spelling.) *)

Definition nd_get (fs : list field) (k : key) (use_get : bool) : result (option field) :=
  do nk <- unpack_key k true;
  match List.find (has_name (fst nk)) fs with
  | Some f => Ok (Some f)
  | None => if use_get then Ok None else Err KeyError       (* self._kvpair_elements[item] *)
  end.

Definition nd_set_kvpair (fs : list field) (k : key) (v : field) : result (list field) :=
  do nk <- unpack_key k true;
  if negb (name_eqb (fst nk) (f_name v)) then Err ValueError
  else if existsb (has_name (f_name v)) fs
       then Ok (replace_first (has_name (f_name v)) v fs)      (* dict slot replaced, order.append is a no-op *)
       else Ok (map_last add_nl fs ++ [v]).                     (* _ensure_final_newline; appended *)

Definition nd_remove (fs : list field) (k : key) : result (list field) :=
  do nk <- unpack_key k true;
  if existsb (has_name (fst nk)) fs
  then Ok (remove_first (has_name (fst nk)) fs)
  else Err KeyError.                                            (* del self._kvpair_elements[key] *)

(** * Deb822DuplicateFieldsParagraphElement

    _kvpair_order : LinkedList of nodes (identity [N], current value [field]);
    _kvpair_elements : dict lower-name -> list of nodes. *)

Record dpara := mkD { d_order : list (N * field); d_byname : list (str * list N); d_next : N }.

Definition node_val (id : N) (o : list (N * field)) : option field :=
  match List.find (fun nf => (fst nf =? id)%N) o with Some nf => Some (snd nf) | None => None end.

Definition set_node_val (id : N) (v : field) (o : list (N * field)) : list (N * field) :=
  map (fun nf => if (fst nf =? id)%N then (id, v) else nf) o.

(** LinkedList.remove_node, at list level *)
Definition remove_node (id : N) (o : list (N * field)) : list (N * field) :=
  remove_first (fun nf => (fst nf =? id)%N) o.

(** _init_kvpair_fields *)
Fixpoint init_kvpairs (fs : list field) (d : dpara) : dpara :=
  match fs with
  | [] => d
  | f :: fs' =>
      let id := d_next d in
      let k := lower (f_name f) in
      let bn := match assoc_get k (d_byname d) with
                | None => assoc_set k [id] (d_byname d)
                | Some l => assoc_set k (l ++ [id]) (d_byname d)
                end in
      init_kvpairs fs' (mkD (d_order d ++ [(id, f)]) bn (N.succ id))
  end.

Definition init_dup (fs : list field) : dpara := init_kvpairs fs (mkD [] [] 0%N).

(** _resolve_to_single_node (without name token) *)
Definition resolve_single (nodes : list N) (idx : option Z) (use_get : bool) : lres (option N) :=
  let idx' := match idx with
              | Some i => Some i
              | None => match nodes with [_] => Some 0%Z | _ => None end
              end in
  match idx' with
  | None => LAmb
  | Some i =>
      match py_index nodes i with
      | Some n => LOk (Some n)
      | None => if use_get then LOk None else LErr KeyError
      end
  end.

Definition d_get (d : dpara) (k : key) (use_get : bool) : lres (option field) :=
  match unpack_key k false with
  | Err e => LErr e
  | Ok (n, idx) =>
      match assoc_get (lower n) (d_byname d) with
      | None => if use_get then LOk None else LErr KeyError
      | Some nodes =>
          match resolve_single nodes idx use_get with
          | LOk (Some id) =>
              match node_val id (d_order d) with
              | Some f => LOk (Some f)
              | None => LErr OtherError          (* dangling node: excluded by the invariant *)
              end
          | LOk None => LOk None
          | LAmb => LAmb
          | LErr e => LErr e
          end
      end
  end.

Definition d_ensure_nl (o : list (N * field)) : list (N * field) :=
  map_last (fun nf => (fst nf, add_nl (snd nf))) o.

Definition d_set_kvpair (d : dpara) (k : key) (v : field) : result dpara :=
  do nk <- unpack_key k false;
  let '(n, idx) := nk in
  if negb (name_eqb n (f_name v)) then Err ValueError else
  let key := lower (f_name v) in
  let original := assoc_get key (d_byname d) in
  match original with
  | None | Some [] =>
      if match idx with Some i => negb (i =? 0)%Z | None => false end then Err KeyError
      else
        let id := d_next d in
        let bn := match original with
                  | None => assoc_set key [id] (d_byname d)
                  | Some l => assoc_set key (l ++ [id]) (d_byname d)
                  end in
        Ok (mkD (d_ensure_nl (d_order d) ++ [(id, v)]) bn (N.succ id))
  | Some ((node0 :: others) as nodes) =>
      match idx with
      | None =>
          (* replace all: the first node takes the value, the others are discarded *)
          let bn := if is_nil others then d_byname d else assoc_set key [node0] (d_byname d) in
          let o := set_node_val node0 v (d_order d) in
          Ok (mkD (fold_left (fun o n => remove_node n o) others o) bn (d_next d))
      | Some i =>
          match py_index nodes i with
          | None => Err IndexError                         (* original_nodes[index] *)
          | Some node => Ok (mkD (set_node_val node v (d_order d)) (d_byname d) (d_next d))
          end
      end
  end.

Definition d_remove (d : dpara) (k : key) : result dpara :=
  do nk <- unpack_key k false;
  let '(n, idx) := nk in
  let key := lower n in
  match assoc_get key (d_byname d) with
  | None => Err KeyError                                    (* self._kvpair_elements[key] *)
  | Some fl =>
      match idx with
      | None =>
          Ok (mkD (fold_left (fun o n => remove_node n o) fl (d_order d))
                  (assoc_del key (d_byname d)) (d_next d))
      | Some i =>
          match py_index fl i with
          | None => Err IndexError                         (* field_list[idx]; the except clause names KeyError *)
          | Some node =>
              let bn := if (length fl =? 1)%nat then assoc_del key (d_byname d)
                        else assoc_set key (remove_first (N.eqb node) fl) (d_byname d) in
              Ok (mkD (remove_node node (d_order d)) bn (d_next d))
          end
      end
  end.

(** * Paragraphs of either class *)

Inductive para := PN (fs : list field) | PD (d : dpara).

Definition para_fields (p : para) : list field :=
  match p with PN fs => fs | PD d => map snd (d_order d) end.

Definition para_text (p : para) : str := concat (map field_text (para_fields p)).

Fixpoint nodupb (l : list str) : bool :=
  match l with
  | [] => true
  | a :: l' => negb (existsb (str_eqb a) l') && nodupb l'
  end.

(** Deb822ParagraphElement.from_kvpairs (for a non-empty list) *)
Definition from_kvpairs (fs : list field) : para :=
  if nodupb (map (fun f => lower (f_name f)) fs) then PN fs else PD (init_dup fs).

Definition p_get (p : para) (k : key) (use_get : bool) : lres (option field) :=
  match p with
  | PN fs => match nd_get fs k use_get with Ok o => LOk o | Err e => LErr e end
  | PD d => d_get d k use_get
  end.

Definition p_set_kvpair (p : para) (k : key) (v : field) : result para :=
  match p with
  | PN fs => do fs' <- nd_set_kvpair fs k v; Ok (PN fs')
  | PD d => do d' <- d_set_kvpair d k v; Ok (PD d')
  end.

(** remove_kvpair_element = __delitem__ *)
Definition p_remove (p : para) (k : key) : result para :=
  match p with
  | PN fs => do fs' <- nd_remove fs k; Ok (PN fs')
  | PD d => do d' <- d_remove d k; Ok (PD d')
  end.

(** Deb822ParagraphElement._ensure_final_newline *)
Definition p_ensure_nl (p : para) : para :=
  match p with
  | PN fs => PN (map_last add_nl fs)
  | PD d => PD (mkD (d_ensure_nl (d_order d)) (d_byname d) (d_next d))
  end.

(** * The field-text recogniser: what tokenizer + parser make of the lines that
      set_field_from_raw_string hands them *)

(** _RE_WHITESPACE_LINE = ^\s+$ on one line *)
Definition is_ws_line (l : str) : bool := negb (is_nil l) && forallb py_isspace l.

(** character classes of _RE_FIELD_LINE *)
Definition name_first (c : N) : bool :=
  (c =? 33)%N || (c =? 34)%N || ((36 <=? c)%N && (c <=? 44)%N)
  || ((47 <=? c)%N && (c <=? 57)%N) || ((59 <=? c)%N && (c <=? 127)%N).
Definition name_char (c : N) : bool :=
  ((33 <=? c)%N && (c <=? 57)%N) || ((59 <=? c)%N && (c <=? 127)%N).

(** _RE_FIELD_LINE.match(line) for a line whose only LF (if any) is its last
    character: field name and the remainder starting at the colon.  The
    remainder is always consumed whole (optional space, value, optional space). *)
Definition match_field_line (l : str) : option (str * str) :=
  match l with
  | c :: _ =>
      if name_first c then
        let (n, r) := span name_char l in
        match r with
        | c' :: _ => if (c' =? COLON)%N then Some (n, r) else None
        | [] => None
        end
      else None
  | [] => None
  end.

Inductive lclass := LWs | LComment | LCont | LField (name rest : str) | LError.

(** tokenize_deb822_file's per-line decision *)
Definition classify (in_field : bool) (l : str) : lclass :=
  if is_ws_line l then LWs else
  match l with
  | [] => LError
  | c :: _ =>
      if (c =? HASH)%N then LComment
      else if (c =? SP)%N || (c =? TAB)%N then (if in_field then LCont else LError)
      else match match_field_line l with
           | Some (n, r) => LField n r
           | None => LError
           end
  end.

(** after the field ended on a whitespace-only line: only whitespace and
    comment lines may follow (they end up outside the paragraph) *)
Fixpoint scan_tail (ls : list str) : result unit :=
  match ls with
  | [] => Ok tt
  | l :: ls' =>
      match classify false l with
      | LWs | LComment => scan_tail ls'
      | LField _ _ => Err OtherError      (* a second field: excluded by the line validation *)
      | LCont | LError => Err ValueError  (* error token *)
      end
  end.

(** inside the field: [pending] = comment lines not yet followed by a continuation
    line (they belong to the value only if one follows) *)
Fixpoint scan_body (ls : list str) (pending acc : str) : result str :=
  match ls with
  | [] => Ok acc
  | l :: ls' =>
      match classify true l with
      | LComment => scan_body ls' (pending ++ l) acc
      | LCont => scan_body ls' [] (acc ++ pending ++ l)
      | LWs => do _ <- scan_tail ls'; Ok acc
      | LField _ _ => Err OtherError
      | LError => Err ValueError
      end
  end.

(** before the field line: [pending] = the comment block that will attach to it *)
Fixpoint scan_head (ls : list str) (pending : str) : result (option field) :=
  match ls with
  | [] => Ok None
  | l :: ls' =>
      match classify false l with
      | LComment => scan_head ls' (pending ++ l)
      | LWs => scan_head ls' []
      | LField n r => do rest <- scan_body ls' [] r; Ok (Some (mkF pending n rest))
      | LCont | LError => Err ValueError
      end
  end.

(** parse_deb822_file(iter(new_content)); find_first_error_element;
    next(iter(deb822_file)); paragraph.get_kvpair_element(field_name) *)
Definition parse_new_field (content : list str) (field_name : str) : result field :=
  (* every line but the last must end in LF; a first line without LF switches the
     tokenizer to newline auto-correction, which the LF-terminated raw lines violate *)
  if negb (forallb ends_nl content) then Err ValueError else
  do o <- scan_head content [];
  match o with
  | None => Err StopIteration
  | Some f => if name_eqb (f_name f) field_name then Ok f else Err KeyError
  end.

(** _format_comment *)
Definition format_comment (c : str) : result str :=
  if is_nil c then Ok [HASH; LF]
  else if mem_char LF (removelast c) then Err ValueError
  else
    let c1 := if ends_nl c then c else py_rstrip c ++ [LF] in
    let c2 := match c1 with
              | x :: _ => if (x =? HASH)%N then c1 else [HASH; SP] ++ py_lstrip c1
              | [] => [HASH; SP]
              end in
    Ok c2.

(** the line checks of set_field_from_raw_string *)
Fixpoint check_raw_lines (first : bool) (ls : list str) : result unit :=
  match ls with
  | [] => Ok tt
  | l :: ls' =>
      if negb (ends_nl l) then Err ValueError
      else if negb first &&
              match l with
              | c :: _ => negb ((c =? SP)%N || (c =? TAB)%N || (c =? HASH)%N)
              | [] => true
              end
      then Err ValueError
      else check_raw_lines false ls'
  end.

Definition starts_hash (l : str) : bool :=
  match l with c :: _ => (c =? HASH)%N | [] => false end.

Definition validate_raw_lines (ls : list str) : result unit :=
  do _ <- check_raw_lines true ls;
  match ls with
  | _ :: _ :: _ =>
      match last_opt ls with
      | Some l => if starts_hash l then Err ValueError else Ok tt
      | None => Ok tt
      end
  | _ => Ok tt
  end.

(** the field_comment argument: absent, a list of strings, or (from __setitem__)
    the comment element of the original field *)
Inductive fcomment := FCNone | FCList (l : list str) | FCElem (t : str).

(** Deb822KeyValuePairElement.comment_element setter *)
Definition set_comment (v : field) (c : str) : result field :=
  if is_nil c then Ok (mkF [] (f_name v) (f_rest v))
  else if ends_nl c then Ok (mkF c (f_name v) (f_rest v))
  else Err ValueError.

(** set_field_from_raw_string, first block: the two comment arguments.  Result: the formatted
    comment lines that go in front of the new field text, and what is left of the arguments. *)
Definition raw_args (pres : option bool) (fc : fcomment)
  : result (list str * option bool * fcomment) :=
  match pres, fc with
  | Some _, FCNone => Ok ([], pres, FCNone)
  | Some _, _ => Err ValueError
  | None, FCNone => Ok ([], None, FCNone)
  | None, FCList l => do cs <- map_result format_comment l; Ok (cs, Some false, FCNone)
  | None, FCElem t => Ok ([], Some false, FCElem t)
  end.

(** set_field_from_raw_string, from [field_name, _, _ = _unpack_key(item)] on *)
Definition set_raw_core (p : para) (k : key) (raw_value : str)
           (comments : list str) (pres : option bool) (fc : fcomment) : result para :=
  let field_name := key_name k in
  do original <- match p_get p k true with
                 | LOk o => Ok o
                 | LAmb =>
                     if match pres with Some true => true | _ => false end then Err KeyError
                     else lres_result (p_get p (KIdx field_name 0) true)
                 | LErr e => Err e
                 end;
  let pres := match pres with None => true | Some b => b end in
  let cased := match original with Some f => f_name f | None => field_name end in
  let raw := cased ++ [COLON] ++ raw_value in
  let raw_lines := splitlines py_islinebreak true raw in
  do _ <- validate_raw_lines raw_lines;
  do v <- parse_new_field (comments ++ raw_lines) field_name;
  do v <- (if pres then
             match original with
             | Some o => set_comment v (f_comment o)
             | None => Ok v
             end
           else
             match fc with
             | FCElem t => set_comment v t
             | _ => Ok v
             end);
  p_set_kvpair p k v.

(** set_field_from_raw_string *)
Definition set_raw (p : para) (k : key) (raw_value : str)
           (pres : option bool) (fc : fcomment) : result para :=
  do st <- raw_args pres fc;
  let '(comments, pres, fc) := st in
  set_raw_core p k raw_value comments pres fc.

(** set_field_to_simple_value *)
Definition set_simple (p : para) (k : key) (simple_value : str)
           (pres : option bool) (fc : fcomment) : result para :=
  if mem_char LF simple_value then Err ValueError
  else set_raw p k ([SP] ++ py_strip simple_value ++ [LF]) pres fc.

(** Deb822ParagraphToStrWrapperMixin.__setitem__ (all four auto_* flags True, as on
    the paragraph itself) *)
Definition setitem (p : para) (k : key) (value : str) : result para :=
  let key_lookup := match k with KStr n => KIdx n 0 | _ => k end in
  do orig <- lres_result (p_get p key_lookup true);
  let fc := match orig with
            | Some f => if is_nil (f_comment f) then FCNone else FCElem (f_comment f)
            | None => FCNone
            end in
  match split_on_first LF value with
  | (_, None) => set_simple p k (py_strip value) None fc
  | (first_line, Some rest) =>
      let value' := [SP] ++ py_strip first_line ++ [LF] ++ rest in
      let value'' := if ends_nl value' then value' else value' ++ [LF] in
      set_raw p k value'' None fc
  end.

(** * Reading: __getitem__ and _convert_value_to_str *)

(** the value lines of a field with their comment lines removed
    (_convert_value_lines_to_lines with strip_comments) *)
Definition value_lines (rest : str) : list str :=
  match lf_lines (tl rest) with
  | [] => [[]]
  | l1 :: ls => l1 :: filter (fun l => negb (starts_hash l)) ls
  end.

Definition drop_final_nl (s : str) : str := if ends_nl s then removelast s else s.

Definition value_str (f : field) : str :=
  match value_lines (f_rest f) with
  | [] => []
  | [l] => py_strip l
  | l1 :: ls => drop_final_nl (py_strip l1 ++ [LF] ++ concat ls)
  end.

Definition getitem (p : para) (k : key) : result str :=
  let k' := match k with KStr n => KIdx n 0 | _ => k end in
  match p_get p k' false with
  | LOk (Some f) => Ok (value_str f)
  | LOk None => Err AssertionError
  | LAmb => Err KeyError
  | LErr e => Err e
  end.

(** occurrence index of the [i]-th name among the names before it *)
Fixpoint count_name (n : str) (before : list str) : Z :=
  match before with
  | [] => 0%Z
  | m :: b => ((if name_eqb m n then 1 else 0) + count_name n b)%Z
  end.

Fixpoint read_keys (p : para) (dup : bool) (before : list str) (names : list str)
  : list (str * result str) :=
  match names with
  | [] => []
  | n :: ns =>
      (n, getitem p (if dup then KIdx n (count_name n before) else KStr n))
      :: read_keys p dup (before ++ [n]) ns
  end.

(** what the harness reads: list(p.keys()) and p[name] (p[(name, i)] for the
    i-th occurrence in a duplicate-fields paragraph) *)
Definition read_para (p : para) : list (str * result str) :=
  let names := map f_name (para_fields p) in
  read_keys p (match p with PD _ => true | PN _ => false end) [] names.

(** * Documents *)

Inductive okind := OWs | OComment | OError.
Inductive item := Para (p : para) | Other (k : okind) (t : str).
Definition doc := list item.

Definition item_text (it : item) : str :=
  match it with Para p => para_text p | Other _ t => t end.

Definition dump (d : doc) : str := concat (map item_text d).

(** apply [f] to the [j]-th paragraph (list(file)[j]) *)
Fixpoint update_para (d : doc) (j : nat) (f : para -> result para) : result doc :=
  match d with
  | [] => Err IndexError
  | Para p :: d' =>
      match j with
      | O => do p' <- f p; Ok (Para p' :: d')
      | S j' => do d'' <- update_para d' j' f; Ok (Para p :: d'')
      end
  | it :: d' => do d'' <- update_para d' j f; Ok (it :: d'')
  end.

Definition paras (d : doc) : list para :=
  flat_map (fun it => match it with Para p => [p] | Other _ _ => [] end) d.

(** * Edit operations (C05) *)

Inductive op :=
| OSet (j : nat) (k : key) (v : str)                                        (* p[k] = v *)
| ODel (j : nat) (k : key)                                                  (* del p[k] *)
| OSimple (j : nat) (k : key) (v : str) (pres : option bool) (fc : option (list str))
| ORaw (j : nat) (k : key) (v : str) (pres : option bool) (fc : option (list str)).

Definition fc_of (fc : option (list str)) : fcomment :=
  match fc with None => FCNone | Some l => FCList l end.

Definition run_op (d : doc) (o : op) : result doc :=
  match o with
  | OSet j k v => update_para d j (fun p => setitem p k v)
  | ODel j k => update_para d j (fun p => p_remove p k)
  | OSimple j k v pres fc => update_para d j (fun p => set_simple p k v pres (fc_of fc))
  | ORaw j k v pres fc => update_para d j (fun p => set_raw p k v pres (fc_of fc))
  end.

(** an edit that raises leaves the document as it was *)
Definition step (d : doc) (o : op) : option err * doc :=
  match run_op d o with
  | Ok d' => (None, d')
  | Err e => (Some e, d)
  end.

Definition run (d : doc) (ops : list op) : doc :=
  fold_left (fun d o => snd (step d o)) ops d.

(** * Re-reading the text of one paragraph (C05 read-back)

    What tokenizer + parser make of the lines of a paragraph's own text: comment lines attach
    to the field line or continuation line that follows them, a field line closes the field
    before it.  [cur] = the field being read, [pend] = comment lines not yet attached.  A
    blank line or comment lines left over at the end do not occur inside a paragraph's text. *)
Fixpoint scan_fields (ls : list str) (cur : option field) (pend : str) : result (list field) :=
  match ls with
  | [] =>
      if is_nil pend then Ok (match cur with Some f => [f] | None => [] end) else Err OtherError
  | l :: ls' =>
      match classify (match cur with Some _ => true | None => false end) l with
      | LComment => scan_fields ls' cur (pend ++ l)
      | LCont =>
          match cur with
          | Some f => scan_fields ls' (Some (mkF (f_comment f) (f_name f) (f_rest f ++ pend ++ l))) []
          | None => Err ValueError
          end
      | LField n r =>
          do rest <- scan_fields ls' (Some (mkF pend n r)) [];
          Ok (match cur with Some f => f :: rest | None => rest end)
      | LWs => Err OtherError
      | LError => Err ValueError
      end
  end.

Definition scan_para (text : str) : result (list field) := scan_fields (lf_lines text) None [].
