(** parse_dump_abs, part 2 of 3: the six grouping stages on a well-shaped token stream.

    A [tdoc] ("tokenised document") describes a token stream by its line structure:
      TWs t        one (merged) whitespace token
      TComment ls  a run of comment tokens (free comment lines)
      TPara fs     the tokens of consecutive fields; a field = comment tokens, name token,
                   separator token, then value lines: the rest of the field line, and groups
                   "comment tokens* continuation token rest-of-line"; the rest of a line =
                   plain tokens (value / whitespace other than a lone LF) + the newline token
                   unless the line is the unterminated end of the whole stream.
    [R0 td] is the stream as token nodes.  For streams that are well shaped ([td_wf]: plain
    tokens are plain, no empty paragraph / comment run, a comment run is followed by
    whitespace or the end, two paragraphs are not adjacent; [td_cl]: only the very last line
    lacks its newline token) the stages produce, one after the other, [R1 td] ... [R5 td], and
    [abs_of_tree] reads [doc_of td] off the result.  No character classes are involved here. *)
From Coq Require Import Lia.
From Verif Require Import Lib.Base Lib.PyStr Repro.Token Repro.Parse Repro.ParseProofs
  Repro.Doc Repro.Abs.

Local Notation is_nil := Token.is_nil.
Local Notation COLON := Token.COLON.

(** * Tokenised documents *)
Record tline := mkTL { tl_plain : list node; tl_nl : bool }.
Record tgroup := mkTG { tg_cmts : list str; tg_c0 : str; tg_line : tline }.
Record tfield := mkTF { tf_cmts : list str; tf_name : str; tf_first : tline; tf_body : list tgroup }.
Inductive titem := TPara (fs : list tfield) | TWs (t : str) | TComment (ls : list str).
Definition tdoc := list titem.

Definition nl_node : node := Tok KNewlineAfterValue [LF].
Definition nl_nodes (b : bool) : list node := if b then [nl_node] else [].
Definition eol_opt (b : bool) : option node := if b then Some nl_node else None.
Definition cmt_toks (ls : list str) : list node := map (Tok KComment) ls.
Definition cmt_elem (ls : list str) : node := Elem EComment (cmt_toks ls).
Definition opt_cmt (ls : list str) : list node := if is_nil ls then [] else [cmt_elem ls].
Definition opt_cmt_o (ls : list str) : option node := if is_nil ls then None else Some (cmt_elem ls).
Definition cont_node (c0 : str) : node := Tok KValueContinuation c0.
Definition name_node (n : str) : node := Tok KFieldName n.
Definition sep_node : node := Tok KFieldSeparator [COLON].

(** tokens that may stand between the separator / continuation token and the end of the line *)
Definition is_plain (n : node) : bool :=
  match n with
  | Tok KValue _ => true
  | Tok KWhitespace t => negb (str_eqb t [LF])
  | _ => false
  end.

(** ** the stream after each stage *)
Definition line0 (l : tline) : list node := tl_plain l ++ nl_nodes (tl_nl l).
Definition group0 (g : tgroup) : list node :=
  cmt_toks (tg_cmts g) ++ cont_node (tg_c0 g) :: line0 (tg_line g).
Definition field0 (f : tfield) : list node :=
  cmt_toks (tf_cmts f) ++ name_node (tf_name f) :: sep_node
    :: line0 (tf_first f) ++ flat_map group0 (tf_body f).
Definition item0 (it : titem) : list node :=
  match it with
  | TPara fs => flat_map field0 fs
  | TWs t => [Tok KWhitespace t]
  | TComment ls => cmt_toks ls
  end.
Definition R0 (td : tdoc) : list node := flat_map item0 td.

(** after stage 1: comment tokens grouped *)
Definition group1 (g : tgroup) : list node :=
  opt_cmt (tg_cmts g) ++ cont_node (tg_c0 g) :: line0 (tg_line g).
Definition field1 (f : tfield) : list node :=
  opt_cmt (tf_cmts f) ++ name_node (tf_name f) :: sep_node
    :: line0 (tf_first f) ++ flat_map group1 (tf_body f).
Definition item1 (it : titem) : list node :=
  match it with
  | TPara fs => flat_map field1 fs
  | TWs t => [Tok KWhitespace t]
  | TComment ls => [cmt_elem ls]
  end.
Definition R1 (td : tdoc) : list node := flat_map item1 td.

(** after stage 2: value lines *)
Definition vl (c ct : option node) (l : tline) : node :=
  mk_value_line c ct (tl_plain l) (eol_opt (tl_nl l)).
Definition group2 (g : tgroup) : node :=
  vl (opt_cmt_o (tg_cmts g)) (Some (cont_node (tg_c0 g))) (tg_line g).
Definition vls (f : tfield) : list node := vl None None (tf_first f) :: map group2 (tf_body f).
Definition field2 (f : tfield) : list node :=
  opt_cmt (tf_cmts f) ++ name_node (tf_name f) :: sep_node :: vls f.
Definition item2 (it : titem) : list node :=
  match it with
  | TPara fs => flat_map field2 fs
  | TWs t => [Tok KWhitespace t]
  | TComment ls => [cmt_elem ls]
  end.
Definition R2 (td : tdoc) : list node := flat_map item2 td.

(** after stage 3: value elements *)
Definition field3 (f : tfield) : list node :=
  opt_cmt (tf_cmts f) ++ [name_node (tf_name f); sep_node; Elem EValue (vls f)].
Definition item3 (it : titem) : list node :=
  match it with
  | TPara fs => flat_map field3 fs
  | TWs t => [Tok KWhitespace t]
  | TComment ls => [cmt_elem ls]
  end.
Definition R3 (td : tdoc) : list node := flat_map item3 td.

(** after stage 4: key-value pairs *)
Definition field4 (f : tfield) : node :=
  Elem (EKvp (negb (is_nil (tf_cmts f))))
       (opt_cmt (tf_cmts f) ++ [name_node (tf_name f); sep_node; Elem EValue (vls f)]).
Definition item4 (it : titem) : list node :=
  match it with
  | TPara fs => map field4 fs
  | TWs t => [Tok KWhitespace t]
  | TComment ls => [cmt_elem ls]
  end.
Definition R4 (td : tdoc) : list node := flat_map item4 td.

(** after stages 5 and 6: paragraphs *)
Definition item5 (it : titem) : node :=
  match it with
  | TPara fs => Parse.from_kvpairs (map field4 fs)
  | TWs t => Tok KWhitespace t
  | TComment ls => cmt_elem ls
  end.
Definition R5 (td : tdoc) : list node := map item5 td.

(** ** the document the stream stands for *)
Definition rest_text (f : tfield) : str :=
  COLON :: dump_list (line0 (tf_first f) ++ flat_map group0 (tf_body f)).
Definition field_of (f : tfield) : field := mkF (concat (tf_cmts f)) (tf_name f) (rest_text f).
Definition item_of (it : titem) : item :=
  match it with
  | TPara fs => Para (Doc.from_kvpairs (map field_of fs))
  | TWs t => Other OWs t
  | TComment ls => Other OComment (concat ls)
  end.
Definition doc_of (td : tdoc) : doc := map item_of td.

(** ** well-shaped streams *)
Definition tline_wf (l : tline) : bool := forallb is_plain (tl_plain l).
Definition tgroup_wf (g : tgroup) : bool := tline_wf (tg_line g).
Definition tfield_wf (f : tfield) : bool := tline_wf (tf_first f) && forallb tgroup_wf (tf_body f).
Definition titem_wf (it : titem) : bool :=
  match it with
  | TPara fs => negb (is_nil fs) && forallb tfield_wf fs
  | TWs _ => true
  | TComment ls => negb (is_nil ls)
  end.
Definition tadj (it nx : titem) : bool :=
  match it, nx with
  | TPara _, TPara _ => false
  | TComment _, TWs _ => true
  | TComment _, _ => false
  | _, _ => true
  end.
Fixpoint td_wf (td : tdoc) : bool :=
  match td with
  | [] => true
  | it :: td' =>
      titem_wf it && match td' with nx :: _ => tadj it nx | [] => true end && td_wf td'
  end.

(** only the very last line of the stream may lack its newline token; [E] = nothing follows *)
Fixpoint groups_cl (gs : list tgroup) (E : bool) : bool :=
  match gs with
  | [] => true
  | g :: gs' => (tl_nl (tg_line g) || (E && is_nil gs')) && groups_cl gs' E
  end.
Definition field_cl (f : tfield) (E : bool) : bool :=
  (tl_nl (tf_first f) || (E && is_nil (tf_body f))) && groups_cl (tf_body f) E.
Fixpoint fields_cl (fs : list tfield) (E : bool) : bool :=
  match fs with
  | [] => true
  | f :: fs' => field_cl f (E && is_nil fs') && fields_cl fs' E
  end.
Fixpoint td_cl (td : tdoc) : bool :=
  match td with
  | [] => true
  | it :: td' =>
      match it with TPara fs => fields_cl fs (is_nil td') | _ => true end && td_cl td'
  end.

(** * Generic facts about [combine] *)
Definition hd_ok (p : node -> bool) (l : list node) : bool :=
  match l with [] => true | x :: _ => negb (p x) end.

Lemma hd_ok_app p a b : hd_ok p a = true -> hd_ok p b = true -> hd_ok p (a ++ b) = true.
Proof. destruct a; [trivial|]. intros H _. exact H. Qed.

Lemma hd_ok_app_cons p x a b : hd_ok p ((x :: a) ++ b) = negb (p x).
Proof. reflexivity. Qed.

Section Combine.
Variable is_src : node -> bool.
Variable ctor : list node -> node.

Lemma combine_from_run a : forall acc l,
  forallb is_src a = true ->
  combine_from is_src ctor acc (a ++ l) = combine_from is_src ctor (acc ++ a) l.
Proof.
  induction a as [|x a IH]; intros acc l H; [now rewrite app_nil_r|].
  cbn [forallb] in H. apply andb_true_iff in H. destruct H as [Hx H].
  cbn [app combine_from]. rewrite Hx, IH by exact H. now rewrite <- app_assoc.
Qed.

Lemma combine_one x l : is_src x = false -> combine is_src ctor (x :: l) = x :: combine is_src ctor l.
Proof. intros H. unfold combine. cbn [combine_from]. now rewrite H. Qed.

Lemma combine_run a l :
  forallb is_src a = true -> a <> [] -> hd_ok is_src l = true ->
  combine is_src ctor (a ++ l) = ctor a :: combine is_src ctor l.
Proof.
  intros Ha Hne Hl. unfold combine. rewrite combine_from_run by exact Ha. cbn [app].
  assert (Hf : flush ctor a = [ctor a]) by (unfold flush; destruct a; [congruence|reflexivity]).
  destruct l as [|x l]; cbn [combine_from]; [now rewrite Hf|].
  cbn [hd_ok] in Hl. apply negb_true_iff in Hl. now rewrite Hl, Hf.
Qed.

Lemma combine_pass a l :
  forallb (fun x => negb (is_src x)) a = true ->
  combine is_src ctor (a ++ l) = a ++ combine is_src ctor l.
Proof.
  induction a as [|x a IH]; intros H; [reflexivity|].
  cbn [forallb] in H. apply andb_true_iff in H. destruct H as [Hx H].
  cbn [app]. rewrite combine_one by now apply negb_true_iff. now rewrite IH.
Qed.

Lemma combine_all_pass a :
  forallb (fun x => negb (is_src x)) a = true -> combine is_src ctor a = a.
Proof.
  intros H. rewrite <- (app_nil_r a) at 1. rewrite combine_pass by exact H.
  unfold combine. cbn. apply app_nil_r.
Qed.
End Combine.

(** * Small facts about the nodes *)
Lemma plain_not_comment_tok l :
  forallb is_plain l = true -> forallb (fun x => negb (is_comment_tok x)) l = true.
Proof.
  intros H. rewrite forallb_forall in *. intros x Hx. specialize (H x Hx).
  destruct x as [[] t|]; try discriminate; reflexivity.
Qed.

Lemma plain_non_eol x : is_plain x = true -> non_eol x = true.
Proof.
  destruct x as [[] t|]; try discriminate; cbn; intros H; [exact H|reflexivity].
Qed.

Lemma cmt_toks_src ls : forallb is_comment_tok (cmt_toks ls) = true.
Proof. induction ls as [|l ls IH]; [reflexivity|exact IH]. Qed.

Lemma cmt_toks_nonnil ls : is_nil ls = false -> cmt_toks ls <> [].
Proof. destruct ls; [discriminate|discriminate]. Qed.

Lemma nl_nodes_not_comment b : forallb (fun x => negb (is_comment_tok x)) (nl_nodes b) = true.
Proof. now destruct b. Qed.

Lemma line0_not_comment l :
  tline_wf l = true -> forallb (fun x => negb (is_comment_tok x)) (line0 l) = true.
Proof.
  intros H. unfold line0. rewrite forallb_app, plain_not_comment_tok by exact H.
  apply nl_nodes_not_comment.
Qed.

(** * Stage 1 : comment tokens -> comment elements *)
Lemma s1_cmts ls rest :
  hd_ok is_comment_tok rest = true ->
  combine_comments (cmt_toks ls ++ rest) = opt_cmt ls ++ combine_comments rest.
Proof.
  intros H. unfold opt_cmt. destruct (is_nil ls) eqn:E.
  - destruct ls; [reflexivity|discriminate].
  - unfold combine_comments. rewrite combine_run; [reflexivity|apply cmt_toks_src| |exact H].
    now apply cmt_toks_nonnil.
Qed.

Lemma s1_group g rest :
  tgroup_wf g = true ->
  combine_comments (group0 g ++ rest) = group1 g ++ combine_comments rest.
Proof.
  intros H. unfold group0, group1. rewrite <- !app_assoc. rewrite s1_cmts by reflexivity.
  f_equal. cbn [app]. unfold combine_comments. rewrite combine_one by reflexivity. f_equal.
  apply combine_pass. now apply line0_not_comment.
Qed.

Lemma s1_groups gs rest :
  forallb tgroup_wf gs = true ->
  combine_comments (flat_map group0 gs ++ rest) = flat_map group1 gs ++ combine_comments rest.
Proof.
  induction gs as [|g gs IH]; intros H; [reflexivity|].
  cbn [forallb] in H. apply andb_true_iff in H. destruct H as [Hg H].
  cbn [flat_map]. rewrite <- !app_assoc, s1_group by exact Hg. now rewrite IH.
Qed.

Lemma s1_field f rest :
  tfield_wf f = true ->
  combine_comments (field0 f ++ rest) = field1 f ++ combine_comments rest.
Proof.
  intros H. unfold tfield_wf in H. apply andb_true_iff in H. destruct H as [H1 H2].
  unfold field0, field1. rewrite <- !app_assoc. rewrite s1_cmts by reflexivity. f_equal.
  cbn [app]. unfold combine_comments. rewrite !combine_one by reflexivity. do 2 f_equal.
  rewrite <- !app_assoc. rewrite combine_pass by now apply line0_not_comment. f_equal.
  now apply s1_groups.
Qed.

Lemma s1_fields fs rest :
  forallb tfield_wf fs = true ->
  combine_comments (flat_map field0 fs ++ rest) = flat_map field1 fs ++ combine_comments rest.
Proof.
  induction fs as [|f fs IH]; intros H; [reflexivity|].
  cbn [forallb] in H. apply andb_true_iff in H. destruct H as [Hf H].
  cbn [flat_map]. rewrite <- !app_assoc, s1_field by exact Hf. now rewrite IH.
Qed.

Lemma td_wf_cons it td :
  td_wf (it :: td) = true ->
  titem_wf it = true /\ match td with nx :: _ => tadj it nx | [] => true end = true /\ td_wf td = true.
Proof.
  cbn [td_wf]. intros H. apply andb_true_iff in H. destruct H as [H H3].
  apply andb_true_iff in H. destruct H as [H1 H2]. now repeat split.
Qed.

Theorem stage1 td : td_wf td = true -> combine_comments (R0 td) = R1 td.
Proof.
  induction td as [|it td IH]; intros H; [reflexivity|].
  apply td_wf_cons in H. destruct H as [Hit [Hadj Htd]]. specialize (IH Htd).
  unfold R0, R1 in *. cbn [flat_map]. destruct it as [fs|t|ls]; cbn [item0 item1].
  - cbn [titem_wf] in Hit. apply andb_true_iff in Hit. destruct Hit as [_ Hfs].
    rewrite s1_fields by exact Hfs. now rewrite IH.
  - cbn [app]. unfold combine_comments. rewrite combine_one by reflexivity. f_equal. exact IH.
  - cbn [titem_wf] in Hit. rewrite s1_cmts.
    + unfold opt_cmt. apply negb_true_iff in Hit. rewrite Hit. now rewrite IH.
    + destruct td as [|nx td']; [reflexivity|]. destruct nx; try discriminate. reflexivity.
Qed.

(** * Stage 2 : value lines *)
Lemma bvl_other t rest :
  is_comment_elem t = false -> is_cont_tok t = false -> is_fieldsep_tok t = false ->
  build_value_lines (t :: rest) = t :: build_value_lines rest.
Proof. intros H1 H2 H3. cbn [build_value_lines]. now rewrite H1, H2, H3. Qed.

Lemma bvl_cmt ls rest :
  hd_ok is_cont_tok rest = true ->
  build_value_lines (cmt_elem ls :: rest) = cmt_elem ls :: build_value_lines rest.
Proof.
  intros H. cbn [build_value_lines cmt_elem is_comment_elem].
  destruct rest as [|nx rest2]; [reflexivity|]. cbn [hd_ok] in H.
  apply negb_true_iff in H. now rewrite H.
Qed.

Lemma tvl_line c ct plain : forall acc nl rest,
  forallb is_plain plain = true -> (nl = false -> rest = []) ->
  take_value_line build_value_lines c ct acc (plain ++ nl_nodes nl ++ rest)
  = mk_value_line c ct (acc ++ plain) (eol_opt nl) :: build_value_lines rest.
Proof.
  induction plain as [|x plain IH]; intros acc nl rest H Hnl.
  - cbn [app]. rewrite app_nil_r. destruct nl; cbn [nl_nodes app eol_opt].
    + reflexivity.
    + rewrite (Hnl eq_refl). reflexivity.
  - cbn [forallb] in H. apply andb_true_iff in H. destruct H as [Hx H].
    cbn [app take_value_line]. rewrite (plain_non_eol _ Hx), IH by assumption.
    now rewrite <- app_assoc.
Qed.

Lemma s2_line c ct l rest :
  tline_wf l = true -> (tl_nl l = false -> rest = []) ->
  take_value_line build_value_lines c ct [] (line0 l ++ rest) = vl c ct l :: build_value_lines rest.
Proof.
  intros H Hnl. unfold line0, vl. rewrite <- app_assoc. now rewrite tvl_line.
Qed.

Lemma s2_groups gs : forall E rest,
  forallb tgroup_wf gs = true -> groups_cl gs E = true -> (E = true -> rest = []) ->
  build_value_lines (flat_map group1 gs ++ rest) = map group2 gs ++ build_value_lines rest.
Proof.
  induction gs as [|g gs IH]; intros E rest H Hcl HE; [reflexivity|].
  cbn [forallb] in H. apply andb_true_iff in H. destruct H as [Hg H].
  cbn [groups_cl] in Hcl. apply andb_true_iff in Hcl. destruct Hcl as [Hc Hcl].
  cbn [flat_map map]. unfold group1 at 1. rewrite <- !app_assoc. cbn [app].
  assert (Hrest : tl_nl (tg_line g) = false -> flat_map group1 gs ++ rest = []).
  { intros Hn. rewrite Hn in Hc. cbn [orb] in Hc. apply andb_true_iff in Hc. destruct Hc as [HE' Hgs].
    destruct gs; [|discriminate]. cbn. now apply HE. }
  unfold group2, opt_cmt, opt_cmt_o. destruct (is_nil (tg_cmts g)).
  - cbn [app build_value_lines cont_node is_comment_elem is_cont_tok is_tok_kind].
    rewrite s2_line by assumption. cbn [app]. f_equal. now apply (IH E).
  - cbn [app build_value_lines cmt_elem is_comment_elem cont_node is_cont_tok is_tok_kind].
    rewrite s2_line by assumption. cbn [app]. f_equal. now apply (IH E).
Qed.

Lemma s2_field f E rest :
  tfield_wf f = true -> field_cl f E = true -> (E = true -> rest = []) ->
  build_value_lines (field1 f ++ rest) = field2 f ++ build_value_lines rest.
Proof.
  intros H Hcl HE. unfold tfield_wf in H. apply andb_true_iff in H. destruct H as [H1 H2].
  unfold field_cl in Hcl. apply andb_true_iff in Hcl. destruct Hcl as [Hc Hcl].
  unfold field1, field2. rewrite <- !app_assoc.
  assert (Hrest : tl_nl (tf_first f) = false -> flat_map group1 (tf_body f) ++ rest = []).
  { intros Hn. rewrite Hn in Hc. cbn [orb] in Hc. apply andb_true_iff in Hc. destruct Hc as [HE' Hgs].
    destruct (tf_body f); [|discriminate]. cbn. now apply HE. }
  assert (Hmain : build_value_lines (name_node (tf_name f) :: sep_node
                     :: (line0 (tf_first f) ++ flat_map group1 (tf_body f)) ++ rest)
                  = name_node (tf_name f) :: sep_node :: vls f ++ build_value_lines rest).
  { rewrite bvl_other by reflexivity.
    cbn [build_value_lines sep_node is_comment_elem is_cont_tok is_fieldsep_tok is_tok_kind].
    rewrite <- app_assoc, s2_line by assumption. unfold vls. cbn [app]. do 3 f_equal.
    now apply (s2_groups _ E). }
  unfold opt_cmt. destruct (is_nil (tf_cmts f)); cbn [app].
  - exact Hmain.
  - rewrite bvl_cmt by reflexivity. f_equal. exact Hmain.
Qed.

Lemma s2_fields fs : forall E rest,
  forallb tfield_wf fs = true -> fields_cl fs E = true -> (E = true -> rest = []) ->
  build_value_lines (flat_map field1 fs ++ rest) = flat_map field2 fs ++ build_value_lines rest.
Proof.
  induction fs as [|f fs IH]; intros E rest H Hcl HE; [reflexivity|].
  cbn [forallb] in H. apply andb_true_iff in H. destruct H as [Hf H].
  cbn [fields_cl] in Hcl. apply andb_true_iff in Hcl. destruct Hcl as [Hc Hcl].
  cbn [flat_map]. rewrite <- !app_assoc.
  rewrite (s2_field f (E && is_nil fs)); [|assumption|assumption|].
  - f_equal. now apply (IH E).
  - intros HE'. apply andb_true_iff in HE'. destruct HE' as [HE1 HE2].
    destruct fs; [|discriminate]. cbn. now apply HE.
Qed.

Lemma td_cl_cons it td :
  td_cl (it :: td) = true ->
  match it with TPara fs => fields_cl fs (is_nil td) | _ => true end = true /\ td_cl td = true.
Proof. cbn [td_cl]. intros H. now apply andb_true_iff in H. Qed.

Theorem stage2 td : td_wf td = true -> td_cl td = true -> build_value_lines (R1 td) = R2 td.
Proof.
  induction td as [|it td IH]; intros H Hcl; [reflexivity|].
  apply td_wf_cons in H. destruct H as [Hit [Hadj Htd]].
  apply td_cl_cons in Hcl. destruct Hcl as [Hc Hcl]. specialize (IH Htd Hcl).
  unfold R1, R2 in *. cbn [flat_map]. destruct it as [fs|t|ls]; cbn [item1 item2].
  - cbn [titem_wf] in Hit. apply andb_true_iff in Hit. destruct Hit as [_ Hfs].
    rewrite (s2_fields fs (is_nil td)); [now rewrite IH|assumption|assumption|].
    intros E. destruct td; [reflexivity|discriminate].
  - cbn [app]. rewrite bvl_other by reflexivity. now rewrite IH.
  - cbn [app]. rewrite bvl_cmt; [now rewrite IH|].
    destruct td as [|nx td']; [reflexivity|]. destruct nx; try discriminate. reflexivity.
Qed.

(** * Stage 3 : value elements *)
Lemma vls_all_vl f : forallb is_value_line_elem (vls f) = true.
Proof.
  unfold vls. cbn [forallb]. unfold vl at 1. rewrite mk_value_line_is_vl. cbn [andb].
  induction (tf_body f) as [|g gs IH]; [reflexivity|]. cbn [map forallb].
  unfold group2 at 1, vl. now rewrite mk_value_line_is_vl.
Qed.

Lemma opt_cmt_not p ls :
  (forall l, p (cmt_elem l) = false) -> forallb (fun x => negb (p x)) (opt_cmt ls) = true.
Proof. intros H. unfold opt_cmt. destruct (is_nil ls); [reflexivity|]. cbn. now rewrite H. Qed.

Lemma s3_field f rest :
  hd_ok is_value_line_elem rest = true ->
  combine_value_lines (field2 f ++ rest) = field3 f ++ combine_value_lines rest.
Proof.
  intros H. unfold field2, field3, combine_value_lines. rewrite <- !app_assoc.
  rewrite combine_pass by (apply opt_cmt_not; reflexivity). f_equal.
  cbn [app]. rewrite !combine_one by reflexivity. do 2 f_equal.
  apply combine_run; [apply vls_all_vl|discriminate|exact H].
Qed.

Lemma hd_ok_field2 f x : hd_ok is_value_line_elem (field2 f ++ x) = true.
Proof. unfold field2, opt_cmt. now destruct (is_nil (tf_cmts f)). Qed.

Lemma hd_ok_fields2 fs x :
  hd_ok is_value_line_elem x = true -> hd_ok is_value_line_elem (flat_map field2 fs ++ x) = true.
Proof.
  intros H. destruct fs as [|f fs]; [exact H|]. cbn [flat_map]. rewrite <- app_assoc.
  apply hd_ok_field2.
Qed.

Lemma hd_ok_R2 td : hd_ok is_value_line_elem (R2 td) = true.
Proof.
  induction td as [|it td IH]; [reflexivity|]. unfold R2 in *. cbn [flat_map].
  destruct it as [fs|t|ls]; cbn [item2]; [now apply hd_ok_fields2|reflexivity|reflexivity].
Qed.

Lemma s3_fields fs rest :
  hd_ok is_value_line_elem rest = true ->
  combine_value_lines (flat_map field2 fs ++ rest) = flat_map field3 fs ++ combine_value_lines rest.
Proof.
  intros H. induction fs as [|f fs IH]; [reflexivity|].
  cbn [flat_map]. rewrite <- !app_assoc, s3_field by now apply hd_ok_fields2. now rewrite IH.
Qed.

Theorem stage3 td : combine_value_lines (R2 td) = R3 td.
Proof.
  induction td as [|it td IH]; [reflexivity|].
  unfold R2, R3 in *. cbn [flat_map]. destruct it as [fs|t|ls]; cbn [item2 item3].
  - rewrite s3_fields by apply hd_ok_R2. now rewrite IH.
  - cbn [app]. unfold combine_value_lines. rewrite combine_one by reflexivity. f_equal. exact IH.
  - cbn [app]. unfold combine_value_lines. rewrite combine_one by reflexivity. f_equal. exact IH.
Qed.

(** * Stage 4 : key-value pairs *)
Lemma s4_field f rest : build_fields (field3 f ++ rest) = field4 f :: build_fields rest.
Proof.
  unfold field3, field4, opt_cmt. destruct (is_nil (tf_cmts f)); reflexivity.
Qed.

Lemma s4_fields fs rest :
  build_fields (flat_map field3 fs ++ rest) = map field4 fs ++ build_fields rest.
Proof.
  induction fs as [|f fs IH]; [reflexivity|].
  cbn [flat_map map]. rewrite <- !app_assoc, s4_field. cbn [app]. now rewrite IH.
Qed.

Lemma hd_ok_R3_name td :
  match td with TPara _ :: _ => false | _ => true end = true ->
  hd_ok is_fieldname_tok (R3 td) = true.
Proof. destruct td as [|[fs|t|ls] td]; [reflexivity|discriminate|reflexivity|reflexivity]. Qed.

Theorem stage4 td : td_wf td = true -> build_fields (R3 td) = R4 td.
Proof.
  induction td as [|it td IH]; intros H; [reflexivity|].
  apply td_wf_cons in H. destruct H as [Hit [Hadj Htd]]. specialize (IH Htd).
  unfold R3, R4 in *. cbn [flat_map]. destruct it as [fs|t|ls]; cbn [item3 item4].
  - rewrite s4_fields. now rewrite IH.
  - cbn [app build_fields is_comment_elem is_fieldname_tok is_tok_kind]. now rewrite IH.
  - cbn [app build_fields cmt_elem is_comment_elem].
    destruct td as [|nx td']; [reflexivity|]. destruct nx as [fs|t|ls']; try discriminate.
    fold (cmt_elem ls). rewrite <- IH. reflexivity.
Qed.

(** * Stage 5 : paragraphs; stage 6 : nothing to do *)
Lemma field4_kvp fs : forallb is_kvp_elem (map field4 fs) = true.
Proof. induction fs as [|f fs IH]; [reflexivity|exact IH]. Qed.

Theorem stage5 td : td_wf td = true -> combine_paragraphs (R4 td) = R5 td.
Proof.
  induction td as [|it td IH]; intros H; [reflexivity|].
  apply td_wf_cons in H. destruct H as [Hit [Hadj Htd]]. specialize (IH Htd).
  unfold R4, R5 in *. cbn [flat_map map]. destruct it as [fs|t|ls]; cbn [item4 item5].
  - cbn [titem_wf] in Hit. apply andb_true_iff in Hit. destruct Hit as [Hne _].
    unfold combine_paragraphs. rewrite combine_run.
    + f_equal. exact IH.
    + apply field4_kvp.
    + destruct fs; [discriminate|discriminate].
    + destruct td as [|nx td']; [reflexivity|]. destruct nx; try discriminate; reflexivity.
  - cbn [app]. unfold combine_paragraphs. rewrite combine_one by reflexivity. f_equal. exact IH.
  - cbn [app]. unfold combine_paragraphs. rewrite combine_one by reflexivity. f_equal. exact IH.
Qed.

Theorem stage6 td : combine_errors (R5 td) = R5 td.
Proof.
  unfold combine_errors. apply combine_all_pass. unfold R5. rewrite forallb_forall.
  intros x Hx. apply in_map_iff in Hx. destruct Hx as [it [<- _]]. now destruct it.
Qed.

Theorem stages_R td : td_wf td = true -> td_cl td = true -> stages (R0 td) = R5 td.
Proof.
  intros H Hcl. unfold stages.
  rewrite stage1, stage2, stage3, stage4, stage5 by assumption. apply stage6.
Qed.

(** * Reading the document off the tree *)
Lemma dump_list_app a b : dump_list (a ++ b) = dump_list a ++ dump_list b.
Proof.
  unfold dump_list, text_of_tokens. now rewrite flatten_list_app, map_app, concat_app.
Qed.

Lemma dump_list_cons x l : dump_list (x :: l) = Parse.dump x ++ dump_list l.
Proof.
  unfold dump_list, Parse.dump, text_of_tokens. rewrite flatten_list_cons, map_app, concat_app.
  reflexivity.
Qed.

Lemma dump_elem k ps : Parse.dump (Elem k ps) = dump_list ps.
Proof. reflexivity. Qed.

Lemma dump_tok k t : Parse.dump (Tok k t) = t.
Proof. unfold Parse.dump, text_of_tokens. cbn. apply app_nil_r. Qed.

Lemma dump_list_cmt_toks ls : dump_list (cmt_toks ls) = concat ls.
Proof.
  induction ls as [|l ls IH]; [reflexivity|].
  cbn [cmt_toks map]. rewrite dump_list_cons, dump_tok. cbn [concat]. f_equal. exact IH.
Qed.

Lemma dump_cmt_elem ls : Parse.dump (cmt_elem ls) = concat ls.
Proof. unfold cmt_elem. rewrite dump_elem. apply dump_list_cmt_toks. Qed.

Lemma flatten_vl c ct l :
  flatten (vl c ct l) = flatten_list (opt_list c ++ opt_list ct ++ line0 l).
Proof.
  unfold vl. rewrite mk_value_line_flatten. unfold line0, eol_opt, nl_nodes.
  now destruct (tl_nl l).
Qed.

Lemma flatten_group2 g : flatten (group2 g) = flatten_list (group0 g).
Proof.
  unfold group2. rewrite flatten_vl. unfold group0, opt_cmt_o.
  rewrite !flatten_list_app. destruct (is_nil (tg_cmts g)) eqn:E.
  - destruct (tg_cmts g); [reflexivity|discriminate].
  - cbn [opt_list]. rewrite flatten_list_single. unfold cmt_elem. rewrite flatten_elem.
    reflexivity.
Qed.

Lemma flatten_groups2 gs : flatten_list (map group2 gs) = flatten_list (flat_map group0 gs).
Proof.
  induction gs as [|g gs IH]; [reflexivity|].
  cbn [map flat_map]. rewrite flatten_list_cons, flatten_list_app, flatten_group2. now rewrite IH.
Qed.

Lemma flatten_vls f :
  flatten_list (vls f) = flatten_list (line0 (tf_first f) ++ flat_map group0 (tf_body f)).
Proof.
  unfold vls. rewrite flatten_list_cons, flatten_vl, flatten_groups2.
  rewrite (flatten_list_app (line0 (tf_first f))). reflexivity.
Qed.

Lemma abs_kvp_field4 f : abs_kvp (field4 f) = Ok (field_of f).
Proof.
  unfold field4, field_of, rest_text, opt_cmt.
  assert (Hrest : dump_list [sep_node; Elem EValue (vls f)]
                  = COLON :: dump_list (line0 (tf_first f) ++ flat_map group0 (tf_body f))).
  { rewrite dump_list_cons. unfold sep_node. rewrite dump_tok. cbn [app]. f_equal.
    rewrite dump_list_cons, dump_elem. cbn [dump_list flatten_list flat_map text_of_tokens map concat].
    rewrite app_nil_r. unfold dump_list. now rewrite flatten_vls. }
  destruct (is_nil (tf_cmts f)) eqn:E; cbn [negb abs_kvp app name_node].
  - destruct (tf_cmts f); [|discriminate]. rewrite Hrest. reflexivity.
  - rewrite Hrest, dump_cmt_elem. reflexivity.
Qed.

Lemma map_result_abs_kvp fs : map_result abs_kvp (map field4 fs) = Ok (map field_of fs).
Proof.
  induction fs as [|f fs IH]; [reflexivity|].
  cbn [map map_result]. rewrite abs_kvp_field4. cbn [bind]. now rewrite IH.
Qed.

(** the class the parser chooses is the class [Doc.from_kvpairs] chooses *)
Lemma kvp_name_field4 f : kvp_name (field4 f) = tf_name f.
Proof. unfold field4, kvp_name, opt_cmt. now destruct (is_nil (tf_cmts f)). Qed.

Lemma has_dup_ci_nodupb names :
  has_dup_ci names = negb (nodupb (map lower names)).
Proof.
  induction names as [|n names IH]; [reflexivity|].
  cbn [has_dup_ci map nodupb]. rewrite IH, negb_andb, negb_involutive. f_equal.
  clear IH. induction names as [|m names IH2]; [reflexivity|]. cbn [existsb map]. f_equal.
  apply IH2.
Qed.

Lemma abs_item5 it : abs_item (item5 it) = Ok (item_of it).
Proof.
  destruct it as [fs|t|ls]; cbn [item5 item_of].
  - unfold Parse.from_kvpairs. cbn [abs_item]. rewrite map_result_abs_kvp. cbn [bind].
    rewrite has_dup_ci_nodupb, !map_map. unfold Doc.from_kvpairs. rewrite map_map.
    assert (E : map (fun x => lower (kvp_name (field4 x))) fs
                = map (fun x => lower (f_name (field_of x))) fs).
    { apply map_ext. intros f. now rewrite kvp_name_field4. }
    rewrite E. now destruct (nodupb (map (fun x => lower (f_name (field_of x))) fs)).
  - reflexivity.
  - cbn [abs_item cmt_elem]. fold (cmt_elem ls). now rewrite dump_cmt_elem.
Qed.

Theorem abs_R5 td : abs_of_tree (Elem EFile (R5 td)) = Ok (doc_of td).
Proof.
  cbn [abs_of_tree]. unfold R5, doc_of. induction td as [|it td IH]; [reflexivity|].
  cbn [map map_result]. rewrite abs_item5. cbn [bind]. now rewrite IH.
Qed.

(** ** no error element, no repeated name: the strict modes accept the tree as well *)
Lemma existsb_app_comm {A} (p : A -> bool) a b : existsb p (a ++ b) = existsb p (b ++ a).
Proof. rewrite !existsb_app. apply orb_comm. Qed.

Lemma has_error_elem_mk_value_line c ct toks eol :
  has_error_elem (mk_value_line c ct toks eol)
  = existsb has_error_elem (opt_list c ++ opt_list ct ++ toks ++ opt_list eol).
Proof.
  unfold mk_value_line.
  destruct (pop_trailing toks) as [t1 tr] eqn:E1.
  destruct (pop_leading t1) as [ld t2] eqn:E2.
  apply pop_trailing_spec in E1. apply pop_leading_spec in E2. subst toks t1.
  cbn [has_error_elem orb]. now rewrite <- !app_assoc.
Qed.

Lemma plain_no_error l : forallb is_plain l = true -> existsb has_error_elem l = false.
Proof.
  induction l as [|x l IH]; [reflexivity|]. cbn [forallb existsb]. intros H.
  apply andb_true_iff in H. destruct H as [Hx H]. rewrite (IH H).
  destruct x as [k t|]; [reflexivity|discriminate].
Qed.

Lemma cmt_elem_no_error ls : has_error_elem (cmt_elem ls) = false.
Proof.
  cbn [cmt_elem has_error_elem orb]. induction ls as [|l ls IH]; [reflexivity|exact IH].
Qed.

Lemma vl_no_error c ct l :
  tline_wf l = true ->
  match c with Some x => has_error_elem x | None => false end = false ->
  match ct with Some x => has_error_elem x | None => false end = false ->
  has_error_elem (vl c ct l) = false.
Proof.
  intros H Hc Hct. unfold vl. rewrite has_error_elem_mk_value_line, !existsb_app.
  rewrite (plain_no_error _ H).
  destruct c, ct; cbn [opt_list existsb orb] in *; rewrite ?Hc, ?Hct; cbn [orb];
    unfold eol_opt; destruct (tl_nl l); reflexivity.
Qed.

Lemma field4_no_error f : tfield_wf f = true -> has_error_elem (field4 f) = false.
Proof.
  intros H. unfold tfield_wf in H. apply andb_true_iff in H. destruct H as [H1 H2].
  unfold field4. cbn [has_error_elem orb]. rewrite existsb_app.
  assert (Hc : existsb has_error_elem (opt_cmt (tf_cmts f)) = false).
  { unfold opt_cmt. destruct (is_nil (tf_cmts f)); [reflexivity|].
    cbn [existsb]. now rewrite cmt_elem_no_error. }
  rewrite Hc. cbn [orb existsb name_node sep_node has_error_elem]. rewrite orb_false_r.
  unfold vls. cbn [existsb]. rewrite vl_no_error by (assumption || reflexivity). cbn [orb].
  induction (tf_body f) as [|g gs IH]; [reflexivity|].
  cbn [forallb] in H2. apply andb_true_iff in H2. destruct H2 as [Hg H2].
  cbn [map existsb]. rewrite (IH H2), orb_false_r. unfold group2. apply vl_no_error.
  - exact Hg.
  - unfold opt_cmt_o. destruct (is_nil (tg_cmts g)); [reflexivity|apply cmt_elem_no_error].
  - reflexivity.
Qed.

Theorem R5_no_error td : td_wf td = true -> existsb has_error_elem (R5 td) = false.
Proof.
  induction td as [|it td IH]; intros H; [reflexivity|].
  apply td_wf_cons in H. destruct H as [Hit [_ Htd]].
  unfold R5 in *. cbn [map existsb]. rewrite (IH Htd), orb_false_r.
  destruct it as [fs|t|ls]; cbn [item5].
  - cbn [titem_wf] in Hit. apply andb_true_iff in Hit. destruct Hit as [_ Hfs].
    unfold Parse.from_kvpairs. cbn [has_error_elem orb].
    induction fs as [|f fs IHf]; [reflexivity|]. cbn [forallb] in Hfs.
    apply andb_true_iff in Hfs. destruct Hfs as [Hf Hfs]. cbn [map existsb].
    now rewrite field4_no_error, IHf.
  - reflexivity.
  - apply cmt_elem_no_error.
Qed.
