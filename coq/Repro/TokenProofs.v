(** Proofs about the tokenizer model (Repro/Token.v):
    totality and losslessness on the two input forms of C01, and the
    single-line contract of every token. *)
From Verif Require Import Lib.Base Lib.PyStr Repro.Token Repro.LosslessSpec.

(** * Text facts *)

Lemma last_opt_app_single {A} (s : list A) c : last_opt (s ++ [c]) = Some c.
Proof.
  induction s as [|a s IH]; [reflexivity|].
  cbn [app last_opt]. destruct (s ++ [c]) eqn:E; [destruct s; discriminate|]. exact IH.
Qed.

Lemma last_opt_app {A} (s t : list A) : t <> [] -> last_opt (s ++ t) = last_opt t.
Proof.
  intros Ht. destruct (exists_last Ht) as [t' [c ->]].
  rewrite app_assoc. now rewrite !last_opt_app_single.
Qed.

Lemma ends_lf_app_lf s : ends_lf (s ++ [LF]) = true.
Proof. unfold ends_lf. now rewrite last_opt_app_single. Qed.

Lemma ends_lf_app s t : t <> [] -> ends_lf (s ++ t) = ends_lf t.
Proof. intros Ht. unfold ends_lf. now rewrite last_opt_app. Qed.

Lemma ends_lf_inv s : ends_lf s = true -> exists b, s = b ++ [LF].
Proof.
  unfold ends_lf. destruct s as [|a s]; [discriminate|].
  destruct (@exists_last _ (a :: s)) as [b [c E]]; [discriminate|].
  rewrite E, last_opt_app_single. intros H. apply N.eqb_eq in H. subst c. now exists b.
Qed.

Lemma ends_lf_nil : ends_lf [] = false.
Proof. reflexivity. Qed.

Lemma ends_lf_nonnil s : ends_lf s = true -> s <> [].
Proof. destruct s; [discriminate|discriminate]. Qed.

Lemma has_lf_app a b : has_lf (a ++ b) = has_lf a || has_lf b.
Proof. unfold has_lf, mem_char. apply existsb_app. Qed.

Lemma lf_free_app a b : lf_free (a ++ b) = lf_free a && lf_free b.
Proof. unfold lf_free. fold (has_lf (a ++ b)). rewrite has_lf_app. apply negb_orb. Qed.

Lemma lf_free_has_lf s : lf_free s = negb (has_lf s).
Proof. reflexivity. Qed.

Lemma has_lf_ends s : ends_lf s = true -> has_lf s = true.
Proof.
  intros H. destruct (ends_lf_inv _ H) as [b ->]. rewrite has_lf_app. simpl.
  now rewrite orb_true_r.
Qed.

Lemma lf_free_not_ends s : lf_free s = true -> ends_lf s = false.
Proof.
  intros H. destruct (ends_lf s) eqn:E; [|reflexivity].
  apply has_lf_ends in E. rewrite lf_free_has_lf, E in H. discriminate.
Qed.

Lemma notlf_all_lf_free s :
  forallb (fun x => negb (x =? LF)%N) s = true -> lf_free s = true.
Proof.
  induction s as [|c s IH]; [reflexivity|]. cbn [forallb]. intros H.
  apply andb_true_iff in H. destruct H as [Hc Hs].
  change (c :: s) with ([c] ++ s). rewrite lf_free_app, (IH Hs), andb_true_r.
  unfold lf_free, mem_char. cbn [existsb]. rewrite orb_false_r.
  rewrite N.eqb_sym. exact Hc.
Qed.

Lemma lf_free_cons c s : lf_free (c :: s) = negb (c =? LF)%N && lf_free s.
Proof.
  unfold lf_free, mem_char. cbn [existsb]. rewrite negb_orb. now rewrite (N.eqb_sym LF c).
Qed.

(** ** lines of form 1 *)

Lemma line1_ok_nonnil l : line1_ok l = true -> l <> [].
Proof. destruct l; [discriminate|discriminate]. Qed.

Lemma line1_ok_prefix pre post :
  post <> [] -> line1_ok (pre ++ post) = true -> lf_free pre = true.
Proof.
  intros Hp H. unfold line1_ok in H.
  destruct (pre ++ post) eqn:E; [discriminate|]. rewrite <- E in H.
  rewrite removelast_app in H by assumption. rewrite lf_free_app in H.
  now apply andb_true_iff in H.
Qed.

Lemma line1_ok_suffix pre post :
  post <> [] -> line1_ok (pre ++ post) = true -> line1_ok post = true.
Proof.
  intros Hp H. unfold line1_ok in *.
  destruct (pre ++ post) eqn:E; [discriminate|]. rewrite <- E in H.
  rewrite removelast_app in H by assumption. rewrite lf_free_app in H.
  apply andb_true_iff in H. destruct post; [congruence|]. apply H.
Qed.

Lemma line1_ok_snoc b c : line1_ok (b ++ [c]) = lf_free b.
Proof.
  unfold line1_ok. destruct (b ++ [c]) eqn:E; [destruct b; discriminate|].
  rewrite <- E. now rewrite removelast_last.
Qed.

Lemma line1_ok_cases l :
  line1_ok l = true ->
  (lf_free l = true /\ ends_lf l = false) \/ (exists b, l = b ++ [LF] /\ lf_free b = true).
Proof.
  intros H. pose proof (line1_ok_nonnil _ H) as Hn.
  destruct (exists_last Hn) as [b [c ->]].
  rewrite line1_ok_snoc in H.
  destruct (N.eqb_spec c LF) as [->|Hc].
  - right. now exists b.
  - left. apply N.eqb_neq in Hc. split.
    + rewrite lf_free_app, H. cbn [andb]. rewrite lf_free_cons, Hc. reflexivity.
    + unfold ends_lf. now rewrite last_opt_app_single.
Qed.

Lemma line1_ok_lf_inside pre post : line1_ok (pre ++ LF :: post) = true -> post = [].
Proof.
  intros H. destruct post as [|x post]; [reflexivity|]. exfalso.
  change (pre ++ LF :: x :: post) with (pre ++ [LF] ++ x :: post) in H.
  rewrite app_assoc in H. apply line1_ok_prefix in H; [|discriminate].
  rewrite lf_free_app in H. apply andb_true_iff in H. destruct H as [_ H]. discriminate.
Qed.

Lemma line1_ok_app_lf b : lf_free b = true -> line1_ok (b ++ [LF]) = true.
Proof. intros H. now rewrite line1_ok_snoc. Qed.

Lemma line1_ok_not_ends l : line1_ok l = true -> ends_lf l = false -> lf_free l = true.
Proof.
  intros H He. destruct (line1_ok_cases _ H) as [[H1 _]|[b [-> _]]]; [exact H1|].
  rewrite ends_lf_app_lf in He. discriminate.
Qed.

(** * The constructor check *)

Lemma verify_no_lf k s : lf_free s = true -> verify_token_text k s = true.
Proof.
  intros H. unfold verify_token_text. rewrite lf_free_has_lf in H.
  apply negb_true_iff in H. now rewrite H.
Qed.

Lemma verify_ws_ends k s :
  is_ws_kind k = true -> ends_lf s = true -> verify_token_text k s = true.
Proof.
  intros Hk He. unfold verify_token_text. rewrite He.
  destruct k; try discriminate; cbn; now destruct (has_lf s).
Qed.

Lemma verify_single k b :
  is_comment_kind k || is_error_kind k = true -> lf_free b = true ->
  verify_token_text k (b ++ [LF]) = true.
Proof.
  intros Hk Hb. unfold verify_token_text. rewrite Hk, ends_lf_app_lf, removelast_last.
  rewrite lf_free_has_lf in Hb. apply negb_true_iff in Hb. rewrite Hb.
  cbn. now destruct (has_lf (b ++ [LF])).
Qed.

(** a whole line of form 1 is acceptable text for whitespace, comment and error tokens *)
Lemma verify_line k l :
  is_ws_kind k || is_comment_kind k || is_error_kind k = true ->
  line1_ok l = true -> verify_token_text k l = true.
Proof.
  intros Hk Hl. destruct (line1_ok_cases _ Hl) as [[H1 _]|[b [-> Hb]]].
  - now apply verify_no_lf.
  - destruct (is_ws_kind k) eqn:Ew.
    + apply verify_ws_ends; [assumption|apply ends_lf_app_lf].
    + apply verify_single; assumption.
Qed.

Lemma mk_token_ok k s :
  s <> [] -> verify_token_text k s = true -> mk_token k s = Ok (mkTok k s).
Proof. intros Hs Hv. unfold mk_token. destruct s; [congruence|]. cbn [is_nil]. now rewrite Hv. Qed.

Lemma mk_token_inv k s t :
  mk_token k s = Ok t -> t = mkTok k s /\ s <> [] /\ verify_token_text k s = true.
Proof.
  unfold mk_token. destruct s; [discriminate|]. cbn [is_nil].
  destruct (verify_token_text k (n :: s)) eqn:E; [|discriminate].
  intros [= <-]. repeat split; congruence.
Qed.

Lemma opt_token_ok k s :
  lf_free s = true ->
  exists ts, opt_token k s = Ok ts /\ concat (map ttext ts) = s.
Proof.
  intros H. unfold opt_token. destruct s as [|c s]; [now exists []|]. cbn [is_nil].
  rewrite mk_token_ok; [|discriminate|now apply verify_no_lf].
  cbn. eexists. split; [reflexivity|]. cbn. now rewrite app_nil_r.
Qed.

(** * rspan *)
Lemma rspan_spec p s : forall a b,
  rspan p s = (a, b) -> s = a ++ b /\ forallb p b = true.
Proof.
  induction s as [|c s IH]; intros a b; cbn [rspan].
  - intros [= <- <-]. now split.
  - destruct (rspan p s) as [a' b'] eqn:E. destruct (IH _ _ eq_refl) as [-> Hb].
    destruct (is_nil a' && p c) eqn:E2.
    + intros [= <- <-]. apply andb_true_iff in E2. destruct E2 as [Ha Hc].
      destruct a'; [|discriminate]. split; [reflexivity|]. cbn. now rewrite Hc.
    + intros [= <- <-]. now split.
Qed.

Section TokenizerProofs.
Variable is_space : N -> bool.
Variables name_first name_rest : N -> bool.

Notation is_ws_line := (is_ws_line is_space).
Notation match_field_line := (match_field_line is_space name_first name_rest).
Notation tokenize_loop := (tokenize_loop is_space name_first name_rest).
Notation tokenize := (tokenize is_space name_first name_rest).

(** ** the tail of a field line: optional whitespace token + newline token *)
Lemma space_after_tokens sa :
  sa = [] \/ line1_ok sa = true ->
  exists sa' nl t5,
    split_newline sa = (sa', nl)
    /\ opt_token KWhitespace sa' = Ok t5
    /\ concat (map ttext (t5 ++ (if nl then [newline_token] else []))) = sa.
Proof.
  unfold split_newline. intros [->|H].
  - exists [], false, []. now repeat split.
  - pose proof (line1_ok_nonnil _ H) as Hn.
    destruct (line1_ok_cases _ H) as [[H1 H2]|[b [-> Hb]]].
    + rewrite H2, andb_false_r.
      destruct (opt_token_ok KWhitespace sa H1) as [ts [E1 E2]].
      exists sa, false, ts. repeat split; [assumption|]. now rewrite app_nil_r.
    + rewrite ends_lf_app_lf, andb_true_r.
      replace (negb (is_nil (b ++ [LF]))) with true by (destruct b; reflexivity).
      rewrite removelast_last.
      destruct (opt_token_ok KWhitespace b Hb) as [ts [E1 E2]].
      exists b, true, ts. repeat split; [assumption|].
      rewrite map_app, concat_app, E2. reflexivity.
Qed.

Hypothesis space_lf : is_space LF = true.

(** ** a field line *)
Ltac norm_app := repeat (cbn [app]; rewrite <- app_assoc); cbn [app].
Ltac norm_app_in H := repeat (cbn [app] in H; rewrite <- app_assoc in H); cbn [app] in H.

Lemma field_line_ok line m :
  line1_ok line = true ->
  match_field_line line = Some m ->
  exists ts, field_line_tokens m = Ok ts /\ concat (map ttext ts) = line.
Proof.
  intros Hl Hm. unfold Token.match_field_line in Hm.
  destruct line as [|c r]; [discriminate|].
  destruct (name_first c); [|discriminate].
  destruct (span name_rest r) as [nm r1] eqn:E1.
  pose proof (span_app name_rest r) as A1. rewrite E1 in A1. cbn [fst snd] in A1.
  destruct r1 as [|d r2]; [discriminate|].
  destruct (N.eqb_spec d COLON) as [->|]; [|discriminate].
  destruct (span is_space r2) as [sb r3] eqn:E2.
  pose proof (span_app is_space r2) as A2. rewrite E2 in A2. cbn [fst snd] in A2.
  subst r r2.
  (* the name is followed by ':' hence LF-free *)
  assert (Hname : lf_free (c :: nm) = true).
  { apply (line1_ok_prefix (c :: nm) (COLON :: sb ++ r3)); [discriminate|].
    norm_app. exact Hl. }
  assert (Tname : mk_token KFieldName (c :: nm) = Ok (mkTok KFieldName (c :: nm))).
  { apply mk_token_ok; [discriminate|now apply verify_no_lf]. }
  destruct r3 as [|v0 r4].
  - (* no value on this line *)
    injection Hm as <-. unfold field_line_tokens. cbn [fm_value fm_space_before fm_name].
    rewrite app_nil_r in *.
    assert (Hsb : sb = [] \/ line1_ok sb = true).
    { destruct sb as [|x sb]; [now left|right].
      apply (line1_ok_suffix (c :: nm ++ [COLON])); [discriminate|].
      norm_app. exact Hl. }
    destruct (space_after_tokens sb Hsb) as [sa' [nl [t5 [E [E5 Ht]]]]].
    rewrite E, Tname, E5. cbn. eexists. split; [reflexivity|].
    cbn. now rewrite Ht.
  - (* a value *)
    destruct (span (fun x => negb (x =? LF)%N) r4) as [run after] eqn:E3.
    pose proof (span_app (fun x => negb (x =? LF)%N) r4) as A3. rewrite E3 in A3. cbn [fst snd] in A3.
    pose proof (span_all (fun x => negb (x =? LF)%N) r4) as R3. rewrite E3 in R3. cbn [fst] in R3.
    destruct (rspan is_space run) as [body trail] eqn:E4.
    destruct (rspan_spec _ _ _ _ E4) as [A4 R4].
    destruct (span is_space (trail ++ after)) as [sa rest] eqn:E5.
    injection Hm as <-. subst r4 run.
    assert (Hv0 : is_space v0 = false).
    { eapply span_snd_head. rewrite E2. reflexivity. }
    assert (Hv0lf : (v0 =? LF)%N = false).
    { destruct (N.eqb_spec v0 LF) as [->|]; [congruence|reflexivity]. }
    norm_app_in Hl.
    (* everything after the value is whitespace up to the end of the line *)
    assert (Hrest : sa = trail ++ after /\ rest = []).
    { destruct after as [|a0 after'].
      - rewrite app_nil_r in E5. rewrite span_forall_nil in E5 by assumption.
        injection E5 as <- <-. now rewrite app_nil_r.
      - assert (a0 = LF) as ->.
        { assert (H : negb (a0 =? LF)%N = false).
          { eapply (span_snd_head (fun x => negb (x =? LF)%N)). rewrite E3. reflexivity. }
          apply negb_false_iff, N.eqb_eq in H. exact H. }
        assert (after' = []) as ->.
        { apply (line1_ok_lf_inside (c :: nm ++ COLON :: sb ++ v0 :: body ++ trail)).
          norm_app. exact Hl. }
        rewrite span_forall_nil in E5.
        + now injection E5 as <- <-.
        + rewrite forallb_app, R4. cbn. now rewrite space_lf. }
    destruct Hrest as [-> ->].
    unfold field_line_tokens. cbn [fm_value fm_space_before fm_name is_nil].
    (* pieces *)
    assert (Hsa : trail ++ after = [] \/ line1_ok (trail ++ after) = true).
    { destruct (trail ++ after) eqn:E; [now left|right]. rewrite <- E in *.
      apply (line1_ok_suffix (c :: nm ++ COLON :: sb ++ v0 :: body)); [rewrite E; discriminate|].
      norm_app. exact Hl. }
    assert (Hsb : lf_free sb = true).
    { assert (H : lf_free ((c :: nm) ++ [COLON] ++ sb) = true).
      { apply (line1_ok_prefix _ (v0 :: body ++ trail ++ after)); [discriminate|].
        norm_app. exact Hl. }
      rewrite !lf_free_app in H. apply andb_true_iff in H. destruct H as [_ H].
      apply andb_true_iff in H. apply H. }
    assert (Hv : lf_free (v0 :: body) = true).
    { rewrite lf_free_cons, Hv0lf. cbn [negb andb].
      apply notlf_all_lf_free in R3. rewrite !lf_free_app in R3.
      apply andb_true_iff in R3. destruct R3 as [R3 _]. exact R3. }
    destruct (space_after_tokens _ Hsa) as [sa' [nl [t5 [E [E6 Ht]]]]].
    destruct (opt_token_ok KWhitespace sb Hsb) as [tsb [Esb Tsb]].
    destruct (opt_token_ok KValue (v0 :: body) Hv) as [tv [Ev Tv]].
    rewrite E, Tname, Esb, Ev, E6. cbn. eexists. split; [reflexivity|].
    cbn. rewrite !map_app, !concat_app, Tsb, Tv, <- concat_app, <- map_app, Ht.
    norm_app. reflexivity.
Qed.


Hypothesis space_sp : is_space SP = true.
Hypothesis space_tab : is_space TAB = true.

(** ** a continuation line *)
Lemma continuation_line_ok c0 body :
  (c0 = SP \/ c0 = TAB) ->
  line1_ok (c0 :: body) = true -> is_ws_line (c0 :: body) = false ->
  exists t1 t2 nl,
    mk_token KValueContinuation [c0] = Ok t1
    /\ mk_token KValue (fst (if ends_lf (c0 :: body) then (removelast body, true) else (body, false))) = Ok t2
    /\ snd (if ends_lf (c0 :: body) then (removelast body, true) else (body, false)) = nl
    /\ concat (map ttext (t1 :: t2 :: (if nl then [newline_token] else []))) = c0 :: body.
Proof.
  intros Hc Hl Hws.
  assert (Hsp0 : is_space c0 = true) by (destruct Hc as [->| ->]; assumption).
  assert (Hc0 : lf_free [c0] = true) by (destruct Hc as [->| ->]; reflexivity).
  exists (mkTok KValueContinuation [c0]).
  assert (T1 : mk_token KValueContinuation [c0] = Ok (mkTok KValueContinuation [c0])).
  { apply mk_token_ok; [discriminate|now apply verify_no_lf]. }
  unfold Token.is_ws_line in Hws. cbn [is_nil negb andb forallb] in Hws. rewrite Hsp0 in Hws.
  cbn [andb] in Hws.
  destruct (line1_ok_cases _ Hl) as [[H1 H2]|[b [E Hb]]].
  - rewrite H2. cbn [fst snd].
    assert (Hbody : body <> []) by (intros ->; discriminate).
    assert (Hlf : lf_free body = true).
    { rewrite lf_free_cons in H1. apply andb_true_iff in H1. apply H1. }
    exists (mkTok KValue body), false. repeat split; try assumption.
    + apply mk_token_ok; [assumption|now apply verify_no_lf].
    + cbn. now rewrite app_nil_r.
  - rewrite E, ends_lf_app_lf. cbn [fst snd].
    destruct b as [|c0' b']; [cbn in E; injection E as -> _; destruct Hc; discriminate|].
    cbn in E. injection E as <- ->. rewrite removelast_last.
    assert (Hb' : b' <> []).
    { intros ->. cbn in Hws. now rewrite space_lf in Hws. }
    assert (Hlf : lf_free b' = true).
    { rewrite lf_free_cons in Hb. apply andb_true_iff in Hb. apply Hb. }
    exists (mkTok KValue b'), true. repeat split; try assumption.
    + apply mk_token_ok; [assumption|now apply verify_no_lf].
Qed.

(** ** the whitespace merge *)
Lemma merge_ws_lossless (k : list str -> result (list token)) pred fx (g : str -> str) :
  (forall x, pred x = true -> ends_lf (fx x) = true /\ fx x = g x) ->
  forall r acc,
    ends_lf acc = true ->
    (forall a b, r = a ++ b -> exists ts, k b = Ok ts /\ concat (map ttext ts) = concat (map g b)) ->
    exists ts, merge_ws k pred fx acc r = Ok ts
               /\ concat (map ttext ts) = acc ++ concat (map g r).
Proof.
  intros Hp. induction r as [|x r IH]; intros acc Hacc Hk; cbn [merge_ws].
  - rewrite mk_token_ok; [|now apply ends_lf_nonnil|now apply verify_ws_ends].
    cbn. eexists. split; [reflexivity|]. cbn. reflexivity.
  - destruct (pred x) eqn:Ex.
    + destruct (Hp _ Ex) as [He Eg].
      destruct (IH (acc ++ fx x)) as [ts [E1 E2]].
      * rewrite ends_lf_app; [assumption|now apply ends_lf_nonnil].
      * intros a b ->. apply (Hk (x :: a) b). reflexivity.
      * exists ts. split; [exact E1|]. rewrite E2, Eg. cbn. now rewrite <- app_assoc.
    + rewrite mk_token_ok; [|now apply ends_lf_nonnil|now apply verify_ws_ends].
      destruct (Hk [] (x :: r) eq_refl) as [ts [E1 E2]]. cbn. rewrite E1. cbn.
      eexists. split; [reflexivity|]. cbn. now rewrite E2.
Qed.

(** ** the loop *)
Definition corr (ac : bool) (l : str) : str := if ac then l ++ [LF] else l.
Definition lines_ok (ac : bool) (ls : list str) : bool :=
  if ac then forallb lf_free ls else form1 ls.

Lemma form1_cons l rest :
  form1 (l :: rest) = true ->
  line1_ok l = true /\ (rest <> [] -> ends_lf l = true) /\ form1 rest = true.
Proof.
  cbn [form1]. destruct rest as [|l2 rest].
  - intros H. repeat split; [assumption|congruence].
  - intros H. apply andb_true_iff in H. destruct H as [H H3].
    apply andb_true_iff in H. destruct H as [H1 H2].
    repeat split; [assumption| |assumption]. intros _. exact H2.
Qed.

Lemma form1_suffix a b : form1 (a ++ b) = true -> form1 b = true.
Proof.
  induction a as [|x a IH]; [trivial|]. intros H. cbn [app] in H.
  apply form1_cons in H. apply IH, H.
Qed.

Lemma lines_ok_cons ac raw rest :
  lines_ok ac (raw :: rest) = true ->
  line1_ok (corr ac raw) = true
  /\ (ac = true -> ends_lf raw = false)
  /\ (rest <> [] -> ends_lf (corr ac raw) = true)
  /\ lines_ok ac rest = true.
Proof.
  destruct ac; cbn [lines_ok corr].
  - cbn [forallb]. intros H. apply andb_true_iff in H. destruct H as [H1 H2].
    repeat split; try assumption.
    + now apply line1_ok_app_lf.
    + intros _. now apply lf_free_not_ends.
    + intros _. apply ends_lf_app_lf.
  - intros H. apply form1_cons in H. destruct H as [H1 [H2 H3]].
    repeat split; try assumption. discriminate.
Qed.

Lemma lines_ok_suffix ac a b : lines_ok ac (a ++ b) = true -> lines_ok ac b = true.
Proof.
  destruct ac; cbn [lines_ok].
  - rewrite forallb_app. intros H. apply andb_true_iff in H. apply H.
  - apply form1_suffix.
Qed.

Lemma bind_ok_ex {A B} (r : result A) (f : A -> result B) a :
  r = Ok a -> bind r f = f a.
Proof. now intros ->. Qed.

Theorem loop_lossless : forall n ls ac cur,
  length ls <= n -> lines_ok ac ls = true ->
  exists ts, tokenize_loop ac cur ls = Ok ts
             /\ concat (map ttext ts) = concat (map (corr ac) ls).
Proof.
  induction n as [|n IH]; intros ls ac cur Hlen Hok.
  - destruct ls; [|cbn in Hlen; lia]. now exists [].
  - destruct ls as [|raw rest]; [now exists []|]. cbn [length] in Hlen.
    destruct (lines_ok_cons _ _ _ Hok) as [Hl [Hac [Hend Hrest]]].
    assert (IHrest : forall cur', exists ts, tokenize_loop ac cur' rest = Ok ts
                       /\ concat (map ttext ts) = concat (map (corr ac) rest)).
    { intros cur'. apply IH; [lia|assumption]. }
    assert (IHsuf : forall a b, rest = a ++ b ->
              exists ts, tokenize_loop ac None b = Ok ts
                         /\ concat (map ttext ts) = concat (map (corr ac) b)).
    { intros a b ->. apply IH.
      - rewrite app_length in Hlen. lia.
      - eapply lines_ok_suffix; eassumption. }
    cbn [Token.tokenize_loop map concat].
    (* the corrected line *)
    assert (E0 : (if ac then if ends_lf raw then Err ValueError else Ok (raw ++ [LF]) else Ok raw)
                 = Ok (corr ac raw)).
    { destruct ac; [|reflexivity]. now rewrite (Hac eq_refl). }
    rewrite E0. cbn [bind]. set (line := corr ac raw) in *.
    pose proof (line1_ok_nonnil _ Hl) as Hnn.
    assert (E1 : (if ends_lf line then Ok tt
                  else if negb (is_nil rest) then Err ValueError
                  else if is_nil line then Err ValueError else Ok tt) = Ok tt).
    { destruct (ends_lf line) eqn:Ee; [reflexivity|].
      destruct rest as [|x rest']; [|discriminate Hend; discriminate].
      cbn. destruct line; [congruence|reflexivity]. }
    rewrite E1. cbn [bind].
    destruct (is_ws_line line) eqn:Ews.
    + (* whitespace-only line *)
      destruct ac eqn:Eac.
      * destruct (merge_ws_lossless (tokenize_loop true None)
                    (fun x => is_ws_line x && negb (ends_lf x)) (fun x => x ++ [LF]) (corr true)
                    ltac:(intros x _; split; [apply ends_lf_app_lf|reflexivity])
                    rest line (ends_lf_app_lf raw) IHsuf) as [ts [E2 E3]].
        exists ts. split; assumption.
      * destruct (ends_lf line) eqn:Ee.
        -- destruct (merge_ws_lossless (tokenize_loop false None)
                    (fun x => is_ws_line x && ends_lf x) (fun x => x) (corr false)
                    ltac:(intros x Hx; apply andb_true_iff in Hx; split; [apply Hx|reflexivity])
                    rest line Ee IHsuf) as [ts [E2 E3]].
           exists ts. split; assumption.
        -- rewrite mk_token_ok; [|assumption|apply verify_no_lf; now apply line1_ok_not_ends].
           destruct (IHrest None) as [ts [E2 E3]]. cbn [bind]. rewrite E2. cbn [bind].
           eexists. split; [reflexivity|]. cbn. now rewrite E3.
    + destruct line as [|c0 body] eqn:Eline; [congruence|].
      destruct (c0 =? HASH)%N eqn:Ehash.
      * (* comment *)
        rewrite mk_token_ok; [|discriminate|now apply verify_line].
        destruct (IHrest cur) as [ts [E2 E3]]. cbn [bind]. rewrite E2. cbn [bind].
        eexists. split; [reflexivity|]. cbn. now rewrite E3.
      * destruct ((c0 =? SP)%N || (c0 =? TAB)%N) eqn:Esp.
        -- destruct cur as [fname|].
           ++ (* continuation line *)
              assert (Hc : c0 = SP \/ c0 = TAB).
              { apply orb_true_iff in Esp. destruct Esp as [H|H]; apply N.eqb_eq in H; auto. }
              destruct (continuation_line_ok c0 body Hc Hl Ews) as [t1 [t2 [nl [T1 [T2 [Enl Ht]]]]]].
              destruct (if ends_lf (c0 :: body) then (removelast body, true) else (body, false))
                as [v nl'] eqn:Ev.
              cbn [fst snd] in T2, Enl. subst nl'. rewrite T1, T2. cbn [bind].
              destruct (IHrest (Some fname)) as [ts [E2 E3]]. rewrite E2. cbn [bind].
              eexists. split; [reflexivity|].
              change (t1 :: t2 :: (if nl then [newline_token] else []) ++ ts)
                with ((t1 :: t2 :: (if nl then [newline_token] else [])) ++ ts).
              rewrite map_app, concat_app, Ht, E3. reflexivity.
           ++ (* continuation line without a field: error token *)
              rewrite mk_token_ok; [|discriminate|now apply verify_line].
              destruct (IHrest None) as [ts [E2 E3]]. cbn [bind]. rewrite E2. cbn [bind].
              eexists. split; [reflexivity|]. cbn. now rewrite E3.
        -- destruct (match_field_line (c0 :: body)) as [m|] eqn:Em.
           ++ destruct (field_line_ok _ _ Hl Em) as [fts [F1 F2]]. rewrite F1. cbn [bind].
              destruct (IHrest (Some (fm_name m))) as [ts [E2 E3]]. rewrite E2. cbn [bind].
              eexists. split; [reflexivity|]. now rewrite map_app, concat_app, F2, E3.
           ++ rewrite mk_token_ok; [|discriminate|now apply verify_line].
              destruct (IHrest cur) as [ts [E2 E3]]. cbn [bind]. rewrite E2. cbn [bind].
              eexists. split; [reflexivity|]. cbn. now rewrite E3.
Qed.

(** ** C01, token stream, form 1 *)
Theorem tokenize_form1 ls :
  form1 ls = true ->
  exists ts, tokenize ls = Ok ts /\ concat (map ttext ts) = concat ls.
Proof.
  intros H. unfold Token.tokenize.
  assert (Eac : auto_correct_newlines ls = false).
  { destruct ls as [|l1 [|l2 rest]]; [reflexivity|reflexivity|].
    cbn. apply form1_cons in H. destruct H as [_ [H _]]. now rewrite H. }
  rewrite Eac.
  destruct (loop_lossless (length ls) ls false None (le_n _) H) as [ts [E1 E2]].
  exists ts. split; [exact E1|]. rewrite E2. cbn [corr]. now rewrite map_id.
Qed.

(** ** C01, token stream, form 2 (auto-corrected newlines) *)
Theorem tokenize_form2 ls :
  form2 ls = true ->
  exists ts, tokenize ls = Ok ts /\ concat (map ttext ts) = concat (map add_lf ls).
Proof.
  intros H. unfold form2 in H. apply andb_true_iff in H. destruct H as [Hn Hf].
  unfold Token.tokenize.
  assert (Eac : auto_correct_newlines ls = true).
  { destruct ls as [|l1 [|l2 rest]]; [discriminate|discriminate|].
    cbn. cbn [forallb] in Hf. apply andb_true_iff in Hf. destruct Hf as [Hf _].
    now rewrite (lf_free_not_ends _ Hf). }
  rewrite Eac.
  destruct (loop_lossless (length ls) ls true None (le_n _) Hf) as [ts [E1 E2]].
  exists ts. split; [exact E1|exact E2].
Qed.

End TokenizerProofs.

(** * Invariants of every successful tokenization (any input, any classes) *)

(** The single-line contract ([_verify_token_text]): whitespace tokens that
    contain a newline end on one; comment and error tokens contain a newline at
    most as their last character; no other token contains a newline.  Hence no
    token other than (merged) whitespace straddles lines. *)
Definition token_line_ok (t : token) : bool :=
  negb (is_nil (ttext t)) &&
  (if is_ws_kind (tk t) then implb (has_lf (ttext t)) (ends_lf (ttext t))
   else if is_comment_kind (tk t) || is_error_kind (tk t)
        then negb (has_lf (removelast (ttext t)))
        else negb (has_lf (ttext t))).

Definition is_name_kind (k : tkind) : bool :=
  match k with KFieldName => true | _ => false end.
Definition is_sep_kind (k : tkind) : bool :=
  match k with KFieldSeparator => true | _ => false end.

(** every field-name token is immediately followed by a field-separator token *)
Fixpoint names_sep_t (ts : list token) : bool :=
  match ts with
  | [] => true
  | t :: rest =>
      (if is_name_kind (tk t)
       then match rest with s :: _ => is_sep_kind (tk s) | [] => false end
       else true) && names_sep_t rest
  end.

Definition toks_inv (ts : list token) : Prop :=
  forallb token_line_ok ts = true /\ names_sep_t ts = true.

Definition res_inv (r : result (list token)) : Prop :=
  forall ts, r = Ok ts -> toks_inv ts.

Lemma has_lf_removelast s : has_lf s = false -> has_lf (removelast s) = false.
Proof.
  destruct s as [|a s]; [trivial|]. intros H.
  destruct (@exists_last _ (a :: s)) as [b [c E]]; [discriminate|].
  rewrite E in *. rewrite removelast_last. rewrite has_lf_app in H.
  now apply orb_false_iff in H.
Qed.

Lemma verify_token_line_ok k s :
  s <> [] -> verify_token_text k s = true -> token_line_ok (mkTok k s) = true.
Proof.
  intros Hs Hv. unfold token_line_ok. cbn [tk ttext].
  replace (negb (is_nil s)) with true by (destruct s; [congruence|reflexivity]).
  cbn [andb]. unfold verify_token_text in Hv.
  destruct (has_lf s) eqn:Eh.
  - destruct (is_ws_kind k) eqn:Ew.
    + rewrite andb_false_r in Hv. destruct (ends_lf s); [reflexivity|discriminate].
    + destruct (is_comment_kind k || is_error_kind k) eqn:Es; cbn [negb andb] in Hv.
      * destruct (ends_lf s); cbn [negb] in Hv; [|discriminate].
        destruct (has_lf (removelast s)); [discriminate|reflexivity].
      * discriminate.
  - rewrite (has_lf_removelast _ Eh).
    destruct (is_ws_kind k); [reflexivity|].
    now destruct (is_comment_kind k || is_error_kind k).
Qed.

Lemma mk_token_line_ok k s t : mk_token k s = Ok t -> token_line_ok t = true /\ tk t = k.
Proof.
  intros H. apply mk_token_inv in H. destruct H as [-> [Hs Hv]].
  split; [now apply verify_token_line_ok|reflexivity].
Qed.

Lemma opt_token_line_ok k s ts :
  opt_token k s = Ok ts -> forallb token_line_ok ts = true /\ forallb (fun t => tkind_eqb (tk t) k) ts = true.
Proof.
  unfold opt_token. destruct (is_nil s); [intros [= <-]; now split|].
  destruct (mk_token k s) as [t|] eqn:E; [|discriminate]. cbn. intros [= <-].
  apply mk_token_line_ok in E. destruct E as [E1 E2]. cbn. rewrite E1, E2.
  split; [reflexivity|]. now destruct k.
Qed.

Lemma toks_inv_cons t ts :
  token_line_ok t = true -> is_name_kind (tk t) = false -> toks_inv ts -> toks_inv (t :: ts).
Proof.
  intros H1 H2 [H3 H4]. split; cbn; [now rewrite H1|now rewrite H2].
Qed.

Lemma toks_inv_app_plain a ts :
  forallb token_line_ok a = true -> forallb (fun t => negb (is_name_kind (tk t))) a = true ->
  toks_inv ts -> toks_inv (a ++ ts).
Proof.
  induction a as [|t a IH]; [trivial|]. cbn [forallb app]. intros H1 H2 H3.
  apply andb_true_iff in H1, H2. destruct H1 as [H1 H1'], H2 as [H2 H2'].
  apply toks_inv_cons; [assumption|now apply negb_true_iff|now apply IH].
Qed.

Lemma res_inv_err e : res_inv (Err e).
Proof. intros ts H. discriminate. Qed.

Lemma res_inv_nil : res_inv (Ok []).
Proof. intros ts [= <-]. now split. Qed.

Lemma res_inv_tok k s R :
  is_name_kind k = false -> res_inv R ->
  res_inv (do t <- mk_token k s; do ts <- R; Ok (t :: ts)).
Proof.
  intros Hk HR ts. destruct (mk_token k s) as [t|] eqn:E; [|discriminate].
  cbn [bind]. destruct R as [ts'|]; [|discriminate]. cbn [bind]. intros [= <-].
  apply mk_token_line_ok in E. destruct E as [E1 E2].
  apply toks_inv_cons; [assumption|now rewrite E2|now apply HR].
Qed.

Lemma newline_token_ok : token_line_ok newline_token = true.
Proof. reflexivity. Qed.

Section TokenizerInvariants.
Variable is_space : N -> bool.
Variables name_first name_rest : N -> bool.

Notation tokenize_loop := (tokenize_loop is_space name_first name_rest).
Notation tokenize := (tokenize is_space name_first name_rest).

Lemma res_inv_field m R :
  res_inv R -> res_inv (do fts <- field_line_tokens m; do ts <- R; Ok (fts ++ ts)).
Proof.
  intros HR ts. unfold field_line_tokens.
  destruct (match fm_value m with
            | Some (v, sa) =>
                if is_nil v
                then ([], [], if is_nil sa then fm_space_before m else fm_space_before m ++ sa)
                else (fm_space_before m, v, sa)
            | None => ([], [], fm_space_before m)
            end) as [[sb v] sa].
  destruct (split_newline sa) as [sa' nl].
  destruct (mk_token KFieldName (fm_name m)) as [t1|] eqn:E1; [|discriminate].
  destruct (mk_token KFieldSeparator [COLON]) as [t2|] eqn:E2; [|discriminate].
  destruct (opt_token KWhitespace sb) as [t3|] eqn:E3; [|discriminate].
  destruct (opt_token KValue v) as [t4|] eqn:E4; [|discriminate].
  destruct (opt_token KWhitespace sa') as [t5|] eqn:E5; [|discriminate].
  cbn [bind]. destruct R as [ts'|]; [|discriminate]. cbn [bind]. intros [= <-].
  apply mk_token_line_ok in E1, E2. destruct E1 as [A1 B1], E2 as [A2 B2].
  apply opt_token_line_ok in E3, E4, E5.
  destruct E3 as [A3 B3], E4 as [A4 B4], E5 as [A5 B5].
  specialize (HR _ eq_refl).
  assert (Hplain : toks_inv ((t3 ++ t4 ++ t5 ++ (if nl then [newline_token] else [])) ++ ts')).
  { apply toks_inv_app_plain; [| |assumption].
    - rewrite !forallb_app, A3, A4, A5. now destruct nl.
    - rewrite !forallb_app.
      assert (G : forall k l, is_name_kind k = false ->
                 forallb (fun t => tkind_eqb (tk t) k) l = true ->
                 forallb (fun t => negb (is_name_kind (tk t))) l = true).
      { intros k l Hk. induction l as [|x l IHl]; [trivial|]. cbn. intros H.
        apply andb_true_iff in H. destruct H as [H H']. rewrite (IHl H'), andb_true_r.
        destruct (tk x), k; try discriminate; reflexivity. }
      rewrite (G KWhitespace _ eq_refl B3), (G KValue _ eq_refl B4), (G KWhitespace _ eq_refl B5).
      now destruct nl. }
  cbn [app]. destruct Hplain as [P1 P2]. split.
  - cbn [forallb]. rewrite A1, A2. exact P1.
  - cbn [names_sep_t]. rewrite B1, B2. cbn. exact P2.
Qed.

Lemma res_inv_merge (k : list str -> result (list token)) pred fx :
  forall r acc, (forall b, length b <= length r -> res_inv (k b)) ->
    res_inv (merge_ws k pred fx acc r).
Proof.
  induction r as [|x r IH]; intros acc Hk; cbn [merge_ws].
  - change (do t <- mk_token KWhitespace acc; Ok [t])
      with (do t <- mk_token KWhitespace acc; do ts <- Ok []; Ok (t :: ts)).
    apply res_inv_tok; [reflexivity|apply res_inv_nil].
  - destruct (pred x).
    + apply IH. intros b Hb. apply Hk. cbn. lia.
    + apply res_inv_tok; [reflexivity|]. apply Hk. lia.
Qed.

Theorem tokenize_loop_inv : forall n ls ac cur,
  length ls <= n -> res_inv (tokenize_loop ac cur ls).
Proof.
  induction n as [|n IH]; intros ls ac cur Hlen.
  - destruct ls; [apply res_inv_nil|cbn in Hlen; lia].
  - destruct ls as [|raw rest]; [apply res_inv_nil|]. cbn [length] in Hlen.
    assert (IHrest : forall cur', res_inv (tokenize_loop ac cur' rest)) by (intros; apply IH; lia).
    assert (IHsuf : forall b, length b <= length rest -> res_inv (tokenize_loop ac None b))
      by (intros; apply IH; lia).
    cbn [Token.tokenize_loop].
    destruct (if ac then if ends_lf raw then Err ValueError else Ok (raw ++ [LF]) else Ok raw)
      as [line|]; [|apply res_inv_err]. cbn [bind].
    destruct (if ends_lf line then Ok tt
              else if negb (is_nil rest) then Err ValueError
              else if is_nil line then Err ValueError else Ok tt); [|apply res_inv_err].
    cbn [bind].
    destruct (Token.is_ws_line is_space line).
    + destruct ac; [now apply res_inv_merge|].
      destruct (ends_lf line); [now apply res_inv_merge|].
      apply res_inv_tok; [reflexivity|apply IHrest].
    + destruct line as [|c0 body]; [apply res_inv_err|].
      destruct (c0 =? HASH)%N; [apply res_inv_tok; [reflexivity|apply IHrest]|].
      destruct ((c0 =? SP)%N || (c0 =? TAB)%N).
      * destruct cur as [f|]; [|apply res_inv_tok; [reflexivity|apply IHrest]].
        destruct (if ends_lf (c0 :: body) then (removelast body, true) else (body, false)) as [v nl].
        intros ts.
        destruct (mk_token KValueContinuation [c0]) as [t1|] eqn:E1; [|discriminate].
        destruct (mk_token KValue v) as [t2|] eqn:E2; [|discriminate]. cbn [bind].
        pose proof (IHrest (Some f)) as HR.
        destruct (tokenize_loop ac (Some f) rest) as [ts'|]; [|discriminate]. cbn [bind].
        intros [= <-]. specialize (HR _ eq_refl).
        apply mk_token_line_ok in E1, E2. destruct E1 as [A1 B1], E2 as [A2 B2].
        apply toks_inv_cons; [assumption|now rewrite B1|].
        apply toks_inv_cons; [assumption|now rewrite B2|].
        destruct nl; [|assumption]. now apply toks_inv_cons.
      * destruct (Token.match_field_line is_space name_first name_rest (c0 :: body)) as [m|].
        -- apply res_inv_field, IHrest.
        -- apply res_inv_tok; [reflexivity|apply IHrest].
Qed.

Theorem tokenize_inv ls ts : tokenize ls = Ok ts -> toks_inv ts.
Proof. intros H. eapply tokenize_loop_inv; [apply le_n|exact H]. Qed.

(** C01 [token_single_line] *)
Theorem tokenize_single_line ls ts :
  tokenize ls = Ok ts -> forallb token_line_ok ts = true.
Proof. intros H. apply (tokenize_inv _ _ H). Qed.

End TokenizerInvariants.
