(** The duplicate-fields paragraph class of Repro/Doc.v (Deb822DuplicateFieldsParagraphElement):
    the invariant [d_wf] tying the name index [d_byname] to the node list [d_order], its
    preservation by set / remove (with or without repeated names), the initial state, and what
    the operations do to the field list when no name is repeated. *)
From Verif Require Import Lib.Base Lib.PyStr Gen.PyChars Repro.Doc Repro.DocInv.

(** * association lists *)

Lemma str_eqb_sym a b : str_eqb a b = str_eqb b a.
Proof.
  destruct (str_eqb a b) eqn:E1, (str_eqb b a) eqn:E2; try reflexivity.
  - apply str_eqb_eq in E1. subst. now rewrite str_eqb_refl in E2.
  - apply str_eqb_eq in E2. subst. now rewrite str_eqb_refl in E1.
Qed.

Lemma str_eqb_false a b : a <> b -> str_eqb a b = false.
Proof. intros H. destruct (str_eqb a b) eqn:E; [|reflexivity]. now apply str_eqb_eq in E. Qed.

Section Assoc.
Context {B : Type}.
Implicit Type l : list (str * B).

Lemma assoc_get_set k' k (v : B) l :
  assoc_get k' (assoc_set k v l) = if str_eqb k' k then Some v else assoc_get k' l.
Proof.
  induction l as [|[k0 v0] l IH]; cbn [assoc_set assoc_get].
  - reflexivity.
  - destruct (str_eqb k k0) eqn:E.
    + apply str_eqb_eq in E. subst k0. cbn [assoc_get]. now destruct (str_eqb k' k).
    + cbn [assoc_get]. destruct (str_eqb k' k0) eqn:E0.
      * apply str_eqb_eq in E0. subst k0. now rewrite str_eqb_sym, E.
      * exact IH.
Qed.

Lemma keys_assoc_set k (v : B) l :
  map fst (assoc_set k v l) = if existsb (str_eqb k) (map fst l) then map fst l else map fst l ++ [k].
Proof.
  induction l as [|[k0 v0] l IH]; cbn [assoc_set map fst existsb]; [reflexivity|].
  destruct (str_eqb k k0) eqn:E.
  - apply str_eqb_eq in E. subst k0. reflexivity.
  - cbn [orb map fst]. rewrite IH. now destruct (existsb (str_eqb k) (map fst l)).
Qed.

Lemma nodupb_snoc (ks : list str) k :
  nodupb ks = true -> existsb (str_eqb k) ks = false -> nodupb (ks ++ [k]) = true.
Proof.
  induction ks as [|a ks IH]; [reflexivity|]. cbn [nodupb existsb app]. intros H He.
  apply andb_true_iff in H. destruct H as [H1 H2]. apply orb_false_iff in He. destruct He as [He1 He2].
  rewrite IH by assumption. rewrite andb_true_r. rewrite existsb_app. cbn [existsb].
  apply negb_true_iff in H1. rewrite H1. cbn [orb]. rewrite orb_false_r.
  now rewrite str_eqb_sym, He1.
Qed.

Lemma nodupb_assoc_set k (v : B) l :
  nodupb (map fst l) = true -> nodupb (map fst (assoc_set k v l)) = true.
Proof.
  intros H. rewrite keys_assoc_set. destruct (existsb (str_eqb k) (map fst l)) eqn:E; [exact H|].
  now apply nodupb_snoc.
Qed.

Lemma assoc_get_none_keys k l : existsb (str_eqb k) (map fst l) = false -> assoc_get k l = None.
Proof.
  induction l as [|[k0 v0] l IH]; [reflexivity|]. cbn [map fst existsb assoc_get]. intros H.
  apply orb_false_iff in H. destruct H as [H1 H2]. rewrite H1. now apply IH.
Qed.

Lemma assoc_get_del k' k l :
  nodupb (map fst l) = true ->
  assoc_get k' (assoc_del k l) = if str_eqb k' k then None else assoc_get k' l.
Proof.
  induction l as [|[k0 v0] l IH]; cbn [assoc_del assoc_get map fst nodupb]; intros H.
  - now destruct (str_eqb k' k).
  - apply andb_true_iff in H. destruct H as [H1 H2]. apply negb_true_iff in H1.
    destruct (str_eqb k k0) eqn:E.
    + apply str_eqb_eq in E. subst k0. destruct (str_eqb k' k) eqn:E'; [|reflexivity].
      apply str_eqb_eq in E'. subst k'. now apply assoc_get_none_keys.
    + cbn [assoc_get]. destruct (str_eqb k' k0) eqn:E0.
      * apply str_eqb_eq in E0. subst k0. now rewrite str_eqb_sym, E.
      * now apply IH.
Qed.

Lemma keys_assoc_del_sub k l x : In x (map fst (assoc_del k l)) -> In x (map fst l).
Proof.
  induction l as [|[k0 v0] l IH]; cbn [assoc_del map fst]; [auto|].
  destruct (str_eqb k k0); cbn [map fst In]; intuition.
Qed.

Lemma existsb_str_in k (ks : list str) : existsb (str_eqb k) ks = true <-> In k ks.
Proof.
  rewrite existsb_exists. split.
  - intros [x [Hx E]]. apply str_eqb_eq in E. now subst.
  - intros H. exists k. split; [exact H|apply str_eqb_refl].
Qed.

Lemma nodupb_assoc_del k l :
  nodupb (map fst l) = true -> nodupb (map fst (assoc_del k l)) = true.
Proof.
  induction l as [|[k0 v0] l IH]; cbn [assoc_del map fst nodupb]; [auto|]. intros H.
  apply andb_true_iff in H. destruct H as [H1 H2].
  destruct (str_eqb k k0); [exact H2|]. cbn [map fst nodupb]. rewrite IH by exact H2.
  rewrite andb_true_r. apply negb_true_iff. apply negb_true_iff in H1.
  destruct (existsb (str_eqb k0) (map fst (assoc_del k l))) eqn:E; [|reflexivity].
  apply existsb_str_in, keys_assoc_del_sub, existsb_str_in in E. congruence.
Qed.

Lemma assoc_get_in k l (v : B) : assoc_get k l = Some v -> In (k, v) l.
Proof.
  induction l as [|[k0 v0] l IH]; [discriminate|]. cbn [assoc_get].
  destruct (str_eqb k k0) eqn:E.
  - apply str_eqb_eq in E. subst k0. intros [= <-]. now left.
  - intros H. right. now apply IH.
Qed.

Lemma in_assoc_get k l (v : B) :
  nodupb (map fst l) = true -> In (k, v) l -> assoc_get k l = Some v.
Proof.
  induction l as [|[k0 v0] l IH]; [contradiction|]. cbn [map fst nodupb assoc_get]. intros H Hin.
  apply andb_true_iff in H. destruct H as [H1 H2]. destruct Hin as [E|Hin].
  - injection E as -> ->. now rewrite str_eqb_refl.
  - destruct (str_eqb k k0) eqn:E; [|now apply IH].
    apply str_eqb_eq in E. subst k0. apply negb_true_iff in H1.
    assert (In k (map fst l)) by (apply in_map_iff; now exists (k, v)).
    apply existsb_str_in in H. congruence.
Qed.
End Assoc.

(** * node lists *)

Definition lname (f : field) : str := lower (f_name f).
Definition nonempty_opt (l : list N) : option (list N) := match l with [] => None | _ => Some l end.
Definition ids (o : list (N * field)) : list N := map fst o.

Lemma nodupN_NoDup l : nodupN l = true <-> NoDup l.
Proof.
  induction l as [|a l IH]; cbn [nodupN].
  - split; [constructor|reflexivity].
  - rewrite andb_true_iff, negb_true_iff, IH. split.
    + intros [H1 H2]. constructor; [|exact H2]. intros Hin.
      assert (existsb (N.eqb a) l = true) by (apply existsb_exists; exists a; split; [exact Hin|apply N.eqb_refl]).
      congruence.
    + intros H. inversion H as [|? ? H1 H2]; subst. split; [|exact H2].
      destruct (existsb (N.eqb a) l) eqn:E; [|reflexivity].
      apply existsb_exists in E. destruct E as [x [Hx E]]. apply N.eqb_eq in E. now subst x.
Qed.

Lemma ids_with_app k o1 o2 : ids_with k (o1 ++ o2) = ids_with k o1 ++ ids_with k o2.
Proof. unfold ids_with. now rewrite filter_app, map_app. Qed.

Lemma ids_with_cons k nf o :
  ids_with k (nf :: o) = if str_eqb (lname (snd nf)) k then fst nf :: ids_with k o else ids_with k o.
Proof. unfold ids_with. cbn [filter]. fold (lname (snd nf)). now destruct (str_eqb (lname (snd nf)) k). Qed.

Lemma ids_with_in k o id :
  In id (ids_with k o) <-> exists f, In (id, f) o /\ lname f = k.
Proof.
  unfold ids_with. rewrite in_map_iff. split.
  - intros [[i f] [E Hin]]. cbn in E. subst i. apply filter_In in Hin. destruct Hin as [Hin Hk].
    exists f. split; [exact Hin|]. now apply str_eqb_eq in Hk.
  - intros [f [Hin Hk]]. exists (id, f). split; [reflexivity|]. apply filter_In. split; [exact Hin|].
    cbn. fold (lname f). rewrite Hk. apply str_eqb_refl.
Qed.

Lemma ids_with_sub k o id : In id (ids_with k o) -> In id (ids o).
Proof.
  intros H. apply ids_with_in in H. destruct H as [f [Hin _]]. unfold ids. apply in_map_iff. now exists (id, f).
Qed.

(** the same node cannot carry two names *)
Lemma node_unique o id f g : NoDup (ids o) -> In (id, f) o -> In (id, g) o -> f = g.
Proof.
  induction o as [|[i h] o IH]; [contradiction|]. unfold ids. cbn [map fst]. intros Hnd Hf Hg.
  inversion Hnd as [|? ? Hni Hnd']; subst.
  destruct Hf as [Ef|Hf], Hg as [Eg|Hg].
  - congruence.
  - injection Ef as -> ->. exfalso. apply Hni. apply in_map_iff. now exists (id, g).
  - injection Eg as -> ->. exfalso. apply Hni. apply in_map_iff. now exists (id, f).
  - now apply IH.
Qed.

Lemma node_val_some id o f : node_val id o = Some f -> In (id, f) o.
Proof.
  unfold node_val. destruct (List.find (fun nf => (fst nf =? id)%N) o) as [[i g]|] eqn:E; [|discriminate].
  intros [= <-]. apply find_some in E. destruct E as [Hin Hi]. cbn in Hi. apply N.eqb_eq in Hi. now subst i.
Qed.

Lemma node_val_in id o f : NoDup (ids o) -> In (id, f) o -> node_val id o = Some f.
Proof.
  intros Hnd Hin. unfold node_val.
  destruct (List.find (fun nf => (fst nf =? id)%N) o) as [[i g]|] eqn:E.
  - apply find_some in E. destruct E as [Hg Hi]. cbn in Hi. apply N.eqb_eq in Hi. subst i. cbn.
    f_equal. eapply node_unique; eassumption.
  - exfalso. eapply find_none in E; [|exact Hin]. cbn in E. now rewrite N.eqb_refl in E.
Qed.

(** ** set_node_val *)

Lemma ids_set_node_val id v o : ids (set_node_val id v o) = ids o.
Proof.
  unfold ids, set_node_val. rewrite map_map. apply map_ext_in. intros [i f] _. cbn.
  destruct (N.eqb_spec i id); [now subst|reflexivity].
Qed.

Lemma ids_with_set_node_val k id v o :
  (forall f, In (id, f) o -> lname f = lname v) ->
  ids_with k (set_node_val id v o) = ids_with k o.
Proof.
  induction o as [|[i f] o IH]; intros H; [reflexivity|].
  unfold set_node_val. cbn [map]. fold (set_node_val id v o).
  rewrite !ids_with_cons, IH by (intros g Hg; apply H; now right).
  cbn [fst snd]. destruct (N.eqb_spec i id) as [->|Hne]; cbn [fst snd]; [|reflexivity].
  now rewrite (H f (or_introl eq_refl)).
Qed.

Lemma set_node_val_notin id v o : ~ In id (ids o) -> set_node_val id v o = o.
Proof.
  induction o as [|[i f] o IH]; intros H; [reflexivity|]. unfold set_node_val. cbn [map].
  fold (set_node_val id v o). unfold ids in H. cbn [map fst In] in H.
  rewrite IH by tauto. cbn. destruct (N.eqb_spec i id); [subst; tauto|reflexivity].
Qed.

Lemma set_node_val_split id v o1 f o2 :
  NoDup (ids (o1 ++ (id, f) :: o2)) ->
  set_node_val id v (o1 ++ (id, f) :: o2) = o1 ++ (id, v) :: o2.
Proof.
  intros Hnd. unfold ids in Hnd. rewrite map_app in Hnd. cbn [map fst] in Hnd.
  pose proof (NoDup_remove_2 _ _ _ Hnd) as Hni. rewrite in_app_iff in Hni.
  unfold set_node_val. rewrite map_app. cbn [map fst]. rewrite N.eqb_refl.
  fold (set_node_val id v o1). fold (set_node_val id v o2).
  rewrite !set_node_val_notin by (unfold ids; tauto). reflexivity.
Qed.

(** ** remove_node *)

Lemma filter_all {A} (q : A -> bool) l : (forall x, In x l -> q x = true) -> filter q l = l.
Proof.
  induction l as [|a l IH]; [reflexivity|]. intros H. cbn [filter].
  rewrite (H a (or_introl eq_refl)), IH; [reflexivity|]. intros x Hx. apply H. now right.
Qed.

Lemma remove_node_filter id o :
  NoDup (ids o) -> remove_node id o = filter (fun nf => negb (fst nf =? id)%N) o.
Proof.
  induction o as [|[i f] o IH]; [reflexivity|]. unfold ids. cbn [map fst]. intros Hnd.
  inversion Hnd as [|? ? Hni Hnd']; subst. unfold remove_node. cbn [remove_first filter fst].
  destruct (N.eqb_spec i id) as [->|Hne]; cbn [negb].
  - symmetry. apply filter_all. intros [j g] Hin. cbn. apply negb_true_iff, N.eqb_neq. intros ->.
    apply Hni. apply in_map_iff. now exists (id, g).
  - f_equal. now apply IH.
Qed.

Lemma ids_filter (q : N -> bool) o :
  ids (filter (fun nf => q (fst nf)) o) = filter q (ids o).
Proof.
  induction o as [|[i f] o IH]; [reflexivity|]. unfold ids in *. cbn [filter map fst].
  destruct (q i); cbn [map fst]; now rewrite IH.
Qed.

Lemma NoDup_filter {A} (q : A -> bool) l : NoDup l -> NoDup (filter q l).
Proof.
  induction 1 as [|a l Hni Hnd IH]; [constructor|]. cbn [filter]. destruct (q a); [|exact IH].
  constructor; [|exact IH]. intros Hin. apply filter_In in Hin. tauto.
Qed.

Lemma ids_with_filter k (q : N -> bool) o :
  ids_with k (filter (fun nf => q (fst nf)) o) = filter q (ids_with k o).
Proof.
  induction o as [|[i f] o IH]; [reflexivity|]. cbn [filter fst].
  destruct (q i) eqn:Eq; rewrite !ids_with_cons; cbn [fst snd];
    destruct (str_eqb (lname f) k); cbn [filter]; rewrite ?Eq, IH; reflexivity.
Qed.

Lemma remove_node_split id o1 f o2 :
  NoDup (ids (o1 ++ (id, f) :: o2)) -> remove_node id (o1 ++ (id, f) :: o2) = o1 ++ o2.
Proof.
  intros Hnd. rewrite remove_node_filter by exact Hnd.
  unfold ids in Hnd. rewrite map_app in Hnd. cbn [map fst] in Hnd.
  pose proof (NoDup_remove_2 _ _ _ Hnd) as Hni. rewrite in_app_iff in Hni.
  rewrite filter_app. cbn [filter fst]. rewrite N.eqb_refl. cbn [negb].
  rewrite !filter_all; [reflexivity| |].
  - intros [j g] Hin. cbn. apply negb_true_iff, N.eqb_neq. intros ->. apply Hni. right.
    apply in_map_iff. now exists (id, g).
  - intros [j g] Hin. cbn. apply negb_true_iff, N.eqb_neq. intros ->. apply Hni. left.
    apply in_map_iff. now exists (id, g).
Qed.

(** removing a set of nodes *)
Definition keep_out (R : list N) (i : N) : bool := negb (existsb (N.eqb i) R).

Lemma filter_filter {A} (p q : A -> bool) l :
  filter p (filter q l) = filter (fun x => q x && p x) l.
Proof.
  induction l as [|a l IH]; [reflexivity|]. cbn [filter]. destruct (q a); cbn [filter andb]; now rewrite IH.
Qed.

Lemma filter_ext' {A} (p q : A -> bool) l : (forall a, p a = q a) -> filter p l = filter q l.
Proof. intros H. induction l as [|a l IH]; [reflexivity|]. cbn [filter]. now rewrite H, IH. Qed.

Lemma fold_remove_filter R : forall o,
  NoDup (ids o) ->
  fold_left (fun o n => remove_node n o) R o = filter (fun nf => keep_out R (fst nf)) o.
Proof.
  induction R as [|r R IH]; intros o Hnd.
  - cbn [fold_left]. symmetry. now apply filter_all.
  - cbn [fold_left]. rewrite IH.
    + rewrite remove_node_filter by exact Hnd. rewrite filter_filter. apply filter_ext'.
      intros [i f]. cbn [fst]. unfold keep_out. cbn [existsb]. now rewrite negb_orb.
    + rewrite remove_node_filter by exact Hnd.
      change (fun nf : N * field => negb (fst nf =? r)%N) with (fun nf : N * field => (fun i => negb (i =? r)%N) (fst nf)).
      rewrite ids_filter. now apply NoDup_filter.
Qed.

(** ** d_ensure_nl *)

Lemma map_last_map {A B} (g : A -> A) (h : B -> B) (pr : B -> A) l :
  (forall b, pr (h b) = g (pr b)) -> map pr (map_last h l) = map_last g (map pr l).
Proof.
  intros H. induction l as [|b l IH]; [reflexivity|]. destruct l as [|b2 l].
  - cbn [map_last map]. now rewrite H.
  - change (map_last h (b :: b2 :: l)) with (b :: map_last h (b2 :: l)).
    cbn [map] in *. rewrite IH. reflexivity.
Qed.

Lemma ensure_nl_fields o : map snd (d_ensure_nl o) = map_last add_nl (map snd o).
Proof. unfold d_ensure_nl. now apply map_last_map. Qed.

Lemma ensure_nl_ids o : ids (d_ensure_nl o) = ids o.
Proof.
  unfold ids, d_ensure_nl. induction o as [|nf o IH]; [reflexivity|]. destruct o as [|nf2 o].
  - reflexivity.
  - change (map_last (fun nf => (fst nf, add_nl (snd nf))) (nf :: nf2 :: o))
      with (nf :: map_last (fun nf => (fst nf, add_nl (snd nf))) (nf2 :: o)).
    cbn [map] in *. now rewrite IH.
Qed.

Lemma lname_add_nl f : lname (add_nl f) = lname f.
Proof. unfold add_nl, lname. now destruct (ends_nl (f_rest f)). Qed.

Lemma ids_with_ensure_nl k o : ids_with k (d_ensure_nl o) = ids_with k o.
Proof.
  unfold d_ensure_nl. induction o as [|nf o IH]; [reflexivity|]. destruct o as [|nf2 o].
  - cbn [map_last]. rewrite !ids_with_cons. cbn [fst snd]. now rewrite lname_add_nl.
  - change (map_last (fun nf => (fst nf, add_nl (snd nf))) (nf :: nf2 :: o))
      with (nf :: map_last (fun nf => (fst nf, add_nl (snd nf))) (nf2 :: o)).
    rewrite (ids_with_cons k nf), (ids_with_cons k nf (nf2 :: o)). now rewrite IH.
Qed.

(** * the invariant *)

Record DWf (d : dpara) : Prop := mkDWf {
  dw_ids : NoDup (ids (d_order d));
  dw_fresh : forall i, In i (ids (d_order d)) -> (i < d_next d)%N;
  dw_keys : nodupb (map fst (d_byname d)) = true;
  dw_by : forall k, assoc_get k (d_byname d) = nonempty_opt (ids_with k (d_order d))
}.

Lemma list_eqb_N_eq a b : list_eqb N.eqb a b = true <-> a = b.
Proof. apply list_eqb_eq. intros; apply N.eqb_eq. Qed.

Lemma d_wf_DWf d : d_wf d = true <-> DWf d.
Proof.
  unfold d_wf. rewrite !andb_true_iff. split.
  - intros [[[[H1 H2] H3] H4] H5]. constructor.
    + now apply nodupN_NoDup.
    + intros i Hi. unfold ids in Hi. apply in_map_iff in Hi. destruct Hi as [nf [<- Hin]].
      rewrite forallb_forall in H2. apply N.ltb_lt. now apply H2.
    + exact H3.
    + intros k. destruct (assoc_get k (d_byname d)) as [l|] eqn:E.
      * apply assoc_get_in in E. rewrite forallb_forall in H4. specialize (H4 _ E). cbn [fst snd] in H4.
        apply andb_true_iff in H4. destruct H4 as [Hne Heq]. apply list_eqb_N_eq in Heq. rewrite <- Heq.
        destruct l; [discriminate|reflexivity].
      * destruct (ids_with k (d_order d)) as [|i l] eqn:Ei; [reflexivity|]. exfalso.
        assert (Hin : In i (ids_with k (d_order d))) by (rewrite Ei; now left).
        apply ids_with_in in Hin. destruct Hin as [f [Hin Hk]].
        rewrite forallb_forall in H5. specialize (H5 _ Hin). cbn [snd] in H5.
        fold (lname f) in H5. rewrite Hk, E in H5. discriminate.
  - intros [H1 H2 H3 H4]. repeat split.
    + now apply nodupN_NoDup.
    + apply forallb_forall. intros nf Hin. apply N.ltb_lt. apply H2. unfold ids. apply in_map_iff. now exists nf.
    + exact H3.
    + apply forallb_forall. intros [k l] Hin. cbn [fst snd].
      pose proof (in_assoc_get _ _ _ H3 Hin) as E. rewrite H4 in E.
      destruct (ids_with k (d_order d)) as [|i r] eqn:Ei; [discriminate|]. injection E as <-.
      cbn [is_nil negb andb]. now apply list_eqb_N_eq.
    + apply forallb_forall. intros [i f] Hin. cbn [snd]. fold (lname f). rewrite H4.
      assert (Hi : In i (ids_with (lname f) (d_order d))) by (apply ids_with_in; now exists f).
      destruct (ids_with (lname f) (d_order d)); [contradiction|reflexivity].
Qed.

(** ** the initial state *)

Lemma NoDup_app_snoc {A} (l : list A) x : NoDup l -> ~ In x l -> NoDup (l ++ [x]).
Proof.
  intros Hnd Hni. induction Hnd as [|a l Ha Hnd IH]; cbn [app].
  - constructor; [intros []|constructor].
  - constructor.
    + rewrite in_app_iff. cbn [In]. intros [H|[H|[]]]; [now apply Ha|]. subst. apply Hni. now left.
    + apply IH. intros H. apply Hni. now right.
Qed.

Lemma init_kvpairs_wf fs : forall d, DWf d -> DWf (init_kvpairs fs d).
Proof.
  induction fs as [|f fs IH]; intros d Hd; [exact Hd|]. cbn [init_kvpairs]. apply IH.
  destruct Hd as [H1 H2 H3 H4]. constructor; cbn [d_order d_byname d_next].
  - unfold ids. rewrite map_app. cbn [map fst]. apply NoDup_app_snoc; [exact H1|].
    intros Hin. apply H2 in Hin. lia.
  - intros i Hi. unfold ids in Hi. rewrite map_app, in_app_iff in Hi. cbn [map fst In] in Hi.
    destruct Hi as [Hi|[<-|[]]]; [apply H2 in Hi|]; lia.
  - destruct (assoc_get (lower (f_name f)) (d_byname d)); now apply nodupb_assoc_set.
  - intros k. rewrite ids_with_app, ids_with_cons. cbn [fst snd ids_with filter map]. fold (lname f).
    specialize (H4 (lname f)) as Hf. specialize (H4 k).
    destruct (assoc_get (lname f) (d_byname d)) as [l|] eqn:El; rewrite assoc_get_set;
      rewrite (str_eqb_sym k (lname f)); destruct (str_eqb (lname f) k) eqn:E.
    + apply str_eqb_eq in E. subst k. destruct (ids_with (lname f) (d_order d)) as [|i r]; [discriminate|].
      injection Hf as ->. reflexivity.
    + now rewrite app_nil_r.
    + apply str_eqb_eq in E. subst k. destruct (ids_with (lname f) (d_order d)) as [|i r]; [reflexivity|discriminate].
    + now rewrite app_nil_r.
Qed.

Lemma init_dup_wf fs : d_wf (init_dup fs) = true.
Proof.
  apply d_wf_DWf. unfold init_dup. apply init_kvpairs_wf.
  constructor; cbn; [constructor|intros i []|reflexivity|reflexivity].
Qed.

(** * lookups *)

Definition key_idx (k : key) : option Z := match k with KStr _ => None | KIdx _ i => Some i end.

Lemma d_get_eq d k ug :
  DWf d ->
  d_get d k ug =
  match ids_with (lower (key_name k)) (d_order d) with
  | [] => if ug then LOk None else LErr KeyError
  | nodes =>
      match resolve_single nodes (key_idx k) ug with
      | LOk (Some id) =>
          match node_val id (d_order d) with Some f => LOk (Some f) | None => LErr OtherError end
      | LOk None => LOk None
      | LAmb => LAmb
      | LErr e => LErr e
      end
  end.
Proof.
  intros [_ _ _ Hby]. unfold d_get. destruct k as [n|n i]; cbn [unpack_key key_name key_idx];
    rewrite Hby; destruct (ids_with (lower n) (d_order d)); reflexivity.
Qed.

(** first occurrence *)
Lemma ids_with_first k o id rest :
  ids_with k o = id :: rest ->
  exists o1 f o2, o = o1 ++ (id, f) :: o2 /\ lname f = k /\ ids_with k o1 = [] /\ ids_with k o2 = rest.
Proof.
  induction o as [|[i g] o IH]; [discriminate|]. rewrite ids_with_cons. cbn [fst snd].
  destruct (str_eqb (lname g) k) eqn:E.
  - intros [= -> <-]. apply str_eqb_eq in E. exists [], g, o. now repeat split.
  - intros H. destruct (IH H) as [o1 [f [o2 [-> [Hf [H1 H2]]]]]].
    exists ((i, g) :: o1), f, o2. repeat split; try assumption.
    rewrite ids_with_cons. cbn [fst snd]. now rewrite E.
Qed.

Lemma ids_with_nil_iff k o :
  ids_with k o = [] <-> existsb (str_eqb k) (lnames (map snd o)) = false.
Proof.
  induction o as [|[i g] o IH]; [now split|]. rewrite ids_with_cons. cbn [fst snd map lnames existsb].
  fold (lnames (map snd o)). fold (lname g). rewrite (str_eqb_sym k).
  destruct (str_eqb (lname g) k); cbn [orb]; [split; discriminate|exact IH].
Qed.

Lemma nodupb_split (a : list str) x b :
  nodupb (a ++ x :: b) = true ->
  existsb (str_eqb x) a = false /\ existsb (str_eqb x) b = false /\ nodupb (a ++ b) = true.
Proof.
  induction a as [|y a IH]; cbn [app nodupb].
  - intros H. apply andb_true_iff in H. destruct H as [H1 H2]. apply negb_true_iff in H1. now repeat split.
  - intros H. apply andb_true_iff in H. destruct H as [H1 H2]. apply negb_true_iff in H1.
    rewrite existsb_app in H1. cbn [existsb] in H1. apply orb_false_iff in H1. destruct H1 as [H1a H1b].
    apply orb_false_iff in H1b. destruct H1b as [Hyx H1b].
    destruct (IH H2) as [Ha [Hb Hab]]. cbn [existsb]. rewrite (str_eqb_sym x y), Hyx, Ha, Hb, Hab.
    rewrite existsb_app, H1a, H1b. now repeat split.
Qed.

(** without repeated names a name has at most one node *)
Lemma ids_with_single o1 id f o2 :
  nodup_names (map snd (o1 ++ (id, f) :: o2)) = true ->
  ids_with (lname f) (o1 ++ (id, f) :: o2) = [id].
Proof.
  unfold nodup_names, lnames. rewrite !map_app. cbn [map snd]. intros H.
  apply nodupb_split in H. destruct H as [H1 [H2 _]].
  rewrite ids_with_app, ids_with_cons. cbn [fst snd]. rewrite str_eqb_refl.
  assert (E1 : ids_with (lname f) o1 = []) by (apply ids_with_nil_iff; exact H1).
  assert (E2 : ids_with (lname f) o2 = []) by (apply ids_with_nil_iff; exact H2).
  now rewrite E1, E2.
Qed.

Lemma py_index_single {A} (x : A) i :
  py_index [x] i = if ((i =? 0)%Z || (i =? -1)%Z) then Some x else None.
Proof.
  unfold py_index. cbn [length]. change (Z.of_nat 1) with 1%Z.
  destruct (Z.ltb_spec i 0).
  - destruct (Z.eqb_spec i (-1)) as [->|Hne]; [reflexivity|].
    destruct (Z.eqb_spec i 0); [lia|]. cbn [orb].
    destruct (Z.ltb_spec (i + 1) 0); [reflexivity|]. lia.
  - destruct (Z.eqb_spec i 0) as [->|Hne]; [reflexivity|].
    destruct (Z.eqb_spec i (-1)); [lia|]. cbn [orb].
    destruct (Z.ltb_spec i 0); [lia|]. cbn [orb].
    destruct (Z.leb_spec 1 i); [reflexivity|lia].
Qed.

(** the key reaches a node (un-indexed, or index 0 or -1 on a name that occurs once) *)
Definition idx_hits (k : key) : bool :=
  match key_idx k with None => true | Some i => (i =? 0)%Z || (i =? -1)%Z end.

Lemma resolve_single_one id idx ug :
  resolve_single [id] idx ug =
  if match idx with None => true | Some i => (i =? 0)%Z || (i =? -1)%Z end then LOk (Some id)
  else if ug then LOk None else LErr KeyError.
Proof.
  unfold resolve_single. destruct idx as [i|].
  - rewrite py_index_single. now destruct ((i =? 0)%Z || (i =? -1)%Z).
  - reflexivity.
Qed.

(** what a lookup gives when no name is repeated *)
Lemma d_get_nodup d k ug :
  DWf d -> nodup_names (map snd (d_order d)) = true ->
  (ids_with (lower (key_name k)) (d_order d) = []
   /\ d_get d k ug = if ug then LOk None else LErr KeyError)
  \/ (exists o1 id f o2,
        d_order d = o1 ++ (id, f) :: o2 /\ lname f = lower (key_name k)
        /\ ids_with (lower (key_name k)) (d_order d) = [id]
        /\ d_get d k ug = if idx_hits k then LOk (Some f)
                          else if ug then LOk None else LErr KeyError).
Proof.
  intros Hd Hnd. rewrite (d_get_eq _ _ _ Hd).
  destruct (ids_with (lower (key_name k)) (d_order d)) as [|id rest] eqn:E; [now left|]. right.
  destruct (ids_with_first _ _ _ _ E) as [o1 [f [o2 [Ho [Hf _]]]]].
  rewrite Ho in Hnd. pose proof (ids_with_single _ _ _ _ Hnd) as Hs. rewrite Hf, <- Ho, E in Hs.
  injection Hs as ->. exists o1, id, f, o2. repeat split; try assumption.
  rewrite resolve_single_one. unfold idx_hits.
  destruct (match key_idx k with None => true | Some i => (i =? 0)%Z || (i =? -1)%Z end);
    [|now destruct ug].
  rewrite (node_val_in id _ f); [reflexivity|apply Hd|]. rewrite Ho. apply in_elt.
Qed.

(** * set *)

Lemma NoDup_ids_with k o : NoDup (ids o) -> NoDup (ids_with k o).
Proof.
  induction o as [|[i f] o IH]; [constructor|]. unfold ids. cbn [map fst]. intros H.
  inversion H as [|? ? Hni Hnd]; subst. rewrite ids_with_cons. cbn [fst snd].
  destruct (str_eqb (lname f) k); [|now apply IH]. constructor; [|now apply IH].
  intros Hin. apply Hni. now apply ids_with_sub in Hin.
Qed.

Lemma filter_none {A} (q : A -> bool) l : (forall x, In x l -> q x = false) -> filter q l = [].
Proof.
  induction l as [|a l IH]; [reflexivity|]. intros H. cbn [filter].
  rewrite (H a (or_introl eq_refl)). apply IH. intros x Hx. apply H. now right.
Qed.

Lemma keep_out_in R x : In x R -> keep_out R x = false.
Proof.
  intros H. unfold keep_out. apply negb_false_iff. apply existsb_exists. exists x. split; [exact H|apply N.eqb_refl].
Qed.

Lemma is_nil_true' {A} (l : list A) : is_nil l = true -> l = [].
Proof. destruct l; [reflexivity|discriminate]. Qed.

Lemma nonempty_opt_some l : l <> [] -> nonempty_opt l = Some l.
Proof. destruct l; [congruence|reflexivity]. Qed.

(** the invariant is kept by every successful set, repeated names or not *)
Theorem d_set_kvpair_wf d k v d' : DWf d -> d_set_kvpair d k v = Ok d' -> DWf d'.
Proof.
  intros Hd H. destruct Hd as [H1 H2 H3 H4]. unfold d_set_kvpair in H.
  assert (Hu : unpack_key k false = Ok (key_name k, key_idx k)) by (destruct k; reflexivity).
  rewrite Hu in H. cbn [bind] in H.
  destruct (name_eqb (key_name k) (f_name v)) eqn:Hn; [|discriminate]. cbn [negb] in H.
  set (key := lower (f_name v)) in *. fold (lname v) in key.
  assert (Happend : forall bn,
            (forall k', assoc_get k' bn = if str_eqb k' key then Some (ids_with key (d_order d) ++ [d_next d])
                                          else assoc_get k' (d_byname d)) ->
            nodupb (map fst bn) = true ->
            DWf (mkD (d_ensure_nl (d_order d) ++ [(d_next d, v)]) bn (N.succ (d_next d)))).
  { intros bn Hbn Hkeys. constructor; cbn [d_order d_byname d_next].
    - unfold ids. rewrite map_app. fold (ids (d_ensure_nl (d_order d))). rewrite ensure_nl_ids.
      cbn [map fst]. apply NoDup_app_snoc; [exact H1|]. intros Hin. apply H2 in Hin. lia.
    - intros i Hi. unfold ids in Hi. rewrite map_app, in_app_iff in Hi.
      fold (ids (d_ensure_nl (d_order d))) in Hi. rewrite ensure_nl_ids in Hi. cbn [map fst In] in Hi.
      destruct Hi as [Hi|[<-|[]]]; [apply H2 in Hi|]; lia.
    - exact Hkeys.
    - intros k'. rewrite Hbn, ids_with_app, ids_with_ensure_nl, ids_with_cons. cbn [fst snd ids_with filter map].
      rewrite (str_eqb_sym k' key). unfold key. destruct (str_eqb (lname v) k') eqn:E.
      + apply str_eqb_eq in E. subst k'. now destruct (ids_with (lname v) (d_order d)).
      + now rewrite app_nil_r, H4. }
  pose proof (H4 key) as Hkey.
  destruct (assoc_get key (d_byname d)) as [[|node0 others]|] eqn:Eo.
  - (* an empty index entry: excluded by the invariant *)
    destruct (ids_with key (d_order d)); discriminate.
  - (* the name exists *)
    assert (Hids : ids_with key (d_order d) = node0 :: others).
    { destruct (ids_with key (d_order d)) as [|a b]; [discriminate|]. cbn in Hkey. now injection Hkey as -> ->. }
    assert (Hsame : forall id, In id (node0 :: others) -> forall f, In (id, f) (d_order d) -> lname f = lname v).
    { intros id Hid f Hf. rewrite <- Hids in Hid. apply ids_with_in in Hid. destruct Hid as [g [Hg Hk]].
      now rewrite (node_unique _ _ _ _ H1 Hf Hg). }
    destruct (key_idx k) as [i|] eqn:Ei.
    + destruct (py_index (node0 :: others) i) as [node|] eqn:Ep; [|discriminate]. injection H as <-.
      assert (Hnode : In node (node0 :: others)).
      { unfold py_index in Ep. destruct (_ || _); [discriminate|]. now apply nth_error_In in Ep. }
      constructor; cbn [d_order d_byname d_next].
      * now rewrite ids_set_node_val.
      * intros j Hj. rewrite ids_set_node_val in Hj. now apply H2.
      * exact H3.
      * intros k'. rewrite ids_with_set_node_val by (now apply Hsame). apply H4.
    + injection H as <-.
      set (o1 := set_node_val node0 v (d_order d)).
      assert (Hnd1 : NoDup (ids o1)) by (subst o1; now rewrite ids_set_node_val).
      assert (Hw1 : forall k', ids_with k' o1 = ids_with k' (d_order d)).
      { intros k'. subst o1. apply ids_with_set_node_val. apply Hsame. now left. }
      assert (Hnd : NoDup (node0 :: others)) by (rewrite <- Hids; now apply NoDup_ids_with).
      rewrite fold_remove_filter by exact Hnd1.
      constructor; cbn [d_order d_byname d_next].
      * change (fun nf : N * field => keep_out others (fst nf)) with (fun nf : N * field => (keep_out others) (fst nf)).
        rewrite ids_filter. now apply NoDup_filter.
      * intros j Hj.
        change (fun nf : N * field => keep_out others (fst nf)) with (fun nf : N * field => (keep_out others) (fst nf)) in Hj.
        rewrite ids_filter in Hj. apply filter_In in Hj. destruct Hj as [Hj _].
        subst o1. rewrite ids_set_node_val in Hj. now apply H2.
      * destruct (is_nil others); [exact H3|now apply nodupb_assoc_set].
      * intros k'.
        change (fun nf : N * field => keep_out others (fst nf)) with (fun nf : N * field => (keep_out others) (fst nf)).
        rewrite ids_with_filter, Hw1.
        assert (Hkeep : forall k'', k'' <> key -> filter (keep_out others) (ids_with k'' (d_order d)) = ids_with k'' (d_order d)).
        { intros k'' Hne. apply filter_all. intros x Hx. unfold keep_out. apply negb_true_iff.
          destruct (existsb (N.eqb x) others) eqn:Ex; [|reflexivity]. exfalso.
          apply existsb_exists in Ex. destruct Ex as [y [Hy Exy]]. apply N.eqb_eq in Exy. subst y.
          apply ids_with_in in Hx. destruct Hx as [f [Hf Hk]].
          assert (Hin : In x (ids_with key (d_order d))) by (rewrite Hids; now right).
          apply ids_with_in in Hin. destruct Hin as [g [Hg Hgk]].
          rewrite (node_unique _ _ _ _ H1 Hf Hg) in Hk. congruence. }
        assert (Hkeyf : filter (keep_out others) (ids_with key (d_order d)) = [node0]).
        { rewrite Hids. cbn [filter]. inversion Hnd as [|? ? Hni Hnd']; subst.
          assert (E0 : keep_out others node0 = true).
          { unfold keep_out. apply negb_true_iff. destruct (existsb (N.eqb node0) others) eqn:Ex; [|reflexivity].
            apply existsb_exists in Ex. destruct Ex as [y [Hy Exy]]. apply N.eqb_eq in Exy. now subst y. }
          rewrite E0. f_equal. apply filter_none. intros x Hx. now apply keep_out_in. }
        destruct (is_nil others) eqn:Enil.
        -- apply is_nil_true' in Enil. subst others. rewrite H4.
           destruct (str_eqb k' key) eqn:E.
           ++ apply str_eqb_eq in E. subst k'. now rewrite Hkeyf, Hids.
           ++ rewrite Hkeep; [reflexivity|]. intros ->. now rewrite str_eqb_refl in E.
        -- rewrite assoc_get_set. destruct (str_eqb k' key) eqn:E.
           ++ apply str_eqb_eq in E. subst k'. now rewrite Hkeyf.
           ++ rewrite Hkeep; [apply H4|]. intros ->. now rewrite str_eqb_refl in E.
  - (* a new name *)
    assert (Hids : ids_with key (d_order d) = []) by (destruct (ids_with key (d_order d)); [reflexivity|discriminate]).
    destruct (match key_idx k with Some i => negb (i =? 0)%Z | None => false end); [discriminate|].
    injection H as <-. apply Happend.
    + intros k'. rewrite assoc_get_set, Hids. reflexivity.
    + now apply nodupb_assoc_set.
Qed.

(** * remove *)

Lemma ids_with_disjoint o x k1 k2 :
  NoDup (ids o) -> In x (ids_with k1 o) -> In x (ids_with k2 o) -> k1 = k2.
Proof.
  intros Hnd H1 H2. apply ids_with_in in H1, H2. destruct H1 as [f [Hf <-]], H2 as [g [Hg <-]].
  now rewrite (node_unique _ _ _ _ Hnd Hf Hg).
Qed.

Lemma filter_keep_other o R k k' :
  NoDup (ids o) -> (forall x, In x R -> In x (ids_with k o)) -> k' <> k ->
  filter (keep_out R) (ids_with k' o) = ids_with k' o.
Proof.
  intros Hnd HR Hne. apply filter_all. intros x Hx. unfold keep_out. apply negb_true_iff.
  destruct (existsb (N.eqb x) R) eqn:Ex; [|reflexivity]. exfalso.
  apply existsb_exists in Ex. destruct Ex as [y [Hy Exy]]. apply N.eqb_eq in Exy. subst y.
  apply Hne. eapply ids_with_disjoint; [exact Hnd|exact Hx|]. now apply HR.
Qed.

Lemma remove_first_filter_N x l :
  NoDup l -> remove_first (N.eqb x) l = filter (fun y => negb (y =? x)%N) l.
Proof.
  induction l as [|a l IH]; [reflexivity|]. intros Hnd. inversion Hnd as [|? ? Hni Hnd']; subst.
  cbn [remove_first filter]. rewrite (N.eqb_sym a x). destruct (N.eqb_spec x a) as [->|Hne]; cbn [negb].
  - symmetry. apply filter_all. intros y Hy. apply negb_true_iff, N.eqb_neq. intros ->. contradiction.
  - f_equal. now apply IH.
Qed.

Lemma ids_remove_node id o :
  NoDup (ids o) -> ids (remove_node id o) = filter (fun y => negb (y =? id)%N) (ids o).
Proof.
  intros H. rewrite remove_node_filter by exact H.
  exact (ids_filter (fun y => negb (y =? id)%N) o).
Qed.

Lemma ids_with_remove_node k id o :
  NoDup (ids o) -> ids_with k (remove_node id o) = filter (fun y => negb (y =? id)%N) (ids_with k o).
Proof.
  intros H. rewrite remove_node_filter by exact H.
  exact (ids_with_filter k (fun y => negb (y =? id)%N) o).
Qed.

Theorem d_remove_wf d k d' : DWf d -> d_remove d k = Ok d' -> DWf d'.
Proof.
  intros Hd H. destruct Hd as [H1 H2 H3 H4]. unfold d_remove in H.
  assert (Hu : unpack_key k false = Ok (key_name k, key_idx k)) by (destruct k; reflexivity).
  rewrite Hu in H. cbn [bind] in H. set (key := lower (key_name k)) in *.
  pose proof (H4 key) as Hkey.
  destruct (assoc_get key (d_byname d)) as [fl|] eqn:Eo; [|discriminate].
  assert (Hids : ids_with key (d_order d) = fl /\ fl <> []).
  { destruct (ids_with key (d_order d)) as [|a b]; [discriminate|]. cbn in Hkey. injection Hkey as ->.
    split; [reflexivity|discriminate]. }
  destruct Hids as [Hids Hne].
  assert (Hndf : NoDup fl) by (rewrite <- Hids; now apply NoDup_ids_with).
  destruct (key_idx k) as [i|] eqn:Ei.
  - destruct (py_index fl i) as [node|] eqn:Ep; [|discriminate]. injection H as <-.
    assert (Hnode : In node fl).
    { unfold py_index in Ep. destruct (_ || _); [discriminate|]. now apply nth_error_In in Ep. }
    constructor; cbn [d_order d_byname d_next].
    + rewrite ids_remove_node by exact H1. now apply NoDup_filter.
    + intros j Hj. rewrite ids_remove_node in Hj by exact H1. apply filter_In in Hj. now apply H2.
    + destruct (length fl =? 1)%nat; [now apply nodupb_assoc_del|now apply nodupb_assoc_set].
    + intros k'. rewrite ids_with_remove_node by exact H1.
      destruct (str_eqb k' key) eqn:E.
      * apply str_eqb_eq in E. subst k'. rewrite Hids, <- remove_first_filter_N by exact Hndf.
        destruct (length fl =? 1)%nat eqn:El.
        -- rewrite assoc_get_del, str_eqb_refl by exact H3.
           destruct fl as [|a [|b fl]]; try discriminate. destruct Hnode as [->|[]].
           cbn [remove_first]. now rewrite N.eqb_refl.
        -- rewrite assoc_get_set, str_eqb_refl. symmetry. apply nonempty_opt_some.
           destruct fl as [|a [|b fl]]; try discriminate; [congruence|].
           cbn [remove_first]. destruct (node =? a)%N; discriminate.
      * assert (Hk' : k' <> key) by (intros ->; now rewrite str_eqb_refl in E).
        assert (Hf : filter (fun y => negb (y =? node)%N) (ids_with k' (d_order d)) = ids_with k' (d_order d)).
        { apply filter_all. intros x Hx. apply negb_true_iff, N.eqb_neq. intros ->. apply Hk'.
          eapply ids_with_disjoint; [exact H1|exact Hx|]. now rewrite Hids. }
        rewrite Hf. destruct (length fl =? 1)%nat.
        -- now rewrite assoc_get_del, E by exact H3.
        -- now rewrite assoc_get_set, E.
  - injection H as <-. rewrite fold_remove_filter by exact H1.
    change (fun nf : N * field => keep_out fl (fst nf)) with (fun nf : N * field => (keep_out fl) (fst nf)).
    constructor; cbn [d_order d_byname d_next].
    + rewrite ids_filter. now apply NoDup_filter.
    + intros j Hj. rewrite ids_filter in Hj. apply filter_In in Hj. now apply H2.
    + now apply nodupb_assoc_del.
    + intros k'. rewrite ids_with_filter, assoc_get_del by exact H3.
      destruct (str_eqb k' key) eqn:E.
      * apply str_eqb_eq in E. subst k'. rewrite Hids.
        rewrite filter_none; [reflexivity|]. intros x Hx. now apply keep_out_in.
      * rewrite (filter_keep_other _ fl key); [apply H4|exact H1| |].
        -- intros x Hx. now rewrite Hids.
        -- intros ->. now rewrite str_eqb_refl in E.
Qed.

(** * what set and remove do to the field list when no name is repeated *)

Theorem d_set_kvpair_nodup d k v d' :
  DWf d -> nodup_names (map snd (d_order d)) = true ->
  d_set_kvpair d k v = Ok d' ->
  name_eqb (key_name k) (f_name v) = true /\
  ((exists o1 id f o2,
      d_order d = o1 ++ (id, f) :: o2 /\ lname f = lower (key_name k)
      /\ d_get d k true = LOk (Some f)
      /\ d_order d' = o1 ++ (id, v) :: o2)
   \/ (ids_with (lower (key_name k)) (d_order d) = []
       /\ d_get d k true = LOk None
       /\ d_order d' = d_ensure_nl (d_order d) ++ [(d_next d, v)])).
Proof.
  intros Hd Hnd H. pose proof Hd as [H1 H2 H3 H4]. unfold d_set_kvpair in H.
  assert (Hu : unpack_key k false = Ok (key_name k, key_idx k)) by (destruct k; reflexivity).
  rewrite Hu in H. cbn [bind] in H.
  destruct (name_eqb (key_name k) (f_name v)) eqn:Hn; [|discriminate]. cbn [negb] in H.
  split; [reflexivity|].
  assert (Hkeyeq : lower (f_name v) = lower (key_name k)).
  { unfold name_eqb in Hn. apply str_eqb_eq in Hn. now symmetry. }
  rewrite Hkeyeq in H. rewrite H4 in H.
  destruct (d_get_nodup d k true Hd Hnd) as [[Hnil Hget]|[o1 [id [f [o2 [Ho [Hf [Hone Hget]]]]]]]].
  - right. rewrite Hnil in H. cbn [nonempty_opt] in H.
    destruct (match key_idx k with Some i => negb (i =? 0)%Z | None => false end); [discriminate|].
    injection H as <-. now repeat split.
  - left. rewrite Hone in H. cbn [nonempty_opt] in H. unfold idx_hits in Hget.
    destruct (key_idx k) as [i|] eqn:Ei.
    + rewrite py_index_single in H. destruct ((i =? 0)%Z || (i =? -1)%Z); [|discriminate].
      injection H as <-. exists o1, id, f, o2. cbn [d_order]. repeat split; try assumption.
      rewrite Ho. apply set_node_val_split. now rewrite <- Ho.
    + injection H as <-. exists o1, id, f, o2. cbn [d_order fold_left]. repeat split; try assumption.
      rewrite Ho. apply set_node_val_split. now rewrite <- Ho.
Qed.

Theorem d_remove_nodup d k d' :
  DWf d -> nodup_names (map snd (d_order d)) = true ->
  d_remove d k = Ok d' ->
  exists o1 id f o2,
    d_order d = o1 ++ (id, f) :: o2 /\ lname f = lower (key_name k) /\ d_order d' = o1 ++ o2.
Proof.
  intros Hd Hnd H. pose proof Hd as [H1 H2 H3 H4]. unfold d_remove in H.
  assert (Hu : unpack_key k false = Ok (key_name k, key_idx k)) by (destruct k; reflexivity).
  rewrite Hu in H. cbn [bind] in H. rewrite H4 in H.
  destruct (d_get_nodup d k true Hd Hnd) as [[Hnil _]|[o1 [id [f [o2 [Ho [Hf [Hone _]]]]]]]].
  - rewrite Hnil in H. discriminate.
  - rewrite Hone in H. cbn [nonempty_opt] in H. exists o1, id, f, o2.
    split; [exact Ho|]. split; [exact Hf|].
    destruct (key_idx k) as [i|].
    + rewrite py_index_single in H. destruct ((i =? 0)%Z || (i =? -1)%Z); [|discriminate].
      injection H as <-. cbn [d_order]. rewrite Ho. apply remove_node_split. now rewrite <- Ho.
    + injection H as <-. cbn [d_order fold_left]. rewrite Ho. apply remove_node_split. now rewrite <- Ho.
Qed.

(** un-indexed and index-0 lookups coincide when no name is repeated *)
Lemma ids_with_at_most_one k o id rest :
  nodup_names (map snd o) = true -> ids_with k o = id :: rest -> rest = [].
Proof.
  intros Hnd E. destruct (ids_with_first _ _ _ _ E) as [o1 [f [o2 [Ho [Hf _]]]]].
  rewrite Ho in Hnd. pose proof (ids_with_single _ _ _ _ Hnd) as Hs. rewrite Hf, <- Ho, E in Hs.
  now injection Hs.
Qed.

Lemma d_get_str_idx0 d n ug :
  DWf d -> nodup_names (map snd (d_order d)) = true ->
  d_get d (KIdx n 0) ug = d_get d (KStr n) ug.
Proof.
  intros Hd Hnd. rewrite !(d_get_eq _ _ _ Hd). cbn [key_name key_idx].
  destruct (ids_with (lower n) (d_order d)) as [|id rest] eqn:E; [reflexivity|].
  rewrite (ids_with_at_most_one _ _ _ _ Hnd E). now rewrite !resolve_single_one.
Qed.
