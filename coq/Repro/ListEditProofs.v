(** Proofs for C11, part 2: edits of a whitespace-separated list through the view.
    - an invariant on the items of a view (kinds follow the line automaton of ListProofs,
      texts are well-formed, comment tokens are complete lines);
    - interpret establishes it, append / remove / replace preserve it and act on the
      values as the corresponding Python list operations;
    - the text written back by _update_field is again a value text of the property's
      domain, re-parses to itself, and reads back as exactly the values of the view. *)
From Verif Require Import Lib.Base Lib.PyStr Gen.PyChars Repro.ListView Repro.ListSpec
  Repro.ListLemmas Repro.ListProofs.
From Coq Require Import Lia.

(** * Items of a whitespace-separated list *)

Definition item_sp (it : item) : bool :=
  match it with
  | IT t => negb (is_val t)
  | IV [t] _ => is_val t
  | IV _ _ => false
  end.

Definition flat (its : list item) : list tok := flat_map item_toks its.

Lemma flat_app a b : flat (a ++ b) = flat a ++ flat b.
Proof. apply flat_map_app. Qed.

Lemma flat_cons it its : flat (it :: its) = item_toks it ++ flat its.
Proof. reflexivity. Qed.

Lemma items_text_flat its : items_text its = toks_text (flat its).
Proof.
  induction its as [|it its IH]; [reflexivity|].
  rewrite items_text_cons, flat_cons, toks_text_app, IH. reflexivity.
Qed.

Lemma item_sp_cases it : item_sp it = true ->
  (exists t, it = IT t /\ is_val t = false) \/ (exists t f, it = IV [t] f /\ is_val t = true).
Proof.
  destruct it as [t|ts f]; simpl; intros H.
  - left. exists t. split; [reflexivity|]. now apply negb_true_iff.
  - right. destruct ts as [|t [|t2 ts]]; try discriminate. now exists t, f.
Qed.

Lemma render_sp_item t f : is_val t = true -> render (IV [t] f) = tx t.
Proof.
  intros H. unfold render. destruct f.
  - unfold toks_text. simpl. now rewrite app_nil_r.
  - cbn [item_toks filter]. rewrite is_val_nc by assumption. cbn [negb]. unfold toks_text. simpl. now rewrite app_nil_r.
Qed.

Lemma values_of_flat its : forallb item_sp its = true -> values_of its = vals (flat its).
Proof.
  induction its as [|it its IH]; [reflexivity|]. cbn [forallb]. intros H.
  apply andb_true_iff in H. destruct H as [Hi H]. specialize (IH H).
  unfold values_of, vals in *. rewrite flat_cons, filter_app, map_app, <- IH.
  destruct (item_sp_cases it Hi) as [[t [-> Hv]]|[t [f [-> Hv]]]].
  - cbn [filter is_value item_toks]. rewrite Hv. reflexivity.
  - cbn [filter is_value item_toks map]. rewrite Hv. cbn [map app]. now rewrite render_sp_item.
Qed.

Lemma values_of_cons_IT t its : values_of (IT t :: its) = values_of its.
Proof. reflexivity. Qed.

Lemma values_of_nil : values_of [] = [].
Proof. reflexivity. Qed.

(** * The invariant *)

Definition ok_cont (c : str) : Prop := c = [SP] \/ c = [TAB].

Definition inv_items (its : list item) : Prop :=
  forallb item_sp its = true
  /\ Forall (fun t => tok_ok_sp t = true) (flat its)
  /\ forallb com_lf (flat its) = true
  /\ exists s', arun s0 (flat its) = Some s' /\ s_ok s' || s_lf s' = true.

Definition inv (vw : view) : Prop :=
  inv_items (v_items vw)
  /\ match v_cont vw with Some c => ok_cont c | None => True end.

(** ** interpret establishes it *)

Lemma flat_sp ts : flat (map sp_item ts) = ts.
Proof.
  induction ts as [|t ts IH]; [reflexivity|]. cbn [map]. rewrite flat_cons, IH.
  unfold sp_item. destruct (is_val t); reflexivity.
Qed.

Lemma item_sp_sp ts : forallb item_sp (map sp_item ts) = true.
Proof.
  induction ts as [|t ts IH]; [reflexivity|]. cbn [map forallb]. rewrite IH, andb_true_r.
  unfold sp_item. destruct (is_val t) eqn:E; cbn [item_sp]; now rewrite E.
Qed.

Lemma map_snd_number n l : map snd (number_from n l) = l.
Proof. revert n. induction l as [|x l IH]; intros n; [reflexivity|]. simpl. now rewrite IH. Qed.

Lemma Forall_removelast {A} (P : A -> Prop) l : Forall P l -> Forall P (removelast l).
Proof.
  intros H. destruct l as [|a l] using rev_ind; [constructor|].
  rewrite removelast_snoc. apply Forall_app in H. tauto.
Qed.

Definition drop_nl (its : list item) : list item :=
  match last_opt its with
  | Some (IT t) => if kind_eqb (tk t) KNl then removelast its else its
  | _ => its
  end.

Lemma mk_view_eq its : its <> [] ->
  mk_view its = Ok (View (number_from 0 (drop_nl its)) (N.of_nat (length (drop_nl its))) None false []).
Proof. destruct its; [congruence|reflexivity]. Qed.

Lemma interpret_inv v : value_ok v = true -> closed_value v = true ->
  exists vw, interpret Space v = Ok vw /\ inv vw /\ view_values vw = split_spec false v
    /\ v_changed vw = false.
Proof.
  intros Hv Hc. destruct (tokenize_sp_ok v Hv) as [ts [s' [Htok [Htx [Hok [Hdc [Hcl [Hrun Hfin]]]]]]]].
  rewrite closed_value_open in Hc. apply negb_true_iff in Hc. specialize (Hcl Hc).
  destruct (sp_vals ts s0 s' Hok Hrun) as [Hvals _].
  unfold interpret, parse_str. rewrite Htok. cbn [bind]. rewrite Htx, Nat.eqb_refl. cbn [negb].
  rewrite parse_stream_space by lia. cbn [bind]. rewrite items_text_sp, Htx, Nat.eqb_refl. cbn [negb].
  assert (Hne : ts <> []).
  { intros ->. unfold toks_text in Htx. simpl in Htx. subst v. discriminate. }
  cbn [bind]. rewrite mk_view_eq by (destruct ts; [congruence|discriminate]).
  eexists. split; [reflexivity|].
  unfold inv, view_values, v_items. cbn [v_nodes v_cont v_changed]. rewrite map_snd_number.
  unfold drop_nl. split; [|split; [|reflexivity]].
  - split; [|exact I].
    (* the final newline token is dropped *)
    destruct ts as [|t0 ts0] using rev_ind; [congruence|]. clear IHts0.
    rewrite map_app. cbn [map]. rewrite last_opt_snoc.
    assert (Hbase : inv_items (map sp_item (ts0 ++ [t0]))).
    { unfold inv_items. rewrite flat_sp. splits; try assumption; [apply item_sp_sp|]. now exists s'. }
    rewrite map_app in Hbase. cbn [map] in Hbase.
    destruct (is_val t0) eqn:Ev.
    { assert (E : sp_item t0 = IV [t0] false) by (unfold sp_item; now rewrite Ev).
      rewrite E in *. exact Hbase. }
    assert (E : sp_item t0 = IT t0) by (unfold sp_item; now rewrite Ev).
    rewrite E in *.
    destruct (kind_eqb (tk t0) KNl) eqn:Ek; [|exact Hbase].
    rewrite removelast_snoc. unfold inv_items. rewrite flat_sp.
    apply Forall_app in Hok. destruct Hok as [Hok0 _].
    rewrite forallb_app in Hcl. apply andb_true_iff in Hcl. destruct Hcl as [Hcl0 _].
    splits; try assumption; [apply item_sp_sp|].
    rewrite arun_app in Hrun. destruct (arun s0 ts0) as [s1|] eqn:E1; [|discriminate].
    exists s1. split; [reflexivity|].
    cbn [arun] in Hrun. assert (Hk : tk t0 = KNl) by (destruct (tk t0); try discriminate; reflexivity).
    rewrite Hk in Hrun. cbn [astep] in Hrun.
    destruct (s_lf s1 || negb (s_ok s1)) eqn:E2; [discriminate|].
    apply orb_false_iff in E2. destruct E2 as [_ E2]. apply negb_false_iff in E2. now rewrite E2.
  - (* the values *)
    unfold split_spec. change py_isspace with isws. rewrite <- Hdc, Hvals, <- values_of_sp.
    destruct (last_opt (map sp_item ts)) as [[t|tt f]|] eqn:El; try reflexivity.
    destruct (kind_eqb (tk t) KNl); [|reflexivity]. now apply values_of_removelast with t.
Qed.

(** * Pushing tokens *)

(** the part of the invariant that also holds between the pushes of one operation *)
Definition P (its : list item) (s' : ast) : Prop :=
  forallb item_sp its = true
  /\ Forall (fun t => tok_ok_sp t = true) (flat its)
  /\ forallb com_lf (flat its) = true
  /\ arun s0 (flat its) = Some s'.

Definition cache_ok (vw : view) : Prop :=
  match v_cont vw with Some c => ok_cont c | None => True end.

Lemma inv_P vw : inv vw <-> (exists s', P (v_items vw) s' /\ s_ok s' || s_lf s' = true) /\ cache_ok vw.
Proof.
  unfold inv, inv_items, P, cache_ok. split.
  - intros [[H1 [H2 [H3 [s' [H4 H5]]]]] H6]. split; [exists s'; tauto|assumption].
  - intros [[s' [[H1 [H2 [H3 H4]]] H5]] H6]. split; [|assumption]. splits; try assumption. now exists s'.
Qed.

Lemma v_items_push vw it : v_items (push vw it) = v_items vw ++ [it].
Proof. unfold v_items, push. cbn [v_nodes]. now rewrite map_app. Qed.

Lemma P_push_IT its s' t s1 :
  P its s' -> is_val t = false -> tok_ok_sp t = true -> com_lf t = true ->
  astep s' (tk t) = Some s1 -> P (its ++ [IT t]) s1.
Proof.
  intros [H1 [H2 [H3 H4]]] Hv Hok Hc Hs. unfold P. rewrite flat_app. cbn [flat flat_map item_toks app].
  splits.
  - rewrite forallb_app, H1. cbn [forallb item_sp]. now rewrite Hv.
  - apply Forall_app. split; [assumption|]. constructor; [assumption|constructor].
  - rewrite forallb_app, H3. cbn [forallb]. now rewrite Hc.
  - rewrite arun_app, H4. cbn [arun]. now rewrite Hs.
Qed.

Lemma is_val_com_lf t : is_val t = true -> com_lf t = true.
Proof. intros H. unfold com_lf. now rewrite is_val_nc. Qed.

Lemma P_push_IV its s' t f s1 :
  P its s' -> is_val t = true -> tok_ok_sp t = true ->
  astep s' (tk t) = Some s1 -> P (its ++ [IV [t] f]) s1.
Proof.
  intros [H1 [H2 [H3 H4]]] Hv Hok Hs. unfold P. rewrite flat_app. cbn [flat flat_map item_toks app].
  splits.
  - rewrite forallb_app, H1. cbn [forallb item_sp]. now rewrite Hv.
  - apply Forall_app. split; [assumption|]. constructor; [assumption|constructor].
  - rewrite forallb_app, H3. cbn [forallb]. rewrite is_val_com_lf by assumption. reflexivity.
  - rewrite arun_app, H4. cbn [arun]. now rewrite Hs.
Qed.

(** ** the state after the last token *)

Lemma word_not_ends_lf x : forallb notws x = true -> ends_with_lf x = false.
Proof. intros H. apply no_lb_not_ends_lf. now apply notws_no_lb. Qed.

Definition lf_kind (k : kind) : bool := match k with KNl | KCom => true | _ => false end.

Lemma tok_ends_lf t : tok_ok_sp t = true -> com_lf t = true -> ends_with_lf (tx t) = lf_kind (tk t).
Proof.
  unfold tok_ok_sp, com_lf, is_comment_tok. destruct t as [k x]. cbn [tk tx].
  destruct k; cbn [kind_eqb lf_kind]; intros H Hc; try discriminate.
  - apply andb_true_iff in H. destruct H as [_ H]. now apply word_not_ends_lf.
  - apply andb_true_iff in H. destruct H as [_ H]. now apply no_lb_not_ends_lf.
  - apply andb_true_iff in H. destruct H as [_ H]. now apply no_lb_not_ends_lf.
  - exact Hc.
  - apply orb_true_iff in H. destruct H as [H|H]; apply str_eqb_eq in H; subst x; reflexivity.
  - apply str_eqb_eq in H. subst x. reflexivity.
Qed.

Lemma astep_flags s k s1 : astep s k = Some s1 ->
  s_lf s1 = lf_kind k /\ s_pv s1 = kind_eqb k KVal.
Proof.
  destruct k; cbn [astep lf_kind kind_eqb].
  - destruct (s_lf s || s_pv s); [discriminate|]. now intros [= <-].
  - destruct (s_lf s); [discriminate|]. now intros [= <-].
  - destruct (s_lf s); [discriminate|]. now intros [= <-].
  - discriminate.
  - destruct (s_lf s); [|discriminate]. now intros [= <-].
  - destruct (s_lf s); [|discriminate]. now intros [= <-].
  - destruct (s_lf s || negb (s_ok s)); [discriminate|]. now intros [= <-].
Qed.

Lemma item_text_IT t : item_text (IT t) = tx t.
Proof. unfold item_text, toks_text. simpl. now rewrite app_nil_r. Qed.

Lemma item_text_IV1 t f : item_text (IV [t] f) = tx t.
Proof. unfold item_text, toks_text. simpl. now rewrite app_nil_r. Qed.

Definition last_lf (its : list item) : bool :=
  match last_opt its with Some it => item_ends_lf it | None => false end.
Definition last_val (its : list item) : bool :=
  match last_opt its with Some it => is_value it | None => false end.

Lemma tail_state its s' : P its s' -> s_lf s' = last_lf its /\ s_pv s' = last_val its.
Proof.
  intros [H1 [H2 [H3 H4]]]. unfold last_lf, last_val.
  destruct its as [|it its0] using rev_ind.
  - simpl in H4. injection H4 as <-. split; reflexivity.
  - clear IHits0. rewrite last_opt_snoc. rewrite flat_app in *.
    rewrite forallb_app in H1, H3. apply andb_true_iff in H1. apply andb_true_iff in H3.
    destruct H1 as [_ Hi]. destruct H3 as [_ Hc]. apply Forall_app in H2. destruct H2 as [_ Ho].
    cbn [forallb] in Hi. rewrite andb_true_r in Hi.
    rewrite arun_app in H4. destruct (arun s0 (flat its0)) as [s1|]; [|discriminate].
    destruct (item_sp_cases it Hi) as [[t [-> Hv]]|[t [f [-> Hv]]]];
      cbn [flat flat_map item_toks app] in *; cbn [arun] in H4;
      (destruct (astep s1 (tk t)) as [s2|] eqn:Es; [|discriminate]); injection H4 as <-;
      destruct (astep_flags _ _ _ Es) as [F1 F2];
      inversion Ho as [|? ? Hok _]; subst; cbn [forallb] in Hc; rewrite andb_true_r in Hc;
      unfold item_ends_lf.
    + rewrite item_text_IT, tok_ends_lf by assumption. split; [assumption|].
      rewrite F2. cbn [is_value]. unfold is_val in Hv. exact Hv.
    + rewrite item_text_IV1, tok_ends_lf by assumption. split; [assumption|].
      rewrite F2. cbn [is_value]. unfold is_val in Hv. exact Hv.
Qed.

(** ** the continuation character *)

Lemma cont_char_ok vw s' : P (v_items vw) s' -> cache_ok vw ->
  ok_cont (fst (cont_char vw))
  /\ v_nodes (snd (cont_char vw)) = v_nodes vw
  /\ v_next (snd (cont_char vw)) = v_next vw
  /\ v_changed (snd (cont_char vw)) = v_changed vw
  /\ cache_ok (snd (cont_char vw)).
Proof.
  intros [H1 [H2 [H3 H4]]] Hc. unfold cont_char, cache_ok in *.
  destruct (v_cont vw) as [c|] eqn:Ec.
  - cbn [fst snd]. rewrite Ec. splits; auto.
  - set (f := fun it => match it with IT t => kind_eqb (tk t) KCont | IV _ _ => false end).
    assert (G : ok_cont (match List.find f (v_items vw) with Some it => item_text it | None => [SP] end)).
    { destruct (List.find f (v_items vw)) as [it|] eqn:Ef; [|now left].
      apply find_some in Ef. destruct Ef as [Hin Hf]. destruct it as [t|]; [|discriminate].
      rewrite item_text_IT. rewrite Forall_forall in H2.
      assert (Ht : tok_ok_sp t = true).
      { apply H2. unfold flat. apply in_flat_map. exists (IT t). split; [assumption|now left]. }
      unfold tok_ok_sp in Ht. subst f. cbn beta iota in Hf.
      destruct (tk t); try discriminate. apply orb_true_iff in Ht.
      destruct Ht as [Ht|Ht]; apply str_eqb_eq in Ht; [now left|now right]. }
    cbn [fst snd v_nodes v_next v_changed v_cont]. splits; auto.
Qed.

Definition same_but_items (vw vw' : view) : Prop :=
  v_changed vw' = v_changed vw.

(** _append_continuation_line_token_if_necessary *)
Lemma append_cont_P vw s' : P (v_items vw) s' -> cache_ok vw ->
  exists s1, P (v_items (append_cont_if_necessary vw)) s1
    /\ cache_ok (append_cont_if_necessary vw)
    /\ s_lf s1 = false /\ (s_pv s1 = true -> s_pv s' = true)
    /\ (s_ok s' = true -> s_lf s' = false -> s_ok s1 = true)
    /\ values_of (v_items (append_cont_if_necessary vw)) = values_of (v_items vw)
    /\ v_changed (append_cont_if_necessary vw) = v_changed vw.
Proof.
  intros HP Hc. destruct (tail_state _ _ HP) as [T1 T2].
  unfold append_cont_if_necessary. unfold tail_ends_lf. fold (last_lf (v_items vw)).
  rewrite <- T1. destruct (s_lf s') eqn:El.
  - destruct (cont_char_ok vw s' HP Hc) as [C1 [C2 [C3 [C4 C5]]]].
    destruct (cont_char vw) as [c vw1]. cbn [fst snd] in *.
    assert (Hit : v_items vw1 = v_items vw) by (unfold v_items; now rewrite C2).
    exists (AST false false false). rewrite v_items_push, Hit. splits.
    + apply P_push_IT with s'; try assumption; try reflexivity.
      * unfold tok_ok_sp. cbn [tk tx]. destruct C1 as [-> | ->]; reflexivity.
      * cbn [tk astep]. now rewrite El.
    + unfold cache_ok in *. exact C5.
    + reflexivity.
    + discriminate.
    + intros _ H. discriminate.
    + rewrite values_of_app. unfold values_of at 2. simpl. now rewrite app_nil_r.
    + exact C4.
  - exists s'. splits; auto.
Qed.

(** * append *)

Lemma v_items_set_changed vw : v_items (set_changed vw) = v_items vw.
Proof. reflexivity. Qed.

Lemma append_separator_P b vw s' : P (v_items vw) s' -> cache_ok vw ->
  exists s1, P (v_items (append_separator Space b vw)) s1
    /\ cache_ok (append_separator Space b vw)
    /\ s_lf s1 = false /\ s_pv s1 = false
    /\ values_of (v_items (append_separator Space b vw)) = values_of (v_items vw).
Proof.
  intros HP Hc. unfold append_separator.
  destruct (append_cont_P (set_changed vw) s' HP Hc) as [s1 [HP1 [Hc1 [L1 [_ [_ [V1 _]]]]]]].
  set (vw1 := append_cont_if_necessary (set_changed vw)) in *.
  exists (AST false false (s_ok s1)). rewrite v_items_push. splits.
  - apply P_push_IT with s1; try assumption; try reflexivity. cbn [tk astep]. now rewrite L1.
  - exact Hc1.
  - reflexivity.
  - reflexivity.
  - rewrite values_of_app, V1. unfold values_of at 2. simpl. now rewrite app_nil_r.
Qed.

Lemma needs_sep_false_last its : needs_separator Space (rev its) = false -> last_val its = false.
Proof.
  unfold last_val. destruct its as [|it its0] using rev_ind; [reflexivity|].
  rewrite last_opt_snoc, rev_app_distr. simpl. destruct (is_value it); [discriminate|reflexivity].
Qed.

Definition word (x : str) : bool := nonempty x && forallb notws x.

Lemma v_nodes_nil_items vw : v_nodes vw = [] <-> v_items vw = [].
Proof. unfold v_items. destruct (v_nodes vw); simpl; split; congruence. Qed.

Lemma append_value_inv x vw : inv vw -> word x = true ->
  inv (append_value Space (IV [Tok KVal x] true) vw)
  /\ view_values (append_value Space (IV [Tok KVal x] true) vw) = view_values vw ++ [x]
  /\ v_changed (append_value Space (IV [Tok KVal x] true) vw) = true.
Proof.
  intros Hinv Hw. apply inv_P in Hinv. destruct Hinv as [[s' [HP Hfin]] Hc].
  unfold append_value.
  (* phase A: a separator if one is needed *)
  assert (A : exists vwA sA, (match v_nodes vw with
                              | [] => push vw (IT (Tok KWs [SP]))
                              | _ => if needs_separator Space (rev (v_items vw))
                                     then append_separator Space true vw else vw
                              end) = vwA
                /\ P (v_items vwA) sA /\ cache_ok vwA /\ s_pv sA = false
                /\ values_of (v_items vwA) = values_of (v_items vw)).
  { destruct (v_nodes vw) as [|n0 ns] eqn:En.
    - assert (Hi : v_items vw = []) by (apply v_nodes_nil_items; assumption).
      eexists. exists (AST false false true). split; [reflexivity|]. rewrite v_items_push. splits.
      + apply P_push_IT with s'; try assumption; try reflexivity.
        destruct HP as [_ [_ [_ H4]]]. rewrite Hi in H4. simpl in H4. injection H4 as <-. reflexivity.
      + exact Hc.
      + reflexivity.
      + rewrite values_of_app. unfold values_of at 2. simpl. now rewrite app_nil_r.
    - destruct (needs_separator Space (rev (v_items vw))) eqn:Ens.
      + destruct (append_separator_P true vw s' HP Hc) as [s1 [HP1 [Hc1 [L1 [V1 Hv1]]]]].
        eexists. exists s1. split; [reflexivity|]. splits; assumption.
      + exists vw, s'. split; [reflexivity|]. splits; try assumption; try reflexivity.
        destruct (tail_state _ _ HP) as [_ T2]. rewrite T2. now apply needs_sep_false_last. }
  destruct A as [vwA [sA [-> [HPA [HcA [PvA VA]]]]]].
  destruct (append_cont_P vwA sA HPA HcA) as [s1 [HP1 [Hc1 [L1 [Pv1 [_ [V1 _]]]]]]].
  set (vw1 := append_cont_if_necessary vwA) in *.
  assert (Hs1 : s_pv s1 = false).
  { destruct (s_pv s1) eqn:E; [|reflexivity]. rewrite Pv1 in PvA by reflexivity. discriminate. }
  assert (Hok : tok_ok_sp (Tok KVal x) = true) by exact Hw.
  assert (HPf : P (v_items (push (set_changed vw1) (IV [Tok KVal x] true))) (AST false true true)).
  { rewrite v_items_push, v_items_set_changed.
    apply P_push_IV with s1; try assumption; try reflexivity. cbn [tk astep]. now rewrite L1, Hs1. }
  splits.
  - apply inv_P. split; [|exact Hc1]. eexists. split; [exact HPf|reflexivity].
  - unfold view_values. rewrite v_items_push, v_items_set_changed, values_of_app, V1, VA.
    f_equal. unfold values_of. cbn [filter is_value map]. now rewrite render_sp_item.
  - reflexivity.
Qed.

(** the value factory on a word *)
Lemma value_factory_word x : word x = true -> value_factory Space x = Ok (IV [Tok KVal x] true).
Proof.
  intros Hw. unfold word in Hw. apply andb_true_iff in Hw. destruct Hw as [Hne Hw].
  destruct x as [|c x']; [discriminate|]. set (x := c :: x') in *.
  assert (Hlb : no_lb x = true) by now apply notws_no_lb.
  assert (Hc : isws c = false).
  { cbn [forallb] in Hw. apply andb_true_iff in Hw. destruct Hw as [Hw _]. now apply negb_true_iff in Hw. }
  assert (Haw : forallb isws x = false) by (subst x; cbn [forallb]; now rewrite Hc).
  assert (Htok : tokenize Space x = Ok [Tok KVal x]).
  { unfold tokenize. unfold all_ws. rewrite Haw, andb_false_r.
    assert (Hl : lf_only x = true).
    { unfold lf_only. unfold no_lb in Hlb. rewrite forallb_forall in *. intros a Ha. now rewrite Hlb. }
    rewrite splitlines_lf_only by assumption. rewrite lines_lf_last by (try apply no_lb_no_lf; try assumption; subst x; discriminate).
    cbn [lines_tokens line_tokens negb andb bind]. rewrite no_lb_not_ends_lf by assumption.
    cbn [line_func]. unfold ws_line_tokens. rewrite Haw, andb_false_r.
    subst x. cbn [ws_finditer length]. rewrite (span_cons_false isws c x' Hc).
    rewrite (span_forall_nil notws (c :: x') Hw). cbn iota. cbn [span].
    destruct (length x'); cbn [ws_finditer span bind flat_map opt_tok app]; reflexivity. }
  unfold value_factory. fold x. unfold parse_str. rewrite Htok. cbn [bind].
  assert (Ht : toks_text [Tok KVal x] = x) by (unfold toks_text; simpl; now rewrite app_nil_r).
  rewrite Ht, Nat.eqb_refl. cbn [negb length parse_stream is_val tk kind_eqb bind].
  assert (Hi : items_text [IV [Tok KVal x] false] = x).
  { unfold items_text, item_text. cbn [map concat item_toks]. rewrite Ht. now rewrite app_nil_r. }
  rewrite Hi, Nat.eqb_refl. cbn [negb bind]. rewrite Ht, Nat.eqb_refl. subst x. reflexivity.
Qed.

Lemma good_value_word x : good_value false x = true -> word x = true.
Proof.
  unfold good_value, word. intros H. apply andb_true_iff in H. destruct H as [H H3].
  apply andb_true_iff in H. destruct H as [H1 _].
  assert (E : nonempty x = nonempty_str x) by (destruct x; reflexivity). rewrite E, H1. cbn [andb].
  apply negb_true_iff in H3. rewrite forallb_forall. intros c Hc. unfold notws.
  destruct (py_isspace c) eqn:Ec; [|reflexivity].
  assert (existsb py_isspace x = true) by (apply existsb_exists; now exists c). congruence.
Qed.

Lemma append_inv x vw : inv vw -> good_value false x = true ->
  exists vw', append Space x vw = Ok vw' /\ inv vw'
    /\ view_values vw' = view_values vw ++ [x] /\ v_changed vw' = true.
Proof.
  intros Hinv Hg. apply good_value_word in Hg. unfold append.
  rewrite value_factory_word by assumption. cbn [bind].
  destruct (append_value_inv x vw Hinv Hg) as [H1 [H2 H3]]. eexists. split; [reflexivity|]. auto.
Qed.

(** * Finding a value; the Python list operations on the values *)

Definition matches (x : str) (it : item) : bool := is_value it && str_eqb (render it) x.

Lemma find_value_some x : forall its i0 i,
  find_value x its i0 = Some i ->
  exists pre it post, its = pre ++ it :: post /\ i = i0 + length pre
    /\ matches x it = true /\ forallb (fun p => negb (matches x p)) pre = true.
Proof.
  induction its as [|it its IH]; intros i0 i H; [discriminate|].
  cbn [find_value] in H. fold (matches x it) in H. destruct (matches x it) eqn:Em.
  - injection H as <-. exists [], it, its. splits; auto; simpl; lia.
  - destruct (IH _ _ H) as [pre [it' [post [-> [-> [Hm Hp]]]]]].
    exists (it :: pre), it', post. splits; auto.
    + simpl. lia.
    + cbn [forallb]. now rewrite Em, Hp.
Qed.

Lemma find_value_none x : forall its i0,
  find_value x its i0 = None -> forallb (fun p => negb (matches x p)) its = true.
Proof.
  induction its as [|it its IH]; intros i0 H; [reflexivity|].
  cbn [find_value] in H. fold (matches x it) in H. destruct (matches x it) eqn:Em; [discriminate|].
  cbn [forallb]. rewrite Em. now apply IH in H.
Qed.

Lemma values_of_cons it its :
  values_of (it :: its) = (if is_value it then [render it] else []) ++ values_of its.
Proof. unfold values_of. cbn [filter]. destruct (is_value it); reflexivity. Qed.

Lemma nomatch_values x pre : forallb (fun p => negb (matches x p)) pre = true ->
  forallb (fun v => negb (str_eqb v x)) (values_of pre) = true.
Proof.
  induction pre as [|p pre IH]; [reflexivity|]. cbn [forallb]. intros H.
  apply andb_true_iff in H. destruct H as [Hp H]. rewrite values_of_cons, forallb_app, IH by assumption.
  rewrite andb_true_r. unfold matches in Hp. destruct (is_value p); [|reflexivity].
  cbn [forallb]. now rewrite andb_true_r.
Qed.

Lemma list_remove_first x l1 l2 : forallb (fun v => negb (str_eqb v x)) l1 = true ->
  list_remove x (l1 ++ x :: l2) = Some (l1 ++ l2).
Proof.
  induction l1 as [|v l1 IH]; intros H.
  - simpl. now rewrite str_eqb_refl.
  - cbn [forallb] in H. apply andb_true_iff in H. destruct H as [Hv H]. apply negb_true_iff in Hv.
    simpl. rewrite Hv, IH by assumption. reflexivity.
Qed.

Lemma list_remove_absent x l : forallb (fun v => negb (str_eqb v x)) l = true -> list_remove x l = None.
Proof.
  induction l as [|v l IH]; intros H; [reflexivity|].
  cbn [forallb] in H. apply andb_true_iff in H. destruct H as [Hv H]. apply negb_true_iff in Hv.
  simpl. rewrite Hv, IH by assumption. reflexivity.
Qed.

Lemma list_replace_first x y l1 l2 : forallb (fun v => negb (str_eqb v x)) l1 = true ->
  list_replace x y (l1 ++ x :: l2) = Some (l1 ++ y :: l2).
Proof.
  induction l1 as [|v l1 IH]; intros H.
  - simpl. now rewrite str_eqb_refl.
  - cbn [forallb] in H. apply andb_true_iff in H. destruct H as [Hv H]. apply negb_true_iff in Hv.
    simpl. rewrite Hv, IH by assumption. reflexivity.
Qed.

Lemma list_replace_absent x y l : forallb (fun v => negb (str_eqb v x)) l = true -> list_replace x y l = None.
Proof.
  induction l as [|v l IH]; intros H; [reflexivity|].
  cbn [forallb] in H. apply andb_true_iff in H. destruct H as [Hv H]. apply negb_true_iff in Hv.
  simpl. rewrite Hv, IH by assumption. reflexivity.
Qed.

Lemma matches_inv x it : matches x it = true -> is_value it = true /\ render it = x.
Proof. unfold matches. intros H. apply andb_true_iff in H. destruct H as [H1 H2]. now apply str_eqb_eq in H2. Qed.

(** * Splitting the invariant around a value item *)

Lemma P_app_inv a b s' : P (a ++ b) s' ->
  exists s1, P a s1 /\ arun s1 (flat b) = Some s'
    /\ forallb item_sp b = true /\ Forall (fun t => tok_ok_sp t = true) (flat b)
    /\ forallb com_lf (flat b) = true.
Proof.
  intros [H1 [H2 [H3 H4]]]. rewrite flat_app in *. rewrite forallb_app in H1, H3.
  apply andb_true_iff in H1. apply andb_true_iff in H3. apply Forall_app in H2.
  rewrite arun_app in H4. destruct (arun s0 (flat a)) as [s1|] eqn:E; [|discriminate].
  exists s1. unfold P. splits; tauto.
Qed.

Lemma P_app a b s1 s' : P a s1 -> arun s1 (flat b) = Some s' ->
  forallb item_sp b = true -> Forall (fun t => tok_ok_sp t = true) (flat b) ->
  forallb com_lf (flat b) = true -> P (a ++ b) s'.
Proof.
  intros [H1 [H2 [H3 H4]]] Hr B1 B2 B3. unfold P. rewrite flat_app. splits.
  - now rewrite forallb_app, H1, B1.
  - apply Forall_app. tauto.
  - now rewrite forallb_app, H3, B3.
  - now rewrite arun_app, H4.
Qed.

Definition SV : ast := AST false true true.

Lemma astep_val s s1 : astep s KVal = Some s1 -> s1 = SV.
Proof. cbn [astep]. destruct (s_lf s || s_pv s); [discriminate|]. now intros [= <-]. Qed.

(** a value item in the middle: the state before it allows a value, the state after it is SV *)
Lemma value_item_run it rest s s' :
  item_sp it = true -> is_value it = true -> arun s (flat (it :: rest)) = Some s' ->
  astep s KVal = Some SV /\ arun SV (flat rest) = Some s'
  /\ exists t f, it = IV [t] f /\ is_val t = true.
Proof.
  intros Hi Hv Hr. destruct (item_sp_cases it Hi) as [[t [-> _]]|[t [f [-> Ht]]]]; [discriminate|].
  rewrite flat_cons in Hr. cbn [item_toks app arun] in Hr.
  assert (Hk : tk t = KVal) by (unfold is_val in Ht; destruct (tk t); try discriminate; reflexivity).
  rewrite Hk in Hr. destruct (astep s KVal) as [s1|] eqn:Es; [|discriminate].
  pose proof (astep_val _ _ Es) as ->. splits; auto. now exists t, f.
Qed.

Lemma item_parts it : item_sp it = true ->
  Forall (fun t => tok_ok_sp t = true) (flat [it]) -> forallb com_lf (flat [it]) = true -> True.
Proof. trivial. Qed.

(** * replace *)

Lemma map_snd_set_at (ns : list node) i vt :
  map snd (set_at i (fun n => (fst n, vt)) ns) = set_at i (fun _ => vt) (map snd ns).
Proof.
  revert i. induction ns as [|n ns IH]; intros i; [destruct i; reflexivity|].
  destruct i; simpl; [reflexivity|]. now rewrite IH.
Qed.

Lemma set_at_app {A} (pre : list A) a post f : set_at (length pre) f (pre ++ a :: post) = pre ++ f a :: post.
Proof. induction pre as [|p pre IH]; simpl; [reflexivity|]. now rewrite IH. Qed.

(** node.value = vt for a value node at position [length pre] *)
Lemma set_value_at_inv y vw pre it post : inv vw -> word y = true ->
  v_items vw = pre ++ it :: post -> is_value it = true ->
  let vw' := set_value_at (length pre) (IV [Tok KVal y] true) vw in
  inv vw' /\ v_items vw' = pre ++ IV [Tok KVal y] true :: post
  /\ view_values vw' = values_of pre ++ y :: values_of post /\ v_changed vw' = true.
Proof.
  intros Hinv Hg Eits Hv vw'. apply inv_P in Hinv. destruct Hinv as [[s' [HP Hfin]] Hc].
  assert (Hitems : v_items vw' = pre ++ IV [Tok KVal y] true :: post).
  { subst vw'. unfold set_value_at, v_items. cbn [set_changed set_nodes v_nodes].
    rewrite map_snd_set_at. fold (v_items vw). rewrite Eits. now rewrite set_at_app. }
  splits.
  - apply inv_P. split.
    + exists s'. split; [|exact Hfin]. rewrite Hitems. rewrite Eits in HP.
      destruct (P_app_inv _ _ _ HP) as [s1 [HPa [Hrun [B1 [B2 B3]]]]].
      cbn [forallb] in B1. apply andb_true_iff in B1. destruct B1 as [Bi B1].
      destruct (value_item_run _ _ _ _ Bi Hv Hrun) as [Hs [Hrest [t [f [-> Ht]]]]].
      rewrite flat_cons in B2, B3. cbn [item_toks app] in B2, B3.
      inversion B2 as [|? ? _ B2']; subst. cbn [forallb] in B3. apply andb_true_iff in B3. destruct B3 as [_ B3'].
      apply (P_app _ _ s1 s' HPa).
      * rewrite flat_cons. cbn [item_toks app arun tk]. now rewrite Hs.
      * cbn [forallb item_sp is_val tk kind_eqb andb]. exact B1.
      * rewrite flat_cons. cbn [item_toks app]. constructor; [exact Hg|assumption].
      * rewrite flat_cons. cbn [item_toks app forallb]. now rewrite B3'.
    + exact Hc.
  - exact Hitems.
  - unfold view_values. rewrite Hitems, values_of_app, values_of_cons. cbn [is_value app]. now rewrite render_sp_item.
  - reflexivity.
Qed.

Lemma replace_inv x y vw : inv vw -> good_value false y = true ->
  match list_replace x y (view_values vw) with
  | Some l' => exists vw', replace Space x y vw = Ok vw' /\ inv vw' /\ view_values vw' = l' /\ v_changed vw' = true
  | None => exists e, replace Space x y vw = Err e
  end.
Proof.
  intros Hinv Hg. apply good_value_word in Hg.
  unfold replace, view_values. destruct (find_value x (v_items vw) 0) as [i|] eqn:Ef.
  - destruct (find_value_some _ _ _ _ Ef) as [pre [it [post [Eits [-> [Hm Hpre]]]]]].
    destruct (matches_inv _ _ Hm) as [Hv Hr].
    rewrite Eits, values_of_app, values_of_cons, Hv, Hr. cbn [app].
    rewrite list_replace_first by now apply nomatch_values.
    rewrite value_factory_word by assumption. cbn [bind plus]. eexists. split; [reflexivity|].
    destruct (set_value_at_inv y vw pre it post Hinv Hg Eits Hv) as [H1 [_ [H3 H4]]]. splits; assumption.
  - apply find_value_none in Ef. rewrite list_replace_absent by now apply nomatch_values.
    now eexists.
Qed.

(** * remove *)

Definition nonvalue (it : item) : bool := negb (is_value it).

Lemma values_of_nonvalues m : forallb nonvalue m = true -> values_of m = [].
Proof.
  induction m as [|it m IH]; [reflexivity|]. cbn [forallb]. intros H.
  apply andb_true_iff in H. destruct H as [Hi H]. rewrite values_of_cons, IH by assumption.
  unfold nonvalue in Hi. apply negb_true_iff in Hi. now rewrite Hi.
Qed.

Lemma comment_item_nonvalue it : is_comment_item it = true -> is_value it = false.
Proof. destruct it; [reflexivity|discriminate]. Qed.

(** the scans of _remove_node: distance to the nearest value *)
Lemma scan_side_spec : forall l sc d,
  match snd (scan_side l sc d) with
  | None => forallb nonvalue l = true
  | Some n => exists m v rest, l = m ++ v :: rest /\ forallb nonvalue m = true
                               /\ is_value v = true /\ n = d + length m
  end.
Proof.
  induction l as [|it l IH]; intros sc d; [reflexivity|].
  cbn [scan_side]. destruct (is_comment_item it) eqn:Ec.
  - specialize (IH true (S d)). destruct (snd (scan_side l true (S d))) as [n|].
    + destruct IH as [m [v [rest [-> [Hm [Hv ->]]]]]]. exists (it :: m), v, rest. splits; auto; try (simpl; lia).
      cbn [forallb]. unfold nonvalue at 1. now rewrite comment_item_nonvalue, Hm.
    + cbn [forallb]. unfold nonvalue at 1. now rewrite comment_item_nonvalue, IH.
  - destruct (is_value it) eqn:Ev.
    + cbn [snd]. exists [], it, l. splits; auto; simpl; lia.
    + specialize (IH sc (S d)). destruct (snd (scan_side l sc (S d))) as [n|].
      * destruct IH as [m [v [rest [-> [Hm [Hv ->]]]]]]. exists (it :: m), v, rest. splits; auto; try (simpl; lia).
        cbn [forallb]. unfold nonvalue at 1. now rewrite Ev, Hm.
      * cbn [forallb]. unfold nonvalue at 1. now rewrite Ev, IH.
Qed.

Lemma firstn_pre {A} (pre : list A) rest : firstn (length pre) (pre ++ rest) = pre.
Proof. apply firstn_length_app. Qed.

Lemma skipn_S_pre {A} (pre : list A) a rest : skipn (S (length pre)) (pre ++ a :: rest) = rest.
Proof. induction pre as [|p pre IH]; simpl; [reflexivity|exact IH]. Qed.

(** what _remove_node unlinks: everything (no other value), or the node with the
    non-values up to the previous value, or the node with the non-values up to the next value *)
Lemma remove_range_spec pre it post :
  match remove_range (pre ++ it :: post) (length pre) with
  | None => forallb nonvalue pre = true /\ forallb nonvalue post = true
  | Some (a, b) =>
      (exists pre' pv mid, pre = pre' ++ pv :: mid /\ is_value pv = true /\ forallb nonvalue mid = true
          /\ delete_range a b (pre ++ it :: post) = pre' ++ pv :: post
          /\ a = length pre' + 1 /\ b = S (length pre))
      \/ (exists mid nv post', post = mid ++ nv :: post' /\ is_value nv = true /\ forallb nonvalue mid = true
          /\ delete_range a b (pre ++ it :: post) = pre ++ nv :: post'
          /\ a = length pre /\ b = S (length pre) + length mid)
  end.
Proof.
  unfold remove_range. rewrite firstn_pre, skipn_S_pre.
  pose proof (scan_side_spec (rev pre) false 0) as HL.
  pose proof (scan_side_spec post false 0) as HR.
  destruct (scan_side (rev pre) false 0) as [com_l lhs].
  destruct (scan_side post false 0) as [com_r rhs]. cbn [snd] in HL, HR.
  assert (Left : forall dl, lhs = Some dl ->
            exists pre' pv mid, pre = pre' ++ pv :: mid /\ is_value pv = true /\ forallb nonvalue mid = true
              /\ delete_range (length pre - dl) (S (length pre)) (pre ++ it :: post) = pre' ++ pv :: post
              /\ length pre - dl = length pre' + 1).
  { intros dl ->. destruct HL as [m [v [rest [Er [Hm [Hv ->]]]]]].
    apply (f_equal (@rev item)) in Er. rewrite rev_involutive, rev_app_distr in Er. cbn [rev] in Er.
    rewrite <- app_assoc in Er. cbn [app] in Er.
    exists (rev rest), v, (rev m). splits; auto.
    - rewrite forallb_forall in *. intros z Hz. apply Hm. now apply in_rev.
    - unfold delete_range. rewrite skipn_S_pre.
      assert (Hf : firstn (length pre - (0 + length m)) (pre ++ it :: post) = rev rest ++ [v]).
      { assert (Hl : length pre - (0 + length m) = length (rev rest ++ [v])).
        { rewrite Er. rewrite !app_length. cbn [length]. rewrite !rev_length. lia. }
        rewrite Hl, Er.
        replace ((rev rest ++ v :: rev m) ++ it :: post) with ((rev rest ++ [v]) ++ (rev m ++ it :: post))
          by (rewrite <- !app_assoc; reflexivity).
        apply firstn_length_app. }
      rewrite Hf. now rewrite <- app_assoc.
    - rewrite Er. rewrite !app_length. cbn [length]. rewrite !rev_length. lia. }
  assert (Right : forall dr, rhs = Some dr ->
            exists mid nv post', post = mid ++ nv :: post' /\ is_value nv = true /\ forallb nonvalue mid = true
              /\ delete_range (length pre) (S (length pre) + dr) (pre ++ it :: post) = pre ++ nv :: post'
              /\ dr = length mid).
  { intros dr ->. destruct HR as [m [v [rest [-> [Hm [Hv ->]]]]]].
    exists m, v, rest. splits; auto.
    unfold delete_range. rewrite firstn_pre. f_equal.
    replace (pre ++ it :: m ++ v :: rest) with ((pre ++ it :: m) ++ v :: rest)
      by (rewrite <- app_assoc; reflexivity).
    replace (S (length pre) + (0 + length m)) with (length (pre ++ it :: m))
      by (rewrite app_length; simpl; lia).
    apply skipn_length_app. }
  assert (Left' : forall dl, lhs = Some dl ->
            exists pre' pv mid, pre = pre' ++ pv :: mid /\ is_value pv = true /\ forallb nonvalue mid = true
              /\ delete_range (length pre - dl) (S (length pre)) (pre ++ it :: post) = pre' ++ pv :: post
              /\ length pre - dl = length pre' + 1 /\ S (length pre) = S (length pre)).
  { intros dl H. destruct (Left dl H) as [p' [pv [mid [H1 [H2 [H3 [H4 H5]]]]]]]. exists p', pv, mid. splits; auto. }
  assert (Right' : forall dr, rhs = Some dr ->
            exists mid nv post', post = mid ++ nv :: post' /\ is_value nv = true /\ forallb nonvalue mid = true
              /\ delete_range (length pre) (S (length pre) + dr) (pre ++ it :: post) = pre ++ nv :: post'
              /\ length pre = length pre /\ S (length pre) + dr = S (length pre) + length mid).
  { intros dr H. destruct (Right dr H) as [mid [nv [p' [H1 [H2 [H3 [H4 H5]]]]]]]. exists mid, nv, p'. splits; auto. }
  destruct lhs as [dl|], rhs as [dr|].
  - destruct (if negb com_l then true else if negb com_r then false else true).
    + left. now apply Left'.
    + right. now apply Right'.
  - left. now apply Left'.
  - right. now apply Right'.
  - split; [|assumption]. rewrite forallb_forall in *. intros z Hz. apply HL. now apply in_rev in Hz.
Qed.

Lemma map_snd_delete_range a b (ns : list node) :
  map snd (delete_range a b ns) = delete_range a b (map snd ns).
Proof. unfold delete_range. now rewrite map_app, firstn_map, skipn_map. Qed.

Lemma P_nil : P [] s0.
Proof. unfold P. splits; try reflexivity. constructor. Qed.

Lemma arun_nonvalue_SV_irrelevant : True. Proof. exact I. Qed.

(** _remove_node for a value node at position [length pre] *)
Lemma remove_at_inv vw pre it post : inv vw ->
  v_items vw = pre ++ it :: post -> is_value it = true ->
  let vw' := remove_at (length pre) vw in
  inv vw' /\ view_values vw' = values_of pre ++ values_of post /\ v_changed vw' = true.
Proof.
  intros Hinv Eits Hv vw'. subst vw'. apply inv_P in Hinv. destruct Hinv as [[s' [HP Hfin]] Hc].
  unfold view_values.
  pose proof (remove_range_spec pre it post) as Hspec.
  unfold remove_at. rewrite v_items_set_changed, Eits.
  rewrite Eits in HP.
  destruct (P_app_inv _ _ _ HP) as [s1 [HPa [Hrun [B1 [B2 B3]]]]].
  cbn [forallb] in B1. apply andb_true_iff in B1. destruct B1 as [Bi B1].
  destruct (value_item_run _ _ _ _ Bi Hv Hrun) as [Hs [Hrest [t [f [Eit Ht]]]]].
  rewrite flat_cons in B2, B3. apply Forall_app in B2. destruct B2 as [_ B2].
  rewrite forallb_app in B3. apply andb_true_iff in B3. destruct B3 as [_ B3].
  destruct (remove_range (pre ++ it :: post) (length pre)) as [[a b]|].
  + assert (Hitems : v_items (set_nodes (set_changed vw) (delete_range a b (v_nodes (set_changed vw))))
                     = delete_range a b (pre ++ it :: post)).
    { unfold v_items at 1. cbn [set_nodes v_nodes]. rewrite map_snd_delete_range.
      change (map snd (v_nodes (set_changed vw))) with (v_items vw). now rewrite Eits. }
    destruct Hspec as [[pre' [pv [mid [Epre [Hpv [Hmid [Hdel _]]]]]]]|[mid [nv [post' [Epost [Hnv [Hmid [Hdel _]]]]]]]].
    * (* delete to the left: the previous value is followed by what followed the node *)
      rewrite Hdel in Hitems. splits.
      -- apply inv_P. split; [|exact Hc]. exists s'. split; [|exact Hfin]. rewrite Hitems.
         rewrite Epre in HPa.
         destruct (P_app_inv _ _ _ HPa) as [sa [HPp [Hrun2 [C1 [C2 C3]]]]].
         cbn [forallb] in C1. apply andb_true_iff in C1. destruct C1 as [Ci C1].
         destruct (value_item_run _ _ _ _ Ci Hpv Hrun2) as [Hs2 [_ [t2 [f2 [Epv Ht2]]]]].
         rewrite flat_cons in C2, C3. apply Forall_app in C2. destruct C2 as [C2 _].
         rewrite forallb_app in C3. apply andb_true_iff in C3. destruct C3 as [C3 _].
         apply (P_app _ _ sa s' HPp).
         ++ rewrite flat_cons. rewrite Epv. cbn [item_toks app arun].
            assert (Hk : tk t2 = KVal) by (unfold is_val in Ht2; destruct (tk t2); try discriminate; reflexivity).
            rewrite Hk, Hs2. exact Hrest.
         ++ cbn [forallb]. now rewrite Ci, B1.
         ++ rewrite flat_cons. apply Forall_app. split; assumption.
         ++ rewrite flat_cons, forallb_app, C3, B3. reflexivity.
      -- rewrite Hitems. rewrite Epre. rewrite !values_of_app, !values_of_cons, Hpv.
         rewrite (values_of_nonvalues mid) by assumption. rewrite app_nil_r.
         now rewrite <- !app_assoc.
      -- reflexivity.
    * (* delete to the right: the next value takes the node's place *)
      rewrite Hdel in Hitems. splits.
      -- apply inv_P. split; [|exact Hc]. exists s'. split; [|exact Hfin]. rewrite Hitems.
         rewrite Epost in Hrest, B1, B2, B3.
         rewrite flat_app in Hrest, B2, B3. rewrite forallb_app in B1, B3.
         apply andb_true_iff in B1. destruct B1 as [_ B1].
         apply andb_true_iff in B3. destruct B3 as [_ B3].
         apply Forall_app in B2. destruct B2 as [_ B2].
         rewrite arun_app in Hrest. destruct (arun SV (flat mid)) as [sm|]; [|discriminate].
         cbn [forallb] in B1. apply andb_true_iff in B1. destruct B1 as [Ci B1].
         destruct (value_item_run _ _ _ _ Ci Hnv Hrest) as [_ [Hrest2 [t2 [f2 [Env Ht2]]]]].
         apply (P_app _ _ s1 s' HPa).
         ++ rewrite flat_cons. rewrite Env. cbn [item_toks app arun].
            assert (Hk : tk t2 = KVal) by (unfold is_val in Ht2; destruct (tk t2); try discriminate; reflexivity).
            rewrite Hk, Hs. exact Hrest2.
         ++ cbn [forallb]. now rewrite Ci, B1.
         ++ exact B2.
         ++ exact B3.
      -- rewrite Hitems. rewrite Epost. rewrite !values_of_app, !values_of_cons, Hnv.
         rewrite (values_of_nonvalues mid) by assumption. reflexivity.
      -- reflexivity.
  + (* the only value: everything goes *)
    destruct Hspec as [Hp Hq]. splits.
    * apply inv_P. split; [|exact Hc]. exists s0. split; [apply P_nil|reflexivity].
    * cbn [set_nodes v_items v_nodes map]. rewrite values_of_nil.
      now rewrite (values_of_nonvalues pre), (values_of_nonvalues post).
    * reflexivity.
Qed.

Lemma remove_inv x vw : inv vw ->
  match list_remove x (view_values vw) with
  | Some l' => exists vw', remove x vw = Ok vw' /\ inv vw' /\ view_values vw' = l' /\ v_changed vw' = true
  | None => exists e, remove x vw = Err e
  end.
Proof.
  intros Hinv.
  unfold remove, view_values. destruct (find_value x (v_items vw) 0) as [i|] eqn:Ef.
  - destruct (find_value_some _ _ _ _ Ef) as [pre [it [post [Eits [-> [Hm Hpre]]]]]].
    destruct (matches_inv _ _ Hm) as [Hv Hr]. cbn [plus].
    rewrite Eits, values_of_app, values_of_cons, Hv, Hr. cbn [app].
    rewrite list_remove_first by now apply nomatch_values.
    eexists. split; [reflexivity|].
    destruct (remove_at_inv vw pre it post Hinv Eits Hv) as [H1 [H2 H3]]. splits; assumption.
  - apply find_value_none in Ef. rewrite list_remove_absent by now apply nomatch_values.
    now eexists.
Qed.

(** * From an accepted token list back to lines *)

Definition inl (t : tok) : bool := match tk t with KVal | KSep | KWs => true | _ => false end.

Lemma tok_ok_sp_nonempty t : tok_ok_sp t = true -> tx t <> [].
Proof.
  unfold tok_ok_sp. destruct t as [k x]. cbn [tk tx]. destruct k; intros H; try discriminate.
  - apply andb_true_iff in H. destruct H as [H _]. destruct x; discriminate.
  - apply andb_true_iff in H. destruct H as [H _]. apply andb_true_iff in H. destruct H as [H _]. destruct x; discriminate.
  - apply andb_true_iff in H. destruct H as [H _]. apply andb_true_iff in H. destruct H as [H _]. destruct x; discriminate.
  - apply andb_true_iff in H. destruct H as [H _]. destruct x; discriminate.
  - apply orb_true_iff in H. destruct H as [H|H]; apply str_eqb_eq in H; subst x; discriminate.
  - apply str_eqb_eq in H. subst x. discriminate.
Qed.

(** a run of in-line tokens *)
Lemma inline_run : forall line s s1,
  forallb inl line = true -> Forall (fun t => tok_ok_sp t = true) line ->
  arun s line = Some s1 -> s_lf s = false ->
  s_lf s1 = false
  /\ s_ok s1 = s_ok s || has_val line
  /\ no_lb (toks_text line) = true
  /\ filter nc line = line
  /\ (has_val line = true -> forallb isws (toks_text line) = false).
Proof.
  induction line as [|t line IH]; intros s s1 Hin Hok Hrun Hs.
  - simpl in Hrun. injection Hrun as <-. splits; auto; try discriminate. now rewrite orb_false_r.
  - cbn [forallb] in Hin. apply andb_true_iff in Hin. destruct Hin as [Ht Hin].
    inversion Hok as [|? ? Hokt Hok']; subst. cbn [arun] in Hrun.
    destruct (astep s (tk t)) as [s2|] eqn:Es; [|discriminate].
    assert (Hs2 : s_lf s2 = false /\ s_ok s2 = s_ok s || is_val t
                  /\ no_lb (tx t) = true /\ nc t = true
                  /\ (is_val t = true -> forallb isws (tx t) = false)).
    { unfold inl in Ht. unfold tok_ok_sp in Hokt. unfold is_val, nc, is_comment_tok.
      destruct (tk t) eqn:Ek; try discriminate; cbn [astep] in Es; cbn [kind_eqb negb].
      - destruct (s_lf s || s_pv s); [discriminate|]. injection Es as <-. cbn [s_lf s_ok].
        apply andb_true_iff in Hokt. destruct Hokt as [Hne Hw]. splits; auto.
        + now rewrite orb_true_r.
        + now apply notws_no_lb.
        + intros _. destruct (tx t) as [|c x]; [discriminate|]. cbn [forallb] in *.
          apply andb_true_iff in Hw. destruct Hw as [Hc _]. unfold notws in Hc.
          apply negb_true_iff in Hc. unfold isws. now rewrite Hc.
      - rewrite Hs in Es. injection Es as <-. cbn [s_lf s_ok].
        apply andb_true_iff in Hokt. destruct Hokt as [_ Hlb]. splits; auto; try discriminate. now rewrite orb_false_r.
      - rewrite Hs in Es. injection Es as <-. cbn [s_lf s_ok].
        apply andb_true_iff in Hokt. destruct Hokt as [_ Hlb]. splits; auto; try discriminate. now rewrite orb_false_r. }
    destruct Hs2 as [A1 [A2 [A3 [A4 A5]]]].
    destruct (IH s2 s1 Hin Hok' Hrun A1) as [B1 [B2 [B3 [B4 B5]]]].
    splits.
    + exact B1.
    + rewrite B2, A2. cbn [has_val existsb]. fold (has_val line). now rewrite orb_assoc.
    + rewrite toks_text_cons, no_lb_app, A3, B3. reflexivity.
    + cbn [filter]. now rewrite A4, B4.
    + cbn [has_val existsb]. fold (has_val line). intros H. rewrite toks_text_cons, forallb_app.
      apply orb_true_iff in H. destruct H as [H|H].
      * now rewrite A5.
      * rewrite B5 by assumption. now rewrite andb_false_r.
Qed.

(** the tokens up to the first line end *)
Lemma split_at_lf : forall ts s s',
  arun s ts = Some s' -> s_lf s = false -> s_lf s' = true ->
  Forall (fun t => tok_ok_sp t = true) ts ->
  exists line rest s1, ts = line ++ Tok KNl [LF] :: rest
    /\ forallb inl line = true /\ arun s line = Some s1 /\ s_ok s1 = true
    /\ arun sLF rest = Some s'.
Proof.
  induction ts as [|t r IH]; intros s s' Hrun Hs Hs' Hok.
  - simpl in Hrun. injection Hrun as <-. congruence.
  - inversion Hok as [|? ? Hokt Hok']; subst. cbn [arun] in Hrun.
    destruct (astep s (tk t)) as [s2|] eqn:Es; [|discriminate].
    destruct (tk t) eqn:Ek; cbn [astep] in Es; try discriminate; try (rewrite Hs in Es; discriminate).
    + destruct (s_lf s || s_pv s) eqn:E0; [discriminate|]. injection Es as <-.
      destruct (IH _ _ Hrun eq_refl Hs' Hok') as [line [rest [s1 [-> [Hin [Hr [Hk Hrest]]]]]]].
      exists (t :: line), rest, s1. splits; auto.
      * cbn [forallb]. unfold inl at 1. now rewrite Ek, Hin.
      * cbn [arun]. rewrite Ek. cbn [astep]. rewrite E0. exact Hr.
    + rewrite Hs in Es. injection Es as <-.
      destruct (IH _ _ Hrun eq_refl Hs' Hok') as [line [rest [s1 [-> [Hin [Hr [Hk Hrest]]]]]]].
      exists (t :: line), rest, s1. splits; auto.
      * cbn [forallb]. unfold inl at 1. now rewrite Ek, Hin.
      * cbn [arun]. rewrite Ek. cbn [astep]. now rewrite Hs.
    + rewrite Hs in Es. injection Es as <-.
      destruct (IH _ _ Hrun eq_refl Hs' Hok') as [line [rest [s1 [-> [Hin [Hr [Hk Hrest]]]]]]].
      exists (t :: line), rest, s1. splits; auto.
      * cbn [forallb]. unfold inl at 1. now rewrite Ek, Hin.
      * cbn [arun]. rewrite Ek. cbn [astep]. now rewrite Hs.
    + rewrite Hs in Es. cbn [orb] in Es. destruct (s_ok s) eqn:Eo; [|discriminate].
      cbn [negb] in Es. injection Es as <-.
      exists [], r, s. splits; auto.
      unfold tok_ok_sp in Hokt. rewrite Ek in Hokt. apply str_eqb_eq in Hokt.
      destruct t as [k x]. cbn [tk tx] in *. now subst.
Qed.

(** a complete continuation or comment line *)
Definition shape (l : str) : bool :=
  ends_with_lf l && no_lb (removelast l)
  && (starts_hash l || (starts_sp_tab l && negb (blank l))).

Definition last_com_line (ls : list str) : bool :=
  match last_opt ls with Some l => starts_hash l | None => false end.
Definition last_com_tok (ts : list tok) : bool :=
  match last_opt ts with Some t => is_comment_tok t | None => false end.

Lemma no_lb_lf_only b : no_lb b = true -> lf_only b = true.
Proof.
  unfold no_lb, lf_only. rewrite !forallb_forall. intros H c Hc. now rewrite H.
Qed.

Lemma lf_only_cons_line b r : no_lb b = true -> lf_only r = true -> lf_only (b ++ LF :: r) = true.
Proof.
  intros Hb Hr. rewrite lf_only_app, (no_lb_lf_only b Hb). cbn [andb].
  change (lf_only (LF :: r)) with (true && lf_only r). exact Hr.
Qed.

Lemma toks_text_nonempty ts : ts <> [] -> Forall (fun t => tok_ok_sp t = true) ts -> toks_text ts <> [].
Proof.
  destruct ts as [|t ts]; [congruence|]. intros _ H. inversion H; subst.
  rewrite toks_text_cons. pose proof (tok_ok_sp_nonempty t H2). destruct (tx t); [congruence|discriminate].
Qed.

Lemma lines_lf_nonempty v : v <> [] -> lines_lf v <> [].
Proof.
  intros Hv E. pose proof (splitlines_keepends_concat is_lf v) as H. unfold lines_lf in E.
  rewrite E in H. simpl in H. congruence.
Qed.

Lemma blank_app a b : blank (a ++ b) = blank a && blank b.
Proof. apply forallb_app. Qed.

Lemma cont_tokens_lines : forall n ts s',
  length ts <= n ->
  Forall (fun t => tok_ok_sp t = true) ts -> forallb com_lf ts = true ->
  arun sLF ts = Some s' -> s_lf s' = true ->
  let v := toks_text ts in
  lf_only v = true
  /\ forallb shape (lines_lf v) = true
  /\ concat (filter noncomment_line (lines_lf v)) = toks_text (filter nc ts)
  /\ last_com_line (lines_lf v) = last_com_tok ts.
Proof.
  induction n as [|n IH]; intros ts s' Hn Hok Hcl Hrun Hs' v.
  { destruct ts; [|simpl in Hn; lia]. subst v. splits; reflexivity. }
  destruct ts as [|t r]; [subst v; splits; reflexivity|].
  inversion Hok as [|? ? Hokt Hok']; subst. cbn [forallb] in Hcl. apply andb_true_iff in Hcl.
  destruct Hcl as [Hct Hcl']. cbn [arun] in Hrun. simpl in Hn.
  destruct (astep sLF (tk t)) as [s2|] eqn:Es; [|discriminate].
  destruct (tk t) eqn:Ek; cbn [astep sLF s_lf] in Es; try discriminate.
  - (* a comment line *)
    injection Es as <-. fold sLF in Hrun.
    assert (Hcm : is_comment_tok t = true) by (unfold is_comment_tok; now rewrite Ek).
    unfold com_lf in Hct. rewrite Hcm in Hct.
    unfold tok_ok_sp in Hokt. rewrite Ek in Hokt. apply andb_true_iff in Hokt. destruct Hokt as [Hh Hlb].
    assert (Etx : tx t = removelast (tx t) ++ [LF]).
    { unfold ends_with_lf in Hct. destruct (last_opt (tx t)) as [c|] eqn:El; [|discriminate].
      apply N.eqb_eq in Hct. subst c. now apply ends_snoc_inv. }
    set (b := removelast (tx t)) in *.
    destruct (IH r s' ltac:(lia) Hok' Hcl' Hrun Hs') as [I1 [I2 [I3 I4]]].
    subst v. rewrite toks_text_cons, Etx, <- app_assoc. cbn [app].
    rewrite lines_lf_line by now apply no_lb_no_lf.
    assert (Hhb : starts_hash (b ++ [LF]) = true) by now rewrite <- Etx.
    splits.
    + now apply lf_only_cons_line.
    + cbn [forallb]. rewrite I2, andb_true_r. unfold shape.
      rewrite ends_with_lf_snoc, removelast_snoc, Hlb, Hhb. reflexivity.
    + cbn [filter]. unfold nc at 1. rewrite Hcm. cbn [negb].
      assert (Hn' : noncomment_line (b ++ [LF]) = false).
      { unfold noncomment_line, is_comment_line. unfold starts_hash in Hhb.
        destruct (b ++ [LF]); [discriminate|]. unfold HASH in Hhb. now rewrite Hhb. }
      rewrite Hn'. exact I3.
    + destruct r as [|t2 r2].
      * cbn. now rewrite Hhb, Hcm.
      * unfold last_com_line, last_com_tok in *.
        rewrite !last_opt_cons by (try discriminate; apply lines_lf_nonempty; apply toks_text_nonempty; [discriminate|assumption]).
        exact I4.
  - (* a continuation line *)
    injection Es as <-.
    destruct (split_at_lf r _ s' Hrun eq_refl Hs' Hok') as [line [rest [s1 [-> [Hin [Hr [Hk Hrest]]]]]]].
    apply Forall_app in Hok'. destruct Hok' as [Hokl Hokr]. inversion Hokr as [|? ? _ Hokr']; subst.
    rewrite forallb_app in Hcl'. apply andb_true_iff in Hcl'. destruct Hcl' as [_ Hclr].
    cbn [forallb] in Hclr. apply andb_true_iff in Hclr. destruct Hclr as [_ Hclr].
    destruct (inline_run line _ s1 Hin Hokl Hr eq_refl) as [_ [L2 [L3 [L4 L5]]]].
    cbn [s_ok orb] in L2. rewrite Hk in L2. symmetry in L2. specialize (L5 L2).
    assert (Hlen : length rest <= n) by (rewrite app_length in Hn; simpl in Hn; lia).
    destruct (IH rest s' Hlen Hokr' Hclr Hrest Hs') as [I1 [I2 [I3 I4]]].
    unfold tok_ok_sp in Hokt. rewrite Ek in Hokt.
    assert (Hc : exists c, tx t = [c] /\ (c =? SP)%N || (c =? TAB)%N = true).
    { apply orb_true_iff in Hokt. destruct Hokt as [H|H]; apply str_eqb_eq in H; rewrite H.
      - exists SP. split; reflexivity.
      - exists TAB. split; reflexivity. }
    destruct Hc as [c [Etx Hc]].
    assert (Hlbc : no_lb [c] = true).
    { apply orb_true_iff in Hc. destruct Hc as [H|H]; apply N.eqb_eq in H; subst c; reflexivity. }
    subst v. rewrite toks_text_cons, toks_text_app, toks_text_cons, Etx. cbn [tx].
    set (body := toks_text line) in *.
    replace ([c] ++ body ++ [LF] ++ toks_text rest) with ((c :: body) ++ LF :: toks_text rest)
      by reflexivity.
    assert (Hlbb : no_lb (c :: body) = true).
    { change (c :: body) with ([c] ++ body). now rewrite no_lb_app, Hlbc, L3. }
    rewrite lines_lf_line by now apply no_lb_no_lf.
    assert (Hnh : starts_hash ((c :: body) ++ [LF]) = false).
    { cbn. apply orb_true_iff in Hc. destruct Hc as [H|H]; apply N.eqb_eq in H; subst c; reflexivity. }
    splits.
    + now apply lf_only_cons_line.
    + cbn [forallb]. rewrite I2, andb_true_r. unfold shape.
      rewrite ends_with_lf_snoc, removelast_snoc, Hlbb, Hnh. cbn [andb orb].
      assert (Hst : starts_sp_tab ((c :: body) ++ [LF]) = true) by exact Hc.
      rewrite Hst. cbn [andb]. apply negb_true_iff.
      change ((c :: body) ++ [LF]) with ([c] ++ body ++ [LF]). rewrite !blank_app.
      unfold blank at 2. change py_isspace with isws. rewrite L5. now rewrite andb_false_r.
    + cbn [filter]. unfold noncomment_line at 1, is_comment_line.
      assert (Hnc : (c =? 35)%N = false).
      { apply orb_true_iff in Hc. destruct Hc as [H|H]; apply N.eqb_eq in H; subst c; reflexivity. }
      cbn [app]. rewrite Hnc. cbn [negb concat]. rewrite I3.
      assert (Hnt : nc t = true) by (unfold nc, is_comment_tok; now rewrite Ek).
      rewrite Hnt. rewrite filter_app. cbn [filter nc is_comment_tok tk kind_eqb negb].
      rewrite L4. rewrite toks_text_cons, toks_text_app, toks_text_cons, Etx. cbn [tx app].
      fold body. now rewrite <- app_assoc.
    + destruct rest as [|t2 r2].
      * change (toks_text []) with (@nil N). rewrite lines_lf_nil.
        unfold last_com_line, last_com_tok.
        rewrite (last_opt_cons t) by (destruct line; discriminate).
        rewrite last_opt_snoc. cbn [last_opt]. rewrite Hnh. reflexivity.
      * unfold last_com_line, last_com_tok in *.
        rewrite last_opt_cons by (apply lines_lf_nonempty; apply toks_text_nonempty; [discriminate|assumption]).
        rewrite I4. rewrite (last_opt_cons t) by (destruct line; discriminate).
        rewrite last_opt_app by discriminate.
        rewrite (last_opt_cons (Tok KNl [LF])) by discriminate. reflexivity.
Qed.

(** * The text that _update_field writes *)

Lemma has_val_not_blank ts : Forall (fun t => tok_ok_sp t = true) ts -> has_val ts = true ->
  forallb isws (toks_text ts) = false.
Proof.
  induction ts as [|t ts IH]; intros Hok Hv; [discriminate|].
  inversion Hok as [|? ? Ht Hok']; subst. cbn [has_val existsb] in Hv. fold (has_val ts) in Hv.
  rewrite toks_text_cons, forallb_app. destruct (is_val t) eqn:Ev.
  - unfold is_val in Ev. unfold tok_ok_sp in Ht. destruct (tk t); try discriminate.
    apply andb_true_iff in Ht. destruct Ht as [Hne Hw]. destruct (tx t) as [|c x]; [discriminate|].
    cbn [forallb] in *. apply andb_true_iff in Hw. destruct Hw as [Hc _]. unfold notws in Hc.
    apply negb_true_iff in Hc. unfold isws. now rewrite Hc.
  - cbn [orb] in Hv. rewrite IH by assumption. now rewrite andb_false_r.
Qed.

Lemma shape_cont_line_ok l : shape l = true -> cont_line_ok l = true.
Proof.
  unfold shape, cont_line_ok. intros H. apply andb_true_iff in H. destruct H as [_ H].
  destruct l as [|c l]; [discriminate|]. cbn [starts_hash starts_sp_tab starts_cont] in *.
  apply orb_true_iff in H. destruct H as [H|H].
  - apply N.eqb_eq in H. subst c. reflexivity.
  - apply andb_true_iff in H. destruct H as [H1 H2]. rewrite H2, andb_true_r.
    apply orb_true_iff in H1. destruct H1 as [H1|H1]; apply N.eqb_eq in H1; subst c; reflexivity.
Qed.

Lemma forallb_impl {A} (p q : A -> bool) l : (forall a, p a = true -> q a = true) ->
  forallb p l = true -> forallb q l = true.
Proof. intros H. rewrite !forallb_forall. auto. Qed.

(** the written tokens: accepted from the start state, ending a line, not ending on a comment,
    holding at least one value *)
Lemma written_text ts s' :
  Forall (fun t => tok_ok_sp t = true) ts -> forallb com_lf ts = true ->
  arun s0 ts = Some s' -> s_lf s' = true -> last_com_tok ts = false -> has_val ts = true ->
  let v := toks_text ts in
  exists b ls, lines_lf v = (b ++ [LF]) :: ls /\ no_lb b = true
    /\ forallb shape ls = true /\ last_com_line ls = false
    /\ lf_only v = true /\ value_ok v = true
    /\ drop_comment_lines v = toks_text (filter nc ts).
Proof.
  intros Hok Hcl Hrun Hs' Hlast Hhv v.
  destruct (split_at_lf ts s0 s' Hrun eq_refl Hs' Hok) as [line [rest [s1 [E [Hin [Hr [Hk Hrest]]]]]]].
  assert (Hok2 := Hok). rewrite E in Hok2. apply Forall_app in Hok2. destruct Hok2 as [Hokl Hokr].
  inversion Hokr as [|? ? _ Hokr']; subst.
  rewrite forallb_app in Hcl. apply andb_true_iff in Hcl. destruct Hcl as [_ Hclr].
  cbn [forallb] in Hclr. apply andb_true_iff in Hclr. destruct Hclr as [_ Hclr].
  destruct (inline_run line s0 s1 Hin Hokl Hr eq_refl) as [_ [_ [L3 [L4 _]]]].
  destruct (cont_tokens_lines (length rest) rest s' (le_n _) Hokr' Hclr Hrest Hs') as [I1 [I2 [I3 I4]]].
  set (body := toks_text line) in *.
  assert (Ev : v = body ++ LF :: toks_text rest).
  { subst v. now rewrite toks_text_app, toks_text_cons. }
  assert (Hlines : lines_lf v = (body ++ [LF]) :: lines_lf (toks_text rest)).
  { rewrite Ev. apply lines_lf_line. now apply no_lb_no_lf. }
  assert (Hlf : lf_only v = true) by (rewrite Ev; now apply lf_only_cons_line).
  assert (Hlc : last_com_line (lines_lf (toks_text rest)) = false).
  { rewrite I4. destruct rest as [|t2 r2]; [reflexivity|].
    unfold last_com_tok in *. rewrite last_opt_app in Hlast by discriminate.
    now rewrite (last_opt_cons (Tok KNl [LF])) in Hlast by discriminate. }
  exists body, (lines_lf (toks_text rest)). splits; auto.
  - unfold value_ok. rewrite Hlf, Hlines. cbn [andb].
    change (fun l : str => starts_cont l && negb (blank l)) with cont_line_ok.
    rewrite (forallb_impl shape cont_line_ok _ shape_cont_line_ok I2), andb_true_r.
    apply negb_true_iff. unfold blank. change py_isspace with isws.
    now apply has_val_not_blank.
  - unfold drop_comment_lines. rewrite Hlines.
    change (fun l : str => negb (is_comment_line l)) with noncomment_line. rewrite I3.
    rewrite filter_app. cbn [filter nc is_comment_tok tk kind_eqb negb].
    rewrite L4, toks_text_app, toks_text_cons. cbn [tx]. fold body. now rewrite <- app_assoc.
Qed.

(** * The re-parse of the written text *)

Definition name_ok (name : str) : bool :=
  match name with c :: r => fn_first c && forallb fn_rest r | [] => false end.

Lemma fn_rest_range c : fn_rest c = true -> (33 <= c /\ c <= 127 /\ c <> 58)%N.
Proof.
  unfold fn_rest. rewrite orb_true_iff, !andb_true_iff, !N.leb_le. lia.
Qed.

Lemma fn_first_range c : fn_first c = true -> (33 <= c /\ c <= 127 /\ c <> 58 /\ c <> 35)%N.
Proof.
  unfold fn_first. rewrite !orb_true_iff, !andb_true_iff, !N.leb_le, !N.eqb_eq. lia.
Qed.

Lemma ascii_printable_not_lb c : (33 <= c /\ c <= 127)%N -> py_islinebreak c = false.
Proof.
  intros H. unfold py_islinebreak, py_linebreaks. cbn [existsb].
  repeat match goal with |- context [(c =? ?k)%N] => destruct (N.eqb_spec c k); [lia|] end.
  reflexivity.
Qed.

Lemma ascii_printable_not_ws c : (33 <= c /\ c <= 127)%N -> isws c = false.
Proof.
  intros H. unfold isws, py_isspace, in_ranges, py_space_ranges. cbn [existsb fst snd].
  repeat match goal with
  | |- context [((?lo <=? c)%N && (c <=? ?hi)%N)] =>
      replace ((lo <=? c)%N && (c <=? hi)%N) with false
        by (symmetry; apply andb_false_iff; rewrite !N.leb_gt; lia)
  end.
  reflexivity.
Qed.

Lemma name_ok_chars name : name_ok name = true ->
  exists c r, name = c :: r /\ fn_first c = true /\ forallb fn_rest r = true
    /\ no_lb name = true /\ isws c = false /\ (c =? HASH)%N = false
    /\ (c =? SP)%N = false /\ (c =? TAB)%N = false.
Proof.
  unfold name_ok. destruct name as [|c r]; [discriminate|]. intros H.
  apply andb_true_iff in H. destruct H as [H1 H2]. exists c, r.
  pose proof (fn_first_range c H1) as R1. splits; auto.
  - cbn [no_lb forallb]. rewrite ascii_printable_not_lb by lia. cbn [negb andb].
    rewrite forallb_forall in *. intros a Ha. specialize (H2 a Ha). apply fn_rest_range in H2.
    rewrite ascii_printable_not_lb by lia. reflexivity.
  - apply ascii_printable_not_ws. lia.
  - apply N.eqb_neq. unfold HASH. lia.
  - apply N.eqb_neq. unfold SP. lia.
  - apply N.eqb_neq. unfold TAB. lia.
Qed.

Lemma shape_facts l : shape l = true ->
  ends_with_lf l = true /\ all_ws l = false
  /\ (starts_hash l = true \/ starts_hash l = false /\ starts_sp_tab l = true).
Proof.
  unfold shape. intros H. apply andb_true_iff in H. destruct H as [H H3].
  apply andb_true_iff in H. destruct H as [H1 _]. split; [assumption|].
  destruct l as [|c l]; [discriminate|].
  apply orb_true_iff in H3. destruct H3 as [H3|H3].
  - split; [|now left]. cbn [starts_hash] in H3. apply N.eqb_eq in H3. subst c.
    unfold all_ws. cbn [nonempty forallb]. now rewrite isws_HASH.
  - apply andb_true_iff in H3. destruct H3 as [H3 H4]. split.
    + unfold all_ws. unfold blank in H4. apply negb_true_iff in H4. change py_isspace with isws in H4.
      now rewrite H4, andb_false_r.
    + destruct (starts_hash (c :: l)) eqn:E; [now left|right; now split].
Qed.

Lemma has_error_line_shape ls : forallb shape ls = true -> has_error_line true ls = false.
Proof.
  induction ls as [|l ls IH]; [reflexivity|]. cbn [forallb]. intros H.
  apply andb_true_iff in H. destruct H as [Hl H].
  destruct (shape_facts l Hl) as [_ [Haw Hk]]. cbn [has_error_line]. rewrite Haw.
  destruct Hk as [Hh|[Hh Hs]]; rewrite Hh; [now apply IH|]. rewrite Hs. now apply IH.
Qed.

Lemma para_names_shape ls cur : forallb shape ls = true -> para_names cur ls = [rev cur].
Proof.
  revert cur. induction ls as [|l ls IH]; intros cur H; [reflexivity|]. cbn [forallb] in H.
  apply andb_true_iff in H. destruct H as [Hl H].
  destruct (shape_facts l Hl) as [_ [Haw Hk]]. cbn [para_names]. rewrite Haw.
  destruct Hk as [Hh|[Hh Hs]]; rewrite Hh; cbn [orb]; [now apply IH|]. rewrite Hs. now apply IH.
Qed.

Lemma take_value_lines_shape : forall ls pending,
  forallb shape ls = true -> last_com_line ls = false -> ls <> [] ->
  take_value_lines pending ls = pending ++ ls.
Proof.
  induction ls as [|l ls IH]; intros pending H Hlast Hne; [congruence|].
  cbn [forallb] in H. apply andb_true_iff in H. destruct H as [Hl H].
  destruct (shape_facts l Hl) as [_ [Haw Hk]]. cbn [take_value_lines]. rewrite Haw.
  destruct ls as [|l2 ls2].
  - destruct Hk as [Hh|[Hh Hs]].
    + unfold last_com_line in Hlast. cbn [last_opt] in Hlast. congruence.
    + rewrite Hh, Hs. reflexivity.
  - assert (Hlast' : last_com_line (l2 :: ls2) = false).
    { unfold last_com_line in *. now rewrite last_opt_cons in Hlast by discriminate. }
    destruct Hk as [Hh|[Hh Hs]].
    + rewrite Hh. rewrite IH by (try assumption; discriminate). now rewrite <- app_assoc.
    + rewrite Hh, Hs. rewrite IH by (try assumption; discriminate). reflexivity.
Qed.

Lemma forallb_removelast {A} (p : A -> bool) l : forallb p l = true -> forallb p (removelast l) = true.
Proof.
  intros H. destruct l as [|a l] using rev_ind; [reflexivity|].
  rewrite removelast_snoc. rewrite forallb_app in H. apply andb_true_iff in H. tauto.
Qed.

Lemma skipn_app_length {A} (a b : list A) n : n = length a -> skipn n (a ++ b) = b.
Proof. intros ->. apply skipn_length_app. Qed.

Lemma reparse_ok name v b ls :
  name_ok name = true -> lf_only v = true ->
  lines_lf v = (b ++ [LF]) :: ls -> no_lb b = true ->
  forallb shape ls = true -> last_com_line ls = false ->
  reparse name v = Ok v.
Proof.
  intros Hname Hlf Hlines Hb Hshape Hlast.
  destruct (name_ok_chars name Hname) as [c [r [En [Hc [Hr [Hnlb [Hcws [Hch [Hcsp Hctab]]]]]]]]].
  pose proof (splitlines_keepends_concat is_lf v) as Hcat. fold (lines_lf v) in Hcat.
  rewrite Hlines in Hcat. cbn [concat] in Hcat.
  set (rest := concat ls) in *.
  assert (Ev : v = b ++ LF :: rest) by (rewrite <- Hcat; now rewrite <- app_assoc).
  assert (Hls : lines_lf rest = ls).
  { rewrite Ev in Hlines. rewrite lines_lf_line in Hlines by now apply no_lb_no_lf. congruence. }
  unfold reparse.
  set (head := name ++ [COLON] ++ b).
  assert (Etext : name ++ [COLON] ++ v = head ++ LF :: rest).
  { subst head. rewrite Ev. now rewrite <- !app_assoc. }
  assert (Hhead : no_lb head = true).
  { subst head. rewrite !no_lb_app, Hnlb, Hb. reflexivity. }
  assert (Hlft : lf_only (name ++ [COLON] ++ v) = true).
  { rewrite !lf_only_app, Hlf, (no_lb_lf_only name Hnlb). reflexivity. }
  rewrite splitlines_lf_only by assumption. rewrite Etext.
  rewrite lines_lf_line by now apply no_lb_no_lf. rewrite Hls.
  set (l1 := head ++ [LF]).
  assert (Hends : forallb ends_with_lf ls = true).
  { apply (forallb_impl shape); [|assumption]. intros l Hl. now destruct (shape_facts l Hl). }
  (* normalize_lines *)
  assert (Hnorm : normalize_lines (l1 :: ls) = Ok (l1 :: ls)).
  { unfold normalize_lines. subst l1. rewrite ends_with_lf_snoc.
    rewrite forallb_removelast; [reflexivity|]. cbn [forallb]. now rewrite ends_with_lf_snoc, Hends. }
  rewrite Hnorm. cbn [bind].
  (* the first line is the field line *)
  assert (El1 : l1 = c :: (r ++ COLON :: b ++ [LF])).
  { subst l1 head. rewrite En. cbn [app]. now rewrite <- !app_assoc. }
  assert (Hfn : field_name_of l1 = Some name).
  { rewrite El1. unfold field_name_of. rewrite Hc.
    rewrite (span_forall_app fn_rest r COLON (b ++ [LF]) Hr eq_refl).
    change (COLON =? COLON)%N with true. cbn iota. now rewrite En. }
  assert (Haw1 : all_ws l1 = false).
  { rewrite El1. unfold all_ws. cbn [nonempty forallb]. now rewrite Hcws. }
  assert (Hh1 : starts_hash l1 = false) by (rewrite El1; exact Hch).
  assert (Hs1 : starts_sp_tab l1 = false) by (rewrite El1; cbn [starts_sp_tab]; now rewrite Hcsp, Hctab).
  assert (Herr : has_error_line false (l1 :: ls) = false).
  { cbn [has_error_line]. rewrite Haw1, Hh1, Hs1, Hfn. now apply has_error_line_shape. }
  rewrite Herr.
  assert (Hpn : para_names [] (l1 :: ls) = [[ascii_lower name]]).
  { cbn [para_names]. rewrite Haw1, Hh1, Hs1, Hfn. cbn [orb]. now rewrite para_names_shape. }
  rewrite Hpn. cbn [existsb has_dup orb]. rewrite Hfn, str_eqb_refl.
  f_equal. rewrite Ev.
  assert (Hsk : skipn (S (length name)) l1 = b ++ [LF]).
  { subst l1 head. replace ((name ++ [COLON] ++ b) ++ [LF]) with ((name ++ [COLON]) ++ (b ++ [LF]))
      by (now rewrite <- !app_assoc).
    apply skipn_app_length. rewrite app_length. simpl. lia. }
  rewrite Hsk. destruct ls as [|l2 ls2].
  - subst rest. cbn [take_value_lines concat]. now rewrite app_nil_r.
  - rewrite take_value_lines_shape by (try assumption; discriminate).
    cbn [app]. subst rest. now rewrite <- app_assoc.
Qed.

(** * _update_field: what is written reads back as the values of the view *)

Lemma has_content_has_val its :
  Forall (fun t => tok_ok_sp t = true) (flat its) -> has_content its = true -> has_val (flat its) = true.
Proof.
  unfold has_content. fold (flat its). generalize (flat its). intros ts Hok H.
  apply existsb_exists in H. destruct H as [t [Hin Ht]]. unfold has_val. apply existsb_exists.
  exists t. split; [assumption|]. rewrite Forall_forall in Hok. specialize (Hok t Hin).
  unfold tok_ok_sp in Hok. unfold is_comment_tok, is_whitespace_tok, is_val in *.
  destruct (tk t); try discriminate; reflexivity.
Qed.

Lemma last_opt_flat_snoc its it : last_opt (flat (its ++ [it])) = last_opt (item_toks it) \/ item_toks it = [].
Proof.
  rewrite flat_app. cbn [flat flat_map]. rewrite app_nil_r.
  destruct (item_toks it) eqn:E; [now right|left]. apply last_opt_app. discriminate.
Qed.

Theorem update_field_readback name vw v' :
  inv vw -> name_ok name = true -> update_field name vw = Ok v' ->
  value_ok v' = true
  /\ reparse name v' = Ok v'
  /\ exists vw', interpret Space v' = Ok vw' /\ view_values vw' = view_values vw.
Proof.
  intros Hinv Hname Hup. apply inv_P in Hinv. destruct Hinv as [[s' [HP Hfin]] _].
  unfold update_field in Hup. set (its := v_items vw) in *.
  destruct (has_content its) eqn:Hcont; [|discriminate]. cbn [negb] in Hup.
  destruct (last_opt its) as [tail|] eqn:El; [|discriminate].
  destruct (is_comment_item tail) eqn:Etc; [discriminate|].
  apply ends_snoc_inv in El. set (its0 := removelast its) in *.
  (* the written items end a line *)
  assert (W : exists its' s'', (if item_ends_lf tail then its else its ++ [IT (Tok KNl [LF])]) = its'
               /\ P its' s'' /\ s_lf s'' = true /\ last_com_tok (flat its') = false
               /\ values_of its' = values_of its /\ has_val (flat its') = true).
  { destruct (tail_state _ _ HP) as [T1 _]. unfold last_lf in T1. rewrite El, last_opt_snoc in T1.
    assert (Hhv : has_val (flat its) = true).
    { destruct HP as [_ [H2 _]]. now apply has_content_has_val. }
    destruct (item_ends_lf tail) eqn:Et.
    - exists its, s'. splits; auto.
      rewrite El. unfold last_com_tok.
      destruct HP as [H1 _]. rewrite El, forallb_app in H1. apply andb_true_iff in H1.
      destruct H1 as [_ H1]. cbn [forallb] in H1. rewrite andb_true_r in H1.
      destruct (last_opt_flat_snoc its0 tail) as [E|E].
      + rewrite E. destruct (item_sp_cases tail H1) as [[t [-> Hv]]|[t [f [-> Hv]]]]; cbn [item_toks last_opt].
        * exact Etc.
        * now apply is_val_nc.
      + destruct (item_sp_cases tail H1) as [[t [-> Hv]]|[t [f [-> Hv]]]]; discriminate.
    - exists (its ++ [IT (Tok KNl [LF])]), sLF. splits; auto.
      + apply P_push_IT with s'; try assumption; try reflexivity.
        cbn [tk astep]. rewrite T1. cbn [orb]. rewrite T1, orb_false_r in Hfin. now rewrite Hfin.
      + unfold last_com_tok. rewrite flat_app. cbn [flat flat_map item_toks app].
        now rewrite last_opt_snoc.
      + rewrite values_of_app. unfold values_of at 2. simpl. now rewrite app_nil_r.
      + rewrite flat_app. unfold has_val. rewrite existsb_app. fold (has_val (flat its)). now rewrite Hhv. }
  destruct W as [its' [s'' [Eits' [HP' [Hlf' [Hlast' [Hvals' Hhv']]]]]]].
  rewrite Eits' in Hup. rewrite items_text_flat in Hup.
  destruct HP' as [Q1 [Q2 [Q3 Q4]]].
  destruct (written_text (flat its') s'' Q2 Q3 Q4 Hlf' Hlast' Hhv')
    as [b [ls [Hlines [Hb [Hshape [Hlc [Hlfo [Hvok Hdrop]]]]]]]].
  pose proof (reparse_ok name _ b ls Hname Hlfo Hlines Hb Hshape Hlc) as Hrp.
  rewrite Hrp in Hup. injection Hup as <-.
  split; [exact Hvok|]. split; [exact Hrp|].
  destruct (view_reads_split_space _ Hvok) as [vw' [Hi Hv]].
  exists vw'. split; [exact Hi|]. rewrite Hv. unfold split_spec. rewrite Hdrop.
  change py_isspace with isws.
  destruct (sp_vals (flat its') s0 s'' Q2 Q4) as [Hsv _]. rewrite Hsv.
  rewrite <- values_of_flat by assumption. rewrite Hvals'. reflexivity.
Qed.

(** * A whole session of direct edits *)

(** the operations this development proves: append / remove / replace, new values being
    good values of a whitespace-separated list (non-empty, no whitespace) *)
Definition edit_op (o : op) : bool :=
  match o with
  | OAppend x => good_value false x
  | ORemove _ => true
  | OReplace _ y => good_value false y
  | _ => false
  end.

(** the same operation on a Python list ([None]: list.remove / replace raise ValueError) *)
Definition l_step (o : op) (l : list str) : option (list str) :=
  match o with
  | OAppend x => Some (l ++ [x])
  | ORemove x => list_remove x l
  | OReplace x y => list_replace x y l
  | _ => None
  end.

(** a sequence of list operations: the list after every operation that is applicable
    ([None] for a refused one, which leaves the list as it is), and the final list *)
Fixpoint l_run (os : list op) (l : list str) : list (option (list str)) * list str :=
  match os with
  | [] => ([], l)
  | o :: os' =>
      match l_step o l with
      | Some l' => let (outs, lf) := l_run os' l' in (Some l' :: outs, lf)
      | None => let (outs, lf) := l_run os' l in (None :: outs, lf)
      end
  end.

Definition outcome_list (o : outcome) : option (list str) :=
  match o with Done vals _ => Some vals | Failed _ => None end.

Lemma step_edit o vw : inv vw -> edit_op o = true ->
  match l_step o (view_values vw) with
  | Some l' => exists vw', step Space o vw = (vw', None, None) /\ inv vw'
                           /\ view_values vw' = l' /\ v_changed vw' = true
  | None => exists e, step Space o vw = (vw, Some e, None)
  end.
Proof.
  intros Hinv Ho. destruct o; try discriminate; cbn [edit_op l_step step] in *.
  - destruct (append_inv x vw Hinv Ho) as [vw' [H1 [H2 [H3 H4]]]]. exists vw'. rewrite H1. auto.
  - pose proof (remove_inv x vw Hinv) as H. destruct (list_remove x (view_values vw)).
    + destruct H as [vw' [H1 [H2 [H3 H4]]]]. exists vw'. rewrite H1. auto.
    + destruct H as [e H]. exists e. now rewrite H.
  - pose proof (replace_inv x y vw Hinv Ho) as H. destruct (list_replace x y (view_values vw)).
    + destruct H as [vw' [H1 [H2 [H3 H4]]]]. exists vw'. rewrite H1. auto.
    + destruct H as [e H]. exists e. now rewrite H.
Qed.

Lemma run_ops_edit os : forall vw, inv vw -> forallb edit_op os = true ->
  map outcome_list (fst (run_ops Space os vw)) = fst (l_run os (view_values vw))
  /\ inv (snd (run_ops Space os vw))
  /\ view_values (snd (run_ops Space os vw)) = snd (l_run os (view_values vw))
  /\ (v_changed (snd (run_ops Space os vw)) = true \/ snd (run_ops Space os vw) = vw).
Proof.
  induction os as [|o os IH]; intros vw Hinv Hos.
  - cbn. splits; auto.
  - cbn [forallb] in Hos. apply andb_true_iff in Hos. destruct Hos as [Ho Hos].
    pose proof (step_edit o vw Hinv Ho) as Hs. cbn [run_ops l_run].
    destruct (l_step o (view_values vw)) as [l'|].
    + destruct Hs as [vw' [Hst [Hinv' [Hv' Hc']]]]. rewrite Hst.
      destruct (IH vw' Hinv' Hos) as [I1 [I2 [I3 I4]]]. rewrite Hv' in *.
      destruct (run_ops Space os vw') as [outs vf]. destruct (l_run os l') as [louts lf].
      cbn [fst snd map outcome_list] in *. splits; auto.
      * now rewrite I1.
      * left. destruct I4 as [I4| ->]; assumption.
    + destruct Hs as [e Hst]. rewrite Hst.
      destruct (IH vw Hinv Hos) as [I1 [I2 [I3 I4]]].
      destruct (run_ops Space os vw) as [outs vf]. destruct (l_run os (view_values vw)) as [louts lf].
      cbn [fst snd map outcome_list] in *. splits; auto. now rewrite I1.
Qed.

(** view_edit_readback for whitespace-separated lists *)
Theorem view_edit_readback_space name v os :
  value_ok v = true -> closed_value v = true -> name_ok name = true ->
  forallb edit_op os = true ->
  let r := run_session Space name v os in
  let l0 := split_spec false v in
  sr_read r = Ok l0
  /\ map outcome_list (sr_ops r) = fst (l_run os l0)
  /\ (sr_close r = None ->
      value_ok (sr_value r) = true
      /\ (sr_value r = v \/ reparse name (sr_value r) = Ok (sr_value r))
      /\ exists vw', interpret Space (sr_value r) = Ok vw' /\ view_values vw' = snd (l_run os l0))
  /\ (forall e, sr_close r = Some e -> sr_value r = v).
Proof.
  intros Hv Hc Hname Hos r l0. subst r l0.
  destruct (interpret_inv v Hv Hc) as [vw [Hi [Hinv [Hvals Hch]]]].
  unfold run_session. rewrite Hi.
  destruct (run_ops_edit os vw Hinv Hos) as [R1 [R2 [R3 R4]]]. rewrite Hvals in *.
  destruct (run_ops Space os vw) as [outs vf]. cbn [fst snd] in *.
  unfold close. destruct (v_changed vf) eqn:Ecf.
  - destruct (update_field name vf) as [v'|e] eqn:Eu; cbn [sr_read sr_ops sr_close sr_value].
    + splits; auto; try discriminate. intros _.
      destruct (update_field_readback name vf v' R2 Hname Eu) as [U1 [U0 [vw' [U2 U3]]]].
      split; [exact U1|]. split; [now right|]. exists vw'. split; [exact U2|]. now rewrite U3.
    + splits; auto. discriminate.
  - cbn [sr_read sr_ops sr_close sr_value]. splits; auto; try discriminate. intros _.
    split; [exact Hv|]. split; [now left|]. destruct R4 as [R4| ->]; [congruence|].
    exists vw. split; [exact Hi|]. now rewrite <- R3.
Qed.
