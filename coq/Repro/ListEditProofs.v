(** Proofs for C11, part 2: edits of a whitespace-separated list through the view.
    - an invariant on the items of a view (kinds follow the line automaton of ListProofs,
      texts are well-formed, comment tokens are complete lines);
    - interpret establishes it, append / remove / replace preserve it and act on the
      values as the corresponding Python list operations;
    - the text written back by _update_field is again a value text of the property's
      domain, re-parses to itself, and reads back as exactly the values of the view. *)
From Verif Require Import Lib.Base Lib.PyStr Gen.PyChars Repro.ListView Repro.ListSpec
  Repro.ListLemmas Repro.ListProofs.
From Coq Require Import Lia.

(** * Items of a whitespace-separated list *)

Definition item_sp (it : item) : bool :=
  match it with
  | IT t => negb (is_val t)
  | IV [t] _ => is_val t
  | IV _ _ => false
  end.

Definition flat (its : list item) : list tok := flat_map item_toks its.

Lemma flat_app a b : flat (a ++ b) = flat a ++ flat b.
Proof. apply flat_map_app. Qed.

Lemma flat_cons it its : flat (it :: its) = item_toks it ++ flat its.
Proof. reflexivity. Qed.

Lemma items_text_flat its : items_text its = toks_text (flat its).
Proof.
  induction its as [|it its IH]; [reflexivity|].
  rewrite items_text_cons, flat_cons, toks_text_app, IH. reflexivity.
Qed.

Lemma item_sp_cases it : item_sp it = true ->
  (exists t, it = IT t /\ is_val t = false) \/ (exists t f, it = IV [t] f /\ is_val t = true).
Proof.
  destruct it as [t|ts f]; simpl; intros H.
  - left. exists t. split; [reflexivity|]. now apply negb_true_iff.
  - right. destruct ts as [|t [|t2 ts]]; try discriminate. now exists t, f.
Qed.

Lemma render_sp_item t f : is_val t = true -> render (IV [t] f) = tx t.
Proof.
  intros H. unfold render. destruct f.
  - unfold toks_text. simpl. now rewrite app_nil_r.
  - cbn [item_toks filter]. rewrite is_val_nc by assumption. cbn [negb]. unfold toks_text. simpl. now rewrite app_nil_r.
Qed.

Lemma values_of_flat its : forallb item_sp its = true -> values_of its = vals (flat its).
Proof.
  induction its as [|it its IH]; [reflexivity|]. cbn [forallb]. intros H.
  apply andb_true_iff in H. destruct H as [Hi H]. specialize (IH H).
  unfold values_of, vals in *. rewrite flat_cons, filter_app, map_app, <- IH.
  destruct (item_sp_cases it Hi) as [[t [-> Hv]]|[t [f [-> Hv]]]].
  - cbn [filter is_value item_toks]. rewrite Hv. reflexivity.
  - cbn [filter is_value item_toks map]. rewrite Hv. cbn [map app]. now rewrite render_sp_item.
Qed.

Lemma values_of_cons_IT t its : values_of (IT t :: its) = values_of its.
Proof. reflexivity. Qed.

Lemma values_of_nil : values_of [] = [].
Proof. reflexivity. Qed.

(** * The invariant *)

Definition ok_cont (c : str) : Prop := c = [SP] \/ c = [TAB].

Definition inv_items (its : list item) : Prop :=
  forallb item_sp its = true
  /\ Forall (fun t => tok_ok_sp t = true) (flat its)
  /\ forallb com_lf (flat its) = true
  /\ exists s', arun s0 (flat its) = Some s' /\ s_ok s' || s_lf s' = true.

Definition inv (vw : view) : Prop :=
  inv_items (v_items vw)
  /\ match v_cont vw with Some c => ok_cont c | None => True end.

(** ** interpret establishes it *)

Lemma flat_sp ts : flat (map sp_item ts) = ts.
Proof.
  induction ts as [|t ts IH]; [reflexivity|]. cbn [map]. rewrite flat_cons, IH.
  unfold sp_item. destruct (is_val t); reflexivity.
Qed.

Lemma item_sp_sp ts : forallb item_sp (map sp_item ts) = true.
Proof.
  induction ts as [|t ts IH]; [reflexivity|]. cbn [map forallb]. rewrite IH, andb_true_r.
  unfold sp_item. destruct (is_val t) eqn:E; cbn [item_sp]; now rewrite E.
Qed.

Lemma map_snd_number n l : map snd (number_from n l) = l.
Proof. revert n. induction l as [|x l IH]; intros n; [reflexivity|]. simpl. now rewrite IH. Qed.

Lemma Forall_removelast {A} (P : A -> Prop) l : Forall P l -> Forall P (removelast l).
Proof.
  intros H. destruct l as [|a l] using rev_ind; [constructor|].
  rewrite removelast_snoc. apply Forall_app in H. tauto.
Qed.

Definition drop_nl (its : list item) : list item :=
  match last_opt its with
  | Some (IT t) => if kind_eqb (tk t) KNl then removelast its else its
  | _ => its
  end.

Lemma mk_view_eq its : its <> [] ->
  mk_view its = Ok (View (number_from 0 (drop_nl its)) (N.of_nat (length (drop_nl its))) None false []).
Proof. destruct its; [congruence|reflexivity]. Qed.

Lemma interpret_inv v : value_ok v = true -> closed_value v = true ->
  exists vw, interpret Space v = Ok vw /\ inv vw /\ view_values vw = split_spec false v
    /\ v_changed vw = false.
Proof.
  intros Hv Hc. destruct (tokenize_sp_ok v Hv) as [ts [s' [Htok [Htx [Hok [Hdc [Hcl [Hrun Hfin]]]]]]]].
  rewrite closed_value_open in Hc. apply negb_true_iff in Hc. specialize (Hcl Hc).
  destruct (sp_vals ts s0 s' Hok Hrun) as [Hvals _].
  unfold interpret, parse_str. rewrite Htok. cbn [bind]. rewrite Htx, Nat.eqb_refl. cbn [negb].
  rewrite parse_stream_space by lia. cbn [bind]. rewrite items_text_sp, Htx, Nat.eqb_refl. cbn [negb].
  assert (Hne : ts <> []).
  { intros ->. unfold toks_text in Htx. simpl in Htx. subst v. discriminate. }
  cbn [bind]. rewrite mk_view_eq by (destruct ts; [congruence|discriminate]).
  eexists. split; [reflexivity|].
  unfold inv, view_values, v_items. cbn [v_nodes v_cont v_changed]. rewrite map_snd_number.
  unfold drop_nl. split; [|split; [|reflexivity]].
  - split; [|exact I].
    (* the final newline token is dropped *)
    destruct ts as [|t0 ts0] using rev_ind; [congruence|]. clear IHts0.
    rewrite map_app. cbn [map]. rewrite last_opt_snoc.
    assert (Hbase : inv_items (map sp_item (ts0 ++ [t0]))).
    { unfold inv_items. rewrite flat_sp. splits; try assumption; [apply item_sp_sp|]. now exists s'. }
    rewrite map_app in Hbase. cbn [map] in Hbase.
    destruct (is_val t0) eqn:Ev.
    { assert (E : sp_item t0 = IV [t0] false) by (unfold sp_item; now rewrite Ev).
      rewrite E in *. exact Hbase. }
    assert (E : sp_item t0 = IT t0) by (unfold sp_item; now rewrite Ev).
    rewrite E in *.
    destruct (kind_eqb (tk t0) KNl) eqn:Ek; [|exact Hbase].
    rewrite removelast_snoc. unfold inv_items. rewrite flat_sp.
    apply Forall_app in Hok. destruct Hok as [Hok0 _].
    rewrite forallb_app in Hcl. apply andb_true_iff in Hcl. destruct Hcl as [Hcl0 _].
    splits; try assumption; [apply item_sp_sp|].
    rewrite arun_app in Hrun. destruct (arun s0 ts0) as [s1|] eqn:E1; [|discriminate].
    exists s1. split; [reflexivity|].
    cbn [arun] in Hrun. assert (Hk : tk t0 = KNl) by (destruct (tk t0); try discriminate; reflexivity).
    rewrite Hk in Hrun. cbn [astep] in Hrun.
    destruct (s_lf s1 || negb (s_ok s1)) eqn:E2; [discriminate|].
    apply orb_false_iff in E2. destruct E2 as [_ E2]. apply negb_false_iff in E2. now rewrite E2.
  - (* the values *)
    unfold split_spec. change py_isspace with isws. rewrite <- Hdc, Hvals, <- values_of_sp.
    destruct (last_opt (map sp_item ts)) as [[t|tt f]|] eqn:El; try reflexivity.
    destruct (kind_eqb (tk t) KNl); [|reflexivity]. now apply values_of_removelast with t.
Qed.

(** * Pushing tokens *)

(** the part of the invariant that also holds between the pushes of one operation *)
Definition P (its : list item) (s' : ast) : Prop :=
  forallb item_sp its = true
  /\ Forall (fun t => tok_ok_sp t = true) (flat its)
  /\ forallb com_lf (flat its) = true
  /\ arun s0 (flat its) = Some s'.

Definition cache_ok (vw : view) : Prop :=
  match v_cont vw with Some c => ok_cont c | None => True end.

Lemma inv_P vw : inv vw <-> (exists s', P (v_items vw) s' /\ s_ok s' || s_lf s' = true) /\ cache_ok vw.
Proof.
  unfold inv, inv_items, P, cache_ok. split.
  - intros [[H1 [H2 [H3 [s' [H4 H5]]]]] H6]. split; [exists s'; tauto|assumption].
  - intros [[s' [[H1 [H2 [H3 H4]]] H5]] H6]. split; [|assumption]. splits; try assumption. now exists s'.
Qed.

Lemma v_items_push vw it : v_items (push vw it) = v_items vw ++ [it].
Proof. unfold v_items, push. cbn [v_nodes]. now rewrite map_app. Qed.

Lemma P_push_IT its s' t s1 :
  P its s' -> is_val t = false -> tok_ok_sp t = true -> com_lf t = true ->
  astep s' (tk t) = Some s1 -> P (its ++ [IT t]) s1.
Proof.
  intros [H1 [H2 [H3 H4]]] Hv Hok Hc Hs. unfold P. rewrite flat_app. cbn [flat flat_map item_toks app].
  splits.
  - rewrite forallb_app, H1. cbn [forallb item_sp]. now rewrite Hv.
  - apply Forall_app. split; [assumption|]. constructor; [assumption|constructor].
  - rewrite forallb_app, H3. cbn [forallb]. now rewrite Hc.
  - rewrite arun_app, H4. cbn [arun]. now rewrite Hs.
Qed.

Lemma is_val_com_lf t : is_val t = true -> com_lf t = true.
Proof. intros H. unfold com_lf. now rewrite is_val_nc. Qed.

Lemma P_push_IV its s' t f s1 :
  P its s' -> is_val t = true -> tok_ok_sp t = true ->
  astep s' (tk t) = Some s1 -> P (its ++ [IV [t] f]) s1.
Proof.
  intros [H1 [H2 [H3 H4]]] Hv Hok Hs. unfold P. rewrite flat_app. cbn [flat flat_map item_toks app].
  splits.
  - rewrite forallb_app, H1. cbn [forallb item_sp]. now rewrite Hv.
  - apply Forall_app. split; [assumption|]. constructor; [assumption|constructor].
  - rewrite forallb_app, H3. cbn [forallb]. rewrite is_val_com_lf by assumption. reflexivity.
  - rewrite arun_app, H4. cbn [arun]. now rewrite Hs.
Qed.

(** ** the state after the last token *)

Lemma word_not_ends_lf x : forallb notws x = true -> ends_with_lf x = false.
Proof. intros H. apply no_lb_not_ends_lf. now apply notws_no_lb. Qed.

Definition lf_kind (k : kind) : bool := match k with KNl | KCom => true | _ => false end.

Lemma tok_ends_lf t : tok_ok_sp t = true -> com_lf t = true -> ends_with_lf (tx t) = lf_kind (tk t).
Proof.
  unfold tok_ok_sp, com_lf, is_comment_tok. destruct t as [k x]. cbn [tk tx].
  destruct k; cbn [kind_eqb lf_kind]; intros H Hc; try discriminate.
  - apply andb_true_iff in H. destruct H as [_ H]. now apply word_not_ends_lf.
  - apply andb_true_iff in H. destruct H as [_ H]. now apply no_lb_not_ends_lf.
  - apply andb_true_iff in H. destruct H as [_ H]. now apply no_lb_not_ends_lf.
  - exact Hc.
  - apply orb_true_iff in H. destruct H as [H|H]; apply str_eqb_eq in H; subst x; reflexivity.
  - apply str_eqb_eq in H. subst x. reflexivity.
Qed.

Lemma astep_flags s k s1 : astep s k = Some s1 ->
  s_lf s1 = lf_kind k /\ s_pv s1 = kind_eqb k KVal.
Proof.
  destruct k; cbn [astep lf_kind kind_eqb].
  - destruct (s_lf s || s_pv s); [discriminate|]. now intros [= <-].
  - destruct (s_lf s); [discriminate|]. now intros [= <-].
  - destruct (s_lf s); [discriminate|]. now intros [= <-].
  - discriminate.
  - destruct (s_lf s); [|discriminate]. now intros [= <-].
  - destruct (s_lf s); [|discriminate]. now intros [= <-].
  - destruct (s_lf s || negb (s_ok s)); [discriminate|]. now intros [= <-].
Qed.

Lemma item_text_IT t : item_text (IT t) = tx t.
Proof. unfold item_text, toks_text. simpl. now rewrite app_nil_r. Qed.

Lemma item_text_IV1 t f : item_text (IV [t] f) = tx t.
Proof. unfold item_text, toks_text. simpl. now rewrite app_nil_r. Qed.

Definition last_lf (its : list item) : bool :=
  match last_opt its with Some it => item_ends_lf it | None => false end.
Definition last_val (its : list item) : bool :=
  match last_opt its with Some it => is_value it | None => false end.

Lemma tail_state its s' : P its s' -> s_lf s' = last_lf its /\ s_pv s' = last_val its.
Proof.
  intros [H1 [H2 [H3 H4]]]. unfold last_lf, last_val.
  destruct its as [|it its0] using rev_ind.
  - simpl in H4. injection H4 as <-. split; reflexivity.
  - clear IHits0. rewrite last_opt_snoc. rewrite flat_app in *.
    rewrite forallb_app in H1, H3. apply andb_true_iff in H1. apply andb_true_iff in H3.
    destruct H1 as [_ Hi]. destruct H3 as [_ Hc]. apply Forall_app in H2. destruct H2 as [_ Ho].
    cbn [forallb] in Hi. rewrite andb_true_r in Hi.
    rewrite arun_app in H4. destruct (arun s0 (flat its0)) as [s1|]; [|discriminate].
    destruct (item_sp_cases it Hi) as [[t [-> Hv]]|[t [f [-> Hv]]]];
      cbn [flat flat_map item_toks app] in *; cbn [arun] in H4;
      (destruct (astep s1 (tk t)) as [s2|] eqn:Es; [|discriminate]); injection H4 as <-;
      destruct (astep_flags _ _ _ Es) as [F1 F2];
      inversion Ho as [|? ? Hok _]; subst; cbn [forallb] in Hc; rewrite andb_true_r in Hc;
      unfold item_ends_lf.
    + rewrite item_text_IT, tok_ends_lf by assumption. split; [assumption|].
      rewrite F2. cbn [is_value]. unfold is_val in Hv. exact Hv.
    + rewrite item_text_IV1, tok_ends_lf by assumption. split; [assumption|].
      rewrite F2. cbn [is_value]. unfold is_val in Hv. exact Hv.
Qed.

(** ** the continuation character *)

Lemma cont_char_ok vw s' : P (v_items vw) s' -> cache_ok vw ->
  ok_cont (fst (cont_char vw))
  /\ v_nodes (snd (cont_char vw)) = v_nodes vw
  /\ v_next (snd (cont_char vw)) = v_next vw
  /\ v_changed (snd (cont_char vw)) = v_changed vw
  /\ cache_ok (snd (cont_char vw)).
Proof.
  intros [H1 [H2 [H3 H4]]] Hc. unfold cont_char, cache_ok in *.
  destruct (v_cont vw) as [c|] eqn:Ec.
  - cbn [fst snd]. rewrite Ec. splits; auto.
  - set (f := fun it => match it with IT t => kind_eqb (tk t) KCont | IV _ _ => false end).
    assert (G : ok_cont (match List.find f (v_items vw) with Some it => item_text it | None => [SP] end)).
    { destruct (List.find f (v_items vw)) as [it|] eqn:Ef; [|now left].
      apply find_some in Ef. destruct Ef as [Hin Hf]. destruct it as [t|]; [|discriminate].
      rewrite item_text_IT. rewrite Forall_forall in H2.
      assert (Ht : tok_ok_sp t = true).
      { apply H2. unfold flat. apply in_flat_map. exists (IT t). split; [assumption|now left]. }
      unfold tok_ok_sp in Ht. subst f. cbn beta iota in Hf.
      destruct (tk t); try discriminate. apply orb_true_iff in Ht.
      destruct Ht as [Ht|Ht]; apply str_eqb_eq in Ht; [now left|now right]. }
    cbn [fst snd v_nodes v_next v_changed v_cont]. splits; auto.
Qed.

Definition same_but_items (vw vw' : view) : Prop :=
  v_changed vw' = v_changed vw.

(** _append_continuation_line_token_if_necessary *)
Lemma append_cont_P vw s' : P (v_items vw) s' -> cache_ok vw ->
  exists s1, P (v_items (append_cont_if_necessary vw)) s1
    /\ cache_ok (append_cont_if_necessary vw)
    /\ s_lf s1 = false /\ (s_pv s1 = true -> s_pv s' = true)
    /\ (s_ok s' = true -> s_lf s' = false -> s_ok s1 = true)
    /\ values_of (v_items (append_cont_if_necessary vw)) = values_of (v_items vw)
    /\ v_changed (append_cont_if_necessary vw) = v_changed vw.
Proof.
  intros HP Hc. destruct (tail_state _ _ HP) as [T1 T2].
  unfold append_cont_if_necessary. unfold tail_ends_lf. fold (last_lf (v_items vw)).
  rewrite <- T1. destruct (s_lf s') eqn:El.
  - destruct (cont_char_ok vw s' HP Hc) as [C1 [C2 [C3 [C4 C5]]]].
    destruct (cont_char vw) as [c vw1]. cbn [fst snd] in *.
    assert (Hit : v_items vw1 = v_items vw) by (unfold v_items; now rewrite C2).
    exists (AST false false false). rewrite v_items_push, Hit. splits.
    + apply P_push_IT with s'; try assumption; try reflexivity.
      * unfold tok_ok_sp. cbn [tk tx]. destruct C1 as [-> | ->]; reflexivity.
      * cbn [tk astep]. now rewrite El.
    + unfold cache_ok in *. exact C5.
    + reflexivity.
    + discriminate.
    + intros _ H. discriminate.
    + rewrite values_of_app. unfold values_of at 2. simpl. now rewrite app_nil_r.
    + exact C4.
  - exists s'. splits; auto.
Qed.

(** * append *)

Lemma v_items_set_changed vw : v_items (set_changed vw) = v_items vw.
Proof. reflexivity. Qed.

Lemma append_separator_P b vw s' : P (v_items vw) s' -> cache_ok vw ->
  exists s1, P (v_items (append_separator Space b vw)) s1
    /\ cache_ok (append_separator Space b vw)
    /\ s_lf s1 = false /\ s_pv s1 = false
    /\ values_of (v_items (append_separator Space b vw)) = values_of (v_items vw).
Proof.
  intros HP Hc. unfold append_separator.
  destruct (append_cont_P (set_changed vw) s' HP Hc) as [s1 [HP1 [Hc1 [L1 [_ [_ [V1 _]]]]]]].
  set (vw1 := append_cont_if_necessary (set_changed vw)) in *.
  exists (AST false false (s_ok s1)). rewrite v_items_push. splits.
  - apply P_push_IT with s1; try assumption; try reflexivity. cbn [tk astep]. now rewrite L1.
  - exact Hc1.
  - reflexivity.
  - reflexivity.
  - rewrite values_of_app, V1. unfold values_of at 2. simpl. now rewrite app_nil_r.
Qed.

Lemma needs_sep_false_last its : needs_separator Space (rev its) = false -> last_val its = false.
Proof.
  unfold last_val. destruct its as [|it its0] using rev_ind; [reflexivity|].
  rewrite last_opt_snoc, rev_app_distr. simpl. destruct (is_value it); [discriminate|reflexivity].
Qed.

Definition word (x : str) : bool := nonempty x && forallb notws x.

Lemma v_nodes_nil_items vw : v_nodes vw = [] <-> v_items vw = [].
Proof. unfold v_items. destruct (v_nodes vw); simpl; split; congruence. Qed.

Lemma append_value_inv x vw : inv vw -> word x = true ->
  inv (append_value Space (IV [Tok KVal x] true) vw)
  /\ view_values (append_value Space (IV [Tok KVal x] true) vw) = view_values vw ++ [x]
  /\ v_changed (append_value Space (IV [Tok KVal x] true) vw) = true.
Proof.
  intros Hinv Hw. apply inv_P in Hinv. destruct Hinv as [[s' [HP Hfin]] Hc].
  unfold append_value.
  (* phase A: a separator if one is needed *)
  assert (A : exists vwA sA, (match v_nodes vw with
                              | [] => push vw (IT (Tok KWs [SP]))
                              | _ => if needs_separator Space (rev (v_items vw))
                                     then append_separator Space true vw else vw
                              end) = vwA
                /\ P (v_items vwA) sA /\ cache_ok vwA /\ s_pv sA = false
                /\ values_of (v_items vwA) = values_of (v_items vw)).
  { destruct (v_nodes vw) as [|n0 ns] eqn:En.
    - assert (Hi : v_items vw = []) by (apply v_nodes_nil_items; assumption).
      eexists. exists (AST false false true). split; [reflexivity|]. rewrite v_items_push. splits.
      + apply P_push_IT with s'; try assumption; try reflexivity.
        destruct HP as [_ [_ [_ H4]]]. rewrite Hi in H4. simpl in H4. injection H4 as <-. reflexivity.
      + exact Hc.
      + reflexivity.
      + rewrite values_of_app. unfold values_of at 2. simpl. now rewrite app_nil_r.
    - destruct (needs_separator Space (rev (v_items vw))) eqn:Ens.
      + destruct (append_separator_P true vw s' HP Hc) as [s1 [HP1 [Hc1 [L1 [V1 Hv1]]]]].
        eexists. exists s1. split; [reflexivity|]. splits; assumption.
      + exists vw, s'. split; [reflexivity|]. splits; try assumption; try reflexivity.
        destruct (tail_state _ _ HP) as [_ T2]. rewrite T2. now apply needs_sep_false_last. }
  destruct A as [vwA [sA [-> [HPA [HcA [PvA VA]]]]]].
  destruct (append_cont_P vwA sA HPA HcA) as [s1 [HP1 [Hc1 [L1 [Pv1 [_ [V1 _]]]]]]].
  set (vw1 := append_cont_if_necessary vwA) in *.
  assert (Hs1 : s_pv s1 = false).
  { destruct (s_pv s1) eqn:E; [|reflexivity]. rewrite Pv1 in PvA by reflexivity. discriminate. }
  assert (Hok : tok_ok_sp (Tok KVal x) = true) by exact Hw.
  assert (HPf : P (v_items (push (set_changed vw1) (IV [Tok KVal x] true))) (AST false true true)).
  { rewrite v_items_push, v_items_set_changed.
    apply P_push_IV with s1; try assumption; try reflexivity. cbn [tk astep]. now rewrite L1, Hs1. }
  splits.
  - apply inv_P. split; [|exact Hc1]. eexists. split; [exact HPf|reflexivity].
  - unfold view_values. rewrite v_items_push, v_items_set_changed, values_of_app, V1, VA.
    f_equal. unfold values_of. cbn [filter is_value map]. now rewrite render_sp_item.
  - reflexivity.
Qed.

(** the value factory on a word *)
Lemma value_factory_word x : word x = true -> value_factory Space x = Ok (IV [Tok KVal x] true).
Proof.
  intros Hw. unfold word in Hw. apply andb_true_iff in Hw. destruct Hw as [Hne Hw].
  destruct x as [|c x']; [discriminate|]. set (x := c :: x') in *.
  assert (Hlb : no_lb x = true) by now apply notws_no_lb.
  assert (Hc : isws c = false).
  { cbn [forallb] in Hw. apply andb_true_iff in Hw. destruct Hw as [Hw _]. now apply negb_true_iff in Hw. }
  assert (Haw : forallb isws x = false) by (subst x; cbn [forallb]; now rewrite Hc).
  assert (Htok : tokenize Space x = Ok [Tok KVal x]).
  { unfold tokenize. unfold all_ws. rewrite Haw, andb_false_r.
    assert (Hl : lf_only x = true).
    { unfold lf_only. unfold no_lb in Hlb. rewrite forallb_forall in *. intros a Ha. now rewrite Hlb. }
    rewrite splitlines_lf_only by assumption. rewrite lines_lf_last by (try apply no_lb_no_lf; try assumption; subst x; discriminate).
    cbn [lines_tokens line_tokens negb andb bind]. rewrite no_lb_not_ends_lf by assumption.
    cbn [line_func]. unfold ws_line_tokens. rewrite Haw, andb_false_r.
    subst x. cbn [ws_finditer length]. rewrite (span_cons_false isws c x' Hc).
    rewrite (span_forall_nil notws (c :: x') Hw). cbn iota. cbn [span].
    destruct (length x'); cbn [ws_finditer span bind flat_map opt_tok app]; reflexivity. }
  unfold value_factory. fold x. unfold parse_str. rewrite Htok. cbn [bind].
  assert (Ht : toks_text [Tok KVal x] = x) by (unfold toks_text; simpl; now rewrite app_nil_r).
  rewrite Ht, Nat.eqb_refl. cbn [negb length parse_stream is_val tk kind_eqb bind].
  assert (Hi : items_text [IV [Tok KVal x] false] = x).
  { unfold items_text, item_text. cbn [map concat item_toks]. rewrite Ht. now rewrite app_nil_r. }
  rewrite Hi, Nat.eqb_refl. cbn [negb bind]. rewrite Ht, Nat.eqb_refl. subst x. reflexivity.
Qed.

Lemma good_value_word x : good_value false x = true -> word x = true.
Proof.
  unfold good_value, word. intros H. apply andb_true_iff in H. destruct H as [H H3].
  apply andb_true_iff in H. destruct H as [H1 _].
  assert (E : nonempty x = nonempty_str x) by (destruct x; reflexivity). rewrite E, H1. cbn [andb].
  apply negb_true_iff in H3. rewrite forallb_forall. intros c Hc. unfold notws.
  destruct (py_isspace c) eqn:Ec; [|reflexivity].
  assert (existsb py_isspace x = true) by (apply existsb_exists; now exists c). congruence.
Qed.

Lemma append_inv x vw : inv vw -> good_value false x = true ->
  exists vw', append Space x vw = Ok vw' /\ inv vw'
    /\ view_values vw' = view_values vw ++ [x] /\ v_changed vw' = true.
Proof.
  intros Hinv Hg. apply good_value_word in Hg. unfold append.
  rewrite value_factory_word by assumption. cbn [bind].
  destruct (append_value_inv x vw Hinv Hg) as [H1 [H2 H3]]. eexists. split; [reflexivity|]. auto.
Qed.

(** * Finding a value; the Python list operations on the values *)

Definition matches (x : str) (it : item) : bool := is_value it && str_eqb (render it) x.

Lemma find_value_some x : forall its i0 i,
  find_value x its i0 = Some i ->
  exists pre it post, its = pre ++ it :: post /\ i = i0 + length pre
    /\ matches x it = true /\ forallb (fun p => negb (matches x p)) pre = true.
Proof.
  induction its as [|it its IH]; intros i0 i H; [discriminate|].
  cbn [find_value] in H. fold (matches x it) in H. destruct (matches x it) eqn:Em.
  - injection H as <-. exists [], it, its. splits; auto; simpl; lia.
  - destruct (IH _ _ H) as [pre [it' [post [-> [-> [Hm Hp]]]]]].
    exists (it :: pre), it', post. splits; auto.
    + simpl. lia.
    + cbn [forallb]. now rewrite Em, Hp.
Qed.

Lemma find_value_none x : forall its i0,
  find_value x its i0 = None -> forallb (fun p => negb (matches x p)) its = true.
Proof.
  induction its as [|it its IH]; intros i0 H; [reflexivity|].
  cbn [find_value] in H. fold (matches x it) in H. destruct (matches x it) eqn:Em; [discriminate|].
  cbn [forallb]. rewrite Em. now apply IH in H.
Qed.

Lemma values_of_cons it its :
  values_of (it :: its) = (if is_value it then [render it] else []) ++ values_of its.
Proof. unfold values_of. cbn [filter]. destruct (is_value it); reflexivity. Qed.

Lemma nomatch_values x pre : forallb (fun p => negb (matches x p)) pre = true ->
  forallb (fun v => negb (str_eqb v x)) (values_of pre) = true.
Proof.
  induction pre as [|p pre IH]; [reflexivity|]. cbn [forallb]. intros H.
  apply andb_true_iff in H. destruct H as [Hp H]. rewrite values_of_cons, forallb_app, IH by assumption.
  rewrite andb_true_r. unfold matches in Hp. destruct (is_value p); [|reflexivity].
  cbn [forallb]. now rewrite andb_true_r.
Qed.

Lemma list_remove_first x l1 l2 : forallb (fun v => negb (str_eqb v x)) l1 = true ->
  list_remove x (l1 ++ x :: l2) = Some (l1 ++ l2).
Proof.
  induction l1 as [|v l1 IH]; intros H.
  - simpl. now rewrite str_eqb_refl.
  - cbn [forallb] in H. apply andb_true_iff in H. destruct H as [Hv H]. apply negb_true_iff in Hv.
    simpl. rewrite Hv, IH by assumption. reflexivity.
Qed.

Lemma list_remove_absent x l : forallb (fun v => negb (str_eqb v x)) l = true -> list_remove x l = None.
Proof.
  induction l as [|v l IH]; intros H; [reflexivity|].
  cbn [forallb] in H. apply andb_true_iff in H. destruct H as [Hv H]. apply negb_true_iff in Hv.
  simpl. rewrite Hv, IH by assumption. reflexivity.
Qed.

Lemma list_replace_first x y l1 l2 : forallb (fun v => negb (str_eqb v x)) l1 = true ->
  list_replace x y (l1 ++ x :: l2) = Some (l1 ++ y :: l2).
Proof.
  induction l1 as [|v l1 IH]; intros H.
  - simpl. now rewrite str_eqb_refl.
  - cbn [forallb] in H. apply andb_true_iff in H. destruct H as [Hv H]. apply negb_true_iff in Hv.
    simpl. rewrite Hv, IH by assumption. reflexivity.
Qed.

Lemma list_replace_absent x y l : forallb (fun v => negb (str_eqb v x)) l = true -> list_replace x y l = None.
Proof.
  induction l as [|v l IH]; intros H; [reflexivity|].
  cbn [forallb] in H. apply andb_true_iff in H. destruct H as [Hv H]. apply negb_true_iff in Hv.
  simpl. rewrite Hv, IH by assumption. reflexivity.
Qed.

Lemma matches_inv x it : matches x it = true -> is_value it = true /\ render it = x.
Proof. unfold matches. intros H. apply andb_true_iff in H. destruct H as [H1 H2]. now apply str_eqb_eq in H2. Qed.

(** * Splitting the invariant around a value item *)

Lemma P_app_inv a b s' : P (a ++ b) s' ->
  exists s1, P a s1 /\ arun s1 (flat b) = Some s'
    /\ forallb item_sp b = true /\ Forall (fun t => tok_ok_sp t = true) (flat b)
    /\ forallb com_lf (flat b) = true.
Proof.
  intros [H1 [H2 [H3 H4]]]. rewrite flat_app in *. rewrite forallb_app in H1, H3.
  apply andb_true_iff in H1. apply andb_true_iff in H3. apply Forall_app in H2.
  rewrite arun_app in H4. destruct (arun s0 (flat a)) as [s1|] eqn:E; [|discriminate].
  exists s1. unfold P. splits; tauto.
Qed.

Lemma P_app a b s1 s' : P a s1 -> arun s1 (flat b) = Some s' ->
  forallb item_sp b = true -> Forall (fun t => tok_ok_sp t = true) (flat b) ->
  forallb com_lf (flat b) = true -> P (a ++ b) s'.
Proof.
  intros [H1 [H2 [H3 H4]]] Hr B1 B2 B3. unfold P. rewrite flat_app. splits.
  - now rewrite forallb_app, H1, B1.
  - apply Forall_app. tauto.
  - now rewrite forallb_app, H3, B3.
  - now rewrite arun_app, H4.
Qed.

Definition SV : ast := AST false true true.

Lemma astep_val s s1 : astep s KVal = Some s1 -> s1 = SV.
Proof. cbn [astep]. destruct (s_lf s || s_pv s); [discriminate|]. now intros [= <-]. Qed.

(** a value item in the middle: the state before it admits a value, the state after it is SV *)
Lemma value_item_run it rest s s' :
  item_sp it = true -> is_value it = true -> arun s (flat (it :: rest)) = Some s' ->
  astep s KVal = Some SV /\ arun SV (flat rest) = Some s'
  /\ exists t f, it = IV [t] f /\ is_val t = true.
Proof.
  intros Hi Hv Hr. destruct (item_sp_cases it Hi) as [[t [-> _]]|[t [f [-> Ht]]]]; [discriminate|].
  rewrite flat_cons in Hr. cbn [item_toks app arun] in Hr.
  assert (Hk : tk t = KVal) by (unfold is_val in Ht; destruct (tk t); try discriminate; reflexivity).
  rewrite Hk in Hr. destruct (astep s KVal) as [s1|] eqn:Es; [|discriminate].
  pose proof (astep_val _ _ Es) as ->. splits; auto. now exists t, f.
Qed.

Lemma item_parts it : item_sp it = true ->
  Forall (fun t => tok_ok_sp t = true) (flat [it]) -> forallb com_lf (flat [it]) = true -> True.
Proof. trivial. Qed.

(** * replace *)

Lemma map_snd_set_at (ns : list node) i vt :
  map snd (set_at i (fun n => (fst n, vt)) ns) = set_at i (fun _ => vt) (map snd ns).
Proof.
  revert i. induction ns as [|n ns IH]; intros i; [destruct i; reflexivity|].
  destruct i; simpl; [reflexivity|]. now rewrite IH.
Qed.

Lemma set_at_app {A} (pre : list A) a post f : set_at (length pre) f (pre ++ a :: post) = pre ++ f a :: post.
Proof. induction pre as [|p pre IH]; simpl; [reflexivity|]. now rewrite IH. Qed.

Lemma replace_inv x y vw : inv vw -> good_value false y = true ->
  match list_replace x y (view_values vw) with
  | Some l' => exists vw', replace Space x y vw = Ok vw' /\ inv vw' /\ view_values vw' = l' /\ v_changed vw' = true
  | None => exists e, replace Space x y vw = Err e
  end.
Proof.
  intros Hinv Hg. apply good_value_word in Hg. apply inv_P in Hinv. destruct Hinv as [[s' [HP Hfin]] Hc].
  unfold replace, view_values. destruct (find_value x (v_items vw) 0) as [i|] eqn:Ef.
  - destruct (find_value_some _ _ _ _ Ef) as [pre [it [post [Eits [-> [Hm Hpre]]]]]].
    destruct (matches_inv _ _ Hm) as [Hv Hr].
    rewrite Eits, values_of_app, values_of_cons, Hv, Hr. cbn [app].
    rewrite list_replace_first by now apply nomatch_values.
    rewrite value_factory_word by assumption. cbn [bind]. eexists. split; [reflexivity|].
    assert (Hitems : v_items (set_value_at (0 + length pre) (IV [Tok KVal y] true) vw)
                     = pre ++ IV [Tok KVal y] true :: post).
    { unfold set_value_at, v_items. cbn [set_changed set_nodes v_nodes].
      rewrite map_snd_set_at. fold (v_items vw). rewrite Eits. cbn [plus]. apply set_at_app. }
    splits.
    + apply inv_P. split.
      * exists s'. split; [|exact Hfin]. rewrite Hitems. rewrite Eits in HP.
        destruct (P_app_inv _ _ _ HP) as [s1 [HPa [Hrun [B1 [B2 B3]]]]].
        cbn [forallb] in B1. apply andb_true_iff in B1. destruct B1 as [Bi B1].
        destruct (value_item_run _ _ _ _ Bi Hv Hrun) as [Hs [Hrest [t [f [-> Ht]]]]].
        rewrite flat_cons in B2, B3. cbn [item_toks app] in B2, B3.
        inversion B2 as [|? ? _ B2']; subst. cbn [forallb] in B3. apply andb_true_iff in B3. destruct B3 as [_ B3'].
        apply P_app with s1; try assumption.
        -- rewrite flat_cons. cbn [item_toks app arun tk]. now rewrite Hs.
        -- cbn [forallb item_sp is_val tk kind_eqb]. exact B1.
        -- rewrite flat_cons. cbn [item_toks app]. constructor; [exact Hg|assumption].
        -- rewrite flat_cons. cbn [item_toks app forallb]. now rewrite B3'.
      * exact Hc.
    + rewrite Hitems, values_of_app, values_of_cons. cbn [is_value app]. now rewrite render_sp_item.
    + reflexivity.
  - apply find_value_none in Ef. rewrite list_replace_absent by now apply nomatch_values.
    now eexists.
Qed.
