(** C10 proofs, part 6: both paragraph classes together, documents, histories.

    [wf_doc] (boolean) is the invariant of every document the parser produces
    and every state reachable from one: distinct names in a no-duplicates
    paragraph; in a duplicate-fields paragraph distinct node identities and a
    name index that lists, for every name, the nodes of that name in document
    order. *)
From Coq Require Import Permutation.
From Verif Require Import Lib.Base Lib.PyStr Gen.PyChars Repro.Doc Repro.StructSort
  Repro.Struct Repro.StructSpec Repro.StructLemmas Repro.StructProofsPN Repro.StructProofsPD1
  Repro.StructProofsPD2 Repro.StructProofsPD3 Repro.StructProofsPD4 Repro.StructSortProofs.

(** * The invariant as a boolean *)

Fixpoint nodupN (l : list N) : bool :=
  match l with
  | [] => true
  | a :: l' => negb (existsb (N.eqb a) l') && nodupN l'
  end.

Definition wf_dparab (d : dpara) : bool :=
  nodupN (ids (d_order d))
  && forallb (fun nf => (fst nf <? d_next d)%N) (d_order d)
  && nodupb (map fst (d_byname d))
  && forallb (fun e => negb (is_nil (snd e))
                       && list_eqb N.eqb (snd e) (ids_named (fst e) (d_order d))) (d_byname d)
  && forallb (fun nf => existsb (fun e => str_eqb (fst e) (lname (snd nf))) (d_byname d)) (d_order d).

Definition wf_parab (p : para) : bool :=
  match p with PN fs => names_nodup fs | PD d => wf_dparab d end.

Definition wf_doc (d : doc) : bool :=
  forallb (fun it => match it with Para p => wf_parab p | Other _ _ => true end) d.

Definition Wf_para (p : para) : Prop :=
  match p with PN fs => names_nodup fs = true | PD d => WfD d end.

Lemma nodupN_NoDup l : nodupN l = true <-> NoDup l.
Proof.
  induction l as [|a l IH]; cbn.
  - split; [constructor|reflexivity].
  - rewrite andb_true_iff, negb_true_iff, IH. split.
    + intros [H1 H2]. constructor; [|exact H2]. intros Hin.
      assert (existsb (N.eqb a) l = true); [|congruence].
      apply existsb_exists. exists a. split; [exact Hin|apply N.eqb_refl].
    + intros H. inversion H as [|? ? H1 H2]; subst. split; [|exact H2].
      destruct (existsb (N.eqb a) l) eqn:E; [|reflexivity].
      apply existsb_exists in E as (x & Hx & Ex). apply N.eqb_eq in Ex. subst. contradiction.
Qed.

Lemma listN_eqb_eq (a b : list N) : list_eqb N.eqb a b = true <-> a = b.
Proof. apply list_eqb_eq. intros; apply N.eqb_eq. Qed.

Lemma wf_dparab_WfD d : wf_dparab d = true <-> WfD d.
Proof.
  unfold wf_dparab. rewrite !andb_true_iff, nodupN_NoDup, nodupb_NoDup, !forallb_forall. split.
  - intros ((((H1 & H2) & H3) & H4) & H5). constructor; auto.
    + intros nf Hnf. apply N.ltb_lt. now apply H2.
    + intros k. destruct (assoc_get k (d_byname d)) as [l|] eqn:E.
      * apply assoc_get_In in E. specialize (H4 _ E). cbn [fst snd] in H4.
        apply andb_true_iff in H4 as [Hne Heq]. apply listN_eqb_eq in Heq. rewrite <- Heq.
        destruct l; [discriminate|reflexivity].
      * destruct (ids_named k (d_order d)) as [|x l] eqn:En; [reflexivity|]. exfalso.
        assert (Hx : In x (ids_named k (d_order d))) by (rewrite En; now left).
        destruct (in_ids_named _ _ _ Hx) as (nf & Hnf & _ & Hk).
        specialize (H5 _ Hnf). apply existsb_exists in H5 as (e & He & Ee).
        apply str_eqb_eq in Ee. unfold named in Hk. apply str_eqb_eq in Hk.
        apply (assoc_get_none_keys _ _ E). rewrite <- Hk, <- Ee. now apply in_map.
  - intros [H1 H2 H3 H4]. repeat split; auto.
    + intros nf Hnf. apply N.ltb_lt. now apply H2.
    + intros [k l] Hin. cbn [fst snd].
      assert (E : assoc_get k (d_byname d) = Some l).
      { clear -H3 Hin. induction (d_byname d) as [|[k' l'] bn IH]; [destruct Hin|].
        cbn in *. inversion H3 as [|? ? Hk Hn]; subst. destruct Hin as [[= -> ->]|Hin].
        - now rewrite str_eqb_refl.
        - destruct (str_eqb k k') eqn:E.
          + apply str_eqb_eq in E. subst. exfalso. apply Hk. now apply (in_map fst) in Hin.
          + now apply IH. }
      rewrite H4 in E. destruct (nonempty_opt_some _ _ E) as [-> Hne].
      apply andb_true_iff. split.
      * now destruct (ids_named k (d_order d)).
      * now apply listN_eqb_eq.
    + intros nf Hnf. specialize (H4 (lname (snd nf))).
      assert (Hx : In (fst nf) (ids_named (lname (snd nf)) (d_order d))).
      { unfold ids_named. apply in_map. apply filter_In. split; [exact Hnf|]. unfold named. apply str_eqb_refl. }
      destruct (ids_named (lname (snd nf)) (d_order d)) eqn:En; [destruct Hx|].
      cbn in H4. apply assoc_get_In in H4. apply existsb_exists.
      eexists. split; [exact H4|]. cbn. apply str_eqb_refl.
Qed.

Lemma wf_parab_Wf p : wf_parab p = true <-> Wf_para p.
Proof. destruct p; cbn; [reflexivity|apply wf_dparab_WfD]. Qed.

Definition Wf_doc (d : doc) : Prop :=
  forall p, In (Para p) d -> Wf_para p.

Lemma wf_doc_Wf d : wf_doc d = true <-> Wf_doc d.
Proof.
  unfold wf_doc, Wf_doc. rewrite forallb_forall. split.
  - intros H p Hp. apply wf_parab_Wf. exact (H _ Hp).
  - intros H [p|k t] Hin; [|reflexivity]. apply wf_parab_Wf. now apply H.
Qed.

(** the parser's choice of class produces a consistent paragraph *)
Lemma from_kvpairs_wf fs : Wf_para (from_kvpairs fs) /\ para_fields (from_kvpairs fs) = fs.
Proof.
  unfold from_kvpairs.
  change (nodupb (map (fun f : field => lower (f_name f)) fs)) with (names_nodup fs).
  destruct (names_nodup fs) eqn:E; cbn [Wf_para para_fields]; [auto|]. apply init_dup_wf.
Qed.

(** * Either class against the list reference *)

Definition flag (e : option err) : bool := match e with Some _ => true | None => false end.

Lemma para_fields_ensure p : para_fields (p_ensure_nl p) = nl (para_fields p).
Proof. destruct p as [fs|d]; cbn; [reflexivity|apply map_snd_ensure_nl]. Qed.

Lemma Wf_para_ensure p : Wf_para p -> Wf_para (p_ensure_nl p).
Proof.
  destruct p as [fs|d]; cbn; intros H.
  - change (map_last add_nl fs) with (nl fs). now rewrite names_nodup_nl.
  - exact (WfD_ensure d H).
Qed.

Theorem p_first_refines p k :
  Wf_para p ->
  In (flag (fst (p_order_first p k)), para_fields (snd (p_order_first p k)))
     (sp_cands (PFirst k) (para_fields p))
  /\ Wf_para (snd (p_order_first p k)).
Proof.
  destruct p as [fs|d]; cbn [p_order_first Wf_para para_fields lift_pn lift_pd fst snd]; intros H.
  - exact (pn_first_last_refines fs H false k).
  - exact (pd_first_last_refines false d k H).
Qed.

Theorem p_last_refines p k :
  Wf_para p ->
  In (flag (fst (p_order_last p k)), para_fields (snd (p_order_last p k)))
     (sp_cands (PLast k) (para_fields p))
  /\ Wf_para (snd (p_order_last p k)).
Proof.
  destruct p as [fs|d]; cbn [p_order_last Wf_para para_fields lift_pn lift_pd fst snd]; intros H.
  - exact (pn_first_last_refines fs H true k).
  - exact (pd_first_last_refines true d k H).
Qed.

Theorem p_rel_refines (after : bool) p k r :
  Wf_para p ->
  In (flag (fst (p_order_rel after p k r)), para_fields (snd (p_order_rel after p k r)))
     (sp_cands (if after then PAfter k r else PBefore k r) (para_fields p))
  /\ Wf_para (snd (p_order_rel after p k r)).
Proof.
  destruct p as [fs|d]; cbn [p_order_rel Wf_para para_fields lift_pn lift_pd fst snd]; intros H.
  - exact (pn_rel_refines fs H after k r).
  - exact (pd_rel_refines after d k r H).
Qed.

Theorem p_sort_refines sk p :
  Wf_para p ->
  In (false, para_fields (snd (p_sort sk p))) (sp_cands (PSort sk) (para_fields p))
  /\ Wf_para (snd (p_sort sk p)) /\ fst (p_sort sk p) = None.
Proof.
  destruct p as [fs|d]; cbn [p_sort Wf_para para_fields ok fst snd]; intros H.
  - destruct (pn_sort_refines sk fs H). auto.
  - destruct (pd_sort_refines sk d H). auto.
Qed.

Theorem p_set_kvpair_refines p k v :
  Wf_para p ->
  match p_set_kvpair p k v with
  | Ok p' => In (false, para_fields p') (sp_cands (PSetF k v) (para_fields p)) /\ Wf_para p'
  | Err _ => In (true, para_fields p) (sp_cands (PSetF k v) (para_fields p))
  end.
Proof.
  destruct p as [fs|d]; cbn [p_set_kvpair Wf_para para_fields]; intros H.
  - pose proof (pn_set_refines fs k v H) as R. destruct (nd_set_kvpair fs k v); exact R.
  - pose proof (pd_set_refines d k v H) as R. cbn zeta in R. destruct (d_set_kvpair d k v); exact R.
Qed.

Theorem p_remove_refines p k :
  Wf_para p ->
  match p_remove p k with
  | Ok p' => In (false, para_fields p') (sp_cands (PDel k) (para_fields p)) /\ Wf_para p'
  | Err _ => In (true, para_fields p) (sp_cands (PDel k) (para_fields p))
  end.
Proof.
  destruct p as [fs|d]; cbn [p_remove Wf_para para_fields]; intros H.
  - pose proof (pn_remove_refines fs k H) as R. destruct (nd_remove fs k); exact R.
  - pose proof (pd_remove_refines d k H) as R. cbn zeta in R. destruct (d_remove d k); exact R.
Qed.

(** p[k] = v ends in set_kvpair_element with the field it has built *)
Lemma bind_ok {A B} (r : result A) (f : A -> result B) b :
  bind r f = Ok b -> exists a, r = Ok a /\ f a = Ok b.
Proof. destruct r; cbn; [eauto|discriminate]. Qed.

Lemma set_raw_set_kvpair p k raw pres fc p' :
  set_raw p k raw pres fc = Ok p' -> exists fv, p_set_kvpair p k fv = Ok p'.
Proof.
  unfold set_raw. intros H.
  apply bind_ok in H as (st & _ & H). destruct st as [[comments pres'] fc'].
  apply bind_ok in H as (orig & _ & H).
  apply bind_ok in H as (u & _ & H).
  apply bind_ok in H as (v1 & _ & H).
  apply bind_ok in H as (v2 & _ & H).
  eauto.
Qed.

Lemma setitem_set_kvpair p k v p' :
  setitem p k v = Ok p' -> exists fv, p_set_kvpair p k fv = Ok p'.
Proof.
  unfold setitem. intros H. apply bind_ok in H as (orig & _ & H).
  destruct (split_on_first LF v) as [first [rest|]].
  - now apply set_raw_set_kvpair in H.
  - unfold set_simple in H. destruct (mem_char LF (py_strip v)); [discriminate|].
    now apply set_raw_set_kvpair in H.
Qed.

Theorem setitem_refines p k v p' :
  Wf_para p -> setitem p k v = Ok p' ->
  exists fv, In (false, para_fields p') (sp_cands (PSetF k fv) (para_fields p)) /\ Wf_para p'.
Proof.
  intros Hwf H. destruct (setitem_set_kvpair p k v p' H) as (fv & Hfv).
  exists fv. pose proof (p_set_kvpair_refines p k fv Hwf) as R. now rewrite Hfv in R.
Qed.

Lemma build_para_wf kvs : forall p p', Wf_para p -> build_para kvs p = Ok p' -> Wf_para p'.
Proof.
  induction kvs as [|[k v] kvs IH]; intros p p' Hwf H; cbn in H.
  - now injection H as <-.
  - apply bind_ok in H as (p1 & H1 & H2).
    destruct (setitem_refines p (KStr k) v p1 Hwf H1) as (_ & _ & Hwf1). now apply (IH p1).
Qed.

(** * Documents *)

Definition abs_item (it : item) : sitem :=
  match it with Para p => SP (para_fields p) | Other _ t => SO t end.
Definition abs (d : doc) : sdoc := map abs_item d.

Lemma dump_abs d : dump d = sdump (abs d).
Proof.
  unfold dump, sdump, abs. rewrite map_map. f_equal. apply map_ext. now intros [p|k t].
Qed.

Lemma abs_app a b : abs (a ++ b) = abs a ++ abs b.
Proof. apply map_app. Qed.

Fixpoint split_doc (d : doc) (j : nat) : option (doc * para * doc) :=
  match d with
  | [] => None
  | Para p :: d' =>
      match j with
      | O => Some ([], p, d')
      | S j' => match split_doc d' j' with
                | Some (a, x, b) => Some (Para p :: a, x, b)
                | None => None
                end
      end
  | it :: d' => match split_doc d' j with
                | Some (a, x, b) => Some (it :: a, x, b)
                | None => None
                end
  end.

Lemma split_doc_spec d : forall j,
  match split_doc d j with
  | Some (a, p, b) =>
      d = a ++ Para p :: b
      /\ split_para (abs d) j = Some (abs a, para_fields p, abs b)
      /\ (forall f, update_para_s d j f = (fst (f p), a ++ Para (snd (f p)) :: b))
      /\ nth_error (paras d) j = Some p
  | None =>
      split_para (abs d) j = None
      /\ (forall f, update_para_s d j f = (Some IndexError, d))
      /\ nth_error (paras d) j = None
  end.
Proof.
  induction d as [|[p|k t] d IH]; intros j.
  - cbn. repeat split; now destruct j.
  - destruct j as [|j].
    + cbn. repeat split. intros f. now destruct (f p).
    + specialize (IH j). cbn [split_doc]. destruct (split_doc d j) as [[[a x] b]|].
      * destruct IH as (E & Hs & Hu & Hn). cbn [abs map abs_item split_para]. fold (abs d). rewrite Hs.
        repeat split; [cbn; now rewrite E| |exact Hn].
        intros f. cbn [update_para_s]. now rewrite Hu.
      * destruct IH as (Hs & Hu & Hn). cbn [abs map abs_item split_para]. fold (abs d). rewrite Hs.
        repeat split; [|exact Hn]. intros f. cbn [update_para_s]. now rewrite Hu.
  - specialize (IH j). cbn [split_doc]. destruct (split_doc d j) as [[[a x] b]|].
    + destruct IH as (E & Hs & Hu & Hn). cbn [abs map abs_item split_para]. fold (abs d). rewrite Hs.
      repeat split; [cbn; now rewrite E| |exact Hn].
      intros f. cbn [update_para_s]. now rewrite Hu.
    + destruct IH as (Hs & Hu & Hn). cbn [abs map abs_item split_para]. fold (abs d). rewrite Hs.
      repeat split; [|exact Hn]. intros f. cbn [update_para_s]. now rewrite Hu.
Qed.

Lemma Wf_doc_app a b : Wf_doc (a ++ b) <-> Wf_doc a /\ Wf_doc b.
Proof.
  unfold Wf_doc. split.
  - intros H. split; intros p Hp; apply H; apply in_or_app; auto.
  - intros [Ha Hb] p Hp. apply in_app_or in Hp as [Hp|Hp]; auto.
Qed.

Lemma Wf_doc_cons_para p d : Wf_doc (Para p :: d) <-> Wf_para p /\ Wf_doc d.
Proof.
  unfold Wf_doc. split.
  - intros H. split; [apply H; now left|]. intros q Hq. apply H. now right.
  - intros [Hp Hd] q [[= <-]|Hq]; auto.
Qed.

Lemma Wf_doc_cons_other k t d : Wf_doc (Other k t :: d) <-> Wf_doc d.
Proof.
  unfold Wf_doc. split.
  - intros H q Hq. apply H. now right.
  - intros Hd q [Hq|Hq]; [discriminate|auto].
Qed.

Lemma Wf_doc_replace a p p' b : Wf_doc (a ++ Para p :: b) -> Wf_para p' -> Wf_doc (a ++ Para p' :: b).
Proof.
  rewrite !Wf_doc_app, !Wf_doc_cons_para. intros (Ha & _ & Hb) Hp. auto.
Qed.

Lemma Wf_doc_mid a p b : Wf_doc (a ++ Para p :: b) -> Wf_para p.
Proof. rewrite Wf_doc_app, Wf_doc_cons_para. tauto. Qed.

(** * The reference's view of an operation *)

Inductive op_rel : sop -> dop -> Prop :=
| OR_first j k : op_rel (SFirst j k) (DPara j (PFirst k))
| OR_last j k : op_rel (SLast j k) (DPara j (PLast k))
| OR_before j k r : op_rel (SBefore j k r) (DPara j (PBefore k r))
| OR_after j k r : op_rel (SAfter j k r) (DPara j (PAfter k r))
| OR_sort j sk : op_rel (SSort j sk) (DPara j (PSort sk))
| OR_set j k v fv : op_rel (SSet j k v) (DPara j (PSetF k fv))      (* fv: the field p[k] = v built *)
| OR_del j k : op_rel (SDel j k) (DPara j (PDel k))
| OR_append kvs fs : op_rel (SAppend kvs) (DAppend fs)               (* fs: the paragraph that was built *)
| OR_insert i kvs fs : op_rel (SInsert i kvs) (DInsert i fs)
| OR_reappend j : op_rel (SReappend j) (DReappend j).

(** the operation addresses an existing paragraph / a non-negative position *)
Definition op_in_range (d : doc) (o : sop) : bool :=
  match o with
  | SFirst j _ | SLast j _ | SBefore j _ _ | SAfter j _ _ | SSort j _ | SSet j _ _ | SDel j _
  | SReappend j => (j <? length (paras d))%nat
  | SAppend _ => true
  | SInsert i _ => (0 <=? i)%Z
  end.

(** operations whose refusal the reference speaks about (the others fail while
    the VALUE is being turned into a field, which is C05's subject) *)
Definition structural (o : sop) : bool :=
  match o with
  | SSet _ _ _ | SAppend _ | SInsert _ _ => false
  | _ => true
  end.

(** unchanged, or only the missing final newline of one paragraph supplied *)
Definition same_up_to_newline (s s' : sdoc) : Prop :=
  s' = s \/ exists a fs b, s = a ++ SP fs :: b /\ s' = a ++ SP (nl fs) :: b.

Lemma sp_cands_refused po fs x : In (true, x) (sp_cands po fs) -> x = fs \/ x = nl fs.
Proof.
  rewrite sp_cands_unfold. unfold refused. destruct (sp_plan po fs) as [[pl neg]|].
  - cbn [app]. intros [H|[H|H]]; try discriminate.
    destruct neg; cbn in H; [|tauto]. destruct H as [[= ->]|[[= ->]|[]]]; auto.
  - cbn. intros [[= ->]|[[= ->]|[]]]; auto.
Qed.

Lemma para_cands_in (s : sdoc) j po a fs b flg fs' :
  split_para s j = Some (a, fs, b) -> In (flg, fs') (sp_cands po fs) ->
  exists cs, s_cands s (DPara j po) = Some cs /\ In (flg, a ++ SP fs' :: b) cs.
Proof.
  intros Hs Hin. cbn [s_cands]. rewrite Hs. eexists. split; [reflexivity|].
  apply in_map_iff. exists (flg, fs'). split; [reflexivity|exact Hin].
Qed.

Lemma split_para_eq (s : sdoc) : forall j a fs b, split_para s j = Some (a, fs, b) -> s = a ++ SP fs :: b.
Proof.
  induction s as [|[gs|t] s IH]; intros j a fs b H; [discriminate| |].
  - destruct j as [|j]; cbn in H.
    + now injection H as <- <- <-.
    + destruct (split_para s j) as [[[a' x] b']|] eqn:E; [|discriminate].
      injection H as <- <- <-. cbn. now rewrite (IH _ _ _ _ E).
  - cbn in H. destruct (split_para s j) as [[[a' x] b']|] eqn:E; [|discriminate].
    injection H as <- <- <-. cbn. now rewrite (IH _ _ _ _ E).
Qed.

(** one paragraph-level operation, lifted to the document *)
Lemma para_step_refines d j (f : para -> sres para) po :
  Wf_doc d -> (j <? length (paras d))%nat = true ->
  (forall p, Wf_para p ->
     In (flag (fst (f p)), para_fields (snd (f p))) (sp_cands po (para_fields p))
     /\ Wf_para (snd (f p))) ->
  let r := update_para_s d j f in
  Wf_doc (snd r)
  /\ exists cs, s_cands (abs d) (DPara j po) = Some cs /\ In (flag (fst r), abs (snd r)) cs.
Proof.
  intros Hwf Hj Hf. cbn zeta. pose proof (split_doc_spec d j) as H.
  destruct (split_doc d j) as [[[a p] b]|].
  - destruct H as (E & Hs & Hu & _). rewrite (Hu f). cbn [fst snd].
    assert (Hp : Wf_para p) by (rewrite E in Hwf; now apply Wf_doc_mid in Hwf).
    destruct (Hf p Hp) as [Hin Hwf'].
    split; [rewrite E in Hwf; now apply (Wf_doc_replace a p _ b Hwf)|].
    destruct (para_cands_in (abs d) j po _ _ _ _ _ Hs Hin) as (cs & Hcs & Hc).
    exists cs. split; [exact Hcs|]. now rewrite abs_app.
  - destruct H as (_ & _ & Hn). apply Nat.ltb_lt in Hj. apply nth_error_None in Hn. lia.
Qed.

(** * Deb822FileElement.append / insert *)

Lemma abs_item_ensure it : abs_item (ensure_item it) = nl_item (abs_item it).
Proof. destruct it as [p|k t]; cbn; [now rewrite para_fields_ensure|reflexivity]. Qed.

Lemma abs_ensure_last d : abs (map_last ensure_item d) = nl_end (abs d).
Proof.
  destruct (list_snoc_cases d) as [->|(a & t & ->)]; [reflexivity|].
  unfold nl_end. rewrite map_last_snoc, !abs_app. cbn [abs map]. rewrite map_last_snoc.
  now rewrite abs_item_ensure.
Qed.

Lemma Wf_doc_ensure_last d : Wf_doc d -> Wf_doc (map_last ensure_item d).
Proof.
  destruct (list_snoc_cases d) as [->|(a & t & ->)]; [auto|].
  rewrite map_last_snoc, !Wf_doc_app. intros [Ha Ht]. split; [exact Ha|].
  destruct t as [p|k t]; cbn [ensure_item]; [|exact Ht].
  apply Wf_doc_cons_para. apply Wf_doc_cons_para in Ht as [Hp _]. split; [now apply Wf_para_ensure|].
  intros q [].
Qed.

Lemma Wf_doc_snoc_other d k t : Wf_doc d -> Wf_doc (d ++ [Other k t]).
Proof. intros H. apply Wf_doc_app. split; [exact H|]. intros q [Hq|[]]. discriminate. Qed.

Lemma Wf_doc_snoc_para d p : Wf_doc d -> Wf_para p -> Wf_doc (d ++ [Para p]).
Proof. intros H Hp. apply Wf_doc_app. split; [exact H|]. intros q [[= <-]|[]]. exact Hp. Qed.

Lemma f_append_refines d p :
  Wf_doc d -> Wf_para p ->
  In (false, abs (f_append d p)) (append_cands (abs d) (para_fields p)) /\ Wf_doc (f_append d p).
Proof.
  intros Hwf Hp. unfold f_append, append_cands. cbn [flat_map]. rewrite app_nil_r.
  destruct (last_opt d) as [t|] eqn:El.
  2:{ split; [|now apply Wf_doc_snoc_para]. rewrite abs_app. cbn. auto 10. }
  destruct (ends_nl (item_text t)).
  - destruct (item_is_ws t).
    + split; [|now apply Wf_doc_snoc_para]. rewrite abs_app. cbn. auto 10.
    + split; [|apply Wf_doc_snoc_para; [now apply Wf_doc_snoc_other|exact Hp]].
      rewrite !abs_app. cbn. rewrite <- app_assoc. cbn. auto 10.
  - destruct t as [q|k t].
    + cbn [item_is_ws]. split.
      * rewrite !abs_app, abs_ensure_last. cbn. rewrite <- app_assoc. cbn. auto 10.
      * apply Wf_doc_snoc_para; [|exact Hp]. apply Wf_doc_snoc_other. now apply Wf_doc_ensure_last.
    + destruct (item_is_ws (Other k t)).
      * split; [|apply Wf_doc_snoc_para; [now apply Wf_doc_snoc_other|exact Hp]].
        rewrite !abs_app. cbn. rewrite <- app_assoc. cbn. auto 10.
      * split; [|apply Wf_doc_snoc_para; [now apply Wf_doc_snoc_other; apply Wf_doc_snoc_other|exact Hp]].
        rewrite !abs_app. cbn. rewrite <- !app_assoc. cbn. auto 10.
Qed.

Lemma count_paras_abs d : count_paras (abs d) = length (paras d).
Proof.
  unfold paras. induction d as [|[p|k t] d IH]; [reflexivity| |exact IH].
  cbn [abs map abs_item count_paras flat_map app length]. f_equal. exact IH.
Qed.

Lemma in_insert_cands (s : sdoc) i pos p x :
  pos <= length s -> count_paras (firstn pos s) = i -> In x (insert_at s pos p) ->
  In x (insert_cands s i p).
Proof.
  intros Hpos Hc Hx. unfold insert_cands. apply in_flat_map. exists pos. split.
  - apply -> in_rev. apply in_seq. lia.
  - apply Nat.eqb_eq in Hc. now rewrite Hc.
Qed.

Lemma firstn_abs n d : firstn n (abs d) = abs (firstn n d).
Proof. unfold abs. apply firstn_map. Qed.

Lemma skipn_abs n d : skipn n (abs d) = abs (skipn n d).
Proof. unfold abs. apply skipn_map. Qed.

Lemma ins_walk_spec d : forall idx i p, (i <= idx)%Z ->
  match ins_walk d idx i p with
  | Some r =>
      exists pos, pos < length d
                  /\ r = firstn pos d ++ Para p :: WSNL :: skipn pos d
                  /\ Z.of_nat (count_paras (firstn pos (abs d))) = (idx - i)%Z
                  /\ (idx - i < Z.of_nat (count_paras (abs d)))%Z
  | None => (Z.of_nat (count_paras (abs d)) <= idx - i)%Z
  end.
Proof.
  induction d as [|it d IH]; intros idx i p Hle; cbn [ins_walk].
  - cbn. lia.
  - destruct it as [q|k t].
    + destruct (idx =? i + 1 - 1)%Z eqn:E.
      * apply Z.eqb_eq in E. exists 0. cbn [length firstn skipn app abs map count_paras abs_item].
        repeat split; lia.
      * apply Z.eqb_neq in E. specialize (IH idx (i + 1)%Z p ltac:(lia)).
        destruct (ins_walk d idx (i + 1) p) as [r|].
        -- destruct IH as (pos & Hp & -> & Hc & Hlt). exists (S pos).
           cbn [length firstn skipn app abs map count_paras abs_item]. fold (abs d).
           repeat split; try lia.
        -- cbn [abs map count_paras abs_item]. fold (abs d). lia.
    + destruct (idx =? i - 1)%Z eqn:E; [apply Z.eqb_eq in E; lia|].
      specialize (IH idx i p Hle).
      destruct (ins_walk d idx i p) as [r|].
      * destruct IH as (pos & Hp & -> & Hc & Hlt). exists (S pos).
        cbn [length firstn skipn app abs map count_paras abs_item]. fold (abs d).
        repeat split; try lia.
      * cbn [abs map count_paras abs_item]. fold (abs d). lia.
Qed.

Lemma Wf_doc_firstn n d : Wf_doc d -> Wf_doc (firstn n d).
Proof. intros H q Hq. apply H. rewrite <- (firstn_skipn n d). apply in_or_app. now left. Qed.

Lemma Wf_doc_skipn n d : Wf_doc d -> Wf_doc (skipn n d).
Proof. intros H q Hq. apply H. rewrite <- (firstn_skipn n d). apply in_or_app. now right. Qed.

Lemma f_insert_refines d idx p :
  Wf_doc d -> Wf_para p -> (0 <=? idx)%Z = true ->
  (exists cs, s_cands (abs d) (DInsert idx (para_fields p)) = Some cs
              /\ In (false, abs (f_insert d idx p)) cs)
  /\ Wf_doc (f_insert d idx p).
Proof.
  intros Hwf Hp Hidx. apply Z.leb_le in Hidx.
  assert (Hneg : (idx <? 0)%Z = false) by (apply Z.ltb_ge; lia).
  cbn [s_cands]. rewrite Hneg. unfold f_insert.
  destruct (idx =? 0)%Z eqn:E0.
  - apply Z.eqb_eq in E0. subst idx. cbn [Z.to_nat].
    destruct d as [|it d].
    + destruct (f_append_refines [] p Hwf Hp) as [Hin Hw]. split; [|exact Hw].
      cbn [abs map count_paras Nat.ltb Nat.leb]. eexists. split; [reflexivity|].
      apply in_or_app. now left.
    + split.
      * set (s := abs (it :: d)).
        assert (Hin : In (false, abs (Para p :: WSNL :: it :: d)) (insert_cands s 0 (para_fields p))).
        { apply (in_insert_cands s 0 0); [lia|reflexivity|]. cbn. left. reflexivity. }
        destruct (0 <? count_paras s)%nat eqn:Ec.
        -- eexists. split; [reflexivity|exact Hin].
        -- apply Nat.ltb_ge in Ec. assert (Ec0 : count_paras s = 0) by lia.
           eexists. split; [reflexivity|]. apply in_or_app. right. now rewrite Ec0.
      * apply Wf_doc_cons_para. split; [exact Hp|]. now apply Wf_doc_cons_other.
  - apply Z.eqb_neq in E0. pose proof (ins_walk_spec d idx 0 p ltac:(lia)) as Hw.
    destruct (ins_walk d idx 0 p) as [r|].
    + destruct Hw as (pos & Hpos & -> & Hc & Hlt). rewrite Z.sub_0_r in *. split.
      * assert (Elt : (Z.to_nat idx <? count_paras (abs d))%nat = true) by (apply Nat.ltb_lt; lia).
        rewrite Elt. eexists. split; [reflexivity|].
        apply (in_insert_cands (abs d) (Z.to_nat idx) pos).
        -- unfold abs. rewrite map_length. lia.
        -- lia.
        -- cbn. left. rewrite firstn_abs, skipn_abs, abs_app. reflexivity.
      * apply Wf_doc_app. split; [now apply Wf_doc_firstn|].
        apply Wf_doc_cons_para. split; [exact Hp|]. apply Wf_doc_cons_other. now apply Wf_doc_skipn.
    + rewrite Z.sub_0_r in Hw. destruct (f_append_refines d p Hwf Hp) as [Hin Hw']. split; [|exact Hw'].
      assert (Elt : (Z.to_nat idx <? count_paras (abs d))%nat = false) by (apply Nat.ltb_ge; lia).
      rewrite Elt. eexists. split; [reflexivity|]. apply in_or_app. now left.
Qed.

(** * One operation *)

Definition step_ok (d : doc) (o : sop) (r : sres doc) : Prop :=
  Wf_doc (snd r)
  /\ match fst r with
     | None =>
         exists so cs, op_rel o so /\ s_cands (abs d) so = Some cs /\ In (false, abs (snd r)) cs
     | Some _ =>
         if structural o
         then exists so cs, op_rel o so /\ s_cands (abs d) so = Some cs /\ In (true, abs (snd r)) cs
         else snd r = d
     end.

Lemma para_conclude d o j po (r : sres doc) :
  op_rel o (DPara j po) -> structural o = true ->
  Wf_doc (snd r)
  /\ (exists cs, s_cands (abs d) (DPara j po) = Some cs /\ In (flag (fst r), abs (snd r)) cs) ->
  step_ok d o r.
Proof.
  intros Hrel Hst [Hwf (cs & Hcs & Hin)]. split; [exact Hwf|].
  destruct (fst r) as [e|]; cbn [flag] in Hin; [rewrite Hst|]; eauto.
Qed.

Theorem step_refines d o :
  Wf_doc d -> op_in_range d o = true -> step_ok d o (s_step d o).
Proof.
  intros Hwf Hr. destruct o as [j k|j k|j k r|j k r|j sk|j k v|j k|kvs|i kvs|j]; cbn [s_step op_in_range] in *.
  - apply (para_conclude d _ j (PFirst k)); [constructor|reflexivity|].
    apply para_step_refines; auto. intros p Hp. now apply p_first_refines.
  - apply (para_conclude d _ j (PLast k)); [constructor|reflexivity|].
    apply para_step_refines; auto. intros p Hp. now apply p_last_refines.
  - apply (para_conclude d _ j (PBefore k r)); [constructor|reflexivity|].
    apply para_step_refines; auto. intros p Hp. now apply (p_rel_refines false).
  - apply (para_conclude d _ j (PAfter k r)); [constructor|reflexivity|].
    apply para_step_refines; auto. intros p Hp. now apply (p_rel_refines true).
  - apply (para_conclude d _ j (PSort sk)); [constructor|reflexivity|].
    apply para_step_refines; auto. intros p Hp.
    destruct (p_sort_refines sk p Hp) as (H1 & H2 & H3). rewrite H3. cbn [flag]. auto.
  - (* p[k] = v *)
    pose proof (split_doc_spec d j) as H. destruct (split_doc d j) as [[[a p] b]|].
    2:{ destruct H as (_ & _ & Hn). apply Nat.ltb_lt in Hr. apply nth_error_None in Hn. lia. }
    destruct H as (E & Hs & Hu & _). rewrite (Hu _). unfold lift_res.
    assert (Hp : Wf_para p) by (rewrite E in Hwf; now apply Wf_doc_mid in Hwf).
    destruct (setitem p k v) as [p'|e] eqn:Eset; cbn [fst snd ok fail].
    + destruct (setitem_refines p k v p' Hp Eset) as (fv & Hin & Hwf').
      split; [rewrite E in Hwf; now apply (Wf_doc_replace a p p' b Hwf)|].
      destruct (para_cands_in (abs d) j (PSetF k fv) _ _ _ _ _ Hs Hin) as (cs & Hcs & Hc).
      exists (DPara j (PSetF k fv)), cs. repeat split; [constructor|exact Hcs|]. cbn [snd]. now rewrite abs_app.
    + rewrite <- E. split; [exact Hwf|reflexivity].
  - apply (para_conclude d _ j (PDel k)); [constructor|reflexivity|].
    apply para_step_refines; auto. intros p Hp. unfold lift_res.
    pose proof (p_remove_refines p k Hp) as R.
    destruct (p_remove p k) as [p'|e]; cbn [fst snd ok fail flag]; [exact R|auto].
  - (* append *)
    destruct (build_para kvs (PN [])) as [p|e] eqn:Eb; cbn [fst snd ok fail].
    + assert (Hp : Wf_para p) by (apply (build_para_wf kvs (PN []) p); [reflexivity|exact Eb]).
      destruct (f_append_refines d p Hwf Hp) as [Hin Hw]. split; [exact Hw|].
      exists (DAppend (para_fields p)), (append_cands (abs d) (para_fields p)).
      repeat split; [constructor|exact Hin].
    + split; [exact Hwf|reflexivity].
  - (* insert *)
    destruct (build_para kvs (PN [])) as [p|e] eqn:Eb; cbn [fst snd ok fail].
    + assert (Hp : Wf_para p) by (apply (build_para_wf kvs (PN []) p); [reflexivity|exact Eb]).
      destruct (f_insert_refines d i p Hwf Hp Hr) as [(cs & Hcs & Hin) Hw]. split; [exact Hw|].
      exists (DInsert i (para_fields p)), cs. repeat split; [constructor|exact Hcs|exact Hin].
    + split; [exact Hwf|reflexivity].
  - (* a paragraph that is already part of the file *)
    pose proof (split_doc_spec d j) as H. destruct (split_doc d j) as [[[a p] b]|].
    2:{ destruct H as (_ & _ & Hn). apply Nat.ltb_lt in Hr. apply nth_error_None in Hn. lia. }
    destruct H as (_ & Hs & _ & Hn). rewrite Hn. cbn [fst snd fail].
    split; [exact Hwf|]. cbn [structural].
    exists (DReappend j), [(true, abs d)]. repeat split; [constructor| |now left].
    cbn [s_cands]. now rewrite Hs.
Qed.

(** * Refused operations *)

Lemma para_refused (s : sdoc) j po cs s' :
  s_cands s (DPara j po) = Some cs -> In (true, s') cs -> same_up_to_newline s s'.
Proof.
  cbn [s_cands]. destruct (split_para s j) as [[[a fs] b]|] eqn:Es; [|discriminate].
  intros [= <-] Hin. apply in_map_iff in Hin as ([flg x] & E & Hin). cbn [fst snd] in E.
  injection E as -> <-. rewrite (split_para_eq s j a fs b Es).
  destruct (sp_cands_refused po fs x Hin) as [->| ->]; [now left|right; eauto].
Qed.

Lemma append_cands_accept s p flg x : In (flg, x) (append_cands s p) -> flg = false.
Proof.
  unfold append_cands. cbn [flat_map]. rewrite app_nil_r. cbn.
  intros H. repeat (destruct H as [[= <- _]|H]; [reflexivity|]). destruct H.
Qed.

Lemma insert_cands_accept s i p flg x : In (flg, x) (insert_cands s i p) -> flg = false.
Proof.
  unfold insert_cands. intros H. apply in_flat_map in H as (pos & _ & H).
  destruct (count_paras (firstn pos s) =? i)%nat; [|destruct H].
  cbn in H. repeat (destruct H as [[= <- _]|H]; [reflexivity|]). destruct H.
Qed.

Lemma refused_same (s : sdoc) so cs s' :
  s_cands s so = Some cs -> In (true, s') cs -> same_up_to_newline s s'.
Proof.
  destruct so as [j po|p|i p|j].
  - apply para_refused.
  - unfold s_cands. intros [= <-] H. apply append_cands_accept in H. discriminate.
  - unfold s_cands. destruct (i <? 0)%Z; [discriminate|].
    destruct (_ <? _)%nat; intros [= <-] H.
    + apply insert_cands_accept in H. discriminate.
    + assert (H' : In (true, s') (append_cands s p ++ insert_cands s (count_paras s) p)) by exact H.
      apply in_app_or in H' as [H'|H']; [apply append_cands_accept in H'|apply insert_cands_accept in H'];
        discriminate.
  - cbn [s_cands]. destruct (split_para s j); [|discriminate]. intros [= <-] [[= <-]|[]]. now left.
Qed.

Theorem errors_unchanged d o e :
  Wf_doc d -> op_in_range d o = true -> fst (s_step d o) = Some e ->
  same_up_to_newline (abs d) (abs (snd (s_step d o))).
Proof.
  intros Hwf Hr He. destruct (step_refines d o Hwf Hr) as [_ H]. rewrite He in H.
  destruct (structural o).
  - destruct H as (so & cs & _ & Hcs & Hin). now apply (refused_same _ so cs).
  - rewrite H. now left.
Qed.

(** * Histories *)

(** [s'] can be reached from [s] by reference steps that explain [ops] *)
Inductive sreach : sdoc -> list sop -> sdoc -> Prop :=
| sreach_nil s : sreach s [] s
| sreach_cons s o ops so cs flg s1 s2 :
    op_rel o so -> s_cands s so = Some cs -> In (flg, s1) cs ->
    sreach s1 ops s2 -> sreach s (o :: ops) s2
| sreach_value_refused s o ops s2 :       (* a value the dict interface could not turn into a field *)
    structural o = false -> sreach s ops s2 -> sreach s (o :: ops) s2.

Fixpoint ops_in_range (d : doc) (ops : list sop) : bool :=
  match ops with
  | [] => true
  | o :: ops' => op_in_range d o && ops_in_range (snd (s_step d o)) ops'
  end.

Theorem run_wf ops : forall d, Wf_doc d -> ops_in_range d ops = true -> Wf_doc (s_run d ops).
Proof.
  induction ops as [|o ops IH]; intros d Hwf Hr; [exact Hwf|].
  cbn [ops_in_range] in Hr. apply andb_true_iff in Hr as [Hr1 Hr2].
  unfold s_run. cbn [fold_left]. apply IH; [|exact Hr2].
  now destruct (step_refines d o Hwf Hr1).
Qed.

Theorem run_refines ops : forall d,
  Wf_doc d -> ops_in_range d ops = true -> sreach (abs d) ops (abs (s_run d ops)).
Proof.
  induction ops as [|o ops IH]; intros d Hwf Hr; [constructor|].
  cbn [ops_in_range] in Hr. apply andb_true_iff in Hr as [Hr1 Hr2].
  unfold s_run. cbn [fold_left]. fold (s_run (snd (s_step d o)) ops).
  destruct (step_refines d o Hwf Hr1) as [Hwf1 Hstep].
  specialize (IH _ Hwf1 Hr2).
  destruct (fst (s_step d o)) as [e|].
  - destruct (structural o) eqn:Es.
    + destruct Hstep as (so & cs & Hrel & Hcs & Hin).
      now apply (sreach_cons _ o ops so cs true (abs (snd (s_step d o)))).
    + apply sreach_value_refused; [exact Es|]. rewrite Hstep in IH |- *. exact IH.
  - destruct Hstep as (so & cs & Hrel & Hcs & Hin).
    now apply (sreach_cons _ o ops so cs false (abs (snd (s_step d o)))).
Qed.

(** * (name, i) is the i-th field of that name in document order *)

Lemma first_true_map {X} (p : X -> bool) l : forall q,
  first_true (map p l) q = match index_of p l with Some i => Some (q + i) | None => None end.
Proof.
  induction l as [|x l IH]; intros q; cbn; [reflexivity|].
  destruct (p x); [now rewrite Nat.add_0_r|].
  rewrite IH. destruct (index_of p l); [f_equal; lia|reflexivity].
Qed.

Lemma index_of_ext {X} (p q : X -> bool) l : (forall x, In x l -> p x = q x) -> index_of p l = index_of q l.
Proof.
  induction l as [|x l IH]; intros H; cbn; [reflexivity|].
  rewrite (H x (or_introl eq_refl)). destruct (q x); [reflexivity|].
  rewrite IH; [reflexivity|]. intros y Hy. apply H. now right.
Qed.

Lemma index_of_in {X} (p : X -> bool) l x : In x l -> p x = true -> index_of p l <> None.
Proof.
  induction l as [|y l IH]; cbn; [tauto|]. intros [->|Hin] Hp.
  - now rewrite Hp.
  - destruct (p y); [discriminate|]. specialize (IH Hin Hp). now destruct (index_of p l).
Qed.

Definition answer (r : result nat) : option nat := match r with Ok q => Some q | Err _ => None end.

Lemma option_eqb_nat_refl (a : option nat) : option_eqb Nat.eqb a a = true.
Proof. destruct a; cbn; [apply Nat.eqb_refl|reflexivity]. Qed.

Theorem position_is_ith p n i :
  Wf_para p -> position_ok (para_fields p) n i (answer (p_position p n i)) = true.
Proof.
  intros Hwf. unfold position_ok. destruct p as [fs|d]; cbn [para_fields p_position Wf_para] in *.
  - (* no-duplicates class: only (name, 0) *)
    unfold nd_get. cbn [unpack_key].
    destruct (i =? 0)%Z eqn:E0.
    + apply Z.eqb_eq in E0. subst i. cbn [bind fst Z.leb Z.compare Z.to_nat].
      destruct (List.find (has_name n) fs) as [f|] eqn:Ef.
      * cbn [bind]. destruct (find_split _ _ _ Ef) as (a & b & -> & Hf & Ha).
        destruct (names_nodup_split n a f b Hwf Hf) as [_ Hb].
        assert (Hc : forall g, has_name (f_name f) g = has_name n g).
        { intros g. apply has_name_cong. exact Hf. }
        rewrite (index_of_ext (has_name (f_name f)) (has_name n)) by (intros; apply Hc).
        unfold occ_position. rewrite (occ_count_alone n a f b Ha Hf Hb). cbn [Nat.ltb Nat.leb].
        rewrite (mask_nth0_alone n a f b Ha Hf Hb), first_true_map.
        destruct (index_of (has_name n) (a ++ f :: b)) eqn:Ei.
        -- cbn. apply Nat.eqb_refl.
        -- exfalso. apply (index_of_in (has_name n) (a ++ f :: b) f); auto. apply in_or_app. right. now left.
      * cbn. unfold occ_position. now rewrite (occ_count_absent n fs (find_none_forall _ _ Ef)).
    + cbn [bind answer]. destruct (0 <=? i)%Z eqn:Ei; [|reflexivity].
      apply Z.eqb_neq in E0. apply Z.leb_le in Ei. unfold occ_position.
      pose proof (occ_count_le1 n fs Hwf) as Hc.
      assert (E : (Z.to_nat i <? occ_count n fs)%nat = false) by (apply Nat.ltb_ge; lia).
      now rewrite E.
  - (* duplicate-fields class *)
    set (o := d_order d). rewrite (lookup_named d (lower n) Hwf). fold o.
    pose proof (occ_count_ids n o) as Hcount.
    assert (Hn : NoDup (ids o)) by apply (wf_ids d Hwf).
    destruct (ids_named (lower n) o) as [|x0 rest] eqn:Enodes; cbn [nonempty_opt].
    + cbn [answer]. cbn [length] in Hcount. unfold occ_position. rewrite Hcount.
      destruct (0 <=? i)%Z; reflexivity.
    + rewrite <- Enodes in *. unfold resolve_single.
      set (nodes := ids_named (lower n) o) in *.
      rewrite py_index_spec. cbn zeta.
      set (c := length nodes) in *.
      set (j := if (i <? 0)%Z then (i + Z.of_nat c)%Z else i).
      destruct ((j <? 0)%Z || (Z.of_nat c <=? j)%Z) eqn:Eb.
      * cbn [answer]. destruct (0 <=? i)%Z eqn:Ei; [|reflexivity].
        apply Z.leb_le in Ei. assert (Eneg : (i <? 0)%Z = false) by (apply Z.ltb_ge; lia).
        unfold j in Eb. rewrite Eneg in Eb. apply orb_true_iff in Eb as [Eb|Eb]; [apply Z.ltb_lt in Eb; lia|].
        apply Z.leb_le in Eb. unfold occ_position. rewrite Hcount.
        assert (E : (Z.to_nat i <? c)%nat = false) by (apply Nat.ltb_ge; lia). now rewrite E.
      * apply orb_false_iff in Eb as [Eb1 Eb2]. apply Z.ltb_ge in Eb1. apply Z.leb_gt in Eb2.
        destruct (nth_error nodes (Z.to_nat j)) as [id|] eqn:Eid.
        2:{ apply nth_error_None in Eid. fold c in Eid. lia. }
        assert (Hid : In id nodes) by (eapply nth_error_In; exact Eid).
        destruct (in_ids_named _ _ _ Hid) as (nx & Hnx & <- & _).
        destruct (index_of (is_node (fst nx)) o) as [q|] eqn:Eq.
        2:{ exfalso. apply (index_of_in (is_node (fst nx)) o nx Hnx); [|exact Eq].
            unfold is_node. apply N.eqb_refl. }
        cbn [answer].
        assert (Hocc : occ_position n (Z.to_nat j) (map snd o) = Some q).
        { unfold occ_position. rewrite Hcount.
          assert (E : (Z.to_nat j <? c)%nat = true) by (apply Nat.ltb_lt; lia). rewrite E.
          rewrite <- (idmask_single n o (Z.to_nat j) (fst nx) Hn Eid).
          rewrite idmask_isin, first_true_map.
          rewrite (index_of_ext (isin [fst nx]) (is_node (fst nx))) by (intros; apply isin_single).
          now rewrite Eq. }
        destruct (0 <=? i)%Z eqn:Ei.
        -- apply Z.leb_le in Ei. assert (Eneg : (i <? 0)%Z = false) by (apply Z.ltb_ge; lia).
           unfold j in Hocc. rewrite Eneg in Hocc. rewrite Hocc. cbn. apply Nat.eqb_refl.
        -- apply Z.leb_gt in Ei. assert (Eneg : (i <? 0)%Z = true) by (apply Z.ltb_lt; lia).
           unfold j in Hocc, Eb1. rewrite Eneg in Hocc, Eb1. rewrite Hcount. fold c.
           apply andb_true_iff. split; [apply Z.leb_le; lia|]. rewrite Hocc. cbn. apply Nat.eqb_refl.
Qed.

(** * The boolean form of the invariant, for the statements of Props/C10.v *)

Theorem run_wf_bool d ops :
  wf_doc d = true -> ops_in_range d ops = true -> wf_doc (s_run d ops) = true.
Proof. rewrite !wf_doc_Wf. apply run_wf. Qed.

(** in a consistent duplicate-fields paragraph the name index is the order,
    filtered by name *)
Theorem byname_is_filtered_order d n :
  wf_dparab d = true ->
  assoc_get (lower n) (d_byname d)
  = nonempty_opt (map fst (filter (fun nf => has_name n (snd nf)) (d_order d))).
Proof.
  intros H. apply wf_dparab_WfD in H. rewrite (lookup_named d (lower n) H). reflexivity.
Qed.

(** * The reference's moves are permutations *)

Lemma pick_unpick_perm {A} (m : list bool) : forall l : list A, Permutation (pick m l ++ unpick m l) l.
Proof.
  induction m as [|b m IH]; intros [|a l]; cbn; try reflexivity.
  destruct b; cbn.
  - constructor. apply IH.
  - etransitivity; [symmetry; apply Permutation_middle|]. constructor. apply IH.
Qed.

Lemma unpick_map_comm {A B} (g : A -> B) (m : list bool) : forall l, unpick m (map g l) = map g (unpick m l).
Proof.
  induction m as [|b m IH]; intros [|a l]; cbn; try reflexivity.
  destruct b; [apply IH|]. now rewrite IH.
Qed.

Lemma map_snd_combine {A B} (r : list A) : forall l : list B, length r = length l -> map snd (combine r l) = l.
Proof.
  induction r as [|x r IH]; intros [|y l]; cbn; try discriminate; try reflexivity.
  intros [= H]. now rewrite IH.
Qed.

Lemma span_concat {A} (p : A -> bool) l : fst (span p l) ++ snd (span p l) = l.
Proof.
  induction l as [|x l IH]; cbn; [reflexivity|].
  destruct (p x); [|reflexivity]. destruct (span p l). cbn in *. now rewrite IH.
Qed.

Theorem moves_permute m r after sk (fs : list field) :
  length m = length fs -> length r = length fs ->
  Permutation (mv_first m fs) fs /\ Permutation (mv_last m fs) fs
  /\ Permutation (mv_rel after m r fs) fs
  /\ Permutation (sort_fields_by sk fs) fs.
Proof.
  intros _ Hr. repeat split.
  - apply pick_unpick_perm.
  - unfold mv_last. etransitivity; [apply Permutation_app_comm|apply pick_unpick_perm].
  - unfold mv_rel.
    pose proof (span_concat (fun x : bool * field => negb (fst x)) (unpick m (combine r fs))) as Hs.
    destruct (span (fun x : bool * field => negb (fst x)) (unpick m (combine r fs))) as [a b].
    cbn [fst snd] in Hs.
    assert (Hrest : map snd a ++ map snd b = unpick m fs).
    { rewrite <- map_app, Hs, <- unpick_map_comm. now rewrite (map_snd_combine r fs Hr). }
    etransitivity; [|apply (pick_unpick_perm m fs)]. rewrite <- Hrest.
    destruct b as [|x b'].
    + cbn [map]. rewrite app_nil_r. apply Permutation_app_comm.
    + cbn [map]. destruct after.
      * etransitivity; [|apply Permutation_app_comm]. rewrite <- app_assoc. apply Permutation_app_head.
        cbn [app]. constructor. apply Permutation_app_comm.
      * etransitivity; [|apply Permutation_app_comm]. rewrite <- app_assoc. apply Permutation_app_head.
        etransitivity; [apply Permutation_app_comm|]. reflexivity.
  - apply sort_fields_by_perm.
Qed.

(** * The supplied newline *)

Theorem nl_only_when_missing fs :
  match last_opt fs with Some f => ends_nl (f_rest f) | None => true end = true -> nl fs = fs.
Proof.
  destruct (list_snoc_cases fs) as [->|(a & f & ->)]; [reflexivity|].
  rewrite last_opt_snoc. intros H. unfold nl. rewrite map_last_snoc. unfold add_nl. now rewrite H.
Qed.

Theorem nl_text fs :
  concat (map field_text (nl fs)) = concat (map field_text fs)
  \/ concat (map field_text (nl fs)) = concat (map field_text fs) ++ [LF].
Proof.
  destruct (list_snoc_cases fs) as [->|(a & f & ->)]; [now left|].
  unfold nl. rewrite map_last_snoc, !map_app, !concat_app. cbn [map concat]. rewrite !app_nil_r.
  unfold add_nl. destruct (ends_nl (f_rest f)); [now left|right].
  unfold field_text. cbn [f_comment f_name f_rest]. now rewrite <- !app_assoc.
Qed.
