(** C05: on the cases of the check (Repro/DocCheck.v), [agree] implies [holds].

    [agree_implies_holds : judged c = true -> agree c = true -> holds c = true] (section J).

    Route.  The reference state [holds] carries is, under [agree], the image [sdoc_of d] of the
    model document (texts of the fields, values as the model reads them): initially
    ([spec_init_of], from the initial read-out that [agree] compares) and after every judged step
    ([steps_hold]).  One judged step ([judge_rejected], [judge_set_accepted],
    [judge_del_accepted]): a rejected call leaves dump and fresh parse unchanged; an accepted one
    produces a dump in which the Spec finds the hole ([accept_set_at] / [accept_set_add] /
    [accept_del_at]) because the model's edit is local (new_for / p_remove_spec), the new field
    stands on lines of its own ([own_lines], [field_wf] via [run_op_wf]), keeps the original
    spelling, and reads back as [expected_read] ([setter_para]); the fresh parse is what [agree]
    compared ([obs_of], [matches_of]).  That accept / reject is the verdict the Spec allows:
    sections I' and K.

    Side condition [judged] (three clauses per judged step, all computable; see Props/C05.v):
    no paragraph of the current state repeats a name; the step recorded a fresh parse; the
    lookups under alternative spellings - which [agree] never consults - show the model's value
    / nothing. *)
From Coq Require Import String Lia ZifyBool.
From Verif Require Import Repro.DocSpec.
From Verif Require Import Lib.Base Lib.Dec Lib.PyStr Gen.PyChars Repro.Doc Repro.DocInv Repro.DocDup
  Repro.DocProofs Repro.Abs Repro.DocCheck.

(** * A. The reference state of a model document *)

Definition sf_of (f : field) : sfield := mkSF (f_comment f) (f_name f) (f_rest f) (value_str f).
Definition sfs_of (fs : list field) : list sfield := map sf_of fs.
Definition sitem_of (it : item) : sitem :=
  match it with Para p => DocSpec.SP (sfs_of (para_fields p)) | Other _ t => SO t end.
Definition sdoc_of (d : doc) : sdoc := map sitem_of d.

Lemma sftext_of fs : concat (map sf_text (sfs_of fs)) = ftext fs.
Proof.
  induction fs as [|f fs IH]; [reflexivity|]. cbn [sfs_of map concat]. rewrite ftext_cons.
  unfold sfs_of in IH. now rewrite IH.
Qed.

Lemma sdump_of d : sdump (sdoc_of d) = dump d.
Proof.
  induction d as [|it d IH]; [reflexivity|]. unfold sdump, sdoc_of in *. cbn [map concat].
  rewrite IH, dump_cons. f_equal. destruct it as [p|k t]; cbn [sitem_of sitem_text item_text]; [|reflexivity].
  now rewrite sftext_of, para_text_ftext.
Qed.

Lemma sdoc_of_app a b : sdoc_of (a ++ b) = sdoc_of a ++ sdoc_of b.
Proof. apply map_app. Qed.

Lemma split_para_of d : forall j,
  split_para (sdoc_of d) j =
  match split_doc d j with
  | Some (a, p, b) => Some (sdoc_of a, sfs_of (para_fields p), sdoc_of b)
  | None => None
  end.
Proof.
  induction d as [|it d IH]; intros j; [reflexivity|].
  destruct it as [q|k t]; cbn [sdoc_of map sitem_of split_para split_doc].
  - destruct j as [|j]; [reflexivity|]. fold (sdoc_of d). rewrite IH.
    destruct (split_doc d j) as [[[a x] b]|]; reflexivity.
  - fold (sdoc_of d). rewrite IH. destruct (split_doc d j) as [[[a x] b]|]; reflexivity.
Qed.

(** * B. Names: the Spec's case folding is the model's *)

Lemma ci_eqb_name_eqb a b : ci_eqb a b = name_eqb a b.
Proof. reflexivity. Qed.

Lemma existsb_names_of n fs :
  existsb (fun g => ci_eqb (sf_name g) n) (sfs_of fs) = existsb (str_eqb (lower n)) (lnames fs).
Proof.
  induction fs as [|g fs IH]; [reflexivity|].
  cbn [sfs_of map existsb lnames sf_of sf_name]. fold (sfs_of fs). fold (lnames fs). rewrite IH. f_equal.
  rewrite ci_eqb_name_eqb. unfold name_eqb. apply str_eqb_sym.
Qed.

Lemma has_dup_names_of fs : has_dup_names (sfs_of fs) = negb (nodup_names fs).
Proof.
  induction fs as [|f fs IH]; [reflexivity|].
  cbn [sfs_of map has_dup_names]. fold (sfs_of fs). rewrite IH.
  unfold nodup_names. cbn [lnames map nodupb]. fold (lnames fs).
  rewrite negb_andb, negb_involutive. f_equal.
  cbn [sf_of sf_name]. apply existsb_names_of.
Qed.

(** positions of a name in a duplicate-free field list *)
Lemma occ_from_absent n fs : forall i, absent n fs = true -> occ_from n (sfs_of fs) i = [].
Proof.
  induction fs as [|f fs IH]; intros i H; [reflexivity|].
  cbn [absent forallb] in H. apply andb_true_iff in H. destruct H as [Hf H].
  cbn [sfs_of map occ_from sf_of sf_name]. rewrite ci_eqb_name_eqb.
  unfold has_name in Hf. apply negb_true_iff in Hf. rewrite Hf. now apply IH.
Qed.

Lemma occ_from_split n l1 f l2 : forall i,
  absent n l1 = true -> has_name n f = true -> absent n l2 = true ->
  occ_from n (sfs_of (l1 ++ f :: l2)) i = [i + length l1].
Proof.
  induction l1 as [|g l1 IH]; intros i H1 Hf H2.
  - cbn [app sfs_of map occ_from sf_of sf_name]. rewrite ci_eqb_name_eqb. unfold has_name in Hf. rewrite Hf.
    fold (sfs_of l2). rewrite occ_from_absent by exact H2. cbn [length]. now rewrite Nat.add_0_r.
  - cbn [absent forallb] in H1. apply andb_true_iff in H1. destruct H1 as [Hg H1].
    cbn [app sfs_of map occ_from sf_of sf_name]. rewrite ci_eqb_name_eqb.
    unfold has_name in Hg. apply negb_true_iff in Hg. rewrite Hg.
    fold (sfs_of (l1 ++ f :: l2)). rewrite IH by assumption. cbn [length]. f_equal. lia.
Qed.

(** * C. Texts: the hole, the comment split, the name prefix *)

Lemma middle_app pre X post : middle (length pre) (length post) (pre ++ X ++ post) = Some X.
Proof.
  unfold middle. rewrite !app_length.
  destruct (Nat.ltb_spec (length pre + (length X + length post)) (length pre + length post)); [lia|].
  f_equal. rewrite skipn_app, skipn_all, Nat.sub_diag. cbn [skipn app].
  replace (length pre + (length X + length post) - length pre - length post) with (length X + 0) by lia.
  rewrite firstn_app_2. cbn [firstn]. apply app_nil_r.
Qed.

Lemma s_ends_nl_ends_nl s : s_ends_nl s = ends_nl s.
Proof. reflexivity. Qed.

Lemma bol_closed s : bol s = closed s.
Proof. destruct s; reflexivity. Qed.

Lemma startswith_app a b : startswith a (a ++ b) = true.
Proof. induction a as [|c a IH]; [reflexivity|]. cbn [app startswith]. now rewrite N.eqb_refl, IH. Qed.

Lemma strip_name_ok n r : colon_first r = true -> strip_name n (n ++ r) = Some r.
Proof.
  intros H. destruct r as [|c r]; [discriminate|]. cbn [colon_first] in H. apply N.eqb_eq in H. subst c.
  assert (E : startswith (n ++ [58%N]) (n ++ Doc.COLON :: r) = true).
  { replace (n ++ Doc.COLON :: r) with ((n ++ [58%N]) ++ r) by (now rewrite <- app_assoc).
    apply startswith_app. }
  unfold strip_name. rewrite E. f_equal. rewrite skipn_app, skipn_all, Nat.sub_diag. reflexivity.
Qed.

(** leading comment lines *)
Lemma is_comment_line_starts_hash l : is_comment_line l = starts_hash l.
Proof. reflexivity. Qed.

Lemma leading_comments_all cl rest :
  forallb starts_hash cl = true ->
  match rest with l :: _ => starts_hash l = false | [] => True end ->
  leading_comments (cl ++ rest) = (concat cl, rest).
Proof.
  intros Hc Hr. induction cl as [|c cl IH].
  - cbn [app concat]. destruct rest as [|l rest]; [reflexivity|].
    cbn [leading_comments]. rewrite is_comment_line_starts_hash, Hr. reflexivity.
  - cbn [forallb] in Hc. apply andb_true_iff in Hc. destruct Hc as [Hc1 Hc].
    cbn [app leading_comments concat]. rewrite is_comment_line_starts_hash, Hc1, (IH Hc). reflexivity.
Qed.

Lemma split_comment_field c n r :
  comment_wf c = true -> name_ok n = true ->
  split_comment (c ++ n ++ r) = (c, n ++ r).
Proof.
  intros Hc Hn. unfold comment_wf in Hc. apply andb_true_iff in Hc. destruct Hc as [Hcl Hh].
  unfold split_comment. change (splitlines only_lf true (c ++ n ++ r)) with (lf_lines (c ++ n ++ r)).
  rewrite lf_lines_app_closed by exact Hcl.
  rewrite leading_comments_all; [now rewrite !concat_lf_lines|exact Hh|].
  destruct n as [|x n]; [discriminate|]. cbn [name_ok] in Hn. apply andb_true_iff in Hn. destruct Hn as [Hx _].
  rewrite lf_lines_acc. cbn [app lines_acc].
  assert (Hx35 : (x =? 35)%N = false).
  { unfold name_first in Hx. destruct (N.eqb_spec x 35) as [->|]; [discriminate Hx|reflexivity]. }
  assert (HxLF : (x =? LF)%N = false).
  { unfold name_first in Hx. destruct (N.eqb_spec x LF) as [->|]; [discriminate Hx|reflexivity]. }
  rewrite HxLF.
  (* the first line begins with x *)
  assert (G : forall s cur, cur <> [] -> last cur 0%N = x ->
              match lines_acc s cur with l :: _ => starts_hash l = false | [] => True end).
  { induction s as [|y s IHs]; intros cur Hne Hl.
    - cbn [lines_acc]. destruct cur as [|a cur]; [congruence|]. cbn [is_nil].
      destruct (rev (a :: cur)) as [|z zs] eqn:E.
      + apply (f_equal (@length N)) in E. rewrite rev_length in E. discriminate.
      + assert (z = x).
        { rewrite <- Hl. rewrite <- (rev_involutive (a :: cur)), E. cbn [rev].
          now rewrite last_last. }
        subst z. cbn [starts_hash]. exact Hx35.
    - cbn [lines_acc]. destruct (y =? LF)%N.
      + destruct (rev cur) as [|z zs] eqn:E.
        * destruct cur; [congruence|]. apply (f_equal (@length N)) in E. rewrite rev_length in E. discriminate.
        * assert (z = x).
          { rewrite <- Hl. rewrite <- (rev_involutive cur), E. cbn [rev]. now rewrite last_last. }
          subst z. cbn [app starts_hash]. exact Hx35.
      + apply IHs; [discriminate|]. destruct cur; [congruence|]. exact Hl. }
  apply (G (n ++ r) [x]); [discriminate|reflexivity].
Qed.

(** * D. Boolean equalities; the initial reference state *)

Lemma result_eqb_eq {A} (eqb : A -> A -> bool) (H : forall a b, eqb a b = true <-> a = b) x y :
  result_eqb eqb x y = true <-> x = y.
Proof.
  destruct x as [a|e], y as [b|f]; cbn [result_eqb]; split; intros E; try discriminate.
  - f_equal. now apply H.
  - injection E as ->. now apply H.
  - f_equal. now apply err_eqb_eq.
  - injection E as ->. now apply err_eqb_eq.
Qed.

Lemma pair_eqb_eq {A B} (ea : A -> A -> bool) (eb : B -> B -> bool)
  (Ha : forall a b, ea a b = true <-> a = b) (Hb : forall a b, eb a b = true <-> a = b) x y :
  pair_eqb ea eb x y = true <-> x = y.
Proof.
  destruct x as [x1 x2], y as [y1 y2]. unfold pair_eqb. cbn [fst snd].
  rewrite andb_true_iff, Ha, Hb. split; [intros [-> ->]; reflexivity|]. intros E. injection E as -> ->. now split.
Qed.

Lemma read_eqb'_eq a b : read_eqb' a b = true <-> a = b.
Proof.
  apply list_eqb_eq. apply list_eqb_eq. apply pair_eqb_eq; [apply str_eqb_eq|].
  apply result_eqb_eq. apply str_eqb_eq.
Qed.

Lemma option_eqb_err_eq a b : option_eqb err_eqb a b = true <-> a = b.
Proof.
  destruct a as [x|], b as [y|]; cbn [option_eqb]; split; intros E; try discriminate; try reflexivity.
  - f_equal. now apply err_eqb_eq.
  - injection E as ->. now apply err_eqb_eq.
Qed.

(** what the harness reads off a paragraph, when the model can tell *)
Definition rows_of_fields (fs : list field) : list (str * result str) :=
  map (fun f => (f_name f, Ok (value_str f))) fs.

Lemma init_kvpairs_order fs : forall d,
  map snd (d_order (init_kvpairs fs d)) = map snd (d_order d) ++ fs.
Proof.
  induction fs as [|f fs IH]; intros d; [now rewrite app_nil_r|].
  cbn [init_kvpairs]. rewrite IH. cbn [d_order]. rewrite map_app. cbn [map snd]. now rewrite <- app_assoc.
Qed.

Lemma init_dup_fields fs : para_fields (PD (init_dup fs)) = fs.
Proof. cbn [para_fields]. unfold init_dup. now rewrite init_kvpairs_order. Qed.

Lemma count_name_ids_with n (o1 : list (N * field)) :
  count_name n (map (fun nf => f_name (snd nf)) o1) = Z.of_nat (length (ids_with (lower n) o1)).
Proof.
  induction o1 as [|nf o1 IH]; [reflexivity|].
  cbn [map count_name]. rewrite IH. unfold ids_with. cbn [filter].
  unfold name_eqb. destruct (str_eqb (lower (f_name (snd nf))) (lower n)); cbn [map length]; lia.
Qed.

Lemma py_index_nth {A} (l1 : list A) x l2 :
  py_index (l1 ++ x :: l2) (Z.of_nat (length l1)) = Some x.
Proof.
  unfold py_index. rewrite app_length. cbn [length].
  destruct (Z.ltb_spec (Z.of_nat (length l1)) 0); [lia|].
  destruct (Z.ltb_spec (Z.of_nat (length l1)) 0); [lia|]. cbn [orb].
  destruct (Z.leb_spec (Z.of_nat (length l1 + S (length l2))) (Z.of_nat (length l1))); [lia|].
  rewrite Nat2Z.id. rewrite nth_error_app2 by lia. now rewrite Nat.sub_diag.
Qed.

Lemma read_keys_PD d : DWf d -> forall o2 o1,
  d_order d = o1 ++ o2 ->
  read_keys (PD d) true (map (fun nf => f_name (snd nf)) o1) (map (fun nf => f_name (snd nf)) o2)
  = rows_of_fields (map snd o2).
Proof.
  intros Hd. induction o2 as [|[id f] o2 IH]; intros o1 Ho; [reflexivity|].
  cbn [map read_keys rows_of_fields snd]. f_equal.
  - f_equal. unfold getitem. cbn [p_get]. rewrite (d_get_eq _ _ _ Hd). cbn [key_name key_idx].
    rewrite Ho, ids_with_app, ids_with_cons. cbn [snd]. unfold lname. rewrite str_eqb_refl. cbn [fst].
    destruct (ids_with (lower (f_name f)) o1 ++ id :: ids_with (lower (f_name f)) o2) as [|x xs] eqn:E.
    { destruct (ids_with (lower (f_name f)) o1); discriminate. }
    rewrite <- E. unfold resolve_single. rewrite count_name_ids_with, py_index_nth.
    rewrite (node_val_in id _ f); [reflexivity|rewrite <- Ho; apply Hd|apply in_elt].
  - replace (map (fun nf : N * field => f_name (snd nf)) o1 ++ [f_name f])
      with (map (fun nf : N * field => f_name (snd nf)) (o1 ++ [(id, f)])) by (now rewrite map_app).
    apply IH. now rewrite <- app_assoc.
Qed.

Lemma read_keys_PN fs : nodup_names fs = true -> forall l2 l1 before,
  fs = l1 ++ l2 ->
  read_keys (PN fs) false before (map f_name l2) = rows_of_fields l2.
Proof.
  intros Hnd. induction l2 as [|f l2 IH]; intros l1 before Hfs; [reflexivity|].
  cbn [map read_keys rows_of_fields]. f_equal.
  - f_equal. unfold getitem. cbn [p_get]. unfold nd_get. cbn [unpack_key Z.eqb bind fst].
    rewrite Hfs in *. apply nodup_names_split in Hnd. destruct Hnd as [Hl1 _].
    rewrite find_split; [reflexivity|exact Hl1|]. unfold has_name. apply name_eqb_refl.
  - apply (IH (l1 ++ [f])). now rewrite <- app_assoc.
Qed.

Lemma read_para_rows p :
  match p with PN fs => nodup_names fs = true | PD d => DWf d end ->
  read_para p = rows_of_fields (para_fields p).
Proof.
  destruct p as [fs|d]; intros H; unfold read_para; cbn [para_fields].
  - now apply (read_keys_PN fs H fs []).
  - rewrite map_map. now apply (read_keys_PD d H (d_order d) []).
Qed.

(** the paragraph a case literal denotes reads as its fields *)
Lemma read_para_item dup fs :
  class_ok (IP dup fs) = true ->
  let p := (if dup then PD (init_dup (map dec_field fs)) else PN (map dec_field fs)) in
  para_fields p = map dec_field fs /\ read_para p = rows_of_fields (map dec_field fs).
Proof.
  intros Hc p. assert (Hpf : para_fields p = map dec_field fs).
  { subst p. destruct dup; [apply init_dup_fields|reflexivity]. }
  split; [exact Hpf|]. rewrite <- Hpf. apply read_para_rows. subst p. destruct dup.
  - apply d_wf_DWf. apply init_dup_wf.
  - cbn [class_ok] in Hc. unfold from_kvpairs in Hc. unfold nodup_names, lnames.
    destruct (nodupb (map (fun f => lower (f_name f)) (map dec_field fs))); [reflexivity|discriminate].
Qed.

Lemma spec_fields_rows fs : forall vs,
  map (fun kv => (dec (fst kv), dec_res (snd kv))) vs = rows_of_fields (map dec_field fs) ->
  spec_fields fs vs = Some (sfs_of (map dec_field fs)).
Proof.
  induction fs as [|[[c n] r] fs IH]; intros [|[k v] vs] H; try discriminate; [reflexivity|].
  cbn [map rows_of_fields] in H. injection H as Hk Hv Hrest.
  cbn [spec_fields]. rewrite (IH _ Hrest). unfold spec_field. cbn [snd].
  destruct v as [val|e]; [|discriminate]. cbn [dec_res] in Hv. injection Hv as Hv.
  cbn [map sfs_of]. unfold sf_of at 1. cbn [dec_field f_comment f_name f_rest]. now rewrite Hv.
Qed.

Lemma spec_init_of items : forall init,
  forallb class_ok items = true ->
  map read_para (paras (map dec_item items)) = dec_read init ->
  spec_init items init = Some (sdoc_of (map dec_item items)).
Proof.
  induction items as [|it items IH]; intros init Hc H.
  - destruct init; [reflexivity|discriminate].
  - cbn [forallb] in Hc. apply andb_true_iff in Hc. destruct Hc as [Hc1 Hc].
    destruct it as [dup fs|k t].
    + destruct (read_para_item dup fs Hc1) as [Hpf Hrd]. cbv zeta in Hpf, Hrd.
      cbn [map dec_item paras flat_map app] in H. fold (paras (map dec_item items)) in H.
      destruct init as [|vs init]; [discriminate|]. cbn [dec_read map] in H. injection H as H1 H2.
      cbn [spec_init]. rewrite (spec_fields_rows fs vs) by (now rewrite <- H1, <- Hrd).
      rewrite (IH init Hc H2). cbn [map dec_item sdoc_of sitem_of]. now rewrite Hpf.
    + cbn [map dec_item paras flat_map app] in H. fold (paras (map dec_item items)) in H.
      cbn [spec_init]. now rewrite (IH init Hc H).
Qed.

(** * E. Spec-level facts about [accept_set] / [accept_del] *)

Lemma set_nth_same {A} (l : list A) : forall q x, nth_error l q = Some x -> set_nth l q x = l.
Proof.
  induction l as [|a l IH]; intros [|q] x H; try discriminate; cbn [set_nth nth_error] in *.
  - now injection H as ->.
  - now rewrite (IH q x H).
Qed.

Lemma set_nth_mid {A} (l1 : list A) x y l2 : set_nth (l1 ++ x :: l2) (length l1) y = l1 ++ y :: l2.
Proof. induction l1 as [|a l1 IH]; [reflexivity|]. cbn [app length set_nth]. now rewrite IH. Qed.

Lemma del_nth_mid {A} (l1 : list A) x l2 : del_nth (l1 ++ x :: l2) (length l1) = l1 ++ l2.
Proof. induction l1 as [|a l1 IH]; [reflexivity|]. cbn [app length del_nth]. now rewrite IH. Qed.

Lemma nth_error_mid {A} (l1 : list A) x l2 : nth_error (l1 ++ x :: l2) (length l1) = Some x.
Proof. rewrite nth_error_app2 by lia. now rewrite Nat.sub_diag. Qed.

Lemma firstn_mid {A} (l1 : list A) l2 : firstn (length l1) (l1 ++ l2) = l1.
Proof. rewrite firstn_app, Nat.sub_diag, firstn_all. cbn [firstn]. apply app_nil_r. Qed.

Lemma skipn_mid {A} (l1 : list A) x l2 : skipn (S (length l1)) (l1 ++ x :: l2) = l2.
Proof.
  rewrite skipn_app. rewrite skipn_all2 by lia.
  replace (S (length l1) - length l1) with 1 by lia. reflexivity.
Qed.

Definition is_reject (t : target) : bool := match t with TReject => true | _ => false end.

Lemma first_some_cons {A B} (f : A -> option B) a l b : f a = Some b -> first_some f (a :: l) = Some b.
Proof. intros H. unfold first_some. cbn [fold_right]. now rewrite H. Qed.

Lemma first_some_reject {B} (f : target -> option B) ts x :
  (forall t, is_reject t = false -> f t = None) -> f TReject = Some x ->
  existsb is_reject ts = true -> first_some f ts = Some x.
Proof.
  intros Hn Hr. induction ts as [|t ts IH]; [discriminate|]. cbn [existsb]. intros H.
  unfold first_some. cbn [fold_right]. destruct t; cbn [is_reject orb] in H.
  - rewrite (Hn TAdd eq_refl). now apply IH.
  - rewrite (Hn (TAt p others) eq_refl). now apply IH.
  - now rewrite Hr.
Qed.

(** a rejected call that left dump and fresh parse as they were *)
Lemma unchanged_ok s ob : o_failed ob = true -> matches s ob = true -> unchanged s ob = Some s.
Proof. intros H1 H2. unfold unchanged. now rewrite H1, H2. Qed.

Lemma accept_set_failed s j n v vv cm ob t :
  o_failed ob = true -> is_reject t = false -> accept_set s j n v vv cm ob t = None.
Proof.
  intros Hf Ht. unfold accept_set. destruct (split_para s j) as [[[a fs] b]|]; [|reflexivity].
  destruct t; [| |discriminate]; now rewrite Hf.
Qed.

Lemma accept_del_failed s j ob p others :
  o_failed ob = true -> accept_del s j ob (TAt p others) = None.
Proof.
  intros Hf. unfold accept_del. destruct (split_para s j) as [[[a fs] b]|]; [|reflexivity]. now rewrite Hf.
Qed.

(** replacing the field at position [length l1] *)
Lemma accept_set_at (s a b : sdoc) (l1 : list sfield) f l2 j n v (vvalid : bool) cm ob (X cmt X' body val : str) :
  split_para s j = Some (a, l1 ++ f :: l2, b) ->
  o_failed ob = false ->
  o_dump ob = ((sdump a ++ concat (map sf_text l1))
               ++ match cm with CKeep => sf_comment f | CReplace => [] end)
              ++ X ++ (concat (map sf_text l2) ++ sdump b) ->
  s_ends_nl X = true ->
  match cm with CKeep => (sf_comment f, X) | CReplace => split_comment X end = (cmt, X') ->
  strip_name (sf_name f) X' = Some body ->
  (if vvalid then Some (expected_read v) else reparsed_value ob (length (sread a)) (length l1)) = Some val ->
  let s' := a ++ DocSpec.SP (l1 ++ mkSF cmt (sf_name f) body val :: l2) :: b in
  matches s' ob = true -> lookups_read ob (length (sread a)) val = true ->
  accept_set s j n v vvalid cm ob (TAt (length l1) []) = Some s'.
Proof.
  intros Hs Hf HD HX Hc Hn Hval s' Hm Hl. unfold accept_set. rewrite Hs, Hf.
  rewrite nth_error_mid, firstn_mid.
  rewrite (set_nth_same _ _ _ (nth_error_mid l1 f l2)), skipn_mid.
  cbn [map del_positions fold_right].
  assert (Hpre : (match cm with
                  | CKeep => (sdump a ++ concat (map sf_text l1)) ++ sf_comment f
                  | CReplace => sdump a ++ concat (map sf_text l1)
                  end) = (sdump a ++ concat (map sf_text l1))
                         ++ match cm with CKeep => sf_comment f | CReplace => [] end).
  { destruct cm; [reflexivity|now rewrite app_nil_r]. }
  rewrite Hpre, HD, middle_app.
  assert (Hc' : (match cm with CKeep => (sf_comment f, X) | CReplace => split_comment X end) = (cmt, X'))
    by exact Hc.
  destruct cm.
  - injection Hc' as <- <-. rewrite HX. cbn [negb]. rewrite Hn, Hval, set_nth_mid. cbn [sf_comment sf_name sf_body].
    fold s'. now rewrite Hm, Hl.
  - rewrite Hc'. rewrite HX. cbn [negb]. rewrite Hn, Hval, set_nth_mid. cbn [sf_comment sf_name sf_body].
    fold s'. now rewrite Hm, Hl.
Qed.

(** appending a field *)
Lemma accept_set_add (s a b : sdoc) (fs : list sfield) j n v (vvalid : bool) cm ob (X cmt X' body val : str) :
  split_para s j = Some (a, fs, b) ->
  o_failed ob = false ->
  let pre0 := sdump a ++ concat (map sf_text fs) in
  let supply := negb (bol pre0) in
  let fs0 := if supply then s_map_last sf_add_nl fs else fs in
  (supply = true -> sdump b = [] /\ fs <> []) ->
  o_dump ob = (if supply then pre0 ++ [10%N] else pre0) ++ X ++ sdump b ->
  s_ends_nl X = true ->
  split_comment X = (cmt, X') ->
  (cm = CKeep -> cmt = []) ->
  strip_name n X' = Some body ->
  (if vvalid then Some (expected_read v) else reparsed_value ob (length (sread a)) (length fs0)) = Some val ->
  let s' := a ++ DocSpec.SP (fs0 ++ [mkSF cmt n body val]) :: b in
  matches s' ob = true -> lookups_read ob (length (sread a)) val = true ->
  accept_set s j n v vvalid cm ob TAdd = Some s'.
Proof.
  intros Hs Hf pre0 supply fs0 Hsup HD HX Hc Hcm Hn Hval s' Hm Hl. unfold accept_set. rewrite Hs, Hf.
  fold pre0. fold supply.
  assert (H1 : supply && negb (is_nil_l (sdump b)) = false).
  { destruct supply; [|reflexivity]. destruct (Hsup eq_refl) as [-> _]. reflexivity. }
  assert (H2 : supply && is_nil_l fs = false).
  { destruct supply; [|reflexivity]. destruct (Hsup eq_refl) as [_ Hne]. destruct fs; [congruence|reflexivity]. }
  rewrite H1, H2. fold fs0. rewrite HD, middle_app, Hc, HX. cbn [negb].
  assert (H3 : match cm with CKeep => negb (is_nil_l cmt) | CReplace => false end = false).
  { destruct cm; [|reflexivity]. now rewrite (Hcm eq_refl). }
  rewrite H3, Hn, Hval.
  replace (set_nth (fs0 ++ [mkSF cmt n body []]) (length fs0)
                   (mkSF (sf_comment (mkSF cmt n body [])) (sf_name (mkSF cmt n body []))
                         (sf_body (mkSF cmt n body [])) val))
    with (fs0 ++ [mkSF cmt n body val]) by (now rewrite set_nth_mid).
  fold s'. now rewrite Hm, Hl.
Qed.

(** removing the field at position [length l1] *)
Lemma accept_del_at (s a b : sdoc) (l1 : list sfield) f l2 j ob :
  split_para s j = Some (a, l1 ++ f :: l2, b) ->
  o_failed ob = false ->
  let s' := a ++ DocSpec.SP (l1 ++ l2) :: b in
  matches s' ob = true -> lookups_absent ob (length (sread a)) (is_nil_l (l1 ++ l2)) = true ->
  accept_del s j ob (TAt (length l1) []) = Some s'.
Proof.
  intros Hs Hf s' Hm Hl. unfold accept_del. rewrite Hs, Hf.
  cbn [del_positions fold_right]. rewrite del_nth_mid. fold s'. now rewrite Hm, Hl.
Qed.

(** which target heads the list of acceptable readings *)
Lemma resolve_head_nil idx for_set t ts :
  resolve [] idx for_set = t :: ts -> is_reject t = false -> t = TAdd /\ for_set = true.
Proof.
  unfold resolve. destruct idx as [i|].
  - destruct (0 <=? i)%Z.
    + destruct (Z.to_nat i); cbn [nth_error];
        (destruct (for_set && is_nil_l (@nil nat) && (i =? 0)%Z) eqn:E;
         [intros [= <- <-] _; split; [reflexivity|]; now destruct for_set|intros [= <- <-]; discriminate]).
    + cbn [length]. rewrite Z.add_0_r. intros H. destruct (0 <=? i)%Z; [|now injection H as <- <-].
      destruct (Z.to_nat i); cbn [nth_error] in H; now injection H as <- <-.
  - destruct for_set; intros [= <- <-]; [now split|discriminate].
Qed.

Lemma resolve_head_one q idx for_set t ts :
  resolve [q] idx for_set = t :: ts -> is_reject t = false -> t = TAt q [].
Proof.
  unfold resolve. destruct idx as [i|].
  - destruct (0 <=? i)%Z eqn:Ei.
    + destruct (Z.to_nat i) as [|m] eqn:Em; cbn [nth_error].
      * now intros [= <- <-].
      * destruct m; cbn [nth_error]; cbn [is_nil_l andb];
          rewrite andb_false_r; cbn [andb]; intros [= <- <-]; discriminate.
    + cbn [length]. destruct (0 <=? i + Z.of_nat 1)%Z eqn:Ei'.
      * assert (i = (-1)%Z) by lia. subst i. cbn [Z.add Z.to_nat nth_error]. now intros [= <- <-].
      * intros [= <- <-]. discriminate.
  - now intros [= <- <-].
Qed.

Lemma hd_app_reject (ts : list target) (must : bool) t ts' :
  ts <> [] -> (if must then ts else ts ++ [TReject]) = t :: ts' -> exists ts'', ts = t :: ts''.
Proof.
  intros Hne H. destruct ts as [|x ts]; [congruence|]. destruct must; cbn [app] in H; injection H as -> _; now eexists.
Qed.

Lemma resolve_nonempty oc idx fs : resolve oc idx fs <> [].
Proof.
  unfold resolve. destruct idx as [i|].
  - destruct (0 <=? i)%Z.
    + destruct (nth_error oc (Z.to_nat i)); [discriminate|].
      destruct (fs && is_nil_l oc && (i =? 0)%Z); discriminate.
    + destruct (0 <=? i + Z.of_nat (length oc))%Z; [|discriminate].
      destruct (nth_error oc (Z.to_nat (i + Z.of_nat (length oc)))); discriminate.
  - destruct oc; [destruct fs|]; discriminate.
Qed.

(** * F. The fresh parse, as [agree] pins it down *)

Definition ne_fields (d : doc) : list (list field) :=
  flat_map (fun p => match para_fields p with [] => [] | fs => [fs] end) (paras d).
Definition rows_of (d : doc) : list (list (str * result str)) := map rows_of_fields (ne_fields d).
Definition spairs_of (fs : list field) : list (str * str) := map (fun f => (f_name f, value_str f)) fs.
Definition srows_of (d : doc) : list (list (str * str)) := map spairs_of (ne_fields d).

Lemma ne_fields_app a b : ne_fields (a ++ b) = ne_fields a ++ ne_fields b.
Proof. unfold ne_fields. now rewrite paras_app, flat_map_app. Qed.

Lemma ne_fields_para p : ne_fields [Para p] = match para_fields p with [] => [] | fs => [fs] end.
Proof. unfold ne_fields. cbn [paras flat_map app]. now rewrite app_nil_r. Qed.

Lemma ne_fields_split a p b :
  ne_fields (a ++ Para p :: b)
  = ne_fields a ++ match para_fields p with [] => [] | fs => [fs] end ++ ne_fields b.
Proof.
  change (Para p :: b) with ([Para p] ++ b). now rewrite !ne_fields_app, ne_fields_para.
Qed.

Lemma field_eqb_eq a b : field_eqb a b = true <-> a = b.
Proof.
  unfold field_eqb. destruct a as [a1 a2 a3], b as [b1 b2 b3]. cbn [f_comment f_name f_rest].
  rewrite !andb_true_iff, !str_eqb_eq. split; [intros [[-> ->] ->]; reflexivity|].
  intros E. injection E as -> -> ->. now repeat split.
Qed.

Lemma reread_ok_para d p : reread_ok d = true -> In p (paras d) -> scan_para (para_text p) = Ok (para_fields p).
Proof.
  unfold reread_ok. rewrite forallb_forall. intros H Hp. specialize (H p Hp).
  apply (result_eqb_eq (list_eqb field_eqb)) in H; [exact H|]. apply list_eqb_eq. apply field_eqb_eq.
Qed.

Lemma reread_rows_of d : reread_ok d = true -> reread_rows d = Some (rows_of d).
Proof.
  intros H. unfold reread_rows, rows_of, ne_fields.
  assert (G : forall ps, (forall p, In p ps -> scan_para (para_text p) = Ok (para_fields p)) ->
            fold_right (fun p acc =>
                match para_fields p, scan_para (para_text p), acc with
                | [], _, _ => acc
                | _, Ok fs, Some rows => Some (map (fun f => (f_name f, Ok (value_str f))) fs :: rows)
                | _, _, _ => None
                end) (Some []) ps
            = Some (map rows_of_fields
                        (flat_map (fun p => match para_fields p with [] => [] | fs => [fs] end) ps))).
  { induction ps as [|p ps IH]; intros Hall; [reflexivity|].
    cbn [fold_right flat_map]. rewrite IH by (intros q Hq; apply Hall; now right).
    rewrite (Hall p) by now left. destruct (para_fields p) as [|f fs]; reflexivity. }
  apply G. intros p Hp. now apply (reread_ok_para d).
Qed.

Lemma sread_app a b : sread (a ++ b) = sread a ++ sread b.
Proof. unfold sread. apply flat_map_app. Qed.

Lemma sread_of d : sread (sdoc_of d) = srows_of d.
Proof.
  induction d as [|it d IH]; [reflexivity|].
  change (it :: d) with ([it] ++ d). rewrite sdoc_of_app, sread_app, IH.
  unfold srows_of. rewrite ne_fields_app, map_app. f_equal.
  destruct it as [p|k t]; [|reflexivity]. rewrite ne_fields_para.
  unfold sdoc_of, sread. cbn [map sitem_of flat_map]. rewrite app_nil_r.
  destruct (para_fields p) as [|f fs]; [reflexivity|]. cbn [sfs_of map]. f_equal.
  unfold spairs_of. cbn [map sf_of sf_name sf_val]. f_equal. now rewrite map_map.
Qed.

Lemma dec_pairs_rows p fs :
  map (fun kv => (dec (fst kv), dec_res (snd kv))) p = rows_of_fields fs -> dec_pairs p = Some (spairs_of fs).
Proof.
  revert fs. induction p as [|[n v] p IH]; intros [|f fs] H; try discriminate; [reflexivity|].
  cbn [map rows_of_fields fst snd] in H. injection H as Hn Hv Hr.
  destruct v as [v|e]; [|discriminate]. cbn [dec_res] in Hv. injection Hv as Hv.
  cbn [dec_pairs]. rewrite (IH fs Hr). cbn [spairs_of map]. now rewrite Hn, Hv.
Qed.

Lemma dec_reparse_rows r : forall fss,
  dec_read r = map rows_of_fields fss -> dec_reparse r = Some (map spairs_of fss).
Proof.
  induction r as [|p r IH]; intros [|fs fss] H; try discriminate; [reflexivity|].
  cbn [dec_read map] in H. injection H as Hp Hr.
  cbn [dec_reparse]. rewrite (dec_pairs_rows p fs Hp), (IH fss Hr). reflexivity.
Qed.

Lemma read_eqb_refl x : read_eqb x x = true.
Proof.
  apply list_eqb_eq; [|reflexivity]. apply list_eqb_eq. apply pair_eqb_eq; apply str_eqb_eq.
Qed.

(** what [agree] says about one observed state *)
Definition obs_of (d' : doc) (st : steplit) : Prop :=
  dump d' = dec_text (s_dump st) /\
  exists r, s_reparse st = Some r /\ dec_read r = rows_of d'.

Lemma obs_reparse d' st : obs_of d' st -> o_reparse (dec_obs st) = Some (srows_of d').
Proof.
  intros [_ [r [Hr Hrows]]]. unfold dec_obs. cbn [o_reparse]. rewrite Hr.
  now apply dec_reparse_rows.
Qed.

Lemma obs_dump d' st : obs_of d' st -> o_dump (dec_obs st) = dump d'.
Proof. intros [H _]. unfold dec_obs. cbn [o_dump]. now rewrite H. Qed.

Lemma matches_of d' st : obs_of d' st -> matches (sdoc_of d') (dec_obs st) = true.
Proof.
  intros H. unfold matches. rewrite (obs_dump _ _ H), (obs_reparse _ _ H), sdump_of, str_eqb_refl.
  rewrite sread_of. apply read_eqb_refl.
Qed.

Lemma sread_length_of a : length (sread (sdoc_of a)) = length (ne_fields a).
Proof. rewrite sread_of. unfold srows_of. apply map_length. Qed.

Lemma ne_one (fs : list field) : fs <> [] -> match fs with [] => [] | f :: l => [f :: l] end = [fs].
Proof. destruct fs; [congruence|reflexivity]. Qed.

Lemma reparsed_value_of a p b st l1 v l2 :
  obs_of (a ++ Para p :: b) st -> para_fields p = l1 ++ v :: l2 ->
  reparsed_value (dec_obs st) (length (sread (sdoc_of a))) (length l1) = Some (value_str v).
Proof.
  intros H Hp. unfold reparsed_value. rewrite (obs_reparse _ _ H).
  unfold srows_of. rewrite ne_fields_split, Hp.
  rewrite (ne_one (l1 ++ v :: l2)) by (destruct l1; discriminate). rewrite sread_length_of. rewrite map_app. cbn [app map].
  rewrite <- (map_length spairs_of (ne_fields a)), nth_error_mid.
  unfold spairs_of at 1. rewrite map_app. cbn [map].
  rewrite <- (map_length (fun f => (f_name f, value_str f)) l1), nth_error_mid. reflexivity.
Qed.

(** * G. Values: what each setter stores reads back as the Spec's [expected_read] *)

Lemma split_on_first_nolf s : mem_char LF s = false -> split_on_first LF s = (s, None).
Proof.
  induction s as [|x s IH]; [reflexivity|]. unfold mem_char. cbn [existsb]. intros H.
  apply orb_false_iff in H. destruct H as [Hx H]. cbn [split_on_first]. rewrite N.eqb_sym in Hx. rewrite Hx.
  unfold mem_char in IH. now rewrite (IH H).
Qed.

(** a raw value: valid and LF-terminated *)
Lemma valid_raw_parts V :
  valid_raw V = true ->
  exists first rest,
    split_on_first LF V = (first, Some rest) /\ V = first ++ LF :: rest
    /\ forallb (fun c => negb (c =? LF)%N) first = true
    /\ closed_rest rest = rest /\ no_other_break V = true.
Proof.
  intros Hv. unfold valid_raw in Hv. apply andb_true_iff in Hv. destruct Hv as [Hvv Hend].
  unfold valid_value in Hvv. apply andb_true_iff in Hvv. destruct Hvv as [Hch _].
  change (s_ends_nl V) with (ends_nl V) in Hend.
  destruct (split_on_first LF V) as [first [rest|]] eqn:E.
  - destruct (split_on_first_some _ _ _ _ E) as [HV Hf]. exists first, rest.
    split; [reflexivity|]. split; [exact HV|]. split; [exact Hf|]. split; [|exact Hch].
    unfold closed_rest, closed. destruct rest as [|c rest]; [reflexivity|]. cbn [is_nil orb].
    rewrite HV in Hend. rewrite ends_nl_app in Hend by discriminate.
    rewrite ends_nl_cons in Hend by discriminate. now rewrite Hend.
  - destruct (split_on_first_none _ _ _ E) as [_ Hn]. destruct (ends_nl_split _ Hend) as [s0 Hs0].
    rewrite Hs0, forallb_app in Hn. cbn in Hn. now rewrite andb_false_r in Hn.
Qed.

Lemma raw_body_ok n V :
  forallb name_char n = true -> valid_raw V = true ->
  body_ok (tl (splitlines py_islinebreak true (n ++ [COLON] ++ V))) = true.
Proof.
  intros Hn Hv. destruct (valid_raw_parts V Hv) as [first [rest [E [HV [Hfirst [Hcr Hch]]]]]].
  unfold valid_raw in Hv. apply andb_true_iff in Hv. destruct Hv as [Hvv _].
  unfold valid_value in Hvv. apply andb_true_iff in Hvv. destruct Hvv as [_ Hb].
  change 10%N with LF in Hb. rewrite E in Hb. cbv zeta in Hb. rewrite only_lf_lines in Hb.
  apply andb_true_iff in Hb. destruct Hb as [H1 H2].
  assert (Hnb : forallb (fun c => negb (py_islinebreak c)) n = true).
  { rewrite forallb_forall in *. intros c Hc. now rewrite (name_char_no_break c (Hn c Hc)). }
  destruct (no_break_no_lf _ Hnb) as [Hn1 Hn2].
  assert (Hpre : n ++ [COLON] ++ V = (n ++ COLON :: first) ++ LF :: rest).
  { rewrite HV. now rewrite <- !app_assoc. }
  rewrite Hpre. unfold splitlines. rewrite splitlines_aux_lines_acc.
  - rewrite lines_acc_prefix.
    + cbn [tl]. rewrite <- Hcr. now apply body_ok_lines.
    + rewrite forallb_app. cbn [forallb]. now rewrite Hn2, Hfirst.
  - reflexivity.
  - rewrite <- Hpre. fold (no_other_break (n ++ [COLON] ++ V)).
    rewrite !no_other_break_app, Hn1, Hch. reflexivity.
Qed.

Lemma value_str_rest c n r c' n' : value_str (mkF c n r) = value_str (mkF c' n' r).
Proof. reflexivity. Qed.

Lemma value_str_raw c n V : valid_raw V = true -> value_str (mkF c n (COLON :: V)) = expected_read V.
Proof.
  intros Hv. destruct (valid_raw_parts V Hv) as [first [rest [E [HV [Hfirst [Hcr _]]]]]].
  unfold valid_raw in Hv. apply andb_true_iff in Hv. destruct Hv as [Hvv _].
  rewrite <- (value_str_setitem_raw c n V Hvv).
  rewrite (setitem_raw_multi _ _ _ E), Hcr.
  unfold value_str, value_lines. cbn [f_rest tl]. rewrite !lf_lines_acc, HV.
  rewrite (lines_acc_prefix first rest [] Hfirst).
  rewrite (lines_acc_prefix (SP :: py_strip first) rest []).
  2:{ cbn [forallb]. change (negb (SP =? LF)%N) with true. cbn [andb].
      apply forallb_py_strip. exact Hfirst. }
  cbn [rev app]. rewrite py_strip_app_lf.
  change ((SP :: py_strip first) ++ [LF]) with (SP :: py_strip first ++ [LF]).
  rewrite py_strip_first_line. reflexivity.
Qed.

(** the judged validity of the value of a setter, and the value itself *)
Definition op_vvalid (o : op) : bool :=
  match o with
  | OSet _ _ v => valid_value v
  | OSimple _ _ v _ _ => valid_value v && negb (mem_char LF v)
  | ORaw _ _ v _ _ => valid_raw v
  | ODel _ _ => false
  end.
Definition op_value (o : op) : str :=
  match o with OSet _ _ v | OSimple _ _ v _ _ | ORaw _ _ v _ _ => v | ODel _ _ => [] end.
Definition is_setter (o : op) : bool := match o with ODel _ _ => false | _ => true end.

Lemma own_lines_name v : own_lines v = true -> forallb name_char (f_name v) = true.
Proof.
  unfold own_lines. intros Ho. apply andb_true_iff in Ho. destruct Ho as [Ho _].
  apply andb_true_iff in Ho. destruct Ho as [Ho _]. apply andb_true_iff in Ho. now destruct Ho.
Qed.

(** a successful setter at paragraph level, with the value *)
Lemma setter_para o p p' :
  para_inv p = true -> is_setter o = true -> op_on_para o p = Ok p' ->
  para_inv p' = true /\
  exists v orig, own_lines v = true /\ new_for p (op_key o) p' v orig
                 /\ op_comment o orig (f_comment v)
                 /\ (op_vvalid o = true -> value_str v = expected_read (op_value o)).
Proof.
  intros Hinv Hset H. destruct o as [j k V|j k|j k V pres fc|j k V pres fc]; [| discriminate | |];
    cbn [op_on_para op_key op_vvalid op_value op_comment] in *.
  - destruct (setitem_readback _ _ _ _ Hinv H) as [Hi [v [orig [Ho [Hn [Hc Hv]]]]]].
    split; [exact Hi|]. exists v, orig. repeat split; try assumption. intros Hvv. now apply Hv.
  - destruct (set_simple_spec _ _ _ _ _ _ Hinv H) as [Hi [v [orig [Ho [Hn [Hc [Hw _]]]]]]].
    split; [exact Hi|]. exists v, orig. repeat split; try assumption. intros Hvv.
    apply andb_true_iff in Hvv. destruct Hvv as [Hvv Hnl]. apply negb_true_iff in Hnl.
    assert (Hraw : setitem_raw V = [SP] ++ py_strip V ++ [LF]).
    { unfold setitem_raw. rewrite (split_on_first_nolf _ Hnl). now rewrite py_strip_idem. }
    rewrite <- Hraw in Hw.
    assert (Hr : f_rest v = COLON :: setitem_raw V).
    { apply Hw. apply setitem_body_ok; [now apply own_lines_name|exact Hvv]. }
    rewrite <- (value_str_setitem_raw (f_comment v) (f_name v) V Hvv).
    unfold value_str. cbn [f_rest]. now rewrite Hr.
  - destruct (set_raw_spec _ _ _ _ _ _ Hinv H) as [Hi [v [orig [Ho [Hn [Hc [Hw _]]]]]]].
    split; [exact Hi|]. exists v, orig. repeat split; try assumption. intros Hvv.
    assert (Hr : f_rest v = COLON :: V).
    { apply Hw. apply raw_body_ok; [now apply own_lines_name|exact Hvv]. }
    rewrite <- (value_str_raw (f_comment v) (f_name v) V Hvv).
    unfold value_str. cbn [f_rest]. now rewrite Hr.
Qed.

(** * H. [judge], restated per operation *)

Definition dom_ok (s : sdoc) (j : nat) (k : key) (fc : option (list str)) : bool :=
  match split_para s j with
  | Some (_, fs, _) =>
      negb (has_dup_names fs) && is_ascii_str (fst (key_parts k))
      && match fc with Some l => forallb valid_comment l | None => true end
  | None => false
  end.

Definition op_fc (o : op) : option (list str) :=
  match o with OSimple _ _ _ _ fc | ORaw _ _ _ _ fc => fc | _ => None end.
Definition op_pres (o : op) : option bool :=
  match o with OSimple _ _ _ pres _ | ORaw _ _ _ pres _ => pres | _ => None end.

(** the step is inside the property's quantifier *)
Definition op_in_domain (s : sdoc) (o : op) : bool := dom_ok s (op_para o) (op_key o) (op_fc o).

Definition lift {A} (r : option A) : option (option A) :=
  match r with Some x => Some (Some x) | None => None end.

Definition op_cm (o : op) : cmode :=
  match op_pres o, op_fc o with Some false, _ | _, Some _ => CReplace | _, _ => CKeep end.
Definition op_args_ok (o : op) : bool :=
  match op_fc o with Some l => forallb comment_usable l | None => true end.
Definition op_contra (o : op) : bool :=
  match op_pres o, op_fc o with Some _, Some _ => true | _, _ => false end.

Definition judge' (s : sdoc) (o : op) (ob : sobs) : option (option sdoc) :=
  if negb (op_in_domain s o) then Some None else
  let n := key_name (op_key o) in
  let idx := key_idx (op_key o) in
  if is_setter o then
    if op_contra o then lift (unchanged s ob)
    else lift (check_set s (op_para o) n idx (op_value o) (op_vvalid o) (op_args_ok o) (op_cm o) ob)
  else lift (check_del s (op_para o) n idx ob).

Lemma judge_eq s o ob : judge s o ob = judge' s o ob.
Proof.
  destruct o as [j k v|j k|j k v pres fc|j k v pres fc];
    unfold judge, judge', op_in_domain, dom_ok, op_contra, op_cm, op_args_ok;
    cbn [op_para op_key op_fc op_pres op_value op_vvalid is_setter];
    destruct (split_para s j) as [[[a fs] b]|]; cbn [negb]; try reflexivity;
    destruct k as [n|n i]; cbn [key_parts key_name key_idx fst];
    try (destruct pres as [[|]|]; destruct fc as [l|]); cbn [andb negb];
    repeat match goal with |- context [if ?c then _ else _] => destruct c end; reflexivity.
Qed.

(** * I. One judged step *)

(** the acceptable readings of the key that [check_set] / [check_del] try, in order *)
Definition op_targets (s : sdoc) (o : op) : list target :=
  match split_para s (op_para o) with
  | None => []
  | Some (_, fs, _) =>
      let n := key_name (op_key o) in
      let idx := key_idx (op_key o) in
      let oc := occ n fs in
      if is_setter o then
        let ts := resolve oc idx true in
        let must := op_vvalid o && op_args_ok o && (negb (is_nil_l oc) || safe_name n) in
        if must then ts else ts ++ [TReject]
      else resolve oc idx false
  end.

Lemma check_set_targets s o ob :
  is_setter o = true ->
  check_set s (op_para o) (key_name (op_key o)) (key_idx (op_key o)) (op_value o) (op_vvalid o)
            (op_args_ok o) (op_cm o) ob
  = match split_para s (op_para o) with
    | None => None
    | Some _ => first_some (accept_set s (op_para o) (key_name (op_key o)) (op_value o) (op_vvalid o)
                                       (op_cm o) ob) (op_targets s o)
    end.
Proof.
  intros Hset. unfold check_set, op_targets. destruct (split_para s (op_para o)) as [[[a fs] b]|]; [|reflexivity].
  destruct o; [reflexivity|discriminate|reflexivity|reflexivity].
Qed.

Lemma check_del_targets s j k ob :
  check_del s j (key_name k) (key_idx k) ob
  = match split_para s j with
    | None => None
    | Some _ => first_some (accept_del s j ob) (op_targets s (ODel j k))
    end.
Proof.
  unfold check_del, op_targets. cbn [op_para op_key]. now destruct (split_para s j) as [[[a fs] b]|].
Qed.

Lemma first_some_any {A B} (f : A -> option B) ts x :
  (forall t, In t ts -> f t = None \/ f t = Some x) ->
  (exists t, In t ts /\ f t = Some x) -> first_some f ts = Some x.
Proof.
  induction ts as [|t ts IH]; intros Hall [t0 [Hin Ht0]]; [destruct Hin|].
  unfold first_some. cbn [fold_right]. destruct (Hall t (or_introl eq_refl)) as [Hn|Hs]; rewrite ?Hs; [|reflexivity].
  rewrite Hn. apply IH.
  - intros t' Ht'. apply Hall. now right.
  - destruct Hin as [<-|Hin]; [congruence|]. now exists t0.
Qed.

Lemma existsb_reject_in ts : existsb is_reject ts = true -> In TReject ts.
Proof.
  intros H. apply existsb_exists in H. destruct H as [t [Hin Ht]]. destruct t; try discriminate. exact Hin.
Qed.

(** contradictory comment arguments are rejected by the model *)
Lemma contra_fails o p : op_contra o = true -> op_on_para o p = Err ValueError.
Proof.
  destruct o as [j k v|j k|j k v pres fc|j k v pres fc]; unfold op_contra; cbn [op_pres op_fc]; try discriminate;
    destruct pres as [b|]; try discriminate; destruct fc as [l|]; try discriminate; intros _;
    cbn [op_on_para fc_of].
  - unfold set_simple. destruct (mem_char LF v); [reflexivity|]. reflexivity.
  - reflexivity.
Qed.

Lemma o_failed_obs st : o_failed (dec_obs st) = match s_err st with Some _ => true | None => false end.
Proof. reflexivity. Qed.

Lemma in_domain_split d o :
  op_in_domain (sdoc_of d) o = true ->
  exists a p b, split_doc d (op_para o) = Some (a, p, b)
                /\ split_para (sdoc_of d) (op_para o) = Some (sdoc_of a, sfs_of (para_fields p), sdoc_of b).
Proof.
  unfold op_in_domain, dom_ok. rewrite split_para_of.
  destruct (split_doc d (op_para o)) as [[[a p] b]|]; [|discriminate]. intros _. now exists a, p, b.
Qed.

(** a rejected call *)
Lemma judge_rejected d o st err :
  op_in_domain (sdoc_of d) o = true ->
  s_err st = Some err -> obs_of d st ->
  op_contra o || existsb is_reject (op_targets (sdoc_of d) o) = true ->
  judge' (sdoc_of d) o (dec_obs st) = Some (Some (sdoc_of d)).
Proof.
  intros Hdom He Hobs Hv. unfold judge'. rewrite Hdom. cbn [negb]. cbv zeta.
  destruct (in_domain_split d o Hdom) as [a [p [b [Hs Hsp]]]].
  assert (Hfail : o_failed (dec_obs st) = true) by (rewrite o_failed_obs; now rewrite He).
  pose proof (matches_of d st Hobs) as Hm.
  pose proof (unchanged_ok _ _ Hfail Hm) as Hun.
  destruct (is_setter o) eqn:Hset.
  - destruct (op_contra o) eqn:Hc; [now rewrite Hun|].
    cbn [orb] in Hv. apply existsb_reject_in in Hv.
    rewrite check_set_targets by exact Hset. rewrite Hsp.
    rewrite (first_some_any _ _ (sdoc_of d)); [reflexivity| |].
    + intros t _. destruct (is_reject t) eqn:Et.
      * destruct t; try discriminate Et. right. unfold accept_set. now rewrite Hsp.
      * left. now apply accept_set_failed.
    + exists TReject. split; [exact Hv|]. unfold accept_set. now rewrite Hsp.
  - assert (Hc : op_contra o = false) by (destruct o; try discriminate Hset; reflexivity).
    rewrite Hc in Hv. cbn [orb] in Hv. apply existsb_reject_in in Hv.
    destruct o as [j k v|j k|j k v pres fc|j k v pres fc]; try discriminate Hset.
    cbn [op_para op_key] in *. rewrite check_del_targets, Hsp.
    rewrite (first_some_any _ _ (sdoc_of d)); [reflexivity| |].
    + intros t _. unfold accept_del. rewrite Hsp. destruct t; [now right|left|now right]. now rewrite Hfail.
    + exists TReject. split; [exact Hv|]. unfold accept_del. now rewrite Hsp.
Qed.

(** what [doc_wf] says about paragraph [j] and what precedes it *)
Lemma doc_wf_split d j a p b :
  doc_wf d = true -> split_doc d j = Some (a, p, b) ->
  doc_ok d = true /\ para_inv p = true /\ para_wf p = true /\ closed (dump a) = true.
Proof.
  intros H Hs. unfold doc_wf in H. apply andb_true_iff in H. destruct H as [Hok Hwf].
  split; [exact Hok|]. unfold doc_ok in Hok. apply andb_true_iff in Hok. destruct Hok as [Hinv Hl].
  rewrite (split_doc_eq _ _ _ _ _ Hs) in Hinv, Hl, Hwf.
  rewrite doc_inv_split in Hinv. apply andb_true_iff in Hinv. destruct Hinv as [Hia Hinv].
  apply andb_true_iff in Hinv. destruct Hinv as [Hp _].
  rewrite forallb_para_wf_split in Hwf. apply andb_true_iff in Hwf. destruct Hwf as [_ Hwf].
  apply andb_true_iff in Hwf. destruct Hwf as [Hpw _].
  rewrite lines_ok_app in Hl. apply andb_true_iff in Hl. destruct Hl as [Ha _].
  repeat split; try assumption. now apply items_closed_dump.
Qed.

Lemma closed_app_r a b : closed a = true -> closed (a ++ b) = closed b.
Proof.
  intros Ha. destruct b as [|c b]; [now rewrite app_nil_r|].
  unfold closed at 1. rewrite ends_nl_app by discriminate.
  destruct (a ++ c :: b) eqn:E; [destruct a; discriminate|]. reflexivity.
Qed.

(** the reference fields after [_ensure_final_newline] *)
Lemma sfs_map_last fs :
  forallb rest_colon fs = true ->
  sfs_of (map_last add_nl fs)
  = if closed (ftext fs) then sfs_of fs else s_map_last sf_add_nl (sfs_of fs).
Proof.
  induction fs as [|f fs IH]; intros Hc; [reflexivity|].
  cbn [forallb] in Hc. apply andb_true_iff in Hc. destruct Hc as [Hf Hc].
  destruct fs as [|g fs].
  - cbn [map_last sfs_of map s_map_last]. rewrite ftext_one.
    rewrite closed_nonempty by now apply field_text_nonempty.
    rewrite ends_nl_field_text by now apply rest_colon_nonempty.
    unfold add_nl. destruct (ends_nl (f_rest f)) eqn:E; [reflexivity|].
    unfold sf_of at 1. cbn [f_comment f_name f_rest]. unfold sf_add_nl, sf_of. cbn [sf_comment sf_name sf_body sf_val].
    f_equal. f_equal.
    pose proof (value_str_add_nl f Hf) as Hv. unfold add_nl in Hv. now rewrite E in Hv.
  - change (map_last add_nl (f :: g :: fs)) with (f :: map_last add_nl (g :: fs)).
    cbn [sfs_of map]. fold (sfs_of (map_last add_nl (g :: fs))). rewrite IH by exact Hc.
    assert (Hne : ftext (g :: fs) <> []).
    { cbn [forallb] in Hc. apply andb_true_iff in Hc. destruct Hc as [Hg _].
      rewrite ftext_cons. apply field_text_nonempty in Hg.
      destruct (field_text g); [congruence|discriminate]. }
    assert (Hcl : closed (ftext (f :: g :: fs)) = closed (ftext (g :: fs))).
    { rewrite (ftext_cons f). rewrite (closed_nonempty (ftext (g :: fs))) by exact Hne.
      rewrite closed_nonempty by (destruct (field_text f); [exact Hne|discriminate]).
      now apply ends_nl_app. }
    rewrite Hcl. destruct (closed (ftext (g :: fs))); [reflexivity|].
    cbn [sfs_of map s_map_last]. reflexivity.
Qed.

Lemma own_lines_parts v :
  own_lines v = true -> rest_colon v = true /\ ends_nl (f_rest v) = true.
Proof.
  unfold own_lines. intros Ho. apply andb_true_iff in Ho. destruct Ho as [Ho _].
  apply andb_true_iff in Ho. destruct Ho as [Ho He]. apply andb_true_iff in Ho. now destruct Ho.
Qed.

Lemma own_lines_text_ends v : own_lines v = true -> ends_nl (f_name v ++ f_rest v) = true /\ ends_nl (field_text v) = true.
Proof.
  intros Ho. destruct (own_lines_parts v Ho) as [Hc He]. pose proof (rest_colon_nonempty _ Hc) as Hne.
  split.
  - now rewrite ends_nl_app.
  - now rewrite ends_nl_field_text.
Qed.

Lemma field_wf_v v : field_wf v = true -> comment_wf (f_comment v) = true /\ name_ok (f_name v) = true.
Proof.
  unfold field_wf. intros H. apply andb_true_iff in H. destruct H as [H _].
  apply andb_true_iff in H. now destruct H.
Qed.

Lemma rest_colon_colon_first v : rest_colon v = true -> colon_first (f_rest v) = true.
Proof. unfold rest_colon, colon_first. now destruct (f_rest v). Qed.

(** the comment mode of the Spec against the comment the model stores *)
Lemma op_cm_keep o orig c :
  is_setter o = true -> op_contra o = false -> op_cm o = CKeep -> op_comment o orig c ->
  c = match orig with Some f => f_comment f | None => [] end.
Proof.
  destruct o as [j k v|j k|j k v pres fc|j k v pres fc]; intros Hs Hc Hk H; try discriminate Hs;
    cbn [op_comment] in H.
  - exact H.
  - unfold op_cm, op_contra in *; cbn [op_pres op_fc] in *.
    destruct pres as [[|]|]; destruct fc as [l|]; try discriminate; cbn [fc_of new_comment] in H; exact H.
  - unfold op_cm, op_contra in *; cbn [op_pres op_fc] in *.
    destruct pres as [[|]|]; destruct fc as [l|]; try discriminate; cbn [fc_of new_comment] in H; exact H.
Qed.

(** the side condition on the lookups observation (which [agree] never consults): every
    alternative spelling reads what the model reads / finds nothing *)
Definition lookups_ok (d' : doc) (o : op) (st : steplit) : bool :=
  match split_doc d' (op_para o) with
  | None => false
  | Some (a, p', _) =>
      let j' := length (ne_fields a) in
      if is_setter o then
        match getitem p' (KStr (key_name (op_key o))) with
        | Ok val => lookups_read (dec_obs st) j' val
        | Err _ => false
        end
      else lookups_absent (dec_obs st) j' (is_nil (para_fields p'))
  end.

Definition head_accepts (ts : list target) : bool :=
  match ts with t :: _ => negb (is_reject t) | [] => false end.

Lemma sfs_of_app l1 l2 : sfs_of (l1 ++ l2) = sfs_of l1 ++ sfs_of l2.
Proof. apply map_app. Qed.

Lemma sfs_of_length l : length (sfs_of l) = length l.
Proof. apply map_length. Qed.

Lemma s_map_last_length g l : length (s_map_last g l) = length l.
Proof.
  induction l as [|a l IH]; [reflexivity|]. destruct l as [|b l]; [reflexivity|].
  change (s_map_last g (a :: b :: l)) with (a :: s_map_last g (b :: l)). cbn [length] in *. now rewrite IH.
Qed.

Lemma judge_set_accepted d o st d' :
  doc_wf d = true -> is_setter o = true ->
  op_in_domain (sdoc_of d) o = true ->
  run_op d o = Ok d' -> s_err st = None -> obs_of d' st ->
  head_accepts (op_targets (sdoc_of d) o) = true ->
  lookups_ok d' o st = true ->
  judge' (sdoc_of d) o (dec_obs st) = Some (Some (sdoc_of d')).
Proof.
  intros Hwf Hset Hdom Hrun He Hobs Hhd Hlk.
  destruct (run_op_ok _ _ _ Hrun) as [a [p [b [p' [Hs [Hop Hd']]]]]].
  destruct (doc_wf_split _ _ _ _ _ Hwf Hs) as [Hok [Hinv [Hpw Hcla]]].
  assert (Hnc : op_contra o = false).
  { destruct (op_contra o) eqn:E; [|reflexivity]. rewrite (contra_fails o p E) in Hop. discriminate. }
  destruct (setter_para o p p' Hinv Hset Hop) as [Hinv' [v [orig [Hown [Hnew [Hcm Hval]]]]]].
  pose proof (run_op_wf _ _ _ Hwf Hrun) as Hwf'.
  assert (Hs' : split_doc d' (op_para o) = Some (a, p', b)).
  { rewrite Hd', <- (split_doc_index _ _ _ _ _ Hs). apply split_doc_app. }
  destruct (doc_wf_split _ _ _ _ _ Hwf' Hs') as [_ [_ [Hpw' _]]].
  assert (Hsp : split_para (sdoc_of d) (op_para o) = Some (sdoc_of a, sfs_of (para_fields p), sdoc_of b))
    by (now rewrite split_para_of, Hs).
  assert (Hfail : o_failed (dec_obs st) = false) by (rewrite o_failed_obs; now rewrite He).
  pose proof (matches_of d' st Hobs) as Hm.
  pose proof (obs_dump d' st Hobs) as HD.
  (* the lookups *)
  assert (Hlook : lookups_read (dec_obs st) (length (sread (sdoc_of a))) (value_str v) = true).
  { unfold lookups_ok in Hlk. rewrite Hs', Hset in Hlk. cbv zeta in Hlk.
    rewrite (getitem_new p (op_key o) p' v orig (KStr (key_name (op_key o)))) in Hlk;
      [|exact Hinv'|exact Hnew|apply name_eqb_refl|reflexivity].
    now rewrite sread_length_of. }
  destruct (own_lines_parts v Hown) as [Hrc Hends].
  destruct (own_lines_text_ends v Hown) as [HendX HendT].
  unfold judge'. rewrite Hdom, Hset, Hnc. cbn [negb]. cbv zeta.
  rewrite check_set_targets by exact Hset. rewrite Hsp.
  unfold head_accepts in Hhd. unfold op_targets in Hhd. rewrite Hsp, Hset in Hhd. cbv zeta in Hhd.
  unfold op_targets. rewrite Hsp, Hset. cbv zeta.
  set (n := key_name (op_key o)) in *. set (idx := key_idx (op_key o)) in *.
  set (must := op_vvalid o && op_args_ok o
               && (negb (is_nil_l (occ n (sfs_of (para_fields p)))) || safe_name n)) in *.
  destruct (if must then resolve (occ n (sfs_of (para_fields p))) idx true
            else resolve (occ n (sfs_of (para_fields p))) idx true ++ [TReject]) as [|t ts] eqn:Ets;
    [discriminate|].
  apply negb_true_iff in Hhd.
  destruct (hd_app_reject _ _ _ _ (resolve_nonempty _ _ _) Ets) as [ts0 Hts0].
  destruct orig as [f|]; cbn [new_for] in Hnew.
  - (* an existing field is replaced *)
    destruct Hnew as [l1 [l2 [Hpf [Hf [Hab1 [Hpf' Hname]]]]]].
    pose proof (para_inv_fields _ Hinv) as Hfi. rewrite Hpf in Hfi.
    destruct (fields_inv_absent_before _ _ _ _ Hfi Hf) as [_ Hab2].
    assert (Hocc : occ n (sfs_of (para_fields p)) = [length l1]).
    { unfold occ. rewrite Hpf. now rewrite (occ_from_split n l1 f l2 0 Hab1 Hf Hab2). }
    rewrite Hocc in Hts0. pose proof (resolve_head_one _ _ _ _ _ Hts0 Hhd) as Ht. subst t.
    assert (Hfw : field_wf v = true).
    { unfold para_wf in Hpw'. rewrite forallb_forall in Hpw'. apply Hpw'. rewrite Hpf'. apply in_elt. }
    destruct (field_wf_v v Hfw) as [Hcw Hnok].
    rewrite (first_some_cons _ _ _ (sdoc_of d')); [reflexivity|].
    rewrite Hpf, sfs_of_app in *. cbn [sfs_of map] in *. fold (sfs_of l2) in *.
    rewrite <- (sfs_of_length l1).
    assert (Hcmt : op_cm o = CKeep -> f_comment v = f_comment f).
    { intros Hk. exact (op_cm_keep o (Some f) _ Hset Hnc Hk Hcm). }
    assert (Hgoal : sdoc_of d' = sdoc_of a ++ DocSpec.SP (sfs_of l1 ++ mkSF (f_comment v) (sf_name (sf_of f)) (f_rest v) (value_str v) :: sfs_of l2) :: sdoc_of b).
    { rewrite Hd', sdoc_of_app. cbn [sdoc_of map sitem_of]. rewrite Hpf', sfs_of_app. cbn [sfs_of map].
      unfold sf_of. cbn [sf_name]. now rewrite Hname. }
    rewrite Hgoal.
    apply (accept_set_at _ _ _ _ _ _ _ _ _ _ _ _
             (match op_cm o with CKeep => f_name v ++ f_rest v | CReplace => field_text v end)
             (f_comment v) (f_name v ++ f_rest v) (f_rest v) (value_str v)).
    + exact Hsp.
    + exact Hfail.
    + rewrite HD, Hd', dump_split, Hpf', ftext_app, ftext_cons, !sdump_of, !sftext_of.
      cbn [sf_of sf_comment]. destruct (op_cm o) eqn:Ek.
      * rewrite <- (Hcmt eq_refl). unfold field_text. now rewrite <- !app_assoc.
      * unfold field_text. now rewrite app_nil_r, <- !app_assoc.
    + rewrite s_ends_nl_ends_nl. now destruct (op_cm o).
    + destruct (op_cm o) eqn:Ek.
      * cbn [sf_of sf_comment]. now rewrite (Hcmt eq_refl).
      * unfold field_text. now apply split_comment_field.
    + cbn [sf_of sf_name]. rewrite <- Hname. apply strip_name_ok. now apply rest_colon_colon_first.
    + destruct (op_vvalid o) eqn:Evv.
      * now rewrite (Hval eq_refl).
      * rewrite sfs_of_length. apply (reparsed_value_of a p' b st l1 v l2); [now rewrite <- Hd'|exact Hpf'].
    + rewrite <- Hgoal. exact Hm.
    + exact Hlook.
  - (* a new field is appended *)
    destruct Hnew as [Hab [Hpf' Hname]].
    assert (Hocc : occ n (sfs_of (para_fields p)) = []).
    { unfold occ. now apply occ_from_absent. }
    rewrite Hocc in Hts0. destruct (resolve_head_nil _ _ _ _ Hts0 Hhd) as [Ht _]. subst t.
    assert (Hfw : field_wf v = true).
    { unfold para_wf in Hpw'. rewrite forallb_forall in Hpw'. apply Hpw'. rewrite Hpf'. apply in_elt. }
    destruct (field_wf_v v Hfw) as [Hcw Hnok].
    rewrite (first_some_cons _ _ _ (sdoc_of d')); [reflexivity|].
    pose proof (para_inv_fields _ Hinv) as Hfi. unfold fields_inv in Hfi.
    apply andb_true_iff in Hfi. destruct Hfi as [_ Hrcs].
    destruct (new_field_position _ _ _ _ _ Hok Hs) as [_ Hnlb].
    set (fs := para_fields p) in *.
    assert (Hsupply : negb (bol (sdump (sdoc_of a) ++ concat (map sf_text (sfs_of fs)))) = negb (closed (ftext fs))).
    { rewrite bol_closed, sdump_of, sftext_of. now rewrite closed_app_r. }
    assert (Hfs0 : sfs_of (map_last add_nl fs)
                   = if negb (bol (sdump (sdoc_of a) ++ concat (map sf_text (sfs_of fs))))
                     then s_map_last sf_add_nl (sfs_of fs) else sfs_of fs).
    { rewrite Hsupply, sfs_map_last by exact Hrcs. now destruct (closed (ftext fs)). }
    assert (Hcmt : op_cm o = CKeep -> f_comment v = []).
    { intros Hk. exact (op_cm_keep o None _ Hset Hnc Hk Hcm). }
    assert (Hgoal : sdoc_of d' = sdoc_of a ++ DocSpec.SP ((if negb (bol (sdump (sdoc_of a) ++ concat (map sf_text (sfs_of fs))))
                     then s_map_last sf_add_nl (sfs_of fs) else sfs_of fs) ++ [mkSF (f_comment v) n (f_rest v) (value_str v)]) :: sdoc_of b).
    { rewrite Hd', sdoc_of_app. cbn [sdoc_of map sitem_of]. rewrite Hpf', sfs_of_app, Hfs0. cbn [sfs_of map].
      unfold sf_of. now rewrite Hname. }
    rewrite Hgoal.
    apply (accept_set_add _ _ _ _ _ _ _ _ _ _ (field_text v) (f_comment v) (f_name v ++ f_rest v) (f_rest v) (value_str v)).
    + exact Hsp.
    + exact Hfail.
    + rewrite Hsupply. intros Hsup. apply negb_true_iff in Hsup. split.
      * rewrite Hnlb; [reflexivity|]. unfold nl_suffix. fold fs. rewrite Hsup. discriminate.
      * intros Hnil. apply map_eq_nil in Hnil. rewrite Hnil in Hsup. discriminate.
    + rewrite HD, Hd', dump_split, Hpf', ftext_app, ftext_one, ftext_map_last_add_nl by exact Hrcs.
      rewrite Hsupply, !sdump_of, !sftext_of. unfold nl_suffix.
      destruct (closed (ftext fs)); cbn [negb]; now rewrite <- !app_assoc.
    + rewrite s_ends_nl_ends_nl. exact HendT.
    + unfold field_text. now apply split_comment_field.
    + exact Hcmt.
    + subst n. rewrite <- Hname. apply strip_name_ok. now apply rest_colon_colon_first.
    + destruct (op_vvalid o) eqn:Evv.
      * now rewrite (Hval eq_refl).
      * rewrite <- Hfs0, sfs_of_length.
        apply (reparsed_value_of a p' b st (map_last add_nl fs) v []); [now rewrite <- Hd'|exact Hpf'].
    + rewrite <- Hgoal. exact Hm.
    + exact Hlook.
Qed.

Lemma judge_del_accepted d j k st d' :
  doc_wf d = true ->
  op_in_domain (sdoc_of d) (ODel j k) = true ->
  run_op d (ODel j k) = Ok d' -> s_err st = None -> obs_of d' st ->
  head_accepts (op_targets (sdoc_of d) (ODel j k)) = true ->
  lookups_ok d' (ODel j k) st = true ->
  judge' (sdoc_of d) (ODel j k) (dec_obs st) = Some (Some (sdoc_of d')).
Proof.
  intros Hwf Hdom Hrun He Hobs Hhd Hlk.
  destruct (run_op_ok _ _ _ Hrun) as [a [p [b [p' [Hs [Hop Hd']]]]]]. cbn [op_para op_on_para] in Hs, Hop.
  destruct (doc_wf_split _ _ _ _ _ Hwf Hs) as [Hok [Hinv [Hpw Hcla]]].
  destruct (p_remove_spec _ _ _ Hinv Hop) as [Hinv' [l1 [f [l2 [Hpf [Hf [Hab1 Hpf']]]]]]].
  assert (Hs' : split_doc d' j = Some (a, p', b)).
  { rewrite Hd', <- (split_doc_index _ _ _ _ _ Hs). apply split_doc_app. }
  assert (Hsp : split_para (sdoc_of d) j = Some (sdoc_of a, sfs_of (para_fields p), sdoc_of b))
    by (now rewrite split_para_of, Hs).
  assert (Hfail : o_failed (dec_obs st) = false) by (rewrite o_failed_obs; now rewrite He).
  pose proof (matches_of d' st Hobs) as Hm.
  pose proof (para_inv_fields _ Hinv) as Hfi. rewrite Hpf in Hfi.
  destruct (fields_inv_absent_before _ _ _ _ Hfi Hf) as [_ Hab2].
  assert (Hocc : occ (key_name k) (sfs_of (para_fields p)) = [length l1]).
  { unfold occ. rewrite Hpf. now rewrite (occ_from_split _ l1 f l2 0 Hab1 Hf Hab2). }
  unfold judge'. rewrite Hdom. cbn [negb is_setter op_para op_key]. cbv zeta.
  rewrite check_del_targets, Hsp.
  unfold head_accepts, op_targets in Hhd. cbn [op_para op_key is_setter] in Hhd. rewrite Hsp in Hhd. cbv zeta in Hhd.
  unfold op_targets. cbn [op_para op_key is_setter]. rewrite Hsp. cbv zeta.
  rewrite Hocc in *.
  destruct (resolve [length l1] (key_idx k) false) as [|t ts] eqn:Ets; [discriminate|].
  apply negb_true_iff in Hhd. pose proof (resolve_head_one _ _ _ _ _ Ets Hhd) as Ht. subst t.
  rewrite (first_some_cons _ _ _ (sdoc_of d')); [reflexivity|].
  assert (Hgoal : sdoc_of d' = sdoc_of a ++ DocSpec.SP (sfs_of l1 ++ sfs_of l2) :: sdoc_of b).
  { rewrite Hd', sdoc_of_app. cbn [sdoc_of map sitem_of]. now rewrite Hpf', sfs_of_app. }
  rewrite Hgoal, <- (sfs_of_length l1).
  apply (accept_del_at _ _ _ _ (sf_of f)).
  - rewrite Hsp, Hpf, sfs_of_app. reflexivity.
  - exact Hfail.
  - rewrite <- Hgoal. exact Hm.
  - unfold lookups_ok in Hlk. cbn [op_para] in Hlk. rewrite Hs' in Hlk. cbn [is_setter] in Hlk. cbv zeta in Hlk.
    rewrite sread_length_of. rewrite Hpf' in Hlk.
    replace (is_nil_l (sfs_of l1 ++ sfs_of l2)) with (is_nil (l1 ++ l2)); [exact Hlk|].
    destruct l1; [destruct l2|]; reflexivity.
Qed.

(** * I'. The model's verdict, as far as it is proved

    [verdict_ok] asks two things of the model.  (a) an ACCEPTED call is one the Spec's first
    reading accepts: [accept_head], from the index resolution of both paragraph classes.
    (b) a REJECTED call is one the Spec allows to be rejected: for deletes [del_progress] /
    [del_rejected_ok]; for the set-like operations it is the progress of certainly meaningful
    edits (valid value, usable arguments, existing or safe name, plain key), section K:
    [set_progress] / [set_rejected_ok]. *)

Definition idx_reach (k : key) (present : bool) : bool :=
  match key_idx k with
  | None => true
  | Some i => if present then (i =? 0)%Z || (i =? -1)%Z else (i =? 0)%Z
  end.

Lemma absent_present_PD (o1 : list (N * field)) id f o2 n :
  lname f = lower n -> absent n (map snd (o1 ++ (id, f) :: o2)) = false.
Proof.
  intros Hf. rewrite map_snd_split, absent_app. cbn [absent forallb].
  apply lname_has_name in Hf. rewrite Hf. cbn [negb andb]. apply andb_false_r.
Qed.

Lemma p_set_kvpair_idx p k v p' :
  para_inv p = true -> p_set_kvpair p k v = Ok p' ->
  idx_reach k (negb (absent (key_name k) (para_fields p))) = true.
Proof.
  intros Hinv H. destruct p as [fs|d]; cbn [p_set_kvpair para_fields] in *.
  - bind_inv H. unfold nd_set_kvpair in Ha. bind_inv Ha. clear Hab Hb.
    unfold idx_reach. destruct k as [n|n i]; cbn [key_idx key_name unpack_key] in *; [reflexivity|].
    destruct (i =? 0)%Z; [|discriminate Haa]. now destruct (negb (absent n fs)).
  - bind_inv H. clear Hb. rename Ha into H.
    destruct (para_inv_PD _ Hinv) as [Hd [Hnd _]]. pose proof Hd as [H1 H2 H3 H4].
    unfold d_set_kvpair in H.
    assert (Hu : unpack_key k false = Ok (key_name k, key_idx k)) by (destruct k; reflexivity).
    rewrite Hu in H. cbn [bind] in H.
    destruct (name_eqb (key_name k) (f_name v)) eqn:Hn; [|discriminate]. cbn [negb] in H.
    assert (Hkeyeq : lower (f_name v) = lower (key_name k)).
    { unfold name_eqb in Hn. apply str_eqb_eq in Hn. now symmetry. }
    rewrite Hkeyeq in H. rewrite H4 in H. unfold idx_reach.
    destruct (d_get_nodup d k true Hd Hnd) as [[Hnil _]|[o1 [id [f [o2 [Ho [Hf [Hone _]]]]]]]].
    + rewrite (ids_with_nil_absent _ _ Hnil). cbn [negb]. rewrite Hnil in H. cbn [nonempty_opt] in H.
      destruct (key_idx k) as [i|]; [|reflexivity]. destruct (i =? 0)%Z; [reflexivity|discriminate].
    + rewrite Ho, (absent_present_PD _ _ _ _ _ Hf). cbn [negb]. rewrite Hone in H. cbn [nonempty_opt] in H.
      destruct (key_idx k) as [i|]; [|reflexivity]. rewrite py_index_single in H.
      destruct ((i =? 0)%Z || (i =? -1)%Z); [reflexivity|discriminate].
Qed.

Lemma p_remove_idx p k p' :
  para_inv p = true -> p_remove p k = Ok p' -> idx_reach k true = true.
Proof.
  intros Hinv H. destruct p as [fs|d]; cbn [p_remove] in *.
  - bind_inv H. unfold nd_remove in Ha. bind_inv Ha. clear Hab Hb.
    unfold idx_reach. destruct k as [n|n i]; cbn [key_idx key_name unpack_key] in *; [reflexivity|].
    destruct (i =? 0)%Z; [reflexivity|discriminate Haa].
  - bind_inv H. clear Hb. rename Ha into H.
    destruct (para_inv_PD _ Hinv) as [Hd [Hnd _]]. pose proof Hd as [H1 H2 H3 H4].
    unfold d_remove in H.
    assert (Hu : unpack_key k false = Ok (key_name k, key_idx k)) by (destruct k; reflexivity).
    rewrite Hu in H. cbn [bind] in H. rewrite H4 in H. unfold idx_reach.
    destruct (d_get_nodup d k true Hd Hnd) as [[Hnil _]|[o1 [id [f [o2 [Ho [Hf [Hone _]]]]]]]].
    + rewrite Hnil in H. discriminate.
    + rewrite Hone in H. cbn [nonempty_opt] in H.
      destruct (key_idx k) as [i|]; [|reflexivity]. rewrite py_index_single in H.
      destruct ((i =? 0)%Z || (i =? -1)%Z); [reflexivity|discriminate].
Qed.

(** every successful set-like operation ends in [p_set_kvpair] under the key it was given *)
Lemma set_raw_inv p k raw pres fc p' :
  set_raw p k raw pres fc = Ok p' -> exists v, p_set_kvpair p k v = Ok p'.
Proof.
  unfold set_raw. intros H. bind_inv H. destruct x as [[comments pres'] fc'].
  unfold set_raw_core in Hb. bind_inv Hb. bind_inv Hbb. bind_inv Hbbb. bind_inv Hbbbb.
  now exists x2.
Qed.

Lemma setter_inv o p p' :
  is_setter o = true -> op_on_para o p = Ok p' -> exists v, p_set_kvpair p (op_key o) v = Ok p'.
Proof.
  destruct o as [j k V|j k|j k V pres fc|j k V pres fc]; intros Hs H; try discriminate Hs;
    cbn [op_on_para op_key] in *.
  - unfold setitem in H. bind_inv H. destruct (split_on_first LF V) as [first [rest|]].
    + cbv zeta in Hb. now apply set_raw_inv in Hb.
    + unfold set_simple in Hb. destruct (mem_char LF (py_strip V)); [discriminate|].
      now apply set_raw_inv in Hb.
  - unfold set_simple in H. destruct (mem_char LF V); [discriminate|]. now apply set_raw_inv in H.
  - now apply set_raw_inv in H.
Qed.

(** the positions of a name in a paragraph that satisfies the invariant *)
Lemma occ_cases n fs :
  fields_inv fs = true ->
  (absent n fs = true /\ occ n (sfs_of fs) = [])
  \/ (absent n fs = false /\ exists q, occ n (sfs_of fs) = [q]).
Proof.
  intros Hfi. destruct (List.find (has_name n) fs) as [f|] eqn:Ef.
  - right. destruct (find_some_split _ _ _ Ef) as [l1 [l2 [-> [H1 Hf]]]].
    destruct (fields_inv_absent_before _ _ _ _ Hfi Hf) as [Hab1 Hab2]. split.
    + rewrite absent_app. cbn [absent forallb]. rewrite Hf. cbn [negb andb]. apply andb_false_r.
    + exists (length l1). unfold occ. now rewrite (occ_from_split n l1 f l2 0 Hab1 Hf Hab2).
  - left. apply find_none_forallb in Ef. split; [exact Ef|]. unfold occ. now apply occ_from_absent.
Qed.

Lemma head_app_reject (ts : list target) (must : bool) :
  ts <> [] -> head_accepts (if must then ts else ts ++ [TReject]) = head_accepts ts.
Proof. intros Hne. destruct ts as [|t ts]; [congruence|]. now destruct must. Qed.

Lemma head_resolve_one q k for_set :
  idx_reach k true = true -> head_accepts (resolve [q] (key_idx k) for_set) = true.
Proof.
  unfold idx_reach, resolve. destruct (key_idx k) as [i|]; [|reflexivity]. intros H.
  apply orb_true_iff in H. destruct H as [H|H]; apply Z.eqb_eq in H; subst i; reflexivity.
Qed.

Lemma head_resolve_nil k :
  idx_reach k false = true -> head_accepts (resolve [] (key_idx k) true) = true.
Proof.
  unfold idx_reach, resolve. destruct (key_idx k) as [i|]; [|reflexivity]. intros H.
  apply Z.eqb_eq in H. subst i. reflexivity.
Qed.

(** (a) what the model accepts, the Spec's first reading accepts *)
Lemma accept_head d o d' :
  doc_wf d = true -> op_in_domain (sdoc_of d) o = true -> run_op d o = Ok d' ->
  head_accepts (op_targets (sdoc_of d) o) = true.
Proof.
  intros Hwf Hdom Hrun.
  destruct (run_op_ok _ _ _ Hrun) as [a [p [b [p' [Hs [Hop Hd']]]]]].
  destruct (doc_wf_split _ _ _ _ _ Hwf Hs) as [_ [Hinv _]].
  unfold op_targets. rewrite split_para_of, Hs. cbv zeta.
  pose proof (para_inv_fields _ Hinv) as Hfi.
  destruct (is_setter o) eqn:Hset.
  - rewrite head_app_reject by apply resolve_nonempty.
    destruct (setter_inv o p p' Hset Hop) as [v Hv].
    pose proof (p_set_kvpair_idx _ _ _ _ Hinv Hv) as Hr.
    destruct (occ_cases (key_name (op_key o)) _ Hfi) as [[Hab ->]|[Hab [q ->]]]; rewrite Hab in Hr; cbn [negb] in Hr.
    + now apply head_resolve_nil.
    + now apply head_resolve_one.
  - destruct o as [j k V|j k|j k V pres fc|j k V pres fc]; try discriminate Hset.
    cbn [op_on_para op_key] in *.
    pose proof (p_remove_idx _ _ _ Hinv Hop) as Hr.
    destruct (p_remove_spec _ _ _ Hinv Hop) as [_ [l1 [f [l2 [Hpf [Hf [Hab1 _]]]]]]].
    destruct (occ_cases (key_name k) _ Hfi) as [[Hab _]|[_ [q ->]]].
    + rewrite Hpf, absent_app in Hab. cbn [absent forallb] in Hab. rewrite Hf in Hab.
      cbn [negb andb] in Hab. now rewrite andb_false_r in Hab.
    + now apply head_resolve_one.
Qed.

(** (b) for deletes: a key that reaches a field is not rejected *)
Lemma del_progress p k :
  para_inv p = true -> absent (key_name k) (para_fields p) = false -> plain_key k = true ->
  exists p', p_remove p k = Ok p'.
Proof.
  intros Hinv Hab Hk. destruct p as [fs|d]; cbn [p_remove para_fields] in *.
  - unfold nd_remove.
    assert (Hu : unpack_key k true = Ok (key_name k, None)).
    { destruct k as [n|n i]; cbn [unpack_key key_name]; [reflexivity|]. cbn in Hk. now rewrite Hk. }
    rewrite Hu. cbn [bind fst].
    assert (He : existsb (has_name (key_name k)) fs = true).
    { unfold absent in Hab. rewrite <- negb_false_iff. rewrite <- Hab.
      clear. induction fs as [|f fs IH]; [reflexivity|]. cbn [existsb forallb].
      rewrite negb_orb, IH. reflexivity. }
    rewrite He. cbn [bind]. now eexists.
  - destruct (para_inv_PD _ Hinv) as [Hd [Hnd _]]. pose proof Hd as [H1 H2 H3 H4].
    unfold d_remove.
    assert (Hu : unpack_key k false = Ok (key_name k, key_idx k)) by (destruct k; reflexivity).
    rewrite Hu. cbn [bind]. rewrite H4.
    destruct (d_get_nodup d k true Hd Hnd) as [[Hnil _]|[o1 [id [f [o2 [Ho [Hf [Hone _]]]]]]]].
    + rewrite (ids_with_nil_absent _ _ Hnil) in Hab. discriminate.
    + rewrite Hone. cbn [nonempty_opt].
      destruct k as [n|n i]; cbn [key_idx]; [cbn [bind]; now eexists|].
      cbn in Hk. apply Z.eqb_eq in Hk. subst i. cbn [py_index length]. cbn. now eexists.
Qed.

Lemma resolve_del_nil k : existsb is_reject (resolve [] (key_idx k) false) = true.
Proof.
  unfold resolve. destruct (key_idx k) as [i|]; [|reflexivity].
  destruct (0 <=? i)%Z eqn:Ei.
  - destruct (Z.to_nat i); reflexivity.
  - cbn [length]. rewrite Z.add_0_r, Ei. reflexivity.
Qed.

Lemma resolve_del_one q k :
  existsb is_reject (resolve [q] (key_idx k) false) = false -> plain_key k = true.
Proof.
  unfold resolve, plain_key. destruct k as [n|n i]; cbn [key_idx]; [reflexivity|].
  destruct (0 <=? i)%Z eqn:Ei.
  - destruct (Z.to_nat i) as [|m] eqn:Ez.
    + intros _. lia.
    + destruct m; cbn [nth_error andb]; discriminate.
  - cbn [length]. destruct (0 <=? i + Z.of_nat 1)%Z; [|discriminate].
    destruct (nth_error [q] (Z.to_nat (i + Z.of_nat 1))); discriminate.
Qed.

Lemma del_rejected_ok d j k err :
  doc_wf d = true -> op_in_domain (sdoc_of d) (ODel j k) = true ->
  run_op d (ODel j k) = Err err ->
  existsb is_reject (op_targets (sdoc_of d) (ODel j k)) = true.
Proof.
  intros Hwf Hdom Hrun. destruct (in_domain_split d _ Hdom) as [a [p [b [Hs Hsp]]]].
  cbn [op_para] in Hs, Hsp.
  destruct (doc_wf_split _ _ _ _ _ Hwf Hs) as [_ [Hinv _]].
  unfold op_targets. cbn [op_para op_key is_setter]. rewrite Hsp. cbv zeta.
  pose proof (para_inv_fields _ Hinv) as Hfi.
  destruct (occ_cases (key_name k) _ Hfi) as [[_ ->]|[Hab [q ->]]]; [apply resolve_del_nil|].
  destruct (existsb is_reject (resolve [q] (key_idx k) false)) eqn:E; [reflexivity|exfalso].
  pose proof (resolve_del_one _ _ E) as Hk.
  destruct (del_progress p k Hinv Hab Hk) as [p' Hp'].
  rewrite run_op_update, update_para_split in Hrun. cbn [op_para op_on_para] in Hrun.
  rewrite Hs, Hp' in Hrun. discriminate.
Qed.

(** * K. Progress: a certainly meaningful set is not rejected by the model *)

(** the physical lines [set_field_from_raw_string] builds from the raw value *)
Definition raw_lines_ok (raw : str) : Prop :=
  forall cased, name_ok cased = true ->
    exists r1 others,
      splitlines py_islinebreak true (cased ++ [COLON] ++ raw) = (cased ++ COLON :: r1) :: others
      /\ ends_nl (cased ++ COLON :: r1) = true
      /\ forallb ends_nl others = true
      /\ body_ok others = true.

Lemma name_ok_chars n : name_ok n = true -> forallb name_char n = true.
Proof. destruct n as [|c n]; [discriminate|]. cbn [name_ok]. intros H. apply andb_true_iff in H. now destruct H. Qed.

Lemma ends_nl_cons_app_lf n c s : ends_nl (n ++ c :: s ++ [LF]) = true.
Proof. apply ends_nl_app_r. change (c :: s ++ [LF]) with ((c :: s) ++ [LF]). apply ends_nl_app_lf. Qed.

Lemma raw_lines_setitem V : valid_value V = true -> raw_lines_ok (setitem_raw V).
Proof.
  intros Hv n Hnok. pose proof (name_ok_chars n Hnok) as Hn.
  unfold valid_value in Hv. apply andb_true_iff in Hv. destruct Hv as [Hch Hv].
  change (fun c : N => negb (py_islinebreak c) || (c =? 10)%N) with
         (fun c : N => negb (py_islinebreak c) || (c =? LF)%N) in Hch.
  fold (no_other_break V) in Hch.
  assert (Hnb : forallb (fun c => negb (py_islinebreak c)) n = true).
  { rewrite forallb_forall in *. intros c Hc. now rewrite (name_char_no_break c (Hn c Hc)). }
  destruct (no_break_no_lf _ Hnb) as [Hn1 Hn2].
  destruct (split_on_first 10%N V) as [first [rest|]] eqn:E; change 10%N with LF in E.
  - rewrite (setitem_raw_multi _ _ _ E).
    destruct (split_on_first_some _ _ _ _ E) as [HV Hfirst]. rewrite HV in Hch.
    rewrite no_other_break_app in Hch. apply andb_true_iff in Hch. destruct Hch as [Hf Hr].
    change (LF :: rest) with ([LF] ++ rest) in Hr. rewrite no_other_break_app in Hr.
    apply andb_true_iff in Hr. destruct Hr as [_ Hr].
    pose proof (no_lf_no_break _ Hf Hfirst) as Hfb.
    pose proof (forallb_py_strip _ _ Hfb) as Hsb. destruct (no_break_no_lf _ Hsb) as [Hs1 Hs2].
    set (sf := py_strip first) in *.
    assert (Hpre : n ++ [COLON] ++ (SP :: sf) ++ LF :: closed_rest rest
                   = (n ++ COLON :: SP :: sf) ++ LF :: closed_rest rest).
    { now rewrite <- !app_assoc. }
    exists ((SP :: sf) ++ [LF]), (lines_acc (closed_rest rest) []).
    rewrite Hpre. unfold splitlines. rewrite splitlines_aux_lines_acc.
    + rewrite lines_acc_prefix.
      * cbn [rev app]. split; [now rewrite <- !app_assoc|]. split.
        { apply (ends_nl_cons_app_lf n COLON (SP :: sf)). }
        rewrite only_lf_lines in Hv. apply andb_true_iff in Hv. destruct Hv as [H1 H2].
        split; [apply (lines_closed_rest rest)|now apply body_ok_lines].
      * rewrite forallb_app. cbn [forallb]. now rewrite Hn2, Hs2.
    + reflexivity.
    + fold (no_other_break ((n ++ COLON :: SP :: sf) ++ LF :: closed_rest rest)).
      rewrite no_other_break_app. change (COLON :: SP :: sf) with ([COLON; SP] ++ sf).
      rewrite !no_other_break_app, Hn1, Hs1. cbn [andb].
      change (no_other_break [COLON; SP]) with true. cbn [andb].
      change (LF :: closed_rest rest) with ([LF] ++ closed_rest rest). rewrite no_other_break_app.
      change (no_other_break [LF]) with true. cbn [andb]. unfold closed_rest.
      destruct (closed rest); [exact Hr|]. rewrite no_other_break_app, Hr. reflexivity.
  - unfold setitem_raw. rewrite E.
    destruct (split_on_first_none _ _ _ E) as [_ HV].
    pose proof (no_lf_no_break _ Hch HV) as Hvb.
    pose proof (forallb_py_strip _ _ (forallb_py_strip _ _ Hvb)) as Hsb.
    destruct (no_break_no_lf _ Hsb) as [Hs1 Hs2]. set (sf := py_strip (py_strip V)) in *.
    assert (Hpre : n ++ [COLON] ++ [SP] ++ sf ++ [LF] = (n ++ COLON :: SP :: sf) ++ LF :: []).
    { now rewrite <- !app_assoc. }
    exists ((SP :: sf) ++ [LF]), [].
    rewrite Hpre. unfold splitlines. rewrite splitlines_aux_lines_acc.
    + rewrite lines_acc_prefix.
      * cbn [rev app lines_acc is_nil]. split; [now rewrite <- !app_assoc|]. split; [|now split].
        apply (ends_nl_cons_app_lf n COLON (SP :: sf)).
      * rewrite forallb_app. cbn [forallb]. now rewrite Hn2, Hs2.
    + reflexivity.
    + fold (no_other_break ((n ++ COLON :: SP :: sf) ++ [LF])).
      rewrite no_other_break_app. change (COLON :: SP :: sf) with ([COLON; SP] ++ sf).
      rewrite !no_other_break_app, Hn1, Hs1. reflexivity.
Qed.

Lemma raw_lines_raw V : valid_raw V = true -> raw_lines_ok V.
Proof.
  intros Hv n Hnok. pose proof (name_ok_chars n Hnok) as Hn.
  destruct (valid_raw_parts V Hv) as [first [rest [E [HV [Hfirst [Hcr Hch]]]]]].
  unfold valid_raw in Hv. apply andb_true_iff in Hv. destruct Hv as [Hvv _].
  unfold valid_value in Hvv. apply andb_true_iff in Hvv. destruct Hvv as [_ Hb].
  change 10%N with LF in Hb. rewrite E in Hb. cbv zeta in Hb. rewrite only_lf_lines in Hb.
  apply andb_true_iff in Hb. destruct Hb as [H1 H2].
  assert (Hnb : forallb (fun c => negb (py_islinebreak c)) n = true).
  { rewrite forallb_forall in *. intros c Hc. now rewrite (name_char_no_break c (Hn c Hc)). }
  destruct (no_break_no_lf _ Hnb) as [Hn1 Hn2].
  assert (Hpre : n ++ [COLON] ++ V = (n ++ COLON :: first) ++ LF :: rest).
  { rewrite HV. now rewrite <- !app_assoc. }
  exists (first ++ [LF]), (lines_acc rest []).
  rewrite Hpre. unfold splitlines. rewrite splitlines_aux_lines_acc.
  - rewrite lines_acc_prefix.
    + cbn [rev app]. split; [now rewrite <- !app_assoc|]. split.
      { apply (ends_nl_cons_app_lf n COLON first). }
      rewrite <- Hcr. split; [apply (lines_closed_rest rest)|now apply body_ok_lines].
    + rewrite forallb_app. cbn [forallb]. now rewrite Hn2, Hfirst.
  - reflexivity.
  - rewrite <- Hpre. fold (no_other_break (n ++ [COLON] ++ V)).
    rewrite !no_other_break_app, Hn1, Hch. reflexivity.
Qed.

Lemma body_class_cont_start l : body_class l = true -> cont_start l = true.
Proof.
  unfold body_class, classify. destruct (Doc.is_ws_line l); [discriminate|].
  destruct l as [|c l0]; [discriminate|]. cbn [cont_start].
  destruct (c =? HASH)%N; [intros _; apply orb_true_r|]. rewrite orb_false_r.
  destruct ((c =? SP)%N || (c =? TAB)%N); [reflexivity|].
  destruct (match_field_line (c :: l0)) as [[n0 r0]|]; discriminate.
Qed.

Lemma cont_class_not_hash l : cont_class l = true -> starts_hash l = false.
Proof.
  unfold cont_class, classify. destruct (Doc.is_ws_line l); [discriminate|].
  destruct l as [|c l0]; [discriminate|]. cbn [starts_hash].
  destruct (c =? HASH)%N; [discriminate|reflexivity].
Qed.

Lemma check_false_ok others :
  forallb ends_nl others = true -> forallb cont_start others = true ->
  check_raw_lines false others = Ok tt.
Proof.
  induction others as [|l ls IH]; [reflexivity|]. cbn [forallb]. intros H1 H2.
  apply andb_true_iff in H1. destruct H1 as [Hl H1]. apply andb_true_iff in H2. destruct H2 as [Hc H2].
  cbn [check_raw_lines]. rewrite Hl. cbn [negb andb]. destruct l as [|c l0]; [discriminate|].
  cbn [cont_start] in Hc. rewrite Hc. cbn [negb]. now apply IH.
Qed.

Lemma validate_ok first others :
  ends_nl first = true -> forallb ends_nl others = true -> body_ok others = true ->
  validate_raw_lines (first :: others) = Ok tt.
Proof.
  intros Hf Ho Hb. unfold validate_raw_lines. cbn [check_raw_lines]. rewrite Hf. cbn [negb andb].
  unfold body_ok in Hb. destruct others as [|o os]; [reflexivity|]. cbn [is_nil orb] in Hb.
  apply andb_true_iff in Hb. destruct Hb as [Hall Hlast].
  rewrite check_false_ok; [|exact Ho|].
  2:{ rewrite forallb_forall in *. intros x Hx. apply body_class_cont_start. now apply Hall. }
  cbn [bind]. change (last_opt (first :: o :: os)) with (last_opt (o :: os)).
  destruct (last_opt (o :: os)) as [l|]; [|reflexivity]. now rewrite (cont_class_not_hash l Hlast).
Qed.

(** the key of a plain call finds the field of that name, if any *)
Lemma p_get_plain p k :
  para_inv p = true -> plain_key k = true ->
  p_get p k true = LOk (List.find (has_name (key_name k)) (para_fields p)).
Proof.
  intros Hinv Hk. destruct p as [fs|d]; cbn [p_get para_fields].
  - unfold nd_get.
    assert (Hu : unpack_key k true = Ok (key_name k, None)).
    { destruct k as [n|n i]; cbn [unpack_key key_name]; [reflexivity|]. cbn in Hk. now rewrite Hk. }
    rewrite Hu. cbn [bind fst]. now destruct (List.find (has_name (key_name k)) fs).
  - destruct (para_inv_PD _ Hinv) as [Hd [Hnd _]].
    assert (Hhit : idx_hits k = true).
    { destruct k as [n|n i]; [reflexivity|]. cbn in Hk. unfold idx_hits. cbn. now rewrite Hk. }
    destruct (d_get_nodup d k true Hd Hnd) as [[Hnil Hg]|[o1 [id [f [o2 [Ho [Hf [_ Hg]]]]]]]];
      rewrite Hg, ?Hhit.
    + apply ids_with_nil_absent in Hnil.
      destruct (List.find (has_name (key_name k)) (map snd (d_order d))) as [g|] eqn:Ef; [|reflexivity].
      apply find_some_split in Ef. destruct Ef as [m1 [m2 [E [_ Hgn]]]]. rewrite E, absent_app in Hnil.
      cbn [absent forallb] in Hnil. rewrite Hgn in Hnil. cbn in Hnil. now rewrite andb_false_r in Hnil.
    + apply lname_has_name in Hf. rewrite Ho, map_snd_split.
      apply para_inv_fields in Hinv. cbn [para_fields] in Hinv. rewrite Ho, map_snd_split in Hinv.
      unfold fields_inv in Hinv. apply andb_true_iff in Hinv. destruct Hinv as [Hi _].
      apply nodup_names_split in Hi. destruct Hi as [Hi _].
      rewrite find_split; [reflexivity| |exact Hf].
      unfold has_name in Hf. rewrite (absent_cong _ _ _ Hf) in Hi. exact Hi.
Qed.

Lemma p_set_kvpair_progress p k v :
  para_inv p = true -> plain_key k = true -> name_eqb (key_name k) (f_name v) = true ->
  exists p', p_set_kvpair p k v = Ok p'.
Proof.
  intros Hinv Hk Hn. destruct p as [fs|d]; cbn [p_set_kvpair].
  - unfold nd_set_kvpair.
    assert (Hu : unpack_key k true = Ok (key_name k, None)).
    { destruct k as [n|n i]; cbn [unpack_key key_name]; [reflexivity|]. cbn in Hk. now rewrite Hk. }
    rewrite Hu. cbn [bind fst]. rewrite Hn. cbn [negb].
    destruct (existsb (has_name (f_name v)) fs); cbn [bind]; now eexists.
  - destruct (para_inv_PD _ Hinv) as [Hd [Hnd _]]. pose proof Hd as [H1 H2 H3 H4].
    unfold d_set_kvpair.
    assert (Hu : unpack_key k false = Ok (key_name k, key_idx k)) by (destruct k; reflexivity).
    rewrite Hu. cbn [bind]. rewrite Hn. cbn [negb].
    assert (Hkeyeq : lower (f_name v) = lower (key_name k)).
    { unfold name_eqb in Hn. apply str_eqb_eq in Hn. now symmetry. }
    rewrite Hkeyeq, H4.
    assert (Hidx : key_idx k = None \/ key_idx k = Some 0%Z).
    { destruct k as [n|n i]; [now left|right]. cbn in Hk. apply Z.eqb_eq in Hk. now subst i. }
    destruct (d_get_nodup d k true Hd Hnd) as [[Hnil _]|[o1 [id [f [o2 [Ho [Hf [Hone _]]]]]]]].
    + rewrite Hnil. cbn [nonempty_opt]. destruct Hidx as [->| ->]; cbn [Z.eqb negb bind]; now eexists.
    + rewrite Hone. cbn [nonempty_opt]. destruct Hidx as [->| ->]; [cbn [bind]; now eexists|].
      rewrite py_index_single. cbn [Z.eqb orb bind]. now eexists.
Qed.

Lemma scan_body_ok others acc : body_ok others = true -> exists rest, scan_body others [] acc = Ok rest.
Proof.
  unfold body_ok. destruct others as [|l ls]; [intros _; now eexists|]. cbn [is_nil orb]. intros H.
  apply andb_true_iff in H. destruct H as [H1 H2].
  rewrite scan_body_all by (try discriminate; assumption). now eexists.
Qed.

Lemma set_comment_progress v c : closed c = true -> exists v', set_comment v c = Ok v' /\ f_name v' = f_name v.
Proof.
  unfold closed, set_comment. destruct (is_nil c); [intros _; now eexists|]. cbn [orb]. intros ->. now eexists.
Qed.

Lemma set_raw_core_progress p k raw comments pres fc :
  para_inv p = true -> para_wf p = true -> plain_key k = true ->
  (absent (key_name k) (para_fields p) = true -> name_ok (key_name k) = true) ->
  raw_lines_ok raw ->
  forallb starts_hash comments = true -> forallb ends_nl comments = true ->
  match fc with FCElem t => closed t = true | _ => True end ->
  exists p', set_raw_core p k raw comments pres fc = Ok p'.
Proof.
  intros Hinv Hpw Hk Hnew Hraw Hcs Hce Hfc. unfold set_raw_core.
  rewrite (p_get_plain p k Hinv Hk). cbn [bind].
  set (n := key_name k) in *.
  set (orig := List.find (has_name n) (para_fields p)).
  assert (Hcased : name_ok (match orig with Some f => f_name f | None => n end) = true
                   /\ name_eqb (match orig with Some f => f_name f | None => n end) n = true
                   /\ match orig with Some f => closed (f_comment f) = true | None => True end).
  { subst orig. destruct (List.find (has_name n) (para_fields p)) as [f|] eqn:Ef.
    - destruct (find_some_split _ _ _ Ef) as [l1 [l2 [Hpf [_ Hf]]]].
      assert (Hfw : field_wf f = true).
      { unfold para_wf in Hpw. rewrite forallb_forall in Hpw. apply Hpw. rewrite Hpf. apply in_elt. }
      destruct (field_wf_v f Hfw) as [Hcw Hnok]. split; [exact Hnok|]. split; [exact Hf|].
      unfold comment_wf in Hcw. apply andb_true_iff in Hcw. now destruct Hcw.
    - apply find_none_forallb in Ef. split; [now apply Hnew|]. split; [apply name_eqb_refl|exact I]. }
  destruct Hcased as [Hnok [Hneq Hcl]].
  set (cased := match orig with Some f => f_name f | None => n end) in *.
  destruct (Hraw cased Hnok) as [r1 [others [HL [Hend [Hoth Hbody]]]]]. rewrite HL.
  pose proof (validate_ok _ _ Hend Hoth Hbody) as Hval. unfold str in Hval. rewrite Hval. cbn [bind].
  unfold parse_new_field.
  assert (Hall : forallb ends_nl (comments ++ (cased ++ COLON :: r1) :: others) = true).
  { rewrite forallb_app. cbn [forallb]. now rewrite Hce, Hend, Hoth. }
  rewrite Hall. cbn [negb]. rewrite scan_head_comments by exact Hcs. cbn [scan_head].
  rewrite (classify_field_line false cased (COLON :: r1) Hnok eq_refl).
  destruct (scan_body_ok others (COLON :: r1) Hbody) as [rest Hrest]. rewrite Hrest. cbn [bind f_name].
  rewrite Hneq. cbn [bind].
  set (v := mkF ([] ++ concat comments) cased rest).
  assert (Hv' : exists v', (if match pres with Some b => b | None => true end
                            then match orig with Some o => set_comment v (f_comment o) | None => Ok v end
                            else match fc with FCElem t => set_comment v t | _ => Ok v end) = Ok v'
                           /\ f_name v' = cased).
  { destruct (match pres with Some b => b | None => true end).
    - destruct orig as [o|]; [|now exists v]. destruct (set_comment_progress v (f_comment o) Hcl) as [v' [H1 H2]].
      now exists v'.
    - destruct fc as [|l|t]; [now exists v|now exists v|].
      destruct (set_comment_progress v t Hfc) as [v' [H1 H2]]. now exists v'. }
  destruct Hv' as [v' [Hv' Hname]]. rewrite Hv'. cbn [bind].
  apply p_set_kvpair_progress; [exact Hinv|exact Hk|].
  rewrite Hname, name_eqb_sym. exact Hneq.
Qed.

(** ** the comment arguments *)

Lemma no_break_no_lf_mem s : forallb (fun x => negb (py_islinebreak x)) s = true -> mem_char LF s = false.
Proof.
  induction s as [|x s IH]; [reflexivity|]. cbn [forallb]. intros H. apply andb_true_iff in H.
  destruct H as [Hx H]. unfold mem_char in *. cbn [existsb]. rewrite (IH H), orb_false_r.
  destruct (N.eqb_spec LF x) as [<-|]; [discriminate Hx|reflexivity].
Qed.

Lemma dropwhile_not_all {A} (q : A -> bool) s : forallb q s = false -> forallb q (dropwhile q s) = false.
Proof.
  induction s as [|x s IH]; [discriminate|]. cbn [forallb dropwhile]. destruct (q x) eqn:E; [exact IH|].
  intros _. cbn [forallb]. now rewrite E.
Qed.

Lemma rstrip_not_all s : forallb py_isspace s = false -> forallb py_isspace (py_rstrip s) = false.
Proof.
  intros H. unfold py_rstrip, rstrip_by, rdropwhile. rewrite forallb_rev.
  apply dropwhile_not_all. now rewrite forallb_rev.
Qed.

Lemma dropwhile_ends (q : N -> bool) s :
  forallb q s = false -> ends_nl s = true -> ends_nl (dropwhile q s) = true.
Proof.
  intros Hq He. pose proof (span_app q s) as Hs. rewrite dropwhile_span.
  assert (Hne : snd (span q s) <> []).
  { intros E. rewrite E, app_nil_r in Hs. pose proof (span_all q s) as Ha. rewrite Hs in Ha. congruence. }
  rewrite <- Hs in He. now rewrite ends_nl_app in He.
Qed.

Lemma format_comment_ok c :
  valid_comment c = true -> comment_usable c = true ->
  exists c', format_comment c = Ok c' /\ ends_nl c' = true.
Proof.
  intros Hv Hu. unfold format_comment. destruct (is_nil c) eqn:En; [now eexists|].
  assert (Hns : forallb py_isspace c = false).
  { unfold comment_usable in Hu. destruct c; [discriminate En|]. cbn [is_nil_l' orb] in Hu.
    now apply negb_true_iff in Hu. }
  assert (Hlf : mem_char LF (removelast c) = false).
  { apply no_break_no_lf_mem. unfold valid_comment, DocSpec.chomp in Hv.
    destruct (s_ends_nl c); [exact Hv|now apply forallb_removelast]. }
  rewrite Hlf.
  set (c1 := if ends_nl c then c else py_rstrip c ++ [LF]).
  assert (Hc1 : ends_nl c1 = true /\ forallb py_isspace c1 = false).
  { subst c1. destruct (ends_nl c) eqn:Ee; [now split|]. split; [apply ends_nl_app_lf|].
    rewrite forallb_app, (rstrip_not_all _ Hns). reflexivity. }
  destruct Hc1 as [He1 Hs1].
  destruct c1 as [|x c1'] eqn:E1; [discriminate He1|].
  destruct (x =? HASH)%N; [now eexists|]. eexists. split; [reflexivity|].
  apply ends_nl_app_r. unfold py_lstrip, lstrip_by. now apply dropwhile_ends.
Qed.

Lemma format_comments_ok l :
  forallb valid_comment l = true -> forallb comment_usable l = true ->
  exists cs, map_result format_comment l = Ok cs /\ forallb ends_nl cs = true.
Proof.
  induction l as [|c l IH]; intros Hv Hu; [now exists []|].
  cbn [forallb] in *. apply andb_true_iff in Hv. destruct Hv as [Hv1 Hv].
  apply andb_true_iff in Hu. destruct Hu as [Hu1 Hu].
  destruct (format_comment_ok c Hv1 Hu1) as [c' [Hc He]]. destruct (IH Hv Hu) as [cs [Hcs Hes]].
  exists (c' :: cs). cbn [map_result]. rewrite Hc, Hcs. cbn [bind forallb]. now rewrite He, Hes.
Qed.

Lemma set_raw_progress p k raw pres (fc : option (list str)) :
  para_inv p = true -> para_wf p = true -> plain_key k = true ->
  (absent (key_name k) (para_fields p) = true -> name_ok (key_name k) = true) ->
  raw_lines_ok raw ->
  match pres, fc with Some _, Some _ => false | _, _ => true end = true ->
  match fc with Some l => forallb valid_comment l = true /\ forallb comment_usable l = true | None => True end ->
  exists p', set_raw p k raw pres (fc_of fc) = Ok p'.
Proof.
  intros Hinv Hpw Hk Hnew Hraw Hnc Hfc. unfold set_raw.
  destruct fc as [l|]; cbn [fc_of raw_args].
  - destruct pres as [b|]; [discriminate Hnc|]. destruct Hfc as [Hv Hu]. cbn [raw_args].
    destruct (format_comments_ok l Hv Hu) as [cs [Hcs Hes]]. rewrite Hcs. cbn [bind].
    apply set_raw_core_progress; try assumption; [|exact I].
    now apply (map_result_format_comment l).
  - destruct pres as [b|]; cbn [raw_args bind]; now apply set_raw_core_progress.
Qed.

Lemma set_raw_elem_progress p k raw fc :
  para_inv p = true -> para_wf p = true -> plain_key k = true ->
  (absent (key_name k) (para_fields p) = true -> name_ok (key_name k) = true) ->
  raw_lines_ok raw ->
  match fc with FCNone => True | FCElem t => closed t = true | FCList _ => False end ->
  exists p', set_raw p k raw None fc = Ok p'.
Proof.
  intros Hinv Hpw Hk Hnew Hraw Hfc. unfold set_raw.
  destruct fc as [|l|t]; [| destruct Hfc |]; cbn [raw_args bind]; now apply set_raw_core_progress.
Qed.

Lemma nolf_mem s : forallb (fun x => negb (x =? LF)%N) s = true -> mem_char LF s = false.
Proof.
  induction s as [|x s IH]; [reflexivity|]. cbn [forallb]. intros H. apply andb_true_iff in H.
  destruct H as [Hx H]. unfold mem_char in *. cbn [existsb]. rewrite (IH H), orb_false_r.
  rewrite N.eqb_sym. now apply negb_true_iff.
Qed.

(** ** the operations *)
Lemma set_progress o p :
  para_inv p = true -> para_wf p = true -> is_setter o = true -> op_contra o = false ->
  plain_key (op_key o) = true ->
  (absent (key_name (op_key o)) (para_fields p) = true -> name_ok (key_name (op_key o)) = true) ->
  op_vvalid o = true -> op_args_ok o = true ->
  match op_fc o with Some l => forallb valid_comment l = true | None => True end ->
  exists p', op_on_para o p = Ok p'.
Proof.
  intros Hinv Hpw Hset Hnc Hk Hnew Hvv Hao Hfcv.
  destruct o as [j k V|j k|j k V pres fc|j k V pres fc]; try discriminate Hset;
    cbn [op_on_para op_key op_vvalid op_fc] in *.
  - (* p[k] = V *)
    unfold setitem. rewrite (p_get_lookup_key p k true Hinv), (p_get_plain p k Hinv Hk). cbn [lres_result bind].
    set (orig := List.find (has_name (key_name k)) (para_fields p)).
    set (fc := match orig with
               | Some f => if is_nil (f_comment f) then FCNone else FCElem (f_comment f)
               | None => FCNone
               end).
    assert (Hfc : match fc with FCNone => True | FCElem t => closed t = true | FCList _ => False end).
    { subst fc orig. destruct (List.find (has_name (key_name k)) (para_fields p)) as [f|] eqn:Ef; [|exact I].
      destruct (is_nil (f_comment f)); [exact I|].
      destruct (find_some_split _ _ _ Ef) as [l1 [l2 [Hpf _]]].
      assert (Hfw : field_wf f = true).
      { unfold para_wf in Hpw. rewrite forallb_forall in Hpw. apply Hpw. rewrite Hpf. apply in_elt. }
      destruct (field_wf_v f Hfw) as [Hcw _]. unfold comment_wf in Hcw. apply andb_true_iff in Hcw. now destruct Hcw. }
    assert (G : exists p', set_raw p k (setitem_raw V) None fc = Ok p').
    { apply set_raw_elem_progress; try assumption. now apply raw_lines_setitem. }
    unfold setitem_raw in G. destruct (split_on_first LF V) as [first [rest|]] eqn:E.
    + cbv zeta. exact G.
    + unfold set_simple. destruct (split_on_first_none _ _ _ E) as [_ HV].
      rewrite (nolf_mem (py_strip V)) by (now apply forallb_py_strip). exact G.
  - (* set_field_to_simple_value *)
    apply andb_true_iff in Hvv. destruct Hvv as [Hvv Hnl]. apply negb_true_iff in Hnl.
    unfold set_simple. rewrite Hnl.
    assert (Hraw : setitem_raw V = [SP] ++ py_strip V ++ [LF]).
    { unfold setitem_raw. rewrite (split_on_first_nolf _ Hnl). now rewrite py_strip_idem. }
    rewrite <- Hraw. apply set_raw_progress; try assumption.
    + now apply raw_lines_setitem.
    + unfold op_contra in Hnc. cbn [op_pres op_fc] in Hnc. destruct pres, fc; try reflexivity; discriminate.
    + unfold op_args_ok in Hao. cbn [op_fc] in Hao. destruct fc; [now split|exact I].
  - (* set_field_from_raw_string *)
    apply set_raw_progress; try assumption.
    + now apply raw_lines_raw.
    + unfold op_contra in Hnc. cbn [op_pres op_fc] in Hnc. destruct pres, fc; try reflexivity; discriminate.
    + unfold op_args_ok in Hao. cbn [op_fc] in Hao. destruct fc; [now split|exact I].
Qed.

Lemma safe_name_ok n : safe_name n = true -> name_ok n = true.
Proof.
  assert (A1 : forall c, alnum c = true -> name_first c = true).
  { intros c. unfold alnum, name_first. lia. }
  assert (A2 : forall c, alnum c || (c =? 45)%N || (c =? 95)%N = true -> name_char c = true).
  { intros c. unfold alnum, name_char. lia. }
  destruct n as [|c r]; [discriminate|]. cbn [safe_name name_ok forallb]. intros H.
  apply andb_true_iff in H. destruct H as [Hc Hr]. rewrite (A1 c Hc). cbn [andb].
  rewrite (A2 c) by (now rewrite Hc). cbn [andb].
  rewrite forallb_forall in *. intros x Hx. apply A2. now apply Hr.
Qed.

Lemma resolve_set_one q k :
  existsb is_reject (resolve [q] (key_idx k) true) = false -> plain_key k = true.
Proof.
  unfold resolve, plain_key. destruct k as [n|n i]; cbn [key_idx]; [reflexivity|].
  destruct (0 <=? i)%Z eqn:Ei.
  - destruct (Z.to_nat i) as [|m] eqn:Ez.
    + intros _. lia.
    + destruct m; cbn [nth_error is_nil_l andb]; rewrite ?andb_false_r; discriminate.
  - cbn [length]. destruct (0 <=? i + Z.of_nat 1)%Z; [|discriminate].
    destruct (nth_error [q] (Z.to_nat (i + Z.of_nat 1))); discriminate.
Qed.

Lemma resolve_set_nil k :
  existsb is_reject (resolve [] (key_idx k) true) = false -> plain_key k = true.
Proof.
  unfold resolve, plain_key. destruct k as [n|n i]; cbn [key_idx]; [reflexivity|].
  destruct (0 <=? i)%Z eqn:Ei.
  - destruct (Z.to_nat i); cbn [nth_error]; destruct (true && is_nil_l (@nil nat) && (i =? 0)%Z); discriminate.
  - cbn [length]. rewrite Z.add_0_r, Ei. discriminate.
Qed.

(** (b) for the set-like operations: a rejected call is one the Spec allows to be rejected *)
Lemma set_rejected_ok d o err :
  doc_wf d = true -> op_in_domain (sdoc_of d) o = true -> is_setter o = true ->
  run_op d o = Err err ->
  op_contra o || existsb is_reject (op_targets (sdoc_of d) o) = true.
Proof.
  intros Hwf Hdom Hset Hrun. destruct (in_domain_split d _ Hdom) as [a [p [b [Hs Hsp]]]].
  destruct (doc_wf_split _ _ _ _ _ Hwf Hs) as [_ [Hinv [Hpw _]]].
  destruct (op_contra o) eqn:Hnc; [reflexivity|]. cbn [orb].
  destruct (existsb is_reject (op_targets (sdoc_of d) o)) eqn:E; [reflexivity|exfalso].
  unfold op_targets in E. rewrite Hsp, Hset in E. cbv zeta in E.
  set (n := key_name (op_key o)) in *.
  set (oc := occ n (sfs_of (para_fields p))) in *.
  destruct (op_vvalid o && op_args_ok o && (negb (is_nil_l oc) || safe_name n)) eqn:Hmust.
  2:{ rewrite existsb_app in E. cbn in E. now rewrite orb_true_r in E. }
  apply andb_true_iff in Hmust. destruct Hmust as [Hm Hname].
  apply andb_true_iff in Hm. destruct Hm as [Hvv Hao].
  pose proof (para_inv_fields _ Hinv) as Hfi.
  assert (Hk : plain_key (op_key o) = true /\ (absent n (para_fields p) = true -> name_ok n = true)).
  { subst oc. destruct (occ_cases n _ Hfi) as [[Hab Hocc]|[Hab [q Hocc]]]; rewrite Hocc in *.
    - split; [now apply resolve_set_nil|]. intros _. cbn [is_nil_l negb orb] in Hname. now apply safe_name_ok.
    - split; [now apply (resolve_set_one q)|]. intros H. congruence. }
  destruct Hk as [Hk Hnew].
  assert (Hfcv : match op_fc o with Some l => forallb valid_comment l = true | None => True end).
  { unfold op_in_domain, dom_ok in Hdom. rewrite Hsp in Hdom. apply andb_true_iff in Hdom.
    destruct Hdom as [_ Hd]. now destruct (op_fc o). }
  destruct (set_progress o p Hinv Hpw Hset Hnc Hk Hnew Hvv Hao Hfcv) as [p' Hp'].
  rewrite run_op_update, update_para_split, Hs, Hp' in Hrun. discriminate.
Qed.

(** * J. The side condition and the theorem *)

Definition all_nodup (d : doc) : bool := forallb (fun p => nodup_names (para_fields p)) (paras d).

(** the model's verdict on the call is one the Spec allows for this key and these arguments:
    a rejection only where the Spec lists [TReject] (or the comment arguments contradict each
    other), an acceptance only where the Spec's first reading is a field or "add".  Proved for
    every in-domain step of a well-formed document: [accept_head], [del_rejected_ok],
    [set_rejected_ok] - not a side condition. *)
Definition verdict_ok (e : option err) (o : op) (ts : list target) : bool :=
  match e with
  | Some _ => op_contra o || existsb is_reject ts
  | None => head_accepts ts
  end.

Definition step_judged (d : doc) (o : op) (e : option err) (d' : doc) (st : steplit) : bool :=
  all_nodup d
  && match s_reparse st with Some _ => true | None => false end
  && match e with Some _ => true | None => lookups_ok d' o st end.

Fixpoint judged_steps (d : doc) (ops : list op) (steps : list steplit) : bool :=
  match ops, steps with
  | o :: ops', st :: steps' =>
      if negb (op_in_domain (sdoc_of d) o) then true
      else let (e, d') := step d o in step_judged d o e d' st && judged_steps d' ops' steps'
  | _, _ => true
  end.

Definition judged (c : case) : bool :=
  match c with
  | Run text items init ops steps => judged_steps (map dec_item items) (map dec_op ops) steps
  | _ => true
  end.

Lemma no_dup_class_of items :
  forallb class_ok items = true -> all_nodup (map dec_item items) = true -> no_dup_class items = true.
Proof.
  induction items as [|it items IH]; intros Hc Hn; [reflexivity|].
  cbn [forallb] in Hc. apply andb_true_iff in Hc. destruct Hc as [Hc1 Hc].
  destruct it as [dup fs|k t].
  - unfold all_nodup in Hn. cbn [map dec_item paras flat_map app forallb] in Hn.
    apply andb_true_iff in Hn. destruct Hn as [Hn1 Hn].
    unfold no_dup_class. cbn [forallb]. fold (no_dup_class items). rewrite (IH Hc Hn), andb_true_r.
    destruct dup; [|reflexivity]. rewrite init_dup_fields in Hn1.
    cbn [class_ok] in Hc1. unfold from_kvpairs in Hc1. unfold nodup_names, lnames in Hn1.
    rewrite Hn1 in Hc1. discriminate.
  - unfold no_dup_class. cbn [forallb]. apply IH; [exact Hc|]. exact Hn.
Qed.

Lemma hyp_state_init items :
  forallb class_ok items = true -> hyp_ok items (map dec_item items) = true ->
  hyp_state (map dec_item items) = true.
Proof.
  intros Hc Hh. unfold hyp_state.
  destruct (forallb (fun p => nodup_names (para_fields p)) (paras (map dec_item items))) eqn:E; [|reflexivity].
  unfold hyp_ok in Hh. now rewrite (no_dup_class_of items Hc E) in Hh.
Qed.

Lemma hyp_state_wf d : hyp_state d = true -> all_nodup d = true -> doc_wf d = true.
Proof. unfold hyp_state, all_nodup. intros H Hn. now rewrite Hn in H. Qed.

Lemma step_none d o d' : step d o = (None, d') -> run_op d o = Ok d'.
Proof. unfold step. destruct (run_op d o); [now intros [= <-]|discriminate]. Qed.

Lemma steps_hold : forall ops steps d,
  hyp_state d = true -> agree_steps d ops steps = true -> judged_steps d ops steps = true ->
  holds_steps (sdoc_of d) ops steps = true.
Proof.
  induction ops as [|o ops IH]; intros [|st steps] d Hh Ha Hj; try discriminate Ha; [reflexivity|].
  cbn [agree_steps judged_steps holds_steps] in *. rewrite judge_eq.
  destruct (op_in_domain (sdoc_of d) o) eqn:Hdom.
  2:{ unfold judge'. now rewrite Hdom. }
  cbn [negb] in Hj. destruct (step d o) as [e d'] eqn:Est.
  rewrite !andb_true_iff in Ha.
  destruct Ha as [[[[[[[Herr Hdump] _] Hh'] Hrr] Hra] _] Hrest].
  apply andb_true_iff in Hj. destruct Hj as [Hsj Hj].
  unfold step_judged in Hsj. rewrite !andb_true_iff in Hsj. destruct Hsj as [[Hnd Hrp] Hlk].
  apply option_eqb_err_eq in Herr. apply str_eqb_eq in Hdump.
  pose proof (hyp_state_wf d Hh Hnd) as Hwf.
  assert (Hv : verdict_ok e o (op_targets (sdoc_of d) o) = true).
  { unfold verdict_ok. destruct e as [err|].
    - destruct (rejects_leave_unchanged _ _ _ _ Est) as [_ Hrun].
      destruct (is_setter o) eqn:Hset; [now apply (set_rejected_ok d o err)|].
      destruct o as [j k v|j k|j k v pres fc|j k v pres fc]; try discriminate Hset.
      rewrite (del_rejected_ok d j k err Hwf Hdom Hrun). apply orb_true_r.
    - apply (accept_head d o d' Hwf Hdom). now apply step_none. }
  assert (Hobs : obs_of d' st).
  { split; [exact Hdump|]. unfold reparse_agree in Hra. destruct (s_reparse st) as [r|]; [|discriminate].
    exists r. split; [reflexivity|]. rewrite (reread_rows_of d' Hrr) in Hra.
    apply read_eqb'_eq in Hra. now symmetry. }
  assert (Hjd : judge' (sdoc_of d) o (dec_obs st) = Some (Some (sdoc_of d'))).
  { destruct e as [err|].
    - destruct (rejects_leave_unchanged _ _ _ _ Est) as [-> _].
      apply (judge_rejected d o st err); [exact Hdom|now symmetry|exact Hobs|exact Hv].
    - apply step_none in Est. destruct (is_setter o) eqn:Hset.
      + apply judge_set_accepted; try assumption. now symmetry.
      + destruct o as [j k v|j k|j k v pres fc|j k v pres fc]; try discriminate Hset.
        apply judge_del_accepted; try assumption. now symmetry. }
  rewrite Hjd. now apply IH.
Qed.

Theorem agree_implies_holds c : judged c = true -> agree c = true -> holds c = true.
Proof.
  destruct c as [text items init ops steps| | |]; intros Hj Ha; try reflexivity.
  cbn [agree holds judged] in *. cbv zeta in Ha.
  rewrite !andb_true_iff in Ha. destruct Ha as [[[[[[Hc Hh] _] Hd] _] Hi] Hs].
  apply read_eqb'_eq in Hi. apply str_eqb_eq in Hd.
  rewrite (spec_init_of items init Hc Hi), sdump_of, Hd, str_eqb_refl. cbn [andb].
  apply steps_hold; [now apply hyp_state_init|exact Hs|exact Hj].
Qed.
