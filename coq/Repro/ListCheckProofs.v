(** C11: on the cases of the check (Repro/ListCheck.v), [agree] implies [holds].

    [agree_implies_holds : judged c = true -> agree c = true -> holds c = true]   (section D)

    Only [CView] cases are judged by [holds] (the leaf constructors CTok / CLeafWs / CLeafComma /
    CReparse / CSpec / CSkip hold trivially), and only inside the property's domain [value_ok].

    Route.  [walk_refines] (section B, generic in the list kind): along a session of value
    operations the abstract machine that [holds] walks ([a_step]) and the model stay in the
    refinement invariant of theorems 5 / 7 (J resp. Jc, [step_refines] / [step_refines_c]);
    [agree] makes the observed outcomes those of the model, so the walk succeeds, ends in the
    abstract state of [a_run], with "all values good" and "no comment appended" still set, and
    "nothing but reads" set only if the model's view is unchanged.  [view_holds]: the read-out is
    the reference split ([initial_J] / [initial_Jc]); an accepted write-back is re-read as the
    values of the view ([update_field_readback] / [_c], theorems C11_view_edit_valid_space and _comma) which are
    the final abstract list; an unchanged view leaves the text; the document around the value is
    [doc_of]; [map drop_comment_lines final = final] because every value of a reference split is
    free of comment lines ([split_spec_plain], proved here from ListSpec alone).

    [judged] is explained in section D. *)
From Coq Require Import String Lia ZifyBool.
From Verif Require Import Lib.Base Lib.Dec Lib.PyStr Gen.PyChars
  Repro.ListView Repro.ListSpec Repro.ListLemmas Repro.ListProofs Repro.ListEditProofs
  Repro.ListRefProofs Repro.ListCommaBase Repro.ListCommaProofs Repro.ListCheck.

(** * A. Small facts *)

Lemma result_strs_eq x y : result_eqb strs_eqb x y = true <-> x = y.
Proof.
  destruct x as [a|e], y as [b|f]; cbn [result_eqb]; try (split; discriminate).
  - rewrite strs_eqb_eq. split; [now intros ->|now intros [= ->]].
  - rewrite err_eqb_eq. split; [now intros ->|now intros [= ->]].
Qed.

Lemma option_err_eq a b : option_eqb err_eqb a b = true <-> a = b.
Proof.
  destruct a as [a|], b as [b|]; cbn [option_eqb]; try (split; discriminate); [|tauto].
  rewrite err_eqb_eq. split; [now intros ->|now intros [= ->]].
Qed.

Lemma strs_eqb_refl l : strs_eqb l l = true.
Proof. now apply strs_eqb_eq. Qed.

Lemma aop_eq o : aop_of o = aop o.
Proof. destruct o; reflexivity. Qed.

Lemma silent_read_only o : silent o = read_only o.
Proof. destruct o; reflexivity. Qed.

Lemma startswith_app a b : startswith a (a ++ b) = true.
Proof. induction a as [|c a IH]; [now destruct b|]. cbn. now rewrite N.eqb_refl. Qed.

Lemma endswith_app a b : endswith b (a ++ b) = true.
Proof. unfold endswith. rewrite rev_app_distr. apply startswith_app. Qed.

(** * A'. The values of a reference split have no comment line inside

    [holds] compares a fresh reading with [map drop_comment_lines final]; for the values the
    property speaks about (pieces of a text whose comment lines were dropped; new good values)
    that is [final] itself. *)

(** no LF is directly followed by '#' *)
Fixpoint nhl (s : str) : bool :=
  match s with
  | [] => true
  | c :: s' => (negb (is_lf c) || negb (is_comment_line s')) && nhl s'
  end.

Lemma nhl_app_r a b : nhl (a ++ b) = true -> nhl b = true.
Proof.
  induction a as [|c a IH]; [auto|]. cbn [app nhl]. intros H. apply andb_true_iff in H. tauto.
Qed.

Lemma nhl_app_l a b : nhl (a ++ b) = true -> nhl a = true.
Proof.
  induction a as [|c a IH]; [reflexivity|]. cbn [app nhl]. intros H.
  apply andb_true_iff in H as [H1 H2]. rewrite (IH H2), andb_true_r.
  destruct (is_lf c); [|reflexivity]. cbn [negb orb] in *. destruct a as [|x a]; [reflexivity|exact H1].
Qed.

Lemma icl_app a b : a <> [] -> is_comment_line (a ++ b) = is_comment_line a.
Proof. destruct a; [congruence|reflexivity]. Qed.

Lemma nhl_no_lf b : no_lf b = true -> nhl b = true.
Proof.
  induction b as [|c b IH]; [reflexivity|]. cbn [no_lf forallb nhl]. intros H.
  apply andb_true_iff in H as [H1 H2]. rewrite H1. cbn [orb andb]. now apply IH.
Qed.

Lemma nhl_line b C :
  no_lf b = true -> nhl C = true -> is_comment_line C = false -> nhl (b ++ LF :: C) = true.
Proof.
  intros Hb HC Hc. induction b as [|c b IH].
  - cbn [app nhl]. rewrite Hc, HC. now rewrite orb_true_r.
  - cbn [no_lf forallb] in Hb. apply andb_true_iff in Hb as [H1 H2].
    cbn [app nhl]. rewrite H1. cbn [orb andb]. now apply IH.
Qed.

Definition ncl (l : str) : bool := negb (is_comment_line l).

Lemma filter_lines_plain : forall r,
  nhl r = true -> is_comment_line r = false -> filter ncl (lines_lf r) = lines_lf r.
Proof.
  apply (lines_ind (fun r => nhl r = true -> is_comment_line r = false ->
                             filter ncl (lines_lf r) = lines_lf r)).
  - reflexivity.
  - intros b Hne Hb _ Hc. rewrite (lines_lf_last b Hb Hne). cbn [filter]. unfold ncl. now rewrite Hc.
  - intros b r Hb IH Hn Hc. rewrite (lines_lf_line b r Hb). cbn [filter].
    assert (E : is_comment_line (b ++ [LF]) = is_comment_line (b ++ LF :: r)) by now destruct b.
    unfold ncl at 1. rewrite E, Hc. cbn [negb]. f_equal.
    apply nhl_app_r in Hn. cbn [nhl] in Hn. apply andb_true_iff in Hn as [H1 H2].
    change (is_lf LF) with true in H1. cbn [negb orb] in H1. apply negb_true_iff in H1. now apply IH.
Qed.

Lemma plain_of_nhl x : nhl x = true -> drop_comment_lines x = x.
Proof.
  intros H. destruct (lf_decompose x) as [b [rest [Hb [[-> ->]|[r [-> ->]]]]]].
  - destruct b as [|c b]; [reflexivity|]. unfold drop_comment_lines.
    rewrite (lines_lf_last (c :: b) Hb) by discriminate. cbn [filter concat]. now rewrite app_nil_r.
  - unfold drop_comment_lines. rewrite (lines_lf_line b r Hb).
    pose proof (nhl_app_r _ _ H) as Hn. cbn [nhl] in Hn. apply andb_true_iff in Hn as [H1 H2].
    change (is_lf LF) with true in H1. cbn [negb orb] in H1. apply negb_true_iff in H1.
    change (fun l : str => negb (is_comment_line l)) with ncl.
    rewrite (filter_lines_plain r H2 H1). unfold lines_lf. rewrite splitlines_keepends_concat.
    now rewrite <- app_assoc.
Qed.

Lemma dropped_rest : forall r,
  nhl (concat (filter ncl (lines_lf r))) = true
  /\ is_comment_line (concat (filter ncl (lines_lf r))) = false.
Proof.
  apply (lines_ind (fun r => nhl (concat (filter ncl (lines_lf r))) = true
                             /\ is_comment_line (concat (filter ncl (lines_lf r))) = false)).
  - split; reflexivity.
  - intros b Hne Hb. rewrite (lines_lf_last b Hb Hne). cbn [filter]. unfold ncl.
    destruct (is_comment_line b) eqn:E; cbn [negb concat]; [split; reflexivity|].
    rewrite app_nil_r. split; [now apply nhl_no_lf|exact E].
  - intros b r Hb [IH1 IH2]. rewrite (lines_lf_line b r Hb). cbn [filter].
    destruct (ncl (b ++ [LF])) eqn:E; [|split; assumption].
    unfold ncl in E. apply negb_true_iff in E. cbn [concat]. rewrite <- app_assoc. cbn [app]. split.
    + now apply nhl_line.
    + change (b ++ LF :: concat (filter ncl (lines_lf r))) with (b ++ [LF] ++ concat (filter ncl (lines_lf r))).
      rewrite app_assoc, icl_app; [exact E|]. now destruct b.
Qed.

Lemma nhl_dropped v : nhl (drop_comment_lines v) = true.
Proof.
  destruct (lf_decompose v) as [b [rest [Hb [[-> ->]|[r [-> ->]]]]]].
  - destruct b as [|c b]; [reflexivity|]. unfold drop_comment_lines.
    rewrite (lines_lf_last (c :: b) Hb) by discriminate. cbn [filter concat]. rewrite app_nil_r.
    now apply nhl_no_lf.
  - unfold drop_comment_lines. rewrite (lines_lf_line b r Hb).
    change (fun l : str => negb (is_comment_line l)) with ncl.
    destruct (dropped_rest r) as [H1 H2]. rewrite <- app_assoc. cbn [app]. now apply nhl_line.
Qed.

(** contiguous pieces *)
Definition sub (x t : str) : Prop := exists a b, t = a ++ x ++ b.

Lemma sub_trans x y z : sub x y -> sub y z -> sub x z.
Proof.
  intros (a & b & ->) (a' & b' & ->). exists (a' ++ a), (b ++ b'). now rewrite <- !app_assoc.
Qed.

Lemma nhl_sub x t : sub x t -> nhl t = true -> nhl x = true.
Proof. intros (a & b & ->) H. apply nhl_app_r in H. now apply nhl_app_l in H. Qed.

Lemma join_sub sep ls x : In x ls -> sub x (join sep ls).
Proof.
  induction ls as [|l ls IH]; [intros []|]. intros [->|Hin].
  - destruct ls as [|l2 ls].
    + exists [], []. cbn. now rewrite app_nil_r.
    + rewrite join_cons by discriminate. exists [], (sep ++ join sep (l2 :: ls)). reflexivity.
  - destruct ls as [|l2 ls]; [destruct Hin|]. rewrite join_cons by discriminate.
    destruct (IH Hin) as (a & b & E). exists (l ++ sep ++ a), b. rewrite E. now rewrite <- !app_assoc.
Qed.

Lemma split_on_sub c s x : In x (split_on c s) -> sub x s.
Proof. intros H. rewrite <- (join_split_on c s). now apply join_sub. Qed.

Lemma strip_sub p s : sub (strip_by p s) s.
Proof.
  unfold strip_by, rstrip_by, lstrip_by.
  destruct (rdropwhile_split p (dropwhile p s)) as [t [E _]].
  exists (fst (span p s)), t. rewrite <- E, dropwhile_span. symmetry. apply span_app.
Qed.

Lemma split_ws_aux_sub p : forall s cur x, In x (split_ws_aux p s cur) -> sub x (rev cur ++ s).
Proof.
  induction s as [|y s IH]; intros cur x H; cbn [split_ws_aux] in H.
  - destruct cur as [|c cur]; [destruct H|]. destruct H as [<-|[]]. exists [], []. cbn [app].
    now rewrite !app_nil_r.
  - destruct (p y).
    + destruct cur as [|c cur].
      * destruct (IH [] x H) as (a & b & E). cbn [rev app] in *. exists (y :: a), b. now rewrite E.
      * destruct H as [<-|H].
        -- exists [], (y :: s). reflexivity.
        -- destruct (IH [] x H) as (a & b & E). cbn [rev app] in E.
           exists (rev (c :: cur) ++ y :: a), b. rewrite E. now rewrite <- !app_assoc.
    + destruct (IH (y :: cur) x H) as (a & b & E). exists a, b. rewrite <- E. cbn [rev].
      now rewrite <- app_assoc.
Qed.

Theorem split_spec_plain comma v x : In x (split_spec comma v) -> drop_comment_lines x = x.
Proof.
  intros H. apply plain_of_nhl. unfold split_spec in H. destruct comma.
  - apply filter_In in H as [H _]. apply in_map_iff in H as (y & <- & Hy).
    apply (nhl_sub _ (drop_comment_lines v)); [|apply nhl_dropped].
    apply (sub_trans _ y); [apply strip_sub|now apply split_on_sub with 44%N].
  - apply (nhl_sub _ (drop_comment_lines v)); [|apply nhl_dropped].
    apply (split_ws_aux_sub py_isspace _ [] x H).
Qed.

Lemma map_plain l : (forall x, In x l -> drop_comment_lines x = x) -> map drop_comment_lines l = l.
Proof.
  induction l as [|x l IH]; intros H; [reflexivity|]. cbn [map].
  rewrite (H x (or_introl eq_refl)), IH; [reflexivity|]. intros y Hy. apply H. now right.
Qed.

(** * A''. The pieces of a session *)

Lemma doc_starts pre nm v post : startswith (pre ++ nm ++ [COLON]) (doc_of pre nm v post) = true.
Proof.
  unfold doc_of. replace (pre ++ nm ++ [COLON] ++ v ++ post) with ((pre ++ nm ++ [COLON]) ++ v ++ post)
    by (now rewrite <- !app_assoc). apply startswith_app.
Qed.

Lemma doc_ends pre nm v post : endswith post (doc_of pre nm v post) = true.
Proof.
  unfold doc_of. replace (pre ++ nm ++ [COLON] ++ v ++ post) with ((pre ++ nm ++ [COLON] ++ v) ++ post)
    by (now rewrite <- !app_assoc). apply endswith_app.
Qed.

Lemma doc_len pre nm v post :
  (length pre + length nm + 1 + length post <=? length (doc_of pre nm v post))%nat = true.
Proof. apply Nat.leb_le. unfold doc_of. rewrite !app_length. cbn [length]. lia. Qed.

Lemma session_parts k name v os vw :
  interpret k v = Ok vw ->
  let r := run_session k name v os in
  sr_read r = Ok (view_values vw)
  /\ sr_ops r = fst (run_ops k os vw)
  /\ sr_close r = fst (close name v (snd (run_ops k os vw)))
  /\ sr_value r = snd (close name v (snd (run_ops k os vw))).
Proof.
  intros Hi. unfold run_session. rewrite Hi. destruct (run_ops k os vw) as [outs vf]. cbn [fst snd].
  destruct (close name v vf) as [ce v']. cbn. auto.
Qed.

(** the abstract list at the end of the session *)
Definition final_values (comma : bool) (v : str) (os : list op) : list str :=
  a_values (snd (a_run os (a_init (split_spec comma v)))).

(** a refused write-back happens only for an emptied list *)
Definition close_ok (comma : bool) (name v : str) (os : list op) : bool :=
  match sr_close (run_session (lk comma) name v os) with
  | Some _ => negb (nonempty (final_values comma v os))
  | None => true
  end.

(** * A3. Sessions without a reformat request: [agree] is the plain comparison *)

Definition agree0 (comma : bool) (pre name value post : string) (ops : list cop)
           (o_read : result (list string)) (o_ops : list oobs) (o_close : option err) (o_dump : string)
           (o_reread o_again : result (list string)) : bool :=
  let k := lk comma in
  let r := run_session k (dec name) (dec value) (map op_of ops) in
  result_eqb strs_eqb (sr_read r) (res_strs o_read)
  && list_eqb2 outcome_eqb (sr_ops r) o_ops
  && option_eqb err_eqb (sr_close r) o_close
  && str_eqb (doc_of (dec pre) (dec name) (sr_value r) (dec post)) (dec o_dump)
  && result_eqb strs_eqb (read_of k (sr_value r)) (res_strs o_reread)
  && result_eqb strs_eqb (read_of k (sr_value r)) (res_strs o_again).

Lemma model_ops_plain ops : reformatting ops = false -> model_ops ops = map op_of ops.
Proof.
  unfold reformatting, model_ops. induction ops as [|o ops IH]; [reflexivity|]. cbn [existsb filter].
  intros H. apply orb_false_iff in H as [H1 H2]. rewrite H1. cbn [negb map]. now rewrite IH.
Qed.

Lemma expand_plain ops : reformatting ops = false -> forall outs cur, expand ops outs cur = outs.
Proof.
  unfold reformatting. induction ops as [|o ops IH]; [reflexivity|]. cbn [existsb expand].
  intros H outs cur. apply orb_false_iff in H as [H1 H2]. rewrite H1.
  destruct outs as [|[vals g|e] outs]; [reflexivity| |]; now rewrite IH.
Qed.

Lemma run_session_plain k name value os : run_session_r false k name value os = run_session k name value os.
Proof. reflexivity. Qed.

Lemma agree_plain comma pre name value post ops o_read o_ops o_close o_dump o_valid o_reread o_again :
  reformatting ops = false ->
  agree (CView comma pre name value post ops o_read o_ops o_close o_dump o_valid o_reread o_again)
  = agree0 comma pre name value post ops o_read o_ops o_close o_dump o_reread o_again.
Proof.
  intros H. unfold agree, agree0. cbv zeta. rewrite H, (model_ops_plain ops H), run_session_plain.
  cbn [andb]. destruct (sr_read _); now rewrite ?(expand_plain ops H).
Qed.

(** * B. The walk of [holds] along a session of the model, generically in the list kind *)

Section Walk.
  Variable k : lkind.
  Variable comma : bool.
  Variable Inv : (N -> N) -> view -> astate -> Prop.
  Variable vop : op -> bool.
  Hypothesis Inv_values : forall phi vw st, Inv phi vw st -> a_values st = view_values vw.
  Hypothesis Inv_step : forall phi vw st o, Inv phi vw st -> vop o = true ->
    match a_step (aop o) st with
    | Some (st', expect) =>
        exists vw' phi', step k o vw = (vw', None, expect) /\ Inv phi' vw' st'
          /\ (v_changed vw' = true \/ (v_items vw' = v_items vw /\ v_changed vw' = v_changed vw))
    | None => exists e, step k o vw = (vw, Some e, None)
    end.
  Hypothesis vop_good : forall o, vop o = true ->
    forallb (good_value comma) (introduced (aop o)) = true /\ is_comment_op o = false.

  Lemma walk_refines : forall os obs phi vw st q,
    Inv phi vw st -> forallb vop os = true ->
    list_eqb2 outcome_eqb (fst (run_ops k os vw)) obs = true ->
    exists q' phi',
      walk comma (WA st q true true) os obs = Some (WA (snd (a_run os st)) q' true true)
      /\ Inv phi' (snd (run_ops k os vw)) (snd (a_run os st))
      /\ (q' = true -> q = true /\ v_changed (snd (run_ops k os vw)) = v_changed vw)
      /\ (v_changed (snd (run_ops k os vw)) = true
          \/ (v_items (snd (run_ops k os vw)) = v_items vw
              /\ v_changed (snd (run_ops k os vw)) = v_changed vw)).
  Proof.
    induction os as [|o os IH]; intros obs phi vw st q HI Hos Hobs.
    - destruct obs; [|discriminate]. exists q, phi. cbn. auto 6.
    - cbn [forallb] in Hos. apply andb_true_iff in Hos as [Ho Hos].
      pose proof (Inv_step phi vw st o HI Ho) as Hs. destruct (vop_good o Ho) as [Hg Hc].
      cbn [run_ops a_run walk w_st w_quiet w_good w_nocomment] in *. rewrite aop_eq.
      destruct (a_step (aop o) st) as [[st' expect]|] eqn:Ea.
      + destruct Hs as (vw' & phi1 & Hst & HI' & Hch). rewrite Hst in *.
        pose proof (step_read_only k o vw) as Hro. rewrite Hst in Hro. cbn [fst] in Hro.
        destruct obs as [|ob obs].
        { destruct (run_ops k os vw'); discriminate. }
        specialize (IH obs phi1 vw' st' (q && silent o) HI' Hos).
        destruct (run_ops k os vw') as [outs vf]. destruct (a_run os st') as [aouts sf].
        cbn [fst snd] in *. cbn [list_eqb2] in Hobs.
        apply andb_true_iff in Hobs as [Hob Hobs].
        destruct ob as [ovals ogot|f]; [|discriminate]. cbn [outcome_eqb] in Hob.
        apply andb_true_iff in Hob as [Hv Hgot]. apply strs_eqb_eq in Hv.
        destruct (IH Hobs) as (q' & phi' & Hw & HIf & Hq & Hd).
        exists q', phi'. split; [|split; [exact HIf|split]].
        * rewrite (Inv_values _ _ _ HI'), <- Hv, strs_eqb_refl. cbn [andb].
          assert (He : match expect with
                       | Some v => option_eqb str_eqb (Some v) (option_map dec ogot)
                       | None => true
                       end = true) by (destruct expect; [exact Hgot|reflexivity]).
          rewrite He, Hg, Hc. cbn [andb negb]. exact Hw.
        * intros Hq'. destruct (Hq Hq') as [Hqs Hcf]. apply andb_true_iff in Hqs as [Hq0 Hsil].
          split; [exact Hq0|]. rewrite Hcf. apply Hro. now rewrite <- silent_read_only.
        * destruct Hd as [Hd|[Hd1 Hd2]]; [now left|]. destruct Hch as [Hch|[Hc1 Hc2]].
          -- left. congruence.
          -- right. split; congruence.
      + destruct Hs as (e & Hst). rewrite Hst in *.
        destruct obs as [|ob obs].
        { destruct (run_ops k os vw); discriminate. }
        specialize (IH obs phi vw st q HI Hos).
        destruct (run_ops k os vw) as [outs vf]. destruct (a_run os st) as [aouts sf].
        cbn [fst snd] in *. cbn [list_eqb2] in Hobs.
        apply andb_true_iff in Hobs as [Hob Hobs].
        destruct ob as [ovals ogot|f]; [discriminate|]. cbn [is_some andb].
        exact (IH Hobs).
  Qed.

  Hypothesis k_comma : k = lk comma.
  Hypothesis Inv_init : forall v, value_ok v = true -> closed_value v = true ->
    exists vw phi, interpret k v = Ok vw /\ Inv phi vw (a_init (split_spec comma v))
                   /\ view_values vw = split_spec comma v /\ v_changed vw = false.
  Hypothesis reads : forall v, value_ok v = true ->
    exists vw, interpret k v = Ok vw /\ view_values vw = split_spec comma v.
  Hypothesis written : forall name vw v' phi st,
    Inv phi vw st -> name_ok name = true -> update_field name vw = Ok v' ->
    value_ok v' = true /\ exists vw', interpret k v' = Ok vw' /\ view_values vw' = view_values vw.

  Lemma view_holds pre name value post ops o_read o_ops o_close o_dump o_valid o_reread o_again :
    value_ok (dec value) = true -> closed_value (dec value) = true -> name_ok (dec name) = true ->
    reformatting ops = false ->
    forallb vop (map op_of ops) = true -> o_valid = true ->
    close_ok comma (dec name) (dec value) (map op_of ops) = true ->
    agree (CView comma pre name value post ops o_read o_ops o_close o_dump o_valid o_reread o_again) = true ->
    holds (CView comma pre name value post ops o_read o_ops o_close o_dump o_valid o_reread o_again) = true.
  Proof.
    intros Hv Hcv Hname Hnr Hos Hvalid Hclose Ha.
    rewrite (agree_plain _ _ _ _ _ _ _ _ _ _ o_valid _ _ Hnr) in Ha. unfold agree0 in Ha.
    cbn [holds] in *. cbv zeta in *. rewrite Hv. cbn [negb].
    unfold close_ok, final_values in Hclose. rewrite <- k_comma in *.
    set (v := dec value) in *. set (os := map op_of ops) in *. set (nm := dec name) in *.
    destruct (Inv_init v Hv Hcv) as (vw & phi & Hi & HI & Hvals & Hch).
    destruct (session_parts k nm v os vw Hi) as (S1 & S2 & S3 & S4).
    rewrite S1, S2, S3, S4 in Ha. rewrite S3 in Hclose. clear S1 S2 S3 S4.
    rewrite !andb_true_iff in Ha. destruct Ha as [[[[[A1 A2] A3] A4] A5] A6].
    apply result_strs_eq in A1, A5, A6. apply option_err_eq in A3. apply str_eqb_eq in A4.
    destruct (walk_refines os o_ops phi vw (a_init (split_spec comma v)) true HI Hos A2)
      as (q' & phi' & Hw & HIf & Hq & Hd).
    rewrite Hw. cbn [w_st w_quiet w_good w_nocomment].
    set (vf := snd (run_ops k os vw)) in *. set (sf := snd (a_run os (a_init (split_spec comma v)))) in *.
    pose proof (Inv_values _ _ _ HIf) as Hfin.
    rewrite <- A1, Hvals. rewrite (proj2 (result_strs_eq _ _) eq_refl). cbn [andb].
    rewrite <- A4, <- A5, <- A6, <- A3. unfold close in *.
    destruct (v_changed vf) eqn:Ec.
    - destruct (update_field nm vf) as [v'|e] eqn:Eu; cbn [fst snd] in *.
      + destruct (written nm vf v' phi' sf HIf Hname Eu) as (Hv' & vw' & Hi' & Hvw').
        assert (Hq' : q' = false).
        { destruct q'; [|reflexivity]. destruct (Hq eq_refl) as [_ E]. congruence. }
        rewrite Hq'.
        assert (Hplain : map drop_comment_lines (a_values sf) = a_values sf).
        { apply map_plain. intros x Hx. apply (split_spec_plain comma v').
          destruct (reads v' Hv') as (vw2 & Hi2 & Hv2). rewrite Hi' in Hi2. injection Hi2 as <-.
          now rewrite <- Hv2, Hvw', <- Hfin. }
        rewrite Hplain. unfold read_of. rewrite Hi', Hvw', <- Hfin.
        rewrite (proj2 (result_strs_eq _ _) eq_refl), Hvalid. cbn [andb].
        now rewrite doc_starts, doc_ends, doc_len.
      + rewrite str_eqb_refl. cbn [andb]. now rewrite !andb_true_r.
    - cbn [fst snd] in *.
      assert (Hsame : a_values sf = split_spec comma v).
      { destruct Hd as [Hd|[Hd _]]; [congruence|]. rewrite Hfin. unfold view_values. now rewrite Hd. }
      assert (Hplain : map drop_comment_lines (a_values sf) = a_values sf).
      { apply map_plain. intros x Hx. apply (split_spec_plain comma v). now rewrite <- Hsame. }
      rewrite Hplain. unfold read_of. rewrite Hi, Hvals, Hsame.
      rewrite (proj2 (result_strs_eq _ _) eq_refl), Hvalid. cbn [andb].
      assert (Hdoc : (if q' then str_eqb (doc_of (dec pre) nm v (dec post))
                                        (dec pre ++ nm ++ [COLON] ++ v ++ dec post) else true) = true).
      { destruct q'; [apply str_eqb_refl|reflexivity]. }
      rewrite Hdoc. cbn [andb].
      now rewrite doc_starts, doc_ends, doc_len.
  Qed.
End Walk.

(** * C. The two list kinds *)

Lemma value_op_good o : value_op o = true ->
  forallb (good_value false) (introduced (aop o)) = true /\ is_comment_op o = false.
Proof.
  destruct o; cbn [value_op aop introduced forallb is_comment_op]; intros H; try discriminate;
    split; try reflexivity; now rewrite H.
Qed.

Lemma value_op_c_good o : value_op_c o = true ->
  forallb (good_value true) (introduced (aop o)) = true /\ is_comment_op o = false.
Proof.
  destruct o; cbn [value_op_c aop introduced forallb is_comment_op]; intros H; try discriminate;
    split; try reflexivity; now rewrite H.
Qed.

Definition view_holds_space :=
  view_holds Space false J value_op
    (fun phi vw st (H : J phi vw st) => a_values_view phi vw st (proj2 (proj2 H)))
    step_refines value_op_good eq_refl initial_J view_reads_split_space
    (fun name vw v' phi st (H : J phi vw st) Hn Hu =>
       match update_field_readback name vw v' (proj1 H) Hn Hu with
       | conj A (conj _ B) => conj A B
       end).

Definition view_holds_comma :=
  view_holds Comma true Jc value_op_c
    (fun phi vw st (H : Jc phi vw st) => a_values_view phi vw st (proj2 (proj2 H)))
    step_refines_c value_op_c_good eq_refl initial_Jc view_reads_split_comma
    (fun name vw v' phi st (H : Jc phi vw st) Hn Hu =>
       match update_field_readback_c name vw v' (proj1 H) Hn Hu with
       | conj A (conj _ B) => conj A B
       end).

(** * D. The side condition and the theorem

    The theorem is FALSE without a side condition: [holds] uses [o_valid] (a fresh parse of the
    dump has no error element), an observation [agree] never looks at.  [judged c], for a [CView]
    case inside [value_ok]:
    - [o_valid] itself;
    - the session makes no reformat request ([reformatting ops = false]): for a reformatting
      session the text written back is the formatter's, which the model does not contain, so
      neither the re-read list nor the close outcome of the implementation is determined by it;
    - [closed_value v], [name_ok name], and every operation is one of append / remove / replace /
      snapshot / ref.value / ref.value = x / ref.remove() bringing in good values only ([value_op]
      resp. [value_op_c]): the hypotheses of theorems 5 / 7.  append_separator / append_newline /
      append_comment and values outside [good_value] are modelled and compared but not proved;
    - [close_ok]: when the model's write-back is refused, the final abstract list is empty.  For
      both kinds this follows from [ends_on_comment v = false] ([close_ok_comma], theorem 8;
      [close_ok_space], section E): section F restates the theorem with that condition on the
      text in place of [closed_value] and [close_ok]. *)

Definition vop_of (comma : bool) : op -> bool := if comma then value_op_c else value_op.

Definition judged (c : case) : bool :=
  match c with
  | CView comma pre name value post ops o_read o_ops o_close o_dump o_valid o_reread o_again =>
      let v := dec value in
      let os := map op_of ops in
      negb (value_ok v)
      || (closed_value v && name_ok (dec name) && negb (reformatting ops)
          && forallb (vop_of comma) os && o_valid && close_ok comma (dec name) v os)
  | _ => true
  end.

Theorem agree_implies_holds c : judged c = true -> agree c = true -> holds c = true.
Proof.
  destruct c as [comma pre name value post ops o_read o_ops o_close o_dump o_valid o_reread o_again
                | | | | | |]; try reflexivity.
  intros Hj Ha. cbn [judged] in Hj. cbv zeta in Hj.
  destruct (value_ok (dec value)) eqn:Hv.
  - cbn [negb orb] in Hj. rewrite !andb_true_iff in Hj. destruct Hj as [[[[[Hc Hn] Hnr] Hos] Hval] Hcl].
    apply negb_true_iff in Hnr. destruct comma; cbn [vop_of] in Hos.
    + now apply view_holds_comma.
    + now apply view_holds_space.
  - cbn [holds]. cbv zeta. now rewrite Hv.
Qed.

(** for comma lists the last clause of [judged] follows from a condition on the text alone
    (C11_session_close_succeeds_comma) *)
Lemma close_ok_comma name v os :
  value_ok v = true -> ends_on_comment v = false -> name_ok name = true ->
  forallb value_op_c os = true -> close_ok true name v os = true.
Proof.
  intros Hv He Hn Hos. unfold close_ok, final_values. change (lk true) with Comma.
  destruct (a_values (snd (a_run os (a_init (split_spec true v))))) as [|x l] eqn:E.
  - now destruct (sr_close _).
  - rewrite (session_close_succeeds_comma name v os Hv He Hn Hos); [reflexivity|]. now rewrite E.
Qed.

(** * E. Whitespace-separated lists: the write-back succeeds whenever there is something to write
      (the analogue of theorem 8, C11_session_close_succeeds_comma) *)

Lemma arun_last_com ts : forall s s', arun s ts = Some s' -> last_com_tok ts = true -> s_lf s' = true.
Proof.
  intros s s' Hr Hl. destruct ts as [|t ts0] using rev_ind; [discriminate|]. clear IHts0.
  unfold last_com_tok in Hl. rewrite last_opt_snoc in Hl.
  rewrite arun_app in Hr. destruct (arun s ts0) as [s1|]; [|discriminate]. cbn [arun] in Hr.
  assert (Hk : tk t = KCom) by (unfold is_comment_tok in Hl; destruct (tk t); try discriminate; reflexivity).
  rewrite Hk in Hr. cbn [astep] in Hr. destruct (s_lf s1); [|discriminate]. now injection Hr as <-.
Qed.

(** an accepted token list that ends with a comment token spells a text whose last line is a
    comment line *)
Lemma tokens_last_com_sp ts s' :
  Forall (fun t => tok_ok_sp t = true) ts -> forallb com_lf ts = true ->
  arun s0 ts = Some s' -> last_com_tok ts = true -> ends_on_comment (toks_text ts) = true.
Proof.
  intros Hok Hcl Hrun Hlast. pose proof (arun_last_com _ _ _ Hrun Hlast) as Hs'.
  destruct (split_at_lf ts s0 s' Hrun eq_refl Hs' Hok) as [line [rest [s1 [E [Hin [Hr [Hk Hrest]]]]]]].
  assert (Hok2 := Hok). rewrite E in Hok2. apply Forall_app in Hok2. destruct Hok2 as [Hokl Hokr].
  inversion Hokr as [|? ? _ Hokr']; subst.
  rewrite forallb_app in Hcl. apply andb_true_iff in Hcl. destruct Hcl as [_ Hclr].
  cbn [forallb] in Hclr. apply andb_true_iff in Hclr. destruct Hclr as [_ Hclr].
  destruct (inline_run line s0 s1 Hin Hokl Hr eq_refl) as [_ [_ [L3 _]]].
  destruct (cont_tokens_lines (length rest) rest s' (le_n _) Hokr' Hclr Hrest Hs') as [_ [_ [_ I4]]].
  unfold ends_on_comment. rewrite toks_text_app, toks_text_cons. cbn [tx app].
  rewrite lines_lf_line by now apply no_lb_no_lf. cbn [tl]. rewrite I4.
  destruct rest as [|t2 r2].
  - unfold last_com_tok in Hlast. rewrite last_opt_snoc in Hlast. discriminate.
  - unfold last_com_tok in *. rewrite last_opt_app in Hlast by discriminate.
    now rewrite (last_opt_cons (Tok KNl [LF])) in Hlast by discriminate.
Qed.

Lemma tail_nc_sp ts : tail_nc (map sp_item ts) = negb (last_com_tok ts).
Proof.
  destruct ts as [|t ts0] using rev_ind; [reflexivity|]. clear IHts0.
  unfold tail_nc, last_com_tok. rewrite map_app. cbn [map]. rewrite !last_opt_snoc.
  unfold sp_item. destruct (is_val t) eqn:Ev; cbn [is_comment_item]; [|reflexivity].
  unfold is_val, is_comment_tok in *. destruct (tk t); try discriminate; reflexivity.
Qed.

Lemma interpret_tail_nc_sp v vw : value_ok v = true -> ends_on_comment v = false ->
  interpret Space v = Ok vw -> tail_nc (v_items vw) = true.
Proof.
  intros Hv He Hi. pose proof (ends_on_comment_closed v He) as Hc.
  destruct (tokenize_sp_ok v Hv) as [ts [s' [Htok [Htx [Hok [Hdc [Hcl [Hrun Hfin]]]]]]]].
  rewrite closed_value_open in Hc. apply negb_true_iff in Hc. specialize (Hcl Hc).
  assert (Hne : ts <> []).
  { intros ->. unfold toks_text in Htx. simpl in Htx. subst v. discriminate. }
  unfold interpret, parse_str in Hi. rewrite Htok in Hi. cbn [bind] in Hi.
  rewrite Htx, Nat.eqb_refl in Hi. cbn [negb] in Hi.
  rewrite parse_stream_space in Hi by lia. cbn [bind] in Hi.
  rewrite items_text_sp, Htx, Nat.eqb_refl in Hi. cbn [negb bind] in Hi.
  rewrite mk_view_eq in Hi by (destruct ts; [congruence|discriminate]).
  injection Hi as <-. unfold v_items. cbn [v_nodes]. rewrite map_snd_number.
  assert (Hlast : last_com_tok ts = false).
  { destruct (last_com_tok ts) eqn:E; [|reflexivity].
    pose proof (tokens_last_com_sp _ _ Hok Hcl Hrun E) as H. rewrite Htx in H. congruence. }
  unfold drop_nl.
  destruct (last_opt (map sp_item ts)) as [[t|tt f]|] eqn:El;
    try (rewrite tail_nc_sp, Hlast; reflexivity).
  destruct (kind_eqb (tk t) KNl) eqn:Ek; [|rewrite tail_nc_sp, Hlast; reflexivity].
  assert (Hk : tk t = KNl) by (destruct (tk t); try discriminate; reflexivity).
  destruct ts as [|t0 ts0] using rev_ind; [congruence|]. clear IHts0.
  rewrite map_app in El |- *. cbn [map] in El |- *. rewrite last_opt_snoc in El.
  rewrite removelast_snoc, tail_nc_sp.
  assert (Et : t0 = t).
  { unfold sp_item in El. destruct (is_val t0); [discriminate|]. now injection El. }
  subst t0. rewrite arun_app in Hrun. destruct (arun s0 ts0) as [s1|] eqn:E1; [|discriminate].
  cbn [arun] in Hrun. rewrite Hk in Hrun. cbn [astep] in Hrun.
  destruct (s_lf s1) eqn:E2; [discriminate|].
  destruct (last_com_tok ts0) eqn:E; [|reflexivity].
  pose proof (arun_last_com _ _ _ E1 E). congruence.
Qed.

(** the operations keep the last item from being a comment (the lemmas about the single
    operations are those of the comma development: they do not depend on the list kind) *)
Lemma step_tail_nc_sp o vw : value_op o = true -> tail_nc (v_items vw) = true ->
  tail_nc (v_items (fst (fst (step Space o vw)))) = true.
Proof.
  intros Ho Ht. destruct o; try discriminate; cbn [step].
  - unfold append. destruct (value_factory Space x) as [vt|] eqn:Ef; cbn [bind fst]; [|exact Ht].
    apply tail_nc_append_value. now apply value_factory_value in Ef.
  - unfold remove. destruct (find_value x (v_items vw) 0) as [i|] eqn:Ef; cbn [fst]; [|exact Ht].
    destruct (find_value_some _ _ _ _ Ef) as [pre [it [post [Eits [-> _]]]]]. cbn [plus].
    now apply tail_nc_remove_at with it post.
  - unfold replace. destruct (find_value x (v_items vw) 0) as [i|] eqn:Ef; cbn [fst]; [|exact Ht].
    destruct (value_factory Space y) as [vt|] eqn:Efy; cbn [bind fst]; [|exact Ht].
    destruct (find_value_some _ _ _ _ Ef) as [pre [it [post [Eits [-> _]]]]]. cbn [plus].
    rewrite (v_items_set_value_at vw pre it post vt Eits). rewrite Eits in Ht.
    apply tail_nc_mid with it; [now apply value_factory_value in Efy|exact Ht].
  - exact Ht.
  - destruct (ref_get j vw); exact Ht.
  - unfold ref_set. destruct (nth_error (v_refs vw) j) as [id|]; cbn [fst]; [|exact Ht].
    destruct (value_factory Space x) as [vt|] eqn:Efx; cbn [bind fst]; [|exact Ht].
    destruct (resolve j vw) as [i|] eqn:Er; cbn [bind fst]; [|exact Ht].
    destruct (resolve_items _ _ _ Er) as [pre [it [post [Eits ->]]]].
    rewrite (v_items_set_value_at vw pre it post vt Eits). rewrite Eits in Ht.
    apply tail_nc_mid with it; [now apply value_factory_value in Efx|exact Ht].
  - unfold ref_remove. destruct (resolve j vw) as [i|] eqn:Er; cbn [bind fst]; [|exact Ht].
    destruct (resolve_items _ _ _ Er) as [pre [it [post [Eits ->]]]].
    now apply tail_nc_remove_at with it post.
Qed.

Lemma run_ops_tail_nc_sp os : forall vw, forallb value_op os = true -> tail_nc (v_items vw) = true ->
  tail_nc (v_items (snd (run_ops Space os vw))) = true.
Proof.
  induction os as [|o os IH]; intros vw Hos Ht; [exact Ht|].
  cbn [forallb] in Hos. apply andb_true_iff in Hos. destruct Hos as [Ho Hos].
  pose proof (step_tail_nc_sp o vw Ho Ht) as Hs. cbn [run_ops].
  destruct (step Space o vw) as [[vw' e] got]. cbn [fst] in Hs.
  specialize (IH vw' Hos Hs).
  destruct e; destruct (run_ops Space os vw') as [outs vf]; exact IH.
Qed.

Lemma values_has_content its : forallb item_sp its = true -> values_of its <> [] -> has_content its = true.
Proof.
  intros Hsp Hv. rewrite (values_of_flat its Hsp) in Hv. unfold has_content. fold (flat its).
  unfold vals in Hv. destruct (filter is_val (flat its)) as [|t l] eqn:E; [now contradiction Hv|].
  assert (Hin : In t (filter is_val (flat its))) by (rewrite E; now left).
  apply filter_In in Hin as [Hin Ht]. apply existsb_exists. exists t. split; [exact Hin|].
  unfold is_val, is_comment_tok, is_whitespace_tok in *. destruct (tk t); try discriminate; reflexivity.
Qed.

(** a view in the invariant that holds a value and does not end on a comment can be written *)
Lemma update_field_ok_sp name vw :
  inv vw -> name_ok name = true -> view_values vw <> [] -> tail_nc (v_items vw) = true ->
  exists v', update_field name vw = Ok v'.
Proof.
  intros Hinv Hname Hvals Htail. apply inv_P in Hinv. destruct Hinv as [[s' [HP Hfin]] _].
  unfold update_field. set (its := v_items vw) in *.
  assert (Hcont : has_content its = true).
  { destruct HP as [H1 _]. now apply values_has_content. }
  rewrite Hcont. cbn [negb].
  unfold tail_nc in Htail. destruct (last_opt its) as [tail|] eqn:El.
  2:{ apply last_opt_none in El. unfold view_values in Hvals. fold its in Hvals. rewrite El in Hvals.
      now contradiction Hvals. }
  apply negb_true_iff in Htail. rewrite Htail. rename Htail into Etc.
  apply ends_snoc_inv in El. set (its0 := removelast its) in *.
  assert (W : exists its' s'', (if item_ends_lf tail then its else its ++ [IT (Tok KNl [LF])]) = its'
               /\ P its' s'' /\ s_lf s'' = true /\ last_com_tok (flat its') = false
               /\ has_val (flat its') = true).
  { destruct (tail_state _ _ HP) as [T1 _]. unfold last_lf in T1. rewrite El, last_opt_snoc in T1.
    assert (Hhv : has_val (flat its) = true).
    { destruct HP as [_ [H2 _]]. now apply has_content_has_val. }
    destruct (item_ends_lf tail) eqn:Et.
    - exists its, s'. splits; auto.
      rewrite El. unfold last_com_tok.
      destruct HP as [H1 _]. rewrite El, forallb_app in H1. apply andb_true_iff in H1.
      destruct H1 as [_ H1]. cbn [forallb] in H1. rewrite andb_true_r in H1.
      destruct (last_opt_flat_snoc its0 tail) as [E|E].
      + rewrite E. destruct (item_sp_cases tail H1) as [[t [-> Hv]]|[t [f [-> Hv]]]]; cbn [item_toks last_opt].
        * exact Etc.
        * now apply is_val_nc.
      + destruct (item_sp_cases tail H1) as [[t [-> Hv]]|[t [f [-> Hv]]]]; discriminate.
    - exists (its ++ [IT (Tok KNl [LF])]), sLF. splits; auto.
      + apply P_push_IT with s'; try assumption; try reflexivity.
        cbn [tk astep]. rewrite T1. cbn [orb]. rewrite T1, orb_false_r in Hfin. now rewrite Hfin.
      + unfold last_com_tok. rewrite flat_app. cbn [flat flat_map item_toks app].
        now rewrite last_opt_snoc.
      + rewrite flat_app. unfold has_val. rewrite existsb_app. fold (has_val (flat its)). now rewrite Hhv. }
  destruct W as [its' [s'' [Eits' [HP' [Hlf' [Hlast' Hhv']]]]]].
  rewrite Eits'. rewrite items_text_flat.
  destruct HP' as [Q1 [Q2 [Q3 Q4]]].
  destruct (written_text (flat its') s'' Q2 Q3 Q4 Hlf' Hlast' Hhv')
    as [b [ls [Hlines [Hb [Hshape [Hlc [Hlfo [Hvok Hdrop]]]]]]]].
  pose proof (reparse_ok name _ b ls Hname Hlfo Hlines Hb Hshape Hlc) as Hrp.
  rewrite Hrp. now eexists.
Qed.

(** the write-back succeeds whenever the edited list is not empty *)
Theorem session_close_succeeds_space name v os :
  value_ok v = true -> ends_on_comment v = false -> name_ok name = true ->
  forallb value_op os = true ->
  a_values (snd (a_run os (a_init (split_spec false v)))) <> [] ->
  sr_close (run_session Space name v os) = None.
Proof.
  intros Hv He Hname Hos Hne. pose proof (ends_on_comment_closed v He) as Hc.
  destruct (initial_J v Hv Hc) as [vw [phi [Hi [HJ [Hvals Hch]]]]].
  pose proof (interpret_tail_nc_sp v vw Hv He Hi) as Ht.
  unfold run_session. rewrite Hi.
  destruct (run_ops_refines os phi vw _ HJ Hos) as [phi' [_ [R2 _]]].
  pose proof (run_ops_tail_nc_sp os vw Hos Ht) as Ht'.
  destruct (run_ops Space os vw) as [outs vf]. cbn [fst snd] in *.
  destruct R2 as [Finv [_ FR]]. pose proof (a_values_view _ _ _ FR) as Hav.
  unfold close. destruct (v_changed vf); [|reflexivity].
  destruct (update_field_ok_sp name vf Finv Hname) as [v' Hu]; [now rewrite <- Hav|exact Ht'|].
  now rewrite Hu.
Qed.

Lemma close_ok_space name v os :
  value_ok v = true -> ends_on_comment v = false -> name_ok name = true ->
  forallb value_op os = true -> close_ok false name v os = true.
Proof.
  intros Hv He Hn Hos. unfold close_ok, final_values. change (lk false) with Space.
  destruct (a_values (snd (a_run os (a_init (split_spec false v))))) as [|x l] eqn:E.
  - now destruct (sr_close _).
  - rewrite (session_close_succeeds_space name v os Hv He Hn Hos); [reflexivity|]. now rewrite E.
Qed.

(** * F. The side condition in terms of the text alone

    [judged_text]: as [judged], with [closed_value] and [close_ok] replaced by the condition that
    the last line of the value text is not a comment line (what a parsed document guarantees: such
    a line belongs to what follows the field). *)
Definition judged_text (c : case) : bool :=
  match c with
  | CView comma pre name value post ops o_read o_ops o_close o_dump o_valid o_reread o_again =>
      let v := dec value in
      let os := map op_of ops in
      negb (value_ok v)
      || (negb (ends_on_comment v) && name_ok (dec name) && negb (reformatting ops)
          && forallb (vop_of comma) os && o_valid)
  | _ => true
  end.

Lemma judged_text_judged c : judged_text c = true -> judged c = true.
Proof.
  destruct c as [comma pre name value post ops o_read o_ops o_close o_dump o_valid o_reread o_again
                | | | | | |]; try reflexivity.
  cbn [judged_text judged]. cbv zeta. destruct (value_ok (dec value)) eqn:Hv; [|reflexivity].
  cbn [negb orb]. rewrite !andb_true_iff. intros [[[[He Hn] Hnr] Hos] Hval]. apply negb_true_iff in He.
  rewrite (ends_on_comment_closed _ He), Hn, Hnr, Hos, Hval. repeat split.
  destruct comma; cbn [vop_of] in Hos; [now apply close_ok_comma|now apply close_ok_space].
Qed.

Theorem agree_implies_holds_text c : judged_text c = true -> agree c = true -> holds c = true.
Proof. intros H. apply agree_implies_holds. now apply judged_text_judged. Qed.
