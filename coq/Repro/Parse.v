(** MODEL of debian/_deb822_repro/parsing.py: the element tree, the six
    grouping stages of [parse_deb822_file] and [dump].

    The tree is a rose tree.  [Elem k parts] stands for an element object whose
    [iter_parts()] yields [parts]; the kind [k] records the class and, for the
    classes with optional slots, which slots are occupied, so that the slots can
    be read back from [parts] without ambiguity:

      EValueLine s   parts = [comment]? ++ [continuation]? ++ [leading_ws]?
                             ++ value_tokens ++ [trailing_ws]? ++ [newline]?
                     (one flag of [s] per optional slot)
      EKvp c         parts = [comment]? ++ [field_name; separator; value_element]
      EParagraph d   parts = the key-value pair elements; [d = true] is
                     Deb822DuplicateFieldsParagraphElement, [false] the
                     Deb822NoDuplicateFieldsParagraphElement
      EComment / EValue / EError / EFile : parts as given to the constructor.

    No proofs in this file. *)
From Verif Require Import Lib.Base Lib.PyStr Repro.Token.

Record vl_slots := mkSlots {
  vl_comment : bool;          (* _comment_element is not None *)
  vl_continuation : bool;     (* _continuation_line_token *)
  vl_leading : bool;          (* _leading_whitespace_token *)
  vl_trailing : bool;         (* _trailing_whitespace_token *)
  vl_newline : bool;          (* _newline_token *)
}.

Inductive ekind :=
| EComment                    (* Deb822CommentElement *)
| EValueLine (s : vl_slots)   (* Deb822ValueLineElement *)
| EValue                      (* Deb822ValueElement *)
| EKvp (has_comment : bool)   (* Deb822KeyValuePairElement *)
| EParagraph (dup : bool)     (* Deb822(No)DuplicateFieldsParagraphElement *)
| EError                      (* Deb822ErrorElement *)
| EParsedValue                (* Deb822ParsedValueElement (list views) *)
| EFile.                      (* Deb822FileElement *)

Inductive node :=
| Tok (k : tkind) (text : str)
| Elem (k : ekind) (parts : list node).

Definition node_of_token (t : token) : node := Tok (tk t) (ttext t).

(** [iter_tokens()] *)
Fixpoint flatten (n : node) : list token :=
  match n with
  | Tok k t => [mkTok k t]
  | Elem _ ps => flat_map flatten ps
  end.
Definition flatten_list (l : list node) : list token := flat_map flatten l.

Definition text_of_tokens (ts : list token) : str := concat (map ttext ts).

(** [convert_to_text()] / [dump()] : "".join(t.text for t in self.iter_tokens()) *)
Definition dump (n : node) : str := text_of_tokens (flatten n).
Definition dump_list (l : list node) : str := text_of_tokens (flatten_list l).

(** ** isinstance tests used by the stages *)
Definition is_tok_kind (p : tkind -> bool) (n : node) : bool :=
  match n with Tok k _ => p k | Elem _ _ => false end.
Definition is_ws_tok : node -> bool := is_tok_kind is_ws_kind.
Definition is_comment_tok : node -> bool := is_tok_kind is_comment_kind.
Definition is_error_tok : node -> bool := is_tok_kind is_error_kind.
Definition is_cont_tok : node -> bool :=
  is_tok_kind (fun k => match k with KValueContinuation => true | _ => false end).
Definition is_fieldsep_tok : node -> bool :=
  is_tok_kind (fun k => match k with KFieldSeparator => true | _ => false end).
Definition is_fieldname_tok : node -> bool :=
  is_tok_kind (fun k => match k with KFieldName => true | _ => false end).
Definition is_newline_after_value_tok : node -> bool :=
  is_tok_kind (fun k => match k with KNewlineAfterValue => true | _ => false end).

Definition is_comment_elem (n : node) : bool :=
  match n with Elem EComment _ => true | _ => false end.
Definition is_value_line_elem (n : node) : bool :=
  match n with Elem (EValueLine _) _ => true | _ => false end.
Definition is_value_elem (n : node) : bool :=
  match n with Elem EValue _ => true | _ => false end.
Definition is_kvp_elem (n : node) : bool :=
  match n with Elem (EKvp _) _ => true | _ => false end.
Definition is_paragraph_elem (n : node) : bool :=
  match n with Elem (EParagraph _) _ => true | _ => false end.
Definition is_error_elem (n : node) : bool :=
  match n with Elem EError _ => true | _ => false end.

(** [_non_end_of_line_token(v)] :
    [not isinstance(v, Deb822WhitespaceToken) or v.text != '\n'] *)
Definition non_eol (n : node) : bool :=
  match n with
  | Tok k t => negb (is_ws_kind k) || negb (str_eqb t [LF])
  | Elem _ _ => true
  end.

Definition opt_list {A} (o : option A) : list A :=
  match o with Some a => [a] | None => [] end.
Definition is_some {A} (o : option A) : bool :=
  match o with Some _ => true | None => false end.

(** (l[:-1], l[-1]) *)
Fixpoint split_last {A} (l : list A) : option (list A * A) :=
  match l with
  | [] => None
  | [a] => Some ([], a)
  | a :: l' => match split_last l' with
               | Some (i, x) => Some (a :: i, x)
               | None => None
               end
  end.

(** ** Stage 1, 3, 5, 6: [combine_into_replacement(source_class, ..., constructor)] *)
Section Combine.
Variable is_src : node -> bool.
Variable ctor : list node -> node.

Definition flush (acc : list node) : list node :=
  if is_nil acc then [] else [ctor acc].

Fixpoint combine_from (acc : list node) (l : list node) : list node :=
  match l with
  | [] => flush acc
  | t :: l' =>
      if is_src t then combine_from (acc ++ [t]) l'
      else flush acc ++ t :: combine_from [] l'
  end.

Definition combine (l : list node) : list node := combine_from [] l.
End Combine.

Definition combine_comments : list node -> list node :=
  combine is_comment_tok (Elem EComment).

Definition combine_value_lines : list node -> list node :=
  combine is_value_line_elem (Elem EValue).

Definition combine_errors : list node -> list node :=
  combine is_error_tok (Elem EError).

(** ** Stage 2: [_build_value_line] *)

(** The end of the [if start_of_value_entry:] block: splitting
    [tokens_in_value] into leading / content / trailing (including the test of
    [tokens_in_value[-1]] — not [[0]] — that guards the leading slot) and the
    constructor call. *)
(** [if isinstance(tokens_in_value[-1], Deb822WhitespaceToken): trailing = tokens_in_value.pop()] *)
Definition pop_trailing (toks : list node) : list node * option node :=
  match split_last toks with
  | Some (init, x) => if is_ws_tok x then (init, Some x) else (toks, None)
  | None => (toks, None)
  end.

(** [if tokens_in_value and isinstance(tokens_in_value[-1], Deb822WhitespaceToken):
       leading = tokens_in_value[0]; tokens_in_value = tokens_in_value[1:]] *)
Definition pop_leading (toks : list node) : option node * list node :=
  match split_last toks with
  | Some (_, x) =>
      if is_ws_tok x then
        match toks with
        | h :: t => (Some h, t)
        | [] => (None, toks)
        end
      else (None, toks)
  | None => (None, toks)
  end.

Definition mk_value_line (cmt cont : option node) (toks : list node) (eol : option node) : node :=
  let '(toks1, trailing) := pop_trailing toks in
  let '(leading, toks2) := pop_leading toks1 in
  Elem (EValueLine (mkSlots (is_some cmt) (is_some cont) (is_some leading)
                            (is_some trailing) (is_some eol)))
       (opt_list cmt ++ opt_list cont ++ opt_list leading ++ toks2
        ++ opt_list trailing ++ opt_list eol).

(** [tokens_in_value = list(takewhile(_non_end_of_line_token))],
    [eol_token = next(buffered_stream, None)], the element, then the rest of the
    loop ([k]) on what is left. *)
Definition take_value_line (k : list node -> list node) (cmt cont : option node)
    : list node -> list node -> list node :=
  fix go (acc : list node) (r : list node) {struct r} : list node :=
    match r with
    | [] => [mk_value_line cmt cont acc None]
    | x :: r' =>
        if non_eol x then go (acc ++ [x]) r'
        else mk_value_line cmt cont acc (Some x) :: k r'
    end.

Fixpoint build_value_lines (l : list node) {struct l} : list node :=
  match l with
  | [] => []
  | t :: rest =>
      if is_comment_elem t then
        match rest with
        | nx :: rest2 =>
            if is_cont_tok nx                      (* peek() is a continuation token *)
            then take_value_line build_value_lines (Some t) (Some nx) [] rest2
            else t :: build_value_lines rest
        | [] => [t]
        end
      else if is_cont_tok t then
        take_value_line build_value_lines None (Some t) [] rest
      else if is_fieldsep_tok t then
        t :: take_value_line build_value_lines None None [] rest
      else t :: build_value_lines rest
  end.

(** ** Stage 4: [_build_field_with_value] *)

(** The parse-error branch: [error_tokens = [field_name] +
    takewhile(_non_end_of_line_token)], plus the newline token if it is a
    Deb822NewlineAfterValueToken.  (The comment element picked up before the
    field name is NOT part of the error element and is not yielded either; this
    branch is unreachable from the tokenizer, see ParseProofs.fields_ok.) *)
Definition take_error (k : list node -> list node) : list node -> list node -> list node :=
  fix go (acc : list node) (r : list node) {struct r} : list node :=
    match r with
    | [] => [Elem EError acc]
    | x :: r' =>
        if non_eol x then go (acc ++ [x]) r'
        else if is_newline_after_value_tok x then Elem EError (acc ++ [x]) :: k r'
        else Elem EError acc :: k r
    end.

(** The [if start_of_field:] block; [rest] is the stream after the field name. *)
Definition build_field (k : list node -> list node) (cmt : option node) (name : node)
    (rest : list node) : list node :=
  match rest with
  | sep :: val :: rest' =>
      if is_fieldsep_tok sep && is_value_elem val
      then Elem (EKvp (is_some cmt)) (opt_list cmt ++ [name; sep; val]) :: k rest'
      else take_error k [name] rest
  | _ =>                                           (* len(next_tokens) < 2 : early EOF *)
      opt_list cmt ++ [Elem EError (name :: rest)]
  end.

Fixpoint build_fields (l : list node) {struct l} : list node :=
  match l with
  | [] => []
  | t :: rest =>
      if is_comment_elem t then
        match rest with
        | nx :: rest2 =>
            if is_fieldname_tok nx
            then build_field build_fields (Some t) nx rest2
            else t :: build_fields rest
        | [] => [t]
        end
      else if is_fieldname_tok t then build_field build_fields None t rest
      else t :: build_fields rest
  end.

(** ** Stage 5: paragraphs; [Deb822ParagraphElement.from_kvpairs] *)

(** [kv.field_name] of a key-value pair element *)
Definition kvp_name (n : node) : str :=
  match n with
  | Elem (EKvp c) parts =>
      match (if c then tl parts else parts) with
      | Tok _ nm :: _ => nm
      | _ => []
      end
  | _ => []
  end.

(** [len(OrderedSet(names)) != len(names)] for [_strI] names (compared by
    [str.lower()]; field names are US-ASCII by the field regex). *)
Fixpoint has_dup_ci (names : list str) : bool :=
  match names with
  | [] => false
  | n :: rest =>
      existsb (fun m => str_eqb (ascii_lower n) (ascii_lower m)) rest || has_dup_ci rest
  end.

Definition from_kvpairs (kvps : list node) : node :=
  Elem (EParagraph (has_dup_ci (map kvp_name kvps))) kvps.

Definition combine_paragraphs : list node -> list node :=
  combine is_kvp_elem from_kvpairs.

(** ** [parse_deb822_file] *)
Definition stages (tokens : list node) : list node :=
  combine_errors
    (combine_paragraphs
      (build_fields
        (combine_value_lines
          (build_value_lines
            (combine_comments tokens))))).

(** [iter_recurse(only_element_or_token_type=Deb822ErrorElement)] is non-empty *)
Fixpoint has_error_elem (n : node) : bool :=
  match n with
  | Tok _ _ => false
  | Elem k ps => (match k with EError => true | _ => false end) || existsb has_error_elem ps
  end.

(** the duplicate check looks at the paragraphs of the file (top level) *)
Definition has_dup_paragraph (top : list node) : bool :=
  existsb (fun n => match n with Elem (EParagraph true) _ => true | _ => false end) top.

Section Parser.
Variable is_space : N -> bool.
Variables name_first name_rest : N -> bool.

Definition parse (accept_errors accept_dups : bool) (ls : list str) : result node :=
  do ts <- tokenize is_space name_first name_rest ls;
  let top := stages (map node_of_token ts) in
  if negb accept_errors && existsb has_error_elem top then Err ValueError
  else if negb accept_dups && has_dup_paragraph top then Err ValueError
  else Ok (Elem EFile top).

(** "accepting mode" *)
Definition parse_accepting : list str -> result node := parse true true.
End Parser.
