(** MODEL of debian/_deb822_repro/tokens.py: token classes, the constructor
    check [_verify_token_text], the leaf for [_RE_FIELD_LINE] and
    [tokenize_deb822_file] (as repaired by the D1 fix: only newline-terminated
    whitespace-only lines are merged).

    No proofs in this file.  Everything is parametric in the three character
    classes the regexes mention ([\s], and the two classes of the field name):
    the theorems hold for every instance; Repro/Check.v instantiates them from
    Gen/PyChars.v and Gen/ReproChars.v. *)
From Verif Require Import Lib.Base Lib.PyStr.

Definition HASH : N := 35.
Definition COLON : N := 58.

(** * Token classes (one constructor per concrete class of tokens.py) *)
Inductive tkind :=
| KWhitespace            (* Deb822WhitespaceToken *)
| KSemWhitespace         (* Deb822SemanticallySignificantWhiteSpace *)
| KNewlineAfterValue     (* Deb822NewlineAfterValueToken *)
| KValueContinuation     (* Deb822ValueContinuationToken *)
| KSpaceSeparator        (* Deb822SpaceSeparatorToken *)
| KError                 (* Deb822ErrorToken *)
| KComment               (* Deb822CommentToken *)
| KFieldName             (* Deb822FieldNameToken *)
| KSeparator             (* Deb822SeparatorToken *)
| KFieldSeparator        (* Deb822FieldSeparatorToken *)
| KComma                 (* Deb822CommaToken *)
| KPipe                  (* Deb822PipeToken *)
| KValue                 (* Deb822ValueToken *)
| KValueDependency       (* Deb822ValueDependencyToken *)
| KValueDependencyVersionRelationOperator.

Definition tkind_code (k : tkind) : N :=
  match k with
  | KWhitespace => 0 | KSemWhitespace => 1 | KNewlineAfterValue => 2
  | KValueContinuation => 3 | KSpaceSeparator => 4 | KError => 5 | KComment => 6
  | KFieldName => 7 | KSeparator => 8 | KFieldSeparator => 9 | KComma => 10
  | KPipe => 11 | KValue => 12 | KValueDependency => 13
  | KValueDependencyVersionRelationOperator => 14
  end.
Definition tkind_eqb (a b : tkind) : bool := (tkind_code a =? tkind_code b)%N.

(** [isinstance(t, Deb822WhitespaceToken)] = the [is_whitespace] property *)
Definition is_ws_kind (k : tkind) : bool :=
  match k with
  | KWhitespace | KSemWhitespace | KNewlineAfterValue | KValueContinuation
  | KSpaceSeparator => true
  | _ => false
  end.
Definition is_comment_kind (k : tkind) : bool :=
  match k with KComment => true | _ => false end.
Definition is_error_kind (k : tkind) : bool :=
  match k with KError => true | _ => false end.

Record token := mkTok { tk : tkind; ttext : str }.

Definition token_eqb (a b : token) : bool :=
  tkind_eqb (tk a) (tk b) && str_eqb (ttext a) (ttext b).

Definition is_nil {A} (l : list A) : bool :=
  match l with [] => true | _ => false end.

(** [s.endswith("\n")] and ["\n" in s] *)
Definition ends_lf (s : str) : bool :=
  match last_opt s with Some c => (c =? LF)%N | None => false end.
Definition has_lf (s : str) : bool := mem_char LF s.

(** [Deb822Token._verify_token_text]: [true] = no exception. *)
Definition verify_token_text (k : tkind) (text : str) : bool :=
  if has_lf text then
    let single := is_comment_kind k || is_error_kind k in
    if negb single && negb (is_ws_kind k) then false   (* "Only whitespace, error and comment tokens may contain newlines" *)
    else if negb (ends_lf text) then false             (* "... must end on a newline" *)
    else if single && has_lf (removelast text) then false   (* "... must not contain embedded newlines" *)
    else true
  else true.

(** [Deb822Token.__init__] of class [k] *)
Definition mk_token (k : tkind) (text : str) : result token :=
  if is_nil text then Err ValueError                   (* "Tokens must have content" *)
  else if verify_token_text k text then Ok (mkTok k text)
  else Err ValueError.

(** [if s: yield Cls(s)] *)
Definition opt_token (k : tkind) (s : str) : result (list token) :=
  if is_nil s then Ok [] else do t <- mk_token k s; Ok [t].

(** [Deb822NewlineAfterValueToken()] : the text is the constant "\n", which
    passes the constructor check by computation. *)
Definition newline_token : token := mkTok KNewlineAfterValue [LF].

(** Split off the maximal run of trailing [p]-characters:
    [rspan p s = (s.rstrip(p), the stripped tail)]. *)
Fixpoint rspan (p : N -> bool) (s : str) : str * str :=
  match s with
  | [] => ([], [])
  | c :: s' =>
      let (a, b) := rspan p s' in
      if is_nil a && p c then ([], c :: b) else (c :: a, b)
  end.

(** The capture groups of [_RE_FIELD_LINE.match(line)]; the separator group is
    always ":".  [fm_unmatched] is the text after the end of the match
    ([line[m.end():]]), which [match] (as opposed to [fullmatch]) ignores. *)
Record field_match := mkFM {
  fm_name : str;
  fm_space_before : str;
  fm_value : option (str * str);       (* (value, space_after_value); None = the optional group did not take part *)
  fm_unmatched : str;
}.

Section Tokenizer.
Variable is_space : N -> bool.                 (* \s of a str pattern *)
Variables name_first name_rest : N -> bool.    (* the two classes of (?P<field_name> ...) *)

(** [_RE_WHITESPACE_LINE.match(s)] : [^\s+$] *)
Definition is_ws_line (s : str) : bool := negb (is_nil s) && forallb is_space s.

(** Leaf for [_RE_FIELD_LINE]:
      ^ (first)(rest)* : \s* (?: (\S(?:.*\S)?) (\s* ) )?
    Greedy choices are forced: ':' is in neither name class, so the name is the
    maximal run; after the maximal [\s*] the next character is a non-space, so
    the optional group takes part iff something is left; [.*\S] ends at the last
    non-space character before the first LF ('.' does not match LF). *)
Definition match_field_line (s : str) : option field_match :=
  match s with
  | [] => None
  | c :: r =>
      if name_first c then
        let (nm, r1) := span name_rest r in
        match r1 with
        | d :: r2 =>
            if (d =? COLON)%N then
              let (sb, r3) := span is_space r2 in
              match r3 with
              | [] => Some (mkFM (c :: nm) sb None [])
              | v0 :: r4 =>
                  let (run, after) := span (fun x => negb (x =? LF)%N) r4 in
                  let (body, trail) := rspan is_space run in
                  let (sa, rest) := span is_space (trail ++ after) in
                  Some (mkFM (c :: nm) sb (Some (v0 :: body, sa)) rest)
              end
            else None
        | [] => None
        end
      else None
  end.

(** [if space_after: emit_newline_token = space_after.endswith('\n');
     if emit_newline_token: space_after = space_after[:-1]] *)
Definition split_newline (sa : str) : str * bool :=
  if negb (is_nil sa) && ends_lf sa then (removelast sa, true) else (sa, false).

(** The [if field_line_match:] block. *)
Definition field_line_tokens (m : field_match) : result (list token) :=
  let '(sb, v, sa) :=
    match fm_value m with
    | None => ([], [], fm_space_before m)           (* value is None: space_after := space_before *)
    | Some (v, sa) =>
        if is_nil v                                  (* value == '' *)
        then ([], [], if is_nil sa then fm_space_before m else fm_space_before m ++ sa)
        else (fm_space_before m, v, sa)
    end in
  let '(sa', nl) := split_newline sa in
  do t_name <- mk_token KFieldName (fm_name m);
  do t_sep <- mk_token KFieldSeparator [COLON];
  do t_sb <- opt_token KWhitespace sb;
  do t_v <- opt_token KValue v;
  do t_sa <- opt_token KWhitespace sa';
  Ok (t_name :: t_sep :: t_sb ++ t_v ++ t_sa ++ (if nl then [newline_token] else [])).

(** [line += "".join(fx(x) for x in text_stream.takewhile(pred))], then the
    whitespace token, then the rest of the loop ([k]) on what takewhile left. *)
Definition merge_ws (k : list str -> result (list token))
    (pred : str -> bool) (fx : str -> str) : str -> list str -> result (list token) :=
  fix go (acc : str) (r : list str) {struct r} : result (list token) :=
    match r with
    | x :: r' =>
        if pred x then go (acc ++ fx x) r'
        else do t <- mk_token KWhitespace acc; do ts <- k r; Ok (t :: ts)
    | [] => do t <- mk_token KWhitespace acc; Ok [t]
    end.

(** Body of [for no, line in enumerate(text_stream, start=1)].
    [ac] = auto_correct_newlines, [cur] = current_field_name. *)
Fixpoint tokenize_loop (ac : bool) (cur : option str) (ls : list str) {struct ls}
    : result (list token) :=
  match ls with
  | [] => Ok []
  | raw :: rest =>
      do line <- (if ac then
                    if ends_lf raw then Err ValueError     (* "Input is inconsistent with its line endings" *)
                    else Ok (raw ++ [LF])
                  else Ok raw);
      do _ <- (if ends_lf line then Ok tt
               else if negb (is_nil rest) then Err ValueError      (* not the last line *)
               else if is_nil line then Err ValueError             (* completely empty *)
               else Ok tt);
      if is_ws_line line then
        if ac then
          merge_ws (tokenize_loop ac None)
            (fun x => is_ws_line x && negb (ends_lf x)) (fun x => x ++ [LF]) line rest
        else if ends_lf line then
          merge_ws (tokenize_loop ac None)
            (fun x => is_ws_line x && ends_lf x) (fun x => x) line rest
        else
          do t <- mk_token KWhitespace line;
          do ts <- tokenize_loop ac None rest;
          Ok (t :: ts)
      else
        match line with
        | [] => Err IndexError                      (* line[0]; '' was rejected above *)
        | c0 :: body =>
            if (c0 =? HASH)%N then
              do t <- mk_token KComment line;
              do ts <- tokenize_loop ac cur rest;
              Ok (t :: ts)
            else if (c0 =? SP)%N || (c0 =? TAB)%N then
              match cur with
              | Some _ =>
                  let '(v, nl) := if ends_lf line then (removelast body, true) else (body, false) in
                  do t1 <- mk_token KValueContinuation [c0];
                  do t2 <- mk_token KValue v;
                  do ts <- tokenize_loop ac cur rest;
                  Ok (t1 :: t2 :: (if nl then [newline_token] else []) ++ ts)
              | None =>
                  do t <- mk_token KError line;
                  do ts <- tokenize_loop ac cur rest;
                  Ok (t :: ts)
              end
            else
              match match_field_line line with
              | Some m =>
                  do fts <- field_line_tokens m;
                  do ts <- tokenize_loop ac (Some (fm_name m)) rest;
                  Ok (fts ++ ts)
              | None =>
                  do t <- mk_token KError line;
                  do ts <- tokenize_loop ac cur rest;
                  Ok (t :: ts)
              end
        end
  end.

(** The peek-based decision before the loop. *)
Definition auto_correct_newlines (ls : list str) : bool :=
  match ls with
  | first :: _ :: _ => negb (ends_lf first)
  | _ => false
  end.

Definition tokenize (ls : list str) : result (list token) :=
  tokenize_loop (auto_correct_newlines ls) None ls.

End Tokenizer.
