(** C10 proofs, part 3: the relocation loops of the duplicate-fields class in
    closed form.  On a list with distinct node identities

      order_first   (reversed loop, head special case)   moved ++ others
      order_last    (loop, tail special case)            others ++ moved
      order_before  (loop)       others-before-ref ++ moved ++ ref :: others-after-ref
      order_after   (reversed)   others-up-to-ref ++ moved ++ others-after-ref

    where "moved" are the nodes of the relocation list in the order of that list. *)
From Coq Require Import Permutation.
From Verif Require Import Lib.Base Lib.PyStr Gen.PyChars Repro.Doc Repro.StructSort
  Repro.Struct Repro.StructSpec Repro.StructLemmas Repro.StructProofsPN Repro.StructProofsPD1.

Definition isin (xs : list N) (nf : N * field) : bool := existsb (N.eqb (fst nf)) xs.
Definition notin (xs : list N) (nf : N * field) : bool := negb (isin xs nf).
Definition nodes_of (xs : list N) (o : order) : order :=
  flat_map (fun x => filter (is_node x) o) xs.

Lemma filter_perm {A} (p : A -> bool) l :
  Permutation (filter p l ++ filter (fun x => negb (p x)) l) l.
Proof.
  induction l as [|x l IH]; cbn; [constructor|].
  destruct (p x); cbn.
  - now constructor.
  - symmetry. etransitivity; [|apply Permutation_middle]. constructor. now symmetry.
Qed.

Lemma ids_perm (o o' : order) : Permutation o o' -> Permutation (ids o) (ids o').
Proof. apply Permutation_map. Qed.

Lemma isin_cons x xs nf : isin (x :: xs) nf = (fst nf =? x)%N || isin xs nf.
Proof. reflexivity. Qed.

Lemma is_node_sym x (nf : N * field) : is_node x nf = (fst nf =? x)%N.
Proof. reflexivity. Qed.

Lemma notin_cons x xs nf : notin (x :: xs) nf = negb (is_node x nf) && notin xs nf.
Proof. unfold notin. rewrite isin_cons, negb_orb. reflexivity. Qed.

Lemma filter_notin_cons x xs (o : order) :
  filter (notin (x :: xs)) o = filter (notin xs) (filter (fun y => negb (is_node x y)) o).
Proof.
  rewrite filter_filter. apply filter_ext. intros nf. apply notin_cons.
Qed.

Lemma take_node_ok (o : order) nf :
  NoDup (ids o) -> In nf o ->
  take_node (fst nf) o = Some (nf, filter (fun y => negb (is_node (fst nf) y)) o).
Proof.
  intros Hn Hin. unfold take_node. rewrite (find_is_node o nf Hn Hin).
  now rewrite (remove_node_filter o (fst nf) Hn).
Qed.

Lemma in_ids_inv (o : order) x : In x (ids o) -> exists nf, In nf o /\ fst nf = x.
Proof. intros H. apply in_map_iff in H as (nf & E & Hin). eauto. Qed.

Lemma filter_others_head (t : order) nf :
  NoDup (ids (nf :: t)) -> filter (fun y => negb (is_node (fst nf) y)) (nf :: t) = t.
Proof.
  intros Hn. inversion Hn as [|? ? Hx Hn']; subst. cbn [filter].
  unfold is_node at 1. rewrite N.eqb_refl. cbn [negb].
  apply filter_all. intros y Hy. apply negb_true_iff. unfold is_node. apply N.eqb_neq.
  intros E. apply Hx. rewrite <- E. now apply in_ids.
Qed.

Lemma nodup_move_front (o : order) nf :
  NoDup (ids o) -> In nf o -> NoDup (ids (nf :: filter (fun y => negb (is_node (fst nf) y)) o)).
Proof.
  intros Hn Hin. apply (Permutation_NoDup (l := ids o)); [|exact Hn].
  apply ids_perm. symmetry.
  change (Permutation ([nf] ++ filter (fun y => negb (is_node (fst nf) y)) o) o).
  rewrite <- (filter_is_node o nf Hn Hin). apply (filter_perm (is_node (fst nf)) o).
Qed.

(** ** one round *)

Lemma step_first_ok (o : order) nf :
  NoDup (ids o) -> In nf o ->
  step_first (Ok o) (fst nf) = Ok (nf :: filter (fun y => negb (is_node (fst nf) y)) o).
Proof.
  intros Hn Hin. unfold step_first. cbn [bind].
  destruct (head_is o (fst nf)) eqn:Eh.
  - destruct o as [|h t]; [discriminate|]. cbn in Eh.
    assert (h = nf).
    { apply (nodup_ids_eq (h :: t)); auto; [now left|]. unfold is_node in Eh. now apply N.eqb_eq in Eh. }
    subst h. now rewrite (filter_others_head t nf Hn).
  - now rewrite (take_node_ok o nf Hn Hin).
Qed.

Lemma step_last_ok (o : order) nf :
  NoDup (ids o) -> In nf o ->
  step_last (Ok o) (fst nf) = Ok (filter (fun y => negb (is_node (fst nf) y)) o ++ [nf]).
Proof.
  intros Hn Hin. unfold step_last. cbn [bind].
  destruct (tail_is o (fst nf)) eqn:Et.
  - unfold tail_is in Et. destruct (last_opt o) as [z|] eqn:El; [|discriminate].
    destruct (last_opt_some_split _ _ El) as (a & ->).
    assert (z = nf).
    { apply (nodup_ids_eq (a ++ [z])); auto; [apply in_or_app; right; now left|].
      unfold is_node in Et. now apply N.eqb_eq in Et. }
    subst z. f_equal. rewrite filter_app. cbn [filter]. unfold is_node at 2. rewrite N.eqb_refl.
    cbn [negb]. rewrite app_nil_r. f_equal. symmetry. apply filter_all.
    intros y Hy. apply negb_true_iff. unfold is_node. apply N.eqb_neq. intros E.
    unfold ids in Hn. rewrite map_app in Hn. cbn in Hn.
    apply NoDup_remove_2 in Hn. apply Hn. rewrite app_nil_r. rewrite <- E. now apply in_ids.
  - now rewrite (take_node_ok o nf Hn Hin).
Qed.

(** ** nodes_of *)

Lemma nodes_of_cons x xs o : nodes_of (x :: xs) o = filter (is_node x) o ++ nodes_of xs o.
Proof. reflexivity. Qed.

Lemma nodes_of_app xs ys o : nodes_of (xs ++ ys) o = nodes_of xs o ++ nodes_of ys o.
Proof. unfold nodes_of. apply flat_map_app. Qed.

(** the nodes of [xs] do not change when a node outside [xs] is dropped or moved *)
Lemma nodes_of_ext xs (o o' : order) :
  (forall x, In x xs -> filter (is_node x) o = filter (is_node x) o') ->
  nodes_of xs o = nodes_of xs o'.
Proof.
  induction xs as [|x xs IH]; intros H; [reflexivity|].
  rewrite !nodes_of_cons, (H x (or_introl eq_refl)). f_equal. apply IH.
  intros y Hy. apply H. now right.
Qed.

Lemma filter_is_node_others x y (o : order) :
  x <> y -> filter (is_node x) (filter (fun z => negb (is_node y z)) o) = filter (is_node x) o.
Proof.
  intros Hne. rewrite filter_filter. apply filter_ext. intros nf. unfold is_node.
  destruct (fst nf =? x)%N eqn:E; [|now rewrite andb_false_r].
  apply N.eqb_eq in E. rewrite E. apply N.eqb_neq in Hne. now rewrite Hne.
Qed.

Lemma nodes_of_in_order (l o : order) :
  NoDup (ids o) -> (forall nf, In nf l -> In nf o) -> nodes_of (map fst l) o = l.
Proof.
  intros Hn. induction l as [|nf l IH]; intros H; [reflexivity|].
  cbn [map]. rewrite nodes_of_cons, (filter_is_node o nf Hn (H nf (or_introl eq_refl))).
  cbn. f_equal. apply IH. intros y Hy. apply H. now right.
Qed.

Lemma nodes_of_filter (p : N * field -> bool) (o : order) :
  NoDup (ids o) -> nodes_of (map fst (filter p o)) o = filter p o.
Proof.
  intros Hn. apply nodes_of_in_order; [exact Hn|]. intros nf H. now apply filter_In in H as [H _].
Qed.

Lemma isin_map_filter (p : N * field -> bool) (o : order) nf :
  NoDup (ids o) -> In nf o -> isin (map fst (filter p o)) nf = p nf.
Proof.
  intros Hn Hin. unfold isin. destruct (p nf) eqn:E.
  - apply existsb_exists. exists (fst nf). split; [|apply N.eqb_refl].
    apply in_map. apply filter_In. now split.
  - destruct (existsb _ _) eqn:F; [|reflexivity].
    apply existsb_exists in F as (x & Hx & Ex). apply N.eqb_eq in Ex. subst x.
    apply in_map_iff in Hx as (nf' & Ef & Hin'). apply filter_In in Hin' as [Hin' Hp].
    rewrite (nodup_ids_eq o nf nf' Hn Hin Hin' (eq_sym Ef)) in E. congruence.
Qed.

Lemma filter_isin_map_filter (p : N * field -> bool) (o : order) :
  NoDup (ids o) ->
  filter (isin (map fst (filter p o))) o = filter p o
  /\ filter (notin (map fst (filter p o))) o = filter (fun x => negb (p x)) o.
Proof.
  intros Hn. split; apply filter_ext_in'; intros nf Hin; unfold notin;
    now rewrite (isin_map_filter p o nf Hn Hin).
Qed.

(** ** order_first: the reversed loop *)

Lemma fold_first (xs : list N) : forall (o : order),
  NoDup (ids o) -> NoDup xs -> (forall x, In x xs -> In x (ids o)) ->
  fold_left step_first xs (Ok o) = Ok (nodes_of (rev xs) o ++ filter (notin xs) o).
Proof.
  induction xs as [|x xs IH]; intros o Hn Hx Hin.
  - cbn. f_equal. symmetry. apply filter_all. reflexivity.
  - inversion Hx as [|? ? Hx1 Hx2]; subst.
    destruct (in_ids_inv o x (Hin x (or_introl eq_refl))) as (nf & Hnf & <-).
    cbn [fold_left]. rewrite (step_first_ok o nf Hn Hnf).
    set (o1 := nf :: filter (fun y => negb (is_node (fst nf) y)) o).
    assert (Hn1 : NoDup (ids o1)) by now apply nodup_move_front.
    assert (Hin1 : forall y, In y xs -> In y (ids o1)).
    { intros y Hy. apply (Permutation_in (l := ids o)); [|apply Hin; now right].
      apply ids_perm. symmetry. unfold o1.
      change (Permutation ([nf] ++ filter (fun y => negb (is_node (fst nf) y)) o) o).
      rewrite <- (filter_is_node o nf Hn Hnf). apply (filter_perm (is_node (fst nf)) o). }
    etransitivity; [exact (IH o1 Hn1 Hx2 Hin1)|]. f_equal.
    cbn [rev]. rewrite nodes_of_app. cbn [nodes_of flat_map]. rewrite app_nil_r.
    rewrite (filter_is_node o nf Hn Hnf), <- app_assoc. cbn [app].
    assert (E1 : nodes_of (rev xs) o1 = nodes_of (rev xs) o).
    { apply nodes_of_ext. intros y Hy. apply in_rev in Hy. unfold o1. cbn [filter].
      assert (Hne : y <> fst nf) by (intros ->; contradiction).
      assert (Ef : is_node y nf = false) by (unfold is_node; apply N.eqb_neq; congruence).
      rewrite Ef. now apply filter_is_node_others. }
    rewrite E1. f_equal.
    unfold o1. cbn [filter].
    assert (E2 : notin xs nf = true).
    { unfold notin, isin. apply negb_true_iff. destruct (existsb _ xs) eqn:F; [|reflexivity].
      apply existsb_exists in F as (y & Hy & Ey). apply N.eqb_eq in Ey. subst y. contradiction. }
    rewrite E2. f_equal. symmetry. apply filter_notin_cons.
Qed.

(** ** order_last: the loop *)

Lemma nodup_move_back (o : order) nf :
  NoDup (ids o) -> In nf o -> NoDup (ids (filter (fun y => negb (is_node (fst nf) y)) o ++ [nf])).
Proof.
  intros Hn Hin. apply (Permutation_NoDup (l := ids o)); [|exact Hn].
  apply ids_perm. symmetry. etransitivity; [apply Permutation_app_comm|].
  rewrite <- (filter_is_node o nf Hn Hin) at 1.
  apply (filter_perm (is_node (fst nf)) o).
Qed.

Lemma fold_last (xs : list N) : forall (o : order),
  NoDup (ids o) -> NoDup xs -> (forall x, In x xs -> In x (ids o)) ->
  fold_left step_last xs (Ok o) = Ok (filter (notin xs) o ++ nodes_of xs o).
Proof.
  induction xs as [|x xs IH]; intros o Hn Hx Hin.
  - cbn. rewrite app_nil_r. f_equal. symmetry. apply filter_all. reflexivity.
  - inversion Hx as [|? ? Hx1 Hx2]; subst.
    destruct (in_ids_inv o x (Hin x (or_introl eq_refl))) as (nf & Hnf & <-).
    cbn [fold_left]. rewrite (step_last_ok o nf Hn Hnf).
    set (o1 := filter (fun y => negb (is_node (fst nf) y)) o ++ [nf]).
    assert (Hn1 : NoDup (ids o1)) by now apply nodup_move_back.
    assert (Hin1 : forall y, In y xs -> In y (ids o1)).
    { intros y Hy. apply (Permutation_in (l := ids o)); [|apply Hin; now right].
      apply ids_perm. symmetry. unfold o1. etransitivity; [apply Permutation_app_comm|].
      rewrite <- (filter_is_node o nf Hn Hnf) at 1. apply (filter_perm (is_node (fst nf)) o). }
    etransitivity; [exact (IH o1 Hn1 Hx2 Hin1)|]. f_equal.
    rewrite nodes_of_cons, (filter_is_node o nf Hn Hnf).
    assert (E1 : nodes_of xs o1 = nodes_of xs o).
    { apply nodes_of_ext. intros y Hy. unfold o1. rewrite filter_app. cbn [filter].
      assert (Hne : y <> fst nf) by (intros ->; contradiction).
      assert (Ef : is_node y nf = false) by (unfold is_node; apply N.eqb_neq; congruence).
      rewrite Ef, app_nil_r. now apply filter_is_node_others. }
    rewrite E1. unfold o1. rewrite filter_app. cbn [filter].
    assert (E2 : notin xs nf = true).
    { unfold notin, isin. apply negb_true_iff. destruct (existsb _ xs) eqn:F; [|reflexivity].
      apply existsb_exists in F as (y & Hy & Ey). apply N.eqb_eq in Ey. subst y. contradiction. }
    rewrite E2, <- filter_notin_cons, <- app_assoc. reflexivity.
Qed.

(** ** order_before / order_after *)

Definition rm (x : N) (o : order) : order := filter (fun y => negb (is_node x y)) o.

Lemma ins_before_ok ref x (L : order) refn B :
  fst refn = ref -> (forall y, In y L -> fst y <> ref) ->
  ins_before ref x (L ++ refn :: B) = Some (L ++ x :: refn :: B).
Proof.
  intros Hr. induction L as [|y L IH]; intros HL; cbn.
  - unfold is_node. rewrite Hr, N.eqb_refl. reflexivity.
  - assert (E : is_node ref y = false).
    { unfold is_node. apply N.eqb_neq. apply HL. now left. }
    rewrite E, IH; [reflexivity|]. intros z Hz. apply HL. now right.
Qed.

Lemma ins_after_ok ref x (L : order) refn B :
  fst refn = ref -> (forall y, In y L -> fst y <> ref) ->
  ins_after ref x (L ++ refn :: B) = Some (L ++ refn :: x :: B).
Proof.
  intros Hr. induction L as [|y L IH]; intros HL; cbn.
  - unfold is_node. rewrite Hr, N.eqb_refl. reflexivity.
  - assert (E : is_node ref y = false).
    { unfold is_node. apply N.eqb_neq. apply HL. now left. }
    rewrite E, IH; [reflexivity|]. intros z Hz. apply HL. now right.
Qed.

Lemma rm_absent x (o : order) : (forall y, In y o -> fst y <> x) -> rm x o = o.
Proof.
  intros H. apply filter_all. intros y Hy. apply negb_true_iff. unfold is_node.
  apply N.eqb_neq. now apply H.
Qed.

Lemma rm_app x a b : rm x (a ++ b) = rm x a ++ rm x b.
Proof. apply filter_app. Qed.

Lemma in_rm x o y : In y (rm x o) -> In y o /\ fst y <> x.
Proof.
  unfold rm. intros H. apply filter_In in H as [H1 H2]. split; [exact H1|].
  apply negb_true_iff in H2. unfold is_node in H2. now apply N.eqb_neq.
Qed.

Lemma nodup_ids_disjoint (a b : order) y z :
  NoDup (ids (a ++ b)) -> In y a -> In z b -> fst y <> fst z.
Proof.
  unfold ids. rewrite map_app. intros Hn Hy Hz E.
  induction a as [|h a IH]; [destruct Hy|]. cbn in Hn. inversion Hn as [|? ? Hh Hn']; subst.
  destruct Hy as [->|Hy].
  - apply Hh. apply in_or_app. right. rewrite E. now apply (in_map fst).
  - now apply IH.
Qed.

Section Rel.
Variable after : bool.
Variable refn : N * field.

Definition rel_state (A D1 D2 B0 : order) : order := A ++ D1 ++ refn :: D2 ++ B0.

Lemma rel_state_perm A D1 D2 B0 :
  Permutation (rel_state A D1 D2 B0) ((D1 ++ refn :: D2) ++ (A ++ B0)).
Proof.
  unfold rel_state.
  transitivity ((D1 ++ refn :: D2 ++ B0) ++ A); [apply Permutation_app_comm|].
  rewrite <- !app_assoc. apply Permutation_app_head. cbn [app]. constructor.
  rewrite <- app_assoc. apply Permutation_app_head. apply Permutation_app_comm.
Qed.

Lemma rel_nodup_AB A D1 D2 B0 : NoDup (ids (rel_state A D1 D2 B0)) -> NoDup (ids (A ++ B0)).
Proof.
  intros H. apply (Permutation_NoDup (ids_perm _ _ (rel_state_perm A D1 D2 B0))) in H.
  unfold ids in H. rewrite map_app in H. now apply NoDup_app_r in H.
Qed.

Lemma rel_disjoint A D1 D2 B0 y z :
  NoDup (ids (rel_state A D1 D2 B0)) -> In y (D1 ++ refn :: D2) -> In z (A ++ B0) -> fst y <> fst z.
Proof.
  intros H. apply (Permutation_NoDup (ids_perm _ _ (rel_state_perm A D1 D2 B0))) in H.
  now apply nodup_ids_disjoint.
Qed.

Lemma step_rel_ok A D1 D2 B0 nf :
  NoDup (ids (rel_state A D1 D2 B0)) -> In nf (A ++ B0) ->
  step_rel after (fst refn) (Ok (rel_state A D1 D2 B0)) (fst nf) =
  Ok (if after then rel_state (rm (fst nf) A) D1 (nf :: D2) (rm (fst nf) B0)
      else rel_state (rm (fst nf) A) (D1 ++ [nf]) D2 (rm (fst nf) B0)).
Proof.
  intros Hn Hin. unfold step_rel. cbn [bind].
  assert (HinS : In nf (rel_state A D1 D2 B0)).
  { apply (Permutation_in (l := (D1 ++ refn :: D2) ++ (A ++ B0))); [symmetry; apply rel_state_perm|].
    apply in_or_app. now right. }
  rewrite (take_node_ok _ nf Hn HinS). fold (rm (fst nf) (rel_state A D1 D2 B0)).
  assert (HD : forall y, In y (D1 ++ refn :: D2) -> fst y <> fst nf).
  { intros y Hy. now apply (rel_disjoint A D1 D2 B0 y nf Hn Hy Hin). }
  assert (E : rm (fst nf) (rel_state A D1 D2 B0) =
              rm (fst nf) A ++ D1 ++ refn :: D2 ++ rm (fst nf) B0).
  { unfold rel_state. rewrite !rm_app.
    rewrite (rm_absent (fst nf) D1) by (intros y Hy; apply HD; apply in_or_app; now left).
    f_equal. f_equal. change (refn :: D2 ++ B0) with ([refn] ++ D2 ++ B0). rewrite !rm_app.
    rewrite (rm_absent (fst nf) [refn]) by (intros y [<-|[]]; apply HD; apply in_or_app; right; now left).
    rewrite (rm_absent (fst nf) D2) by (intros y Hy; apply HD; apply in_or_app; right; now right).
    reflexivity. }
  rewrite E.
  assert (HL : forall y, In y (rm (fst nf) A ++ D1) -> fst y <> fst refn).
  { intros y Hy. apply in_app_or in Hy as [Hy|Hy].
    - apply in_rm in Hy as [Hy _]. intros Eq.
      apply (rel_disjoint A D1 D2 B0 refn y Hn); [apply in_or_app; right; now left| apply in_or_app; now left|congruence].
    - intros Eq. unfold rel_state in Hn. unfold ids in Hn. rewrite !map_app in Hn. cbn [map] in Hn.
      apply NoDup_app_r in Hn. apply NoDup_remove_2 in Hn. apply Hn.
      apply in_or_app. left. rewrite <- Eq. now apply (in_map fst). }
  rewrite app_assoc. destruct after.
  - rewrite (ins_after_ok (fst refn) nf _ refn _ eq_refl HL). unfold rel_state.
    now rewrite <- app_assoc.
  - rewrite (ins_before_ok (fst refn) nf _ refn _ eq_refl HL). unfold rel_state.
    now rewrite <- !app_assoc.
Qed.

Lemma rel_state_step_nodup A D1 D2 B0 nf :
  NoDup (ids (rel_state A D1 D2 B0)) -> In nf (A ++ B0) ->
  NoDup (ids (if after then rel_state (rm (fst nf) A) D1 (nf :: D2) (rm (fst nf) B0)
              else rel_state (rm (fst nf) A) (D1 ++ [nf]) D2 (rm (fst nf) B0))).
Proof.
  intros Hn Hin. apply (Permutation_NoDup (l := ids (rel_state A D1 D2 B0))); [|exact Hn].
  apply ids_perm.
  pose proof (rel_nodup_AB A D1 D2 B0 Hn) as HnAB.
  assert (P : Permutation (A ++ B0) (nf :: rm (fst nf) A ++ rm (fst nf) B0)).
  { rewrite <- rm_app. symmetry.
    change (Permutation ([nf] ++ rm (fst nf) (A ++ B0)) (A ++ B0)).
    rewrite <- (filter_is_node (A ++ B0) nf HnAB Hin). apply filter_perm. }
  etransitivity; [apply rel_state_perm|].
  etransitivity; [apply Permutation_app_head; exact P|].
  symmetry. destruct after.
  - etransitivity; [apply rel_state_perm|].
    rewrite <- !app_assoc. cbn [app]. apply Permutation_app_head. constructor.
    apply Permutation_middle.
  - etransitivity; [apply rel_state_perm|].
    rewrite <- !app_assoc. cbn [app]. apply Permutation_app_head.
    etransitivity; [apply perm_swap|]. constructor. apply Permutation_middle.
Qed.

Lemma fold_rel (xs : list N) : forall A D1 D2 B0,
  NoDup (ids (rel_state A D1 D2 B0)) -> NoDup xs -> (forall x, In x xs -> In x (ids (A ++ B0))) ->
  fold_left (step_rel after (fst refn)) xs (Ok (rel_state A D1 D2 B0)) =
  Ok (filter (notin xs) A ++ D1 ++ (if after then [] else nodes_of xs (A ++ B0)) ++
      refn :: (if after then nodes_of (rev xs) (A ++ B0) else []) ++ D2 ++ filter (notin xs) B0).
Proof.
  induction xs as [|x xs IH]; intros A D1 D2 B0 Hn Hx Hin.
  - cbn [fold_left rev nodes_of flat_map]. f_equal. unfold rel_state.
    rewrite !(filter_all (notin [])) by reflexivity. now destruct after.
  - inversion Hx as [|? ? Hx1 Hx2]; subst.
    destruct (in_ids_inv _ x (Hin x (or_introl eq_refl))) as (nf & Hnf & <-).
    cbn [fold_left]. rewrite (step_rel_ok A D1 D2 B0 nf Hn Hnf).
    pose proof (rel_state_step_nodup A D1 D2 B0 nf Hn Hnf) as Hn1.
    pose proof (rel_nodup_AB A D1 D2 B0 Hn) as HnAB.
    assert (Hin1 : forall y, In y xs -> In y (ids (rm (fst nf) A ++ rm (fst nf) B0))).
    { intros y Hy. rewrite <- rm_app.
      destruct (in_ids_inv _ y (Hin y (or_intror Hy))) as (ny & Hny & <-).
      apply in_ids. apply filter_In. split; [exact Hny|]. apply negb_true_iff. unfold is_node.
      apply N.eqb_neq. intros E. apply Hx1. now rewrite <- E. }
    assert (Enodes : forall ys, (forall y, In y ys -> In y xs) ->
              nodes_of ys (rm (fst nf) A ++ rm (fst nf) B0) = nodes_of ys (A ++ B0)).
    { intros ys Hys. apply nodes_of_ext. intros y Hy. rewrite <- rm_app.
      apply filter_is_node_others. intros ->. apply Hx1. now apply Hys. }
    assert (E2 : forall l, filter (notin (fst nf :: xs)) l = filter (notin xs) (rm (fst nf) l)).
    { intros l. apply filter_notin_cons. }
    destruct after.
    + etransitivity; [exact (IH _ _ _ _ Hn1 Hx2 Hin1)|]. f_equal.
      rewrite !E2. f_equal. f_equal. cbn [app]. f_equal.
      cbn [rev]. rewrite nodes_of_app. cbn [nodes_of flat_map]. rewrite app_nil_r.
      rewrite (filter_is_node _ nf HnAB Hnf).
      rewrite (Enodes (rev xs)) by (intros y Hy; now apply in_rev).
      now rewrite <- !app_assoc.
    + etransitivity; [exact (IH _ _ _ _ Hn1 Hx2 Hin1)|]. f_equal.
      rewrite !E2. f_equal. rewrite <- !app_assoc. f_equal. cbn [app].
      rewrite nodes_of_cons, (filter_is_node _ nf HnAB Hnf).
      rewrite (Enodes xs) by auto. reflexivity.
Qed.

End Rel.
